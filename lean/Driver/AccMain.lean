import Hdc.Py
import Hdc.PyGlue
import Hdc.PyXr
import Hdc.Gen.GlueWhits
import Hdc.Gen.GlueWhitsvc
import Hdc.Gen.GlueWhitswcv
import Hdc.Gen.GlueWhitint
import Hdc.Gen.GlueCroo
import Hdc.Gen.GlueLrooAcc
import Hdc.Gen.GlueAutocorrAcc
import Hdc.Gen.GlueMktrend
import Hdc.Gen.GlueRollingSumAcc
import Hdc.Gen.GlueZonalMean
import Hdc.Gen.GlueMeanGrp
import Hdc.Gen.GlueAnomalies
import Hdc.Gen.GluePeriod
import Hdc.Gen.GlueIteragg
import Hdc.Gen.GlueLinspace
import Hdc.Gen.GlueCalIndices
import Hdc.Gen.GlueSpi
/-
Line-protocol driver `hdc-driver-acc`: DIFFERENTIAL VALIDATION of the glue translators (harness/py2lean_glue*.py).
Every GENERATED accessor program (Hdc/Gen/Glue*.lean) is run with its library parameters instantiated by RECORDING STUBS:
a stub returns a canonical string naming the call (kernel name, argument tokens, the literal keyword arguments of the
pattern).  harness/acc_dispatch.py runs the REAL accessor of /repo with `xarray.apply_ufunc` & co. replaced by recording
stubs that produce the same strings, on the same finite grid of abstract inputs, and compares.

Tokens: `none` = Python None; numbers are short decimal tokens that are ECHOED, never computed with (the only function
of a number the programs need is its Python truth value, `tokNonzero`).  One request per line, one reply per line:
`ok <canonical result>` / `exc <PythonExceptionClass>` / `err bad-op`.

  whits <td> <nodata> <sg> <s> <p>                 whits_dflt <td> <nodata>
  whitsvc <td> <name> <nodata> <lc> <srange> <p>   whitsvc_dflt <td> <name> <nodata>
  whitswcv <td> <name> <nodata> <srange> <p> <robust:1|0|dflt>      whitswcv_dflt <td> <name> <nodata>
  whitint <td> <dtype> <labels:[..]>
  croo <td> <t:v,t:v,..|->                         (per pixel, real semantics of Hdc/PyXr.lean)
  lroo <td>
  autocorr <firstdim> <dims_tail> <dask:0|1> <ntimechunks> <nodata-attr>
  mktrend <nodata-attr>
  rollsum <n> <window> <dim> <dtype> <nodata-arg> <nodata-attr>
  meangrp <td> <groups:[..]> <time_size> <nodata-arg> <nodata-attr>
  zonal <is_dataset> <has_nodata> <zones_is_da> <zones_has_nodata> <dask> <name> <zone_ids:[..]> <dtype> <dim_name>
  anom <ratio|diff> <dflt|offset-token>
  period <idx|midx|yidx|ndays|label|raw|linspace|start_date|end_date> <y-m-d,y-m-d,..>   (DekadPeriod, real semantics of the generated Dekad class)
  tbinit <is_datetime64> <has_time_attr> <time_in_dims>     AccessorTimeBase.__init__
  iteragg <func_given> <has_dim> <dim_is_time> <axis:[lbl,..]> <n|none> <begin|none> <end|none>   (labels are opaque tokens; get_indexer = position on the axis or -1)
  linspace <int|str> <labels:[..]>
  calidx <time:[..]> <begin> <end>                 calidxg <time:[..]> <begin> <end> <groups:[..]> <num_groups|none>
  spi <td> <time:[..]> <cal_begin|none> <cal_end|none> <nodata-arg> <nodata-attr>
  spig <td> <time:[..]> <cal_begin|none> <cal_end|none> <nodata-arg> <nodata-attr> <groups:[str,..]>
-/
open Hdc Hdc.PyGlue Hdc.PyXr Hdc.Gen.Glue

namespace AccDrv

def optTok (t : String) : Option String := if t = "none" then none else some t
def showOpt : Option String → String
  | none => "None"
  | some s => s

def excName : Exc → String
  | .valueError => "ValueError"
  | .keyError => "KeyError"
  | .assertionError => "AssertionError"
  | .typeError => "TypeError"
  | .indexError => "IndexError"
  | .overflowError => "OverflowError"
  | .missingTimeError => "MissingTimeError"
  | .notImplementedError => "NotImplementedError"
  | .other k => s!"Other{k}"

def reply (r : Except Exc String) : String :=
  match r with
  | .ok s => "ok " ++ s
  | .error e => "exc " ++ excName e

/-- Python truth value of a NUMBER given as a decimal token: zero iff no non-zero digit (`nan` / `inf` are truthy) -/
def tokNonzero (t : String) : Bool :=
  t.any (fun c => decide ('1' ≤ c ∧ c ≤ '9')) || t = "nan" || t = "inf" || t = "-inf"

def showL (xs : List String) : String := "[" ++ ",".intercalate xs ++ "]"
def showLL (xs : List (List String)) : String := showL (xs.map showL)
def showIL (xs : List Int) : String := showL (xs.map toString)
def showB (b : Bool) : String := if b then "True" else "False"

def parseIL (t : String) : Option (List Int) :=
  if t.startsWith "[" && t.endsWith "]" then
    let inner := ((t.drop 1).dropEnd 1).toString
    if inner = "" then some [] else (inner.splitOn ",").mapM String.toInt?
  else none

def parseB (t : String) : Option Bool :=
  if t = "1" then some true else if t = "0" then some false else none

def parseSer (t : String) : Option PxSer :=
  if t = "-" then some [] else
  (t.splitOn ",").mapM fun cell =>
    match cell.splitOn ":" with
    | [k, v] => do
      let k ← k.toInt?
      if v = "nan" then pure (k, none) else do
        let n ← v.toNat?
        pure (k, some n)
    | _ => none

def dedup (xs : List Int) : List Int := xs.foldl (fun acc x => if acc.contains x then acc else acc ++ [x]) []

/- the literal keyword arguments of the `apply_ufunc` patterns (sorted by keyword; no quotes, no blanks) -/
def kw (icd : String) (ocd : String) : String :=
  s!"dask=parallelized,input_core_dims={icd},keep_attrs=True,output_core_dims={ocd}"

def nameOr (name : String) : String := if name = "none" || name = "" then "band" else name
def toDataset (name : String) (d : String) : String := s!"ds({d},name={nameOr name})"
def log10f32 (g : String) : String := s!"log10({g}).astype(float32)"
def setSgrid (d v : String) : String := s!"{d}[sgrid]={v}"
def pair (call : String) : String × String := (call ++ "#0", call ++ "#1")

/-- symbolic arithmetic carrier for `Anomalies` -/
structure E where
  s : String
instance : Add E := ⟨fun a b => ⟨s!"({a.s}+{b.s})"⟩⟩
instance : Sub E := ⟨fun a b => ⟨s!"({a.s}-{b.s})"⟩⟩
instance : Mul E := ⟨fun a b => ⟨s!"({a.s}*{b.s})"⟩⟩
instance : Div E := ⟨fun a b => ⟨s!"({a.s}/{b.s})"⟩⟩
instance : OfNat E 100 := ⟨⟨"100"⟩⟩
instance : OfNat E 0 := ⟨⟨"0"⟩⟩

def whitsStubP (l : Option String) (nd : String) (p : Option String) : String :=
  s!"ws2dpgu(obj,{showOpt l},{nd},{showOpt p})|" ++ kw "[[time],[],[],[]]" "[[time]]"
def whitsStubG (l : Option String) (nd : String) : String :=
  s!"ws2dgu(obj,{showOpt l},{nd})|" ++ kw "[[time],[],[]]" "[[time]]"

def svcLc (nd : String) (p lc : Option String) : String × String :=
  pair (s!"ws2doptvplc(obj,{nd},{showOpt p},{showOpt lc})|" ++ kw "[[time],[],[],[]]" "[[time],[]]")
def svcP (nd : String) (p sr : Option String) : String × String :=
  pair (s!"ws2doptvp(obj,{nd},{showOpt p},{showOpt sr})|" ++ kw "[[time],[],[],[dim0]]" "[[time],[]]")
def svcV (nd : String) (sr : Option String) : String × String :=
  pair (s!"ws2doptv(obj,{nd},{showOpt sr})|" ++ kw "[[time],[],[dim0]]" "[[time],[]]")

def wcvP (nd : String) (p sr : Option String) (rb : Bool) : String × String :=
  pair (s!"ws2dwcvp(obj,{nd},{showOpt p},{showOpt sr},{showB rb})|" ++ kw "[[time],[],[],[dim0],[]]" "[[time],[]]")
def wcvV (nd : String) (sr : Option String) (rb : Bool) : String × String :=
  pair (s!"ws2dwcv(obj,{nd},{showOpt sr},{showB rb})|" ++ kw "[[time],[],[dim0],[]]" "[[time],[]]")

/-- the default of `robust` as the translator read it from the `def` line: run `whitswcv_dflt` with stubs that return the flag -/
def robustDefault : Option Bool :=
  match whitswcv_dflt (V := Unit) (SR := Unit) (P := Unit) (DA := Bool) (SGr := Unit) (DS := Bool) (LogS := Unit)
      true (fun _ => false) () (fun _ _ _ rb => (rb, ())) () (fun _ _ rb => (rb, ())) id (fun _ => ()) (fun d _ => d) () with
  | .ok b => some b
  | .error _ => none

def parseDates (t : String) : Option (List Hdc.AccPeriod.Instant) :=
  (t.splitOn ",").mapM fun cell =>
    match cell.splitOn "-" with
    | [y, m, d] => do
      let y ← y.toInt?; let m ← m.toInt?; let d ← d.toInt?
      pure ⟨y, m, d, 0⟩
    | _ => none

def showDT (t : Hdc.PyDate.DateTime) : String :=
  let (yy, mm, dd) := t.ymd; s!"{yy}-{mm}-{dd}+{t.us}"

def pyErr {α : Type} (f : α → String) (e : Except Py.PyErr (List α)) : String :=
  match e with
  | .ok xs => "ok " ++ showL (xs.map f)
  | .error k => s!"exc {repr k}"


/-! ### the four older glue programs (iteragg, to_linspace, get_calibration_indices, spi) -/

def parseSL (t : String) : Option (List String) :=
  if t.startsWith "[" && t.endsWith "]" then
    let inner := ((t.drop 1).dropEnd 1).toString
    if inner = "" then some [] else some (inner.splitOn ",")
  else none

def parseOI (t : String) : Option (Option Int) :=
  if t = "none" then some none else t.toInt?.map some

/-- `_index.get_indexer([lbl])[0]` with `method=None` on a unique axis: the position or -1 -/
def posOf (axis : List String) (t : String) : Int :=
  match axis.findIdx? (· = t) with
  | some i => (i : Int)
  | none => -1

/-- `str(_index[i])` (display only; Python's negative indices wrap) -/
def lblAt (axis : List String) (i : Int) : String :=
  match getItem axis i with
  | .ok s => s
  | .error _ => "IndexError"

def showILL (t : List (List Int)) : String := showL (t.map showIL)

/-- `ndarray.searchsorted(v, side)` on an ascending integer array -/
def ssorted (x : List Int) (v : Int) (side : String) : Except Exc Int :=
  if side = "left" then .ok (Hdc.Py.searchLeft x v : Nat)
  else if side = "right" then .ok (Hdc.Py.searchRight x v : Nat)
  else .error .valueError

def arrInt16 (t : List (List Int)) : Except Exc (List (List Int)) :=
  if t.all (fun r => r.all fun v => decide (-32768 ≤ v ∧ v ≤ 32767)) then .ok t else .error .overflowError

def uniqLen (g : List Int) : Int := ((Hdc.Py.unique g).length : Int)

def linspaceOf {L : Type} [LT L] [DecidableLT L] [DecidableEq L] (x : List L) : Except Exc ((List Int) × (List L)) :=
  to_linspace (fun keys v => v.map fun e => ((Hdc.Py.searchLeft keys e : Nat) : Int)) x

def spiKw : String :=
  "dask=parallelized,dask_gufunc_kwargs={meta:obj.astype(int16).data}"

def step (line : String) : String :=
  let toks := (line.trimAscii.toString.splitOn " ").filter (· ≠ "")
  let r : Option String := match toks with
  | ["whits", td, nd, sg, s, p] => do
    let td ← parseB td
    pure <| reply (whits (V := String) (SG := String) (L := String) (P := String) (DA := String)
      td (fun g => s!"pow10({g})") whitsStubP whitsStubG nd (optTok sg) (optTok s) (optTok p))
  | ["whits_dflt", td, nd] => do
    let td ← parseB td
    pure <| reply (whits_dflt (V := String) (SG := String) (L := String) (P := String) (DA := String)
      td (fun g => s!"pow10({g})") whitsStubP whitsStubG nd)
  | ["whitsvc", td, name, nd, lc, sr, p] => do
    let td ← parseB td
    pure <| reply (whitsvc (V := String) (LC := String) (SR := String) (P := String) (DA := String) (SGr := String)
      (DS := String) (LogS := String)
      td svcLc tokNonzero svcP svcV (toDataset name) log10f32 setSgrid nd (optTok lc) (optTok sr) (optTok p))
  | ["whitsvc_dflt", td, name, nd] => do
    let td ← parseB td
    pure <| reply (whitsvc_dflt (V := String) (LC := String) (SR := String) (P := String) (DA := String) (SGr := String)
      (DS := String) (LogS := String)
      td svcLc tokNonzero svcP svcV (toDataset name) log10f32 setSgrid nd)
  | ["whitswcv", td, name, nd, sr, p, rb] => do
    let td ← parseB td
    let rb ← if rb = "dflt" then robustDefault else parseB rb
    pure <| reply (whitswcv (V := String) (SR := String) (P := String) (DA := String) (SGr := String)
      (DS := String) (LogS := String)
      td tokNonzero "dflt_srange" wcvP "dflt_srange" wcvV (toDataset name) log10f32 setSgrid nd (optTok sr) (optTok p) rb)
  | ["whitswcv_dflt", td, name, nd] => do
    let td ← parseB td
    pure <| reply (whitswcv_dflt (V := String) (SR := String) (P := String) (DA := String) (SGr := String)
      (DS := String) (LogS := String)
      td tokNonzero "dflt_srange" wcvP "dflt_srange" wcvV (toDataset name) log10f32 setSgrid nd)
  | ["whitint", td, dt, labels] => do
    let td ← parseB td
    let labels ← parseIL labels
    pure <| reply (whitint (T := String) (TO := Int) (DA := String)
      td dt (fun n => n)
      (fun t l o => s!"tinterpolate(obj,{t},{showIL l},zeros_u1({o}))|dask=parallelized,dask_gufunc_kwargs=" ++ "{output_sizes:{newtime:" ++ toString o ++ "}}" ++ ",input_core_dims=[[time],[dim0],[dim1],[dim2]],keep_attrs=True,output_core_dims=[[newtime]],output_dtypes=[int16]")
      labels "tmpl")
  | ["croo", td, ser] => do
    let td ← parseB td
    let ser ← parseSer ser
    pure <| reply ((croo_acc td ser).map fun v => match v with | none => "nan" | some n => toString n)
  | ["lroo", td] => do
    let td ← parseB td
    pure <| reply (lroo_acc (Res := String) td
      (fun icd odt keep => s!"lroo(obj)|dask=parallelized,input_core_dims={showLL icd},keep_attrs={showB keep},output_dtypes={showL odt}"))
  | ["autocorr", fd, tail, dask, ntc, nd] => do
    let dask ← parseB dask
    let ntc ← ntc.toInt?
    let rechunked (o : String) : Bool := o.endsWith ".chunk(time=-1)"
    let r := autocorr_acc (Obj := String) (V := String) (Arr := String) (Data := String) (Coords := String) (Dims := String)
      (Res := String)
      "obj" (fun _ => optTok nd) (fun _ => fd) (fun _ => dask) (fun o => if rechunked o then 1 else ntc)
      (fun o => o ++ ".chunk(time=-1)") (fun o => o ++ ".data")
      (fun a nd dt ax => s!"map_blocks(autocorr_tyx,{a},{showOpt nd},drop_axis={ax},dtype={dt})")
      (fun a nd => s!"autocorr_tyx({a},{showOpt nd})")
      (fun _ => "{x:coord:x,y:coord:y}") (fun _ => tail)
      (fun d dims c => s!"DataArray(coords={c},data={d},dims={dims})")
      (fun o nd odt => s!"autocorr({o},{showOpt nd})|dask=parallelized,input_core_dims=[[time],[]],output_dtypes={showL odt}")
    pure <| reply (r.map fun (s, w) => s!"{s} warned={showB w}")
  | ["mktrend", nd] => do
    let kwmk (icd : String) (odt : List String) : String :=
      s!"dask=parallelized,input_core_dims={icd},keep_attrs=True,output_core_dims=[[],[],[],[]],output_dtypes={showL odt}"
    let r := mktrend_acc (V := String) (Outs := String) (Ds := String)
      (optTok nd)
      (fun odt => "_mann_kendall_trend_gu(obj)|" ++ kwmk "[[time]]" odt)
      (fun nd odt => s!"_mann_kendall_trend_gu_nd(obj,{showOpt nd})|" ++ kwmk "[[time],[]]" odt)
      (fun x names => "merge(" ++ showL ((List.range names.length).zip names |>.map fun (i, n) => s!"ds({x}#{i},name={n})") ++ ")")
      (fun d v => s!"{d};trend.nodata={v}")
    pure <| reply (r.map fun (s, w) => s!"{s} warned={showB w}")
  | ["rollsum", n, w, dim, dt, nda, ndattr] => do
    let n ← n.toNat?
    let w ← w.toInt?
    pure <| reply ((rolling_sum_acc (V := String) (C := String)
      (optTok ndattr)
      (fun w nd =>
        let call := s!"rolling_sum(obj,{w},{showOpt nd})|dask=parallelized,dask_gufunc_kwargs=" ++ "{meta:obj.astype(" ++ dt ++ ").data}" ++ s!",input_core_dims=[[{dim}],[],[]],keep_attrs=True,output_core_dims=[[{dim}]]"
        (List.range n).map fun i => s!"{call}#{i}")
      w (optTok nda)).map showL)
  | ["meangrp", td, groups, tsize, nda, ndattr] => do
    let td ← parseB td
    let groups ← parseIL groups
    let tsize ← tsize.toInt?
    pure <| reply (mean_grp_acc (Grp := List Int) (V := String) (Res := String)
      td (optTok ndattr) id tsize (fun g => ((dedup g).length : Int))
      (fun g k nd => s!"mean_grp(obj,{showIL g},{k},{showOpt nd})|dask=parallelized,dask_gufunc_kwargs=" ++ "{meta:obj.data}" ++ ",input_core_dims=[[time],[grps],[],[]],keep_attrs=True,output_core_dims=[[time]]")
      groups (optTok nda))
  | ["zonal", isds, hasnd, zda, znd, dask, name, zids, dt, dimname] => do
    let isds ← parseB isds
    let hasnd ← parseB hasnd
    let zda ← parseB zda
    let znd ← parseB znd
    let dask ← parseB dask
    let zids ← parseIL zids
    pure <| reply (zonal_mean_acc (Z := Int) (DT := String) (Obj := String) (Attrs := String) (Coords := String)
      (Arr := String) (ZArr := String) (Tok := String) (Chunks := String) (V := String) (ZV := String) (Data := String)
      (Res := String)
      "obj" (fun _ => isds) (fun _ => hasnd) zda znd
      (fun o => s!"fill({o})") (fun _ => "{nodata:-9999}") (fun _ => "time")
      (fun d0 _ dn z st stats => "{" ++ s!"{st}:{showL stats},{d0}:coord:{d0},{dn}:{showIL z}" ++ "}")
      (fun d => s!"np.{d}")
      (fun _ => dask) (fun o => s!"{o}.data")
      "zones.data"
      (fun a z d => s!"tokenize({a},{z},{d})")
      (fun n t => s!"{showOpt n}-{t}")
      (fun _ k => s!"[(2,2),({k}),(2)]")
      (fun _ => "-9999") "255"
      (fun a z k v zv ch d nm => s!"map_blocks(do_mean,{a},{z},{k},{v},{zv},chunks={ch},drop_axis=[1,2],name={showOpt nm},new_axis=[1,2],out_dtype={d})")
      (fun a z k v zv d => s!"do_mean({a},{z},{k},{v},{zv},out_dtype={d})")
      (fun d dims c a nm => s!"DataArray(attrs={a},coords={c},data={d},dims=({dims.1},{dims.2.1},{dims.2.2}),name={showOpt nm})")
      zids dt dimname (optTok name))
  | ["period", prop, dates] => do
    let ts ← parseDates dates
    match prop with
    | "idx" => pure ("ok " ++ showIL (period_idx dekadCls ts))
    | "midx" =>
      let (w, r) := period_midx dekadCls ts
      pure (s!"ok {showIL r} warnings={repr w}".replace "Hdc.Gen.Glue.PyWarning." "")
    | "yidx" => pure ("ok " ++ showIL (period_yidx dekadCls ts))
    | "raw" => pure ("ok " ++ showIL (period_raw dekadCls ts))
    | "linspace" => pure ("ok " ++ showIL (period_linspace dekadCls ts))
    | "label" => pure ("ok " ++ showL (period_label dekadCls ts))
    | "ndays" => pure (pyErr toString (period_ndays dekadCls ts))
    | "start_date" => pure (pyErr showDT (period_start_date dekadCls ts))
    | "end_date" => pure (pyErr showDT (period_end_date dekadCls ts))
    | _ => none
  | ["tbinit", dt, ht, td] => do
    let dt ← parseB dt; let ht ← parseB ht; let td ← parseB td
    pure <| reply (timebase_init (Obj := String) (fun _ => dt) (fun _ => ht) (fun _ => td) (fun o => s!"expand_dims({o},time)") "obj")
  | ["iteragg", func, hasdim, istime, axis, n, b, e] => do
    let func ← parseB func; let hasdim ← parseB hasdim; let istime ← parseB istime
    let axis ← parseSL axis
    let n ← parseOI n
    pure <| reply ((iteragg (Lbl := String) (Obj := String)
      hasdim (len axis)
      (fun l => match l with
        | some t => .ok (posOf axis t)
        | none => .error .typeError)
      (len axis)
      (fun a b => s!"{a}:{b}")
      (fun r a b => s!"sel({r};{lblAt axis a};{lblAt axis (b - 1)};{len (slice axis (some a) (some b))})")
      func (fun o => s!"reduce({o})") istime (fun o b => s!"expand({o},{lblAt axis (b - 1)})")
      n (optTok b) (optTok e)).map showL)
  | ["linspace", kind, labels] =>
    if kind = "int" then do
      let xs ← parseIL labels
      pure <| reply ((linspaceOf xs).map fun (a, k) => s!"{showIL a}|{showIL k}")
    else if kind = "str" then do
      let xs ← parseSL labels
      pure <| reply ((linspaceOf xs).map fun (a, k) => s!"{showIL a}|{showL k}")
    else none
  | ["calidx", time, b, e] => do
    let time ← parseIL time; let b ← b.toInt?; let e ← e.toInt?
    pure <| reply ((get_calibration_indices (D := Int) id ssorted time (b, e) none).map fun (a, z) => s!"({a},{z})")
  | ["calidxg", time, b, e, groups, ng] => do
    let time ← parseIL time; let b ← b.toInt?; let e ← e.toInt?
    let groups ← parseIL groups
    let ng ← parseOI ng
    pure <| reply ((get_calibration_indices_grp (D := Int) id ssorted uniqLen arrInt16 time (b, e) groups ng).map showILL)
  | ["spi", td, time, cb, ce, nda, ndattr] => do
    let td ← parseB td
    let time ← parseIL time
    let cb ← parseOI cb; let ce ← parseOI ce
    pure <| reply (spi (V := String) (Res := String)
      td (optTok ndattr) time (fun o => o.getD 0) ssorted
      (fun nd a b => s!"gammastd_yxt(obj)|{spiKw},input_core_dims=[[time]],keep_attrs=True,kwargs=" ++ "{" ++ s!"cal_start:{a},cal_stop:{b},nodata:{showOpt nd}" ++ "}" ++ ",output_core_dims=[[time]]")
      (fun r a b => s!"{r};spi_calibration_begin={a};spi_calibration_end={b}")
      cb ce (optTok nda))
  | ["spig", td, time, cb, ce, nda, ndattr, groups] => do
    let td ← parseB td
    let time ← parseIL time
    let cb ← parseOI cb; let ce ← parseOI ce
    let groups ← parseSL groups
    pure <| reply (spi_grp (V := String) (Grp := List String) (Key := String) (Res := String)
      td (optTok ndattr) time
      (fun g => match linspaceOf g with
        | .ok r => r
        | .error _ => ([], []))
      (len time) id (fun o => o.getD 0) ssorted uniqLen arrInt16
      (fun g k nd c => s!"gammastd_grp(obj,{showIL g},{k},{showOpt nd},{showILL c})|{spiKw},input_core_dims=[[time],[grps],[],[],[start,stop]],keep_attrs=True,output_core_dims=[[time]]")
      (fun r a b => s!"{r};spi_calibration_begin={a};spi_calibration_end={b}")
      cb ce (optTok nda) groups)
  | ["anom", "ratio", off] =>
    if off = "dflt" then pure ("ok " ++ (anomalies_ratio_default (α := E) ⟨"obj"⟩ ⟨"ref"⟩).s)
    else pure ("ok " ++ (anomalies_ratio (α := E) ⟨"obj"⟩ ⟨"ref"⟩ ⟨off⟩).s)
  | ["anom", "diff", off] =>
    if off = "dflt" then pure ("ok " ++ (anomalies_diff_default (α := E) ⟨"obj"⟩ ⟨"ref"⟩).s)
    else pure ("ok " ++ (anomalies_diff (α := E) ⟨"obj"⟩ ⟨"ref"⟩ ⟨off⟩).s)
  | _ => none
  r.getD "err bad-op"

end AccDrv

partial def loop (h out : IO.FS.Stream) : IO Unit := do
  let line ← h.getLine
  if line.isEmpty then return ()
  out.putStrLn (AccDrv.step line)
  loop h out

def main : IO Unit := do
  loop (← IO.getStdin) (← IO.getStdout)
