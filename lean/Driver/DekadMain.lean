import Hdc.Py
import Hdc.Model.PyDate
import Hdc.Gen.Dekad
/-
Line-protocol driver for the GENERATED model of hdc/algo/dekad.py (Hdc/Gen/Dekad.lean).  A separate executable so that the main
model driver (hand models only) does not depend on any generated file: a change to dekad.py can break this driver, and with it
only the check of C11.
  dekad <y> <m> <d>   everything the class reports for the dekad of a date
  dekadraw <raw>      the same for a raw index, plus the str / parse round trip
  dekadstr <label>    parse a label
-/
open Hdc

def showDT (e : Except Py.PyErr PyDate.DateTime) : String :=
  match e with
  | .ok t => let (yy, mm, dd) := t.ymd; s!"{yy}-{mm}-{dd}+{t.us}"
  | .error k => s!"err:{repr k}"

def step (line : String) : String :=
  let toks := (line.trimAscii.toString.splitOn " ").filter (· ≠ "")
  let r : Option String := match toks with
  | ["dekad", y, m, d] => do
    let y ← y.toInt?; let m ← m.toInt?; let d ← d.toInt?
    let r := Gen.Dekad.ofDate y m d
    let nd := match Gen.Dekad.ndays r with | .ok k => toString k | .error k => s!"err:{repr k}"
    pure s!"ok {r} {Gen.Dekad.year r} {Gen.Dekad.month r} {Gen.Dekad.day r} {Gen.Dekad.idx r} {Gen.Dekad.yidx r} {Gen.Dekad.str r} {showDT (Gen.Dekad.start_date r)} {showDT (Gen.Dekad.end_date r)} {nd}"
  | ["dekadraw", r] => do
    let r ← r.toInt?
    let nd := match Gen.Dekad.ndays r with | .ok k => toString k | .error k => s!"err:{repr k}"
    let back := match Gen.Dekad.ofStr (Gen.Dekad.str r) with | .ok k => toString k | .error k => s!"err:{repr k}"
    pure s!"ok {Gen.Dekad.year r} {Gen.Dekad.month r} {Gen.Dekad.day r} {Gen.Dekad.idx r} {Gen.Dekad.yidx r} {Gen.Dekad.str r} {showDT (Gen.Dekad.start_date r)} {showDT (Gen.Dekad.end_date r)} {nd} {back}"
  | ["dekadstr", lbl] =>
    match Gen.Dekad.ofStr lbl with
    | .ok r => pure s!"ok {r}"
    | .error k => pure s!"err {repr k}"
  | _ => none
  r.getD "err bad-op"

partial def loop (h out : IO.FS.Stream) : IO Unit := do
  let line ← h.getLine
  if line.isEmpty then return ()
  out.putStrLn (step line)
  loop h out

def main : IO Unit := do
  loop (← IO.getStdin) (← IO.getStdout)
