import Hdc.Lemmas.PyNpX
import Hdc.Lemmas.GenNum
import Hdc.Gen.NumAutocorr1d
import Hdc.Gen.NumWs2doptvpCore
import Mathlib.Algebra.Order.Field.Basic
/-
Loop invariants for `Gen.NumKernels.ws2doptvplc_tyx` (Hdc/Gen/NumWs2doptvplcTyx.lean), at the level of the GENERATED callees
(`autocorr_1d_nd`, `ws2doptvpCore`): no hypothesis on the sizes is needed for this part.

  WInvT    the loop over the cells of one pixel: `xx` (nodata -> 0, else the cast cell), `ww` (0 / 1), `ngood`
  pixOut   what one pixel contributes: the rounded column and λ when more than one cell is valid, zeros and 0 otherwise
  PixInv   the two pixel loops: the first `n` pixels (row-major order of (rr, cc)) hold `pixOut`, the others still hold zeros
-/
namespace Hdc.GenNumTyx
open Hdc Hdc.Gen.NumKernels Hdc.PyNpT Hdc.PyNpX
open Hdc.GenKernels (gv)

set_option linter.unusedSectionVars false

variable {α : Type} [Field α] [LinearOrder α] [IsStrictOrderedRing α]

/-- the series of pixel `(r, c)` of the flattened `(nt, nr, nc)` cube -/
def pixSeries (tyx : List Int) (nt nr nc r c : ℕ) : List Int :=
  (List.range nt).map fun t => gD tyx.toArray (pos3 nr nc t r c) 0

/-- `xx`: nodata cells replaced by 0, valid cells cast -/
def cleanI (nodata : Int) (s : List Int) : List α := s.map fun v => if v = nodata then 0 else (v : α)
/-- `ww`: 0 for a nodata cell, 1 for a valid one -/
def wtI (nodata : Int) (s : List Int) : List α := s.map fun v => if v = nodata then 0 else 1
/-- `ngood` -/
def goodI (nodata : Int) (s : List Int) : ℕ := (s.filter fun v => decide (v ≠ nodata)).length

@[simp] theorem cleanI_length (nodata : Int) (s : List Int) : (cleanI nodata s : List α).length = s.length := by
  simp [cleanI]
@[simp] theorem wtI_length (nodata : Int) (s : List Int) : (wtI nodata s : List α).length = s.length := by
  simp [wtI]

/-! ### the loop over the cells of one pixel -/

structure WInvT (nodata : Int) (xr : Array Int) (i : ℕ) (xx ww : Array α) (ngood : ℤ) : Prop where
  sx : xx.size = xr.size
  sw : ww.size = xr.size
  hx : xx.toList.take i = cleanI nodata (xr.toList.take i)
  hw : ww.toList.take i = wtI nodata (xr.toList.take i)
  hn : ngood = (goodI nodata (xr.toList.take i) : ℤ)

theorem WInvT.init (nodata : Int) (xr : Array Int) (xx ww : Array α) (sx : xx.size = xr.size)
    (sw : ww.size = xr.size) : WInvT nodata xr 0 xx ww 0 :=
  ⟨sx, sw, by simp [cleanI], by simp [wtI], by simp [goodI]⟩

theorem wr_eq_wrG (a : Array α) (i : ℤ) (v : α) : wr a i v = wrG a i v := rfl

theorem take_succ_gv (xr : Array Int) (i : ℕ) (hi : i < xr.size) :
    xr.toList.take (i + 1) = xr.toList.take i ++ [gv xr i] := by
  rw [List.take_succ_eq_append_getElem (by simpa using hi)]
  simp [gv, hi]

/-- `xx[i] = 0; ww[i] = 0` -/
theorem WInvT.step_miss {nodata : Int} {xr : Array Int} {i : ℕ} {xx ww : Array α} {ngood ci : ℤ}
    (h : WInvT nodata xr i xx ww ngood) (hi : i < xr.size) (hci : ci = (i : ℤ)) (hv : gv xr i = nodata) :
    WInvT nodata xr (i + 1) (wr xx ci (nat 0)) (wr ww ci (nat 0)) ngood := by
  refine ⟨by simp [wr, h.sx], by simp [wr, h.sw], ?_, ?_, ?_⟩
  · rw [wr_eq_wrG, take_wrG _ _ _ i hci (by rw [h.sx]; exact hi), h.hx, take_succ_gv xr i hi]
    simp [cleanI, hv, nat]
  · rw [wr_eq_wrG, take_wrG _ _ _ i hci (by rw [h.sw]; exact hi), h.hw, take_succ_gv xr i hi]
    simp [wtI, hv, nat]
  · rw [h.hn, take_succ_gv xr i hi]
    simp [goodI, List.filter_append, hv]

/-- `xx[i] = v; ww[i] = 1; ngood += 1` -/
theorem WInvT.step_valid {nodata : Int} {xr : Array Int} {i : ℕ} {xx ww : Array α} {ngood ci : ℤ}
    (h : WInvT nodata xr i xx ww ngood) (hi : i < xr.size) (hci : ci = (i : ℤ)) (hv : ¬ gv xr i = nodata) :
    WInvT nodata xr (i + 1) (wr xx ci ((gv xr i : ℤ) : α)) (wr ww ci (nat 1)) (ngood + 1) := by
  refine ⟨by simp [wr, h.sx], by simp [wr, h.sw], ?_, ?_, ?_⟩
  · rw [wr_eq_wrG, take_wrG _ _ _ i hci (by rw [h.sx]; exact hi), h.hx, take_succ_gv xr i hi]
    simp [cleanI, hv]
  · rw [wr_eq_wrG, take_wrG _ _ _ i hci (by rw [h.sw]; exact hi), h.hw, take_succ_gv xr i hi]
    simp [wtI, hv, nat]
  · rw [h.hn, take_succ_gv xr i hi]
    simp [goodI, List.filter_append, hv]

theorem WInvT.final {nodata : Int} {xr : Array Int} {i : ℕ} {xx ww : Array α} {ngood : ℤ}
    (h : WInvT nodata xr i xx ww ngood) (hi : i = xr.size) :
    xx = (cleanI nodata xr.toList).toArray ∧ ww = (wtI nodata xr.toList).toArray
      ∧ ngood = (goodI nodata xr.toList : ℤ) := by
  subst hi
  have h1 := h.hx
  have h2 := h.hw
  have h3 := h.hn
  rw [List.take_of_length_le (by simp)] at h3
  rw [List.take_of_length_le (by simp [h.sx]), List.take_of_length_le (by simp)] at h1
  rw [List.take_of_length_le (by simp [h.sw]), List.take_of_length_le (by simp)] at h2
  exact ⟨by rw [← h1], by rw [← h2], h3⟩

/-! ### one pixel -/

/-- what the body of the pixel loop stores for a pixel with the series `s` (in terms of the generated callees): the rounded
    column and λ; zeros and 0 when fewer than two cells are valid (nothing is stored: the buffers were created by `np.zeros`) -/
def pixOut (F : VFns α) (rnd : α → Int) (rsqrt : α → α) (eps : α) (g0 g1 : Array α) (c0_5 p : α) (nodata : Int)
    (s : List Int) : List Int × α :=
  if 1 < goodI nodata s then
    let lc := Gen.NumKernels.autocorr_1d_nd rsqrt eps s.toArray nodata
    let res := Gen.NumKernels.ws2doptvpCore F (cleanI nodata s).toArray (wtI nodata s).toArray p
      (if c0_5 < lc then g0 else g1)
    (if res.1.size = s.length then res.1.toList.map rnd else List.replicate s.length 0, res.2)
  else (List.replicate s.length 0, 0)

theorem pixOut_length (F : VFns α) (rnd : α → Int) (rsqrt : α → α) (eps : α) (g0 g1 : Array α) (c0_5 p : α)
    (nodata : Int) (s : List Int) : (pixOut F rnd rsqrt eps g0 g1 c0_5 p nodata s).1.length = s.length := by
  unfold pixOut
  dsimp only
  split_ifs <;> simp [*]

/-! ### the pixel loops -/

/-- after `n` pixels (in the order of the loops: `n = rr * nc + cc`) -/
structure PixInv (nt nr nc : ℕ) (out : ℕ → ℕ → List Int × α) (n : ℕ) (zz : Array Int) (lopts : Array α) : Prop where
  sz : zz.size = nt * nr * nc
  sl : lopts.size = nr * nc
  hz : ∀ t r c, t < nt → r < nr → c < nc →
    gD zz (pos3 nr nc t r c) 0 = if r * nc + c < n then (out r c).1.getD t 0 else 0
  hl : ∀ r c, r < nr → c < nc → gD lopts (r * nc + c) 0 = if r * nc + c < n then (out r c).2 else 0

theorem pix_lt {nr nc r c : ℕ} (hr : r < nr) (hc : c < nc) : r * nc + c < nr * nc := by
  have := Nat.mul_le_mul_right nc (show r + 1 ≤ nr from hr)
  rw [Nat.add_mul, Nat.one_mul] at this
  omega

theorem PixInv.init (nt nr nc : ℕ) (out : ℕ → ℕ → List Int × α) (N M : ℕ) (hN : N = nt * nr * nc)
    (hM : M = nr * nc) : PixInv nt nr nc out 0 (Array.replicate N (0 : Int)) (Array.replicate M (nat 0 : α)) := by
  refine ⟨by simp [hN], by simp [hM], fun t r c ht hr hc => ?_, fun r c hr hc => ?_⟩
  · have := pos3_lt ht hr hc
    simp [gD, Array.getD_eq_getD_getElem?, Array.getElem?_replicate, hN, this]
  · have := pix_lt hr hc
    simp [gD, Array.getD_eq_getD_getElem?, Array.getElem?_replicate, nat, hM, this]

/-- the end of a row: `rr * nc + nc = (rr + 1) * nc` -/
theorem PixInv.cast {nt nr nc : ℕ} {out : ℕ → ℕ → List Int × α} {n m : ℕ} {zz : Array Int} {lopts : Array α}
    (h : PixInv nt nr nc out n zz lopts) (hnm : n = m) : PixInv nt nr nc out m zz lopts := hnm ▸ h

/-- a pixel for which nothing is stored -/
theorem PixInv.skip {nt nr nc : ℕ} {out : ℕ → ℕ → List Int × α} {r c : ℕ} {zz : Array Int} {lopts : Array α}
    (h : PixInv nt nr nc out (r * nc + c) zz lopts) (hc : c < nc)
    (ho : out r c = (List.replicate nt 0, 0)) : PixInv nt nr nc out (r * nc + c + 1) zz lopts := by
  refine ⟨h.sz, h.sl, fun t r' c' ht hr' hc' => ?_, fun r' c' hr' hc' => ?_⟩
  · rw [h.hz t r' c' ht hr' hc']
    by_cases h1 : r' * nc + c' < r * nc + c
    · rw [if_pos h1, if_pos (by omega)]
    · rw [if_neg h1]
      by_cases h2 : r' * nc + c' < r * nc + c + 1
      · obtain ⟨rfl, rfl⟩ := mixed_inj hc' hc (show r' * nc + c' = r * nc + c by omega)
        rw [if_pos h2, ho]
        simp [List.getD_eq_getElem?_getD, List.getElem?_replicate, ht]
      · rw [if_neg h2]
  · rw [h.hl r' c' hr' hc']
    by_cases h1 : r' * nc + c' < r * nc + c
    · rw [if_pos h1, if_pos (by omega)]
    · rw [if_neg h1]
      by_cases h2 : r' * nc + c' < r * nc + c + 1
      · obtain ⟨rfl, rfl⟩ := mixed_inj hc' hc (show r' * nc + c' = r * nc + c by omega)
        rw [if_pos h2, ho]
      · rw [if_neg h2]

/-- a pixel whose column and λ are stored -/
theorem PixInv.store {nt nr nc : ℕ} {out : ℕ → ℕ → List Int × α} {r c : ℕ} {zz : Array Int} {lopts : Array α}
    (h : PixInv nt nr nc out (r * nc + c) zz lopts) (hr : r < nr) (hc : c < nc) (rnd : α → Int) (z : Array α) (lo : α)
    (ho1 : (out r c).1 = if z.size = nt then z.toList.map rnd else List.replicate nt 0) (ho2 : (out r c).2 = lo) :
    PixInv nt nr nc out (r * nc + c + 1)
      (npRoundIntoCol3 rnd z zz (nt : ℤ) (nr : ℤ) (nc : ℤ) (r : ℤ) (c : ℤ))
      (wr lopts (flat2 (nr : ℤ) (nc : ℤ) (r : ℤ) (c : ℤ)) lo) := by
  have hidx : ∀ r' c', r' < nr → c' < nc → (r' * nc + c' < r * nc + c + 1 ↔
      (r' * nc + c' < r * nc + c ∨ (r' = r ∧ c' = c))) := by
    intro r' c' _ hc'
    constructor
    · intro h1
      by_cases h2 : r' * nc + c' < r * nc + c
      · exact Or.inl h2
      · exact Or.inr (mixed_inj hc' hc (by omega))
    · rintro (h1 | ⟨rfl, rfl⟩) <;> omega
  have hzz : (npRoundIntoCol3 rnd z zz (nt : ℤ) (nr : ℤ) (nc : ℤ) (r : ℤ) (c : ℤ)).size = zz.size ∧
      ∀ t r' c', t < nt → r' < nr → c' < nc →
        gD (npRoundIntoCol3 rnd z zz (nt : ℤ) (nr : ℤ) (nc : ℤ) (r : ℤ) (c : ℤ)) (pos3 nr nc t r' c') 0
          = if r' = r ∧ c' = c then (out r c).1.getD t 0 else gD zz (pos3 nr nc t r' c') 0 := by
    by_cases hzs : z.size = nt
    · have := npRoundIntoCol3_spec rnd (0 : Int) z zz nt nr nc r c hr hc hzs h.sz
      rw [ho1, if_pos hzs]
      exact this
    · rw [npRoundIntoCol3_mismatch rnd z zz _ _ _ _ _ (by simpa using hzs), ho1, if_neg hzs]
      refine ⟨rfl, fun t r' c' ht hr' hc' => ?_⟩
      split_ifs with h1
      · obtain ⟨rfl, rfl⟩ := h1
        rw [h.hz t r' c' ht hr' hc', if_neg (by omega)]
        simp [List.getD_eq_getElem?_getD, List.getElem?_replicate, ht]
      · rfl
  refine ⟨by rw [hzz.1, h.sz], by simp [wr, h.sl], fun t r' c' ht hr' hc' => ?_, fun r' c' hr' hc' => ?_⟩
  · rw [hzz.2 t r' c' ht hr' hc', h.hz t r' c' ht hr' hc']
    by_cases h1 : r' = r ∧ c' = c
    · rw [if_pos h1, if_pos ((hidx r' c' hr' hc').2 (Or.inr h1))]
      obtain ⟨rfl, rfl⟩ := h1; rfl
    · rw [if_neg h1]
      by_cases h2 : r' * nc + c' < r * nc + c
      · rw [if_pos h2, if_pos ((hidx r' c' hr' hc').2 (Or.inl h2))]
      · rw [if_neg h2, if_neg (fun h3 => ((hidx r' c' hr' hc').1 h3).elim h2 h1)]
  · rw [wr_eq_wrG, flat2_nat]
    by_cases h1 : r' = r ∧ c' = c
    · obtain ⟨rfl, rfl⟩ := h1
      rw [gD_wrG_self _ _ _ _ _ rfl (by rw [h.sl]; exact pix_lt hr hc), if_pos (by omega), ho2]
    · have hne : r * nc + c ≠ r' * nc + c' := fun he => h1 (by
        obtain ⟨h3, h4⟩ := mixed_inj hc hc' he; exact ⟨h3.symm, h4.symm⟩)
      rw [gD_wrG_ne _ _ _ _ _ (by omega) (by exact_mod_cast hne), h.hl r' c' hr' hc']
      by_cases h2 : r' * nc + c' < r * nc + c
      · rw [if_pos h2, if_pos ((hidx r' c' hr' hc').2 (Or.inl h2))]
      · rw [if_neg h2, if_neg (fun h3 => ((hidx r' c' hr' hc').1 h3).elim h2 h1)]

@[simp] theorem pixSeries_length (tyx : List Int) (nt nr nc r c : ℕ) : (pixSeries tyx nt nr nc r c).length = nt := by
  simp [pixSeries]

/-- `xx_raw[:] = tyx[:, rr, cc]` -/
theorem col_eq_pixSeries (tyx : List Int) (nt nr nc r c : ℕ) (a : Array Int) (ha : a.size = nt)
    {ri ci : ℤ} (hri : ri = (r : ℤ)) (hci : ci = (c : ℤ)) :
    npSetAll a (npCol3 tyx.toArray (0 : Int) (nt : ℤ) (nr : ℤ) (nc : ℤ) ri ci)
      = (pixSeries tyx nt nr nc r c).toArray := by
  subst hri hci
  rw [npCol3_nat, npSetAll_eq _ _ (by simp [ha])]
  rfl

section step
variable (F : VFns α) (rnd : α → Int) (rsqrt : α → α) (eps : α) (g0 g1 : Array α) (c0_5 p : α) (nodata : Int)
  (tyx : List Int) (nt nr nc : ℕ)

/-- the body of the pixel loop when more than one cell is valid -/
theorem pix_step_fit {r c : ℕ} {zz : Array Int} {lopts xx ww : Array α} {ngood : ℤ} {xr : Array Int}
    (h : PixInv nt nr nc (fun r c => pixOut F rnd rsqrt eps g0 g1 c0_5 p nodata (pixSeries tyx nt nr nc r c))
      (r * nc + c) zz lopts) (hr : r < nr) (hc : c < nc) (hxr : xr = (pixSeries tyx nt nr nc r c).toArray)
    (hW : WInvT nodata xr nt xx ww ngood) (hg : 1 < ngood)
    {ri ci : ℤ} (hri : ri = (r : ℤ)) (hci : ci = (c : ℤ)) :
    PixInv nt nr nc (fun r c => pixOut F rnd rsqrt eps g0 g1 c0_5 p nodata (pixSeries tyx nt nr nc r c))
      (r * nc + (c + 1))
      (npRoundIntoCol3 rnd (Gen.NumKernels.ws2doptvpCore F xx ww p
          (if c0_5 < Gen.NumKernels.autocorr_1d_nd rsqrt eps xr nodata then g0 else g1)).1
        zz (nt : ℤ) (nr : ℤ) (nc : ℤ) ri ci)
      (wr lopts (flat2 (nr : ℤ) (nc : ℤ) ri ci) (Gen.NumKernels.ws2doptvpCore F xx ww p
          (if c0_5 < Gen.NumKernels.autocorr_1d_nd rsqrt eps xr nodata then g0 else g1)).2) := by
  subst hxr hri hci
  obtain ⟨hx, hw, hn⟩ := hW.final (by simp)
  simp only [List.toList_toArray] at hx hw hn
  subst hx hw
  have hg' : 1 < goodI nodata (pixSeries tyx nt nr nc r c) := by omega
  rw [← Nat.add_assoc]
  refine h.store hr hc rnd _ _ ?_ ?_
  · simp only [pixOut, if_pos hg', pixSeries_length]
  · simp only [pixOut, if_pos hg']

/-- … when at most one cell is valid: nothing is stored -/
theorem pix_step_skip {r c : ℕ} {zz : Array Int} {lopts xx ww : Array α} {ngood : ℤ} {xr : Array Int}
    (h : PixInv nt nr nc (fun r c => pixOut F rnd rsqrt eps g0 g1 c0_5 p nodata (pixSeries tyx nt nr nc r c))
      (r * nc + c) zz lopts) (hc : c < nc) (hxr : xr = (pixSeries tyx nt nr nc r c).toArray)
    (hW : WInvT nodata xr nt xx ww ngood) (hg : ¬ 1 < ngood) :
    PixInv nt nr nc (fun r c => pixOut F rnd rsqrt eps g0 g1 c0_5 p nodata (pixSeries tyx nt nr nc r c))
      (r * nc + (c + 1)) zz lopts := by
  subst hxr
  obtain ⟨_, _, hn⟩ := hW.final (by simp)
  simp only [List.toList_toArray] at hn
  have hg' : ¬ 1 < goodI nodata (pixSeries tyx nt nr nc r c) := by omega
  rw [← Nat.add_assoc]
  refine h.skip hc ?_
  simp only [pixOut, if_neg hg', pixSeries_length]

end step

/-- after the loops: every pixel holds its result -/
theorem PixInv.final {nt nr nc : ℕ} {out : ℕ → ℕ → List Int × α} {zz : Array Int} {lopts : Array α}
    (h : PixInv nt nr nc out (nr * nc) zz lopts) (hlen : ∀ r c, (out r c).1.length = nt) {r c : ℕ}
    (hr : r < nr) (hc : c < nc) :
    npCol3 zz (0 : Int) (nt : ℤ) (nr : ℤ) (nc : ℤ) (r : ℤ) (c : ℤ) = (out r c).1.toArray ∧
    rd lopts (flat2 (nr : ℤ) (nc : ℤ) (r : ℤ) (c : ℤ)) = (out r c).2 := by
  constructor
  · rw [npCol3_nat]
    congr 1
    apply List.ext_getElem (by simp [hlen])
    intro t h1 h2
    simp only [List.length_map, List.length_range] at h1
    simp only [List.getElem_map, List.getElem_range]
    rw [h.hz t r c h1 hr hc, if_pos (pix_lt hr hc), List.getD_eq_getElem?_getD, List.getElem?_eq_getElem h2]
    rfl
  · have := h.hl r c hr hc
    rw [if_pos (pix_lt hr hc)] at this
    rw [flat2_nat, Hdc.GenNum.rd_of_eq _ _ (r * nc + c) rfl, ← this]
    rfl

end Hdc.GenNumTyx
