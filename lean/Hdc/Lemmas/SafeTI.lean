import Hdc.Lemmas.GenNumTI
import Hdc.Lemmas.SafeBasic
/-
SafeTI  Facts for "under the contract the flag of the instrumented `tinterpolate` is false" (Hdc/Props/SafeTinterpolate.lean),
on top of the loop invariants `Scat` / `Runs` of the refinement proof (Hdc/Lemmas/GenNumTI.lean):

  * at a mark of the template the scatter loop reads `x[jj]` with `jj < nmarks template ≤ len x`;
  * the run-length loop writes `out[kk]` with `kk <` the number of maximal runs of equal labels;
  * a template with non-negative entries and two marks has two positive weights.

Nothing here mentions a generated program.
-/
namespace Hdc.SafeTI
open Hdc Hdc.Gen.NumKernels Hdc.GenNum
open Hdc.Ws2dGen (av)
open Hdc.Ws2d (fnl fnl_of_lt fnl_of_le)
open Hdc.GenKernels (gv lv gv_toArray)
open Hdc.Stats (marksBefore marksBefore_lt_of_mark)

set_option linter.unusedSectionVars false

variable {α : Type} [Field α] [LinearOrder α] [IsStrictOrderedRing α]

/-- the vector `tinterpolate` hands to the smoother -/
def tiTemp (x template : List α) : List α :=
  setLast (scatterMarks template x) (x.getLastD (nat 0))

theorem tiTemp_length (x t : List α) : (tiTemp x t).length = t.length := by
  rw [tiTemp, Stats.setLast_length, Stats.scatterMarks_length]

/-- at a mark, the index `jj` of the observation that is read is in range -/
theorem Scat.mark_bounds {t x : List α} {p : ℕ} {temp : Array α} {ii jj cur : ℤ}
    (h : Scat t x p temp ii jj) (hp : p < t.length) (hm : nmarks t ≤ x.length)
    (hne : (!eqv (rd temp cur) (nat 0)) = true) (hcur : cur = (p : ℤ)) :
    0 ≤ jj ∧ jj < (x.length : ℤ) := by
  have hne' : fnl t p ≠ 0 := by
    rw [rd_of_eq temp cur p hcur, h.rest p (le_refl _)] at hne
    intro h0
    rw [h0] at hne
    simp [(Stats.eqv_iff (0 : α) 0).2 rfl, nat] at hne
  have hne'' : t[p] ≠ 0 := by rwa [fnl_of_lt t p hp] at hne'
  have hlt := marksBefore_lt_of_mark t p hp hne''
  rw [h.hjj]
  unfold nmarks at hm
  omega

theorem runMeans_some_ne_nil (l : List (Int × α)) (s : Int × α × ℕ) : runMeans l (some s) ≠ [] := by
  induction l generalizing s with
  | nil => obtain ⟨a, b, c⟩ := s; simp [runMeans]
  | cons p rest ih =>
    obtain ⟨a, b, c⟩ := s
    obtain ⟨l, z⟩ := p
    rw [runMeans]
    split
    · exact ih _
    · simp

/-- the number of values the run-length loop writes: the number of maximal runs of equal labels -/
theorem runMeans_length (labels : List Int) (zl : List α) (hz : labels.length ≤ zl.length) :
    (runMeans (labels.zip zl) none).length = (labels.splitBy (· == ·)).length := by
  rw [Stats.runMeans_spanSums _ _ hz, Stats.spanSums_length, List.length_map]

/-- the cell the run-length loop writes next exists when the buffer has one cell per run -/
theorem Runs.kk_bounds {labels : List Int} {zl : List α} {g : α × ℕ → α} {out0 out : Array α}
    {p : ℕ} {ii jj kk : ℤ} {v : α} (h : Runs labels zl g out0 p out ii jj kk v)
    (hz : labels.length ≤ zl.length) (hl : (labels.splitBy (· == ·)).length ≤ out0.size) :
    0 ≤ kk ∧ kk < (out.size : ℤ) := by
  obtain ⟨done, k, hii, hjj, hkk, hs, hd, hm⟩ := h
  have h1 := congrArg List.length hm
  rw [List.length_append, runMeans_length labels zl hz] at h1
  have h2 : 0 < (runMeans ((labels.zip zl).drop (p + 1)) (some (lv labels p, v, k))).length :=
    List.length_pos_iff.2 (runMeans_some_ne_nil _ _)
  rw [hkk, hs]
  omega

theorem Runs.out_size {labels : List Int} {zl : List α} {g : α × ℕ → α} {out0 out : Array α}
    {p : ℕ} {ii jj kk : ℤ} {v : α} (h : Runs labels zl g out0 p out ii jj kk v) :
    out.size = out0.size := by
  obtain ⟨done, k, hii, hjj, hkk, hs, hd, hm⟩ := h
  exact hs

/-- two marks on a non-negative template are two positive weights -/
theorem two_pos_of_nmarks (t : List α) (hnn : ∀ v ∈ t, 0 ≤ v) (h2 : 2 ≤ nmarks t) :
    ∃ i j, i < j ∧ j < t.length ∧ 0 < C01.fn t i ∧ 0 < C01.fn t j := by
  induction t with
  | nil => simp [nmarks] at h2
  | cons a ts ih =>
    have hnn' : ∀ v ∈ ts, 0 ≤ v := fun v hv => hnn v (List.mem_cons_of_mem _ hv)
    by_cases ha : a = 0
    · have h2' : 2 ≤ nmarks ts := by
        unfold nmarks at h2 ⊢
        rw [List.countP_cons_of_neg (by simp [ha])] at h2
        exact h2
      obtain ⟨i, j, hij, hj, hi0, hj0⟩ := ih hnn' h2'
      refine ⟨i + 1, j + 1, by omega, by simpa using hj, ?_, ?_⟩
      · simpa [C01.fn] using hi0
      · simpa [C01.fn] using hj0
    · have h1 : 0 < ts.countP (fun v => decide (v ≠ 0)) := by
        unfold nmarks at h2
        rw [List.countP_cons_of_pos (by simp [ha])] at h2
        omega
      obtain ⟨b, hb, hb0⟩ := List.countP_pos_iff.1 h1
      obtain ⟨j, hj, rfl⟩ := List.getElem_of_mem hb
      have hb0' : ts[j] ≠ 0 := by simpa using hb0
      have hapos : 0 < a := lt_of_le_of_ne (hnn a (List.mem_cons_self)) (Ne.symm ha)
      have hbpos : 0 < ts[j] := lt_of_le_of_ne (hnn' _ hb) (Ne.symm hb0')
      refine ⟨0, j + 1, by omega, by simpa using hj, by simpa [C01.fn] using hapos, ?_⟩
      simp only [C01.fn, List.getD_eq_getElem?_getD, List.getElem?_cons_succ,
        List.getElem?_eq_getElem hj, Option.getD_some]
      exact hbpos

end Hdc.SafeTI
