import Hdc.Lemmas.StatsBasic
import Hdc.Props.C06core
import Mathlib.Data.List.SplitBy
import Mathlib.Tactic.FieldSimp
import Mathlib.Data.List.TakeWhile
import Mathlib.Data.List.SplitLengths
import Mathlib.Algebra.BigOperators.Intervals

/-
Lemmas for C20 (temporal interpolation): `scatterMarks`/`setLast` cell by cell, the recursion of
`List.splitBy (· == ·)` through `takeWhile`/`dropWhile`, `runMeans` as sums over consecutive
spans, and the daily curve of `tinterp` for observations on a straight line (via
`C01.ws2d_affine`).  `marksBefore` and `spanSums` are verbatim copies of `C20.rank` and
`C20.spanSums`.
-/
namespace Hdc.Stats
open Hdc.C01 (fn fn_of_lt InContract ws2d_affine ws2d_length)
set_option linter.unusedSectionVars false
variable {α : Type} [Field α] [LinearOrder α] [IsStrictOrderedRing α]

/-- number of nonzero cells strictly before position `i` -/
def marksBefore (t : List α) (i : ℕ) : ℕ := (t.take i).countP (fun v => decide (v ≠ 0))

theorem marksBefore_zero (t : List α) : marksBefore t 0 = 0 := by simp [marksBefore]

theorem marksBefore_cons_succ (a : α) (t : List α) (i : ℕ) :
    marksBefore (a :: t) (i + 1) = marksBefore t i + (if a = 0 then 0 else 1) := by
  unfold marksBefore
  rw [List.take_succ_cons, List.countP_cons]
  by_cases h : a = 0 <;> simp [h]

theorem scatterMarks_cons (a : α) (ts xs : List α) :
    scatterMarks (a :: ts) xs =
      if eqv a (nat 0) then a :: scatterMarks ts xs
      else match xs with
        | x :: xs' => x :: scatterMarks ts xs'
        | [] => a :: scatterMarks ts [] := by
  cases xs <;> simp [scatterMarks]

theorem scatterMarks_length (t x : List α) : (scatterMarks t x).length = t.length := by
  induction t generalizing x with
  | nil => simp [scatterMarks]
  | cons a ts ih =>
    rw [scatterMarks_cons]
    split
    · simp [ih]
    · cases x <;> simp [ih]

theorem scatterMarks_getElem? (t x : List α) (i : ℕ) :
    (scatterMarks t x)[i]? =
      t[i]?.map (fun v => if v = 0 then 0 else x.getD (marksBefore t i) v) := by
  induction t generalizing x i with
  | nil => simp [scatterMarks]
  | cons a ts ih =>
    rw [scatterMarks_cons]
    by_cases ha : a = 0
    · have : eqv a (nat 0) = true := by rw [eqv_iff]; simpa using ha
      rw [if_pos this]
      cases i with
      | zero => simp [ha]
      | succ i => simp [ih, marksBefore_cons_succ, ha]
    · have : ¬ eqv a (nat 0) = true := by rw [eqv_iff]; simpa using ha
      rw [if_neg this]
      cases x with
      | nil =>
        cases i with
        | zero => simp [ha]
        | succ i => simp [ih]
      | cons b xs =>
        cases i with
        | zero => simp [ha, marksBefore_zero]
        | succ i => simp [ih, marksBefore_cons_succ, ha]

theorem setLast_eq (l : List α) (v : α) : setLast l v = l.set (l.length - 1) v := by
  induction l using List.reverseRecOn with
  | nil => simp [setLast]
  | append_singleton l a _ => simp [setLast]


theorem marksBefore_succ (t : List α) (i : ℕ) (hi : i < t.length) :
    marksBefore t (i + 1) = marksBefore t i + (if t[i] = 0 then 0 else 1) := by
  unfold marksBefore
  rw [List.take_succ_eq_append_getElem hi, List.countP_append]
  by_cases h : t[i] = 0 <;> simp [h]

theorem marksBefore_length (t : List α) :
    marksBefore t t.length = t.countP (fun v => decide (v ≠ 0)) := by
  simp [marksBefore]

theorem marksBefore_le (t : List α) (i : ℕ) :
    marksBefore t i ≤ t.countP (fun v => decide (v ≠ 0)) :=
  (List.take_sublist i t).countP_le

theorem countP_ne_zero_of_bin (t : List α) (hbin : ∀ v ∈ t, v = 0 ∨ v = 1) :
    t.countP (fun v => decide (v ≠ 0)) = t.count 1 := by
  rw [List.count_eq_countP]
  apply List.countP_congr
  intro v hv
  rcases hbin v hv with rfl | rfl <;> simp

theorem marksBefore_lt_of_mark (t : List α) (i : ℕ) (hi : i < t.length) (hm : t[i] ≠ 0) :
    marksBefore t i < t.countP (fun v => decide (v ≠ 0)) := by
  have h1 := marksBefore_succ t i hi
  have h2 := marksBefore_le t (i + 1)
  rw [if_neg hm] at h1
  omega

theorem marksBefore_last_of_mark (t : List α) (hne : 0 < t.length) (hm : t[t.length - 1] ≠ 0) :
    marksBefore t (t.length - 1) + 1 = t.countP (fun v => decide (v ≠ 0)) := by
  have h1 := marksBefore_succ t (t.length - 1) (by omega)
  rw [if_neg hm] at h1
  rw [← h1, ← marksBefore_length]
  congr 1; omega

theorem two_marks_of_count (t : List α) (h2 : 2 ≤ t.count 1) :
    ∃ i j, i < j ∧ j < t.length ∧ 0 < fn t i ∧ 0 < fn t j := by
  induction t with
  | nil => simp at h2
  | cons a ts ih =>
    by_cases ha : a = 1
    · subst ha
      have h1 : 0 < ts.count 1 := by rw [List.count_cons_self] at h2; omega
      obtain ⟨j, hj, hj1⟩ := List.getElem_of_mem (List.count_pos_iff.1 h1)
      refine ⟨0, j + 1, by omega, by simpa using hj, by simp [fn], ?_⟩
      rw [fn_of_lt _ _ (by simpa using hj)]
      simp [hj1]
    · have h2' : 2 ≤ ts.count 1 := by
        rw [List.count_cons_of_ne ha] at h2; exact h2
      obtain ⟨i, j, hij, hj, hi0, hj0⟩ := ih h2'
      refine ⟨i + 1, j + 1, by omega, by simpa using hj, ?_, ?_⟩
      · simpa [fn] using hi0
      · simpa [fn] using hj0


theorem setLast_length (l : List α) (v : α) : (setLast l v).length = l.length := by
  rw [setLast_eq]; simp

/-- the vector handed to the smoother carries the observation of each mark at that mark -/
theorem temp_at_mark (t x : List α) (hbin : ∀ v ∈ t, v = 0 ∨ v = 1) (hones : t.count 1 = x.length)
    (i : ℕ) (hi : i < t.length) (hm : t[i] ≠ 0) (c : α) (hx : x[marksBefore t i]? = some c) :
    fn (setLast (scatterMarks t x) (x.getLastD (nat 0))) i = c := by
  unfold fn
  rw [setLast_eq, List.getD_eq_getElem?_getD, List.getElem?_set, scatterMarks_length]
  by_cases hl : t.length - 1 = i
  · rw [if_pos hl, if_pos (by omega)]
    have h1 := marksBefore_last_of_mark t (by omega) (by simpa [hl] using hm)
    rw [countP_ne_zero_of_bin t hbin, hones, hl] at h1
    have : x.getLastD (nat 0) = c := by
      rw [List.getLastD_eq_getLast?, List.getLast?_eq_getElem?]
      have : x.length - 1 = marksBefore t i := by omega
      rw [this, hx]; rfl
    rw [this]; rfl
  · rw [if_neg hl, scatterMarks_getElem?]
    simp [hi, hm, hx]

theorem tinterp_curve (lam : α) (t x : List α) (hbin : ∀ v ∈ t, v = 0 ∨ v = 1)
    (hones : t.count 1 = x.length) (h4 : 4 ≤ t.length) (h2 : 2 ≤ x.length) (hlam : 0 < lam)
    (a b : α)
    (hline : ∀ i (hi : i < t.length), t[i] ≠ 0 → x[marksBefore t i]? = some (a + b * (i : α))) :
    ∀ i < t.length,
      fn (ws2d (setLast (scatterMarks t x) (x.getLastD (nat 0))) lam t) i = a + b * (i : α) := by
  have hlen : (setLast (scatterMarks t x) (x.getLastD (nat 0))).length = t.length := by
    rw [setLast_length, scatterMarks_length]
  have hc : InContract (setLast (scatterMarks t x) (x.getLastD (nat 0))) t lam := by
    refine ⟨by rw [hlen]; exact h4, hlen.symm, hlam, ?_, ?_⟩
    · intro v hv; rcases hbin v hv with rfl | rfl <;> simp
    · exact two_marks_of_count t (by rw [hones]; exact h2)
  intro i hi
  refine ws2d_affine hc a b ?_ i (by rw [hlen]; exact hi)
  intro k hk
  have hk' : k < t.length := by
    by_contra hge
    apply hk
    simp [fn, List.getD_eq_getElem?_getD, List.getElem?_eq_none (not_lt.1 hge)]
  have hm : t[k] ≠ 0 := by rwa [fn_of_lt _ _ hk'] at hk
  exact temp_at_mark t x hbin hones k hk' hm _ (hline k hk' hm)


/-! ### runs of equal labels -/

theorem isChain_beq_of_forall_eq (a : Int) (l : List Int) (h : ∀ x ∈ l, x = a) :
    l.IsChain (fun x y => x == y) := by
  induction l with
  | nil => exact List.isChain_nil
  | cons b l ih =>
    cases l with
    | nil => exact List.isChain_singleton _
    | cons c l =>
      rw [List.isChain_cons_cons]
      refine ⟨?_, ih (fun x hx => h x (List.mem_cons_of_mem _ hx))⟩
      rw [h b (by simp), h c (by simp)]; simp

theorem splitBy_beq_cons (a : Int) (l : List Int) :
    (a :: l).splitBy (· == ·) =
      (a :: l.takeWhile (· == a)) :: (l.dropWhile (· == a)).splitBy (· == ·) := by
  have hall : ∀ x ∈ a :: l.takeWhile (· == a), x = a := by
    intro x hx
    rcases List.mem_cons.1 hx with rfl | hx
    · rfl
    · simpa using List.mem_takeWhile_imp hx
  have h1 : a :: l = (a :: l.takeWhile (· == a)) ++ l.dropWhile (· == a) := by
    simp [List.takeWhile_append_dropWhile]
  conv_lhs => rw [h1]
  rw [List.splitBy_append, List.splitBy_of_isChain (List.cons_ne_nil _ _)
    (isChain_beq_of_forall_eq a _ hall)]
  · rfl
  · intro x hx y hy
    have hxa : x = a := hall x (List.mem_of_mem_getLast? hx)
    subst hxa
    have := List.head?_dropWhile_not (fun v => v == x) l
    rw [hy] at this
    dsimp only at this
    rw [beq_eq_false_iff_ne] at this ⊢
    exact fun h => this h.symm

theorem runMeans_some (labels : List Int) (z : List α) (l0 : Int) (v : α) (k : ℕ)
    (hz : labels.length ≤ z.length) :
    runMeans (labels.zip z) (some (l0, v, k)) =
      (v + (z.take (labels.takeWhile (· == l0)).length).sum,
        k + (labels.takeWhile (· == l0)).length) ::
      runMeans ((labels.dropWhile (· == l0)).zip
        (z.drop (labels.takeWhile (· == l0)).length)) none := by
  induction labels generalizing z v k with
  | nil => simp [runMeans]
  | cons l ls ih =>
    cases z with
    | nil => simp at hz
    | cons y ys =>
      have hz' : ls.length ≤ ys.length := by simpa using hz
      by_cases hl : l = l0
      · subst hl
        simp only [List.zip_cons_cons, runMeans, if_true]
        rw [ih ys (v + y) (k + 1) hz']
        simp [add_assoc, add_comm 1]
      · simp [runMeans, hl]


theorem length_dropWhile_add (p : Int → Bool) (l : List Int) :
    (l.takeWhile p).length + (l.dropWhile p).length = l.length := by
  rw [← List.length_append, List.takeWhile_append_dropWhile]

theorem runMeans_none (labels : List Int) (z : List α) (hz : labels.length ≤ z.length) :
    runMeans (labels.zip z) none =
      (((labels.splitBy (· == ·)).map List.length).splitLengths z).map
        (fun c => (c.sum, c.length)) := by
  induction hn : labels.length using Nat.strong_induction_on generalizing labels z with
  | _ n ih =>
    cases labels with
    | nil => simp [runMeans]
    | cons a l =>
      cases z with
      | nil => simp at hz
      | cons y ys =>
        have hz' : l.length ≤ ys.length := by simpa using hz
        have hm := length_dropWhile_add (· == a) l
        have e1 : runMeans ((a :: l).zip (y :: ys)) none
            = runMeans (l.zip ys) (some (a, y, 1)) := by simp [runMeans]
        rw [e1, runMeans_some l ys a y 1 hz', splitBy_beq_cons]
        rw [ih (l.dropWhile (· == a)).length (by simp at hn; omega) (l.dropWhile (· == a))
          (ys.drop (l.takeWhile (· == a)).length) (by rw [List.length_drop]; omega) rfl]
        simp only [List.map_cons, List.length_cons, List.splitLengths_cons, List.take_succ_cons,
          List.sum_cons, List.drop_succ_cons, List.length_take]
        congr 2
        omega


/-- `(Σ_{s ≤ i < s+k} f i, k)` for consecutive spans of the given lengths, starting at `s` -/
def spanSums (f : ℕ → α) : ℕ → List ℕ → List (α × ℕ)
  | _, [] => []
  | s, k :: ks => (∑ i ∈ Finset.Ico s (s + k), f i, k) :: spanSums f (s + k) ks

theorem sum_take_drop (z : List α) (s k : ℕ) (h : s + k ≤ z.length) :
    ((z.drop s).take k).sum = ∑ i ∈ Finset.Ico s (s + k), fn z i := by
  induction k with
  | zero => simp
  | succ k ih =>
    rw [List.sum_take_succ _ k (by rw [List.length_drop]; omega), ih (by omega),
      ← add_assoc, Finset.sum_Ico_succ_top (by omega), List.getElem_drop,
      fn_of_lt _ _ (by omega)]

theorem splitLengths_sums (z : List α) (ks : List ℕ) (s : ℕ) (h : s + ks.sum ≤ z.length) :
    (ks.splitLengths (z.drop s)).map (fun c => (c.sum, c.length)) = spanSums (fn z) s ks := by
  induction ks generalizing s with
  | nil => simp [spanSums]
  | cons k ks ih =>
    rw [List.sum_cons] at h
    rw [List.splitLengths_cons, List.map_cons, spanSums, sum_take_drop z s k (by omega),
      List.drop_drop, ih (s + k) (by omega), List.length_take, List.length_drop]
    congr 2
    omega

theorem spanSums_congr (f g : ℕ → α) (s : ℕ) (ks : List ℕ)
    (h : ∀ i, s ≤ i → i < s + ks.sum → f i = g i) : spanSums f s ks = spanSums g s ks := by
  induction ks generalizing s with
  | nil => rfl
  | cons k ks ih =>
    rw [List.sum_cons] at h
    rw [spanSums, spanSums, ih (s + k) (fun i h1 h2 => h i (by omega) (by omega))]
    congr 2
    apply Finset.sum_congr rfl
    intro i hi
    rw [Finset.mem_Ico] at hi
    exact h i hi.1 (by omega)

theorem spanSums_length (f : ℕ → α) (s : ℕ) (ks : List ℕ) : (spanSums f s ks).length = ks.length := by
  induction ks generalizing s with
  | nil => rfl
  | cons k ks ih => simp [spanSums, ih]

theorem spanSums_snd (f : ℕ → α) (s : ℕ) (ks : List ℕ) : (spanSums f s ks).map Prod.snd = ks := by
  induction ks generalizing s with
  | nil => rfl
  | cons k ks ih => simp [spanSums, ih]

theorem spanSums_getElem? (f : ℕ → α) (s : ℕ) (ks : List ℕ) (j : ℕ) :
    (spanSums f s ks)[j]? = ks[j]?.map (fun k =>
      (∑ i ∈ Finset.Ico (s + (ks.take j).sum) (s + (ks.take j).sum + k), f i, k)) := by
  induction ks generalizing s j with
  | nil => simp [spanSums]
  | cons k ks ih =>
    cases j with
    | zero => simp [spanSums]
    | succ j => simp [spanSums, ih, add_assoc]

theorem sum_length_splitBy (r : Int → Int → Bool) (l : List Int) :
    ((l.splitBy r).map List.length).sum = l.length := by
  rw [← List.length_flatten, List.flatten_splitBy]

theorem runMeans_spanSums (labels : List Int) (z : List α) (hz : labels.length ≤ z.length) :
    runMeans (labels.zip z) none =
      spanSums (fn z) 0 ((labels.splitBy (· == ·)).map List.length) := by
  rw [runMeans_none labels z hz]
  have := splitLengths_sums z ((labels.splitBy (· == ·)).map List.length) 0
    (by rw [sum_length_splitBy]; omega)
  rwa [List.drop_zero] at this


theorem tinterp_spanSums (lam : α) (x t : List α) (labels : List Int)
    (hbin : ∀ v ∈ t, v = 0 ∨ v = 1)
    (hones : t.count 1 = x.length) (hlen : t.length = labels.length) (h4 : 4 ≤ t.length)
    (h2 : 2 ≤ x.length) (hlam : 0 < lam) (a b : α)
    (hline : ∀ i (hi : i < t.length), t[i] ≠ 0 → x[marksBefore t i]? = some (a + b * (i : α))) :
    tinterp lam x t labels =
      spanSums (fun i => a + b * (i : α)) 0 ((labels.splitBy (· == ·)).map List.length) := by
  unfold tinterp
  have hzl : (ws2d (setLast (scatterMarks t x) (x.getLastD (nat 0))) lam t).length = t.length := by
    rw [ws2d_length _ _ _ (by rw [setLast_length, scatterMarks_length]), setLast_length,
      scatterMarks_length]
  simp only []
  rw [runMeans_spanSums _ _ (by rw [hzl, hlen])]
  apply spanSums_congr
  intro i _ hi
  rw [sum_length_splitBy, zero_add, ← hlen] at hi
  exact tinterp_curve lam t x hbin hones h4 h2 hlam a b hline i hi

theorem sum_Ico_const (c : α) (s k : ℕ) : ∑ _i ∈ Finset.Ico s (s + k), c = (k : α) * c := by
  simp [Finset.sum_const, Nat.card_Ico]

theorem sum_Ico_affine (a b : α) (s k : ℕ) :
    ∑ i ∈ Finset.Ico s (s + k), (a + b * (i : α)) =
      (k : α) * (a + b * ((s : α) + ((k : α) - 1) / 2)) := by
  induction k with
  | zero => simp
  | succ k ih =>
    rw [← add_assoc, Finset.sum_Ico_succ_top (by omega), ih]
    push_cast
    field_simp
    ring


theorem length_splitBy_eq_card (labels : List Int)
    (h : ∀ (l₁ l₂ l₃ : List Int) (u v : Int), labels = l₁ ++ u :: l₂ ++ v :: l₃ → u ∈ l₃ → v = u) :
    (labels.splitBy (· == ·)).length = labels.toFinset.card := by
  induction hn : labels.length using Nat.strong_induction_on generalizing labels with
  | _ n ih =>
    cases labels with
    | nil => simp
    | cons a l =>
      have hsplit : l = l.takeWhile (· == a) ++ l.dropWhile (· == a) :=
        (List.takeWhile_append_dropWhile).symm
      have htw : ∀ y ∈ l.takeWhile (· == a), y = a := by
        intro y hy; simpa using List.mem_takeWhile_imp hy
      have hm := length_dropWhile_add (· == a) l
      -- the label `a` does not come back after the first run
      have hnot : a ∉ l.dropWhile (· == a) := by
        intro hmem
        have hhead := List.head?_dropWhile_not (fun v => v == a) l
        cases hdw : l.dropWhile (· == a) with
        | nil => rw [hdw] at hmem; simp at hmem
        | cons v dw' =>
          rw [hdw] at hmem hhead
          have hva : v ≠ a := by simpa using hhead
          have hmem' : a ∈ dw' := by
            rcases List.mem_cons.1 hmem with h1 | h1
            · exact absurd h1.symm hva
            · exact h1
          apply hva
          apply h [] (l.takeWhile (· == a)) dw' a v _ hmem'
          rw [List.nil_append, List.cons_append, ← hdw, ← hsplit]
      have hcont : ∀ (l₁ l₂ l₃ : List Int) (u v : Int),
          l.dropWhile (· == a) = l₁ ++ u :: l₂ ++ v :: l₃ → u ∈ l₃ → v = u := by
        intro l₁ l₂ l₃ u v hdw hu
        apply h (a :: l.takeWhile (· == a) ++ l₁) l₂ l₃ u v _ hu
        conv_lhs => rw [hsplit, hdw]
        simp
      have hfin : (a :: l).toFinset = insert a (l.dropWhile (· == a)).toFinset := by
        ext y
        simp only [List.toFinset_cons, Finset.mem_insert, List.mem_toFinset]
        constructor
        · rintro (h1 | h1)
          · exact Or.inl h1
          · rw [hsplit, List.mem_append] at h1
            rcases h1 with h1 | h1
            · exact Or.inl (htw y h1)
            · exact Or.inr h1
        · rintro (h1 | h1)
          · exact Or.inl h1
          · exact Or.inr ((List.dropWhile_sublist _).subset h1)
      rw [splitBy_beq_cons, List.length_cons,
        ih (l.dropWhile (· == a)).length (by simp at hn; omega) _ hcont rfl, hfin,
        Finset.card_insert_of_notMem (by simpa using hnot)]

theorem tinterp_z_length (lam : α) (x t : List α) :
    (ws2d (setLast (scatterMarks t x) (x.getLastD (nat 0))) lam t).length = t.length := by
  rw [ws2d_length _ _ _ (by rw [setLast_length, scatterMarks_length]), setLast_length,
    scatterMarks_length]

end Hdc.Stats
