import Hdc.PyGlue
import Mathlib.Tactic.SplitIfs
/-
Helper lemmas for the refinement theorems about the GLUE translations (Hdc/Gen/Glue*.lean, programs in `Except Exc`):
evaluation rules of the monad (`glue_eval`), `range` / `rangeDown`, and the loop a list comprehension is desugared to.
Nothing here mentions a generated program.
-/
namespace Hdc.GenGlue
open Hdc.PyGlue

/-! ### evaluation of straight-line code in `Except Exc` -/

theorem ok_bind {α β : Type} (x : α) (f : α → Except Exc β) : (Except.ok x >>= f) = f x := rfl
theorem error_bind {α β : Type} (e : Exc) (f : α → Except Exc β) : (Except.error e >>= f) = Except.error e := rfl
theorem raise_bind {α β : Type} (e : Exc) (f : α → Except Exc β) : (raise e >>= f) = raise e := rfl
theorem raise_eq {α : Type} (e : Exc) : (raise e : Except Exc α) = Except.error e := rfl
theorem pure_eq {α : Type} (x : α) : (pure x : Except Exc α) = Except.ok x := rfl
theorem tryExcept_ok {α : Type} (x : α) (h : Exc → Except Exc α) : tryExcept (Except.ok x) h = Except.ok x := rfl
theorem tryExcept_error {α : Type} (e : Exc) (h : Exc → Except Exc α) : tryExcept (Except.error e) h = h e := rfl
theorem intOf_some (v : Int) : intOf (some v) = Except.ok v := rfl
theorem intOf_none : intOf none = Except.error Exc.typeError := rfl
theorem map_ok {α β : Type} (f : α → β) (x : α) : f <$> (Except.ok x : Except Exc α) = Except.ok (f x) := rfl

/-- symbolic evaluation of the monadic skeleton: binds of known results, `raise`, `tryExcept`, `intOf`, and the tests
    `x.isNone` / `x.isSome` of known optionals -/
macro "glue_eval" : tactic => `(tactic|
  simp only [ok_bind, error_bind, raise_bind, pure_eq, tryExcept_ok, tryExcept_error, intOf_some, intOf_none, map_ok,
    Option.isSome_none, Option.isSome_some, Option.isNone_none, Option.isNone_some, Option.map_none, Option.map_some,
    Option.getD_none, Option.getD_some, Bool.not_true, Bool.not_false, Bool.false_eq_true, if_false, if_true,
    reduceCtorEq, beq_iff_eq, bne_iff_ne, ne_eq, not_true_eq_false, not_false_eq_true])

/-- conditions: `decide p = true` to `p`, boolean connectives to propositional ones, comparisons of known optionals -/
macro "glue_norm" : tactic => `(tactic|
  simp only [decide_eq_true_eq, Bool.not_eq_eq_eq_not, Bool.not_true, Bool.not_false, bne_eq_false_iff_eq, bne_iff_ne,
    Option.some.injEq, Bool.and_eq_true, Bool.or_eq_true, beq_iff_eq, ge_iff_le, gt_iff_lt, ne_eq, reduceCtorEq,
    Int.ofNat_eq_natCast])

/-! ### `range(a, b, -1)`, `range(a, b)` -/

theorem rangeDown_nil (a s : Int) (h : a ≤ s) : rangeDown a s = [] := by
  have : (a - s).toNat = 0 := by omega
  simp [rangeDown, this]

theorem rangeDown_cons (a s : Int) (h : s < a) : rangeDown a s = a :: rangeDown (a - 1) s := by
  unfold rangeDown
  have : (a - s).toNat = (a - 1 - s).toNat + 1 := by omega
  rw [this, List.range_succ_eq_map]
  simp only [List.map_cons, List.map_map]
  congr 1
  · simp
  · apply List.map_congr_left; intro k _; simp; omega

theorem range_zero_natCast (k : Nat) : range 0 (k : Int) = (List.range k).map fun (g : Nat) => (g : Int) := by
  simp [range]

theorem range_nonpos (k : Int) (h : k ≤ 0) : range 0 k = [] := by
  simp [range, h]

/-! ### the loop of a desugared list comprehension: `acc := []; for x in l: acc := acc ++ [g x]` -/

theorem forIn_append_map {α β : Type} (l : List α) (g : α → β)
    (f : α → List β → Except Exc (ForInStep (List β)))
    (hf : ∀ x ∈ l, ∀ acc, f x acc = .ok (.yield (acc ++ [g x]))) (init : List β) :
    forIn l init f = .ok (init ++ l.map g) := by
  induction l generalizing init with
  | nil => simp; rfl
  | cons x xs ih =>
    rw [List.forIn_cons, hf x (by simp) init]
    show forIn xs (init ++ [g x]) f = _
    rw [ih (fun y hy => hf y (by simp [hy]))]
    simp

end Hdc.GenGlue

namespace Hdc.GenGlue
open Hdc.PyGlue

/-! ### containers: first / last element, one-element slices, masks computed from the array itself -/

theorem getItem_zero {α : Type} (l : List α) :
    getItem l 0 = match l.head? with | some v => .ok v | none => .error .indexError := by
  cases l with
  | nil => rfl
  | cons x xs => rfl

theorem getItem_neg_one {α : Type} (l : List α) :
    getItem l (-1) = match l.getLast? with | some v => .ok v | none => .error .indexError := by
  cases l with
  | nil => rfl
  | cons x xs =>
    have hl : (x :: xs).getLast? = some ((x :: xs).getLast (by simp)) := List.getLast?_eq_some_getLast _
    rw [hl]
    unfold getItem
    have h1 : ((-1 : Int) + ((x :: xs).length : Int)).toNat = xs.length := by simp; omega
    have h2 : ¬ ((-1 : Int) + ((x :: xs).length : Int) < 0) := by simp; omega
    simp only [show ((-1 : Int) < 0) from by decide, if_true, h1, h2, if_false]
    have h3 : (x :: xs)[xs.length]? = some ((x :: xs).getLast (by simp)) := by
      rw [List.getLast_eq_getElem]; simp
    rw [h3]

theorem slice_last {α : Type} (l : List α) :
    slice l (some (-1)) none = match l.getLast? with | some v => [v] | none => [] := by
  cases l with
  | nil => rfl
  | cons x xs =>
    have hl : (x :: xs).getLast? = some ((x :: xs).getLast (by simp)) := List.getLast?_eq_some_getLast _
    rw [hl]
    unfold slice
    have h1 : (max 0 ((-1 : Int) + ((x :: xs).length : Int))).toNat = xs.length := by simp; omega
    simp only [show ((-1 : Int) < 0) from by decide, if_true, h1]
    have : (x :: xs).length - xs.length = 1 := by simp
    rw [this, List.take_one, List.head?_drop]
    have h3 : (x :: xs)[xs.length]? = some ((x :: xs).getLast (by simp)) := by
      rw [List.getLast_eq_getElem]; simp
    rw [h3]; rfl

theorem slice_first {α : Type} (l : List α) :
    slice l none (some 1) = match l.head? with | some v => [v] | none => [] := by
  cases l with
  | nil => rfl
  | cons x xs =>
    unfold slice
    have h1 : (min (1 : Int) ((x :: xs).length : Int)).toNat = 1 := by simp; omega
    simp only [show ¬ ((1 : Int) < 0) from by decide, if_false, h1]
    simp

theorem maskSelect_map {α : Type} (l : List α) (p : α → Bool) : maskSelect l (l.map p) = .ok (l.filter p) := by
  unfold maskSelect
  rw [if_pos (by simp)]
  congr 1
  induction l with
  | nil => rfl
  | cons x xs ih =>
    simp only [List.map_cons, List.zip_cons_cons, List.filter_cons]
    by_cases h : p x = true
    · simp only [h, if_true, List.map_cons, ih]
    · have h' : p x = false := by simpa using h
      simp only [h', Bool.false_eq_true, if_false, ih]

theorem truthArr_single (b : Bool) : truthArr [b] = .ok b := rfl

theorem pyAbs_of_nonneg (x : Int) (h : 0 ≤ x) : pyAbs x = x := by
  unfold pyAbs; rw [if_neg (by omega)]

end Hdc.GenGlue
