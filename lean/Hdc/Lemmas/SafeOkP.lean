import Hdc.Lemmas.GenNumWcv
import Hdc.Lemmas.SafeWcv
import Hdc.Lemmas.SafeFixed
/-
SafeOkP  Facts for "under the contract the flag of the instrumented `ws2dwcvp` is false" (Hdc/Props/SafeWs2dwcvpOk.lean):
the asymmetric re-weighting `ww = robust_weights * wa` of the loop `for _ in range(10)` on ARRAYS (as the generated program
writes it: two mask stores into `wa`, then the product) stays inside the contract of `ws2d` for `0 < p < 1`; the sizes of the
slice operations `znew[0:m] = …`, `z[0:m] = znew[0:m]`; the flags `badSlice` / `sliceLenNe` on full slices.
Nothing here mentions the generated kernel.
-/
namespace Hdc.SafeOkP
open Hdc Hdc.C01 Hdc.Gen.NumKernels Hdc.PyNpW Hdc.GenNum Hdc.Smooth Hdc.SafeL Hdc.SafeWcv

set_option linter.unusedSectionVars false
set_option linter.unusedVariables false

theorem size_npSetSliceW {β : Type} (a b : Array β) (lo hi : ℤ) : (npSetSlice a lo hi b).size = a.size := by
  simp [npSetSlice]

theorem size_npSlice_nat {β : Type} (b : Array β) (k : ℕ) : (npSlice b 0 (k : ℤ)).size = min b.size k := by
  have hk : ¬ ((k : ℤ) < 0) := by omega
  simp only [npSlice, sliceIx, hk, if_false, Array.size_extract, Int.toNat_natCast, Int.toNat_zero,
    show ¬ ((0 : ℤ) < 0) by omega]
  omega

theorem badSlice_full (n : ℕ) : badSlice n 0 (n : ℤ) = false := by
  rw [badSlice_eq_false_iff]; omega

theorem sliceLenNe_full (n : ℕ) : sliceLenNe 0 (n : ℤ) n = false := by
  rw [sliceLenNe_eq_false_iff]; omega

variable {α : Type} [Field α] [LinearOrder α] [IsStrictOrderedRing α]

/-- `envelope = y > z; wa[envelope] = p; wa[~envelope] = 1 - p; ww = robust_weights * wa`, as lists: the model's `asymW` -/
theorem ww_toList (p : α) (w ya z wa : Array α) (hz : z.size = ya.size) (ha : wa.size = ya.size) :
    (npMap2 (fun a b => a * b) w (npMaskSet (npMaskSet wa (npMap2 (fun a b => decide (b < a)) ya z) p)
      (npMap (fun b => !b) (npMap2 (fun a b => decide (b < a)) ya z)) (nat 1 - p))).toList
      = asymW p w.toList ya.toList z.toList := by
  simp only [toList_npMap2, toList_npMaskSet, toList_npMap]
  exact asym_np p _ _ _ _ (by simpa using hz) (by simpa using ha)

/-- … which stays inside the contract of `ws2d` when `0 < p < 1` -/
theorem pass_contract {ya w : Array α} {lam : α} (h : SafeWs2d.Contract ya.toList w.toList lam) (p : α)
    (hp0 : 0 < p) (hp1 : p < 1) (z wa : Array α) (hz : z.size = ya.size) (ha : wa.size = ya.size) :
    SafeWs2d.Contract ya.toList
      (npMap2 (fun a b => a * b) w (npMaskSet (npMaskSet wa (npMap2 (fun a b => decide (b < a)) ya z) p)
        (npMap (fun b => !b) (npMap2 (fun a b => decide (b < a)) ya z)) (nat 1 - p))).toList lam := by
  rw [ww_toList p w ya z wa hz ha]
  exact SafeFixed.contract_asym h p hp0 hp1 _ (by simpa using hz)

/-- … so the call `ws2d(y, λ, ww)` of the instrumented smoother does not raise its flag -/
theorem pass_call_ok {ya w : Array α} {lam : α} (h : SafeWs2d.Contract ya.toList w.toList lam) (p : α)
    (hp0 : 0 < p) (hp1 : p < 1) (z wa : Array α) (hz : z.size = ya.size) (ha : wa.size = ya.size) :
    (Gen.Safe.ws2d ya lam
      (npMap2 (fun a b => a * b) w (npMaskSet (npMaskSet wa (npMap2 (fun a b => decide (b < a)) ya z) p)
        (npMap (fun b => !b) (npMap2 (fun a b => decide (b < a)) ya z)) (nat 1 - p)))).2 = false :=
  SafeFixed.ws2d_ok_arr _ _ _ (pass_contract h p hp0 hp1 z wa hz ha)

/-- its size -/
theorem size_ww (p : α) (w ya z wa : Array α) (hw : w.size = ya.size) (hz : z.size = ya.size) (ha : wa.size = ya.size) :
    (npMap2 (fun a b => a * b) w (npMaskSet (npMaskSet wa (npMap2 (fun a b => decide (b < a)) ya z) p)
      (npMap (fun b => !b) (npMap2 (fun a b => decide (b < a)) ya z)) (nat 1 - p))).size = ya.size := by
  simp only [size_npMap2, size_npMaskSet, size_npMap, hw, hz, ha, Nat.min_self]

/-- the validity weights of `y` with data of the same length and a positive `λ` are inside the contract of `ws2d` -/
theorem base_contract (nodata : α) (isnan isinf : α → Bool) (y : List α) (yc : Array α) (lam : α)
    (hyc : yc.size = y.length) (h3 : 3 ≤ y.length) (hlam : 0 < lam) (hv : 2 ≤ countValid (missG nodata isnan isinf) y) :
    SafeWs2d.Contract yc.toList (wOf nodata isnan isinf y.toArray).toList lam := by
  have c := SafeOptv.contract_raw (missG nodata isnan isinf) y lam h3 hlam hv
  rw [wOf_eq, List.toList_toArray]
  exact ⟨by simpa [hyc] using h3, by simp [hyc], hlam, c.w_nonneg, c.two_pos⟩

end Hdc.SafeOkP
