import Lean
/-
SafeSimN  A generic simulation argument for "the instrumented program is the translated program plus a flag".

The instrumented translations (`Hdc/Gen/Safe*.lean`) are `Id.run do` blocks that contain the statements of the ordinary
translation plus one mutable variable `bad : Bool`, declared first.  `do`-notation threads the mutable variables of a
loop as a tuple in declaration order, so the state of an instrumented loop is `(bad, s)` where `s` is the state of the
original loop (or `(ret?, bad, s)` against `(ret?, s)` when the loop body contains a `return`).  `Sim π x' x` says that
the instrumented computation `x'` projects (by `π`) to the original computation `x`; the rules below follow the
constructs `do`-notation produces (`pure`, `>>=`, `forIn`, `if`), and the tactic `safe_sim` applies them in lockstep
to both programs.  Nothing here mentions a generated kernel; no Mathlib.
-/
namespace Hdc.SafeSimN

/-- the instrumented computation `x'` projects to `x` -/
def Sim {σ' σ : Type} (π : σ' → σ) (x' : Id σ') (x : Id σ) : Prop := π x'.run = x.run

theorem pureS {σ' σ : Type} {π : σ' → σ} {a' : σ'} {a : σ} (h : π a' = a) :
    Sim π (pure a') (pure a) := h

theorem bindS {σ' σ τ' τ : Type} {π₁ : σ' → σ} {π : τ' → τ} {x' : Id σ'} {x : Id σ}
    {k' : σ' → Id τ'} {k : σ → Id τ}
    (hx : Sim π₁ x' x) (hk : ∀ a', Sim π (k' a') (k (π₁ a'))) : Sim π (x' >>= k') (x >>= k) := by
  unfold Sim at *
  show π (k' x'.run).run = (k x.run).run
  rw [← hx]; exact hk _

theorem iteS {σ' σ : Type} {π : σ' → σ} {c : Prop} [Decidable c] {t' e' : Id σ'} {t e : Id σ}
    (ht : Sim π t' t) (he : Sim π e' e) : Sim π (if c then t' else e') (if c then t else e) := by
  split <;> assumption

/-- the projection of one loop step -/
def stepMap {σ' σ : Type} (π : σ' → σ) : ForInStep σ' → ForInStep σ
  | .yield a => .yield (π a)
  | .done a => .done (π a)

theorem forInS {β σ' σ : Type} {π : σ' → σ} {l : List β} {init' : σ'} {init : σ}
    {f' : β → σ' → Id (ForInStep σ')} {f : β → σ → Id (ForInStep σ)}
    (hi : π init' = init) (hf : ∀ a s', Sim (stepMap π) (f' a s') (f a (π s'))) :
    Sim π (forIn l init' f') (forIn l init f) := by
  subst hi
  induction l generalizing init' with
  | nil => exact rfl
  | cons a l ih =>
    simp only [List.forIn_cons]
    have h := hf a init'
    unfold Sim at h
    show π (match (f' a init').run with
        | .done b => pure b
        | .yield b => forIn l b f').run
      = (match (f a (π init')).run with
        | .done b => pure b
        | .yield b => forIn l b f).run
    rw [← h]
    cases (f' a init').run with
    | done b => rfl
    | yield b => exact ih

/-- the state projection of a loop whose body contains a `return`: `(ret?, bad, s) ↦ (ret?.map fst, s)` -/
@[reducible] def retProj {ρ σ : Type} (s : Option (ρ × Bool) × Bool × σ) : Option ρ × σ := (s.1.map Prod.fst, s.2.2)

/-- the state projection when the loop with a `return` threads no other variable of the original -/
@[reducible] def retProj1 {ρ : Type} (s : Option (ρ × Bool) × Bool) : Option ρ × PUnit := (s.1.map Prod.fst, ⟨⟩)

/-- `>>=` after a loop with a `return`: the continuation is checked separately for "returned" / "ran to the end" -/
theorem bindRetS {ρ σ τ' τ : Type} {π : τ' → τ} {x' : Id (Option (ρ × Bool) × Bool × σ)}
    {x : Id (Option ρ × σ)} {k' : Option (ρ × Bool) × Bool × σ → Id τ'} {k : Option ρ × σ → Id τ}
    (hx : Sim retProj x' x)
    (hsome : ∀ r b bad s, Sim π (k' (some (r, b), bad, s)) (k (some r, s)))
    (hnone : ∀ bad s, Sim π (k' (none, bad, s)) (k (none, s))) : Sim π (x' >>= k') (x >>= k) := by
  refine bindS hx ?_
  rintro ⟨_ | ⟨r, b⟩, bad, s⟩
  · exact hnone bad s
  · exact hsome r b bad s

open Lean Elab Tactic Meta

/-- values that are substituted instead of being kept as a variable: tuple destructuring (`__s.snd.fst`, a
    projection of anything) and join points (`fun …`, introduced by `do`-notation for the code after an `if`) -/
def cheapValue (v : Expr) : Bool :=
  match v.consumeMData with
  | .fvar _ | .bvar _ => true
  | .proj .. => true
  | .lam .. => true
  | .app (.app (.app (.const c _) _) _) _ => c == ``Prod.fst || c == ``Prod.snd
  | _ => false

/-- normal form of a tuple destructuring: projections are written `Prod.fst x` / `Prod.snd x`, and a projection of an
    explicit pair (possibly after unfolding a reducible state projection such as `retProj`) is reduced -/
partial def normProj (e : Expr) : MetaM Expr := do
  let e := e.consumeMData
  let step (isFst : Bool) (x : Expr) : MetaM Expr := do
    let x' ← normProj x
    let x'' ← if x'.isAppOfArity ``Prod.mk 4 then pure x' else
      match x'.getAppFn with
      | .const c _ => if c == ``Prod.fst || c == ``Prod.snd then pure x' else whnfR x'
      | _ => pure x'
    if x''.isAppOfArity ``Prod.mk 4 then
      normProj (if isFst then x''.getAppArgs[2]! else x''.getAppArgs[3]!)
    else
      mkAppM (if isFst then ``Prod.fst else ``Prod.snd) #[x']
  match e with
  | .app (.app (.app (.const c _) _) _) x =>
    if c == ``Prod.fst then step true x
    else if c == ``Prod.snd then step false x
    else pure e
  | .proj ``Prod 0 x => step true x
  | .proj ``Prod 1 x => step false x
  | _ => pure e

/-- `sim_lets`: on a goal `Sim π lhs rhs`, process the leading `have x := v; …` of both programs:
    tuple destructuring / join points are substituted; a `have` with the same value on both sides (a statement of the
    source) becomes ONE opaque variable for both programs; a `have` of the instrumented program alone (`bad := …`)
    becomes an opaque variable.  Values are never copied, so the terms stay linear in the size of the programs. -/
partial def simLetsGo (g : MVarId) (n : Nat) : MetaM (MVarId × Nat) := g.withContext do
    let go := simLetsGo
    let t := (← instantiateMVars (← g.getType)).consumeMData
    let fn := t.getAppFn
    let args := t.getAppArgs
    unless fn.isConstOf ``Sim && args.size == 5 do return (g, n)
    let lhs0 := args[3]!
    let rhs0 := args[4]!
    let lhs := lhs0.consumeMData.headBeta
    let rhs := rhs0.consumeMData.headBeta
    let mk (l r : Expr) : Expr := mkAppN fn #[args[0]!, args[1]!, args[2]!, l, r]
    -- substitute cheap values
    if let .letE _ _ v b _ := lhs then
      if cheapValue v then
        let v ← if v.consumeMData.isLambda then pure v else normProj v
        return ← go (← g.replaceTargetDefEq (mk (b.instantiate1 v) rhs)) (n + 1)
    if let .letE _ _ v b _ := rhs then
      if cheapValue v then
        let v ← if v.consumeMData.isLambda then pure v else normProj v
        return ← go (← g.replaceTargetDefEq (mk lhs (b.instantiate1 v))) (n + 1)
    match lhs, rhs with
    | .letE x ty v b _, .letE _ ty2 v2 b2 _ =>
      if v == v2 && ty == ty2 then
        -- the same statement in both programs: one variable
        let newT := Expr.forallE x ty (mk b b2) .default
        let m ← mkFreshExprSyntheticOpaqueMVar newT
        g.assign (mkApp m v)
        let (_, g') ← m.mvarId!.intro x
        go g' (n + 1)
      else
        let newT := Expr.forallE x ty (mk b rhs) .default
        let m ← mkFreshExprSyntheticOpaqueMVar newT
        g.assign (mkApp m v)
        let (_, g') ← m.mvarId!.intro x
        go g' (n + 1)
    | .letE x ty v b _, _ =>
      let newT := Expr.forallE x ty (mk b rhs) .default
      let m ← mkFreshExprSyntheticOpaqueMVar newT
      g.assign (mkApp m v)
      let (_, g') ← m.mvarId!.intro x
      go g' (n + 1)
    | _, .letE x ty v b _ =>
      let newT := Expr.forallE x ty (mk lhs b) .default
      let m ← mkFreshExprSyntheticOpaqueMVar newT
      g.assign (mkApp m v)
      let (_, g') ← m.mvarId!.intro x
      go g' (n + 1)
    | _, _ =>
      if lhs != lhs0 || rhs != rhs0 then
        return ← go (← g.replaceTargetDefEq (mk lhs rhs)) (n + 1)
      return (g, n)

@[inherit_doc simLetsGo]
elab "sim_lets" : tactic => do
  let g ← getMainGoal
  let (g', n) ← simLetsGo g 0
  if n == 0 then throwError "sim_lets: no progress"
  replaceMainGoal [g']

/-- one step of the lockstep simulation, directed by the head symbol of the instrumented program (so that no rule
    is ever tried against a term it cannot match: the unifier would start evaluating the program) -/
elab "safe_sim_step" : tactic => withMainContext do
  let g ← getMainGoal
  let t := (← instantiateMVars (← g.getType)).consumeMData
  if t.isForall then
    evalTactic (← `(tactic| intro _))
    return
  let fn := t.getAppFn
  let args := t.getAppArgs
  unless fn.isConstOf ``Sim && args.size == 5 do throwError "safe_sim_step: not a simulation goal"
  let lhs := args[3]!.consumeMData
  if lhs.isLet || lhs.isHeadBetaTarget || args[4]!.consumeMData.isLet || args[4]!.consumeMData.isHeadBetaTarget then
    evalTactic (← `(tactic| sim_lets))
    return
  match lhs.getAppFn.constName? with
  | some ``Pure.pure => evalTactic (← `(tactic| exact pureS rfl))
  | some ``ite => evalTactic (← `(tactic| apply iteS))
  | some ``Bind.bind => evalTactic (← `(tactic| first | apply bindRetS | apply bindS))
  | some ``ForIn.forIn => evalTactic (← `(tactic| first
      | (apply forInS (π := Prod.snd) rfl)
      | (apply forInS (π := retProj) rfl)
      | (apply forInS (π := id) rfl)
      | (apply forInS (π := fun _ => PUnit.unit) rfl)))
  | _ => evalTactic (← `(tactic| dsimp -zeta only [retProj, Option.map]))

/-- `(Safe program).1 = original program`: after unfolding both definitions (and rewriting the calls of instrumented
    callees with their `_fst` theorems) view the goal as `Sim Prod.fst _ _` and run both programs in lockstep. -/
macro "safe_sim" : tactic => `(tactic| (
  show Sim Prod.fst _ _
  repeat' safe_sim_step))

end Hdc.SafeSimN
