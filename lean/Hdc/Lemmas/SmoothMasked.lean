import Hdc.Lemmas.SmoothBasic
/-
Data under zero weights is never looked at: congruence of every building block of the
smoother kernels under "masked equality" of the data, and a relational lemma for the
V-curve selection.
-/
namespace Hdc.Smooth
open Hdc Hdc.C01

set_option linter.unusedSectionVars false

variable {α : Type} [Field α] [LinearOrder α] [IsStrictOrderedRing α]

/-- `y` and `y'` carry the same data wherever `w` is non-zero -/
def MaskedEq (w y y' : List α) : Prop :=
  y'.length = y.length ∧ ∀ i, fn w i ≠ 0 → fn y i = fn y' i

/-- the support of `ww` lies inside the support of `w` -/
def SuppIn (ww w : List α) : Prop := ∀ i, fn ww i ≠ 0 → fn w i ≠ 0

theorem MaskedEq.refl (w y : List α) : MaskedEq w y y := ⟨rfl, fun _ _ => rfl⟩

theorem MaskedEq.symm {w y y' : List α} (h : MaskedEq w y y') : MaskedEq w y' y :=
  ⟨h.1.symm, fun i hi => (h.2 i hi).symm⟩

theorem MaskedEq.trans {w y y' y'' : List α} (h : MaskedEq w y y') (h' : MaskedEq w y' y'') :
    MaskedEq w y y'' :=
  ⟨h'.1.trans h.1, fun i hi => (h.2 i hi).trans (h'.2 i hi)⟩

theorem MaskedEq.map {w y y' : List α} (h : MaskedEq w y y') (f : α → α) :
    MaskedEq w (y.map f) (y'.map f) := by
  refine ⟨by simp [h.1], fun i hi => ?_⟩
  by_cases hl : i < y.length
  · rw [fn_map_of_lt _ _ _ hl, fn_map_of_lt _ _ _ (by rw [h.1]; exact hl), h.2 i hi]
  · rw [fn_of_le _ i (by simp; omega), fn_of_le _ i (by simp [h.1]; omega)]

theorem SuppIn.refl (w : List α) : SuppIn w w := fun _ h => h

theorem suppIn_zerosLike (y w : List α) : SuppIn (zerosLike y) w :=
  fun i h => absurd (fn_zerosLike y i) h

theorem suppIn_asymW (p : α) (w y z : List α) : SuppIn (asymW p w y z) w :=
  fun i h => fn_asymW_ne_zero p w y z i h

theorem suppIn_mul2 (w rw : List α) : SuppIn (mul2 w rw) w := by
  intro i h
  rw [fn_mul2] at h
  exact left_ne_zero_of_mul h

theorem maskedEq_clean (miss : α → Bool) (y : List α) :
    MaskedEq (weightsOf miss y) y (cleanOf miss y) :=
  ⟨by simp, fun i hi => cleanOf_masked miss y i hi⟩

theorem ws2d_masked {w y y' : List α} (h : MaskedEq w y y') {ww : List α} (hs : SuppIn ww w)
    (lam : α) : ws2d y lam ww = ws2d y' lam ww :=
  ws2d_congr_masked y y' ww lam h.1 (fun i hi => h.2 i (hs i hi))

theorem asymW_masked {w y y' : List α} (h : MaskedEq w y y') (p : α) (z : List α) :
    asymW p w y z = asymW p w y' z := by
  apply list_eq_of_fn _ _ (by simp [h.1])
  intro i hi
  simp only [asymW_length, lt_min_iff] at hi
  rw [fn_asymW p w y z i hi.1 hi.2.1 hi.2.2,
    fn_asymW p w y' z i hi.1 (by rw [h.1]; exact hi.2.1) hi.2.2]
  by_cases h0 : fn w i = 0
  · simp [aw, h0]
  · rw [h.2 i h0]

theorem irls_masked {w y y' : List α} (h : MaskedEq w y y') (lam p : α) (k : ℕ) (z ww : List α) :
    irls y w lam p k z ww = irls y' w lam p k z ww := by
  induction k generalizing z ww with
  | zero => simp [irls]
  | succ k ih =>
    simp only [irls]
    rw [← asymW_masked h p z, ← ws2d_masked h (suppIn_asymW p w y z) lam]
    split_ifs
    · rfl
    · exact ih _ _

theorem irls_supp (y w : List α) (lam p : α) (k : ℕ) (z ww : List α) (hs : SuppIn ww w) :
    SuppIn (irls y w lam p k z ww).2 w := by
  induction k generalizing z ww with
  | zero => simpa [irls] using hs
  | succ k ih =>
    simp only [irls]
    split_ifs
    · exact suppIn_asymW p w y z
    · exact ih _ _ (suppIn_asymW p w y z)

theorem expectile_masked {w y y' : List α} (h : MaskedEq w y y') (lam p : α) :
    expectile y w lam p = expectile y' w lam p := by
  unfold expectile
  rw [← zerosLike_congr y y' h.1.symm, ← irls_masked h]
  exact ws2d_masked h (irls_supp y w lam p 10 _ _ (suppIn_zerosLike y w)) lam

theorem fitTerms_masked {w y y' : List α} (h : MaskedEq w y y') (z : List α) :
    fitTerms w y z = fitTerms w y' z := by
  apply list_eq_of_fn _ _ (by simp [h.1])
  intro i hi
  simp only [fitTerms_length, lt_min_iff] at hi
  have hi' : i < y'.length := by rw [h.1]; exact hi.2.1
  rw [fn_of_lt _ i (by simp; exact hi), fn_of_lt _ i (by simp; exact ⟨hi.1, hi', hi.2.2⟩)]
  simp only [fitTerms_eq, List.getElem_zipWith, List.getElem_zip]
  by_cases h0 : fn w i = 0
  · rw [fn_of_lt _ i hi.1] at h0
    simp [ft, h0]
  · have := h.2 i h0
    rw [fn_of_lt _ i hi.2.1, fn_of_lt _ i hi'] at this
    rw [this]

theorem fitSS_masked {w y y' : List α} (h : MaskedEq w y y') (z : List α) :
    fitSS w y z = fitSS w y' z := by
  unfold fitSS; rw [fitTerms_masked h]

/-! ### the V-curve selection, relationally -/

/-- one step of the sweep of `vselect` -/
def vstep {σ : Type} (F : VFns α) (w y : List α) (fit : σ → α → σ × List α)
    (acc : σ × List (α × α × α)) (l : α) : σ × List (α × α × α) :=
  ((fit acc.1 (F.pow10 l)).1,
    acc.2 ++ [(l, F.log (fitSS w y (fit acc.1 (F.pow10 l)).2), F.log (penSS (fit acc.1 (F.pow10 l)).2))])

/-- the (λ, log fit, log penalty) points of the sweep -/
def vpts {σ : Type} (F : VFns α) (w y llas : List α) (fit : σ → α → σ × List α) (s0 : σ) :
    List (α × α × α) :=
  (llas.foldl (vstep F w y fit) (s0, [])).2

theorem vselect_eq {σ : Type} (F : VFns α) (w y llas : List α) (fit : σ → α → σ × List α) (s0 : σ) :
    vselect F w y llas fit s0 =
      (argminFirst (vcurve F (gridStep llas) (vpts F w y llas fit s0))).map fun b => F.pow10 b.2 :=
  rfl

theorem vfold_rel {σ σ' : Type} (F : VFns α) (w y w' y' : List α)
    (fit : σ → α → σ × List α) (fit' : σ' → α → σ' × List α) (R : σ → σ' → Prop)
    (llas : List α)
    (h : ∀ s s', R s s' → ∀ l ∈ llas,
        R (fit s (F.pow10 l)).1 (fit' s' (F.pow10 l)).1 ∧
        fitSS w y (fit s (F.pow10 l)).2 = fitSS w' y' (fit' s' (F.pow10 l)).2 ∧
        penSS (fit s (F.pow10 l)).2 = penSS (fit' s' (F.pow10 l)).2)
    (acc : σ × List (α × α × α)) (acc' : σ' × List (α × α × α))
    (h0 : R acc.1 acc'.1) (h1 : acc.2 = acc'.2) :
    R (llas.foldl (vstep F w y fit) acc).1 (llas.foldl (vstep F w' y' fit') acc').1 ∧
      (llas.foldl (vstep F w y fit) acc).2 = (llas.foldl (vstep F w' y' fit') acc').2 := by
  induction llas generalizing acc acc' with
  | nil => exact ⟨h0, h1⟩
  | cons l ls ih =>
    simp only [List.foldl_cons]
    obtain ⟨hR, hf, hp⟩ := h acc.1 acc'.1 h0 l (by simp)
    apply ih (fun s s' hs l hl => h s s' hs l (List.mem_cons_of_mem _ hl))
    · exact hR
    · simp only [vstep, h1, hf, hp]

theorem vpts_rel {σ σ' : Type} (F : VFns α) (w y w' y' llas : List α)
    (fit : σ → α → σ × List α) (fit' : σ' → α → σ' × List α) (R : σ → σ' → Prop)
    (s0 : σ) (s0' : σ') (h0 : R s0 s0')
    (h : ∀ s s', R s s' → ∀ l ∈ llas,
        R (fit s (F.pow10 l)).1 (fit' s' (F.pow10 l)).1 ∧
        fitSS w y (fit s (F.pow10 l)).2 = fitSS w' y' (fit' s' (F.pow10 l)).2 ∧
        penSS (fit s (F.pow10 l)).2 = penSS (fit' s' (F.pow10 l)).2) :
    vpts F w y llas fit s0 = vpts F w' y' llas fit' s0' :=
  (vfold_rel F w y w' y' fit fit' R llas h (s0, []) (s0', []) h0 rfl).2

theorem vselect_rel {σ σ' : Type} (F : VFns α) (w y w' y' llas : List α)
    (fit : σ → α → σ × List α) (fit' : σ' → α → σ' × List α) (R : σ → σ' → Prop)
    (s0 : σ) (s0' : σ') (h0 : R s0 s0')
    (h : ∀ s s', R s s' → ∀ l ∈ llas,
        R (fit s (F.pow10 l)).1 (fit' s' (F.pow10 l)).1 ∧
        fitSS w y (fit s (F.pow10 l)).2 = fitSS w' y' (fit' s' (F.pow10 l)).2 ∧
        penSS (fit s (F.pow10 l)).2 = penSS (fit' s' (F.pow10 l)).2) :
    vselect F w y llas fit s0 = vselect F w' y' llas fit' s0' := by
  rw [vselect_eq, vselect_eq, vpts_rel F w y w' y' llas fit fit' R s0 s0' h0 h]

/-! ### the kernels on masked-equal data -/

theorem optvSelect_masked (F : VFns α) {w y y' : List α} (h : MaskedEq w y y') (llas : List α) :
    vselect F w y llas (fun (_ : Unit) lam => ((), ws2d y lam w)) () =
      vselect F w y' llas (fun (_ : Unit) lam => ((), ws2d y' lam w)) () := by
  apply vselect_rel F w y w y' llas _ _ (fun _ _ => True) () () trivial
  intro _ _ _ l _
  refine ⟨trivial, ?_, ?_⟩
  · simp only [← ws2d_masked h (SuppIn.refl w)]
    exact fitSS_masked h _
  · simp only [← ws2d_masked h (SuppIn.refl w)]

theorem optvpCore_masked (F : VFns α) {w y y' : List α} (h : MaskedEq w y y') (p : α)
    (llas : List α) : optvpCore F y w p llas = optvpCore F y' w p llas := by
  unfold optvpCore
  have hsel : vselect F w y llas
      (fun (z : List α) lam => let r := irls y w lam p 10 z (zerosLike y); (r.1, r.1)) (zerosLike y) =
    vselect F w y' llas
      (fun (z : List α) lam => let r := irls y' w lam p 10 z (zerosLike y'); (r.1, r.1)) (zerosLike y') := by
    apply vselect_rel F w y w y' llas _ _ Eq _ _ (zerosLike_congr y y' h.1.symm)
    intro s s' hs l _
    subst hs
    simp only [← zerosLike_congr y y' h.1.symm, ← irls_masked h]
    exact ⟨trivial, fitSS_masked h _, trivial⟩
  rw [hsel]
  cases vselect F w y' llas
      (fun (z : List α) lam => let r := irls y' w lam p 10 z (zerosLike y'); (r.1, r.1)) (zerosLike y') with
  | none => rfl
  | some lopt => simp only [expectile_masked h]

end Hdc.Smooth
