import Hdc.Lemmas.GenKMeanGrp
import Hdc.Model.RoundAcc
import Hdc.Lemmas.RoundFloatOps
/-
The step `avg += pixv` of `Gen.Kernels.mean_grp` under a BOUNDED exactness of the floating addition (instead of the
unconditional `hadd` of Hdc/Lemmas/GenKMeanGrp.lean): the invariant `MgInner` is unchanged, the step needs that the sum of
the absolute values of the valid cells of the group stays within the range `B`.
-/
namespace Hdc.GenKMeanGrp
open Hdc Hdc.PyNpT Hdc.GenKernels

/-- sum of the absolute values of the valid cells of `l` -/
def vasum (nd : Int) (l : List Int) : ℕ := ((l.filter fun v => decide (v ≠ nd)).map Int.natAbs).sum

theorem vasum_snoc (nd : Int) (l : List Int) (a : Int) :
    vasum nd (l ++ [a]) = if a = nd then vasum nd l else vasum nd l + a.natAbs := by
  unfold vasum
  by_cases h : a = nd <;> simp [List.filter_append, h]

theorem vasum_append_le (nd : Int) (l m : List Int) : vasum nd l ≤ vasum nd (l ++ m) := by
  unfold vasum
  simp only [List.filter_append, List.map_append, List.sum_append]
  omega

theorem vasum_take_le (nd : Int) (l : List Int) (q : ℕ) : vasum nd (l.take q) ≤ vasum nd l := by
  conv_rhs => rw [← List.take_append_drop q l]
  exact vasum_append_le nd _ _

/-- every partial sum is bounded by the sum of the absolute values -/
theorem natAbs_vsum_le (nd : Int) (l : List Int) : (vsum nd l).natAbs ≤ vasum nd l := by
  unfold vsum vasum
  induction (l.filter fun v => decide (v ≠ nd)) with
  | nil => simp
  | cons x xs ih => simp only [List.sum_cons, List.map_cons]; omega

/-- the bound of the theorems, on the cells of `xx[groups == g]` -/
theorem grpAbsSum_eq (xx groups : List Int) (nd g : Int) :
    grpAbsSum xx groups nd g = vasum nd (gsel xx groups g) := by
  unfold grpAbsSum vasum gsel
  rw [List.filter_map, List.filter_filter, List.map_map]
  have h2 : (fun (x : Int × Int) => match x with | (v, k) => decide (k = g ∧ v ≠ nd))
      = (fun a => ((fun v => decide (v ≠ nd)) ∘ fun p : Int × Int => p.1) a && decide (a.2 = g)) := by
    funext ⟨v, k⟩; simp [Bool.and_comm]
  rw [h2]
  rfl

variable {β : Type}

/-- a further valid cell: `avg += pixv`, exact because everything stays within the range `B` of `hadd` -/
theorem MgInner.moreB {F : FloatOps β} {B : ℕ} {nd : Int} {sel : List Int} {q : ℕ} {n : Int} {avg : β}
    (hadd : ∀ a b : Int, a.natAbs ≤ B → b.natAbs ≤ B → (a + b).natAbs ≤ B →
      F.add (F.lit a) (F.lit b) = F.lit (a + b))
    (hB : vasum nd sel ≤ B)
    (h : MgInner F nd sel q n avg) (hq : q < sel.length) (hv : ¬ lv sel q = nd) (hn : ¬ n = 0) :
    MgInner F nd sel (q + 1) (n + 1) (F.add avg (F.lit (lv sel q))) := by
  have h1 : vasum nd (sel.take (q + 1)) ≤ B := Nat.le_trans (vasum_take_le nd sel (q + 1)) hB
  have h2 := natAbs_vsum_le nd (sel.take q)
  have h3 := natAbs_vsum_le nd (sel.take (q + 1))
  rw [take_succ_lv sel q hq, vasum_snoc, if_neg hv] at h1
  rw [take_succ_lv sel q hq, vsum_snoc, if_neg hv, vasum_snoc, if_neg hv] at h3
  refine ⟨?_, fun _ => ?_⟩
  · rw [take_succ_lv sel q hq, vcnt_snoc, if_neg hv, h.cnt]; simp
  · rw [take_succ_lv sel q hq, vsum_snoc, if_neg hv, h.acc hn,
      hadd _ _ (by omega) (by omega) (by omega)]

end Hdc.GenKMeanGrp
