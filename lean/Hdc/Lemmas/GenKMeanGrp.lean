import Hdc.Lemmas.PyNpT
import Hdc.Model.Discrete
/-
Loop invariants for `Gen.Kernels.mean_grp` against the model `Hdc.meanGrp` / `Hdc.grpStats`.
-/
namespace Hdc.GenKMeanGrp
open Hdc Hdc.PyNpT Hdc.GenKernels

/-- sum of the valid cells of `l` -/
def vsum (nd : Int) (l : List Int) : Int := (l.filter fun v => decide (v ≠ nd)).sum

/-- number of valid cells of `l` -/
def vcnt (nd : Int) (l : List Int) : ℕ := (l.filter fun v => decide (v ≠ nd)).length

theorem vsum_snoc (nd : Int) (l : List Int) (a : Int) :
    vsum nd (l ++ [a]) = if a = nd then vsum nd l else vsum nd l + a := by
  unfold vsum
  by_cases h : a = nd <;> simp [List.filter_append, h]

theorem vcnt_snoc (nd : Int) (l : List Int) (a : Int) :
    vcnt nd (l ++ [a]) = if a = nd then vcnt nd l else vcnt nd l + 1 := by
  unfold vcnt
  by_cases h : a = nd <;> simp [List.filter_append, h]

/-- the model's statistics of group `g` are the sum and the number of the valid cells of `xx[groups == g]` -/
theorem grpStats_eq (xx groups : List Int) (nd g : Int) :
    grpStats xx groups nd g = (vsum nd (gsel xx groups g), vcnt nd (gsel xx groups g)) := by
  unfold grpStats vsum vcnt gsel
  rw [foldl_pair, List.filter_map, List.filter_filter]
  simp only [Int.zero_add, Nat.zero_add, List.length_map]
  have : (fun a : Int × Int => decide (a.2 = g ∧ a.1 ≠ nd))
      = (fun a => ((fun v => decide (v ≠ nd)) ∘ fun p : Int × Int => p.1) a && decide (a.2 = g)) := by
    funext a; simp [Bool.and_comm]
  have h2 : (fun (x : Int × Int) => match x with | (v, k) => decide (k = g ∧ v ≠ nd))
      = (fun a : Int × Int => decide (a.2 = g ∧ a.1 ≠ nd)) := by
    funext ⟨v, k⟩; rfl
  rw [h2, this]

/-! ### the inner loop: `for pixv in pix` -/

variable {β : Type}

/-- after `q` cells of `pix`: `n` counts the valid ones, `avg` is their sum (once there is one) -/
structure MgInner (F : FloatOps β) (nd : Int) (sel : List Int) (q : ℕ) (n : Int) (avg : β) : Prop where
  cnt : n = vcnt nd (sel.take q)
  acc : n ≠ 0 → avg = F.lit (vsum nd (sel.take q))

theorem MgInner.init (F : FloatOps β) (nd : Int) (sel : List Int) (avg : β) :
    MgInner F nd sel 0 0 avg :=
  ⟨by simp [vcnt], fun h => absurd rfl h⟩

theorem take_succ_lv (sel : List Int) (q : ℕ) (h : q < sel.length) :
    sel.take (q + 1) = sel.take q ++ [lv sel q] := by
  rw [List.take_add_one, List.getElem?_eq_getElem h, lv_eq_getElem sel q h]
  rfl

/-- a nodata cell: `continue` -/
theorem MgInner.skip {F : FloatOps β} {nd : Int} {sel : List Int} {q : ℕ} {n : Int} {avg : β}
    (h : MgInner F nd sel q n avg) (hq : q < sel.length) (hv : lv sel q = nd) :
    MgInner F nd sel (q + 1) n avg := by
  refine ⟨?_, fun hn => ?_⟩
  · rw [take_succ_lv sel q hq, vcnt_snoc, if_pos hv]; exact h.cnt
  · rw [take_succ_lv sel q hq, vsum_snoc, if_pos hv]; exact h.acc hn

/-- the first valid cell: `avg = pixv` -/
theorem MgInner.first {F : FloatOps β} {nd : Int} {sel : List Int} {q : ℕ} {n : Int} {avg : β}
    (h : MgInner F nd sel q n avg) (hq : q < sel.length) (hv : ¬ lv sel q = nd) (hn : n = 0) :
    MgInner F nd sel (q + 1) (n + 1) (F.lit (lv sel q)) := by
  have h0 : vcnt nd (sel.take q) = 0 := by have := h.cnt; omega
  have hs : vsum nd (sel.take q) = 0 := by
    unfold vcnt at h0; unfold vsum
    rw [List.length_eq_zero_iff.mp h0]; rfl
  refine ⟨?_, fun _ => ?_⟩
  · rw [take_succ_lv sel q hq, vcnt_snoc, if_neg hv, h.cnt]; simp
  · rw [take_succ_lv sel q hq, vsum_snoc, if_neg hv, hs, Int.zero_add]

/-- a further valid cell: `avg += pixv` (exact on the integers: `hadd`) -/
theorem MgInner.more {F : FloatOps β} {nd : Int} {sel : List Int} {q : ℕ} {n : Int} {avg : β}
    (hadd : ∀ a b : Int, F.add (F.lit a) (F.lit b) = F.lit (a + b))
    (h : MgInner F nd sel q n avg) (hq : q < sel.length) (hv : ¬ lv sel q = nd) (hn : ¬ n = 0) :
    MgInner F nd sel (q + 1) (n + 1) (F.add avg (F.lit (lv sel q))) := by
  refine ⟨?_, fun _ => ?_⟩
  · rw [take_succ_lv sel q hq, vcnt_snoc, if_neg hv, h.cnt]; simp
  · rw [take_succ_lv sel q hq, vsum_snoc, if_neg hv, h.acc hn, hadd]

/-! ### the outer loop: `for grp in range(num_groups)` -/

/-- the value the cells of group `k` receive -/
def mgVal (F : FloatOps β) (xx groups : List Int) (nd : Int) (k : Int) : β :=
  if (grpStats xx groups nd k).2 = 0 then F.lit nd
  else F.div (F.lit (grpStats xx groups nd k).1) (F.lit ((grpStats xx groups nd k).2 : ℕ))

/-- the buffer after the groups `0 .. p-1` -/
def mgAfter (F : FloatOps β) (xx groups : List Int) (nd : Int) (yy0 : List β) (p : ℕ) : List β :=
  List.zipWith (fun k y => if 0 ≤ k ∧ k < (p : Int) then mgVal F xx groups nd k else y) groups yy0

theorem mgAfter_zero (F : FloatOps β) (xx groups : List Int) (nd : Int) (yy0 : List β)
    (h : groups.length = yy0.length) : mgAfter F xx groups nd yy0 0 = yy0 := by
  unfold mgAfter
  apply List.ext_getElem (by simp [h])
  intro j h1 h2
  simp only [List.getElem_zipWith]
  rw [if_neg (by omega)]

/-- exit of the inner loop and the masked store `yy[grp_ix] = avg` -/
theorem mgAfter_step {F : FloatOps β} {xx groups : List Int} {nd : Int} {yy0 : List β} {p : ℕ}
    {yy : Array β} {n : Int} {avg v : β} (hy : yy.toList = mgAfter F xx groups nd yy0 p)
    (hl : groups.length = yy0.length)
    (hI : MgInner F nd (gsel xx groups (p : Int)) (gsel xx groups (p : Int)).length n avg)
    (hv : v = if n = 0 then F.lit nd else F.div avg (F.lit n)) :
    (npMaskSet yy (npEqMask groups.toArray (p : Int)) v).toList
      = mgAfter F xx groups nd yy0 (p + 1) := by
  have hsz : groups.length = yy.size := by
    have := congrArg List.length hy
    simp only [Array.length_toList, mgAfter, List.length_zipWith] at this
    omega
  have hval : v = mgVal F xx groups nd (p : Int) := by
    rw [hv, mgVal, grpStats_eq]
    have hc := hI.cnt
    rw [List.take_length] at hc
    by_cases hn : n = 0
    · rw [if_pos hn, if_pos (by simp only; omega)]
    · rw [if_neg hn, if_neg (by simp only; omega), hI.acc hn, List.take_length, hc]
  rw [npMaskSet_eqMask_toList yy groups _ v hsz, hy]
  unfold mgAfter
  apply List.ext_getElem (by simp)
  intro j h1 h2
  simp only [List.getElem_zipWith]
  by_cases hj : groups[j]'(by simp at h1; omega) = (p : Int)
  · rw [if_pos hj, if_pos (by omega), hj, hval]
  · rw [if_neg hj]
    by_cases hk : 0 ≤ groups[j]'(by simp at h1; omega) ∧ groups[j]'(by simp at h1; omega) < (p : Int)
    · rw [if_pos hk, if_pos (by omega)]
    · rw [if_neg hk, if_neg (by push_cast; omega)]

/-- the model, cell by cell -/
theorem mgAfter_final (F : FloatOps β) (xx groups : List Int) (nd : Int) (yy0 : List β) (p : ℕ) :
    mgAfter F xx groups nd yy0 p
      = List.zipWith (fun (o : Option (Int × Nat)) (y : β) =>
          o.elim y fun sc => F.quot (F.lit nd) sc.1 sc.2)
        (meanGrp xx groups p nd) yy0 := by
  unfold mgAfter meanGrp
  rw [List.zipWith_map_left]
  congr 1
  funext k y
  by_cases hk : 0 ≤ k ∧ k < (p : Int)
  · simp only [if_pos hk, mgVal, Option.elim, FloatOps.quot]
  · simp only [if_neg hk, Option.elim]

end Hdc.GenKMeanGrp
