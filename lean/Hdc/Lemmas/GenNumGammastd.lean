import Hdc.Lemmas.GenNumGamma
/-
Loop invariants for the refinement proof "generated translation of gammastd = hand model `Hdc.gammastd`"
(Hdc/Props/GenNumGammastd.lean).  Nothing in this file mentions a generated kernel.

  * `CntInv`  : the counting loop (`n_zero`, `n_valid` over the cells that are not nodata);
  * `FillInv` : the output loop (`y[ix] = ndtri(p_zero + (1 − p_zero)·gammainc(alpha, x[ix]/beta))` on the valid cells);
  * `gammastd_of_counts` : the model, given the two counters, as the source's chain of early returns.
-/
namespace Hdc.GenNum
open Hdc Hdc.Gen.NumKernels
open Hdc.Ws2dGen (av Upd)

set_option linter.unusedSectionVars false
set_option linter.unusedSimpArgs false

variable {α : Type} [Field α] [LinearOrder α] [IsStrictOrderedRing α]

/-! ### the counting loop -/

/-- the cells among the first `p` that are not nodata -/
def notndTake (x : List α) (nodata : α) (p : ℕ) : List α := (x.take p).filter fun v => !(eqv v nodata)

/-- after `p` passes of the counting loop -/
structure CntInv (x : List α) (nodata : α) (p : ℕ) (nzero nvalid : ℤ) : Prop where
  hz : nzero = (((notndTake x nodata p).filter fun v => eqv v (nat 0)).length : ℤ)
  hv : nvalid = (((notndTake x nodata p).filter fun v => !(decide (v < nat 0))).length : ℤ)

theorem CntInv.init (x : List α) (nodata : α) : CntInv x nodata 0 0 0 :=
  ⟨by simp [notndTake], by simp [notndTake]⟩

theorem notndTake_succ (x : List α) (nodata : α) (p : ℕ) (hp : p < x.length) :
    notndTake x nodata (p + 1) = notndTake x nodata p ++ (if eqv x[p] nodata then [] else [x[p]]) := by
  unfold notndTake
  rw [take_succ_eq x p hp, List.filter_append, List.filter_singleton]
  by_cases h : eqv x[p] nodata = true <;> simp [h]

/-- one pass of the counting loop, whatever path it takes -/
theorem CntInv.step {x : List α} {nodata : α} {p : ℕ} {nz nv nz' nv' cur : ℤ}
    (h : CntInv x nodata p nz nv) (hp : p < x.length) (hcur : cur = (p : ℤ))
    (hz : nz' = if eqv (rd x.toArray cur) nodata then nz
                else if eqv (rd x.toArray cur) (nat 0) then nz + 1 else nz)
    (hv : nv' = if eqv (rd x.toArray cur) nodata then nv
                else if ¬ (rd x.toArray cur < nat 0) then nv + 1 else nv) :
    CntInv x nodata (p + 1) nz' nv' := by
  rw [rd_list x cur p hcur hp] at hz hv
  refine ⟨?_, ?_⟩
  · rw [hz, notndTake_succ x nodata p hp, h.hz]
    by_cases h1 : eqv x[p] nodata = true
    · simp [h1]
    · by_cases h2 : eqv x[p] (0 : α) = true <;> simp [h1, h2, List.filter_append, List.filter_singleton]
  · rw [hv, notndTake_succ x nodata p hp, h.hv]
    by_cases h1 : eqv x[p] nodata = true
    · simp [h1]
    · by_cases h2 : x[p] < (0 : α) <;> simp [h1, h2, List.filter_append, List.filter_singleton]

theorem notndTake_all (x : List α) (nodata : α) (p : ℕ) (hp : x.length ≤ p) :
    notndTake x nodata p = x.filter fun v => !(eqv v nodata) := by
  simp [notndTake, List.take_of_length_le hp]

/-! ### the output loop -/

/-- the model's cell: `none` = nodata or negative, `some` = the standardised value -/
def cellOf (F : GamFns α) (nodata p0 a b v : α) : Option α :=
  if eqv v nodata then none
  else if v < nat 0 then none
  else some (F.ndtri (p0 + (nat 1 - p0) * F.gammainc a (v / b)))

/-- after `p` passes of the output loop: the first `p` cells are the model's, the others still nodata -/
structure FillInv (F : GamFns α) (nodata p0 a b : α) (x : List α) (p : ℕ) (y : Array α) : Prop where
  size : y.size = x.length
  done : ∀ j (hj : j < x.length), j < p → av y j = (cellOf F nodata p0 a b x[j]).getD nodata
  rest : ∀ j, p ≤ j → j < x.length → av y j = nodata

omit [LinearOrder α] [IsStrictOrderedRing α] in
theorem av_replicate (n : ℕ) (v : α) (j : ℕ) (hj : j < n) : av (Array.replicate n v) j = v := by
  simp [av, hj]

theorem FillInv.init (F : GamFns α) (nodata p0 a b : α) (x : List α) (n : ℤ) (hn : n = (x.length : ℤ)) :
    FillInv F nodata p0 a b x 0 (npFull n nodata) :=
  ⟨by simp [npFull, hn], fun j _ hj => by omega,
   fun j _ hj => by rw [npFull, hn]; exact av_replicate _ _ _ (by simpa using hj)⟩

/-- a pass that leaves the cell alone (`continue` on nodata; a negative cell) -/
theorem FillInv.step_skip {F : GamFns α} {nodata p0 a b : α} {x : List α} {p : ℕ} {y : Array α} {cur : ℤ}
    (h : FillInv F nodata p0 a b x p y) (hp : p < x.length) (hcur : cur = (p : ℤ))
    (hc : eqv (rd x.toArray cur) nodata = true ∨ rd x.toArray cur < nat 0) :
    FillInv F nodata p0 a b x (p + 1) y := by
  rw [rd_list x cur p hcur hp] at hc
  refine ⟨h.size, fun j hj hlt => ?_, fun j hj hlt => h.rest j (by omega) hlt⟩
  by_cases hjp : j = p
  · subst hjp
    rw [h.rest j (le_refl _) hj]
    rcases hc with hc | hc
    · simp [cellOf, hc]
    · simp only [Spi.nat_zero] at hc
      by_cases h1 : eqv x[j] nodata = true <;> simp [cellOf, hc, h1]
  · exact h.done j hj (by omega)

/-- a valid cell: the two writes `y[ix] = p0 + (1 − p0)·gammainc(…)`, `y[ix] = ndtri(y[ix])` -/
theorem FillInv.step_valid {F : GamFns α} {nodata p0 a b : α} {x : List α} {p : ℕ} {y : Array α} {cur : ℤ}
    (h : FillInv F nodata p0 a b x p y) (hp : p < x.length) (hcur : cur = (p : ℤ))
    (h1 : ¬ eqv (rd x.toArray cur) nodata = true) (h2 : ¬ rd x.toArray cur < nat 0) :
    FillInv F nodata p0 a b x (p + 1)
      (wr (wr y cur (p0 + (nat 1 - p0) * F.gammainc a (rd x.toArray cur / b))) cur
        (F.ndtri (rd (wr y cur (p0 + (nat 1 - p0) * F.gammainc a (rd x.toArray cur / b))) cur))) := by
  have hps : p < y.size := by rw [h.size]; exact hp
  have hu1 := wr_upd (a0 := y) (v := p0 + (nat 1 - p0) * F.gammainc a (rd x.toArray cur / b)) rfl p hcur hps
  have hu2 := wr_upd (a0 := wr y cur (p0 + (nat 1 - p0) * F.gammainc a (rd x.toArray cur / b)))
    (v := F.ndtri (rd (wr y cur (p0 + (nat 1 - p0) * F.gammainc a (rd x.toArray cur / b))) cur)) rfl p hcur
    (by rw [hu1.size]; exact hps)
  rw [rd_of_eq (wr y cur _) cur p hcur, hu1.self] at hu2 ⊢
  rw [rd_list x cur p hcur hp] at h1 h2 hu1 hu2 ⊢
  simp only [Spi.nat_zero] at h2
  refine ⟨by rw [hu2.size, hu1.size, h.size], fun j hj hlt => ?_, fun j hj hlt => ?_⟩
  · by_cases hjp : j = p
    · subst hjp
      rw [hu2.self]
      simp [cellOf, h1, h2]
    · rw [hu2.other j hjp, hu1.other j hjp]
      exact h.done j hj (by omega)
  · rw [hu2.other j (by omega), hu1.other j (by omega)]
    exact h.rest j (by omega) hlt

omit [LinearOrder α] [IsStrictOrderedRing α] in
theorem toList_eq_map_of_av (y : Array α) (x : List α) (g : α → α) (hs : y.size = x.length)
    (h : ∀ j (hj : j < x.length), av y j = g x[j]) : y.toList = x.map g := by
  apply List.ext_getElem (by simpa using hs)
  intro j h1 h2
  have hj : j < x.length := by simpa using h2
  have := h j hj
  simp only [av] at this
  rw [Array.getD_eq_getD_getElem?, Array.getElem?_eq_getElem (by rw [hs]; exact hj)] at this
  simpa using this

theorem FillInv.final {F : GamFns α} {nodata p0 a b : α} {x : List α} {p : ℕ} {y : Array α}
    (h : FillInv F nodata p0 a b x p y) (hp : x.length ≤ p) :
    y.toList = x.map fun v => (cellOf F nodata p0 a b v).getD nodata :=
  toList_eq_map_of_av y x _ h.size fun j hj => h.done j hj (by omega)

/-! ### the model as the source's chain of early returns -/

theorem gammastd_of_counts (F : GamFns α) (x : List α) (nodata : α) (cs ce : ℕ) {p : ℕ} {nz nv : ℤ}
    (h : CntInv x nodata p nz nv) (hp : x.length ≤ p) :
    (Hdc.gammastd F x nodata cs ce).map (fun o => o.getD nodata) =
      if nv = 0 then List.replicate x.length nodata
      else if F.c09 < (nz : α) / (nv : α) then List.replicate x.length nodata
      else if eqv (Hdc.gammafit F ((x.drop cs).take (ce - cs))).1 (nat 0) = true
            ∨ eqv (Hdc.gammafit F ((x.drop cs).take (ce - cs))).2 (nat 0) = true then
        List.replicate x.length nodata
      else x.map fun v => (cellOf F nodata ((nz : α) / (nv : α))
        (Hdc.gammafit F ((x.drop cs).take (ce - cs))).1 (Hdc.gammafit F ((x.drop cs).take (ce - cs))).2 v).getD nodata := by
  have hz := h.hz
  have hv := h.hv
  rw [notndTake_all x nodata p hp] at hz hv
  have hzc : (nz : α) = nat ((x.filter fun v => !(eqv v nodata)).filter fun v => eqv v (nat 0)).length := by
    rw [hz]; simp [nat]
  have hvc : (nv : α) = nat ((x.filter fun v => !(eqv v nodata)).filter fun v => !(decide (v < nat 0))).length := by
    rw [hv]; simp [nat]
  have h0 : (nv = 0) ↔ ((x.filter fun v => !(eqv v nodata)).filter fun v => !(decide (v < nat 0))).length = 0 := by
    rw [hv]; omega
  have hrep : ∀ l : List α, (l.map fun _ => (none : Option α)).map (fun o => o.getD nodata)
      = List.replicate l.length nodata := by
    intro l; induction l with
    | nil => rfl
    | cons a l ih => simp [List.replicate_succ, ih]
  unfold Hdc.gammastd
  simp only [← hzc, ← hvc]
  by_cases hnv : nv = 0
  · rw [if_pos hnv, if_pos (h0.1 hnv), hrep]
  · rw [if_neg hnv, if_neg (fun e => hnv (h0.2 e))]
    by_cases h9 : F.c09 < (nz : α) / (nv : α)
    · rw [if_pos h9, if_pos h9, hrep]
    · rw [if_neg h9, if_neg h9]
      rcases hg : Hdc.gammafit F ((x.drop cs).take (ce - cs)) with ⟨a, b⟩
      simp only
      by_cases hab : eqv a (nat 0) = true ∨ eqv b (nat 0) = true
      · rw [if_pos hab, if_pos hab, hrep]
      · rw [if_neg hab, if_neg hab, List.map_map]
        apply List.map_congr_left
        intro v _
        simp only [Function.comp, cellOf]

end Hdc.GenNum
