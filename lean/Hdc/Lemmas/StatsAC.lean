import Hdc.Model.Stats
import Hdc.Lemmas.StatsBasic
import Mathlib.Algebra.Order.Field.Basic
import Mathlib.Algebra.BigOperators.Group.List.Basic
import Mathlib.Algebra.Order.BigOperators.Group.List
import Mathlib.Data.List.ReduceOption
import Mathlib.Tactic.Ring
import Mathlib.Tactic.Linarith
import Mathlib.Tactic.FieldSimp
import Mathlib.Tactic.Positivity
import Mathlib.Algebra.QuadraticDiscriminant
import Mathlib.Data.Sign.Basic
import Mathlib.Tactic.LinearCombination
/-
Lemmas for C15 (lag-1 autocorrelation):
  * closed form of the accumulator loop `acAccum`,
  * sums over mean-filled vectors (filled cells contribute nothing),
  * Cauchy–Schwarz for `List.zipWith`,
  * behaviour of the sums under an affine map of the valid cells.
-/
namespace Hdc.StatsAC
open Hdc.Stats

set_option linter.unusedSectionVars false

/-- a pair of cells, kept when both are valid -/
def pair? {α : Type} : Option α × Option α → Option (α × α)
  | (some x, some y) => some (x, y)
  | _ => none

/-- the pairs (xᵢ, yᵢ) with both cells valid -/
def both {α : Type} (X Y : List (Option α)) : List (α × α) := (X.zip Y).filterMap pair?

section basic
variable {α : Type}

@[simp] theorem pair?_some (x y : α) : pair? (some x, some y) = some (x, y) := rfl
@[simp] theorem pair?_none_left (b : Option α) : pair? (none, b) = none := by cases b <;> rfl
@[simp] theorem pair?_none_right (a : Option α) : pair? (a, none) = none := by cases a <;> rfl

@[simp] theorem both_nil_left (Y : List (Option α)) : both [] Y = [] := by simp [both]
@[simp] theorem both_nil_right (X : List (Option α)) : both X [] = [] := by simp [both]
@[simp] theorem both_some_some (x y : α) (X Y : List (Option α)) :
    both (some x :: X) (some y :: Y) = (x, y) :: both X Y := by
  simp [both]
@[simp] theorem both_none_left (b : Option α) (X Y : List (Option α)) :
    both (none :: X) (b :: Y) = both X Y := by
  simp [both]
@[simp] theorem both_none_right (a : Option α) (X Y : List (Option α)) :
    both (a :: X) (none :: Y) = both X Y := by
  simp [both]

end basic

variable {α : Type} [Field α] [LinearOrder α] [IsStrictOrderedRing α]

/-! ### the accumulator loop -/

theorem acAccum_nil (s : ACSums α) : acAccum [] s = s := by
  simp [acAccum]

theorem acAccum_single (a : Option α) (s : ACSums α) : acAccum [a] s = s := by
  simp [acAccum]

/-- closed form of `acAccum` from an arbitrary start state -/
theorem acAccum_eq (data : List (Option α)) (s : ACSums α) :
    acAccum data s =
      { sxy := s.sxy + ((both data.dropLast data.tail).map fun p => p.1 * p.2).sum
        sx_ := s.sx_ + ((both data.dropLast data.tail).map Prod.fst).sum
        sy_ := s.sy_ + ((both data.dropLast data.tail).map Prod.snd).sum
        nxy := s.nxy + (both data.dropLast data.tail).length
        sx := s.sx + data.dropLast.reduceOption.sum
        sxx := s.sxx + (data.dropLast.reduceOption.map fun x => x * x).sum
        nx := s.nx + data.dropLast.reduceOption.length
        sy := s.sy + data.tail.reduceOption.sum
        syy := s.syy + (data.tail.reduceOption.map fun x => x * x).sum
        ny := s.ny + data.tail.reduceOption.length } := by
  induction data generalizing s with
  | nil => simp [acAccum_nil]
  | cons a t ih =>
    cases t with
    | nil => simp [acAccum_single]
    | cons b rest =>
      cases a <;> cases b <;>
        (rw [acAccum, ih, List.dropLast_cons_cons, List.tail_cons, List.tail_cons]
         simp [List.reduceOption_cons_of_some, List.reduceOption_cons_of_none, add_assoc]
         try omega)

/-! ### raw sums, numerator and denominators of the model -/

/-- number of valid cells -/
def cntV (X : List (Option α)) : ℕ := X.reduceOption.length
/-- sum of the valid cells -/
def sumV (X : List (Option α)) : α := X.reduceOption.sum
/-- sum of squares of the valid cells -/
def sqV (X : List (Option α)) : α := (X.reduceOption.map fun x => x * x).sum

/-- the model's numerator `a` -/
def numA (X Y : List (Option α)) : α :=
  ((cntV X * cntV Y : ℕ) : α) * ((both X Y).map fun p => p.1 * p.2).sum
    - (cntV Y : α) * sumV X * ((both X Y).map Prod.snd).sum
    - (cntV X : α) * sumV Y * ((both X Y).map Prod.fst).sum
    + ((both X Y).length : α) * sumV X * sumV Y

/-- the model's `vx` / `vy` -/
def denV (X : List (Option α)) : α := ((cntV X : α) * sqV X - sumV X * sumV X) * (cntV X : α)

theorem autocorr1d_eq (rsqrt : α → α) (eps : α) (data : List (Option α)) :
    autocorr1d rsqrt eps data =
      if (both data.dropLast data.tail).length = 0 then 0
      else if denV data.dropLast < eps ∨ denV data.tail < eps then 0
      else numA data.dropLast data.tail * rsqrt (denV data.dropLast) * rsqrt (denV data.tail) := by
  unfold autocorr1d
  rw [acAccum_eq]
  simp only [ACSums.zero, nat_zero, zero_add, nat_eq, numA, denV, cntV, sumV, sqV]
  rfl

/-! ### sums over filled vectors: filled cells contribute nothing -/

theorem sum_fill_cov (c d : α) (X Y : List (Option α)) :
    (List.zipWith (fun x y => (x - c) * (y - d)) (X.map fun o => o.getD c)
        (Y.map fun o => o.getD d)).sum
      = ((both X Y).map fun p => (p.1 - c) * (p.2 - d)).sum := by
  induction X generalizing Y with
  | nil => simp
  | cons a X ih =>
    cases Y with
    | nil => simp
    | cons b Y =>
      cases a <;> cases b <;>
        simp only [List.map_cons, List.zipWith_cons_cons, List.sum_cons, Option.getD_some,
          Option.getD_none, both_some_some, both_none_left, both_none_right, sub_self, zero_mul,
          mul_zero, zero_add, ih]

theorem sum_fill_var (c : α) (X : List (Option α)) :
    ((X.map fun o => o.getD c).map fun x => (x - c) ^ 2).sum
      = (X.reduceOption.map fun x => (x - c) ^ 2).sum := by
  induction X with
  | nil => simp
  | cons a X ih =>
    cases a <;>
      simp only [List.map_cons, List.sum_cons, Option.getD_some, Option.getD_none,
        List.reduceOption_cons_of_some, List.reduceOption_cons_of_none, sub_self, ne_eq,
        OfNat.ofNat_ne_zero, not_false_eq_true, zero_pow, zero_add, ih]

theorem sum_centered_prod (c d : α) (B : List (α × α)) :
    (B.map fun p => (p.1 - c) * (p.2 - d)).sum
      = (B.map fun p => p.1 * p.2).sum - d * (B.map Prod.fst).sum - c * (B.map Prod.snd).sum
        + (B.length : α) * c * d := by
  induction B with
  | nil => simp
  | cons p B ih =>
    simp only [List.map_cons, List.sum_cons, List.length_cons, Nat.cast_add, Nat.cast_one, ih]
    ring

theorem sum_centered_sq (c : α) (L : List α) :
    (L.map fun x => (x - c) ^ 2).sum
      = (L.map fun x => x * x).sum - 2 * c * L.sum + (L.length : α) * c ^ 2 := by
  induction L with
  | nil => simp
  | cons x L ih =>
    simp only [List.map_cons, List.sum_cons, List.length_cons, Nat.cast_add, Nat.cast_one, ih]
    ring

/-- `a = nx · ny · cov` (cov over the mean-filled vectors) -/
theorem numA_eq (X Y : List (Option α)) (hx : cntV X ≠ 0) (hy : cntV Y ≠ 0) :
    numA X Y = (cntV X : α) * (cntV Y : α) *
      (List.zipWith (fun x y => (x - sumV X / (cntV X : α)) * (y - sumV Y / (cntV Y : α)))
        (X.map fun o => o.getD (sumV X / (cntV X : α)))
        (Y.map fun o => o.getD (sumV Y / (cntV Y : α)))).sum := by
  have hx' : (cntV X : α) ≠ 0 := Nat.cast_ne_zero.2 hx
  have hy' : (cntV Y : α) ≠ 0 := Nat.cast_ne_zero.2 hy
  rw [sum_fill_cov, sum_centered_prod, numA, Nat.cast_mul]
  field_simp
  ring

/-- `vx = nx² · vX` (vX over the mean-filled vector) -/
theorem denV_eq (X : List (Option α)) (hx : cntV X ≠ 0) :
    denV X = (cntV X : α) ^ 2 *
      ((X.map fun o => o.getD (sumV X / (cntV X : α))).map
        fun x => (x - sumV X / (cntV X : α)) ^ 2).sum := by
  have hx' : (cntV X : α) ≠ 0 := Nat.cast_ne_zero.2 hx
  rw [sum_fill_var, sum_centered_sq, denV]
  simp only [sumV, sqV, cntV] at *
  field_simp
  ring

/-! ### Cauchy–Schwarz for `zipWith` -/

theorem zipWith_quad_nonneg (U V : List α) (t : α) :
    0 ≤ (U.map fun x => x ^ 2).sum * (t * t) + 2 * (List.zipWith (· * ·) U V).sum * t
          + (V.map fun x => x ^ 2).sum := by
  induction U generalizing V with
  | nil =>
    simp only [List.map_nil, List.sum_nil, List.zipWith_nil_left, zero_mul, mul_zero, zero_add]
    exact List.sum_nonneg (by simp only [List.mem_map]; rintro _ ⟨x, _, rfl⟩; positivity)
  | cons u U ih =>
    cases V with
    | nil =>
      simp only [List.map_nil, List.sum_nil, List.zipWith_nil_right, zero_mul, mul_zero, add_zero]
      have : 0 ≤ ((u :: U).map fun x => x ^ 2).sum :=
        List.sum_nonneg (by simp only [List.mem_map]; rintro _ ⟨x, _, rfl⟩; positivity)
      exact mul_nonneg this (mul_self_nonneg t)
    | cons v V =>
      have h := ih V
      simp only [List.map_cons, List.sum_cons, List.zipWith_cons_cons]
      nlinarith [sq_nonneg (u * t + v)]

theorem cauchy_schwarz_zipWith (U V : List α) :
    (List.zipWith (· * ·) U V).sum ^ 2 ≤ (U.map fun x => x ^ 2).sum * (V.map fun x => x ^ 2).sum := by
  have h := discrim_le_zero (zipWith_quad_nonneg U V)
  unfold discrim at h
  nlinarith [h]

/-- `a² ≤ vx · vy` -/
theorem numA_sq_le (X Y : List (Option α)) (hx : cntV X ≠ 0) (hy : cntV Y ≠ 0) :
    numA X Y ^ 2 ≤ denV X * denV Y := by
  rw [numA_eq X Y hx hy, denV_eq X hx, denV_eq Y hy]
  generalize (X.map fun o => o.getD (sumV X / (cntV X : α))) = FX
  generalize (Y.map fun o => o.getD (sumV Y / (cntV Y : α))) = FY
  generalize sumV X / (cntV X : α) = cx
  generalize sumV Y / (cntV Y : α) = cy
  have h := cauchy_schwarz_zipWith (FX.map fun x => x - cx) (FY.map fun y => y - cy)
  rw [List.zipWith_map, List.map_map, List.map_map] at h
  simp only [Function.comp_def] at h
  have hn : (0 : α) ≤ ((cntV X : α) * (cntV Y : α)) ^ 2 := sq_nonneg _
  calc _ = ((cntV X : α) * (cntV Y : α)) ^ 2 * _ ^ 2 := by rw [mul_pow]
    _ ≤ ((cntV X : α) * (cntV Y : α)) ^ 2 * _ := mul_le_mul_of_nonneg_left h hn
    _ = _ := by ring

theorem denV_nonneg (X : List (Option α)) : 0 ≤ denV X := by
  by_cases hx : cntV X = 0
  · simp [denV, hx]
  · rw [denV_eq X hx]
    refine mul_nonneg (sq_nonneg _) (List.sum_nonneg ?_)
    simp only [List.mem_map]
    rintro _ ⟨_, _, rfl⟩
    positivity

/-- a valid pair makes both counts positive -/
theorem cntV_ne_zero_of_both (X Y : List (Option α)) (h : (both X Y).length ≠ 0) :
    cntV X ≠ 0 ∧ cntV Y ≠ 0 := by
  induction X generalizing Y with
  | nil => simp at h
  | cons a X ih =>
    cases Y with
    | nil => simp at h
    | cons b Y =>
      cases a <;> cases b <;>
        simp only [both_some_some, both_none_left, both_none_right, List.length_cons] at h <;>
        simp only [cntV, List.reduceOption_cons_of_some, List.reduceOption_cons_of_none,
          List.length_cons] <;>
        first
          | exact ⟨Nat.succ_ne_zero _, Nat.succ_ne_zero _⟩
          | exact ⟨Nat.succ_ne_zero _, (ih Y h).2⟩
          | exact ⟨(ih Y h).1, Nat.succ_ne_zero _⟩
          | exact ih Y h

/-! ### constant vectors -/

theorem denV_const (X : List (Option α)) (c : α) (h : ∀ x ∈ X.reduceOption, x = c) :
    denV X = 0 := by
  have h1 : sumV X = (cntV X : α) * c := by
    unfold sumV cntV
    generalize X.reduceOption = L at h
    induction L with
    | nil => simp
    | cons x L ih =>
      have hx : x = c := h x (by simp)
      have := ih (fun y hy => h y (by simp [hy]))
      simp only [List.sum_cons, List.length_cons, Nat.cast_add, Nat.cast_one, this, hx]; ring
  have h2 : sqV X = (cntV X : α) * (c * c) := by
    unfold sqV cntV
    generalize X.reduceOption = L at h
    induction L with
    | nil => simp
    | cons x L ih =>
      have hx : x = c := h x (by simp)
      have := ih (fun y hy => h y (by simp [hy]))
      simp only [List.map_cons, List.sum_cons, List.length_cons, Nat.cast_add, Nat.cast_one, this,
        hx]; ring
  rw [denV, h1, h2]; ring

/-! ### affine maps of the valid cells -/

theorem both_map (f g : α → α) (X Y : List (Option α)) :
    both (X.map (Option.map f)) (Y.map (Option.map g)) = (both X Y).map (Prod.map f g) := by
  induction X generalizing Y with
  | nil => simp
  | cons a X ih =>
    cases Y with
    | nil => simp
    | cons b Y =>
      cases a <;> cases b <;>
        simp only [List.map_cons, Option.map_some, Option.map_none, both_some_some,
          both_none_left, both_none_right, Prod.map_apply, ih]

theorem sum_map_affine (a b : α) (L : List α) :
    (L.map fun x => a * x + b).sum = a * L.sum + (L.length : α) * b := by
  induction L with
  | nil => simp
  | cons x L ih =>
    simp only [List.map_cons, List.sum_cons, List.length_cons, Nat.cast_add, Nat.cast_one, ih]; ring

theorem sum_map_affine_sq (a b : α) (L : List α) :
    ((L.map fun x => a * x + b).map fun x => x * x).sum
      = a ^ 2 * (L.map fun x => x * x).sum + 2 * a * b * L.sum + (L.length : α) * b ^ 2 := by
  induction L with
  | nil => simp
  | cons x L ih =>
    simp only [List.map_cons, List.sum_cons, List.length_cons, Nat.cast_add, Nat.cast_one, ih]; ring

theorem cntV_map (f : α → α) (X : List (Option α)) : cntV (X.map (Option.map f)) = cntV X := by
  simp [cntV, List.reduceOption_map]

theorem sumV_affine (a b : α) (X : List (Option α)) :
    sumV (X.map (Option.map fun x => a * x + b)) = a * sumV X + (cntV X : α) * b := by
  simp only [sumV, cntV, List.reduceOption_map, sum_map_affine]

theorem sqV_affine (a b : α) (X : List (Option α)) :
    sqV (X.map (Option.map fun x => a * x + b))
      = a ^ 2 * sqV X + 2 * a * b * sumV X + (cntV X : α) * b ^ 2 := by
  simp only [sqV, sumV, cntV, List.reduceOption_map, sum_map_affine_sq]

theorem denV_affine (a b : α) (X : List (Option α)) :
    denV (X.map (Option.map fun x => a * x + b)) = a ^ 2 * denV X := by
  simp only [denV, cntV_map, sumV_affine, sqV_affine]; ring

theorem sum_fst_affine (a b : α) (B : List (α × α)) :
    ((B.map (Prod.map (fun x => a * x + b) fun x => a * x + b)).map Prod.fst).sum
      = a * (B.map Prod.fst).sum + (B.length : α) * b := by
  induction B with
  | nil => simp
  | cons p B ih =>
    simp only [List.map_cons, List.sum_cons, List.length_cons, Nat.cast_add, Nat.cast_one,
      Prod.map_fst, ih]; ring

theorem sum_snd_affine (a b : α) (B : List (α × α)) :
    ((B.map (Prod.map (fun x => a * x + b) fun x => a * x + b)).map Prod.snd).sum
      = a * (B.map Prod.snd).sum + (B.length : α) * b := by
  induction B with
  | nil => simp
  | cons p B ih =>
    simp only [List.map_cons, List.sum_cons, List.length_cons, Nat.cast_add, Nat.cast_one,
      Prod.map_snd, ih]; ring

theorem sum_prod_affine (a b : α) (B : List (α × α)) :
    ((B.map (Prod.map (fun x => a * x + b) fun x => a * x + b)).map fun p => p.1 * p.2).sum
      = a ^ 2 * (B.map fun p => p.1 * p.2).sum + a * b * (B.map Prod.fst).sum
        + a * b * (B.map Prod.snd).sum + (B.length : α) * b ^ 2 := by
  induction B with
  | nil => simp
  | cons p B ih =>
    simp only [List.map_cons, List.sum_cons, List.length_cons, Nat.cast_add, Nat.cast_one,
      Prod.map_fst, Prod.map_snd, ih]; ring

theorem numA_affine (a b : α) (X Y : List (Option α)) :
    numA (X.map (Option.map fun x => a * x + b)) (Y.map (Option.map fun x => a * x + b))
      = a ^ 2 * numA X Y := by
  simp only [numA, cntV_map, sumV_affine, both_map, sum_fst_affine, sum_snd_affine,
    sum_prod_affine, List.length_map, Nat.cast_mul]
  ring

/-! ### arithmetic of the returned value `A · rsqrt VX · rsqrt VY` -/

theorem value_facts (rsqrt : α → α)
    (hr : ∀ x, 0 < x → 0 < rsqrt x ∧ rsqrt x * rsqrt x * x = 1)
    (A VX VY : α) (hVX : 0 ≤ VX) (hVY : 0 ≤ VY) (hCS : A ^ 2 ≤ VX * VY) :
    (A * rsqrt VX * rsqrt VY) ^ 2 * (VX * VY) = A ^ 2 ∧
    (A * rsqrt VX * rsqrt VY) ^ 2 ≤ 1 ∧
    SignType.sign (A * rsqrt VX * rsqrt VY) = SignType.sign A := by
  by_cases h0 : VX * VY = 0
  · have hA : A = 0 := by
      have : A ^ 2 = 0 := le_antisymm (h0 ▸ hCS) (sq_nonneg A)
      exact pow_eq_zero_iff (two_ne_zero) |>.1 this
    subst hA
    simp
  · have hx : 0 < VX := lt_of_le_of_ne hVX (fun h => h0 (by rw [← h, zero_mul]))
    have hy : 0 < VY := lt_of_le_of_ne hVY (fun h => h0 (by rw [← h, mul_zero]))
    obtain ⟨px, ex⟩ := hr VX hx
    obtain ⟨py, ey⟩ := hr VY hy
    have h1 : (A * rsqrt VX * rsqrt VY) ^ 2 * (VX * VY) = A ^ 2 := by
      linear_combination A ^ 2 * (rsqrt VY * rsqrt VY * VY) * ex + A ^ 2 * ey
    refine ⟨h1, ?_, ?_⟩
    · have hP : 0 < VX * VY := mul_pos hx hy
      refine le_of_mul_le_mul_right ?_ hP
      rw [h1, one_mul]; exact hCS
    · rw [mul_assoc, sign_mul, sign_pos (mul_pos px py), mul_one]

end Hdc.StatsAC
