import Hdc.Gen.SafeBase
import Hdc.Lemmas.GenKernels
/-
Facts about the check combinators of the instrumentation mode (Hdc/Gen/SafeBase.lean: `oob`, `oobFlat`, `maskBad`) and
about the sizes of the arrays the translated statements produce.  Kernel independent.
-/
namespace Hdc.SafeLemmas
open Hdc.Gen.Safe Hdc.Gen.Kernels

/-- the flag stays down exactly on Python's accepted index range -/
theorem oob_eq_false_iff (n i : Int) : oob n i = false ↔ (-n ≤ i ∧ i < n) := by
  simp only [oob, Bool.or_eq_false_iff, decide_eq_false_iff_not, not_lt, not_le]

theorem oob_eq_true_iff (n i : Int) : oob n i = true ↔ (i < -n ∨ n ≤ i) := by
  simp only [oob, Bool.or_eq_true, decide_eq_true_eq]

theorem oobFlat_eq_false_iff (n : Nat) (p : Int) : oobFlat n p = false ↔ (0 ≤ p ∧ p < (n : Int)) := by
  simp only [oobFlat, Bool.or_eq_false_iff, decide_eq_false_iff_not, not_lt, not_le]

theorem maskBad_eq_false_iff {γ : Type} (a : Array γ) (m : Array Bool) :
    maskBad a m = false ↔ m.size = a.size := by
  simp only [maskBad, decide_eq_false_iff_not, not_not]

theorem size_whereEq_le (a : Array Int) (k : Int) : (whereEq a k).size ≤ a.size := by
  simp only [whereEq, List.size_toArray, List.length_map]
  exact (List.length_filter_le _ _).trans (by simp)

/-- `a[lo:hi]` for `lo ≥ 0`, `hi < 0`:  `max 0 (len a + hi - lo)` cells -/
theorem size_pySlice (a : Array Int) (lo hi : Int) :
    (pySlice a lo hi).size =
      (min (if hi < 0 then max 0 (hi + (a.size : Int)) else min hi (a.size : Int)).toNat a.size)
        - (if lo < 0 then max 0 (lo + (a.size : Int)) else min lo (a.size : Int)).toNat := by
  simp only [pySlice, Array.size_extract]

theorem maskBad_eq_true_iff {γ : Type} (a : Array γ) (m : Array Bool) :
    maskBad a m = true ↔ m.size ≠ a.size := by
  simp only [maskBad, decide_eq_true_eq]

theorem oobFlat_eq_true_iff (n : Nat) (p : Int) : oobFlat n p = true ↔ (p < 0 ∨ (n : Int) ≤ p) := by
  simp only [oobFlat, Bool.or_eq_true, decide_eq_true_eq]

/-- a read inside the array (no wrap) returns one of its cells -/
theorem rd_mem (a : Array Int) (i : Int) (h0 : 0 ≤ i) (h1 : i < (a.size : Int)) : rd a i ∈ a.toList := by
  have hlt : i.toNat < a.size := by omega
  rw [Hdc.GenKernels.rd_nonneg a i h0, Hdc.GenKernels.gv, Array.getD_eq_getD_getElem?,
    Array.getElem?_eq_getElem hlt, Option.getD_some]
  exact Array.getElem_mem_toList hlt

/-- `a[1:]` and `a[:-1]` have the same length (`max 0 (len a - 1)`) -/
theorem size_pySlice_tail_eq_init (a : Array Int) :
    (pySlice a 1 (a.size : Int)).size = (pySlice a 0 (-1)).size := by
  simp only [size_pySlice]
  have h1 : ¬ ((1 : Int) < 0) := by omega
  have h2 : ¬ ((a.size : Int) < 0) := by omega
  have h3 : ((-1 : Int) < 0) := by omega
  have h4 : ¬ ((0 : Int) < 0) := by omega
  simp only [h1, h2, h3, h4, if_true, if_false]
  omega

/-- the verification conditions of a `safe_<kernel>_flag` proof (exact characterisation of the flag): the same, with every
    `bad || c1 || ..` turned into the disjunction of the violated ranges; closed by `grind` -/
macro "safe_vcs_iff" " [" ls:Lean.Parser.Tactic.simpLemma,* "]" : tactic => `(tactic|
  (all_goals
     py_ranges
     try simp (config := {zetaDelta := true}) only [Hdc.GenKernels.pyRange_length, decide_eq_true_eq, decide_eq_false_iff_not,
       not_lt, not_le, Bool.or_eq_true, Bool.or_eq_false_iff, Bool.and_eq_true, ne_eq,
       Hdc.SafeLemmas.oob_eq_true_iff, Hdc.SafeLemmas.oob_eq_false_iff, Hdc.SafeLemmas.maskBad_eq_true_iff,
       Hdc.SafeLemmas.oobFlat_eq_true_iff, Hdc.GenKernels.size_wr, Array.size_map,
       List.length_append, List.length_singleton, List.length_nil, $ls,*] at *
   all_goals grind))

/-- the verification conditions of a `safe_<kernel>_ok` proof (after `mvcgen`): name the loop positions, turn every
    `bad || c1 || ..` into the conjunction of the index ranges, and close the linear arithmetic -/
macro "safe_vcs" " [" ls:Lean.Parser.Tactic.simpLemma,* "]" : tactic => `(tactic|
  (all_goals
     py_ranges
     try simp (config := {zetaDelta := true}) only [Hdc.GenKernels.pyRange_length, decide_eq_true_eq, decide_eq_false_iff_not,
       not_lt, not_le, Bool.or_eq_false_iff, Bool.and_eq_false_imp, Bool.and_eq_true, Bool.not_eq_true', Bool.false_or, ne_eq,
       Hdc.SafeLemmas.oob_eq_false_iff, Hdc.SafeLemmas.oobFlat_eq_false_iff, Hdc.SafeLemmas.maskBad_eq_false_iff,
       Hdc.GenKernels.size_wr, Array.size_map, $ls,*] at *
   all_goals (repeat' apply And.intro)
   all_goals first | omega | simp_all))

end Hdc.SafeLemmas
