import Hdc.Lemmas.GenKernels
import Hdc.Model.Stats
/-
Loop invariant for `Gen.Kernels.autocorr_sums` against the model `Hdc.acAccum` (at `Int`), and the two
slices `data[:-1]`, `data[1:]` of the source.
-/
namespace Hdc.GenKernels
open Hdc Hdc.Gen.Kernels

/-! ### `data[:-1]` and `data[1:]` -/

theorem size_pySlice_init (l : List Int) : (pySlice l.toArray 0 (-1)).size = l.length - 1 := by
  simp only [pySlice, List.size_toArray, Array.size_extract]
  omega

theorem gv_pySlice_init (l : List Int) (j : ℕ) (h : j + 1 < l.length) :
    gv (pySlice l.toArray 0 (-1)) j = lv l j := by
  have h1 : (max (0 : ℤ) (-1 + (l.length : ℤ))).toNat = l.length - 1 := by omega
  have h2 : (min (0 : ℤ) (l.length : ℤ)).toNat = 0 := by omega
  simp only [pySlice, gv, lv, List.size_toArray, Array.getD_eq_getD_getElem?]
  simp only [show ((-1 : ℤ) < 0) from by omega, show ¬ ((0 : ℤ) < 0) from by omega, if_true,
    if_false, h1, h2]
  rw [Array.getElem?_extract]
  simp [show j < l.length - 1 from by omega]

theorem gv_pySlice_tail (l : List Int) (j : ℕ) (h : j + 1 < l.length) :
    gv (pySlice l.toArray 1 (l.length : ℤ)) j = lv l (j + 1) := by
  have h1 : (min (1 : ℤ) (l.length : ℤ)).toNat = 1 := by omega
  have h2 : (min (l.length : ℤ) (l.length : ℤ)).toNat = l.length := by omega
  simp only [pySlice, gv, lv, List.size_toArray, Array.getD_eq_getD_getElem?]
  simp only [show ¬ ((1 : ℤ) < 0) from by omega, show ¬ ((l.length : ℤ) < 0) from by omega,
    if_false, h1, h2]
  rw [Array.getElem?_extract]
  simp [show j < l.length - 1 from by omega, Nat.add_comm]

/-- `data[:-1]` is `dropLast` (any length, including 0) -/
theorem pySlice_init (l : List Int) : pySlice l.toArray 0 (-1) = l.dropLast.toArray := by
  have h1 : (max (0 : ℤ) (-1 + (l.length : ℤ))).toNat = l.length - 1 := by omega
  have h2 : (min (0 : ℤ) (l.length : ℤ)).toNat = 0 := by omega
  simp only [pySlice, List.size_toArray, show ((-1 : ℤ) < 0) from by omega,
    show ¬ ((0 : ℤ) < 0) from by omega, if_true, if_false, h1, h2]
  simp [List.dropLast_eq_take]

/-- `data[1:]` is `tail` (any length, including 0) -/
theorem pySlice_tail (l : List Int) : pySlice l.toArray 1 (l.length : ℤ) = l.tail.toArray := by
  have h1 : (min (1 : ℤ) (l.length : ℤ)).toNat = min 1 l.length := by omega
  have h2 : (min (l.length : ℤ) (l.length : ℤ)).toNat = l.length := by omega
  simp only [pySlice, List.size_toArray, show ¬ ((1 : ℤ) < 0) from by omega,
    show ¬ ((l.length : ℤ) < 0) from by omega, if_false, h1, h2]
  cases l <;> simp

/-! ### the loop -/

/-- the model's input: `none` = nodata cell -/
def acOpt (data : List Int) (nodata : Int) : List (Option Int) :=
  data.map fun v => if v = nodata then none else some v

abbrev Tup10 := ℤ × ℤ × ℤ × ℤ × ℤ × ℤ × ℤ × ℤ × ℤ × ℤ

/-- the accumulators in the order of the loop state: `Sx_, Sy_, Sxy, nxy, Sx, Sxx, nx, Sy, Syy, ny` -/
def acTuple (S : ACSums Int) : Tup10 :=
  (S.sx_, S.sy_, S.sxy, (S.nxy : ℤ), S.sx, S.sxx, (S.nx : ℤ), S.sy, S.syy, (S.ny : ℤ))

/-- the accumulators in the order of the `return` statement -/
def acResult (S : ACSums Int) : Tup10 :=
  (S.sxy, S.sx_, S.sy_, (S.nxy : ℤ), S.sx, S.sxx, (S.nx : ℤ), S.sy, S.syy, (S.ny : ℤ))

/-- the effect of one iteration on the accumulators, cells `x = data[i]`, `y = data[i+1]` -/
def acNext (nodata x y : ℤ) (t : Tup10) : Tup10 :=
  let sx_ := t.1; let sy_ := t.2.1; let sxy := t.2.2.1; let nxy := t.2.2.2.1
  let sx := t.2.2.2.2.1; let sxx := t.2.2.2.2.2.1; let nx := t.2.2.2.2.2.2.1
  let sy := t.2.2.2.2.2.2.2.1; let syy := t.2.2.2.2.2.2.2.2.1; let ny := t.2.2.2.2.2.2.2.2.2
    (if x ≠ nodata ∧ y ≠ nodata then sx_ + x else sx_,
     if x ≠ nodata ∧ y ≠ nodata then sy_ + y else sy_,
     if x ≠ nodata ∧ y ≠ nodata then sxy + x * y else sxy,
     if x ≠ nodata ∧ y ≠ nodata then nxy + 1 else nxy,
     if x ≠ nodata then sx + x else sx,
     if x ≠ nodata then sxx + x * x else sxx,
     if x ≠ nodata then nx + 1 else nx,
     if y ≠ nodata then sy + y else sy,
     if y ≠ nodata then syy + y * y else syy,
     if y ≠ nodata then ny + 1 else ny)

/-- after `p` iterations: the model, continued from cell `p` with the current accumulators, returns
    its final accumulators -/
def AcInv (data : List Int) (nodata : Int) (p : ℕ) (t : Tup10) : Prop :=
  ∃ S : ACSums Int, t = acTuple S ∧
    acAccum ((acOpt data nodata).drop p) S = acAccum (acOpt data nodata) ACSums.zero

theorem AcInv.init (data : List Int) (nodata : Int) :
    AcInv data nodata 0 (0, 0, 0, 0, 0, 0, 0, 0, 0, 0) :=
  ⟨ACSums.zero, by simp [acTuple, ACSums.zero, nat], rfl⟩

theorem acAccum_cons2 (a b : Option Int) (rest : List (Option Int)) (s : ACSums Int) :
    acAccum (a :: b :: rest) s = acAccum (b :: rest)
      (let s1 := match a with
        | some x => { s with sx := s.sx + x, sxx := s.sxx + x * x, nx := s.nx + 1 }
        | none => s
      let s2 := match b with
        | some y => { s1 with sy := s1.sy + y, syy := s1.syy + y * y, ny := s1.ny + 1 }
        | none => s1
      match a, b with
        | some x, some y =>
          { s2 with sx_ := s2.sx_ + x, sy_ := s2.sy_ + y, sxy := s2.sxy + x * y, nxy := s2.nxy + 1 }
        | _, _ => s2) := by
  cases a <;> cases b <;> simp only [acAccum]

theorem AcInv.step {data : List Int} {nodata : Int} {p : ℕ} {t t' : Tup10}
    (h : AcInv data nodata p t) (hp : p + 1 < data.length) {j0 j1 : ℕ} (hj0 : j0 = p)
    (hj1 : j1 = p + 1) {x y : ℤ}
    (hx : x = lv data j0) (hy : y = lv data j1) (ht : t' = acNext nodata x y t) :
    AcInv data nodata (p + 1) t' := by
  subst hj1; subst j0
  obtain ⟨S, rfl, hS⟩ := h
  have hlen : (acOpt data nodata).length = data.length := by simp [acOpt]
  have hd1 : (acOpt data nodata).drop p
      = (if x = nodata then none else some x) :: (acOpt data nodata).drop (p + 1) := by
    rw [List.drop_eq_getElem_cons (by omega)]
    simp [acOpt, hx, lv_eq_getElem data p (by omega)]
  have hd2 : (acOpt data nodata).drop (p + 1)
      = (if y = nodata then none else some y) :: (acOpt data nodata).drop (p + 1 + 1) := by
    rw [List.drop_eq_getElem_cons (by omega)]
    simp [acOpt, hy, lv_eq_getElem data (p + 1) (by omega)]
  rw [hd1, hd2, acAccum_cons2, ← hd2] at hS
  refine ⟨_, ?_, hS⟩
  rw [ht]
  by_cases h1 : x = nodata <;> by_cases h2 : y = nodata <;>
    simp [acNext, acTuple, h1, h2]

theorem AcInv.final {data : List Int} {nodata : Int} {p : ℕ} {t : Tup10}
    (h : AcInv data nodata p t) (hp : data.length ≤ p + 1) :
    ∃ S, t = acTuple S ∧ S = acAccum (acOpt data nodata) ACSums.zero := by
  obtain ⟨S, rfl, hS⟩ := h
  refine ⟨S, rfl, ?_⟩
  have hlen : (acOpt data nodata).length = data.length := by simp [acOpt]
  rw [← hS]
  rcases hl : (acOpt data nodata).drop p with _ | ⟨a, _ | ⟨b, r⟩⟩
  · rw [acAccum]
    simp
  · rw [acAccum]
    simp
  · have := congrArg List.length hl
    simp only [List.length_drop, List.length_cons] at this
    omega

end Hdc.GenKernels
