import Hdc.Lemmas.GenNumGamma
import Hdc.Lemmas.SpiGroup
/-
Lemmas for the refinement proof "generated translation of gammastd_grp = hand model `Hdc.gammastdGrp`"
(Hdc/Props/GenNumGammastdGrp.lean).  Nothing in this file mentions a generated kernel.

  * `gatherL_groups`, `rdI2_cal`       the mask `groups == grp` / the window `cal_indices[grp, :]` against the model;
  * `mergeOut`                          how the model's output (`none` = never written) sits in the output buffer;
  * `merge_scatter_set/_fill`           `yy[grp_ix] = res[:]`, `yy[grp_ix] = nodata` against `scatterGrp`;
  * `scaled_cells`, `unscaled_cells`    `res[valid] = clip(res[valid]·1000, −32768, 32767); round` against `spiCell`;
  * `GrpInv`                            the invariant of the loop over the groups.
-/
namespace Hdc.GenNum
open Hdc Hdc.Gen.NumKernels
open Hdc.Spi (grpResult gammastdGrp_succ gammastdGrp_zero gammastdGrp_length gatherGrp_cons scatterGrp_cons_eq_cons
  scatterGrp_cons_eq_nil scatterGrp_cons_ne scatterGrp_nil_groups scatterGrp_nil_out)

set_option linter.unusedSectionVars false
set_option linter.unusedSimpArgs false

/-! ### masks and windows -/

/-- the labels as the translated kernel receives them -/
def groupsArr (groups : List ℕ) : Array Int := (groups.map Int.ofNat).toArray

/-- the calibration windows as a 2-d integer array of rows `[start, stop]` -/
def calArr (cal : List (ℕ × ℕ)) : Array (Array Int) := (cal.map fun c => #[(c.1 : ℤ), (c.2 : ℤ)]).toArray

/-- `groups == g` as a list of Booleans -/
def grpMask (groups : List ℕ) (g : ℕ) : List Bool := groups.map fun k => decide (k = g)

theorem groupsArr_mask (groups : List ℕ) (g : ℕ) :
    (groupsArr groups).map (fun e => decide (e = (g : ℤ))) = (grpMask groups g).toArray := by
  simp only [groupsArr, grpMask, List.map_toArray, List.map_map]
  congr 1
  apply List.map_congr_left
  intro k _
  simp only [Function.comp, Int.ofNat_eq_natCast]
  by_cases h : k = g
  · simp [h]
  · have : ¬ ((k : ℤ) = (g : ℤ)) := by omega
    simp [h, this]

theorem gatherL_groups {β : Type} (xx : List β) (groups : List ℕ) (g : ℕ) :
    gatherL xx (grpMask groups g) = gatherGrp xx groups g := by
  induction xx generalizing groups with
  | nil => simp [gatherL]
  | cons x xs ih =>
    cases groups with
    | nil => simp [gatherL, grpMask]
    | cons k ks =>
      rw [gatherGrp_cons]
      by_cases h : k = g
      · simp [grpMask, gatherL, h]; exact ih ks
      · simp [grpMask, gatherL, h]; exact ih ks

theorem rdI2_cal (cal : List (ℕ × ℕ)) (g : ℕ) :
    rdI2 (calArr cal) (g : ℤ) 0 = ((cal.getD g (0, 0)).1 : ℤ) ∧
    rdI2 (calArr cal) (g : ℤ) 1 = ((cal.getD g (0, 0)).2 : ℤ) := by
  unfold rdI2 calArr
  rw [ix_of_eq _ (g : ℤ) g rfl]
  by_cases hg : g < cal.length
  · simp [hg, rdI, ix]
  · have hg' : cal.length ≤ g := by omega
    simp [hg', rdI, ix, List.getD_eq_getElem?_getD, List.getElem?_eq_none hg']

/-! ### the model's output inside the output buffer -/

section merge
variable {α : Type}

/-- the output buffer: cells the model never writes keep the old content -/
def mergeOut (cell : Option α → α) (outs : List (Option (Option α))) (yy0 : List α) : List α :=
  List.zipWith (fun o y => match o with | none => y | some c => cell c) outs yy0

theorem mergeOut_none (cell : Option α → α) (xx yy0 : List α) (h : yy0.length = xx.length) :
    mergeOut cell (xx.map fun _ => none) yy0 = yy0 := by
  induction xx generalizing yy0 with
  | nil => cases yy0 <;> simp_all [mergeOut]
  | cons x xs ih =>
    cases yy0 with
    | nil => simp at h
    | cons y ys =>
      have := ih ys (by simpa using h)
      simp only [mergeOut, List.map_cons, List.zipWith_cons_cons] at this ⊢
      rw [this]

/-- `yy[groups == g] = vals` -/
theorem merge_scatter_set (cell : Option α → α) (g : ℕ) :
    ∀ (groups : List ℕ) (vals : List (Option α)) (outs : List (Option (Option α))) (yy0 : List α),
      outs.length = groups.length → yy0.length = groups.length →
      maskSetL (mergeOut cell outs yy0) (grpMask groups g) (vals.map cell)
        = mergeOut cell (scatterGrp g groups vals outs) yy0
  | [], vals, outs, yy0, h1, h2 => by
    cases outs <;> cases yy0 <;> simp_all [grpMask, mergeOut, maskSetL, scatterGrp_nil_groups]
  | k :: ks, vals, [], yy0, h1, h2 => by simp at h1
  | k :: ks, vals, o :: os, [], h1, h2 => by simp at h2
  | k :: ks, vals, o :: os, y :: ys, h1, h2 => by
    have ih := fun vs => merge_scatter_set cell g ks vs os ys (by simpa using h1) (by simpa using h2)
    by_cases hk : k = g
    · subst hk
      cases vals with
      | nil =>
        rw [scatterGrp_cons_eq_nil]
        have := ih []
        simp only [mergeOut, grpMask, List.map_cons, List.zipWith_cons_cons, List.map_nil, maskSetL,
          decide_true, if_true] at this ⊢
        rw [this]
      | cons v vs =>
        rw [scatterGrp_cons_eq_cons]
        have := ih vs
        simp only [mergeOut, grpMask, List.map_cons, List.zipWith_cons_cons, maskSetL,
          decide_true, if_true] at this ⊢
        rw [this]
    · rw [scatterGrp_cons_ne g k hk]
      have := ih vals
      simp only [mergeOut, grpMask, List.map_cons, List.zipWith_cons_cons, maskSetL, hk,
        decide_false, Bool.false_eq_true, if_false] at this ⊢
      rw [this]

/-- `yy[groups == g] = nodata` when the model's cells of the group are all `none` -/
theorem merge_scatter_fill (cell : Option α → α) (g : ℕ) :
    ∀ (groups : List ℕ) (vals : List (Option α)) (outs : List (Option (Option α))) (yy0 : List α),
      outs.length = groups.length → yy0.length = groups.length →
      (∀ v ∈ vals, v = none) → groups.count g ≤ vals.length →
      maskFillL (mergeOut cell outs yy0) (grpMask groups g) (cell none)
        = mergeOut cell (scatterGrp g groups vals outs) yy0
  | [], vals, outs, yy0, h1, h2, _, _ => by
    cases outs <;> cases yy0 <;> simp_all [grpMask, mergeOut, maskFillL, scatterGrp_nil_groups]
  | k :: ks, vals, [], yy0, h1, h2, _, _ => by simp at h1
  | k :: ks, vals, o :: os, [], h1, h2, _, _ => by simp at h2
  | k :: ks, vals, o :: os, y :: ys, h1, h2, hn, hc => by
    by_cases hk : k = g
    · subst hk
      cases vals with
      | nil => simp at hc
      | cons v vs =>
        have hv : v = none := hn v (by simp)
        subst hv
        rw [scatterGrp_cons_eq_cons]
        have := merge_scatter_fill cell k ks vs os ys (by simpa using h1) (by simpa using h2)
          (fun w hw => hn w (by simp [hw])) (by simpa using hc)
        simp only [mergeOut, grpMask, List.map_cons, List.zipWith_cons_cons, maskFillL,
          decide_true, if_true] at this ⊢
        rw [this]
    · rw [scatterGrp_cons_ne g k hk]
      have := merge_scatter_fill cell g ks vals os ys (by simpa using h1) (by simpa using h2) hn
        (by rw [List.count_cons_of_ne (by simpa using hk)] at hc; exact hc)
      simp only [mergeOut, grpMask, List.map_cons, List.zipWith_cons_cons, maskFillL, hk,
        decide_false, Bool.false_eq_true, if_false] at this ⊢
      rw [this]

theorem gatherL_mask_length {β : Type} (xx : List β) (groups : List ℕ) (g : ℕ) (h : groups.length = xx.length) :
    (gatherL xx (grpMask groups g)).length = groups.count g := by
  induction xx generalizing groups with
  | nil => cases groups <;> simp_all [gatherL]
  | cons x xs ih =>
    cases groups with
    | nil => simp at h
    | cons k ks =>
      have := ih ks (by simpa using h)
      by_cases hk : k = g
      · subst hk; simp [grpMask, gatherL] at this ⊢; omega
      · have hk' : ¬ (k == g) = true := by simpa using hk
        simp [grpMask, gatherL, hk, List.count_cons, hk'] at this ⊢; omega

end merge

/-! ### scaling, saturation and rounding of one group's result -/

section cells
variable {α : Type} [Field α] [LinearOrder α] [IsStrictOrderedRing α]

/-- the cell of the int16 output: the model's `spiCell` with the literals of the source -/
def grpCell (rnd : α → α) (nodata : α) : Option α → α :=
  spiCell rnd (-(nat 32768)) (nat 32767) (nat 1000) nodata

theorem clipv_eq_spiScale (v : α) : clipv (v * nat 1000) (-(nat 32768)) (nat 32767)
    = spiScale (-(nat 32768)) (nat 32767) (nat 1000) v := rfl

/-- `res[valid] = clip(res[valid]·1000, …); np.round(res)`: every cell becomes the model's `spiCell`
    (values never collide with the sentinel, the sentinel is an integer) -/
theorem scaled_cells (rnd : α → α) (nodata : α) (m : List (Option α))
    (hnd : ∀ v, some v ∈ m → v ≠ nodata) (hrnd : rnd nodata = nodata) :
    (m.map fun o => o.getD nodata).map
        (fun e => rnd (if (!(eqv e nodata)) = true then clipv (e * nat 1000) (-(nat 32768)) (nat 32767) else e))
      = m.map (grpCell rnd nodata) := by
  rw [List.map_map]
  apply List.map_congr_left
  intro o ho
  cases o with
  | none => simp [grpCell, spiCell, eqv_self, hrnd]
  | some v =>
    have : eqv v nodata = false := (Spi.eqv_false_iff v nodata).2 (hnd v ho)
    simp only [Function.comp, Option.getD_some, this, Bool.not_false, if_true, grpCell, spiCell, clipv_eq_spiScale]

/-- the same in the shape the source computes it: gather the valid cells, scale, clip, scatter back, round -/
theorem scaled_cells' (rnd : α → α) (nodata : α) (m : List (Option α))
    (hnd : ∀ v, some v ∈ m → v ≠ nodata) (hrnd : rnd nodata = nodata) :
    List.map rnd
        (maskSetL (m.map fun o => o.getD nodata)
          ((m.map fun o => o.getD nodata).map fun e => !(eqv e nodata))
          (((gatherL (m.map fun o => o.getD nodata)
              ((m.map fun o => o.getD nodata).map fun e => !(eqv e nodata))).map fun e => e * nat 1000).map
            fun e => clipv e (-(nat 32768)) (nat 32767)))
      = m.map (grpCell rnd nodata) := by
  have key : ∀ (R : List α) (p : α → Bool) (f1 f2 : α → α),
      List.map rnd (maskSetL R (R.map p) (((gatherL R (R.map p)).map f1).map f2))
        = R.map fun e => rnd (if p e = true then f2 (f1 e) else e) := by
    intro R p f1 f2
    rw [List.map_map, maskSetL_map_gather, List.map_map]
    rfl
  rw [key, scaled_cells rnd nodata m hnd hrnd]

/-- no cell of the result differs from the sentinel: nothing is scaled, all the model's cells are `none` -/
theorem unscaled_cells (rnd : α → α) (nodata : α) (m : List (Option α))
    (hnd : ∀ v, some v ∈ m → v ≠ nodata)
    (hall : ((m.map fun o => o.getD nodata).filter fun e => !(eqv e nodata)).length = 0) :
    (m.map fun o => o.getD nodata) = m.map (grpCell rnd nodata) := by
  apply List.map_congr_left
  intro o ho
  cases o with
  | none => simp [grpCell, spiCell]
  | some v =>
    exfalso
    have hne : eqv v nodata = false := (Spi.eqv_false_iff v nodata).2 (hnd v ho)
    have : v ∈ (m.map fun o => o.getD nodata).filter fun e => !(eqv e nodata) := by
      rw [List.mem_filter]
      exact ⟨List.mem_map.2 ⟨some v, ho, rfl⟩, by simp [hne]⟩
    rw [List.length_eq_zero_iff.1 hall] at this
    simp at this

/-- a sub-series without a single non-sentinel cell: the model returns `none` everywhere -/
theorem gammastd_all_nodata (F : GamFns α) (x : List α) (nodata : α) (cs ce : ℕ)
    (hall : (x.filter fun e => !(eqv e nodata)).length = 0) :
    Hdc.gammastd F x nodata cs ce = x.map fun _ => none := by
  unfold Hdc.gammastd
  rw [List.length_eq_zero_iff.1 hall]
  simp

/-- every value of the model's result is a value of `ndtri` -/
theorem gammastd_some_is_ndtri (F : GamFns α) (x : List α) (nodata : α) (cs ce : ℕ) (v : α)
    (h : some v ∈ Hdc.gammastd F x nodata cs ce) : ∃ p, v = F.ndtri p := by
  unfold Hdc.gammastd at h
  simp only at h
  split at h
  · simp at h
  · split at h
    · simp at h
    · split at h
      · simp at h
      · rw [List.mem_map] at h
        obtain ⟨w, _, hw⟩ := h
        split at hw
        · cases hw
        · split at hw
          · cases hw
          · exact ⟨_, (Option.some.inj hw).symm⟩

/-! ### the loop over the groups -/

/-- after the groups `0 … p-1`: the buffer holds the model's output for `p` groups -/
def GrpInv (F : GamFns α) (rnd : α → α) (xx : List α) (groups : List ℕ) (nodata : α) (cal : List (ℕ × ℕ))
    (yy0 : List α) (p : ℕ) (yy : Array α) : Prop :=
  yy.toList = mergeOut (grpCell rnd nodata) (gammastdGrp F xx groups p nodata cal) yy0

theorem GrpInv.init (F : GamFns α) (rnd : α → α) (xx : List α) (groups : List ℕ) (nodata : α)
    (cal : List (ℕ × ℕ)) (yy0 : List α) (h : yy0.length = xx.length) :
    GrpInv F rnd xx groups nodata cal yy0 0 yy0.toArray := by
  unfold GrpInv
  rw [gammastdGrp_zero, mergeOut_none _ _ _ h]

/-- `yy[grp_ix] = res[:]` where `res` holds the `spiCell`s of the group's result -/
theorem GrpInv.step_set {F : GamFns α} {rnd : α → α} {xx : List α} {groups : List ℕ} {nodata : α}
    {cal : List (ℕ × ℕ)} {yy0 : List α} {p : ℕ} {yy : Array α}
    (h : GrpInv F rnd xx groups nodata cal yy0 p yy) (hg : groups.length = xx.length)
    (hy : yy0.length = xx.length) (res : List α)
    (hres : res = (grpResult F xx groups nodata cal p).map (grpCell rnd nodata)) :
    GrpInv F rnd xx groups nodata cal yy0 (p + 1) (npMaskSet yy (grpMask groups p).toArray res.toArray) := by
  unfold GrpInv at h ⊢
  have hyy : yy = yy.toList.toArray := by simp
  rw [hyy, npMaskSet_toArray, h, hres, gammastdGrp_succ,
    merge_scatter_set _ p groups _ _ yy0 (by rw [gammastdGrp_length, hg]) (by rw [hy, hg])]

/-- `yy[grp_ix] = nodata` for a group without a single non-sentinel cell -/
theorem GrpInv.step_fill {F : GamFns α} {rnd : α → α} {xx : List α} {groups : List ℕ} {nodata : α}
    {cal : List (ℕ × ℕ)} {yy0 : List α} {p : ℕ} {yy : Array α}
    (h : GrpInv F rnd xx groups nodata cal yy0 p yy) (hg : groups.length = xx.length)
    (hy : yy0.length = xx.length)
    (hall : ((gatherGrp xx groups p).filter fun e => !(eqv e nodata)).length = 0) :
    GrpInv F rnd xx groups nodata cal yy0 (p + 1) (npMaskFill yy (grpMask groups p).toArray nodata) := by
  unfold GrpInv at h ⊢
  have hyy : yy = yy.toList.toArray := by simp
  have hres : grpResult F xx groups nodata cal p = (gatherGrp xx groups p).map fun _ => none := by
    unfold grpResult
    exact gammastd_all_nodata F _ nodata _ _ hall
  have hm := merge_scatter_fill (grpCell rnd nodata) p groups ((gatherGrp xx groups p).map fun _ => none)
    (gammastdGrp F xx groups p nodata cal) yy0 (by rw [gammastdGrp_length, hg]) (by rw [hy, hg])
    (by simp) (by rw [List.length_map, ← gatherL_groups, gatherL_mask_length xx groups p hg])
  rw [show grpCell rnd nodata none = nodata from rfl] at hm
  rw [hyy, npMaskFill_toArray, h, gammastdGrp_succ, hres, hm]

end cells

end Hdc.GenNum
