import Hdc.Lemmas.GenNumACFloat
import Hdc.Lemmas.GenKernelsAC
/-
Lemmas for `Gen.NumKernels.autocorr_1d_int` (the whole integer kernel: exact integer accumulators, closing formula over the
carrier): the accumulators of the model over the CAST series are the casts of the integer accumulators, and the closing
formula of the model in terms of the integer accumulators.  The loop invariant is the one of the accumulator loop
(`Hdc.GenKernels.AcInv`, Hdc/Lemmas/GenKernelsAC.lean).
-/
namespace Hdc.GenNumACInt
open Hdc Hdc.GenKernels

set_option linter.unusedSectionVars false

variable {α : Type} [Field α] [LinearOrder α] [IsStrictOrderedRing α]

theorem lv_dropLast (l : List Int) (j : ℕ) (h : j + 1 < l.length) : lv l.dropLast j = lv l j := by
  simp only [lv, List.getD_eq_getElem?_getD]
  rw [List.getElem?_dropLast, if_pos (by omega)]

theorem lv_tail (l : List Int) (j : ℕ) : lv l.tail j = lv l (j + 1) := by
  simp only [lv, List.getD_eq_getElem?_getD, List.getElem?_tail]

/-- the model's input for integer data: `none` = nodata cell, a valid cell is cast to the carrier -/
def acOptC (data : List Int) (nodata : Int) : List (Option α) :=
  data.map fun v => if v = nodata then none else some (v : α)

/-- the integer accumulators, cast -/
def castS (S : ACSums Int) : ACSums α :=
  ⟨(S.sxy : α), (S.sx_ : α), (S.sy_ : α), S.nxy, (S.sx : α), (S.sxx : α), S.nx, (S.sy : α), (S.syy : α), S.ny⟩

theorem acOptC_eq (data : List Int) (nodata : Int) :
    (acOptC data nodata : List (Option α)) = (acOpt data nodata).map (Option.map fun v : Int => (v : α)) := by
  simp only [acOptC, acOpt, List.map_map]
  apply List.map_congr_left
  intro v _
  by_cases h : v = nodata <;> simp [h]

theorem acAccum_cast (l : List (Option Int)) (S : ACSums Int) :
    acAccum (l.map (Option.map fun v : Int => (v : α))) (castS S) = castS (acAccum l S) := by
  induction l generalizing S with
  | nil => simp [acAccum]
  | cons a t ih =>
    cases t with
    | nil => simp [acAccum]
    | cons b r =>
      have := ih
      simp only [List.map_cons] at this ⊢
      rw [Hdc.GenNumACFloat.acAccum_cons2, Hdc.GenKernels.acAccum_cons2, ← this]
      congr 1
      cases a <;> cases b <;> simp [castS]

theorem castS_zero : (castS ACSums.zero : ACSums α) = ACSums.zero := by
  simp [castS, ACSums.zero, nat]

/-- the model on the cast series, from the INTEGER accumulators of the source -/
theorem acAccum_acOptC (data : List Int) (nodata : Int) :
    acAccum (acOptC data nodata : List (Option α)) ACSums.zero
      = castS (acAccum (acOpt data nodata) ACSums.zero) := by
  rw [acOptC_eq, ← castS_zero, acAccum_cast]

/-- the model's closing formula in terms of the integer accumulators of the source (casts in `push_cast` normal form) -/
theorem autocorr1d_of_int_sums (rsqrt : α → α) (eps : α) (data : List Int) (nodata : Int) (S : ACSums Int)
    (hS : S = acAccum (acOpt data nodata) ACSums.zero) :
    autocorr1d rsqrt eps (acOptC data nodata) =
      if S.nxy = 0 then 0
      else
        if ((((S.nx : α) * (S.sxx : α)) - ((S.sx : α) * (S.sx : α))) * (S.nx : α) < eps
            ∨ (((S.ny : α) * (S.syy : α)) - ((S.sy : α) * (S.sy : α))) * (S.ny : α) < eps)
        then 0
        else ((((((S.nx : α) * (S.ny : α)) * (S.sxy : α)) - (((S.ny : α) * (S.sx : α)) * (S.sy_ : α)))
                - (((S.nx : α) * (S.sy : α)) * (S.sx_ : α))) + (((S.nxy : α) * (S.sx : α)) * (S.sy : α)))
              * rsqrt ((((S.nx : α) * (S.sxx : α)) - ((S.sx : α) * (S.sx : α))) * (S.nx : α))
              * rsqrt ((((S.ny : α) * (S.syy : α)) - ((S.sy : α) * (S.sy : α))) * (S.ny : α)) := by
  rw [Hdc.GenNumACFloat.autocorr1d_of_sums rsqrt eps _ (castS S) (by rw [acAccum_acOptC, hS])]
  have he : (eqv (((castS S : ACSums α).nxy : ℕ) : α) (nat 0) = true) ↔ S.nxy = 0 := by
    simp only [castS, eqv, nat, Nat.cast_zero, Bool.and_eq_true, Bool.not_eq_true', decide_eq_false_iff_not, not_lt]
    constructor
    · rintro ⟨h1, h2⟩
      exact_mod_cast le_antisymm h2 h1
    · intro h; rw [h]; simp
  by_cases h0 : S.nxy = 0
  · rw [if_pos h0, if_pos (he.mpr h0)]; simp [nat]
  · rw [if_neg h0, if_neg (fun h => h0 (he.mp h))]
    simp only [castS, nat, Nat.cast_zero]

end Hdc.GenNumACInt
