import Hdc.Lemmas.GenNumOptv
import Hdc.Lemmas.SmoothIrls
import Hdc.PyNpV
/-
Loop invariants for the refinement proofs "generated translation of ws2doptvp / _ws2doptvp / ws2doptvplc = hand
model `Hdc.optvp` / `Hdc.optvpCore` / `Hdc.optvplc`" (Hdc/Props/GenNumOptvp*.lean), one per loop of the source:

  * `WInv`, `AccInv`, `Holds` : weights loop, the two `+=` accumulations, first differences (Hdc/Lemmas/GenNumOptv.lean);
  * `AWInv`  : `wa[j] = p if y[j] > z[j] else 1 - p; ww[j] = w[j] * wa[j]`  = `asymW`;
  * `L1Inv`  : `z_tmp += abs(znew[j] - z[j])`                                = `l1dist`;
  * `IInv`   : the re-weighting loop `for i in range(10)` with its `break`    = `irls` (continuation form);
  * `SweepP` : the loop over the λ grid, warm-started                         = the points of the sweep of `vselect`;
  * `VInvG`  : the V-curve loop                                               = `vcurve`;
  * `ArgInvG`: the first strict minimum                                       = `argminFirst`.

`SweepG`/`VInvG`/`ArgInvG` are the invariants `Sweep`/`VInv`/`ArgInv` of ws2doptv with the curve of grid point `j`
given by an arbitrary sequence (for ws2doptv it is a function of `llas[j]` alone; here it depends on all earlier grid
points through the warm start).

Nothing in this file mentions a generated kernel.
-/
namespace Hdc.GenNum
open Hdc Hdc.Gen.NumKernels
open Hdc.Ws2dGen (av Upd Holds)
open Hdc.Ws2d (fnl fnl_of_lt fnl_of_le)

set_option linter.unusedSectionVars false

variable {α : Type} [Field α] [LinearOrder α] [IsStrictOrderedRing α]

/-! ### arrays as lists -/

theorem toList_replicate_zero (y : List α) (n : ℕ) (hn : n = y.length) :
    (Array.replicate n (nat 0 : α)).toList = zerosLike y := by
  subst hn
  rw [Smooth.zerosLike_eq_replicate]
  simp [nat]

omit [LinearOrder α] [IsStrictOrderedRing α] in
/-- the translated `ws2d` on arrays -/
theorem gen_ws2d_toList (y : List α) (ww : Array α) (lam : α) (hlen : ww.size = y.length)
    (h3 : 3 ≤ y.length) : (Gen.Ws2d.ws2d y.toArray lam ww).toList = ws2d y lam ww.toList := by
  have := C01gen.gen_ws2d_eq_model y ww.toList lam (by simpa using hlen) h3
  simpa using this

theorem gen_ws2d_size (y : List α) (ww : Array α) (lam : α) (hlen : ww.size = y.length)
    (h3 : 3 ≤ y.length) : (Gen.Ws2d.ws2d y.toArray lam ww).size = y.length := by
  rw [← Array.length_toList, gen_ws2d_toList y ww lam hlen h3,
    C01.ws2d_length y ww.toList lam (by simpa using hlen)]

/-! ### the asymmetric weights loop -/

theorem fnl_asymW (p : α) (w y z : List α) (i : ℕ) (h1 : i < w.length) (h2 : i < y.length)
    (h3 : i < z.length) :
    fnl (asymW p w y z) i = fnl w i * (if fnl z i < fnl y i then p else 1 - p) := by
  have := Smooth.fn_asymW p w y z i h1 h2 h3
  unfold C01.fn at this
  unfold fnl
  rw [this]; rfl

/-- after `q` passes of `for j in range(m)`: cells `< q` of `ww` hold the model's re-weighted weights -/
structure AWInv (p : α) (w y zl : List α) (q : ℕ) (wa ww : Array α) : Prop where
  asz : wa.size = y.length
  hw : Holds y.length (fnl (asymW p w y zl)) q ww

theorem AWInv.init {p : α} {w y zl : List α} {wa ww : Array α} (ha : wa.size = y.length)
    (hw : ww.size = y.length) : AWInv p w y zl 0 wa ww :=
  ⟨ha, hw, fun j hj => by omega⟩

/-- `wa[j] = c; ww[j] = w[j] * wa[j]` where `c` is `p` or `p1` according to the test -/
theorem AWInv.step {p : α} {w y zl : List α} {q : ℕ} {wa ww : Array α} {ci : ℤ} {c t : α}
    (h : AWInv p w y zl q wa ww) (hq : q < y.length) (hwl : w.length = y.length)
    (hzl : zl.length = y.length) (hci : ci = (q : ℤ))
    (hc : c = if fnl zl q < fnl y q then p else 1 - p)
    (ht : t = fnl w q * av (wr wa ci c) q) :
    AWInv p w y zl (q + 1) (wr wa ci c) (wr ww ci t) := by
  refine ⟨by rw [size_wr]; exact h.asz, ?_⟩
  refine h.hw.step (wr_upd rfl q hci (by rw [h.hw.size]; exact hq)) ?_
  rw [ht, av_wr_self wa ci c q hci (by rw [h.asz]; exact hq), hc,
    fnl_asymW p w y zl q (by omega) hq (by omega)]

theorem AWInv.final {p : α} {w y zl : List α} {q : ℕ} {wa ww : Array α}
    (h : AWInv p w y zl q wa ww) (hq : q = y.length) (hwl : w.length = y.length)
    (hzl : zl.length = y.length) : ww.toList = asymW p w y zl := by
  subst hq
  apply Hdc.Ws2dGen.toList_eq_of_av
  · rw [h.hw.size]; simp [Smooth.asymW_length, hwl, hzl]
  · intro j hj
    exact h.hw.get j (by simpa [Smooth.asymW_length, hwl, hzl] using hj)

/-! ### the L1 distance loop -/

/-- the terms `|znew[j] - z[j]|` -/
def l1terms (a b : List α) : List α := List.zipWith (fun x y => absv (x - y)) a b

theorem l1dist_eq (a b : List α) : l1dist a b = sumF (l1terms a b) := rfl

theorem l1terms_length (a b : List α) : (l1terms a b).length = min a.length b.length := by
  simp [l1terms]

theorem fnl_l1terms (a b : List α) (i : ℕ) (h1 : i < a.length) (h2 : i < b.length) :
    fnl (l1terms a b) i = absv (fnl a i - fnl b i) := by
  rw [fnl_of_lt _ i (by rw [l1terms_length]; omega), fnl_of_lt a i h1, fnl_of_lt b i h2]
  simp [l1terms]

/-- `z_tmp += abs(znew[j] - z[j])` -/
def L1Inv (a b : List α) (q : ℕ) (acc : α) : Prop := acc = sumF ((l1terms a b).take q)

theorem L1Inv.init (a b : List α) : L1Inv a b 0 (nat 0 : α) := by
  unfold L1Inv; rw [sumF_take_zero]; simp [nat]

theorem L1Inv.step {a b : List α} {q : ℕ} {acc t : α} (h : L1Inv a b q acc) (h1 : q < a.length)
    (h2 : q < b.length) (ht : t = absv (fnl a q - fnl b q)) : L1Inv a b (q + 1) (acc + t) := by
  unfold L1Inv at *
  rw [sumF_take_succ _ q (by rw [l1terms_length]; omega), ← h, fnl_l1terms a b q h1 h2, ht]

theorem L1Inv.final {a b : List α} {q : ℕ} {acc : α} (h : L1Inv a b q acc) (ha : q = a.length)
    (hb : q = b.length) : acc = l1dist a b := by
  unfold L1Inv at h
  rw [h, l1dist_eq, List.take_of_length_le (by rw [l1terms_length]; omega)]

/-! ### the re-weighting loop -/

/-- after `q` passes of `for i in range(10)`: the model's loop, continued from the current curve with the
    remaining budget, returns `R` (the value of the model's loop on the state at loop entry).  At `q = 10` (the
    budget is used up, or the loop was left by `break`) the current state *is* `R`. -/
structure IInv (y w : List α) (lam p : α) (R : List α × List α) (q : ℕ) (z znew wa ww : Array α) :
    Prop where
  zsz : z.size = y.length
  nsz : znew.size = y.length
  asz : wa.size = y.length
  wsz : ww.size = y.length
  cont : irls y w lam p (10 - q) z.toList ww.toList = R

/-- entry: the weights of the previous pass are irrelevant (the budget is positive) -/
theorem IInv.init {y w : List α} {lam p : α} {z znew wa ww : Array α} (ww0 : List α)
    (hz : z.size = y.length) (hn : znew.size = y.length) (ha : wa.size = y.length)
    (hw : ww.size = y.length) :
    IInv y w lam p (irls y w lam p 10 z.toList ww0) 0 z znew wa ww :=
  ⟨hz, hn, ha, hw, rfl⟩

/-- a pass that moved the curve: `z[0:m] = znew[0:m]` -/
theorem IInv.step {y w : List α} {lam p : α} {R : List α × List α} {q : ℕ}
    {z znew wa ww znew' wa' ww' : Array α} {acc : α}
    (h : IInv y w lam p R q z znew wa ww) (hq : q < 10)
    (hww : ww'.toList = asymW p w y z.toList) (hzn : znew'.toList = ws2d y lam ww'.toList)
    (hacc : acc = l1dist znew'.toList z.toList) (hne : ¬ eqv acc (nat 0) = true)
    (hn : znew'.size = y.length) (ha : wa'.size = y.length) (hw : ww'.size = y.length) :
    IInv y w lam p R (q + 1) znew' znew' wa' ww' := by
  refine ⟨hn, hn, ha, hw, ?_⟩
  have hc := h.cont
  rw [show 10 - q = (10 - (q + 1)) + 1 by omega, Smooth.irls_succ] at hc
  rw [hww] at hzn
  unfold Smooth.pass at hc
  rw [← hzn, ← hacc, if_neg hne] at hc
  rw [hww]; exact hc

/-- a pass that reproduced the curve: `break` -/
theorem IInv.brk {y w : List α} {lam p : α} {R : List α × List α} {q : ℕ}
    {z znew wa ww znew' wa' ww' : Array α} {acc : α}
    (h : IInv y w lam p R q z znew wa ww) (hq : q < 10)
    (hww : ww'.toList = asymW p w y z.toList) (hzn : znew'.toList = ws2d y lam ww'.toList)
    (hacc : acc = l1dist znew'.toList z.toList) (heq : eqv acc (nat 0) = true)
    (hn : znew'.size = y.length) (ha : wa'.size = y.length) (hw : ww'.size = y.length) :
    IInv y w lam p R 10 z znew' wa' ww' := by
  refine ⟨h.zsz, hn, ha, hw, ?_⟩
  have hc := h.cont
  rw [show 10 - q = (10 - (q + 1)) + 1 by omega, Smooth.irls_succ] at hc
  rw [hww] at hzn
  unfold Smooth.pass at hc
  rw [← hzn, ← hacc, if_pos heq] at hc
  rw [hww]; exact hc

theorem IInv.final {y w : List α} {lam p : α} {R : List α × List α} {q : ℕ}
    {z znew wa ww : Array α} (h : IInv y w lam p R q z znew wa ww) (hq : q = 10) :
    R = (z.toList, ww.toList) := by
  have hc := h.cont
  rw [hq] at hc
  exact hc.symm

/-! ### the invariants in the shape in which the translated statements appear (`rd`, `wr`, `PyNpV` slices) -/

section shapes

/-- `znew[:] = ws2d(y, lmda, ww)` / `znew[0:m] = ws2d(…)` -/
theorem znew_set {y : List α} {znew ww : Array α} {lam : α} {hi : ℤ} (hn : znew.size = y.length)
    (hhi : hi = (y.length : ℤ)) (hw : ww.size = y.length) (h3 : 3 ≤ y.length) :
    PyNpV.npSetSlice znew 0 hi (Gen.Ws2d.ws2d y.toArray lam ww) = Gen.Ws2d.ws2d y.toArray lam ww :=
  PyNpV.npSetSlice_full _ _ _ (by omega) (by rw [gen_ws2d_size y ww lam hw h3, hn])

omit [LinearOrder α] [IsStrictOrderedRing α] in
/-- `z[0:m] = znew[0:m]` -/
theorem z_set {n : ℕ} {z zn : Array α} {hi : ℤ} (hz : z.size = n) (hzn : zn.size = n)
    (hhi : hi = (n : ℤ)) : PyNpV.npSetSlice z 0 hi (PyNpV.npSlice zn 0 hi) = zn := by
  rw [PyNpV.npSlice_full zn hi (by omega), PyNpV.npSetSlice_full z zn hi (by omega) (by omega)]

/-- `z[:] = 0.0` -/
theorem z_fill {y : List α} {z : Array α} {hi : ℤ} (hz : z.size = y.length) (hhi : hi = (z.size : ℤ)) :
    (PyNpV.npFillSlice z 0 hi (nat 0)).toList = zerosLike y := by
  rw [PyNpV.npFillSlice_full z hi _ hhi]
  exact toList_replicate_zero y _ hz

omit [LinearOrder α] [IsStrictOrderedRing α] in
theorem size_z_fill {z : Array α} {hi : ℤ} (hhi : hi = (z.size : ℤ)) :
    (PyNpV.npFillSlice z 0 hi (nat 0 : α)).size = z.size := by
  rw [PyNpV.npFillSlice_full z hi _ hhi]; simp

/-- `wa[j] = p` or `wa[j] = p1`, then `ww[j] = w[j] * wa[j]` -/
theorem AWInv.step_rd {p : α} {w y : List α} {z : Array α} {q : ℕ} {wa ww : Array α} {ci : ℤ} {c : α}
    (h : AWInv p w y z.toList q wa ww) (hq : q < y.length) (hwl : w.length = y.length)
    (hz : z.size = y.length) (hci : ci = (q : ℤ))
    (hc : c = if rd z ci < rd y.toArray ci then p else nat 1 - p) :
    AWInv p w y z.toList (q + 1) (wr wa ci c)
      (wr ww ci (rd w.toArray ci * rd (wr wa ci c) ci)) := by
  refine h.step hq hwl (by simpa using hz) hci ?_ ?_
  · rw [hc, rd_of_eq z ci q hci, rd_of_eq _ ci q hci, av_eq_fnl_toList, av_list]; simp [nat]
  · rw [rd_of_eq _ ci q hci, rd_of_eq _ ci q hci, av_list]

/-- `y[j] > z[j]`: `wa[j] = p` -/
theorem AWInv.step_p {p : α} {w y : List α} {z : Array α} {q : ℕ} {wa ww : Array α} {ci : ℤ}
    (h : AWInv p w y z.toList q wa ww) (hq : q < y.length) (hwl : w.length = y.length)
    (hz : z.size = y.length) (hci : ci = (q : ℤ)) (hlt : rd z ci < rd y.toArray ci) :
    AWInv p w y z.toList (q + 1) (wr wa ci p)
      (wr ww ci (rd w.toArray ci * rd (wr wa ci p) ci)) :=
  h.step_rd hq hwl hz hci (if_pos hlt).symm

/-- otherwise: `wa[j] = p1` (`p1 = 1 - p`) -/
theorem AWInv.step_p1 {p : α} {w y : List α} {z : Array α} {q : ℕ} {wa ww : Array α} {ci : ℤ}
    (h : AWInv p w y z.toList q wa ww) (hq : q < y.length) (hwl : w.length = y.length)
    (hz : z.size = y.length) (hci : ci = (q : ℤ)) (hge : ¬ rd z ci < rd y.toArray ci) :
    AWInv p w y z.toList (q + 1) (wr wa ci (nat 1 - p))
      (wr ww ci (rd w.toArray ci * rd (wr wa ci (nat 1 - p)) ci)) :=
  h.step_rd hq hwl hz hci (if_neg hge).symm

/-- `z_tmp += abs(znew[j] - z[j])` -/
theorem L1Inv.step_rd {a b : Array α} {q : ℕ} {acc : α} {ci : ℤ} (h : L1Inv a.toList b.toList q acc)
    (h1 : q < a.size) (h2 : q < b.size) (hci : ci = (q : ℤ)) :
    L1Inv a.toList b.toList (q + 1) (acc + absv (rd a ci - rd b ci)) := by
  refine h.step (by simpa using h1) (by simpa using h2) ?_
  rw [rd_of_eq a ci q hci, rd_of_eq b ci q hci, av_eq_fnl_toList, av_eq_fnl_toList]

/-- one pass of `for i in range(10)` that does not `break` -/
theorem IInv.step_gen {y w : List α} {lam p : α} {R : List α × List α} {q qa ql : ℕ}
    {z znew wa ww wa' ww' : Array α} {acc : α} {hi hi2 : ℤ}
    (h : IInv y w lam p R q z znew wa ww) (hq : q < 10) (h3 : 3 ≤ y.length)
    (hwl : w.length = y.length)
    (hA : AWInv p w y z.toList qa wa' ww') (hqa : qa = y.length)
    (hL : L1Inv (PyNpV.npSetSlice znew 0 hi (Gen.Ws2d.ws2d y.toArray lam ww')).toList z.toList ql acc)
    (hql : ql = y.length) (hhi : hi = (y.length : ℤ)) (hhi2 : hi2 = (y.length : ℤ))
    (hne : ¬ eqv acc (nat 0) = true) :
    IInv y w lam p R (q + 1)
      (PyNpV.npSetSlice z 0 hi2
        (PyNpV.npSlice (PyNpV.npSetSlice znew 0 hi (Gen.Ws2d.ws2d y.toArray lam ww')) 0 hi2))
      (PyNpV.npSetSlice znew 0 hi (Gen.Ws2d.ws2d y.toArray lam ww')) wa' ww' := by
  have hws := hA.hw.size
  have hzs : (Gen.Ws2d.ws2d y.toArray lam ww').size = y.length := gen_ws2d_size y ww' lam hws h3
  rw [znew_set h.nsz hhi hws h3] at hL ⊢
  rw [z_set h.zsz hzs hhi2]
  have hzl : z.toList.length = y.length := by simpa using h.zsz
  exact h.step hq (hA.final hqa hwl hzl) (gen_ws2d_toList y ww' lam hws h3)
    (hL.final (by simp [hzs, hql]) (by simp [h.zsz, hql])) hne hzs hA.asz hws

/-- the pass of `for i in range(10)` that ends in `break` -/
theorem IInv.brk_gen {y w : List α} {lam p : α} {R : List α × List α} {q qa ql : ℕ}
    {z znew wa ww wa' ww' : Array α} {acc : α} {hi : ℤ}
    (h : IInv y w lam p R q z znew wa ww) (hq : q < 10) (h3 : 3 ≤ y.length)
    (hwl : w.length = y.length)
    (hA : AWInv p w y z.toList qa wa' ww') (hqa : qa = y.length)
    (hL : L1Inv (PyNpV.npSetSlice znew 0 hi (Gen.Ws2d.ws2d y.toArray lam ww')).toList z.toList ql acc)
    (hql : ql = y.length) (hhi : hi = (y.length : ℤ))
    (heq : eqv acc (nat 0) = true) :
    IInv y w lam p R 10 z
      (PyNpV.npSetSlice znew 0 hi (Gen.Ws2d.ws2d y.toArray lam ww')) wa' ww' := by
  have hws := hA.hw.size
  have hzs : (Gen.Ws2d.ws2d y.toArray lam ww').size = y.length := gen_ws2d_size y ww' lam hws h3
  rw [znew_set h.nsz hhi hws h3] at hL ⊢
  have hzl : z.toList.length = y.length := by simpa using h.zsz
  exact h.brk hq (hA.final hqa hwl hzl) (gen_ws2d_toList y ww' lam hws h3)
    (hL.final (by simp [hzs, hql]) (by simp [h.zsz, hql])) heq hzs hA.asz hws

end shapes

/-! ### the warm-started sweep of the model -/

section sweep
variable (F : VFns α) (wl y : List α) (p : α) (llas : List α)

/-- the fit of `optvpCore` -/
def fitP : List α → α → List α × List α :=
  fun z lam => let r := irls y wl lam p 10 z (zerosLike y); (r.1, r.1)

/-- the curve after `k` grid points (each λ starts from the curve of the previous one) -/
def zseq : ℕ → List α
  | 0 => zerosLike y
  | k + 1 => (irls y wl (F.pow10 (fnl llas k)) p 10 (zseq k) (zerosLike y)).1

theorem zseq_length (hw : wl.length = y.length) (k : ℕ) :
    (zseq F wl y p llas k).length = y.length := by
  induction k with
  | zero => simp [zseq]
  | succ k ih => exact Smooth.irls_fst_length y wl _ p hw 9 _ _ ih

/-- log of the fit / of the roughness at grid point `j` -/
def fG (j : ℕ) : α := F.log (fitSS wl y (zseq F wl y p llas (j + 1)))
def pG (j : ℕ) : α := F.log (penSS (zseq F wl y p llas (j + 1)))

/-- the points of the sweep -/
def vptG (j : ℕ) : α × α × α := (fnl llas j, fG F wl y p llas j, pG F wl y p llas j)

theorem vfold_warm (pre rest : List α) (h : llas = pre ++ rest) :
    rest.foldl (Smooth.vstep F wl y (fitP wl y p))
        (zseq F wl y p llas pre.length, (List.range pre.length).map (vptG F wl y p llas)) =
      (zseq F wl y p llas llas.length, (List.range llas.length).map (vptG F wl y p llas)) := by
  induction rest generalizing pre with
  | nil => simp at h; subst h; rfl
  | cons l ls ih =>
    have hl : fnl llas pre.length = l := by
      rw [h]; unfold fnl; simp
    have := ih (pre ++ [l]) (by rw [h]; simp)
    rw [List.foldl_cons]
    convert this using 2
    simp only [Smooth.vstep, fitP, List.length_append, List.length_singleton, List.range_succ,
      List.map_append, List.map_cons, List.map_nil, vptG, fG, pG, zseq, hl]

theorem vpts_warm :
    Smooth.vpts F wl y llas (fitP wl y p) (zerosLike y) =
      (List.range llas.length).map (vptG F wl y p llas) := by
  unfold Smooth.vpts
  have := vfold_warm F wl y p llas [] llas rfl
  simp only [List.length_nil, List.range_zero, List.map_nil] at this
  rw [show zseq F wl y p llas 0 = zerosLike y from rfl] at this
  rw [this]

/-! ### the λ grid loop -/

/-- after `k` grid points: cells `< k` of `fits` / `pens` hold the model's values, the cells `≥ k`
    are still zero (the source accumulates in place) -/
structure SweepG (fA pA : ℕ → α) (k : ℕ) (fits pens diff1 : Array α) : Prop where
  fsz : fits.size = llas.length
  psz : pens.size = llas.length
  dsz : diff1.size = y.length - 1
  fdone : ∀ j < k, av fits j = fA j
  pdone : ∀ j < k, av pens j = pA j
  frest : ∀ j, k ≤ j → av fits j = 0
  prest : ∀ j, k ≤ j → av pens j = 0

theorem SweepG.init (fA pA : ℕ → α) (nl m1 : ℕ) (hnl : nl = llas.length) (hm : m1 = y.length - 1) :
    SweepG y llas fA pA 0 (Array.replicate nl (nat 0)) (Array.replicate nl (nat 0))
      (Array.replicate m1 (nat 0)) := by
  subst hnl hm
  refine ⟨by simp, by simp, by simp, fun j hj => by omega, fun j hj => by omega, ?_, ?_⟩ <;>
  · intro j _
    simpa [nat] using Hdc.Ws2dGen.av_replicate (α := α) llas.length j

variable {F wl y p llas}

/-- one grid point: the two accumulations are complete, their logs are stored -/
theorem SweepG.step {fA pA : ℕ → α} {k q1 q2 : ℕ} {fits pens d fits1 pens1 d' : Array α}
    {z : List α} {ci : ℤ}
    (hS : SweepG y llas fA pA k fits pens d) (hk : k < llas.length)
    (hfA : fA k = F.log (fitSS wl y z)) (hpA : pA k = F.log (penSS z))
    (hF : AccInv fits fits1 k (fitTerms wl y z) q1) (hq1 : q1 = (fitTerms wl y z).length)
    (hP : AccInv pens pens1 k (penTerms z) q2) (hq2 : q2 = (penTerms z).length)
    (hd : d'.size = y.length - 1) (hci : ci = (k : ℤ)) :
    SweepG y llas fA pA (k + 1) (wr fits1 ci (F.log (av fits1 k)))
      (wr pens1 ci (F.log (av pens1 k))) d' := by
  have huf := wr_upd (a0 := fits1) (v := F.log (av fits1 k)) rfl k hci
    (by rw [hF.size, hS.fsz]; exact hk)
  have hup := wr_upd (a0 := pens1) (v := F.log (av pens1 k)) rfl k hci
    (by rw [hP.size, hS.psz]; exact hk)
  refine ⟨huf.size.trans (hF.size.trans hS.fsz), hup.size.trans (hP.size.trans hS.psz), hd,
    fun j hj => ?_, fun j hj => ?_, fun j hj => ?_, fun j hj => ?_⟩
  · by_cases hjk : j = k
    · subst hjk
      rw [huf.self, hF.final hq1, hfA]; rfl
    · rw [huf.other j hjk, hF.other j hjk]; exact hS.fdone j (by omega)
  · by_cases hjk : j = k
    · subst hjk
      rw [hup.self, hP.final hq2, hpA]; rfl
    · rw [hup.other j hjk, hP.other j hjk]; exact hS.pdone j (by omega)
  · rw [huf.other j (by omega), hF.other j (by omega)]; exact hS.frest j (by omega)
  · rw [hup.other j (by omega), hP.other j (by omega)]; exact hS.prest j (by omega)

variable (F wl y p llas)

/-- the whole state of the λ grid loop after `k` grid points: the curve is the model's warm-start curve, the
    work arrays have the right sizes -/
structure SweepP (k : ℕ) (fits pens z znew diff1 wa ww : Array α) : Prop where
  sg : SweepG y llas (fG F wl y p llas) (pG F wl y p llas) k fits pens diff1
  hz : z.toList = zseq F wl y p llas k
  nsz : znew.size = y.length
  asz : wa.size = y.length
  wsz : ww.size = y.length

variable {F wl y p llas}

theorem SweepP.zsz {k : ℕ} {fits pens z znew diff1 wa ww : Array α}
    (h : SweepP F wl y p llas k fits pens z znew diff1 wa ww) (hw : wl.length = y.length) :
    z.size = y.length := by
  rw [← Array.length_toList, h.hz, zseq_length F wl y p llas hw]

theorem SweepP.init (nl m m1 : ℕ) (hnl : nl = llas.length) (hm : m = y.length)
    (hm1 : m1 = y.length - 1) :
    SweepP F wl y p llas 0 (Array.replicate nl (nat 0)) (Array.replicate nl (nat 0))
      (Array.replicate m (nat 0)) (Array.replicate m (nat 0)) (Array.replicate m1 (nat 0))
      (Array.replicate m (nat 0)) (Array.replicate m (nat 0)) :=
  ⟨SweepG.init y llas _ _ nl m1 hnl hm1, toList_replicate_zero y m hm, by simp [hm], by simp [hm],
    by simp [hm]⟩

/-- the curve the re-weighting loop ended with is the model's curve of this grid point -/
theorem SweepP.curve {k : ℕ} {fits pens z znew diff1 wa ww z' znew' wa' ww' : Array α} {lam : α}
    (h : SweepP F wl y p llas k fits pens z znew diff1 wa ww)
    (hlam : lam = F.pow10 (fnl llas k))
    (hI : IInv y wl lam p (irls y wl lam p 10 z.toList (zerosLike y)) 10 z' znew' wa' ww') :
    z'.toList = zseq F wl y p llas (k + 1) := by
  have := hI.final rfl
  rw [h.hz, hlam] at this
  rw [zseq, this]

theorem SweepP.step {k q1 q2 : ℕ} {fits pens z znew diff1 wa ww z' znew' wa' ww' fits1 pens1 d' : Array α}
    {ci : ℤ}
    (h : SweepP F wl y p llas k fits pens z znew diff1 wa ww) (hk : k < llas.length)
    (hz' : z'.toList = zseq F wl y p llas (k + 1))
    (hn : znew'.size = y.length) (ha : wa'.size = y.length) (hw : ww'.size = y.length)
    (hF : AccInv fits fits1 k (fitTerms wl y z'.toList) q1)
    (hq1 : q1 = (fitTerms wl y z'.toList).length)
    (hP : AccInv pens pens1 k (penTerms z'.toList) q2) (hq2 : q2 = (penTerms z'.toList).length)
    (hd : d'.size = y.length - 1) (hci : ci = (k : ℤ)) :
    SweepP F wl y p llas (k + 1) (wr fits1 ci (F.log (av fits1 k)))
      (wr pens1 ci (F.log (av pens1 k))) z' znew' d' wa' ww' :=
  ⟨h.sg.step hk (by rw [fG, hz']) (by rw [pG, hz']) hF hq1 hP hq2 hd hci, hz', hn, ha, hw⟩

/-! ### the V-curve -/

variable (F llas)

/-- the V-curve of the model: `(v[i], lamids[i])` -/
def vclG (fA pA : ℕ → α) : List (α × α) :=
  vcurve F (gridStep llas) ((List.range llas.length).map fun j => (fnl llas j, fA j, pA j))

/-- … read as a function -/
def vcfG (fA pA : ℕ → α) (j : ℕ) : α × α := (vclG F llas fA pA).getD j (0, 0)

theorem vclG_length (fA pA : ℕ → α) : (vclG F llas fA pA).length = llas.length - 1 := by
  unfold vclG; rw [Smooth.vcurve_length, List.length_map, List.length_range]

theorem vcfG_eq (fA pA : ℕ → α) (j : ℕ) (hj : j + 1 < llas.length) :
    vcfG F llas fA pA j =
      (F.sqrt ((fA (j + 1) - fA j) * (fA (j + 1) - fA j) + (pA (j + 1) - pA j) * (pA (j + 1) - pA j))
        / (F.ln10 * (fnl llas 1 - fnl llas 0)),
       (fnl llas j + fnl llas (j + 1)) / 2) := by
  have hl : j < (vclG F llas fA pA).length := by rw [vclG_length]; omega
  unfold vcfG
  rw [List.getD_eq_getElem?_getD, List.getElem?_eq_getElem hl, Option.getD_some]
  have hg := Smooth.vcurve_getElem F (gridStep llas)
    ((List.range llas.length).map fun j => (fnl llas j, fA j, pA j)) j
    (by rw [List.length_map, List.length_range]; exact hj)
  refine hg.trans ?_
  simp only [List.getElem_map, List.getElem_range, Smooth.vval, gridStep_eq llas (by omega)]

/-- after `q` passes: cells `< q` of `v` and `lamids` hold the model's V-curve -/
structure VInvG (fA pA : ℕ → α) (q : ℕ) (lamids v : Array α) : Prop where
  hv : Holds (llas.length - 1) (fun j => (vcfG F llas fA pA j).1) q v
  hl : Holds (llas.length - 1) (fun j => (vcfG F llas fA pA j).2) q lamids

theorem VInvG.init (fA pA : ℕ → α) (n1 : ℕ) (hn : n1 = llas.length - 1) :
    VInvG F llas fA pA 0 (Array.replicate n1 (nat 0)) (Array.replicate n1 (nat 0)) := by
  subst hn
  exact ⟨⟨by simp, fun j hj => by omega⟩, ⟨by simp, fun j hj => by omega⟩⟩

variable {F llas}

theorem VInvG.step {fA pA : ℕ → α} {q : ℕ} {lamids v lamids' v' : Array α} {lval vval : α}
    (h : VInvG F llas fA pA q lamids v) (hul : Upd lamids' lamids q lval) (huv : Upd v' v q vval)
    (hl : lval = (vcfG F llas fA pA q).2) (hv : vval = (vcfG F llas fA pA q).1) :
    VInvG F llas fA pA (q + 1) lamids' v' :=
  ⟨h.hv.step huv hv, h.hl.step hul hl⟩

/-! ### the first strict minimum -/

variable (F llas)

/-- after `q` comparisons: `k` is the index of the running minimum `vmin` -/
def ArgInvG (fA pA : ℕ → α) (q : ℕ) (k : ℤ) (vmin : α) : Prop :=
  ∃ kn : ℕ, k = (kn : ℤ) ∧ kn + 1 < llas.length ∧
    vcfG F llas fA pA kn = amin (vclG F llas fA pA) q ∧ vmin = (amin (vclG F llas fA pA) q).1

variable {F llas}

theorem ArgInvG.init {fA pA : ℕ → α} {vmin : α} (h2 : 2 ≤ llas.length)
    (hv : vmin = (vcfG F llas fA pA 0).1) : ArgInvG F llas fA pA 0 0 vmin :=
  ⟨0, rfl, by omega, by rw [amin_zero]; rfl, by rw [amin_zero]; exact hv⟩

/-- `vmin = v[i]; k = i` -/
theorem ArgInvG.step_lt {fA pA : ℕ → α} {q : ℕ} {k ci : ℤ} {vmin c : α}
    (h : ArgInvG F llas fA pA q k vmin) (hq : q + 2 < llas.length)
    (hc : c = (vcfG F llas fA pA (q + 1)).1) (hlt : c < vmin) (hci : ci = (q : ℤ) + 1) :
    ArgInvG F llas fA pA (q + 1) ci c := by
  obtain ⟨kn, _, _, _, hm⟩ := h
  have hs := amin_succ (vclG F llas fA pA) q (by rw [vclG_length]; omega)
  have hsel : amin (vclG F llas fA pA) (q + 1) = vcfG F llas fA pA (q + 1) := by
    rw [hs, sel, if_pos (by rw [← hm]; change (vcfG F llas fA pA (q + 1)).1 < vmin; rw [← hc]; exact hlt)]
    rfl
  exact ⟨q + 1, by rw [hci]; push_cast; ring, by omega, hsel.symm, by rw [hsel]; exact hc⟩

theorem ArgInvG.step_ge {fA pA : ℕ → α} {q : ℕ} {k : ℤ} {vmin c : α}
    (h : ArgInvG F llas fA pA q k vmin) (hq : q + 2 < llas.length)
    (hc : c = (vcfG F llas fA pA (q + 1)).1) (hge : ¬ c < vmin) :
    ArgInvG F llas fA pA (q + 1) k vmin := by
  obtain ⟨kn, hk, hkn, hb, hm⟩ := h
  have hs := amin_succ (vclG F llas fA pA) q (by rw [vclG_length]; omega)
  have hsel : amin (vclG F llas fA pA) (q + 1) = amin (vclG F llas fA pA) q := by
    rw [hs, sel, if_neg (by rw [← hm]; change ¬ (vcfG F llas fA pA (q + 1)).1 < vmin; rw [← hc]; exact hge)]
  exact ⟨kn, hk, hkn, by rw [hsel]; exact hb, by rw [hsel]; exact hm⟩

/-- the λ the model selects (as its log₁₀) -/
def lbestG (F : VFns α) (llas : List α) (fA pA : ℕ → α) : α :=
  (amin (vclG F llas fA pA) (llas.length - 2)).2

/-- at the end of the minimum loop `lamids[k]` is the model's choice -/
theorem ArgInvG.final {fA pA : ℕ → α} {q : ℕ} {k : ℤ} {vmin : α} {lamids v : Array α}
    (h : ArgInvG F llas fA pA q k vmin) (hq : q + 2 = llas.length)
    (hV : VInvG F llas fA pA (llas.length - 1) lamids v) :
    rd lamids k = lbestG F llas fA pA := by
  obtain ⟨kn, hk, hkn, hb, _⟩ := h
  rw [rd_of_eq lamids k kn hk, hV.hl.get kn (by omega), hb, lbestG]
  congr 2
  omega

/-! ### the model, in the terms of the invariants -/

/-- the λ `optvpCore` selects -/
def loptP (F : VFns α) (wl y : List α) (p : α) (llas : List α) : α :=
  F.pow10 (lbestG F llas (fG F wl y p llas) (pG F wl y p llas))

theorem optvpCore_eq (F : VFns α) (y wl : List α) (p : α) (llas : List α) (h2 : 2 ≤ llas.length) :
    optvpCore F y wl p llas =
      some (expectile y wl (loptP F wl y p llas) p, loptP F wl y p llas) := by
  rw [Smooth.optvpCore_unfold, Smooth.vselect_eq]
  have hv := vpts_warm F wl y p llas
  unfold fitP at hv
  rw [hv]
  have hvc : vcurve F (gridStep llas) ((List.range llas.length).map (vptG F wl y p llas)) =
      vclG F llas (fG F wl y p llas) (pG F wl y p llas) := rfl
  rw [hvc, argminFirst_eq _ (by rw [vclG_length]; omega), vclG_length]
  simp only [Option.map_some, loptP, lbestG]
  congr 4

/-- the final fit of the source: restart from the zero curve, at most 10 passes, then one more `ws2d` with the
    weights of the last pass -/
theorem expectile_of_IInv {y wl : List α} {lam p : α} {z0 z znew wa ww : Array α}
    (h : IInv y wl lam p (irls y wl lam p 10 z0.toList (zerosLike y)) 10 z znew wa ww)
    (hz0 : z0.toList = zerosLike y) : ws2d y lam ww.toList = expectile y wl lam p := by
  have := h.final rfl
  rw [hz0] at this
  unfold expectile
  rw [this]

/-! ### the verification conditions shared by the three kernels -/

open Lean Elab Tactic Meta in
/-- `py_name` (Hdc/Lemmas/ArrCommon.lean) for use inside a macro: the source name `x` is compared without the macro
    scopes the macro expansion adds to it -/
elab "pym_name " x:ident " as " x':ident : tactic => withMainContext do
  let lctx ← getLCtx
  let mut found : Option FVarId := none
  for decl in lctx do
    if decl.userName.hasMacroScopes && decl.userName.eraseMacroScopes == x.getId.eraseMacroScopes then
      found := some decl.fvarId
  match found with
  | some fv => liftMetaTactic fun g => return [← g.rename fv x'.getId]
  | none => throwError "pym_name: no inaccessible local named {x.getId}"

/-- closes `source expression = model expression` after the reads have been rewritten -/
macro "optvp_arith" : tactic => `(tactic| first | done | rfl | ring)

/-- Dispatches, by shape, the verification conditions of every loop the three kernels share (the loop over the λ
    grid with its re-weighting loop, the two accumulations, the differences, the V-curve, the first strict minimum,
    the final re-weighting loop), after `pyn_ranges` and the unfolding of the `let`s.  Arguments: proofs of
    `w.length = y.length`, `3 ≤ y.length`, `2 ≤ llas.length`.  What remains is kernel-specific (weights loop,
    pass-through, the goal after the last loop). -/
syntax "optvp_loops " term:max ppSpace term:max ppSpace term:max : tactic
macro_rules
  | `(tactic| optvp_loops $hw $h3 $h2) => `(tactic| (
  -- the re-weighting loops (both copies)
  all_goals first
    | exact (‹AWInv _ _ _ _ _ _ _›).step_p (by omega) $hw (‹IInv _ _ _ _ _ _ _ _ _ _›).zsz (by omega)
        (by assumption)
    | exact (‹AWInv _ _ _ _ _ _ _›).step_p1 (by omega) $hw (‹IInv _ _ _ _ _ _ _ _ _ _›).zsz (by omega)
        (by assumption)
    | exact AWInv.init (‹IInv _ _ _ _ _ _ _ _ _ _›).asz (‹IInv _ _ _ _ _ _ _ _ _ _›).wsz
    | exact L1Inv.init _ _
    | (have hI := ‹IInv _ _ _ _ _ _ _ _ _ _›
       have hIz := hI.zsz
       have hIn := hI.nsz
       exact (‹L1Inv _ _ _ _›).step_rd
         (by rw [PyNpV.size_npSetSlice_full _ _ _ (by omega)]; omega) (by omega) (by omega))
    | (have hI := ‹IInv _ _ _ _ _ _ _ _ _ _›
       have hIn := hI.nsz
       exact hI.brk_gen (by omega) $h3 $hw ‹AWInv _ _ _ _ _ _ _› (by omega) ‹L1Inv _ _ _ _› (by omega)
         (by omega) ‹eqv _ _ = true›)
    | (have hI := ‹IInv _ _ _ _ _ _ _ _ _ _›
       have hIn := hI.nsz
       exact hI.step_gen (by omega) $h3 $hw ‹AWInv _ _ _ _ _ _ _› (by omega) ‹L1Inv _ _ _ _› (by omega)
         (by omega) (by omega) ‹¬ eqv _ _ = true›)
    | (have hS := ‹SweepP _ _ _ _ _ _ _ _ _ _ _ _ _›
       exact IInv.init _ (hS.zsz $hw) hS.nsz hS.asz hS.wsz)
    | (have hS := ‹SweepP _ _ _ _ _ _ _ _ _ _ _ _ _›
       exact IInv.init _ (by rw [size_z_fill rfl]; exact hS.zsz $hw) hS.nsz hS.asz hS.wsz)
    | skip
  -- reads become ℕ-indexed reads
  all_goals
    try simp (disch := omega) only [rd_nonneg, av_list] at *
  all_goals first
    -- `fits[lix] += (w (y − z))²`
    | (pym_name pref as q; pym_name pref as p'; pym_name cur as ci; pym_name cur as co
       have hko : co.toNat = p'.length := by omega
       have hki : ci.toNat = q.length := by omega
       simp only [hko, hki] at *
       have hS := ‹SweepP _ _ _ _ _ _ _ _ _ _ _ _ _›
       have hzl := (‹IInv _ _ _ _ _ _ _ _ _ _›).zsz
       rw [← Array.length_toList] at hzl
       refine (‹AccInv _ _ _ (fitTerms _ _ _) _›).step_wr (by rw [hS.sg.fsz]; omega)
         (by rw [fitTerms_length' _ _ _ $hw hzl]; omega) (by omega) ?_
       rw [fnl_fitTerms _ _ _ _ (by omega) (by omega) (by omega)]
       simp only [av_eq_fnl_toList]
       optvp_arith)
    -- `pens[lix] += (diff1[i+1] − diff1[i])²`
    | (pym_name pref as q; pym_name pref as p'; pym_name cur as ci; pym_name cur as co
       have hko : co.toNat = p'.length := by omega
       have hki : ci.toNat = q.length := by omega
       have hki1 : (ci + 1).toNat = q.length + 1 := by omega
       simp only [hko, hki, hki1] at *
       have hS := ‹SweepP _ _ _ _ _ _ _ _ _ _ _ _ _›
       have hH := ‹Holds _ _ _ _›
       have hzl := (‹IInv _ _ _ _ _ _ _ _ _ _›).zsz
       rw [← Array.length_toList] at hzl
       refine (‹AccInv _ _ _ (penTerms _) _›).step_wr (by rw [hS.sg.psz]; omega)
         (by rw [penTerms_length]; omega) (by omega) ?_
       rw [fnl_penTerms _ _ (by omega), hH.get _ (by omega), hH.get _ (by omega)]
       optvp_arith)
    -- `diff1[i] = z[i+1] − z[i]`
    | (pym_name pref as q; pym_name pref as p'; pym_name cur as ci; pym_name cur as co
       have hko : co.toNat = p'.length := by omega
       have hki : ci.toNat = q.length := by omega
       have hki1 : (ci + 1).toNat = q.length + 1 := by omega
       simp only [hko, hki, hki1] at *
       have hH := ‹Holds _ _ _ _›
       have hzl := (‹IInv _ _ _ _ _ _ _ _ _ _›).zsz
       rw [← Array.length_toList] at hzl
       refine hH.step (wr_upd rfl q.length (by omega) (by rw [hH.size]; omega)) ?_
       rw [fnl_diffs _ _ (by omega)]
       simp only [av_eq_fnl_toList]
       optvp_arith)
    -- entry of the two accumulation loops: the cell is still zero
    | (pym_name pref as p'; pym_name cur as co
       have hko : co.toNat = p'.length := by omega
       simp only [hko] at *
       first
         | exact AccInv.init _ _ _ ((‹SweepP _ _ _ _ _ _ _ _ _ _ _ _ _›).sg.frest _ (le_refl _))
         | exact AccInv.init _ _ _ ((‹SweepP _ _ _ _ _ _ _ _ _ _ _ _ _›).sg.prest _ (le_refl _)))
    -- entry of the difference loop
    | exact ⟨(‹SweepP _ _ _ _ _ _ _ _ _ _ _ _ _›).sg.dsz, fun j hj => by omega⟩
    -- end of one grid point: `fits[lix] = log(fits[lix])`, `pens[lix] = log(pens[lix])`
    | (pym_name pref as p'; pym_name cur as co
       have hko : co.toNat = p'.length := by omega
       simp only [hko] at *
       have hS := ‹SweepP _ _ _ _ _ _ _ _ _ _ _ _ _›
       have hI := ‹IInv _ _ _ _ _ _ _ _ _ _›
       have hzl := hI.zsz
       rw [← Array.length_toList] at hzl
       exact hS.step (by omega) (hS.curve rfl hI) hI.nsz hI.asz hI.wsz
         ‹AccInv _ _ _ (fitTerms _ _ _) _› (by rw [fitTerms_length' _ _ _ $hw hzl])
         ‹AccInv _ _ _ (penTerms _) _› (by rw [penTerms_length]; omega)
         (‹Holds _ _ _ _›).size (by omega))
    -- entry of the grid loop
    | exact SweepP.init _ _ _ rfl rfl (by omega)
    -- V-curve: `v[i]`, `lamids[i]`
    | (pym_name pref as p'; pym_name cur as ci
       have hki : ci.toNat = p'.length := by omega
       have hki1 : (ci + 1).toNat = p'.length + 1 := by omega
       simp only [hki, hki1, show Int.toNat 0 = 0 from rfl, show Int.toNat 1 = 1 from rfl] at *
       have hS := ‹SweepP _ _ _ _ _ _ _ _ _ _ _ _ _›
       have hV := ‹VInvG _ _ _ _ _ _ _›
       refine hV.step (wr_upd rfl p'.length (by omega) (by rw [hV.hl.size]; omega))
         (wr_upd rfl p'.length (by omega) (by rw [hV.hv.size]; omega)) ?_ ?_
       · rw [vcfG_eq _ _ _ _ _ (by omega)]
         simp only [nat, Nat.cast_ofNat]
         optvp_arith
       · rw [vcfG_eq _ _ _ _ _ (by omega), hS.sg.fdone _ (by omega), hS.sg.fdone _ (by omega),
           hS.sg.pdone _ (by omega), hS.sg.pdone _ (by omega)]
         optvp_arith)
    | exact VInvG.init _ _ _ _ _ (by omega)
    -- first strict minimum: `v[i] < vmin` / not
    | (pym_name pref as p'; pym_name cur as ci
       have hki : ci.toNat = p'.length + 1 := by omega
       simp only [hki] at *
       have hV := ‹VInvG _ _ _ _ _ _ _›
       first
         | exact (‹ArgInvG _ _ _ _ _ _ _›).step_lt (by omega) (hV.hv.get _ (by omega))
             (by assumption) (by omega)
         | exact (‹ArgInvG _ _ _ _ _ _ _›).step_ge (by omega) (hV.hv.get _ (by omega))
             (by assumption))
    | exact ArgInvG.init $h2 ((‹VInvG _ _ _ _ _ _ _›).hv.get 0 (by omega))
    | skip))

/-- after the final re-weighting loop: `lamids[k]` is the model's choice, the last `ws2d(y, lopt, ww)` is the model's
    final curve -/
theorem final_fit {F : VFns α} {wl y : List α} {p : α} {llas : List α} {q : ℕ} {k : ℤ} {vmin : α}
    {lamids v fits pens z znew diff1 wa ww z' znew' wa' ww' : Array α} {n1 kk : ℕ}
    (hA : ArgInvG F llas (fG F wl y p llas) (pG F wl y p llas) q k vmin) (hq : q + 2 = llas.length)
    (hV : VInvG F llas (fG F wl y p llas) (pG F wl y p llas) n1 lamids v)
    (hn1 : n1 = llas.length - 1)
    (hS : SweepP F wl y p llas kk fits pens z znew diff1 wa ww) (hwl : wl.length = y.length)
    (h3 : 3 ≤ y.length)
    (hI : IInv y wl (F.pow10 (rd lamids k)) p
      (irls y wl (F.pow10 (rd lamids k)) p 10
        (PyNpV.npFillSlice z 0 (z.size : ℤ) (nat 0)).toList (zerosLike y)) 10 z' znew' wa' ww') :
    F.pow10 (rd lamids k) = loptP F wl y p llas ∧
    (Gen.Ws2d.ws2d y.toArray (F.pow10 (rd lamids k)) ww').toList =
      expectile y wl (loptP F wl y p llas) p := by
  subst hn1
  have hfin := hA.final hq hV
  refine ⟨by rw [hfin]; rfl, ?_⟩
  rw [gen_ws2d_toList y _ _ hI.wsz h3, expectile_of_IInv hI (z_fill (hS.zsz hwl) rfl), hfin]
  rfl

/-! ### the gufunc wrappers -/

theorem optvp_valid (F : VFns α) (miss : α → Bool) (y : List α) (p : α) (llas : List α)
    (h1 : 1 < countValid miss y) (h2 : 2 ≤ llas.length) :
    optvp F miss y p llas =
      some (expectile y (weightsOf miss y) (loptP F (weightsOf miss y) y p llas) p,
        loptP F (weightsOf miss y) y p llas) := by
  unfold optvp
  rw [if_pos h1, optvpCore_eq F y _ p llas h2]

theorem optvp_invalid (F : VFns α) (miss : α → Bool) (y : List α) (p : α) (llas : List α)
    (h1 : ¬ 1 < countValid miss y) : optvp F miss y p llas = none := by
  unfold optvp
  rw [if_neg h1]

theorem optvplc_valid (F : VFns α) (miss : α → Bool) (y : List α) (p : α) (hi lo : Bool)
    (g1 g2 g3 : List α) (h1 : 1 < countValid miss y)
    (h2 : 2 ≤ (if hi then g1 else if lo then g2 else g3).length) :
    optvplc F miss y p hi lo g1 g2 g3 =
      some (expectile y (weightsOf miss y)
          (loptP F (weightsOf miss y) y p (if hi then g1 else if lo then g2 else g3)) p,
        loptP F (weightsOf miss y) y p (if hi then g1 else if lo then g2 else g3)) := by
  unfold optvplc
  rw [if_pos h1, optvpCore_eq F y _ p _ h2]

theorem optvplc_invalid (F : VFns α) (miss : α → Bool) (y : List α) (p : α) (hi lo : Bool)
    (g1 g2 g3 : List α) (h1 : ¬ 1 < countValid miss y) :
    optvplc F miss y p hi lo g1 g2 g3 = none := by
  unfold optvplc
  rw [if_neg h1]

omit [LinearOrder α] [IsStrictOrderedRing α] in
/-- `out[:] = y[:]` -/
theorem passthrough_eq {y : List α} {out0 : Array α} {hi hi2 : ℤ} (ho : out0.size = y.length)
    (hhi : hi = (out0.size : ℤ)) (hhi2 : hi2 = (y.length : ℤ)) :
    (PyNpV.npSetSlice out0 0 hi (PyNpV.npSlice y.toArray 0 hi2)).toList = y := by
  rw [PyNpV.npSlice_full _ _ (by simpa using hhi2), PyNpV.npSetSlice_full _ _ _ hhi (by simpa using ho.symm)]

/-- `np.round(z, 0, out)` with `z = ws2d(y, lopt, ww)` -/
theorem round_out {y : List α} {ww out0 : Array α} {lam : α} (rnd : α → α) (ho : out0.size = y.length)
    (hw : ww.size = y.length) (h3 : 3 ≤ y.length) :
    (PyNpV.npRoundInto rnd (Gen.Ws2d.ws2d y.toArray lam ww) out0).toList =
      (Gen.Ws2d.ws2d y.toArray lam ww).toList.map rnd := by
  rw [PyNpV.npRoundInto_eq _ _ _ ((gen_ws2d_size y ww lam hw h3).trans ho.symm), Array.toList_map]

end sweep

end Hdc.GenNum
