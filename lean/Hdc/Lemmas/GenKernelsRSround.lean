import Hdc.Lemmas.GenKernelsRS
import Hdc.Model.RoundAcc
/-
Loop invariants for `Gen.Kernels.rolling_sum_r` (the translation of `rolling_sum` with every store into the float32
array `yy` wrapped by a rounding `rnd`) against the rounding-aware model `Hdc.rollingSumR`.

The invariants are those of Hdc/Lemmas/GenKernelsRS.lean with the exact sum `vsum` of the valid cells replaced by the
rounded accumulation `vsumR R` (= `accR R` of the valid cells).  `winPre`, `vcnt` and their lemmas are re-used from there.
The stores of the sentinel are `wr yy ii (rnd nodata)` in the generated program: the lemmas take the stored value `v` with
`v = nd` as a hypothesis, which the refinement theorem discharges from `R.rnd nd = nd`.
-/
namespace Hdc.GenKernels
open Hdc Hdc.Gen.Kernels

/-- rounded accumulation of the valid cells of `l` -/
def vsumR (R : IntRound) (nd : Int) (l : List Int) : Int := accR R (l.filter fun v => v ≠ nd)

/-- cell `k` of the rounding-aware model -/
def rsCellR (R : IntRound) (xx : List Int) (W : ℕ) (nd : Int) (k : ℕ) : Int :=
  if k + 1 < W then nd
  else if vcnt nd (winPre xx W k W) = 0 then nd else vsumR R nd (winPre xx W k W)

theorem rollingSumR_eq (R : IntRound) (xx : List Int) (W : ℕ) (nd : Int) :
    rollingSumR R xx W nd = (List.range xx.length).map (rsCellR R xx W nd) := rfl

theorem lv_rollingSumR (R : IntRound) (xx : List Int) (W : ℕ) (nd : Int) (k : ℕ) (h : k < xx.length) :
    lv (rollingSumR R xx W nd) k = rsCellR R xx W nd k := by
  simp [lv, rollingSumR_eq, h]

theorem vsumR_nil (R : IntRound) (nd : Int) : vsumR R nd [] = 0 := rfl

/-- one more cell: skipped when nodata, otherwise added AND ROUNDED -/
theorem vsumR_snoc (R : IntRound) (nd : Int) (l : List Int) (a : Int) :
    vsumR R nd (l ++ [a]) = if a = nd then vsumR R nd l else R.rnd (vsumR R nd l + a) := by
  unfold vsumR
  by_cases h : a = nd
  · simp [List.filter_append, h]
  · rw [if_neg h, List.filter_append, List.filter_cons_of_pos (by simpa using h), List.filter_nil, accR_snoc]

/-! ### invariants -/

/-- outer loop after `p` cells: cells `< p` hold the model, cells `≥ p` are still zero -/
structure RsOuterR (R : IntRound) (xx : List Int) (W : ℕ) (nd : Int) (p : ℕ) (yy : Array Int) : Prop where
  size : yy.size = xx.length
  done : ∀ j < p, gv yy j = rsCellR R xx W nd j
  zero : ∀ j, p ≤ j → gv yy j = 0

/-- inner loop in cell `k` after `q` cells of the window: `yy[k]` holds the rounded accumulation of the valid ones,
    `n_valid` their number -/
structure RsInnerR (R : IntRound) (xx : List Int) (W : ℕ) (nd : Int) (k q : ℕ) (yy : Array Int)
    (nv : Int) : Prop where
  size : yy.size = xx.length
  done : ∀ j < k, gv yy j = rsCellR R xx W nd j
  zero : ∀ j, k < j → gv yy j = 0
  acc : gv yy k = vsumR R nd (winPre xx W k q)
  cnt : nv = vcnt nd (winPre xx W k q)

/-- `yy[:] = 0` (the stored value is `rnd 0 = 0`: 0 is within every exactness range) -/
theorem RsOuterR.init (R : IntRound) (xx : List Int) (W : ℕ) (nd : Int) (yy0 : Array Int)
    (h : yy0.size = xx.length) : RsOuterR R xx W nd 0 (yy0.map fun _ => R.rnd (0 : Int)) := by
  rw [R.exact 0 (Nat.zero_le _)]
  exact ⟨by simpa using h, fun j hj => by omega, fun j _ => gv_map_zero yy0 j⟩

/-- an incomplete window: the cell gets the (stored) sentinel -/
theorem RsOuterR.step_short {R : IntRound} {xx : List Int} {W : ℕ} {nd v : Int} {p : ℕ}
    {yy yy' : Array Int} (h : RsOuterR R xx W nd p yy) (hu : Upd yy' yy p v) (hv : v = nd)
    (hw : p + 1 < W) : RsOuterR R xx W nd (p + 1) yy' := by
  rw [hv] at hu
  refine ⟨hu.size.trans h.size, fun j hj => ?_, fun j hj => ?_⟩
  · by_cases hjp : j = p
    · subst hjp; rw [hu.self, rsCellR, if_pos hw]
    · rw [hu.other j hjp]; exact h.done j (by omega)
  · rw [hu.other j (by omega)]; exact h.zero j (by omega)

/-- entry of the inner loop (the value of `n_valid` is reset to 0) -/
theorem RsOuterR.enter {R : IntRound} {xx : List Int} {W : ℕ} {nd : Int} {p : ℕ} {yy : Array Int}
    (h : RsOuterR R xx W nd p yy) : RsInnerR R xx W nd p 0 yy 0 :=
  ⟨h.size, h.done, fun j hj => h.zero j (by omega),
    by rw [h.zero p (le_refl _), winPre_zero, vsumR_nil], by simp [vcnt]⟩

/-- a nodata cell of the window is skipped -/
theorem RsInnerR.skip {R : IntRound} {xx : List Int} {W : ℕ} {nd : Int} {k q : ℕ} {yy : Array Int}
    {nv : Int} (h : RsInnerR R xx W nd k q yy nv) {j : ℕ} (hj : j = k + 1 - W + q)
    (hlt : j < xx.length) (hnd : lv xx j = nd) : RsInnerR R xx W nd k (q + 1) yy nv := by
  refine ⟨h.size, h.done, h.zero, ?_, ?_⟩
  · rw [winPre_succ xx W k q j hj hlt, vsumR_snoc, if_pos hnd]; exact h.acc
  · rw [winPre_succ xx W k q j hj hlt, vcnt_snoc, if_pos hnd]; exact h.cnt

/-- a valid cell of the window is added: the stored value is `rnd (yy[k] + xx[j])` -/
theorem RsInnerR.add {R : IntRound} {xx : List Int} {W : ℕ} {nd : Int} {k q : ℕ}
    {yy yy' : Array Int} {nv v : Int} (h : RsInnerR R xx W nd k q yy nv) {j : ℕ}
    (hj : j = k + 1 - W + q) (hlt : j < xx.length) (hnd : ¬ lv xx j = nd) (hu : Upd yy' yy k v)
    (hv : v = R.rnd (gv yy k + lv xx j)) : RsInnerR R xx W nd k (q + 1) yy' (nv + 1) := by
  refine ⟨hu.size.trans h.size, fun i hi => ?_, fun i hi => ?_, ?_, ?_⟩
  · rw [hu.other i (by omega)]; exact h.done i hi
  · rw [hu.other i (by omega)]; exact h.zero i hi
  · rw [winPre_succ xx W k q j hj hlt, vsumR_snoc, if_neg hnd, hu.self, hv, h.acc]
  · rw [winPre_succ xx W k q j hj hlt, vcnt_snoc, if_neg hnd, h.cnt]

/-- exit of the inner loop with at least one valid cell: the cell is final -/
theorem RsInnerR.exit_some {R : IntRound} {xx : List Int} {W : ℕ} {nd : Int} {k : ℕ}
    {yy : Array Int} {nv : Int} (h : RsInnerR R xx W nd k W yy nv) (hw : ¬ k + 1 < W)
    (hnv : ¬ nv = 0) : RsOuterR R xx W nd (k + 1) yy := by
  refine ⟨h.size, fun j hj => ?_, fun j hj => h.zero j (by omega)⟩
  by_cases hjk : j = k
  · subst hjk
    have : ¬ vcnt nd (winPre xx W j W) = 0 := fun h0 => hnv (by rw [h.cnt, h0]; rfl)
    rw [h.acc, rsCellR, if_neg hw, if_neg this]
  · exact h.done j (by omega)

/-- exit of the inner loop without a valid cell: the cell gets the (stored) sentinel -/
theorem RsInnerR.exit_none {R : IntRound} {xx : List Int} {W : ℕ} {nd v : Int} {k : ℕ}
    {yy yy' : Array Int} {nv : Int} (h : RsInnerR R xx W nd k W yy nv) (hw : ¬ k + 1 < W)
    (hnv : nv = 0) (hu : Upd yy' yy k v) (hv : v = nd) : RsOuterR R xx W nd (k + 1) yy' := by
  rw [hv] at hu
  refine ⟨hu.size.trans h.size, fun j hj => ?_, fun j hj => ?_⟩
  · by_cases hjk : j = k
    · subst hjk
      have : vcnt nd (winPre xx W j W) = 0 := by
        have := h.cnt; rw [hnv] at this; exact_mod_cast this.symm
      rw [hu.self, rsCellR, if_neg hw, if_pos this]
    · rw [hu.other j hjk]; exact h.done j (by omega)
  · rw [hu.other j (by omega)]; exact h.zero j (by omega)

theorem RsOuterR.toList_eq {R : IntRound} {xx : List Int} {W : ℕ} {nd : Int} {yy : Array Int}
    (h : RsOuterR R xx W nd xx.length yy) : yy.toList = rollingSumR R xx W nd := by
  have hl : (rollingSumR R xx W nd).length = xx.length := by simp [rollingSumR_eq]
  apply toList_eq_of_gv yy _ (by rw [h.size, hl])
  intro j hj
  rw [hl] at hj
  rw [h.done j hj, lv_rollingSumR R xx W nd j hj]

theorem RsOuterR.cast {R : IntRound} {xx : List Int} {W : ℕ} {nd : Int} {p p' : ℕ} {yy : Array Int}
    (h : RsOuterR R xx W nd p yy) (hp : p = p') : RsOuterR R xx W nd p' yy := hp ▸ h

theorem RsInnerR.cast {R : IntRound} {xx : List Int} {W : ℕ} {nd : Int} {k k' q q' : ℕ}
    {yy : Array Int} {nv : Int} (h : RsInnerR R xx W nd k q yy nv) (hk : k = k') (hq : q = q') :
    RsInnerR R xx W nd k' q' yy nv :=
  hk ▸ hq ▸ h

end Hdc.GenKernels
