import Hdc.Lemmas.SmoothGcvShift
/-
The robust GCV loop on perfectly fitted data (all residuals on valid cells are zero, e.g. a
straight line): the MAD is 0, the robust weights stay 1, every score is 0.
-/
namespace Hdc.Smooth
open Hdc Hdc.C01

set_option linter.unusedSectionVars false

variable {α : Type} [Field α] [LinearOrder α] [IsStrictOrderedRing α]

/-! ### median of zeros -/

theorem getD_zeros (l : List α) (h : ∀ x ∈ l, x = 0) (k : ℕ) : l.getD k (nat 0) = 0 := by
  by_cases hk : k < l.length
  · rw [List.getD_eq_getElem?_getD, List.getElem?_eq_getElem hk]
    exact h _ (List.getElem_mem hk)
  · rw [List.getD_eq_getElem?_getD, List.getElem?_eq_none (by omega)]
    exact nat_zero

theorem median_zeros (l : List α) (h : ∀ x ∈ l, x = 0) : median l = 0 := by
  have hs : ∀ x ∈ sortL l, x = 0 := by
    intro x hx
    unfold sortL at hx
    rw [List.mem_mergeSort] at hx
    exact h x hx
  unfold median
  simp only []
  split_ifs
  · exact getD_zeros _ hs _
  · rw [getD_zeros _ hs, getD_zeros _ hs]; simp

/-- every selected residual is a residual at a cell with non-zero weight -/
theorem mem_rselOf (Y yt wt : List α) (x : α) (hx : x ∈ rselOf Y yt wt) :
    ∃ i, fn wt i ≠ 0 ∧ i < (sub2 Y yt).length ∧ x = fn (sub2 Y yt) i := by
  unfold rselOf at hx
  rw [List.mem_map] at hx
  obtain ⟨⟨a, v⟩, hm, rfl⟩ := hx
  rw [List.mem_filter] at hm
  obtain ⟨hz, hv⟩ := hm
  obtain ⟨i, hi, he⟩ := List.getElem_of_mem hz
  simp only [List.length_zip, lt_min_iff] at hi
  rw [List.getElem_zip, Prod.mk.injEq] at he
  refine ⟨i, ?_, hi.1, ?_⟩
  · rw [fn_of_lt _ i hi.2, he.2]
    simp only [Bool.not_eq_true', eqv_eq_false_iff, nat_zero] at hv
    exact hv
  · rw [fn_of_lt _ i hi.1, he.1]

section
variable (G : GFns α) {w Y L : List α}

/-- on perfectly fitted data the MAD is zero -/
theorem madOf_perfect (hres : ∀ i, fn w i ≠ 0 → fn Y i = fn L i) (wt : List α) (hs : SuppIn wt w) :
    madOf Y L wt = 0 := by
  have hz : ∀ x ∈ rselOf Y L wt, x = 0 := by
    intro x hx
    obtain ⟨i, hi, hlt, rfl⟩ := mem_rselOf Y L wt x hx
    simp only [sub2_length, lt_min_iff] at hlt
    rw [fn_sub2 _ _ i hlt.1 hlt.2, hres i (hs i hi), sub_self]
  unfold madOf
  apply median_zeros
  intro x hx
  rw [List.mem_map] at hx
  obtain ⟨r, hr, rfl⟩ := hx
  rw [hz r hr, median_zeros _ hz, absv_eq]; simp

theorem le_foldl_max (xs : List α) (x : α) :
    x ≤ xs.foldl (fun m v => if m < v then v else m) x := by
  induction xs generalizing x with
  | nil => exact le_refl _
  | cons a as ih =>
    simp only [List.foldl_cons]
    refine le_trans ?_ (ih _)
    split_ifs with h
    · exact le_of_lt h
    · exact le_refl _

theorem foldl_min_le (xs : List α) (x : α) :
    xs.foldl (fun m v => if v < m then v else m) x ≤ x := by
  induction xs generalizing x with
  | nil => exact le_refl _
  | cons a as ih =>
    simp only [List.foldl_cons]
    refine le_trans (ih _) ?_
    split_ifs with h
    · exact le_of_lt h
    · exact le_refl _

theorem minL_le_maxL (l : List α) : minL l ≤ maxL l := by
  cases l with
  | nil => exact le_refl _
  | cons x xs => exact le_trans (foldl_min_le xs x) (le_foldl_max xs x)

/-- the MAD threshold is non-negative when the tolerance is -/
theorem madMinOf_nonneg (hmt : 0 ≤ G.madtol) (y w : List α) : 0 ≤ madMinOf G y w := by
  unfold madMinOf
  apply mul_nonneg hmt
  have := minL_le_maxL (yvOf y w)
  linarith

/-- … hence the robust weights are kept -/
theorem robustStep_perfect (hmt : 0 ≤ G.madtol) (hres : ∀ i, fn w i ≠ 0 → fn Y i = fn L i)
    (wt de rw w' : List α) (s n : α)
    (hs : SuppIn wt w) : robustStep G Y L wt de rw w' s n = rw := by
  rw [robustStep_eq, madOf_perfect hres wt hs, if_neg (not_lt.2 (madMinOf_nonneg G hmt Y w'))]

/-- … and the GCV score is zero -/
theorem gsc_perfect (hres : ∀ i, fn w i ≠ 0 → fn Y i = fn L i) (hsq : G.sqrtw 0 = 0)
    (wt de : List α) (s : α) (hs : SuppIn wt w) (hfit : ws2d Y s wt = L) : gsc G Y wt de s = 0 := by
  have hz : ∀ x ∈ (mul2 (wt.map G.sqrtw) (sub2 Y L)).map (fun t => t * t), x = 0 := by
    intro x hx
    rw [List.mem_map] at hx
    obtain ⟨t, ht, rfl⟩ := hx
    obtain ⟨i, hi, rfl⟩ := List.getElem_of_mem ht
    have hi' := hi
    simp only [mul2_length, List.length_map, sub2_length, lt_min_iff] at hi'
    rw [← fn_of_lt _ i hi, fn_mul2, fn_map_of_lt _ _ _ hi'.1]
    by_cases h0 : fn wt i = 0
    · rw [h0, hsq]; simp
    · rw [fn_sub2 _ _ i hi'.2.1 hi'.2.2, hres i (hs i h0)]; simp
  have hsum : sumF ((mul2 (wt.map G.sqrtw) (sub2 Y L)).map (fun t => t * t)) = 0 := by
    rw [sumF_eq]
    exact List.sum_eq_zero hz
  unfold gsc gcvScore
  simp only [hfit, hsum, zero_div]

/-! ### the loop on perfectly fitted data -/

/-- invariant: the robust weights are still all 1 and every recorded curve is `L` -/
def PerfInv (Y L : List α) (st : GState α) : Prop :=
  st.2.1 = Y.map (fun _ => (nat 1 : α)) ∧ ∀ yt, st.1.ytemp = some yt → yt = L

theorem gstep_perfInv (hmt : 0 ≤ G.madtol) (hres : ∀ i, fn w i ≠ 0 → fn Y i = fn L i) (hwl : w.length = Y.length)
    (de llasPow : List α) (hfit : ∀ s ∈ llasPow, ws2d Y s w = L) (n : α) (it : ℕ) (st st' : GState α)
    (hI : RInv llasPow Y.length st) (hP : PerfInv Y L st)
    (h : gstep G Y w de llasPow true n it st = some st') : PerfInv Y L st' := by
  obtain ⟨hrw, hyt⟩ := hP
  obtain ⟨a, _, yt, c1, c2⟩ := gstep_robust_some _ _ _ _ _ _ _ _ _ h
  have hwt : mul2 w st.2.1 = w := by
    rw [hrw]
    apply list_eq_of_fn _ _ (by simp [hwl])
    intro i hi
    have hi' : i < w.length := by simpa [hwl] using hi
    rw [fn_mul2, fn_map_of_lt _ _ _ (by omega)]; simp
  have hsub := iterLams_subset llasPow it st.2.2 hI.2.2.2
  have hyt' : ∀ yt, st'.1.ytemp = some yt → yt = L := by
    intro yt' hy'
    rw [a, hwt] at hy'
    rcases gcvSweep_lam G Y w de (iterLams llasPow it st.2.2) st.1 with e | ⟨e1, e2⟩
    · rw [e] at hy'; exact hyt yt' hy'
    · rw [e2, Option.some.injEq] at hy'
      rw [← hy']; exact hfit _ (hsub _ e1)
  refine ⟨?_, hyt'⟩
  rw [c2, hyt' yt c1, robustStep_perfect G hmt hres _ de _ _ _ n (suppIn_mul2 _ _)]
  exact hrw

theorem grun_perfInv (hmt : 0 ≤ G.madtol) (hres : ∀ i, fn w i ≠ 0 → fn Y i = fn L i) (hwl : w.length = Y.length)
    (de llasPow : List α) (hfit : ∀ s ∈ llasPow, ws2d Y s w = L) (n : α) (k it : ℕ) (st r : GState α)
    (hI : RInv llasPow Y.length st) (hP : PerfInv Y L st)
    (h : grun G Y w de llasPow true n k it st = some r) : PerfInv Y L r := by
  induction k generalizing it st with
  | zero =>
    simp only [grun, Option.some.injEq] at h
    subst h; exact hP
  | succ k ih =>
    simp only [grun, Option.bind_eq_some_iff] at h
    obtain ⟨st1, h1, h2⟩ := h
    exact ih _ _ (gstep_rinv G de llasPow n it st st1 hwl hI h1)
      (gstep_perfInv G hmt hres hwl de llasPow hfit n it st st1 hI hP h1) h2

theorem perfInv_gstate0 (Y L : List α) : PerfInv Y L (gstate0 G Y) :=
  ⟨rfl, fun yt hyt => by simp [gstate0] at hyt⟩

/-! ### existence: on perfectly fitted data the first grid value is selected -/

/-- a sweep that cannot improve (all scores are 0, the running score is 0) changes nothing -/
theorem gcvSweep_noimprove (Y wt de lams : List α) (b : Best α)
    (h : ∀ s ∈ lams, ¬ gsc G Y wt de s < b.score) : gcvSweep G Y wt de lams b = b := by
  rw [gcvSweep_eq]
  induction lams with
  | nil => rfl
  | cons s ss ih =>
    simp only [List.foldl_cons]
    have : sweepStep G Y wt de b s = b := by
      unfold sweepStep; rw [if_neg (h s (by simp))]
    rw [this]
    exact ih (fun s' hs' => h s' (List.mem_cons_of_mem _ hs'))

/-- the first sweep on perfectly fitted data records the first grid value -/
theorem gcvSweep_perfect_first (Y wt de : List α) (s : α) (ss : List α) (big : α) (hbig : 0 < big)
    (h0 : ∀ s' ∈ s :: ss, gsc G Y wt de s' = 0) :
    gcvSweep G Y wt de (s :: ss) ⟨big, nat 0, none⟩ = cand G Y wt de s := by
  rw [gcvSweep_eq]
  simp only [List.foldl_cons]
  have h1 : sweepStep G Y wt de ⟨big, nat 0, none⟩ s = cand G Y wt de s := by
    unfold sweepStep
    rw [if_pos (by rw [h0 s (by simp)]; exact hbig)]
  rw [h1, ← gcvSweep_eq]
  apply gcvSweep_noimprove
  intro s' hs'
  rw [h0 s' (List.mem_cons_of_mem _ hs')]
  show ¬ (0 : α) < gsc G Y wt de s
  rw [h0 s (by simp)]
  exact lt_irrefl _

/-- a robust step from a state whose running best has score 0 and curve `L` -/
theorem gstep_perfect_fix (hmt : 0 ≤ G.madtol) (hres : ∀ i, fn w i ≠ 0 → fn Y i = fn L i) (hsq : G.sqrtw 0 = 0)
    (hwl : w.length = Y.length) (de llasPow : List α) (hfit : ∀ s ∈ llasPow, ws2d Y s w = L)
    (n : α) (it : ℕ) (b : Best α) (hist : List (Best α)) (hb : b.score = 0) (hby : b.ytemp = some L)
    (hh : ∀ b' ∈ hist, b'.lam ∈ llasPow) :
    gstep G Y w de llasPow true n it (b, Y.map (fun _ => (nat 1 : α)), hist) =
      some (b, Y.map (fun _ => (nat 1 : α)), hist ++ [b]) := by
  have hsub := iterLams_subset llasPow it hist hh
  have hsw : gcvSweep G Y w de (iterLams llasPow it hist) b = b := by
    apply gcvSweep_noimprove
    intro s hs
    rw [gsc_perfect G hres hsq w de s (SuppIn.refl _) (hfit s (hsub s hs)), hb]
    exact lt_irrefl _
  unfold gstep
  simp only [if_true, mul2_ones' w Y hwl, hsw, hby]
  rw [robustStep_perfect G hmt hres w de _ _ _ n (SuppIn.refl _)]

/-- the four robust iterations on perfectly fitted data: the first grid value is recorded
    in iteration 0 and nothing changes afterwards -/
theorem grun_perfect (hmt : 0 ≤ G.madtol) (hres : ∀ i, fn w i ≠ 0 → fn Y i = fn L i) (hsq : G.sqrtw 0 = 0)
    (hwl : w.length = Y.length) (de : List α) (s1 : α) (ss : List α)
    (hfit : ∀ s ∈ s1 :: ss, ws2d Y s w = L) (n : α) (hbig : 0 < G.big) :
    grun G Y w de (s1 :: ss) true n 4 0 (gstate0 G Y) =
      some (cand G Y w de s1, Y.map (fun _ => (nat 1 : α)),
        [cand G Y w de s1, cand G Y w de s1, cand G Y w de s1, cand G Y w de s1]) := by
  have h0 : ∀ s' ∈ s1 :: ss, gsc G Y w de s' = 0 := fun s' hs' =>
    gsc_perfect G hres hsq w de s' (SuppIn.refl _) (hfit s' hs')
  have hb1y : (cand G Y w de s1).ytemp = some L := by
    unfold cand; simp only [hfit s1 (by simp)]
  have hb1s : (cand G Y w de s1).score = 0 := h0 s1 (by simp)
  have hb1l : (cand G Y w de s1).lam ∈ s1 :: ss := by unfold cand; simp
  have step0 : gstep G Y w de (s1 :: ss) true n 0 (gstate0 G Y) =
      some (cand G Y w de s1, Y.map (fun _ => (nat 1 : α)), [cand G Y w de s1]) := by
    unfold gstep gstate0 iterLams
    simp only [if_true, mul2_ones' w Y hwl, Nat.not_lt_zero, if_false,
      gcvSweep_perfect_first G Y w de s1 ss G.big hbig h0, hb1y, List.nil_append]
    rw [robustStep_perfect G hmt hres w de _ _ _ n (SuppIn.refl _)]
  have fix : ∀ it hist, (∀ b' ∈ hist, b'.lam ∈ s1 :: ss) →
      gstep G Y w de (s1 :: ss) true n it (cand G Y w de s1, Y.map (fun _ => (nat 1 : α)), hist) =
        some (cand G Y w de s1, Y.map (fun _ => (nat 1 : α)), hist ++ [cand G Y w de s1]) :=
    fun it hist hh => gstep_perfect_fix G hmt hres hsq hwl de (s1 :: ss) hfit n it _ hist hb1s hb1y hh
  have hmem : ∀ (l : List (Best α)), (∀ b' ∈ l, b' = cand G Y w de s1) → ∀ b' ∈ l, b'.lam ∈ s1 :: ss :=
    fun l hl b' hb' => by rw [hl b' hb']; exact hb1l
  simp only [grun, step0, Option.bind_some]
  rw [fix 1 _ (hmem _ (by simp))]
  simp only [Option.bind_some, List.cons_append, List.nil_append]
  rw [fix 2 _ (hmem _ (by simp))]
  simp only [Option.bind_some, List.cons_append, List.nil_append]
  rw [fix 3 _ (hmem _ (by simp))]
  simp only [Option.bind_some, List.cons_append, List.nil_append]

end

end Hdc.Smooth
