import Hdc.Gen.KernelsBase
import Hdc.Lemmas.ArrCommon
/-
Generic lemmas for the refinement proofs "generated translation of a loop kernel = hand model"
(Hdc/Props/GenKernels.lean): `rd` / `wr` / `pyRange` / `whereEq` / `pySlice` of `Hdc.Gen.Kernels`
(Python index semantics on `Array Int`) in terms of ℕ-indexed reads `gv a j`.

Nothing in this file mentions a generated kernel.  The tactic `py_name` is the one of
Hdc/Lemmas/Ws2dGen.lean.
-/
namespace Hdc.GenKernels
open Hdc.Gen.Kernels

/-- an integer array read as a function (0 outside) -/
def gv (a : Array Int) (j : ℕ) : Int := a.getD j 0

/-- a list read as a function (0 outside) -/
def lv (l : List Int) (j : ℕ) : Int := l.getD j 0

theorem ix_of_eq (n : ℕ) (i : ℤ) (j : ℕ) (h : i = (j : ℤ)) : ix n i = j := by
  subst h
  have : ¬ ((j : ℤ) < 0) := by omega
  simp [ix, this]

theorem rd_of_eq (a : Array Int) (i : ℤ) (j : ℕ) (h : i = (j : ℤ)) : rd a i = gv a j := by
  simp only [rd, gv, ix_of_eq a.size i j h]

@[simp] theorem size_wr (a : Array Int) (i : ℤ) (v : Int) : (wr a i v).size = a.size := by
  simp [wr]

theorem gv_wr_self (a : Array Int) (i : ℤ) (v : Int) (j : ℕ) (h : i = (j : ℤ)) (hj : j < a.size) :
    gv (wr a i v) j = v := by
  simp only [wr, ix_of_eq a.size i j h, gv]
  simp [Array.getElem?_setIfInBounds_self_of_lt hj]

theorem gv_wr_ne (a : Array Int) (i : ℤ) (v : Int) (j : ℕ) (hi : 0 ≤ i) (h : i ≠ (j : ℤ)) :
    gv (wr a i v) j = gv a j := by
  simp only [wr, ix_of_eq a.size i i.toNat (by omega), gv]
  have : i.toNat ≠ j := by omega
  simp [Array.getElem?_setIfInBounds_ne this]

theorem gv_toArray (l : List Int) (j : ℕ) : gv l.toArray j = lv l j := by
  simp [gv, lv]

theorem lv_eq_getElem (l : List Int) (j : ℕ) (h : j < l.length) : lv l j = l[j] := by
  simp [lv, h]

/-- `a` is `a0` with cell `k` overwritten by `v` -/
structure Upd (a a0 : Array Int) (k : ℕ) (v : Int) : Prop where
  size : a.size = a0.size
  self : gv a k = v
  other : ∀ j, j ≠ k → gv a j = gv a0 j

/-- the effect of one Python assignment `a[i] = v` with `0 ≤ i < len(a)` -/
theorem wr_upd {a a0 : Array Int} {i : ℤ} {v : Int} (ha : a = wr a0 i v) (k : ℕ)
    (hi : i = (k : ℤ)) (hk : k < a0.size) : Upd a a0 k v := by
  subst ha
  exact ⟨size_wr _ _ _, gv_wr_self _ _ _ _ hi hk,
    fun j hj => gv_wr_ne _ _ _ _ (by omega) (by omega)⟩

theorem toList_eq_of_gv (z : Array Int) (l : List Int) (hs : z.size = l.length)
    (h : ∀ j < l.length, gv z j = lv l j) : z.toList = l := by
  apply List.ext_getElem (by simpa using hs)
  intro j h1 h2
  have := h j h2
  have h3 : j < z.size := by simpa using h1
  simp only [gv, lv, Array.getD_eq_getD_getElem?, Array.getElem?_eq_getElem h3, Option.getD_some,
    List.getD_eq_getElem?_getD, List.getElem?_eq_getElem h2] at this
  simpa using this

/-! ### `range(a, b)` -/

@[simp] theorem pyRange_length (a b : ℤ) : (pyRange a b).length = (b - a).toNat := by
  simp [pyRange]

/-- the current element of `for i in range(a, b)` after `pref` iterations -/
theorem pyRange_split (a b : ℤ) (pref suff : List ℤ) (cur : ℤ)
    (h : pyRange a b = pref ++ cur :: suff) :
    cur = a + (pref.length : ℤ) ∧ a + (pref.length : ℤ) < b := by
  obtain ⟨hlt, hget⟩ := Hdc.Ws2dGen.split_getElem _ _ _ _ h
  rw [pyRange_length] at hlt
  refine ⟨?_, by omega⟩
  rw [← hget]
  simp [pyRange]



theorem rd_nonneg (a : Array Int) (i : ℤ) (h : 0 ≤ i) : rd a i = gv a i.toNat :=
  rd_of_eq a i i.toNat (by omega)

open Lean Elab Tactic Meta in
/-- `py_ranges`: for every hypothesis `h : pyRange a b = pref ++ cur :: suff` (the position of a
    `for … in range(a, b)` loop, as the verification-condition generator records it) add the fact
    `cur = a + pref.length ∧ a + pref.length < b` to the context. -/
elab "py_ranges" : tactic => withMainContext do
  let lctx ← getLCtx
  let mut facts : Array Expr := #[]
  for decl in lctx do
    if decl.isImplementationDetail then continue
    try
      let e ← mkAppOptM ``Hdc.GenKernels.pyRange_split
        #[none, none, none, none, none, some decl.toExpr]
      facts := facts.push e
    catch _ => pure ()
  for e in facts do
    liftMetaTactic fun g => do
      let t ← inferType e
      let g ← g.assert `hrange t e
      let (_, g) ← g.intro1P
      return [g]

end Hdc.GenKernels
