import Hdc.PyNpT
import Hdc.Model.RoundAcc
/-
A floating type that ROUNDS, for the non-vacuity examples and negative witnesses of the bounded refinement theorems
(Hdc/Props/GenKMeanGrpB.lean, GenKDoMeanB.lean): `FloatOps.pair` (results kept as (numerator, denominator) pairs) with the
addition rounded by a format `R : IntRound`.
-/
namespace Hdc.PyNpT

/-- `FloatOps.pair` with the addition rounded by `R`: `add (a, _) (b, _) = (R.rnd (a + b), 1)` -/
def FloatOps.pairR (R : IntRound) : FloatOps (Int × Int) :=
  ⟨fun a => (a, 1), fun a b => (R.rnd (a.1 + b.1), 1), fun a b => (a.1, b.1), (0, 0)⟩

/-- it satisfies the bounded exactness of the addition with `B = R.B` (and in general not the unconditional one) -/
theorem FloatOps.pairR_hadd (R : IntRound) (a b : Int) (_ : a.natAbs ≤ R.B) (_ : b.natAbs ≤ R.B)
    (h : (a + b).natAbs ≤ R.B) :
    (FloatOps.pairR R).add ((FloatOps.pairR R).lit a) ((FloatOps.pairR R).lit b)
      = (FloatOps.pairR R).lit (a + b) := by
  show (R.rnd (a + b), (1 : Int)) = (a + b, 1)
  rw [R.exact _ h]

end Hdc.PyNpT
