import Hdc.Lemmas.GenNumFixed
import Hdc.Lemmas.SafeOptv
import Hdc.Props.C03
import Hdc.PySafeF
/-
SafeFixed  Facts for "under the contract the flag of the instrumented `ws2dgu` / `ws2dpgu` is false"
(Hdc/Props/SafeWs2dgu.lean, SafeWs2dpgu.lean):
  * the cleaned data with the validity weights satisfy the contract of `ws2d` (`SafeWs2d.Contract`, n ≥ 3) as soon as two
    cells are valid and λ > 0;
  * for `0 < p < 1` the asymmetric re-weighting (`w * wa`, `wa = p` above the curve, `1 - p` elsewhere) stays inside it;
  * the flag of the instrumented smoother on ARRAYS (the loop of ws2dpgu hands it the array `ww` of the previous pass).
Nothing here mentions the two generated kernels.
-/
namespace Hdc.SafeFixed
open Hdc Hdc.C01 Hdc.Smooth Hdc.SafeL

set_option linter.unusedSectionVars false

variable {α : Type} [Field α] [LinearOrder α] [IsStrictOrderedRing α]

/-- the contract of `ws2d` for the cleaned data with the validity weights -/
theorem contract_clean (miss : α → Bool) (y : List α) (lam : α) (hn : 3 ≤ y.length) (hlam : 0 < lam)
    (hv : 2 ≤ countValid miss y) : SafeWs2d.Contract (cleanOf miss y) (weightsOf miss y) lam :=
  have h := SafeOptv.contract_raw miss y lam hn hlam hv
  ⟨by simpa using hn, by simp, hlam, h.w_nonneg, h.two_pos⟩

/-- for `0 < p < 1` the re-weighted problem is again inside the contract of `ws2d` -/
theorem contract_asym {y w : List α} {lam : α} (h : SafeWs2d.Contract y w lam) (p : α) (hp0 : 0 < p)
    (hp1 : p < 1) (z : List α) (hz : z.length = y.length) : SafeWs2d.Contract y (asymW p w y z) lam where
  len := h.len
  wlen := C03.asymW_length p w y z h.wlen hz
  lam_pos := h.lam_pos
  w_nonneg := by
    intro x hx
    obtain ⟨i, hi, rfl⟩ := List.getElem_of_mem hx
    have hi' := hi
    rw [C03.asymW_length p w y z h.wlen hz] at hi'
    have hiw : i < w.length := by rw [h.wlen]; exact hi'
    rw [← fn_of_lt _ i hi, fn_asymW p w y z i hiw hi' (by rw [hz]; exact hi')]
    refine C03.aw_nonneg p _ _ _ hp0 hp1 ?_
    rw [fn_of_lt _ i hiw]
    exact h.w_nonneg _ (List.getElem_mem hiw)
  two_pos := by
    obtain ⟨i, j, hij, hj, hi0, hj0⟩ := h.two_pos
    have hj' : j < y.length := by rw [← h.wlen]; exact hj
    refine ⟨i, j, hij, by rw [C03.asymW_length p w y z h.wlen hz]; exact hj', ?_, ?_⟩
    · rw [C03.asymW_pos_iff p w y z hp0 hp1 i (by omega) (by omega) (by omega)]; exact hi0
    · rw [C03.asymW_pos_iff p w y z hp0 hp1 j hj hj' (by omega)]; exact hj0

/-- the flag of the instrumented smoother on arrays -/
theorem ws2d_ok_arr (y w : Array α) (lam : α) (h : SafeWs2d.Contract y.toList w.toList lam) :
    (Gen.Safe.ws2d y lam w).2 = false := by
  have := SafeWs2d.safe_ws2d_ok y.toList w.toList lam h
  simpa using this

/-- the call `ws2d(y, λ, w)` of the fixed-λ kernels on the cleaned data -/
theorem ws2d_clean_ok (miss : α → Bool) (y : List α) (lam : α) (hn : 3 ≤ y.length) (hlam : 0 < lam)
    (hv : 2 ≤ countValid miss y) :
    (Gen.Safe.ws2d (cleanOf miss y).toArray lam (weightsOf miss y).toArray).2 = false :=
  SafeWs2d.safe_ws2d_ok _ _ lam (contract_clean miss y lam hn hlam hv)

/-- `lmda != 0.0` and `0 ≤ λ` (the documented range of the smoothing parameter) give `0 < λ` -/
theorem lam_pos_of (lam : α) (h0 : eqv lam (nat 0) = false) (hl : 0 ≤ lam) : 0 < lam := by
  rw [eqv_false_iff] at h0
  exact lt_of_le_of_ne hl (by simpa [nat] using h0.symm)

end Hdc.SafeFixed
