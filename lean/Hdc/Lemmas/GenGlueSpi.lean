import Hdc.Lemmas.GenGlueCal
/-
The NumPy checks of the grouped branch of `PixelAlgorithms.spi` on a table of rows `[start, stop]`
(`np.any(t[:, 0] >= t[:, 1])`, `np.any(np.diff(t, axis=1) <= 1)`) against the model's `List.any` tests.
No generated program is mentioned here.
-/
namespace Hdc.GenGlue
open Hdc Hdc.PyGlue

/-- the (n, 2) table of the windows -/
def rowsOf (ws : List (Nat × Nat)) : List (List Int) := ws.map fun p => [(p.1 : Int), (p.2 : Int)]

theorem npCol_rows0 (ws : List (Nat × Nat)) : npCol (rowsOf ws) 0 = .ok (ws.map fun p => (p.1 : Int)) := by
  unfold npCol rowsOf
  induction ws with
  | nil => rfl
  | cons p ps ih =>
    simp only [List.map_cons, List.mapM_cons, ih]
    rfl

theorem npCol_rows1 (ws : List (Nat × Nat)) : npCol (rowsOf ws) 1 = .ok (ws.map fun p => (p.2 : Int)) := by
  unfold npCol rowsOf
  induction ws with
  | nil => rfl
  | cons p ps ih =>
    simp only [List.map_cons, List.mapM_cons, ih]
    rfl

theorem zipWithArr_map {α β γ δ : Type} (f : β → γ → δ) (g : α → β) (h : α → γ) (l : List α) :
    zipWithArr f (l.map g) (l.map h) = .ok (l.map fun x => f (g x) (h x)) := by
  unfold zipWithArr
  rw [if_pos (by simp)]
  congr 1
  induction l with
  | nil => rfl
  | cons x xs ih => simp [ih]

theorem npAny_map {α : Type} (l : List α) (q : α → Bool) : npAny (l.map q) = l.any q := by
  unfold npAny
  induction l with
  | nil => rfl
  | cons x xs ih => simp [ih]

/-- `np.any(t[:, 0] >= t[:, 1])` is the model's first test -/
theorem any_reversed_rows (ws : List (Nat × Nat)) :
    npAny (ws.map fun p => decide ((p.1 : Int) ≥ (p.2 : Int))) = ws.any fun (i, j) => decide (j ≤ i) := by
  rw [npAny_map]
  congr 1
  funext p
  obtain ⟨i, j⟩ := p
  simp

/-- `np.any(np.diff(t, axis=1) <= 1)`, evaluated (as in the source and in the model) after the first test has passed, is the
    model's second test (natural-number subtraction) -/
theorem any_short_rows (ws : List (Nat × Nat)) (h : (ws.any fun (i, j) => decide (j ≤ i)) = false) :
    npAny2 ((npDiffRows (rowsOf ws)).map (List.map fun x => decide (x ≤ (1 : Int))))
      = ws.any fun (i, j) => decide (j - i ≤ 1) := by
  unfold npAny2 npDiffRows rowsOf
  induction ws with
  | nil => rfl
  | cons p ps ih =>
    obtain ⟨i, j⟩ := p
    simp only [List.any_cons, Bool.or_eq_false_iff, decide_eq_false_iff_not] at h
    have ih' := ih h.2
    simp only [List.map_cons, List.any_cons, List.map_map] at ih' ⊢
    rw [ih']
    congr 1
    simp only [List.tail_cons, List.zipWith_cons_cons, List.zipWith_nil_right, List.map_cons, List.map_nil, List.any_cons,
      List.any_nil, Bool.or_false, id]
    have := h.1
    by_cases c : j - i ≤ 1
    · simp only [c, decide_true, decide_eq_true_eq]; omega
    · simp only [c, decide_false, decide_eq_false_iff_not]; omega

end Hdc.GenGlue
