import Hdc.Lemmas.GenGlue
import Hdc.Model.Discrete
/-
The loop of `_iteragg` against the model's `iterWindows` (no generated program is mentioned here).
-/
namespace Hdc.GenGlue
open Hdc Hdc.PyGlue

theorem iterWindows_nil (n e b : Nat) (h : b ≤ e) : iterWindows n e b = [] := by
  cases b with
  | zero => rfl
  | succ b => simp [iterWindows, h]

/-- one step of the model's recursion, in the integer variables of the program -/
theorem iterWindows_int_step (n : Nat) (e b : Int) (he : 0 ≤ e) (h1 : ¬ b ≤ e) :
    iterWindows n e.toNat b.toNat =
      if 0 ≤ b - n then ((b - n).toNat, b.toNat) :: iterWindows n e.toNat (b - 1).toNat
      else iterWindows n e.toNat (b - 1).toNat := by
  obtain ⟨m, hm⟩ : ∃ m : Nat, b.toNat = m + 1 := ⟨b.toNat - 1, by omega⟩
  have hm' : (b - 1).toNat = m := by omega
  rw [hm, hm', iterWindows]
  have c1 : ¬ (m + 1 ≤ e.toNat) := by omega
  rw [if_neg c1]
  by_cases h2 : 0 ≤ b - n
  · have c2 : n ≤ m + 1 := by omega
    have c3 : (b - n).toNat = m + 1 - n := by omega
    rw [if_pos h2, if_pos c2, c3]
  · have c2 : ¬ n ≤ m + 1 := by omega
    rw [if_neg h2, if_neg c2]

/-- `for ii in range(b, s, -1)` with `0 ≤ s ≤ e` whose body behaves like the source's (break at `ii ≤ e`, one object
    `F (ii - n) ii` appended when `ii - n ≥ 0`) appends the model's windows, newest first. -/
theorem forIn_rangeDown_iterWindows {Obj : Type} (F : Int → Int → Obj) (n : Nat) (e s : Int) (hs : 0 ≤ s) (hse : s ≤ e)
    (f : Int → List Obj → Except Exc (ForInStep (List Obj)))
    (hf : ∀ (ii : Int) (out : List Obj), 0 < ii → f ii out =
      .ok (if ii ≤ e then .done out else if 0 ≤ ii - n then .yield (out ++ [F (ii - n) ii]) else .yield out))
    (b : Int) (out : List Obj) :
    forIn (rangeDown b s) out f
      = .ok (out ++ (iterWindows n e.toNat b.toNat).map fun p => F (p.1 : Int) (p.2 : Int)) := by
  generalize hk : (b - s).toNat = k
  induction k generalizing b out with
  | zero =>
    rw [rangeDown_nil b s (by omega), iterWindows_nil n _ _ (by omega)]
    simp; rfl
  | succ k ih =>
    rw [rangeDown_cons b s (by omega), List.forIn_cons, hf b out (by omega)]
    by_cases h1 : b ≤ e
    · rw [if_pos h1, iterWindows_nil n _ _ (by omega)]
      simp; rfl
    · rw [if_neg h1, iterWindows_int_step n e b (by omega) h1]
      by_cases h2 : 0 ≤ b - n
      · rw [if_pos h2, if_pos h2]
        show forIn (rangeDown (b - 1) s) _ f = _
        rw [ih (b - 1) _ (by omega)]
        have c1 : ((b - n).toNat : Int) = b - n := by omega
        have c2 : (b.toNat : Int) = b := by omega
        simp only [List.map_cons, List.append_assoc, List.singleton_append, c1, c2]
      · rw [if_neg h2, if_neg h2]
        show forIn (rangeDown (b - 1) s) _ f = _
        rw [ih (b - 1) _ (by omega)]

end Hdc.GenGlue
