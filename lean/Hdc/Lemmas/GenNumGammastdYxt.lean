import Hdc.Lemmas.GenNumGammastdGrp
import Hdc.Model.StatsExt
/-
Lemmas for the refinement proof "generated translation of gammastd_yxt = hand model `Hdc.gammastdYxt`"
(Hdc/Props/GenNumGammastdYxt.lean).  Nothing in this file mentions a generated kernel.

  * `toArr3` / `fromArr3`, `rowOf`, `xrow`     cubes as nested arrays / nested lists, read as functions;
  * `rd3_nat`, `rowOf_wr3`, …                    the 3-d accessors of Hdc/PyNpS.lean at natural indices;
  * `ScaleInv`                                   the loop over the time steps (scale, saturate the valid cells);
  * `YInv`                                       the two loops over the pixels.
-/
namespace Hdc.GenNum
open Hdc Hdc.Gen.NumKernels
open Hdc.Ws2dGen (av Upd)

set_option linter.unusedSectionVars false
set_option linter.unusedSimpArgs false

/-! ### cubes -/

section cube
variable {β : Type}

/-- a (rows, columns, time) cube as the translated kernel receives it -/
def toArr3 (x : List (List (List β))) : Array (Array (Array β)) :=
  (x.map fun pl => (pl.map List.toArray).toArray).toArray

def fromArr3 (y : Array (Array (Array β))) : List (List (List β)) :=
  y.toList.map fun pl => pl.toList.map Array.toList

/-- the series of pixel `(i, j)` (empty outside the cube) -/
def rowOf (y : Array (Array (Array β))) (i j : ℕ) : Array β := (y.getD i #[]).getD j #[]

def xrow (x : List (List (List β))) (i j : ℕ) : List β := (x.getD i []).getD j []

/-- all planes have `c` columns, all series `t` steps -/
def Rect (x : List (List (List β))) (c t : ℕ) : Prop :=
  (∀ pl ∈ x, pl.length = c) ∧ (∀ pl ∈ x, ∀ row ∈ pl, row.length = t)

/-- `x` is a rectangular cube (with the shape NumPy reports for it) -/
def Cube (x : List (List (List β))) : Prop :=
  Rect x (x.headD []).length ((x.headD []).headD []).length

theorem shape3_toArr3 (x : List (List (List β))) :
    shape3 (toArr3 x) 0 = x.length ∧ shape3 (toArr3 x) 1 = (x.headD []).length ∧
    shape3 (toArr3 x) 2 = ((x.headD []).headD []).length := by
  refine ⟨by simp [shape3, toArr3], ?_, ?_⟩
  · cases x with
    | nil => simp [shape3, toArr3]
    | cons pl _ => simp [shape3, toArr3]
  · cases x with
    | nil => simp [shape3, toArr3]
    | cons pl _ =>
      cases pl with
      | nil => simp [shape3, toArr3]
      | cons row _ => simp [shape3, toArr3]

theorem rd3_nat (y : Array (Array (Array β))) (i j : ℕ) : rd3 y (i : ℤ) (j : ℤ) = rowOf y i j := by
  simp only [rd3, rowOf, ix_of_eq _ (i : ℤ) i rfl, ix_of_eq _ (j : ℤ) j rfl]

theorem rowOf_toArr3 (x : List (List (List β))) (i j : ℕ) : rowOf (toArr3 x) i j = (xrow x i j).toArray := by
  unfold rowOf toArr3 xrow
  by_cases hi : i < x.length
  · by_cases hj : j < x[i].length
    · simp [hi, hj, List.getD_eq_getElem?_getD]
    · simp [hi, hj, List.getD_eq_getElem?_getD, List.getElem?_eq_none (Nat.le_of_not_lt hj)]
  · simp [hi, List.getD_eq_getElem?_getD, List.getElem?_eq_none (Nat.le_of_not_lt hi)]

theorem xrow_length (x : List (List (List β))) (c t : ℕ) (h : Rect x c t) (i j : ℕ) (hi : i < x.length)
    (hj : j < c) : (xrow x i j).length = t := by
  unfold xrow
  have hc : x[i].length = c := h.1 _ (List.getElem_mem hi)
  have e1 : x.getD i [] = x[i] := by simp [List.getD_eq_getElem?_getD, hi]
  have e2 : (x[i]).getD j [] = x[i][j]'(by omega) := by
    simp [List.getD_eq_getElem?_getD, show j < x[i].length by omega]
  rw [e1, e2]
  exact h.2 _ (List.getElem_mem hi) _ (List.getElem_mem _)

@[simp] theorem size_wr3 (y : Array (Array (Array β))) (r c : ℤ) (row : Array β) : (wr3 y r c row).size = y.size := by
  simp [wr3]

theorem plane_size_wr3 (y : Array (Array (Array β))) (i j : ℕ) (row : Array β) (i' : ℕ) :
    ((wr3 y (i : ℤ) (j : ℤ) row).getD i' #[]).size = (y.getD i' #[]).size := by
  simp only [wr3, ix_of_eq _ (i : ℤ) i rfl, ix_of_eq _ (j : ℤ) j rfl]
  by_cases h : i' = i
  · subst h
    by_cases hi : i' < y.size
    · simp [hi]
    · simp [hi]
  · by_cases hi : i' < y.size
    · simp [hi, Array.getElem_setIfInBounds, Ne.symm h]
    · simp [hi]

theorem rowOf_wr3 (y : Array (Array (Array β))) (i j : ℕ) (row : Array β) (i' j' : ℕ)
    (hi : i < y.size) (hj : j < (y.getD i #[]).size) :
    rowOf (wr3 y (i : ℤ) (j : ℤ) row) i' j' = if i' = i ∧ j' = j then row else rowOf y i' j' := by
  simp only [wr3, rowOf, ix_of_eq _ (i : ℤ) i rfl, ix_of_eq _ (j : ℤ) j rfl]
  by_cases h : i' = i
  · subst h
    simp only [hi, Array.getD_eq_getD_getElem?, Array.getElem?_setIfInBounds_self_of_lt, Option.getD_some,
      true_and]
    by_cases h2 : j' = j
    · subst h2
      simp only [Array.getD_eq_getD_getElem?, Array.getElem?_eq_getElem hi, Option.getD_some] at hj
      simp [hj, Array.getElem?_eq_getElem hi]
    · simp [h2, Array.getElem?_setIfInBounds_ne (Ne.symm h2)]
  · simp [h, Array.getD_eq_getD_getElem?, Array.getElem?_setIfInBounds_ne (Ne.symm h)]

theorem size_npFullLike3 (x : List (List (List β))) (v : β) : (npFullLike3 (toArr3 x) v).size = x.length := by
  simp [npFullLike3, toArr3]

theorem plane_size_npFullLike3 (x : List (List (List β))) (v : β) (i : ℕ) :
    ((npFullLike3 (toArr3 x) v).getD i #[]).size = (x.getD i []).length := by
  unfold npFullLike3 toArr3
  by_cases hi : i < x.length
  · simp [hi, List.getD_eq_getElem?_getD]
  · simp [hi, List.getD_eq_getElem?_getD, List.getElem?_eq_none (Nat.le_of_not_lt hi)]

theorem rowOf_npFullLike3 (x : List (List (List β))) (v : β) (i j : ℕ) :
    (rowOf (npFullLike3 (toArr3 x) v) i j).toList = List.replicate (xrow x i j).length v := by
  unfold npFullLike3 toArr3 rowOf xrow
  by_cases hi : i < x.length
  · by_cases hj : j < x[i].length
    · simp [hi, hj, List.getD_eq_getElem?_getD]
    · simp [hi, hj, List.getD_eq_getElem?_getD, List.getElem?_eq_none (Nat.le_of_not_lt hj)]
  · simp [hi, List.getD_eq_getElem?_getD, List.getElem?_eq_none (Nat.le_of_not_lt hi)]

theorem optInt_getD_zero (o : Option ℕ) : (o.map Int.ofNat).getD (0 : ℤ) = ((o.getD 0 : ℕ) : ℤ) := by
  cases o <;> rfl

theorem optInt_getD_nat (o : Option ℕ) (d : ℕ) : (o.map Int.ofNat).getD (d : ℤ) = ((o.getD d : ℕ) : ℤ) := by
  cases o <;> rfl

end cube

section yxt
variable {α : Type} [Field α] [LinearOrder α] [IsStrictOrderedRing α]

/-! ### the loop over the time steps -/

omit [LinearOrder α] [IsStrictOrderedRing α] in
theorem toList_eq_map_of_av' (y : Array α) (x : List α) (g : α → α) (hs : y.size = x.length)
    (h : ∀ j (hj : j < x.length), av y j = g x[j]) : y.toList = x.map g := by
  apply List.ext_getElem (by simpa using hs)
  intro j h1 h2
  have hj : j < x.length := by simpa using h2
  have := h j hj
  simp only [av] at this
  rw [Array.getD_eq_getD_getElem?, Array.getElem?_eq_getElem (by rw [hs]; exact hj)] at this
  simpa using this

/-- one cell of `s[ti] = min(max(s[ti]·1000, −32768), 32767)` on the cells that are not the sentinel -/
def scaleCell (nodata e : α) : α :=
  if eqv e nodata then e else minv (maxv (e * nat 1000) (-(nat 32768))) (nat 32767)

/-- after `k` passes: cells `< k` are scaled, the others untouched -/
structure ScaleInv (nodata : α) (R : List α) (k : ℕ) (s : Array α) : Prop where
  size : s.size = R.length
  get : ∀ j (hj : j < R.length), av s j = if j < k then scaleCell nodata R[j] else R[j]

omit [IsStrictOrderedRing α] in
theorem ScaleInv.init (nodata : α) (R : List α) : ScaleInv nodata R 0 R.toArray :=
  ⟨by simp, fun j hj => by simp [av, hj]⟩

theorem ScaleInv.step_skip {nodata : α} {R : List α} {k : ℕ} {s : Array α} {cur : ℤ}
    (h : ScaleInv nodata R k s) (hk : k < R.length) (hcur : cur = (k : ℤ))
    (hc : eqv (rd s cur) nodata = true) : ScaleInv nodata R (k + 1) s := by
  rw [rd_of_eq s cur k hcur, h.get k hk, if_neg (lt_irrefl k)] at hc
  refine ⟨h.size, fun j hj => ?_⟩
  rw [h.get j hj]
  by_cases hjk : j = k
  · subst hjk
    simp [scaleCell, hc]
  · by_cases hlt : j < k
    · simp [hlt, Nat.lt_succ_of_lt hlt]
    · have : ¬ j < k + 1 := by omega
      simp [hlt, this]

theorem ScaleInv.step_scale {nodata : α} {R : List α} {k : ℕ} {s : Array α} {cur : ℤ}
    (h : ScaleInv nodata R k s) (hk : k < R.length) (hcur : cur = (k : ℤ))
    (hc : ¬ eqv (rd s cur) nodata = true) :
    ScaleInv nodata R (k + 1)
      (wr s cur (minv (maxv (rd s cur * nat 1000) (-(nat 32768))) (nat 32767))) := by
  have hu := wr_upd (a0 := s) (v := minv (maxv (rd s cur * nat 1000) (-(nat 32768))) (nat 32767)) rfl k hcur
    (by rw [h.size]; exact hk)
  rw [rd_of_eq s cur k hcur, h.get k hk, if_neg (lt_irrefl k)] at hc hu ⊢
  refine ⟨hu.size.trans h.size, fun j hj => ?_⟩
  by_cases hjk : j = k
  · subst hjk
    rw [hu.self]
    simp [scaleCell, hc]
  · rw [hu.other j hjk, h.get j hj]
    by_cases hlt : j < k
    · simp [hlt, Nat.lt_succ_of_lt hlt]
    · have : ¬ j < k + 1 := by omega
      simp [hlt, this]

theorem ScaleInv.final {nodata : α} {R : List α} {k : ℕ} {s : Array α}
    (h : ScaleInv nodata R k s) (hk : R.length ≤ k) : s.toList = R.map (scaleCell nodata) :=
  toList_eq_map_of_av' s R _ h.size fun j hj => by rw [h.get j hj, if_pos (by omega)]

/-- scaled, saturated and rounded: the model's cells -/
theorem scaled_cells_yxt (rnd : α → α) (nodata : α) (m : List (Option α))
    (hnd : ∀ v, some v ∈ m → v ≠ nodata) (hrnd : rnd nodata = nodata) :
    ((m.map fun o => o.getD nodata).map (scaleCell nodata)).map rnd = m.map (grpCell rnd nodata) := by
  rw [List.map_map, List.map_map]
  apply List.map_congr_left
  intro o ho
  cases o with
  | none => simp [scaleCell, grpCell, spiCell, eqv_self, hrnd]
  | some v =>
    have : eqv v nodata = false := (Spi.eqv_false_iff v nodata).2 (hnd v ho)
    simp only [Function.comp, Option.getD_some, scaleCell, this, Bool.false_eq_true, if_false, grpCell, spiCell]
    rfl

/-! ### the loops over the pixels -/

/-- the model's series of pixel `(i, j)` -/
def pixModel (F : GamFns α) (x : List (List (List α))) (nodata : α) (cs ce : Option ℕ) (t i j : ℕ) :
    List (Option α) :=
  Hdc.gammastd F (xrow x i j) nodata (cs.getD 0) (ce.getD t)

omit [IsStrictOrderedRing α] in
theorem pixModel_length (F : GamFns α) (x : List (List (List α))) (nodata : α) (cs ce : Option ℕ) (t i j : ℕ) :
    (pixModel F x nodata cs ce t i j).length = (xrow x i j).length := Spi.gammastd_length _ _ _ _ _

/-- a pixel without a single non-sentinel cell: the model's series is all `nodata` -/
theorem pix_all_nodata (F : GamFns α) (rnd : α → α) (x : List (List (List α))) (nodata : α) (cs ce : Option ℕ)
    (t i j : ℕ) (hall : ((xrow x i j).filter fun e => !(eqv e nodata)).length = 0) :
    (pixModel F x nodata cs ce t i j).map (grpCell rnd nodata) = List.replicate (xrow x i j).length nodata := by
  unfold pixModel
  rw [gammastd_all_nodata F _ nodata _ _ hall, List.map_map]
  induction xrow x i j with
  | nil => rfl
  | cons a l ih => simp only [List.map_cons, List.length_cons, List.replicate_succ, ih]; rfl

/-- a result without a single non-sentinel cell: the model's cells are all `nodata` -/
theorem all_nodata_cells (rnd : α → α) (nodata : α) (m : List (Option α))
    (hnd : ∀ v, some v ∈ m → v ≠ nodata)
    (hall : ((m.map fun o => o.getD nodata).filter fun e => !(eqv e nodata)).length = 0) :
    m.map (grpCell rnd nodata) = List.replicate m.length nodata := by
  rw [← unscaled_cells rnd nodata m hnd hall, List.eq_replicate_iff]
  refine ⟨by simp, fun e he => ?_⟩
  by_contra hne
  have : e ∈ (m.map fun o => o.getD nodata).filter fun e => !(eqv e nodata) := by
    rw [List.mem_filter]
    exact ⟨he, by simp [(Spi.eqv_false_iff e nodata).2 hne]⟩
  rw [List.length_eq_zero_iff.1 hall] at this
  simp at this

/-- after the pixels before `(p, q)` (row-major): these hold the model's series, the others are still nodata -/
structure YInv (M : ℕ → ℕ → List α) (nodata : α) (r c t p q : ℕ) (y : Array (Array (Array α))) : Prop where
  size : y.size = r
  psize : ∀ i < r, (y.getD i #[]).size = c
  done : ∀ i j, i < r → j < c → (i < p ∨ (i = p ∧ j < q)) → (rowOf y i j).toList = M i j
  rest : ∀ i j, i < r → j < c → ¬ (i < p ∨ (i = p ∧ j < q)) → (rowOf y i j).toList = List.replicate t nodata

theorem YInv.init (M : ℕ → ℕ → List α) (nodata : α) (x : List (List (List α))) (c t : ℕ) (h : Rect x c t) :
    YInv M nodata x.length c t 0 0 (npFullLike3 (toArr3 x) nodata) := by
  refine ⟨size_npFullLike3 x nodata, fun i hi => ?_, fun i j _ _ h => by omega, fun i j hi hj _ => ?_⟩
  · rw [plane_size_npFullLike3, List.getD_eq_getElem?_getD, List.getElem?_eq_getElem hi, Option.getD_some]
    exact h.1 _ (List.getElem_mem hi)
  · rw [rowOf_npFullLike3, xrow_length x c t h i j hi hj]

/-- end of a plane -/
theorem YInv.next_plane {M : ℕ → ℕ → List α} {nodata : α} {r c t p q : ℕ} {y : Array (Array (Array α))}
    (h : YInv M nodata r c t p q y) (hq : c ≤ q) : YInv M nodata r c t (p + 1) 0 y :=
  ⟨h.size, h.psize, fun i j hi hj hd => h.done i j hi hj (by omega),
   fun i j hi hj hd => h.rest i j hi hj (by omega)⟩

/-- the pixel keeps its nodata row, which is the model's series -/
theorem YInv.step_keep {M : ℕ → ℕ → List α} {nodata : α} {r c t p q : ℕ} {y : Array (Array (Array α))}
    (h : YInv M nodata r c t p q y) (hp : p < r) (hq : q < c) (hM : M p q = List.replicate t nodata) :
    YInv M nodata r c t p (q + 1) y := by
  refine ⟨h.size, h.psize, fun i j hi hj hd => ?_, fun i j hi hj hd => h.rest i j hi hj (by omega)⟩
  by_cases hpq : i = p ∧ j = q
  · obtain ⟨rfl, rfl⟩ := hpq
    rw [h.rest i j hi hj (by omega), hM]
  · exact h.done i j hi hj (by omega)

/-- `y[p, q, :] = row` -/
theorem YInv.step_write {M : ℕ → ℕ → List α} {nodata : α} {r c t p q : ℕ} {y : Array (Array (Array α))}
    (h : YInv M nodata r c t p q y) (hp : p < r) (hq : q < c) (row : Array α) (hM : row.toList = M p q) :
    YInv M nodata r c t p (q + 1) (wr3 y (p : ℤ) (q : ℤ) row) := by
  have hps : p < y.size := by rw [h.size]; exact hp
  have hqs : q < (y.getD p #[]).size := by rw [h.psize p hp]; exact hq
  refine ⟨by rw [size_wr3, h.size], fun i hi => by rw [plane_size_wr3, h.psize i hi],
    fun i j hi hj hd => ?_, fun i j hi hj hd => ?_⟩
  · rw [rowOf_wr3 y p q row i j hps hqs]
    by_cases hpq : i = p ∧ j = q
    · obtain ⟨rfl, rfl⟩ := hpq
      simp [hM]
    · rw [if_neg hpq]
      exact h.done i j hi hj (by omega)
  · rw [rowOf_wr3 y p q row i j hps hqs, if_neg (by omega)]
    exact h.rest i j hi hj (by omega)

/-- `y[p, q, :] = nodata` on a pixel whose model series is all `nodata` -/
theorem YInv.step_fill {M : ℕ → ℕ → List α} {nodata : α} {r c t p q : ℕ} {y : Array (Array (Array α))}
    (h : YInv M nodata r c t p q y) (hp : p < r) (hq : q < c) (hM : M p q = List.replicate t nodata) :
    YInv M nodata r c t p (q + 1)
      (wr3 y (p : ℤ) (q : ℤ) ((rd3 y (p : ℤ) (q : ℤ)).map fun _ => nodata)) := by
  refine h.step_write hp hq _ ?_
  rw [rd3_nat, Array.toList_map, h.rest p q hp hq (by omega), hM]
  simp

theorem YInv.final {F : GamFns α} {rnd : α → α} {nodata : α} {x : List (List (List α))} {cs ce : Option ℕ}
    {c t p q : ℕ} {y : Array (Array (Array α))}
    (h : YInv (fun i j => (pixModel F x nodata cs ce t i j).map (grpCell rnd nodata)) nodata x.length c t p q y)
    (hr : Rect x c t) (hp : x.length ≤ p) :
    fromArr3 y = Hdc.gammastdYxt F rnd (-(nat 32768)) (nat 32767) (nat 1000) x nodata cs ce := by
  unfold fromArr3 Hdc.gammastdYxt
  apply List.ext_getElem (by simp [h.size])
  intro i h1 h2
  have hi : i < x.length := by simpa using h2
  have hxc : x[i].length = c := hr.1 _ (List.getElem_mem hi)
  have hys : y[i]'(by rw [h.size]; exact hi) = y.getD i #[] := by
    simp [Array.getD_eq_getD_getElem?, Array.getElem?_eq_getElem (show i < y.size by rw [h.size]; exact hi)]
  simp only [List.getElem_map, Array.getElem_toList]
  rw [hys]
  apply List.ext_getElem (by rw [List.length_map, List.length_map, Array.length_toList, h.psize i hi, hxc])
  intro j h3 h4
  have hj : j < c := by simpa [hxc] using h4
  have hd := h.done i j hi hj (by omega)
  have hjs : j < (y.getD i #[]).size := by rw [h.psize i hi]; exact hj
  simp only [List.getElem_map, Array.getElem_toList]
  have : (y.getD i #[])[j]'hjs = rowOf y i j := by
    unfold rowOf
    rw [Array.getD_eq_getD_getElem? (xs := y.getD i #[]), Array.getElem?_eq_getElem hjs, Option.getD_some]
  rw [this, hd]
  have ht : x[i][j].length = t := hr.2 _ (List.getElem_mem hi) _ (List.getElem_mem _)
  simp only [pixModel, xrow, List.getD_eq_getElem?_getD, List.getElem?_eq_getElem hi, Option.getD_some,
    List.getElem?_eq_getElem (show j < x[i].length by omega), grpCell, ht]

end yxt

end Hdc.GenNum
