import Hdc.Lemmas.GenNum
import Hdc.Lemmas.PyNpT
import Hdc.Model.Stats
import Mathlib.Algebra.Order.Field.Basic
import Mathlib.Algebra.Order.Ring.Rat
/-
Loop invariants for `Gen.NumKernels.mk_score` against the model `Hdc.mkCounts` / `Hdc.mkS` / `Hdc.mkTau` over a field
(the port of Hdc/Lemmas/GenKernelsMK.lean from `Int` to the carrier `α`).
`above x k q` / `below x k q`: what the inner loop has counted for row `k` after `q` iterations;
`preA x p` / `preB x p`: what the outer loop has counted after `p` rows.
-/
namespace Hdc.GenNumMk
open Hdc Hdc.PyNpT
open Hdc.Ws2d (fnl)

set_option linter.unusedSectionVars false

variable {α : Type} [Field α] [LinearOrder α]

/-- number of `v` among `x[k+1 .. k+1+q)` with `x[k] < v` -/
def above (x : List α) (k q : ℕ) : ℕ :=
  (((x.drop (k + 1)).take q).filter fun v => decide (fnl x k < v)).length

/-- number of `v` among `x[k+1 .. k+1+q)` with `v < x[k]` -/
def below (x : List α) (k q : ℕ) : ℕ :=
  (((x.drop (k + 1)).take q).filter fun v => decide (v < fnl x k)).length

def preA (x : List α) : ℕ → ℕ
  | 0 => 0
  | p + 1 => preA x p + above x p (x.length - (p + 1))

def preB (x : List α) : ℕ → ℕ
  | 0 => 0
  | p + 1 => preB x p + below x p (x.length - (p + 1))

@[simp] theorem above_zero (x : List α) (k : ℕ) : above x k 0 = 0 := by simp [above]
@[simp] theorem below_zero (x : List α) (k : ℕ) : below x k 0 = 0 := by simp [below]

theorem take_succ_drop (x : List α) (k q : ℕ) (h : k + 1 + q < x.length) :
    (x.drop (k + 1)).take (q + 1) = (x.drop (k + 1)).take q ++ [fnl x (k + 1 + q)] := by
  rw [List.take_add_one, List.getElem?_drop, List.getElem?_eq_getElem h, fnl_eq_getElem x _ h]
  rfl

theorem above_succ (x : List α) (k q : ℕ) (h : k + 1 + q < x.length) :
    above x k (q + 1) = above x k q + if fnl x k < fnl x (k + 1 + q) then 1 else 0 := by
  unfold above
  rw [take_succ_drop x k q h, List.filter_append, List.length_append]
  by_cases hc : fnl x k < fnl x (k + 1 + q) <;> simp [hc]

theorem below_succ (x : List α) (k q : ℕ) (h : k + 1 + q < x.length) :
    below x k (q + 1) = below x k q + if fnl x (k + 1 + q) < fnl x k then 1 else 0 := by
  unfold below
  rw [take_succ_drop x k q h, List.filter_append, List.length_append]
  by_cases hc : fnl x (k + 1 + q) < fnl x k <;> simp [hc]

/-- one iteration of the inner loop, at position `j = k + 1 + q` -/
theorem above_step (x : List α) (k q j : ℕ) (hj : j = k + 1 + q) (h : j < x.length) :
    (above x k (q + 1) : ℤ) = above x k q + if fnl x k < fnl x j then 1 else 0 := by
  subst hj
  rw [above_succ x k q h]
  split <;> simp

theorem below_step (x : List α) (k q j : ℕ) (hj : j = k + 1 + q) (h : j < x.length) :
    (below x k (q + 1) : ℤ) = below x k q + if fnl x j < fnl x k then 1 else 0 := by
  subst hj
  rw [below_succ x k q h]
  split <;> simp

theorem mkCounts_drop (x : List α) (p : ℕ) (h : p < x.length) :
    mkCounts (x.drop p) = ((mkCounts (x.drop (p + 1))).1 + above x p (x.length - (p + 1)),
      (mkCounts (x.drop (p + 1))).2 + below x p (x.length - (p + 1))) := by
  have ht : (x.drop (p + 1)).take (x.length - (p + 1)) = x.drop (p + 1) :=
    List.take_of_length_le (by simp)
  rw [List.drop_eq_getElem_cons h]
  simp only [above, below, ht, fnl_eq_getElem x p h]
  rfl

theorem pre_add_mkCounts (x : List α) (p : ℕ) (h : p ≤ x.length) :
    preA x p + (mkCounts (x.drop p)).1 = (mkCounts x).1 ∧
    preB x p + (mkCounts (x.drop p)).2 = (mkCounts x).2 := by
  induction p with
  | zero => simp [preA, preB]
  | succ p ih =>
    have ih := ih (by omega)
    rw [mkCounts_drop x p (by omega)] at ih
    simp only [preA, preB]
    omega

/-- the outer loop stops one row early: the last row has no partner -/
theorem mkCounts_eq_pre (x : List α) :
    mkCounts x = (preA x (x.length - 1), preB x (x.length - 1)) := by
  have h := pre_add_mkCounts x (x.length - 1) (by omega)
  have h0 : mkCounts (x.drop (x.length - 1)) = (0, 0) := by
    rcases Nat.eq_zero_or_pos x.length with h0 | h0
    · rw [List.length_eq_zero_iff.mp h0]; rfl
    · rw [List.drop_eq_getElem_cons (by omega)]
      have : x.drop (x.length - 1 + 1) = [] := List.drop_eq_nil_of_le (by omega)
      rw [this]; rfl
  rw [h0] at h
  ext <;> simp only <;> omega

theorem not_both {a b : α} (h1 : a < b) (h2 : b < a) : False := lt_asymm h1 h2

/-- the closing lines `s = _s1 - _s2; tau = s / (0.5 * n * (n - 1))` with the model's conversions -/
theorem tau_eq (F : MKFns α) (hof : ∀ k : ℕ, F.ofInt (k : ℤ) = (k : α)) (x : List α) :
    F.ofInt (mkS x) / ((F.half * F.ofInt (x.length : ℤ)) * F.ofInt ((x.length : ℤ) - 1))
      = mkTau F.half x F.ofInt := by
  unfold mkTau
  rw [hof x.length]
  rcases Nat.eq_zero_or_pos x.length with h0 | h0
  · simp [h0, nat]
  · have h1 : ((x.length : ℤ) - 1) = ((x.length - 1 : ℕ) : ℤ) := by omega
    rw [h1, hof (x.length - 1)]

end Hdc.GenNumMk
