import Hdc.Model.Bounds
/-
Helper lemmas for C14 (index safety): membership characterisations of the integer ranges used by the
traces, and the unfolding of `Acc.inBounds`.
-/
namespace Hdc.Bounds

theorem mem_rangeI {a b x : Int} : x ∈ rangeI a b ↔ a ≤ x ∧ x < b := by
  simp only [rangeI, List.mem_map, List.mem_range]
  constructor
  · rintro ⟨k, hk, rfl⟩
    simp only [Int.ofNat_eq_natCast]
    omega
  · rintro ⟨h1, h2⟩
    refine ⟨(x - a).toNat, ?_, ?_⟩
    · omega
    · simp only [Int.ofNat_eq_natCast]; omega

theorem mem_upto {n : Nat} {x : Int} : x ∈ upto n ↔ 0 ≤ x ∧ x < n := by
  simp only [upto, List.mem_map, List.mem_range]
  constructor
  · rintro ⟨k, hk, rfl⟩
    simp only [Int.ofNat_eq_natCast]
    omega
  · rintro ⟨h1, h2⟩
    refine ⟨x.toNat, ?_, ?_⟩
    · omega
    · simp only [Int.ofNat_eq_natCast]; omega

theorem mem_rangeDown {a b x : Int} : x ∈ rangeDown a b ↔ b < x ∧ x ≤ a := by
  simp only [rangeDown, List.mem_map, List.mem_range]
  constructor
  · rintro ⟨k, hk, rfl⟩
    simp only [Int.ofNat_eq_natCast]
    omega
  · rintro ⟨h1, h2⟩
    refine ⟨(a - x).toNat, ?_, ?_⟩
    · omega
    · simp only [Int.ofNat_eq_natCast]; omega

theorem inBounds_iff (a : Acc) : a.inBounds = true ↔ -(a.len : Int) ≤ a.idx ∧ a.idx < (a.len : Int) := by
  simp [Acc.inBounds]

theorem rd_inBounds {s : String} {i : Int} {n : Nat} : (rd s i n).inBounds = true ↔ -(n : Int) ≤ i ∧ i < n := by
  simp only [Acc.inBounds, rd]; exact decide_eq_true_iff

theorem wr_inBounds {s : String} {i : Int} {n : Nat} : (wr s i n).inBounds = true ↔ -(n : Int) ≤ i ∧ i < n := by
  simp only [Acc.inBounds, wr]; exact decide_eq_true_iff


theorem cell_wr_nat (s : String) (i n : Nat) : (wr s (i : Int) n).cell = i := by
  have : ¬ ((i : Int) < 0) := by omega
  simp only [Acc.cell, wr, this, if_false]

theorem cell_of_nonneg (s : String) (i : Int) (n : Nat) (w : Bool) (h : 0 ≤ i) : (Acc.mk s i n w).cell = i := by
  have : ¬ (i < 0) := by omega
  simp only [Acc.cell, this, if_false]

theorem mem_written {t : List Acc} {a : String} {x : Int} :
    x ∈ written t a ↔ ∃ acc ∈ t, acc.write = true ∧ acc.arr = a ∧ acc.cell = x := by
  simp only [written, List.mem_map, List.mem_filter, decide_eq_true_eq]
  constructor
  · rintro ⟨acc, ⟨h1, h2, h3⟩, h4⟩; exact ⟨acc, h1, h2, h3, h4⟩
  · rintro ⟨acc, h1, h2, h3, h4⟩; exact ⟨acc, ⟨h1, h2, h3⟩, h4⟩

theorem written_append (s t : List Acc) (a : String) : written (s ++ t) a = written s a ++ written t a := by
  simp [written]

theorem written_nil (a : String) : written [] a = [] := rfl

end Hdc.Bounds
