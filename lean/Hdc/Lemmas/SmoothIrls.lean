import Hdc.Lemmas.SmoothMasked
/-
The asymmetric re-weighting loop `irls`: the sequence of iterates, where the loop stops, and
what it returns.
-/
namespace Hdc.Smooth
open Hdc Hdc.C01

set_option linter.unusedSectionVars false

variable {α : Type} [Field α] [LinearOrder α] [IsStrictOrderedRing α]

/-! ### `l1dist` -/

theorem l1dist_eq_sum (a b : List α) :
    l1dist a b = (List.zipWith (fun x y => |x - y|) a b).sum := by
  unfold l1dist
  rw [foldl_add_eq, nat_zero, zero_add]
  have : (fun x y : α => absv (x - y)) = fun x y => |x - y| := by
    funext x y; exact absv_eq _
  rw [this]

theorem l1dist_cons (x y : α) (a b : List α) : l1dist (x :: a) (y :: b) = |x - y| + l1dist a b := by
  simp [l1dist_eq_sum]

theorem l1dist_nonneg (a b : List α) : 0 ≤ l1dist a b := by
  induction a generalizing b with
  | nil => simp [l1dist_eq_sum]
  | cons x xs ih =>
    cases b with
    | nil => simp [l1dist_eq_sum]
    | cons y ys =>
      rw [l1dist_cons]
      have := ih ys
      have := abs_nonneg (x - y)
      linarith

theorem l1dist_eq_zero_iff (a b : List α) (h : a.length = b.length) : l1dist a b = 0 ↔ a = b := by
  induction a generalizing b with
  | nil =>
    have : b = [] := List.length_eq_zero_iff.1 (by simpa using h.symm)
    subst this; simp [l1dist_eq_sum]
  | cons x xs ih =>
    cases b with
    | nil => simp at h
    | cons y ys =>
      rw [l1dist_cons]
      have h1 := abs_nonneg (x - y)
      have h2 := l1dist_nonneg xs ys
      constructor
      · intro h0
        have e1 : |x - y| = 0 := by linarith
        have e2 : l1dist xs ys = 0 := by linarith
        rw [abs_eq_zero, sub_eq_zero] at e1
        rw [ih ys (by simpa using h)] at e2
        rw [e1, e2]
      · intro he
        simp only [List.cons.injEq] at he
        rw [he.1, (ih ys (by simpa using h)).2 he.2]; simp

theorem l1dist_self (a : List α) : l1dist a a = 0 := (l1dist_eq_zero_iff a a rfl).2 rfl

/-! ### the iteration -/

/-- the re-weighted weights for the current curve -/
def rewt (y w : List α) (p : α) (z : List α) : List α := asymW p w y z

/-- one pass: re-weight, then re-fit -/
def pass (y w : List α) (lam p : α) (z : List α) : List α := ws2d y lam (asymW p w y z)

/-- the sequence of curves of the re-weighting iteration started from `z0` -/
def iter (y w : List α) (lam p : α) (z0 : List α) : ℕ → List α
  | 0 => z0
  | j + 1 => pass y w lam p (iter y w lam p z0 j)

theorem iter_succ' (y w : List α) (lam p : α) (z0 : List α) (j : ℕ) :
    iter y w lam p z0 (j + 1) = iter y w lam p (pass y w lam p z0) j := by
  induction j with
  | zero => rfl
  | succ j ih => rw [iter, ih]; rfl

theorem pass_length (y w : List α) (lam p : α) (z : List α) (hw : w.length = y.length)
    (hz : z.length = y.length) : (pass y w lam p z).length = y.length := by
  unfold pass
  rw [ws2d_length _ _ _ (by simp [hw, hz])]

theorem iter_length (y w : List α) (lam p : α) (z0 : List α) (hw : w.length = y.length)
    (hz : z0.length = y.length) (j : ℕ) : (iter y w lam p z0 j).length = y.length := by
  induction j with
  | zero => exact hz
  | succ j ih => exact pass_length y w lam p _ hw ih

theorem irls_succ (y w : List α) (lam p : α) (k : ℕ) (z ww : List α) :
    irls y w lam p (k + 1) z ww =
      if eqv (l1dist (pass y w lam p z) z) (nat 0) then (z, asymW p w y z)
      else irls y w lam p k (pass y w lam p z) (asymW p w y z) := rfl

theorem irls_succ_of_eq (y w : List α) (lam p : α) (k : ℕ) (z ww : List α)
    (hw : w.length = y.length) (hz : z.length = y.length) (h : pass y w lam p z = z) :
    irls y w lam p (k + 1) z ww = (z, asymW p w y z) := by
  rw [irls_succ, if_pos]
  rw [eqv_iff, nat_zero, l1dist_eq_zero_iff _ _ (by rw [pass_length y w lam p z hw hz, hz])]
  exact h

theorem irls_succ_of_ne (y w : List α) (lam p : α) (k : ℕ) (z ww : List α)
    (hw : w.length = y.length) (hz : z.length = y.length) (h : pass y w lam p z ≠ z) :
    irls y w lam p (k + 1) z ww = irls y w lam p k (pass y w lam p z) (asymW p w y z) := by
  rw [irls_succ, if_neg]
  rw [eqv_iff, nat_zero, l1dist_eq_zero_iff _ _ (by rw [pass_length y w lam p z hw hz, hz])]
  exact h

/-- What the loop returns after at most `k ≥ 1` passes from `z0`: there is a pass index
    `j < k` (the last pass executed) such that no earlier pass reproduced its input, the
    returned weights are those computed from `iter j`, and either pass `j` reproduced
    `iter j` (early stop, `iter j` is returned) or the fuel ran out (`j + 1 = k`, the new
    curve `iter k` is returned). -/
theorem irls_spec (y w : List α) (lam p : α) (hw : w.length = y.length) (k : ℕ) (z0 ww0 : List α)
    (hz : z0.length = y.length) :
    ∃ j, j < k + 1 ∧ (∀ i < j, iter y w lam p z0 (i + 1) ≠ iter y w lam p z0 i) ∧
      (irls y w lam p (k + 1) z0 ww0).2 = asymW p w y (iter y w lam p z0 j) ∧
      ((iter y w lam p z0 (j + 1) = iter y w lam p z0 j ∧
          (irls y w lam p (k + 1) z0 ww0).1 = iter y w lam p z0 j) ∨
        (j = k ∧ iter y w lam p z0 (j + 1) ≠ iter y w lam p z0 j ∧
          (irls y w lam p (k + 1) z0 ww0).1 = iter y w lam p z0 (k + 1))) := by
  induction k generalizing z0 ww0 with
  | zero =>
    refine ⟨0, by omega, fun i hi => absurd hi (by omega), ?_⟩
    by_cases h : pass y w lam p z0 = z0
    · rw [irls_succ_of_eq y w lam p 0 z0 ww0 hw hz h]
      exact ⟨rfl, Or.inl ⟨h, rfl⟩⟩
    · rw [irls_succ_of_ne y w lam p 0 z0 ww0 hw hz h]
      exact ⟨rfl, Or.inr ⟨rfl, h, rfl⟩⟩
  | succ k ih =>
    by_cases h : pass y w lam p z0 = z0
    · rw [irls_succ_of_eq y w lam p (k + 1) z0 ww0 hw hz h]
      exact ⟨0, by omega, fun i hi => absurd hi (by omega), rfl, Or.inl ⟨h, rfl⟩⟩
    · rw [irls_succ_of_ne y w lam p (k + 1) z0 ww0 hw hz h]
      obtain ⟨j, hj, hne, h2, h3⟩ :=
        ih (pass y w lam p z0) (asymW p w y z0) (pass_length y w lam p z0 hw hz)
      refine ⟨j + 1, by omega, ?_, ?_, ?_⟩
      · intro i hi
        cases i with
        | zero => exact h
        | succ i =>
          rw [iter_succ' y w lam p z0 (i + 1), iter_succ' y w lam p z0 i]
          exact hne i (by omega)
      · rw [iter_succ' y w lam p z0 j]; exact h2
      · rw [iter_succ' y w lam p z0 (j + 1), iter_succ' y w lam p z0 j,
          iter_succ' y w lam p z0 (k + 1)]
        rcases h3 with ⟨a, b⟩ | ⟨a, b, c⟩
        · exact Or.inl ⟨a, b⟩
        · exact Or.inr ⟨by omega, b, c⟩

/-- the pass that produced the returned weights reproduces the returned curve: the final
    `ws2d` of every asymmetric kernel recomputes the curve the loop ended with -/
theorem irls_reproduces (y w : List α) (lam p : α) (hw : w.length = y.length) (k : ℕ)
    (z0 ww0 : List α) (hz : z0.length = y.length) :
    ws2d y lam (irls y w lam p (k + 1) z0 ww0).2 = (irls y w lam p (k + 1) z0 ww0).1 := by
  obtain ⟨j, _, _, h2, h3⟩ := irls_spec y w lam p hw k z0 ww0 hz
  rw [h2]
  rcases h3 with ⟨a, b⟩ | ⟨a, _, c⟩
  · rw [b]; exact a
  · rw [c, a]; rfl

theorem irls_snd_length (y w : List α) (lam p : α) (hw : w.length = y.length) (k : ℕ)
    (z0 ww0 : List α) (hz : z0.length = y.length) :
    (irls y w lam p (k + 1) z0 ww0).2.length = y.length := by
  obtain ⟨j, _, _, h2, _⟩ := irls_spec y w lam p hw k z0 ww0 hz
  rw [h2, asymW_length, hw, iter_length y w lam p z0 hw hz]; simp

theorem irls_fst_length (y w : List α) (lam p : α) (hw : w.length = y.length) (k : ℕ)
    (z0 ww0 : List α) (hz : z0.length = y.length) :
    (irls y w lam p (k + 1) z0 ww0).1.length = y.length := by
  rw [← irls_reproduces y w lam p hw k z0 ww0 hz,
    ws2d_length _ _ _ (irls_snd_length y w lam p hw k z0 ww0 hz)]

theorem expectile_length (y w : List α) (lam p : α) (hw : w.length = y.length) :
    (expectile y w lam p).length = y.length := by
  unfold expectile
  rw [ws2d_length _ _ _ (irls_snd_length y w lam p hw 9 _ _ (by simp))]

end Hdc.Smooth
