import Hdc.Lemmas.SafeBase
import Hdc.Lemmas.PyNpT
import Mathlib.Tactic.Linarith
/-
Sizes of the arrays the NumPy combinators of Hdc/PyNpT.lean produce, and the bounds of the row-major positions `flat2` /
`flat3`, as the `safe_<kernel>_ok` proofs of the grouped / zonal means need them.  Kernel independent.
-/
namespace Hdc.SafeLemmas
open Hdc.PyNpT

@[simp] theorem size_npEqMask (a : Array Int) (k : Int) : (npEqMask a k).size = a.size := by
  simp [npEqMask]

@[simp] theorem size_npFull {γ : Type} (n : Int) (v : γ) : (npFull n v).size = n.toNat := by
  simp [npFull]

/-- an index inside its axis (no wrap) -/
theorem ax_of_nonneg (n i : Int) (h : 0 ≤ i) : ax n i = i := by
  have : ¬ i < 0 := by omega
  simp [ax, this]

/-- `a[i, j]` with both indices inside their axes lies inside the `d0 * d1` cells -/
theorem flat2_bound (d0 d1 i j : Int) (hi : 0 ≤ i) (hi' : i < d0) (hj : 0 ≤ j) (hj' : j < d1) :
    0 ≤ flat2 d0 d1 i j ∧ flat2 d0 d1 i j < d0 * d1 := by
  simp only [flat2, ax_of_nonneg _ _ hi, ax_of_nonneg _ _ hj]
  constructor
  · nlinarith
  · nlinarith

/-- `a[i, j, k]` with the three indices inside their axes lies inside the `d0 * d1 * d2` cells -/
theorem flat3_bound (d0 d1 d2 i j k : Int) (hi : 0 ≤ i) (hi' : i < d0) (hj : 0 ≤ j) (hj' : j < d1)
    (hk : 0 ≤ k) (hk' : k < d2) :
    0 ≤ flat3 d0 d1 d2 i j k ∧ flat3 d0 d1 d2 i j k < d0 * d1 * d2 := by
  obtain ⟨h1, h2⟩ := flat2_bound d0 d1 i j hi hi' hj hj'
  simp only [flat2, ax_of_nonneg _ _ hi, ax_of_nonneg _ _ hj] at h1 h2
  simp only [flat3, ax_of_nonneg _ _ hi, ax_of_nonneg _ _ hj, ax_of_nonneg _ _ hk]
  constructor
  · nlinarith
  · nlinarith

end Hdc.SafeLemmas
