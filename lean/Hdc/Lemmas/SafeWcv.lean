import Hdc.Lemmas.GenNumWcvTac
import Hdc.Lemmas.SafeOptv
import Hdc.PySafeW
/-
SafeWcv  Facts for "under the contract the flag of the instrumented `ws2dwcv` is false" (Hdc/Props/SafeWs2dwcv.lean):
the quantities of the source the contract talks about (`wOf`, `yOf`, `dOf`, `trOf`, `scoreOf`: the NumPy expressions of the
kernel, written with the combinators of Hdc/PyNpW.lean), sizes of the NumPy combinators, the bookkeeping of the λ sweep
(`SweepS`: the running best `gcv_temp` is a pair whose λ is positive as soon as one score was below `big`), and the calls of
the smoother with the validity weights.
-/
namespace Hdc.SafeWcv
open Hdc Hdc.Gen.NumKernels Hdc.PyNpW Hdc.GenNum Hdc.SafeL

set_option linter.unusedSectionVars false
set_option linter.unusedVariables false

section defs
variable {α : Type} [Add α] [Sub α] [Mul α] [Div α] [Neg α] [NatCast α] [LT α] [DecidableLT α]

/-- `w = 1 - np.array([(x == nodata) or np.isnan(x) or np.isinf(x) for x in y], dtype=float64)` -/
def wOf (nodata : α) (isnan isinf : α → Bool) (y : Array α) : Array α :=
  npMap (fun e => nat 1 - e) (npMap (fun (b : Bool) => if b then (nat 1 : α) else (nat 0 : α))
    (npMap (fun x => (eqv x nodata || isnan x || isinf x)) y))

/-- `y = np.where(w == 0, 0.0, y)` -/
def yOf (w y : Array α) : Array α := npWhereSA (npMap (fun e => eqv e (nat 0)) w) (nat 0) y

/-- `gamma.sum()` with `gamma = w / (w + s * ((-1 * d_eigs) ** 2))` -/
def trOf (w de : Array α) (s : α) : α :=
  npSum (npMap2 (fun a b => a / b) w (npMap2 (fun a b => a + b) w
    (npMap (fun e => s * e) (npMap (fun e => e * e) (npMap (fun e => (-(nat 1)) * e) de)))))

/-- the GCV score of the smoothing parameter `s`:
    `(((w**0.5) * (y - z)) ** 2).sum() / (w.sum() * (1 - gamma.sum() / w.sum()) ** 2)` with `z = ws2d(y, s, w)` -/
def scoreOf (G : GFns α) (y w de : Array α) (s : α) : α :=
  npSum (npMap (fun e => e * e) (npMap2 (fun a b => a * b) (npMap (fun e => G.sqrtw e) w)
      (npMap2 (fun a b => a - b) y (Gen.Ws2d.ws2d y s w))))
    / (npSum w * ((nat 1 - trOf w de s / npSum w) * (nat 1 - trOf w de s / npSum w)))

end defs

/-- `d_eigs = -2 + 2 * np.cos(np.arange(m) * np.pi / m); d_eigs[0] = 1e-15` -/
def dOf {α : Type} [Add α] [Mul α] [Div α] [Neg α] [NatCast α] [IntCast α] (G : GFns α) (cos : α → α) (pi : α) (m : ℤ) :
    Array α :=
  wr (npMap (fun e => (-(nat 2)) + e) (npMap (fun e => (nat 2) * e) (npMap (fun e => cos e)
    (npMap (fun e => e / ((m : ℤ) : α)) (npMap (fun e => e * pi) (npMap (fun (e : ℤ) => ((e : ℤ) : α)) (npArange m))))))) 0 G.eig0

/-! ### sizes -/
section sizes
variable {β γ δ : Type}

@[simp] theorem size_npArange (m : ℤ) : (npArange m).size = m.toNat := by simp [npArange]

end sizes

variable {α : Type} [Field α] [LinearOrder α] [IsStrictOrderedRing α]

theorem size_wOf (nodata : α) (isnan isinf : α → Bool) (y : Array α) : (wOf nodata isnan isinf y).size = y.size := by
  simp [wOf]

theorem size_dOf (G : GFns α) (cos : α → α) (pi : α) (m : ℤ) : (dOf G cos pi m).size = m.toNat := by
  simp [dOf]

theorem wOf_eq (nodata : α) (isnan isinf : α → Bool) (y : List α) :
    wOf nodata isnan isinf y.toArray = (weightsOf (missG nodata isnan isinf) y).toArray := by
  apply Array.toList_inj.1
  simp only [wOf, toList_npMap, List.toList_toArray]
  exact weights_np _ y

/-- `w_temp = w * r_weights` with `r_weights = np.ones(m)` -/
theorem mul_ones (w : Array α) (k : ℕ) (hk : k = w.size) :
    npMap2 (fun a b => a * b) w (Array.replicate k (nat 1)) = w := by
  subst hk
  apply Array.ext
  · simp
  · intro i h1 h2
    simp [npMap2, nat]

theorem npSum_wOf (nodata : α) (isnan isinf : α → Bool) (y : List α) :
    npSum (wOf nodata isnan isinf y.toArray) = (countValid (missG nodata isnan isinf) y : α) := by
  rw [wOf_eq, npSum_toArray, sumF_weightsOf]

/-! ### the NumPy expressions of the source, folded -/

theorem wOf_fold (nodata : α) (isnan isinf : α → Bool) (y : Array α) :
    npMap (fun e2 => nat 1 - e2) (npMap (fun (e1 : Bool) => if e1 then (nat 1 : α) else (nat 0 : α))
      (npMap (fun x => (eqv x nodata || isnan x || isinf x)) y)) = wOf nodata isnan isinf y := rfl

theorem dOf_fold (G : GFns α) (cos : α → α) (pi : α) (y : List α) :
    wr (npMap (fun e => (-(nat 2)) + e) (npMap (fun e => (nat 2) * e) (npMap (fun e => cos e)
      (npMap (fun e => e / (((y.toArray.size : ℤ) : ℤ) : α)) (npMap (fun e => e * pi)
        (npMap (fun (e : ℤ) => ((e : ℤ) : α)) (npArange (y.toArray.size : ℤ)))))))) 0 G.eig0
      = dOf G cos pi (y.length : ℤ) := rfl

theorem yOf_fold (w y : Array α) :
    npWhereSA (npMap (fun e => eqv e (nat 0)) w) (nat 0) y = yOf w y := rfl

theorem trOf_fold (w de : Array α) (s : α) :
    npSum (npMap2 (fun a b => a / b) w (npMap2 (fun a b => a + b) w
      (npMap (fun e => s * e) (npMap (fun e => e * e) (npMap (fun e => (-(nat 1)) * e) de))))) = trOf w de s := rfl

theorem scoreOf_fold (G : GFns α) (y w de : Array α) (s : α) :
    npSum (npMap (fun e => e * e) (npMap2 (fun a b => a * b) (npMap (fun e => G.sqrtw e) w)
        (npMap2 (fun a b => a - b) y (Gen.Ws2d.ws2d y s w))))
      / (npSum w * ((nat 1 - trOf w de s / npSum w) * (nat 1 - trOf w de s / npSum w))) = scoreOf G y w de s := rfl

theorem size_wOf' (nodata : α) (isnan isinf : α → Bool) (y : List α) :
    (wOf nodata isnan isinf y.toArray).size = y.length := by rw [size_wOf]; simp

theorem size_dOf' (G : GFns α) (cos : α → α) (pi : α) (n : ℕ) : (dOf G cos pi (n : ℤ)).size = n := by
  rw [size_dOf]; simp

theorem size_yOf' (nodata : α) (isnan isinf : α → Bool) (y : List α) :
    (yOf (wOf nodata isnan isinf y.toArray) y.toArray).size = y.length := by
  simp [yOf, size_wOf']

theorem wtemp_eq (nodata : α) (isnan isinf : α → Bool) (y : List α) :
    npMap2 (fun a b => a * b) (wOf nodata isnan isinf y.toArray) (Array.replicate y.length (nat 1))
      = wOf nodata isnan isinf y.toArray := mul_ones _ _ (size_wOf' _ _ _ _).symm

theorem four_lt (nodata : α) (isnan isinf : α → Bool) (y : List α) :
    (nat 4 : α) < npSum (wOf nodata isnan isinf y.toArray) ↔ 4 < countValid (missG nodata isnan isinf) y := by
  rw [wOf_eq, npSum_toArray]; exact four_lt_n_iff _ _

theorem neg_size_false (n : ℕ) : decide ((n : ℤ) < 0) = false := by simp

theorem oob_pair {β : Type} (a b : β) (i : ℤ) (h : -2 ≤ i ∧ i < 2) : oob #[a, b].size i = false :=
  oob_false 2 i (by simpa using h)

theorem oob_single {β : Type} (a : β) : oob #[a].size 0 = false := oob_false 1 0 (by simp)

theorem rdA_single {β : Type} (g : Array β) : rdA #[g] 0 = g := by simp [rdA, ix]

theorem push_empty {β : Type} (g : β) : (#[] : Array β).push g = #[g] := rfl

theorem mem_of_split {β : Type} {l pre suf : List β} {c : β} (h : l = pre ++ c :: suf) : c ∈ l := by
  rw [h]; simp

/-- every call `ws2d(y', λ, w)` with the validity weights of `y`, data of the same length and a positive `λ` is safe -/
theorem call_ok (nodata : α) (isnan isinf : α → Bool) (y : List α) (yc : Array α) (lam : α) (hyc : yc.size = y.length)
    (h3 : 3 ≤ y.length) (hlam : 0 < lam) (hv : 2 ≤ countValid (missG nodata isnan isinf) y) :
    (Gen.Safe.ws2d yc lam (wOf nodata isnan isinf y.toArray)).2 = false := by
  have c := SafeOptv.contract_raw (missG nodata isnan isinf) y lam h3 hlam hv
  have h := SafeWs2d.safe_ws2d_ok yc.toList (weightsOf (missG nodata isnan isinf) y) lam
    ⟨by simpa [hyc] using h3, by simp [hyc], hlam, c.w_nonneg, c.two_pos⟩
  rw [wOf_eq]
  simpa using h

/-! ### the λ sweep: `gcv_temp` -/

/-- the running best of the sweep after the grid values `pre`: a pair `[score, λ]`; its `λ` is positive, or no score
    has been below `big` so far (then the pair is still the initial `[big, 0]`) -/
structure SweepS (big : α) (sc : α → α) (pre : List α) (gt : Array α) : Prop where
  size : gt.size = 2
  best : 0 < rd gt 1 ∨ (rd gt 0 = big ∧ ∀ s ∈ pre, ¬ sc s < big)

theorem SweepS.init (big : α) (sc : α → α) : SweepS big sc [] #[big, nat 0] :=
  ⟨rfl, Or.inr ⟨rd_pair_zero _ _, by simp⟩⟩

theorem SweepS.step_lt {big : α} {sc : α → α} {pre : List α} {gt : Array α} (h : SweepS big sc pre gt) (v s : α)
    (hs : 0 < s) : SweepS big sc (pre ++ [s]) #[v, s] :=
  ⟨rfl, Or.inl (by rw [rd_pair_one]; exact hs)⟩

theorem SweepS.step_ge {big : α} {sc : α → α} {pre : List α} {gt : Array α} (h : SweepS big sc pre gt) (s : α)
    (hge : ¬ sc s < rd gt 0) : SweepS big sc (pre ++ [s]) gt := by
  refine ⟨h.size, ?_⟩
  rcases h.best with h1 | ⟨h0, hall⟩
  · exact Or.inl h1
  · refine Or.inr ⟨h0, ?_⟩
    intro t ht
    rcases List.mem_append.1 ht with ht | ht
    · exact hall t ht
    · obtain rfl : t = s := by simpa using ht
      rwa [h0] at hge

theorem SweepS.pos {big : α} {sc : α → α} {l : List α} {gt : Array α} (h : SweepS big sc l gt)
    (hex : ∃ s ∈ l, sc s < big) : 0 < rd gt 1 := by
  rcases h.best with h1 | ⟨_, hall⟩
  · exact h1
  · obtain ⟨s, hs, hlt⟩ := hex
    exact absurd hlt (hall s hs)

/-- the divisor of the GCV score -/
theorem den_ne (S t : α) (hS : S ≠ 0) (ht : t ≠ S) : S * ((nat 1 - t / S) * (nat 1 - t / S)) ≠ 0 := by
  have h1 : (nat 1 : α) - t / S ≠ 0 := by
    rw [nat, Nat.cast_one, sub_ne_zero]
    intro h
    apply ht
    field_simp at h
    exact h.symm
  exact mul_ne_zero hS (mul_ne_zero h1 h1)

end Hdc.SafeWcv
