import Hdc.Model.Stats
import Hdc.Model.Discrete
import Mathlib.Algebra.Order.Field.Basic
import Mathlib.Algebra.Order.Ring.Abs
import Mathlib.Algebra.BigOperators.Group.List.Basic
import Mathlib.Tactic.Ring
import Mathlib.Tactic.Linarith
/-
Bridge lemmas between the carrier-polymorphic kernels (`nat`, `eqv`, `absv`, `sumF`) and the
usual notions of a linearly ordered field, and structural facts about `gammastd` that hold on
every carrier (length, shape of the result).
-/
set_option linter.unusedSectionVars false
set_option linter.unusedSimpArgs false
namespace Hdc.Spi

section bridge
variable {α : Type} [Field α] [LinearOrder α] [IsStrictOrderedRing α]

theorem nat_eq (k : ℕ) : (nat k : α) = (k : α) := rfl

@[simp] theorem nat_zero : (nat 0 : α) = 0 := by simp [nat]
@[simp] theorem nat_one : (nat 1 : α) = 1 := by simp [nat]

theorem eqv_iff (a b : α) : eqv a b = true ↔ a = b := by
  unfold eqv
  simp only [Bool.and_eq_true, Bool.not_eq_true', decide_eq_false_iff_not, not_lt]
  constructor
  · rintro ⟨h1, h2⟩; exact le_antisymm h2 h1
  · rintro rfl; exact ⟨le_refl _, le_refl _⟩

theorem eqv_false_iff (a b : α) : eqv a b = false ↔ a ≠ b := by
  rw [Ne, ← eqv_iff a b]; simp

theorem eqv_eq_decide (a b : α) : eqv a b = decide (a = b) := by
  by_cases h : a = b
  · rw [(eqv_iff a b).mpr h]; simp [h]
  · rw [(eqv_false_iff a b).mpr h]; simp [h]

theorem absv_eq (a : α) : absv a = |a| := by
  unfold absv
  simp only [nat_zero]
  split
  · next h => rw [abs_of_neg h]
  · next h => rw [abs_of_nonneg (not_lt.mp h)]

theorem foldl_add_eq (xs : List α) (c : α) : xs.foldl (· + ·) c = c + xs.sum := by
  induction xs generalizing c with
  | nil => simp
  | cons x xs ih => simp [ih, add_assoc]

theorem sumF_eq (xs : List α) : sumF xs = xs.sum := by
  unfold sumF; rw [foldl_add_eq]; simp

theorem minv_eq (a b : α) : minv a b = min a b := by
  unfold minv
  split
  · next h => rw [min_eq_right (le_of_lt h)]
  · next h => rw [min_eq_left (not_lt.mp h)]

end bridge

/-! ### facts that hold on every carrier -/
section anycarrier
variable {α : Type} [Add α] [Sub α] [Mul α] [Div α] [Neg α] [NatCast α] [LT α] [DecidableLT α]

theorem gammastd_length (F : GamFns α) (x : List α) (nodata : α) (cs ce : ℕ) :
    (gammastd F x nodata cs ce).length = x.length := by
  unfold gammastd
  simp only
  split
  · simp
  · split
    · simp
    · split
      · simp
      · simp

end anycarrier

end Hdc.Spi
