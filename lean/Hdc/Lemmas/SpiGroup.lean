import Hdc.Lemmas.SpiBasic
/-
Gather / scatter by group label (`x[groups == g]`, `yy[groups == g] = vals`) and the fold of
`gammastd_grp` over the group ids.
-/
set_option linter.unusedSectionVars false
set_option linter.unusedSimpArgs false
namespace Hdc.Spi

/-- number of positions before `p` that carry label `g` : the place of cell `p` inside the
    sub-series of its group -/
def rankIn (groups : List ℕ) (g p : ℕ) : ℕ := (groups.take p).count g

section gather
variable {β : Type}

@[simp] theorem gatherGrp_nil_left (groups : List ℕ) (g : ℕ) :
    gatherGrp ([] : List β) groups g = [] := by simp [gatherGrp]

@[simp] theorem gatherGrp_nil_right (xx : List β) (g : ℕ) :
    gatherGrp xx [] g = [] := by simp [gatherGrp]

theorem gatherGrp_cons (x : β) (xx : List β) (k : ℕ) (ks : List ℕ) (g : ℕ) :
    gatherGrp (x :: xx) (k :: ks) g =
      if k = g then x :: gatherGrp xx ks g else gatherGrp xx ks g := by
  unfold gatherGrp
  by_cases h : k = g <;> simp [List.filter_cons, h]

@[simp] theorem rankIn_zero (groups : List ℕ) (g : ℕ) : rankIn groups g 0 = 0 := by
  simp [rankIn]

theorem rankIn_cons_succ (k : ℕ) (ks : List ℕ) (g p : ℕ) :
    rankIn (k :: ks) g (p + 1) = rankIn ks g p + (if k = g then 1 else 0) := by
  unfold rankIn
  by_cases h : k = g
  · subst h; simp
  · simp [List.count_cons, h]

/-- cell `p` of the series is cell `rankIn groups g p` of its group's sub-series -/
theorem gatherGrp_getElem? (g : ℕ) : ∀ (groups : List ℕ) (xx : List β) (p : ℕ),
    p < xx.length → groups[p]? = some g →
      (gatherGrp xx groups g)[rankIn groups g p]? = xx[p]?
  | [], _, _, _, h => by simp at h
  | _ :: _, [], _, hp, _ => by simp at hp
  | k :: ks, x :: xs, 0, _, h => by
    have hk : k = g := by simpa using h
    simp [gatherGrp_cons, hk]
  | k :: ks, x :: xs, p + 1, hp, h => by
    have hp' : p < xs.length := by simpa using hp
    have h' : ks[p]? = some g := by simpa using h
    have ih := gatherGrp_getElem? g ks xs p hp' h'
    rw [gatherGrp_cons, rankIn_cons_succ]
    by_cases hk : k = g
    · simp [hk, ih]
    · simp [hk, ih]

theorem rankIn_lt_gatherGrp_length (g : ℕ) (groups : List ℕ) (xx : List β) (p : ℕ)
    (hp : p < xx.length) (h : groups[p]? = some g) :
    rankIn groups g p < (gatherGrp xx groups g).length := by
  have := gatherGrp_getElem? g groups xx p hp h
  rw [List.getElem?_eq_getElem hp] at this
  by_contra hc
  rw [List.getElem?_eq_none (Nat.le_of_not_lt hc)] at this
  simp at this

theorem gatherGrp_length (g : ℕ) : ∀ (groups : List ℕ) (xx : List β),
    (gatherGrp xx groups g).length = (groups.take xx.length).count g
  | [], xx => by simp
  | _ :: _, [] => by simp
  | k :: ks, x :: xs => by
    rw [gatherGrp_cons]
    by_cases hk : k = g
    · subst hk; simp [gatherGrp_length k ks xs]
    · simp [hk, List.count_cons, gatherGrp_length g ks xs]

theorem gatherGrp_length_le (g : ℕ) (groups : List ℕ) (xx : List β) :
    (gatherGrp xx groups g).length ≤ xx.length := by
  unfold gatherGrp
  rw [List.length_map]
  refine le_trans (List.length_filter_le _ _) ?_
  rw [List.length_zip]; exact Nat.min_le_left _ _

/-- the sub-series of a group is a subsequence of the series -/
theorem gatherGrp_sublist (g : ℕ) : ∀ (groups : List ℕ) (xx : List β),
    (gatherGrp xx groups g).Sublist xx
  | [], xx => by simp
  | _ :: _, [] => by simp
  | k :: ks, x :: xs => by
    rw [gatherGrp_cons]
    by_cases hk : k = g
    · simp [hk, gatherGrp_sublist g ks xs]
    · simp only [hk, if_false]
      exact (gatherGrp_sublist g ks xs).trans (List.sublist_cons_self x xs)

/-! ### scatter -/

theorem scatterGrp_nil_groups (g : ℕ) (vals : List β) (out : List (Option β)) :
    scatterGrp g [] vals out = out := by
  unfold scatterGrp; rfl

theorem scatterGrp_nil_out (g : ℕ) (groups : List ℕ) (vals : List β) :
    scatterGrp g groups vals [] = [] := by
  unfold scatterGrp
  cases groups <;> rfl

theorem scatterGrp_cons_eq_cons (g : ℕ) (ks : List ℕ) (v : β) (vs : List β) (o : Option β)
    (os : List (Option β)) :
    scatterGrp g (g :: ks) (v :: vs) (o :: os) = some v :: scatterGrp g ks vs os := by
  simp [scatterGrp]

theorem scatterGrp_cons_eq_nil (g : ℕ) (ks : List ℕ) (o : Option β) (os : List (Option β)) :
    scatterGrp g (g :: ks) ([] : List β) (o :: os) = o :: scatterGrp g ks [] os := by
  simp [scatterGrp]

theorem scatterGrp_cons_ne (g k : ℕ) (hk : k ≠ g) (ks : List ℕ) (vals : List β) (o : Option β)
    (os : List (Option β)) :
    scatterGrp g (k :: ks) vals (o :: os) = o :: scatterGrp g ks vals os := by
  simp [scatterGrp, hk]

theorem scatterGrp_length (g : ℕ) : ∀ (groups : List ℕ) (vals : List β) (out : List (Option β)),
    (scatterGrp g groups vals out).length = out.length
  | [], vals, out => by rw [scatterGrp_nil_groups]
  | _ :: _, vals, [] => by rw [scatterGrp_nil_out]
  | k :: ks, vals, o :: os => by
    by_cases hk : k = g
    · subst hk
      cases vals with
      | nil => rw [scatterGrp_cons_eq_nil]; simp [scatterGrp_length k ks [] os]
      | cons v vs => rw [scatterGrp_cons_eq_cons]; simp [scatterGrp_length k ks vs os]
    · rw [scatterGrp_cons_ne g k hk]; simp [scatterGrp_length g ks vals os]

/-- cell `p` after `yy[groups == g] = vals`: positions of group `g` receive the values in
    order (as long as there are values), every other position keeps its content -/
theorem scatterGrp_getElem? (g : ℕ) : ∀ (groups : List ℕ) (vals : List β)
    (out : List (Option β)) (p : ℕ), p < out.length →
      (scatterGrp g groups vals out)[p]? =
        if groups[p]? = some g then
          (match vals[rankIn groups g p]? with
           | some v => some (some v)
           | none => out[p]?)
        else out[p]?
  | [], vals, out, p, _ => by rw [scatterGrp_nil_groups]; simp
  | _ :: _, vals, [], p, hp => by simp at hp
  | k :: ks, vals, o :: os, 0, _ => by
    by_cases hk : k = g
    · subst hk
      cases vals with
      | nil => rw [scatterGrp_cons_eq_nil]; simp
      | cons v vs => rw [scatterGrp_cons_eq_cons]; simp
    · rw [scatterGrp_cons_ne g k hk]; simp [hk]
  | k :: ks, vals, o :: os, p + 1, hp => by
    have hp' : p < os.length := by simpa using hp
    by_cases hk : k = g
    · subst hk
      cases vals with
      | nil =>
        rw [scatterGrp_cons_eq_nil]
        simp [scatterGrp_getElem? k ks [] os p hp']
      | cons v vs =>
        rw [scatterGrp_cons_eq_cons]
        simp [scatterGrp_getElem? k ks vs os p hp', rankIn_cons_succ]
    · rw [scatterGrp_cons_ne g k hk]
      simp [scatterGrp_getElem? g ks vals os p hp', rankIn_cons_succ, hk]

/-- gather after scatter returns the scattered values -/
theorem gatherGrp_scatterGrp_eq (g : ℕ) : ∀ (groups : List ℕ) (vals : List β)
    (out : List (Option β)), out.length = groups.length → vals.length = groups.count g →
      gatherGrp (scatterGrp g groups vals out) groups g = vals.map some
  | [], vals, out, _, hv => by
    have : vals = [] := by simpa using hv
    simp [this]
  | _ :: _, vals, [], ho, _ => by simp at ho
  | k :: ks, vals, o :: os, ho, hv => by
    have ho' : os.length = ks.length := by simpa using ho
    by_cases hk : k = g
    · subst hk
      cases vals with
      | nil => simp at hv
      | cons v vs =>
        have hv' : vs.length = ks.count k := by simpa using hv
        rw [scatterGrp_cons_eq_cons, gatherGrp_cons]
        simp [gatherGrp_scatterGrp_eq k ks vs os ho' hv']
    · have hv' : vals.length = ks.count g := by simpa [List.count_cons, hk] using hv
      rw [scatterGrp_cons_ne g k hk, gatherGrp_cons]
      simp [hk, gatherGrp_scatterGrp_eq g ks vals os ho' hv']

/-- scattering into another group does not touch this group's cells -/
theorem gatherGrp_scatterGrp_ne (g g' : ℕ) (hg : g' ≠ g) : ∀ (groups : List ℕ) (vals : List β)
    (out : List (Option β)),
      gatherGrp (scatterGrp g' groups vals out) groups g = gatherGrp out groups g
  | [], vals, out => by rw [scatterGrp_nil_groups]
  | _ :: _, vals, [] => by rw [scatterGrp_nil_out]
  | k :: ks, vals, o :: os => by
    by_cases hk : k = g'
    · subst hk
      cases vals with
      | nil =>
        rw [scatterGrp_cons_eq_nil, gatherGrp_cons, gatherGrp_cons]
        simp [hg, gatherGrp_scatterGrp_ne g k hg ks [] os]
      | cons v vs =>
        rw [scatterGrp_cons_eq_cons, gatherGrp_cons, gatherGrp_cons]
        simp [hg, gatherGrp_scatterGrp_ne g k hg ks vs os]
    · rw [scatterGrp_cons_ne g' k hk, gatherGrp_cons, gatherGrp_cons]
      simp [gatherGrp_scatterGrp_ne g g' hg ks vals os]

/-- scattering a group's own values back changes nothing -/
theorem scatterGrp_gatherGrp_eq (g : ℕ) : ∀ (groups : List ℕ) (xx : List β),
    scatterGrp g groups (gatherGrp xx groups g) (xx.map some) = xx.map some
  | [], xx => by rw [scatterGrp_nil_groups]
  | _ :: _, [] => by simp [scatterGrp_nil_out]
  | k :: ks, x :: xs => by
    by_cases hk : k = g
    · subst hk
      rw [gatherGrp_cons]
      simp only [if_true, List.map_cons]
      rw [scatterGrp_cons_eq_cons, scatterGrp_gatherGrp_eq k ks xs]
    · rw [gatherGrp_cons]
      simp only [hk, if_false, List.map_cons]
      rw [scatterGrp_cons_ne g k hk, scatterGrp_gatherGrp_eq g ks xs]

/-- with a single label the sub-series is the whole series -/
theorem gatherGrp_all (g : ℕ) : ∀ (groups : List ℕ) (xx : List β),
    groups.length = xx.length → (∀ k ∈ groups, k = g) → gatherGrp xx groups g = xx
  | [], [], _, _ => by simp
  | [], _ :: _, h, _ => by simp at h
  | _ :: _, [], h, _ => by simp at h
  | k :: ks, x :: xs, h, hall => by
    have hk : k = g := hall k (by simp)
    rw [gatherGrp_cons, if_pos hk,
      gatherGrp_all g ks xs (by simpa using h) (fun k' hk' => hall k' (by simp [hk']))]

theorem scatterGrp_all (g : ℕ) : ∀ (groups : List ℕ) (vals : List β) (out : List (Option β)),
    groups.length = out.length → vals.length = out.length → (∀ k ∈ groups, k = g) →
      scatterGrp g groups vals out = vals.map some
  | [], vals, out, h1, h2, _ => by
    have ho : out = [] := by simpa using h1.symm
    subst ho
    have hv : vals = [] := by simpa using h2
    subst hv
    rw [scatterGrp_nil_groups]; rfl
  | _ :: _, _, [], h1, _, _ => by simp at h1
  | _ :: _, [], _ :: _, _, h2, _ => by simp at h2
  | k :: ks, v :: vs, o :: os, h1, h2, hall => by
    have hk : k = g := hall k (by simp)
    subst hk
    rw [scatterGrp_cons_eq_cons,
      scatterGrp_all k ks vs os (by simpa using h1) (by simpa using h2)
        (fun k' hk' => hall k' (by simp [hk']))]
    rfl

/-- relabelling by an injective map does not change sub-series or places -/
theorem gatherGrp_map_inj (σ : ℕ → ℕ) (hσ : Function.Injective σ) (g : ℕ) :
    ∀ (groups : List ℕ) (xx : List β),
      gatherGrp xx (groups.map σ) (σ g) = gatherGrp xx groups g
  | [], xx => by simp
  | _ :: _, [] => by simp
  | k :: ks, x :: xs => by
    rw [List.map_cons, gatherGrp_cons, gatherGrp_cons, gatherGrp_map_inj σ hσ g ks xs]
    by_cases hk : k = g
    · simp [hk]
    · have : σ k ≠ σ g := fun h => hk (hσ h)
      simp [hk, this]

theorem rankIn_map_inj (σ : ℕ → ℕ) (hσ : Function.Injective σ) (g : ℕ) :
    ∀ (groups : List ℕ) (p : ℕ), rankIn (groups.map σ) (σ g) p = rankIn groups g p
  | [], p => by simp [rankIn]
  | k :: ks, 0 => by simp
  | k :: ks, p + 1 => by
    rw [List.map_cons, rankIn_cons_succ, rankIn_cons_succ, rankIn_map_inj σ hσ g ks p]
    by_cases hk : k = g
    · simp [hk]
    · have : σ k ≠ σ g := fun h => hk (hσ h)
      simp [hk, this]

end gather

/-! ### the fold of `gammastd_grp` -/
section grp
variable {α : Type} [Add α] [Sub α] [Mul α] [Div α] [Neg α] [NatCast α] [LT α] [DecidableLT α]

/-- the result of running `gammastd` on the sub-series of group `g` under that group's window -/
def grpResult (F : GamFns α) (xx : List α) (groups : List ℕ) (nodata : α)
    (cal : List (ℕ × ℕ)) (g : ℕ) : List (Option α) :=
  gammastd F (gatherGrp xx groups g) nodata (cal.getD g (0, 0)).1 (cal.getD g (0, 0)).2

theorem gammastdGrp_succ (F : GamFns α) (xx : List α) (groups : List ℕ) (n : ℕ) (nodata : α)
    (cal : List (ℕ × ℕ)) :
    gammastdGrp F xx groups (n + 1) nodata cal =
      scatterGrp n groups (grpResult F xx groups nodata cal n)
        (gammastdGrp F xx groups n nodata cal) := by
  unfold gammastdGrp grpResult
  rw [List.range_succ, List.foldl_append]
  rfl

theorem gammastdGrp_zero (F : GamFns α) (xx : List α) (groups : List ℕ) (nodata : α)
    (cal : List (ℕ × ℕ)) :
    gammastdGrp F xx groups 0 nodata cal = xx.map fun _ => none := by
  unfold gammastdGrp; simp

theorem gammastdGrp_length (F : GamFns α) (xx : List α) (groups : List ℕ) (n : ℕ) (nodata : α)
    (cal : List (ℕ × ℕ)) : (gammastdGrp F xx groups n nodata cal).length = xx.length := by
  induction n with
  | zero => rw [gammastdGrp_zero]; simp
  | succ n ih => rw [gammastdGrp_succ, scatterGrp_length, ih]

/-- every cell of the grouped result, in closed form -/
theorem gammastdGrp_getElem? (F : GamFns α) (xx : List α) (groups : List ℕ) (n : ℕ) (nodata : α)
    (cal : List (ℕ × ℕ)) (p : ℕ) (hp : p < xx.length) :
    (gammastdGrp F xx groups n nodata cal)[p]? =
      match groups[p]? with
      | some g =>
        if g < n then some ((grpResult F xx groups nodata cal g)[rankIn groups g p]?)
        else some none
      | none => some none := by
  induction n with
  | zero => rw [gammastdGrp_zero]; cases h : groups[p]? <;> simp [hp]
  | succ n ih =>
    rw [gammastdGrp_succ, scatterGrp_getElem? _ _ _ _ _ (by rw [gammastdGrp_length]; exact hp), ih]
    cases h : groups[p]? with
    | none => simp
    | some g =>
      by_cases hg : g = n
      · subst hg
        have hr : rankIn groups g p < (grpResult F xx groups nodata cal g).length := by
          unfold grpResult
          rw [gammastd_length]
          exact rankIn_lt_gatherGrp_length g groups xx p hp h
        simp [List.getElem?_eq_getElem hr]
      · have h1 : (some g = some n) = False := by simp [hg]
        have h2 : (g < n + 1) = (g < n) := by
          apply propext; constructor
          · intro h; omega
          · intro h; omega
        simp only [h1, if_false, h2]

/-- the cells of group `g` in the grouped result, in order, are the ungrouped result of the
    group's sub-series -/
theorem gatherGrp_gammastdGrp (F : GamFns α) (xx : List α) (groups : List ℕ) (n : ℕ) (nodata : α)
    (cal : List (ℕ × ℕ)) (hlen : groups.length = xx.length) (g : ℕ) (hg : g < n) :
    gatherGrp (gammastdGrp F xx groups n nodata cal) groups g =
      (grpResult F xx groups nodata cal g).map some := by
  induction n with
  | zero => omega
  | succ n ih =>
    rw [gammastdGrp_succ]
    by_cases hgn : g = n
    · subst hgn
      apply gatherGrp_scatterGrp_eq
      · rw [gammastdGrp_length, hlen]
      · unfold grpResult
        rw [gammastd_length, gatherGrp_length, ← hlen, List.take_length]
    · rw [gatherGrp_scatterGrp_ne g n (fun h => hgn h.symm)]
      exact ih (by omega)

end grp

end Hdc.Spi
