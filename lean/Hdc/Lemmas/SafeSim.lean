/-
SafeSim  "The instrumented program IS the translated program plus a flag": a small relational logic for two `Id.run do`
programs that differ only by one extra mutable variable `bad : Bool` (always the FIRST component of the state tuples of
the `do` elaboration, because the translator declares it first).  Kernel independent; nothing here mentions a generated file.

`Rel Q x y`       the results of the two computations are related by `Q`
`DropBad s t`     the state `s = (bad, t)` of the instrumented loop and the state `t` of the original one
`safe_sim`        the tactic that walks through both programs in lock step (bind / for / if / pure); it never looks at the
                  conditions recorded in `bad`, so it does not depend on what is checked.
-/
namespace Hdc.SafeSim

/-- the results of two `Id` computations are related by `Q` -/
def Rel {α β : Type} (Q : α → β → Prop) (x : Id α) (y : Id β) : Prop := Q x.run y.run

/-- the instrumented state is the original state with the flag in front -/
abbrev DropBad {τ : Type} (s : Bool × τ) (t : τ) : Prop := s.2 = t

/-- both loop bodies continue, or both stop, with related states -/
def StepRel {σ τ : Type} (R : σ → τ → Prop) : ForInStep σ → ForInStep τ → Prop
  | .yield a, .yield b => R a b
  | .done a, .done b => R a b
  | _, _ => False

theorem Rel.pure {α β : Type} {Q : α → β → Prop} {a : α} {b : β} (h : Q a b) :
    Rel Q (Pure.pure a) (Pure.pure b) := h

theorem Rel.pure_yield {τ : Type} {b : Bool} {t t' : τ} (h : t = t') :
    Rel (StepRel DropBad) (Pure.pure (ForInStep.yield (b, t))) (Pure.pure (ForInStep.yield t')) := h

theorem Rel.pure_done {τ : Type} {b : Bool} {t t' : τ} (h : t = t') :
    Rel (StepRel DropBad) (Pure.pure (ForInStep.done (b, t))) (Pure.pure (ForInStep.done t')) := h

theorem Rel.refl {α : Type} (x : Id α) : Rel Eq x x := rfl

theorem Rel.ite {α β : Type} {Q : α → β → Prop} (c : Prop) [Decidable c] {a b : Id α} {a' b' : Id β}
    (h1 : c → Rel Q a a') (h2 : ¬ c → Rel Q b b') :
    Rel Q (if c then a else b) (if c then a' else b') := by
  by_cases h : c
  · simpa [h] using h1 h
  · simpa [h] using h2 h

/-- sequencing after a statement that carries the flag (a loop) -/
theorem Rel.bind_drop {τ α β : Type} {Q : α → β → Prop} {x : Id (Bool × τ)} {y : Id τ}
    {k : Bool × τ → Id α} {k' : τ → Id β}
    (hx : Rel DropBad x y) (hk : ∀ (b : Bool) (t : τ), Rel Q (k (b, t)) (k' t)) :
    Rel Q (x >>= k) (y >>= k') := by
  have h : x.run.2 = y.run := hx
  show Q (k x.run).run (k' y.run).run
  rw [← h]
  exact hk x.run.1 x.run.2

/-- sequencing after a statement without the flag (the same on both sides) -/
theorem Rel.bind_eq {σ α β : Type} {Q : α → β → Prop} {x : Id σ} {k : σ → Id α} {k' : σ → Id β}
    (hk : ∀ s : σ, Rel Q (k s) (k' s)) : Rel Q (x >>= k) (x >>= k') := hk x.run

/-- a `for` loop whose body carries the flag -/
theorem Rel.forIn_drop {ι τ : Type} (l : List ι) {b0 : Bool} {t0 : τ}
    {f : ι → Bool × τ → Id (ForInStep (Bool × τ))} {g : ι → τ → Id (ForInStep τ)}
    (hstep : ∀ (i : ι) (b : Bool) (t : τ), Rel (StepRel DropBad) (f i (b, t)) (g i t)) :
    Rel DropBad (forIn l (b0, t0) f) (forIn l t0 g) := by
  induction l generalizing b0 t0 with
  | nil => exact rfl
  | cons i l ih =>
    have h := hstep i b0 t0
    simp only [Rel, StepRel] at h
    simp only [Rel, List.forIn_cons, Id.run_bind]
    generalize (f i (b0, t0)).run = u at h
    generalize (g i t0).run = v at h
    cases u with
    | done a =>
      cases v with
      | done a' => exact h
      | yield a' => exact h.elim
    | yield a =>
      cases v with
      | done a' => exact h.elim
      | yield a' =>
        obtain ⟨b, t⟩ := a
        have h' : t = a' := h
        subst h'
        exact ih

/-- the statement of every `safe_<kernel>_fst` theorem, as a relation -/
theorem fst_of_rel {α : Type} {x : Id (α × Bool)} {y : Id α} (h : Rel (fun a b => a.1 = b) x y) :
    x.run.1 = y.run := h

/-- lock-step walk through the instrumented and the original program -/
macro "safe_sim" : tactic => `(tactic|
  (apply fst_of_rel
   try dsimp only
   repeat' first
     | with_reducible exact Rel.pure rfl
     | with_reducible exact Rel.pure_yield rfl
     | with_reducible exact Rel.pure_done rfl
     | (with_reducible refine Rel.ite _ (fun _ => ?_) (fun _ => ?_))
     | ((with_reducible refine Rel.bind_drop ?_ (fun _ _ => ?_)) <;> try dsimp only)
     | ((with_reducible refine Rel.forIn_drop _ (fun _ _ _ => ?_)) <;> try dsimp only)
     | ((with_reducible refine Rel.bind_eq (fun _ => ?_)) <;> try dsimp only)))

end Hdc.SafeSim
