import Hdc.Lemmas.PyNpX
import Hdc.Lemmas.GenNum
/-
Lemmas for the refinement of the two pixel-loop wrappers of `hdc/algo/ops/autocorr.py` (`autocorr`: (y, x, t) cube,
`autocorr_tyx`: (t, y, x) cube): Hdc/Props/GenNumACYxt.lean, Hdc/Props/GenNumACTyx.lean.  Nothing here mentions a generated file.

  colSeries / rowSeries   the series of one pixel of a flattened cube, read WITHOUT a default value (`l[i]?`): for a list shorter
                          than the shape says the series is shorter than `nt`
  npCol3_eq_colSeries, npRow3_eq_rowSeries   the slices `tyx[:, r, c]`, `x[r, c, :]` of the translation are these series when
                          the length of the buffer is the product of the dimensions
  toYxt                   the (t, y, x) cube transposed to (y, x, t)
  CellInv                 the invariant of the two pixel loops: the first `n` cells (row-major) of `z` hold `f r c`
-/
namespace Hdc.GenNumACW
set_option linter.unusedVariables false
open Hdc Hdc.Gen.NumKernels Hdc.PyNpT Hdc.PyNpX

/-! ### the series of a pixel -/

/-- `tyx[:, r, c]` of the flattened `(nt, nr, nc)` cube (no default value: only the cells that exist) -/
def colSeries {γ : Type} (tyx : List γ) (nt nr nc r c : ℕ) : List γ :=
  (List.range nt).filterMap fun t => tyx[pos3 nr nc t r c]?

/-- `x[r, c, :]` of the flattened `(nr, nc, nt)` cube (no default value: only the cells that exist) -/
def rowSeries {γ : Type} (x : List γ) (nr nc nt r c : ℕ) : List γ :=
  (List.range nt).filterMap fun t => x[pos3 nc nt r c t]?

theorem filterMap_getElem?_range {γ : Type} (l : List γ) (d : γ) (n : ℕ) (p : ℕ → ℕ)
    (h : ∀ t, t < n → p t < l.length) :
    ((List.range n).filterMap fun t => l[p t]?) = (List.range n).map fun t => gD l.toArray (p t) d := by
  rw [← List.filterMap_eq_map]
  apply List.filterMap_congr
  intro t ht
  have ht' : t < n := by simpa using ht
  have := h t ht'
  simp [gD, this]

theorem colSeries_eq_map {γ : Type} (tyx : List γ) (d : γ) (nt nr nc r c : ℕ) (hlen : tyx.length = nt * nr * nc)
    (hr : r < nr) (hc : c < nc) :
    colSeries tyx nt nr nc r c = (List.range nt).map fun t => gD tyx.toArray (pos3 nr nc t r c) d :=
  filterMap_getElem?_range tyx d nt _ fun _ ht => hlen ▸ pos3_lt ht hr hc

theorem rowSeries_eq_map {γ : Type} (x : List γ) (d : γ) (nr nc nt r c : ℕ) (hlen : x.length = nr * nc * nt)
    (hr : r < nr) (hc : c < nc) :
    rowSeries x nr nc nt r c = (List.range nt).map fun t => gD x.toArray (pos3 nc nt r c t) d :=
  filterMap_getElem?_range x d nt _ fun _ ht => hlen ▸ pos3_lt hr hc ht

@[simp] theorem colSeries_length {γ : Type} (tyx : List γ) (nt nr nc r c : ℕ) (hlen : tyx.length = nt * nr * nc)
    (hr : r < nr) (hc : c < nc) : (colSeries tyx nt nr nc r c).length = nt := by
  cases tyx with
  | nil =>
    have := pos3_lt (nt := nt) (t := 0) (r := r) (c := c) (nr := nr) (nc := nc)
    by_cases h0 : nt = 0
    · subst h0; rfl
    · have := this (by omega) hr hc
      simp at hlen; omega
  | cons d _ => rw [colSeries_eq_map _ d nt nr nc r c hlen hr hc]; simp

@[simp] theorem rowSeries_length {γ : Type} (x : List γ) (nr nc nt r c : ℕ) (hlen : x.length = nr * nc * nt)
    (hr : r < nr) (hc : c < nc) : (rowSeries x nr nc nt r c).length = nt := by
  cases x with
  | nil =>
    by_cases h0 : nt = 0
    · subst h0; rfl
    · have := pos3_lt (nt := nr) (t := r) (r := c) (c := 0) (nr := nc) (nc := nt) hr hc (by omega)
      simp at hlen; omega
  | cons d _ => rw [rowSeries_eq_map _ d nr nc nt r c hlen hr hc]; simp

/-- `tyx[:, r, c]` as the translation reads it -/
theorem npCol3_eq_colSeries {γ : Type} (tyx : List γ) (d : γ) (nt nr nc r c : ℕ) (hlen : tyx.length = nt * nr * nc)
    (hr : r < nr) (hc : c < nc) :
    npCol3 tyx.toArray d (nt : ℤ) (nr : ℤ) (nc : ℤ) (r : ℤ) (c : ℤ) = (colSeries tyx nt nr nc r c).toArray := by
  rw [npCol3_nat, colSeries_eq_map tyx d nt nr nc r c hlen hr hc]

/-- `x[r, c, :]` as the translation reads it -/
theorem npRow3_eq_rowSeries {γ : Type} (x : List γ) (d : γ) (nr nc nt r c : ℕ) (hlen : x.length = nr * nc * nt)
    (hr : r < nr) (hc : c < nc) :
    npRow3 x.toArray d (nr : ℤ) (nc : ℤ) (nt : ℤ) (r : ℤ) (c : ℤ) = (rowSeries x nr nc nt r c).toArray := by
  rw [rowSeries_eq_map x d nr nc nt r c hlen hr hc]
  simp only [npRow3, Int.toNat_natCast, flat3_pos3, rdD_natCast]

/-- the series of a pixel depends on `(r, c)` only through the row-major pixel number `r * nc + c` (Numba does no bounds check:
    `x[r, c + nc, :]` is `x[r + 1, c, :]`) -/
theorem rowSeries_alias {γ : Type} (x : List γ) (nr nc nt : ℕ) {r c r' c' : ℕ} (h : r * nc + c = r' * nc + c') :
    rowSeries x nr nc nt r c = rowSeries x nr nc nt r' c' := by
  simp only [rowSeries, pos3, h]

theorem colSeries_alias {γ : Type} (tyx : List γ) (nt nr nc : ℕ) {r c r' c' : ℕ} (h : r * nc + c = r' * nc + c') :
    colSeries tyx nt nr nc r c = colSeries tyx nt nr nc r' c' := by
  have : ∀ t, pos3 nr nc t r c = pos3 nr nc t r' c' := fun t => by
    simp only [pos3, Nat.add_mul, Nat.add_assoc, h]
  simp only [colSeries, this]

/-- the pixel `(i / nc, i % nc)` with the number `i = r * nc + c < nr * nc` -/
theorem pix_of_lt {nr nc r c : ℕ} (h : r * nc + c < nr * nc) :
    (r * nc + c) / nc < nr ∧ (r * nc + c) % nc < nc ∧ (r * nc + c) / nc * nc + (r * nc + c) % nc = r * nc + c := by
  have hnc : 0 < nc := by
    rcases Nat.eq_zero_or_pos nc with h0 | h0
    · subst h0; simp at h
    · exact h0
  exact ⟨by rw [Nat.div_lt_iff_lt_mul hnc]; exact h, Nat.mod_lt _ hnc, Nat.div_add_mod' _ _⟩

/-! ### the (t, y, x) cube transposed to (y, x, t) -/

/-- `np.transpose(tyx, (1, 2, 0))`, flattened: cell `(r, c, t)` is cell `(t, r, c)` of `tyx` -/
def toYxt {γ : Type} (tyx : List γ) (nt nr nc : ℕ) : List γ :=
  (List.range (nr * nc * nt)).filterMap fun i => tyx[pos3 nr nc (i % nt) (i / nt / nc) (i / nt % nc)]?

theorem unflat {nc nt r c t : ℕ} (hc : c < nc) (ht : t < nt) :
    pos3 nc nt r c t % nt = t ∧ pos3 nc nt r c t / nt / nc = r ∧ pos3 nc nt r c t / nt % nc = c := by
  have hnt : 0 < nt := by omega
  have hnc : 0 < nc := by omega
  have h1 : pos3 nc nt r c t / nt = r * nc + c := by
    unfold pos3
    rw [Nat.add_comm, Nat.add_mul_div_right _ _ hnt, Nat.div_eq_of_lt ht, Nat.zero_add]
  refine ⟨?_, ?_, ?_⟩
  · unfold pos3
    rw [Nat.add_comm, Nat.add_mul_mod_self_right, Nat.mod_eq_of_lt ht]
  · rw [h1, Nat.add_comm, Nat.add_mul_div_right _ _ hnc, Nat.div_eq_of_lt hc, Nat.zero_add]
  · rw [h1, Nat.add_comm, Nat.add_mul_mod_self_right, Nat.mod_eq_of_lt hc]

theorem toYxt_idx_lt {nt nr nc i : ℕ} (hi : i < nr * nc * nt) :
    pos3 nr nc (i % nt) (i / nt / nc) (i / nt % nc) < nt * nr * nc := by
  have hnt : 0 < nt := by
    rcases Nat.eq_zero_or_pos nt with h | h
    · subst h; simp at hi
    · exact h
  have h1 : i / nt < nr * nc := by
    rw [Nat.div_lt_iff_lt_mul hnt]; exact hi
  have hnc : 0 < nc := by
    rcases Nat.eq_zero_or_pos nc with h | h
    · subst h; simp at h1
    · exact h
  exact pos3_lt (Nat.mod_lt _ hnt) (by rw [Nat.div_lt_iff_lt_mul hnc]; exact h1) (Nat.mod_lt _ hnc)

theorem toYxt_length {γ : Type} (tyx : List γ) (nt nr nc : ℕ) (hlen : tyx.length = nt * nr * nc) :
    (toYxt tyx nt nr nc).length = nr * nc * nt := by
  cases tyx with
  | nil =>
    have h0 : nt * nr * nc = 0 := by simpa using hlen.symm
    have : nr * nc * nt = 0 := by rw [Nat.mul_comm, ← Nat.mul_assoc]; exact h0
    simp [toYxt, this]
  | cons d l =>
    unfold toYxt
    rw [filterMap_getElem?_range (d :: l) d _ _ fun i hi => hlen ▸ toYxt_idx_lt hi]
    simp

theorem rowSeries_toYxt {γ : Type} (tyx : List γ) (nt nr nc r c : ℕ) (hlen : tyx.length = nt * nr * nc)
    (hr : r < nr) (hc : c < nc) :
    rowSeries (toYxt tyx nt nr nc) nr nc nt r c = colSeries tyx nt nr nc r c := by
  unfold rowSeries colSeries
  apply List.filterMap_congr
  intro t ht
  have ht' : t < nt := by simpa using ht
  have hj : pos3 nc nt r c t < nr * nc * nt := pos3_lt hr hc ht'
  cases tyx with
  | nil =>
    exfalso
    have := pos3_lt (nr := nr) (nc := nc) ht' hr hc
    simp at hlen; omega
  | cons d l =>
    unfold toYxt
    rw [filterMap_getElem?_range (d :: l) d _ _ fun i hi => hlen ▸ toYxt_idx_lt hi]
    rw [List.getElem?_map, List.getElem?_range hj]
    obtain ⟨h1, h2, h3⟩ := unflat (r := r) hc ht'
    simp only [Option.map_some, h1, h2, h3]
    have := pos3_lt (nr := nr) (nc := nc) ht' hr hc
    simp [gD, hlen, this]

/-! ### the pixel loops -/

/-- after `n` pixels (in the order of the loops: `n = rr * nc + cc`) the first `n` cells of `z` are final -/
structure CellInv {α : Type} (nr nc : ℕ) (f : ℕ → ℕ → α) (n : ℕ) (z : Array α) : Prop where
  sz : z.size = nr * nc
  hv : ∀ r c, r < nr → c < nc → r * nc + c < n → z[r * nc + c]? = some (f r c)

theorem pix_lt {nr nc r c : ℕ} (hr : r < nr) (hc : c < nc) : r * nc + c < nr * nc := by
  have := Nat.mul_le_mul_right nc (show r + 1 ≤ nr from hr)
  rw [Nat.add_mul, Nat.one_mul] at this
  omega

theorem CellInv.init {α : Type} (nr nc : ℕ) (f : ℕ → ℕ → α) (v : α) :
    CellInv nr nc f 0 (Array.replicate ((nr : ℤ) * (nc : ℤ)).toNat v) := by
  refine ⟨?_, fun r c _ _ h => absurd h (by omega)⟩
  rw [Array.size_replicate, ← Nat.cast_mul, Int.toNat_natCast]

theorem CellInv.cast {α : Type} {nr nc : ℕ} {f : ℕ → ℕ → α} {n m : ℕ} {z : Array α}
    (h : CellInv nr nc f n z) (hnm : n = m) : CellInv nr nc f m z := hnm ▸ h

/-- `z[rr, cc] = v` -/
theorem CellInv.step {α : Type} {nr nc : ℕ} {f : ℕ → ℕ → α} {r c : ℕ} {z : Array α} {ri ci : ℤ} {v : α}
    (h : CellInv nr nc f (r * nc + c) z) (hr : r < nr) (hc : c < nc) (hri : ri = (r : ℤ)) (hci : ci = (c : ℤ))
    (hv : v = f r c) :
    CellInv nr nc f (r * nc + c + 1) (wr z (flat2 (nr : ℤ) (nc : ℤ) ri ci) v) := by
  subst hri hci hv
  have hlt := pix_lt hr hc
  rw [flat2_nat]
  simp only [wr, Hdc.GenNum.ix_of_eq z.size _ (r * nc + c) rfl]
  refine ⟨by simp [h.sz], fun r' c' hr' hc' hn => ?_⟩
  by_cases he : r' * nc + c' = r * nc + c
  · obtain ⟨rfl, rfl⟩ := mixed_inj hc' hc he
    rw [Array.getElem?_setIfInBounds_self_of_lt (by rw [h.sz]; exact hlt)]
  · rw [Array.getElem?_setIfInBounds_ne (Ne.symm he)]
    exact h.hv r' c' hr' hc' (by omega)

theorem CellInv.final {α : Type} {nr nc : ℕ} {f : ℕ → ℕ → α} {z : Array α} (h : CellInv nr nc f (nr * nc) z)
    {r c : ℕ} (hr : r < nr) (hc : c < nc) : z[r * nc + c]? = some (f r c) :=
  h.hv r c hr hc (pix_lt hr hc)

/-! ### the same facts in the form of the verification conditions of the two `for … in range(…)` loops -/

theorem CellInv.init' {α : Type} (nr nc : ℕ) (f : ℕ → ℕ → α) (v : α) :
    CellInv nr nc f (0 * nc) (Array.replicate ((nr : ℤ) * (nc : ℤ)).toNat v) :=
  (CellInv.init nr nc f v).cast (by simp)

theorem CellInv.row_start {α : Type} {nr nc : ℕ} {f : ℕ → ℕ → α} {z : Array α} {ri : ℤ} {p : ℕ}
    (h : CellInv nr nc f (p * nc) z) (hr : ri = 0 + (p : ℤ) ∧ 0 + (p : ℤ) < (nr : ℤ)) :
    CellInv nr nc f (ri.toNat * nc + 0) z := by
  have : ri.toNat = p := by omega
  exact h.cast (by rw [this, Nat.add_zero])

theorem CellInv.row_end {α : Type} {nr nc : ℕ} {f : ℕ → ℕ → α} {z : Array α} {ri : ℤ} {p : ℕ}
    (h : CellInv nr nc f (ri.toNat * nc + nc) z) (hr : ri = 0 + (p : ℤ) ∧ 0 + (p : ℤ) < (nr : ℤ)) :
    CellInv nr nc f ((p + 1) * nc) z := by
  have : ri.toNat = p := by omega
  exact h.cast (by rw [this, Nat.add_mul, Nat.one_mul])

theorem CellInv.loop_step {α : Type} {nr nc : ℕ} {g : ℤ → ℤ → α} {z : Array α} {ri ci : ℤ} {p k : ℕ}
    (h : CellInv nr nc (fun r c => g (r : ℤ) (c : ℤ)) (ri.toNat * nc + k) z)
    (hr : ri = 0 + (p : ℤ) ∧ 0 + (p : ℤ) < (nr : ℤ)) (hc : ci = 0 + (k : ℤ) ∧ 0 + (k : ℤ) < (nc : ℤ)) :
    CellInv nr nc (fun r c => g (r : ℤ) (c : ℤ)) (ri.toNat * nc + (k + 1))
      (wr z (flat2 (nr : ℤ) (nc : ℤ) ri ci) (g ri ci)) := by
  have h1 : ri = (p : ℤ) := by omega
  have h2 : ci = (k : ℤ) := by omega
  have h3 : ri.toNat = p := by omega
  rw [h3] at h ⊢
  exact h.step (by omega) (by omega) h1 h2 (by rw [h1, h2])

/-- two flattened `(nr, nc)` arrays with the same cells are equal -/
theorem array_eq_of_cells {α : Type} {a b : Array α} {nr nc : ℕ} (ha : a.size = nr * nc) (hb : b.size = nr * nc)
    (h : ∀ r c, r < nr → c < nc → a[r * nc + c]? = b[r * nc + c]?) : a = b := by
  apply Array.ext_getElem?
  intro i
  by_cases hi : i < nr * nc
  · have hnc : 0 < nc := by
      rcases Nat.eq_zero_or_pos nc with h0 | h0
      · subst h0; simp at hi
      · exact h0
    have := h (i / nc) (i % nc) (by rw [Nat.div_lt_iff_lt_mul hnc]; exact hi) (Nat.mod_lt _ hnc)
    rwa [Nat.div_add_mod'] at this
  · rw [Array.getElem?_eq_none (by omega), Array.getElem?_eq_none (by omega)]

end Hdc.GenNumACW
