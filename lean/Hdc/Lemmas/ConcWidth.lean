import Hdc.Model.Stats
import Hdc.Model.Discrete
/-
C13: fixed-width integer accumulators.  The compiled kernels accumulate in int64 / store to int16,
the interpreted ones in unbounded Python integers; the lemmas here show that within the stated
contracts the wrapping arithmetic never wraps.  No Mathlib.
-/
namespace Hdc.Width

/-- two's-complement wrap to 64 bits (what an int64 addition / multiplication returns) -/
def wrap64 (x : Int) : Int := (x + 2 ^ 63) % 2 ^ 64 - 2 ^ 63
/-- two's-complement wrap to 16 bits (the store into an int16 array) -/
def wrap16 (x : Int) : Int := (x + 2 ^ 15) % 2 ^ 16 - 2 ^ 15

theorem wrap64_eq_iff (x : Int) : wrap64 x = x ↔ -2 ^ 63 ≤ x ∧ x < 2 ^ 63 := by
  unfold wrap64; constructor <;> intro h <;> omega

theorem wrap64_id (x : Int) (h : -2 ^ 63 ≤ x ∧ x < 2 ^ 63) : wrap64 x = x := (wrap64_eq_iff x).mpr h

theorem wrap64_range (x : Int) : -2 ^ 63 ≤ wrap64 x ∧ wrap64 x < 2 ^ 63 := by unfold wrap64; omega

theorem wrap16_eq_iff (x : Int) : wrap16 x = x ↔ -32768 ≤ x ∧ x ≤ 32767 := by
  unfold wrap16; constructor <;> intro h <;> omega

theorem wrap16_range (x : Int) : -32768 ≤ wrap16 x ∧ wrap16 x ≤ 32767 := by unfold wrap16; omega

/-! ### sums of bounded terms -/

theorem sum_bound (B : Int) (l : List Int) (h : ∀ v ∈ l, -B ≤ v ∧ v ≤ B) :
    -((l.length : Int) * B) ≤ l.sum ∧ l.sum ≤ (l.length : Int) * B := by
  induction l with
  | nil => simp
  | cons a t ih =>
    have ha := h a List.mem_cons_self
    have iht := ih fun v hv => h v (List.mem_cons_of_mem _ hv)
    have e : (((a :: t).length : Nat) : Int) * B = (t.length : Int) * B + B := by
      rw [List.length_cons, Int.natCast_succ, Int.add_mul, Int.one_mul]
    rw [e, List.sum_cons]
    omega

theorem nonneg_of_bounded (B : Int) (v : Int) (h : -B ≤ v ∧ v ≤ B) : 0 ≤ B := by omega

/-- every prefix sum of a list with entries in [-B, B] lies in [-len·B, len·B] -/
theorem prefix_sum_bound (B : Int) (l : List Int) (h : ∀ v ∈ l, -B ≤ v ∧ v ≤ B) (k : Nat) :
    -((l.length : Int) * B) ≤ (l.take k).sum ∧ (l.take k).sum ≤ (l.length : Int) * B := by
  have h1 := sum_bound B (l.take k) fun v hv => h v (List.mem_of_mem_take hv)
  have hle : ((l.take k).length : Int) ≤ (l.length : Int) := by
    have := List.length_take_le' k l
    omega
  by_cases hB : 0 ≤ B
  · have := Int.mul_le_mul_of_nonneg_right hle hB
    omega
  · cases l with
    | nil => simp
    | cons a t => exact absurd (nonneg_of_bounded B a (h a List.mem_cons_self)) hB

/-- the running sum as an int64 accumulator computes it -/
def wsum64 (l : List Int) : Int := l.foldl (fun acc v => wrap64 (acc + v)) 0

theorem wsum64_aux (B : Int) (M : Nat) (hM : (M : Int) * B < 2 ^ 63) (hB : 0 ≤ B) (l : List Int)
    (h : ∀ v ∈ l, -B ≤ v ∧ v ≤ B) :
    ∀ (k : Nat) (acc : Int), k + l.length ≤ M → -((k : Int) * B) ≤ acc ∧ acc ≤ (k : Int) * B →
      l.foldl (fun acc v => wrap64 (acc + v)) acc = acc + l.sum := by
  induction l with
  | nil => intro k acc _ _; simp
  | cons a t ih =>
    intro k acc hk hacc
    have ha := h a List.mem_cons_self
    have hk1 : ((k + 1 : Nat) : Int) * B = (k : Int) * B + B := by
      rw [Int.natCast_succ, Int.add_mul, Int.one_mul]
    have hkM : ((k + 1 : Nat) : Int) * B ≤ (M : Int) * B := by
      apply Int.mul_le_mul_of_nonneg_right _ hB
      simp only [List.length_cons] at hk
      omega
    have hw : wrap64 (acc + a) = acc + a := by apply wrap64_id; omega
    rw [List.foldl_cons, hw, List.sum_cons,
      ih (fun v hv => h v (List.mem_cons_of_mem _ hv)) (k + 1) (acc + a)
        (by simp only [List.length_cons] at hk; omega) (by omega)]
    omega

/-- D1 (generic): an int64 accumulator over terms in [-B, B] with len·B < 2^63 never wraps -/
theorem wsum64_exact (B : Int) (l : List Int) (h : ∀ v ∈ l, -B ≤ v ∧ v ≤ B)
    (hlen : (l.length : Int) * B < 2 ^ 63) : wsum64 l = l.sum := by
  cases l with
  | nil => rfl
  | cons a t =>
    have hB := nonneg_of_bounded B a (h a List.mem_cons_self)
    have := wsum64_aux B (a :: t).length hlen hB (a :: t) h 0 0 (by omega) (by simp)
    simpa [wsum64] using this

/-- ... and so does every intermediate value of the accumulator -/
theorem wsum64_prefix_exact (B : Int) (l : List Int) (h : ∀ v ∈ l, -B ≤ v ∧ v ≤ B)
    (hlen : (l.length : Int) * B < 2 ^ 63) (k : Nat) : wsum64 (l.take k) = (l.take k).sum := by
  apply wsum64_exact B _ fun v hv => h v (List.mem_of_mem_take hv)
  have hle : ((l.take k).length : Int) ≤ (l.length : Int) := by
    have := List.length_take_le' k l
    omega
  by_cases hB : 0 ≤ B
  · have := Int.mul_le_mul_of_nonneg_right hle hB
    omega
  · cases l with
    | nil => simp
    | cons a t => exact absurd (nonneg_of_bounded B a (h a List.mem_cons_self)) hB

/-- products of two int16 values -/
theorem int16_mul_bound (x y : Int) (hx : -32768 ≤ x ∧ x ≤ 32767) (hy : -32768 ≤ y ∧ y ≤ 32767) :
    -2 ^ 30 ≤ x * y ∧ x * y ≤ 2 ^ 30 := by
  have h := Int.natAbs_mul x y
  have h2 : x.natAbs * y.natAbs ≤ 32768 * 32768 := Nat.mul_le_mul (by omega) (by omega)
  omega

/-! ### the accumulators of `autocorr_1d_int` at the int64 carrier -/

/-- int64 with wrapping addition and multiplication -/
structure W64 where
  val : Int

instance : Add W64 := ⟨fun a b => ⟨wrap64 (a.val + b.val)⟩⟩
instance : Mul W64 := ⟨fun a b => ⟨wrap64 (a.val * b.val)⟩⟩
instance : NatCast W64 := ⟨fun n => ⟨wrap64 n⟩⟩

@[simp] theorem W64.add_val (a b : W64) : (a + b).val = wrap64 (a.val + b.val) := rfl
@[simp] theorem W64.natCast_val (n : Nat) : ((n : W64)).val = wrap64 n := rfl
@[simp] theorem W64.mul_val (a b : W64) : (a * b).val = wrap64 (a.val * b.val) := rfl

/-- the unbounded integers an int64 state stands for -/
def valsOf (s : ACSums W64) : ACSums Int :=
  ⟨s.sxy.val, s.sx_.val, s.sy_.val, s.nxy, s.sx.val, s.sxx.val, s.nx, s.sy.val, s.syy.val, s.ny⟩

/-- one pass of the loop body of `acAccum` -/
def acStep {α : Type} [Add α] [Mul α] (a b : Option α) (s : ACSums α) : ACSums α :=
  let s1 := match a with
    | some x => { s with sx := s.sx + x, sxx := s.sxx + x * x, nx := s.nx + 1 }
    | none => s
  let s2 := match b with
    | some y => { s1 with sy := s1.sy + y, syy := s1.syy + y * y, ny := s1.ny + 1 }
    | none => s1
  match a, b with
    | some x, some y => { s2 with sx_ := s2.sx_ + x, sy_ := s2.sy_ + y, sxy := s2.sxy + x * y, nxy := s2.nxy + 1 }
    | _, _ => s2

theorem acAccum_cons2 {α : Type} [Add α] [Mul α] (a b : Option α) (rest : List (Option α))
    (s : ACSums α) : acAccum (a :: b :: rest) s = acAccum (b :: rest) (acStep a b s) := rfl

theorem acAccum_nil {α : Type} [Add α] [Mul α] (s : ACSums α) : acAccum [] s = s := rfl

theorem acAccum_single {α : Type} [Add α] [Mul α] (a : Option α) (s : ACSums α) :
    acAccum [a] s = s := rfl

/-- all seven sums within `k · 2^30`, all three counters within `k` -/
structure Bnd (k : Nat) (s : ACSums Int) : Prop where
  sxy : -((k : Int) * 2 ^ 30) ≤ s.sxy ∧ s.sxy ≤ (k : Int) * 2 ^ 30
  sx_ : -((k : Int) * 2 ^ 30) ≤ s.sx_ ∧ s.sx_ ≤ (k : Int) * 2 ^ 30
  sy_ : -((k : Int) * 2 ^ 30) ≤ s.sy_ ∧ s.sy_ ≤ (k : Int) * 2 ^ 30
  sx : -((k : Int) * 2 ^ 30) ≤ s.sx ∧ s.sx ≤ (k : Int) * 2 ^ 30
  sxx : -((k : Int) * 2 ^ 30) ≤ s.sxx ∧ s.sxx ≤ (k : Int) * 2 ^ 30
  sy : -((k : Int) * 2 ^ 30) ≤ s.sy ∧ s.sy ≤ (k : Int) * 2 ^ 30
  syy : -((k : Int) * 2 ^ 30) ≤ s.syy ∧ s.syy ≤ (k : Int) * 2 ^ 30
  nxy : s.nxy ≤ k
  nx : s.nx ≤ k
  ny : s.ny ≤ k

def inInt16 (v : Int) : Prop := -32768 ≤ v ∧ v ≤ 32767
def optInt16 : Option Int → Prop
  | some v => inInt16 v
  | none => True

def lift (a : Option Int) : Option W64 := a.map W64.mk

/-- adding a product of two int16 values to an accumulator bounded by k·2^30, k < 2^32 -/
theorem wadd_mul (s x y : Int) (k : Nat) (hs : -((k : Int) * 2 ^ 30) ≤ s ∧ s ≤ (k : Int) * 2 ^ 30)
    (hx : inInt16 x) (hy : inInt16 y) (hk : k < 2 ^ 32) :
    wrap64 (s + wrap64 (x * y)) = s + x * y ∧
      -(((k + 1 : Nat) : Int) * 2 ^ 30) ≤ s + x * y ∧ s + x * y ≤ ((k + 1 : Nat) : Int) * 2 ^ 30 := by
  have hp := int16_mul_bound x y hx hy
  have h1 : wrap64 (x * y) = x * y := by apply wrap64_id; omega
  rw [h1]
  refine ⟨?_, ?_, ?_⟩
  · apply wrap64_id; omega
  · omega
  · omega

theorem wadd_val (s x : Int) (k : Nat) (hs : -((k : Int) * 2 ^ 30) ≤ s ∧ s ≤ (k : Int) * 2 ^ 30)
    (hx : inInt16 x) (hk : k < 2 ^ 32) :
    wrap64 (s + x) = s + x ∧
      -(((k + 1 : Nat) : Int) * 2 ^ 30) ≤ s + x ∧ s + x ≤ ((k + 1 : Nat) : Int) * 2 ^ 30 := by
  unfold inInt16 at hx
  refine ⟨?_, ?_, ?_⟩
  · apply wrap64_id; omega
  · omega
  · omega

theorem bnd_weaken (s : Int) (k : Nat) (h : -((k : Int) * 2 ^ 30) ≤ s ∧ s ≤ (k : Int) * 2 ^ 30) :
    -(((k + 1 : Nat) : Int) * 2 ^ 30) ≤ s ∧ s ≤ ((k + 1 : Nat) : Int) * 2 ^ 30 := by omega

/-- one loop pass at int64 = one loop pass over ℤ, and the bound moves from k to k+1 -/
theorem acStep_sim (a b : Option Int) (ha : optInt16 a) (hb : optInt16 b) (k : Nat) (hk : k < 2 ^ 32)
    (sW : ACSums W64) (hB : Bnd k (valsOf sW)) :
    valsOf (acStep (lift a) (lift b) sW) = acStep a b (valsOf sW) ∧
      Bnd (k + 1) (acStep a b (valsOf sW)) := by
  obtain ⟨b1, b2, b3, b4, b5, b6, b7, c1, c2, c3⟩ := hB
  simp only [valsOf] at b1 b2 b3 b4 b5 b6 b7 c1 c2 c3
  cases a with
  | none =>
    cases b with
    | none =>
      refine ⟨rfl, ?_⟩
      constructor <;> dsimp only [acStep, valsOf] <;> omega
    | some y =>
      have hy : inInt16 y := hb
      obtain ⟨e1, f1⟩ := wadd_val _ y k b6 hy hk
      obtain ⟨e2, f2⟩ := wadd_mul _ y y k b7 hy hy hk
      refine ⟨?_, ?_⟩
      · simp only [acStep, lift, Option.map, valsOf, W64.add_val, W64.mul_val, e1, e2]
      · constructor <;> dsimp only [acStep, valsOf] <;> omega
  | some x =>
    have hx : inInt16 x := ha
    obtain ⟨e3, f3⟩ := wadd_val _ x k b4 hx hk
    obtain ⟨e4, f4⟩ := wadd_mul _ x x k b5 hx hx hk
    cases b with
    | none =>
      refine ⟨?_, ?_⟩
      · simp only [acStep, lift, Option.map, valsOf, W64.add_val, W64.mul_val, e3, e4]
      · constructor <;> dsimp only [acStep, valsOf] <;> omega
    | some y =>
      have hy : inInt16 y := hb
      obtain ⟨e1, f1⟩ := wadd_val _ y k b6 hy hk
      obtain ⟨e2, f2⟩ := wadd_mul _ y y k b7 hy hy hk
      obtain ⟨e5, f5⟩ := wadd_val _ x k b2 hx hk
      obtain ⟨e6, f6⟩ := wadd_val _ y k b3 hy hk
      obtain ⟨e7, f7⟩ := wadd_mul _ x y k b1 hx hy hk
      refine ⟨?_, ?_⟩
      · simp only [acStep, lift, Option.map, valsOf, W64.add_val, W64.mul_val, e1, e2, e3, e4, e5,
          e6, e7]
      · constructor <;> dsimp only [acStep, valsOf] <;> omega

theorem acAccum_sim : ∀ (data : List (Option Int)) (k : Nat) (sW : ACSums W64),
    (∀ a ∈ data, optInt16 a) → k + data.length ≤ 2 ^ 32 → Bnd k (valsOf sW) →
      valsOf (acAccum (data.map lift) sW) = acAccum data (valsOf sW) ∧
        Bnd (k + (data.length - 1)) (acAccum data (valsOf sW))
  | [], k, sW, _, _, hB => by
    simp only [List.map_nil, acAccum_nil, List.length_nil]
    exact ⟨trivial, hB⟩
  | [a], k, sW, _, _, hB => by
    simp only [List.map_cons, List.map_nil, acAccum_single, List.length_cons, List.length_nil]
    exact ⟨trivial, hB⟩
  | a :: b :: rest, k, sW, hd, hk, hB => by
    have ha := hd a List.mem_cons_self
    have hb := hd b (List.mem_cons_of_mem _ List.mem_cons_self)
    simp only [List.length_cons] at hk
    obtain ⟨h1, h2⟩ := acStep_sim a b ha hb k (by omega) sW hB
    rw [← h1] at h2
    have ih := acAccum_sim (b :: rest) (k + 1) (acStep (lift a) (lift b) sW)
      (fun x hx => hd x (List.mem_cons_of_mem _ hx)) (by simp only [List.length_cons]; omega) h2
    simp only [List.map_cons, acAccum_cons2] at ih ⊢
    rw [h1] at ih
    refine ⟨ih.1, ?_⟩
    have e : k + ((a :: b :: rest).length - 1) = k + 1 + ((b :: rest).length - 1) := by
      simp only [List.length_cons]; omega
    rw [e]; exact ih.2

theorem bnd_zero : Bnd 0 (valsOf (ACSums.zero : ACSums W64)) := by
  have h0 : wrap64 0 = 0 := by decide
  constructor <;> simp [valsOf, ACSums.zero, nat, h0]

theorem valsOf_zero : valsOf (ACSums.zero : ACSums W64) = (ACSums.zero : ACSums Int) := by
  have h0 : wrap64 0 = 0 := by decide
  simp [valsOf, ACSums.zero, nat, h0]

/-! ### Mann-Kendall counters -/

section mk
variable {α : Type} [LT α] [DecidableLT α]

theorem mkCounts_bound (x : List α) :
    2 * (mkCounts x).1 ≤ x.length * (x.length - 1) ∧ 2 * (mkCounts x).2 ≤ x.length * (x.length - 1) := by
  induction x with
  | nil => simp [mkCounts]
  | cons a t ih =>
    have h1 : (t.filter fun v => decide (a < v)).length ≤ t.length := List.length_filter_le _ _
    have h2 : (t.filter fun v => decide (v < a)).length ≤ t.length := List.length_filter_le _ _
    have e : (a :: t).length * ((a :: t).length - 1) = t.length * (t.length - 1) + 2 * t.length := by
      simp only [List.length_cons, Nat.add_sub_cancel]
      cases t.length with
      | zero => rfl
      | succ m => simp only [Nat.add_sub_cancel, Nat.succ_mul, Nat.mul_succ]; omega
    have hc : mkCounts (a :: t) = ((mkCounts t).1 + (t.filter fun v => decide (a < v)).length,
        (mkCounts t).2 + (t.filter fun v => decide (v < a)).length) := rfl
    rw [hc, e]
    simp only
    omega

theorem pairs_lt (n : Nat) (h : n < 2 ^ 31) : n * (n - 1) < 2 ^ 62 := by
  have h1 : n * (n - 1) ≤ 2 ^ 31 * 2 ^ 31 := Nat.mul_le_mul (by omega) (by omega)
  have h2 : n * (n - 1) ≠ 2 ^ 31 * 2 ^ 31 := by
    intro he
    have : n * (n - 1) ≤ (2 ^ 31 - 1) * (2 ^ 31 - 1) := Nat.mul_le_mul (by omega) (by omega)
    omega
  omega

end mk

/-! ### lroo counters -/

/-- the pairs (cr, mr) the loop of `lroo` passes through -/
def lrooTrace : Nat → Nat → Nat → List Nat → List (Nat × Nat)
  | _, cr, mr, [] => [(cr, mr)]
  | prev, cr, mr, d :: ds =>
    (cr, mr) :: (if d - prev = 1 then
      lrooTrace d (cr + 1) (if cr + 1 > mr then cr + 1 else mr) ds
    else lrooTrace d 1 mr ds)

theorem lrooTrace_last (ds : List Nat) : ∀ (prev cr mr : Nat),
    ((lrooTrace prev cr mr ds).getLast?).map (·.2) = some (lrooLoop prev cr mr ds) := by
  induction ds with
  | nil => intro prev cr mr; rfl
  | cons d ds ih =>
    intro prev cr mr
    have hne : ∀ (p c m : Nat), lrooTrace p c m ds ≠ [] := by
      intro p c m; cases ds <;> simp [lrooTrace]
    simp only [lrooTrace, lrooLoop]
    split
    · rw [List.getLast?_cons_of_ne_nil (hne _ _ _)]; exact ih _ _ _
    · rw [List.getLast?_cons_of_ne_nil (hne _ _ _)]; exact ih _ _ _

theorem lrooTrace_bound (L : Nat) (ds : List Nat) : ∀ (prev cr mr : Nat),
    1 ≤ L → cr + ds.length ≤ L → mr ≤ L → ∀ p ∈ lrooTrace prev cr mr ds, p.1 ≤ L ∧ p.2 ≤ L := by
  induction ds with
  | nil =>
    intro prev cr mr _ h1 h2 p hp
    simp only [lrooTrace, List.mem_cons, List.not_mem_nil, or_false] at hp
    subst hp
    simp only [List.length_nil] at h1
    exact ⟨by omega, h2⟩
  | cons d ds ih =>
    intro prev cr mr hL h1 h2 p hp
    simp only [List.length_cons] at h1
    simp only [lrooTrace, List.mem_cons] at hp
    rcases hp with rfl | hp
    · exact ⟨by omega, h2⟩
    · split at hp
      · exact ih d (cr + 1) _ hL (by omega) (by split <;> omega) p hp
      · exact ih d 1 mr hL (by omega) h2 p hp

theorem lrooLoop_le (L : Nat) (ds : List Nat) : ∀ (prev cr mr : Nat),
    cr + ds.length ≤ L → mr ≤ L → lrooLoop prev cr mr ds ≤ L := by
  induction ds with
  | nil => intro prev cr mr _ h2; exact h2
  | cons d ds ih =>
    intro prev cr mr h1 h2
    simp only [List.length_cons] at h1
    simp only [lrooLoop]
    split
    · exact ih d (cr + 1) _ (by omega) (by split <;> omega)
    · exact ih d 1 mr (by omega) h2

theorem dotsFrom_length (data : List Nat) : ∀ i, (dotsFrom i data).length ≤ data.length := by
  induction data with
  | nil => intro i; simp [dotsFrom]
  | cons x xs ih =>
    intro i
    simp only [dotsFrom]
    split
    · simp only [List.length_cons]; have := ih (i + 1); omega
    · simp only [List.length_cons]; have := ih (i + 1); omega

end Hdc.Width
