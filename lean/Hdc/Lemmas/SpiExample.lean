import Hdc.Model.Stats
import Mathlib.Algebra.Order.Field.Rat
/-
A toy instance of the special functions over ℚ, used only by the non-vacuity examples of
C07 / C08 / C09 (it makes every hypothesis of the theorems checkable by evaluation).
-/
namespace Hdc.Spi

/-- toy special functions: `log v = v²`, `sqrt = id`, the root finder always answers 2,
    `gammainc a v = v`, `ndtri = id` -/
def Fex : GamFns ℚ where
  log := fun v => v * v
  sqrt := fun v => v
  root := fun _ _ _ => 2
  gammainc := fun _ v => v
  ndtri := fun p => p
  c04 := 2 / 5
  c09 := 9 / 10

/-- a series with two positive cells, a zero, a nodata cell and a negative cell -/
def xex : List ℚ := [1, 3, 0, -9999, -2]

end Hdc.Spi
