import Hdc.Lemmas.GenKDoMean
import Hdc.Model.RoundAcc
import Hdc.Lemmas.RoundFloatOps
/-
The step `sums[z_idx] += pix` of `Gen.Kernels.do_mean` under a BOUNDED exactness of the floating addition (instead of the
unconditional `hadd` of Hdc/Lemmas/GenKDoMean.lean): the invariant `ZAcc` is unchanged, the step needs that per zone the
sum of the absolute values of the cells that are added stays within the range `B`.
-/
namespace Hdc.GenKDoMean
open Hdc Hdc.PyNpT Hdc.GenKernels Hdc.Gen.Kernels

/-- sum of the absolute values of the cells of `l` that count for zone `k` -/
def zasum (nd znd k : Int) (l : List (Int × Int)) : ℕ := ((zsel nd znd k l).map fun p => p.1.natAbs).sum

theorem zoneAbsSum_eq (pix zones : List Int) (nd znd k : Int) :
    zoneAbsSum pix zones nd znd k = zasum nd znd k (pix.zip zones) := rfl

theorem zasum_snoc (nd znd k : Int) (l : List (Int × Int)) (v z : Int) :
    zasum nd znd k (l ++ [(v, z)])
      = if v ≠ nd ∧ z ≠ znd ∧ z = k then zasum nd znd k l + v.natAbs else zasum nd znd k l := by
  unfold zasum zsel
  by_cases h : v ≠ nd ∧ z ≠ znd ∧ z = k
  · rw [if_pos h]; obtain ⟨h1, h2, rfl⟩ := h; simp [List.filter_append, h1, h2]
  · rw [if_neg h]; simp [List.filter_append, h]

theorem zasum_append_le (nd znd k : Int) (l m : List (Int × Int)) :
    zasum nd znd k l ≤ zasum nd znd k (l ++ m) := by
  unfold zasum zsel
  simp only [List.filter_append, List.map_append, List.sum_append]
  omega

theorem zasum_take_le (nd znd k : Int) (l : List (Int × Int)) (q : ℕ) :
    zasum nd znd k (l.take q) ≤ zasum nd znd k l := by
  conv_rhs => rw [← List.take_append_drop q l]
  exact zasum_append_le nd znd k _ _

/-- every partial sum is bounded by the sum of the absolute values -/
theorem natAbs_zsum_le (nd znd k : Int) (l : List (Int × Int)) :
    (zsum nd znd k l).natAbs ≤ zasum nd znd k l := by
  unfold zsum zasum
  induction zsel nd znd k l with
  | nil => simp
  | cons x xs ih => simp only [List.sum_cons, List.map_cons]; omega

variable {β : Type}

/-- a cell that counts: `sums[z_idx] += pix; counts[z_idx] += 1`, the addition exact because the zone's absolute values
    (the new cell included) sum to at most `B` -/
theorem ZAcc.addB {F : FloatOps β} {B : ℕ}
    (hadd : ∀ a b : Int, a.natAbs ≤ B → b.natAbs ≤ B → (a + b).natAbs ≤ B →
      F.add (F.lit a) (F.lit b) = F.lit (a + b))
    {nd znd : Int} {nz : ℕ} {done : List (Int × Int)} {sums sums' : Array β}
    {counts counts' : Array Int} (h : ZAcc F nd znd nz done sums counts) {v z : Int}
    (hB : ∀ k < nz, zasum nd znd (k : ℕ) (done ++ [(v, z)]) ≤ B)
    (hv : v ≠ nd) (hz : z ≠ znd) (h0 : 0 ≤ z)
    (hs : sums' = wrG sums z (F.add (rdD sums z (F.lit 0)) (F.lit v)))
    (hc : counts' = wr counts z (rd counts z + 1)) :
    ZAcc F nd znd nz (done ++ [(v, z)]) sums' counts' := by
  subst hs hc
  by_cases hzn : z < (nz : ℤ)
  · have hzt : z = ((z.toNat : ℕ) : ℤ) := by omega
    have hzl : z.toNat < nz := by omega
    refine ⟨by rw [size_wrG]; exact h.ssize, by rw [size_wr]; exact h.csize, fun k hk => ?_,
      fun k hk => ?_⟩
    · rw [zcnt_snoc]
      by_cases hk2 : z = (k : ℤ)
      · have : k = z.toNat := by omega
        subst this
        rw [if_pos ⟨hv, hz, hk2⟩, gv_wr_self _ _ _ _ hzt (by rw [h.csize]; exact hzl),
          rd_nonneg _ _ h0, h.cnt _ hk]
        push_cast; rfl
      · rw [if_neg (fun hh => hk2 hh.2.2), gv_wr_ne _ _ _ _ h0 hk2]; exact h.cnt k hk
    · rw [zsum_snoc]
      by_cases hk2 : z = (k : ℤ)
      · have : k = z.toNat := by omega
        subst this
        have hb := hB _ hk
        rw [zasum_snoc, if_pos ⟨hv, hz, hk2⟩] at hb
        have h2 := natAbs_zsum_le nd znd (z.toNat : ℕ) done
        have h3 := natAbs_zsum_le nd znd (z.toNat : ℕ) (done ++ [(v, z)])
        rw [zsum_snoc, zasum_snoc, if_pos ⟨hv, hz, hk2⟩, if_pos ⟨hv, hz, hk2⟩] at h3
        rw [if_pos ⟨hv, hz, hk2⟩, gD_wrG_self _ _ _ _ _ hzt (by rw [h.ssize]; exact hzl),
          rdD_nonneg _ _ _ h0, h.acc _ hk, hadd _ _ (by omega) (by omega) (by omega)]
      · rw [if_neg (fun hh => hk2 hh.2.2), gD_wrG_ne _ _ _ _ _ h0 hk2]; exact h.acc k hk
  · rw [wrG_out _ _ _ (by rw [h.ssize]; omega), wr_out _ _ _ (by rw [h.csize]; omega)]
    refine ⟨h.ssize, h.csize, fun k hk => ?_, fun k hk => ?_⟩
    · rw [zcnt_snoc, if_neg (fun hh => by omega)]; exact h.cnt k hk
    · rw [zsum_snoc, if_neg (fun hh => by omega)]; exact h.acc k hk

/-- one cell of the double loop: counted (`sums[z_idx] += pix; counts[z_idx] += 1`) or not; `hB`: in every time step the
    absolute values of the cells of each zone sum to at most `B` -/
theorem ZAcc.cellB {F : FloatOps β} {B : ℕ}
    (hadd : ∀ a b : Int, a.natAbs ≤ B → b.natAbs ≤ B → (a + b).natAbs ≤ B →
      F.add (F.lit a) (F.lit b) = F.lit (a + b))
    {pixels zones : List Int} {t nr nc nz tix rw cl : ℕ} {nd znd : Int}
    (hB : ∀ tix < t, ∀ k < nz, zasum nd znd (k : ℕ) (cells pixels zones (nr * nc) tix) ≤ B)
    (hlab : ∀ z ∈ zones, z = znd ∨ 0 ≤ z)
    (hp : pixels.length = t * (nr * nc)) (hz : zones.length = nr * nc) (ht : tix < t)
    (hr : rw < nr) (hc : cl < nc) {sums : Array β} {counts : Array Int}
    (h : ZAcc F nd znd nz ((cells pixels zones (nr * nc) tix).take (rw * nc + cl)) sums counts)
    {v z : Int} (hv : v = rd pixels.toArray (flat3 (t : ℤ) (nr : ℤ) (nc : ℤ) (tix : ℤ) (rw : ℤ) (cl : ℤ)))
    (hzv : z = rd zones.toArray (flat2 (nr : ℤ) (nc : ℤ) (rw : ℤ) (cl : ℤ))) :
    (v ≠ nd ∧ z ≠ znd → ZAcc F nd znd nz ((cells pixels zones (nr * nc) tix).take (rw * nc + (cl + 1)))
      (wrG sums z (F.add (rdD sums z (F.lit 0)) (F.lit v))) (wr counts z (rd counts z + 1))) ∧
    (¬ (v ≠ nd ∧ z ≠ znd) → ZAcc F nd znd nz
      ((cells pixels zones (nr * nc) tix).take (rw * nc + (cl + 1))) sums counts) := by
  have hBt : ∀ k < nz, zasum nd znd (k : ℕ)
      ((cells pixels zones (nr * nc) tix).take (rw * nc + (cl + 1))) ≤ B := fun k hk =>
    Nat.le_trans (zasum_take_le nd znd _ _ _) (hB tix ht k hk)
  rw [flat3_nat, rd_natCast, gv_toArray] at hv
  rw [flat2_nat, rd_natCast, gv_toArray] at hzv
  rw [cells_take_succ pixels zones t nr nc tix rw cl hp hz ht hr hc, ← hv, ← hzv] at hBt ⊢
  refine ⟨fun hh => ?_, fun hh => h.skip hh⟩
  have hm : rw * nc + cl < zones.length := by rw [hz]; exact mul_add_lt hr hc
  have h0 : 0 ≤ z := by
    rcases hlab z (by rw [hzv]; exact lv_mem zones _ hm) with h1 | h1
    · exact absurd h1 hh.2
    · exact h1
  exact h.addB hadd hBt hh.1 hh.2 h0 rfl rfl

end Hdc.GenKDoMean
