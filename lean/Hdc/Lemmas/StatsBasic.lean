import Hdc.Model.Stats
import Mathlib.Algebra.Order.Field.Basic
import Mathlib.Algebra.Order.AbsoluteValue.Basic
import Mathlib.Algebra.BigOperators.Group.List.Basic
import Mathlib.Tactic.Ring
import Mathlib.Tactic.Linarith
/-
Bridge lemmas: on a linearly ordered field the carrier primitives of `Hdc/Num.lean` are the
usual mathematical notions (`nat k = (k:α)`, `eqv a b ↔ a = b`, `absv = |·|`, `sumF = List.sum`).
-/
namespace Hdc.Stats

set_option linter.unusedSectionVars false

section order
variable {α : Type} [LinearOrder α]

theorem eqv_iff (a b : α) : eqv a b = true ↔ a = b := by
  unfold eqv
  simp only [Bool.and_eq_true, Bool.not_eq_eq_eq_not, Bool.not_true, decide_eq_false_iff_not,
    not_lt]
  constructor
  · rintro ⟨h1, h2⟩; exact le_antisymm h2 h1
  · rintro rfl; exact ⟨le_refl _, le_refl _⟩

theorem eqv_eq_decide (a b : α) : eqv a b = decide (a = b) := by
  by_cases h : a = b
  · rw [(eqv_iff a b).2 h]; simp [h]
  · have : eqv a b ≠ true := fun h' => h ((eqv_iff a b).1 h')
    simp [h, this]

theorem eqv_self (a : α) : eqv a a = true := (eqv_iff a a).2 rfl

theorem eqv_false_iff (a b : α) : eqv a b = false ↔ a ≠ b := by
  rw [eqv_eq_decide]; simp

end order

variable {α : Type} [Field α] [LinearOrder α] [IsStrictOrderedRing α]

theorem nat_eq (k : ℕ) : (nat k : α) = (k : α) := rfl
@[simp] theorem nat_zero : (nat 0 : α) = 0 := by simp [nat]
@[simp] theorem nat_one : (nat 1 : α) = 1 := by simp [nat]
@[simp] theorem nat_two : (nat 2 : α) = 2 := by simp [nat]

theorem absv_eq (a : α) : absv a = |a| := by
  unfold absv
  rw [nat_zero]
  split_ifs with h
  · exact (abs_of_neg h).symm
  · exact (abs_of_nonneg (not_lt.1 h)).symm

theorem foldl_add_eq (l : List α) (a : α) : l.foldl (· + ·) a = a + l.sum := by
  induction l generalizing a with
  | nil => simp
  | cons x xs ih => rw [List.foldl_cons, ih, List.sum_cons]; ring

theorem sumF_eq (l : List α) : sumF l = l.sum := by
  unfold sumF; rw [foldl_add_eq, nat_zero, zero_add]

theorem sumL_eq (l : List α) : sumL l = l.sum := by
  unfold sumL; rw [foldl_add_eq, nat_zero, zero_add]

theorem foldl_add_int (l : List Int) (a : Int) : l.foldl (· + ·) a = a + l.sum := by
  induction l generalizing a with
  | nil => simp
  | cons x xs ih => rw [List.foldl_cons, ih, List.sum_cons]; ring

end Hdc.Stats
