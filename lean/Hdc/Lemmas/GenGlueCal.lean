import Hdc.Lemmas.GenGlue
import Hdc.Model.Discrete
import Hdc.Model.Stats
import Hdc.Lemmas.SpiGroup
import Hdc.Lemmas.SpiSearch
/-
Hypotheses about the library parameters of `get_calibration_indices` / `PixelAlgorithms.spi` and the bridge from the
boolean-mask selection `time[groups == ix]` to the model's `gatherGrp` (no generated program is mentioned here).
-/
namespace Hdc.GenGlue
open Hdc Hdc.PyGlue

/-- assumed behaviour of `ndarray.searchsorted(v, side)`: on an ASCENDING array the insertion points of NumPy's documentation
    (`left`: number of entries `< v`, `right`: number of entries `≤ v`), which are the model's `searchLeft` / `searchRight`.
    Nothing is assumed about unsorted arrays (NumPy's binary search gives no guarantee there) nor about other `side`s. -/
def SearchsortedSpec (ss : List Int → Int → String → Except Exc Int) : Prop :=
  ∀ (a : List Int) (v : Int), a.Pairwise (· ≤ ·) →
    ss a v "left" = .ok (Py.searchLeft a v : Nat) ∧ ss a v "right" = .ok (Py.searchRight a v : Nat)

/-- assumed behaviour of `np.array(table, dtype="int16")`: the table itself when every entry is an int16 value
    (NumPy raises OverflowError otherwise: nothing is assumed then) -/
def Int16TableSpec (arr16 : List (List Int) → Except Exc (List (List Int))) : Prop :=
  ∀ t : List (List Int), (∀ r ∈ t, ∀ v ∈ r, -32768 ≤ v ∧ v ≤ 32767) → arr16 t = .ok t

/-- `time[groups == g]` (boolean mask of the same length) is the model's `gatherGrp` -/
theorem maskSelect_eq_gatherGrp {β : Type} (xx : List β) (groups : List Nat) (g : Nat)
    (hlen : groups.length = xx.length) :
    maskSelect xx (groups.map fun k => decide (k = g)) = .ok (gatherGrp xx groups g) := by
  unfold maskSelect gatherGrp
  rw [if_pos (by simp [hlen])]
  congr 1
  rw [List.zip_map_right, List.filter_map, List.map_map]
  have : (fun p : β × Bool => p.1) ∘ Prod.map id (fun k => decide (k = g)) = fun p : β × Nat => p.1 := by
    funext p; rfl
  rw [this]
  congr 1

theorem gatherGrp_ascending (time : List Int) (h : time.Pairwise (· ≤ ·)) (groups : List Nat) (g : Nat) :
    (gatherGrp time groups g).Pairwise (· ≤ ·) :=
  List.Pairwise.sublist (Hdc.Spi.gatherGrp_sublist g groups time) h

end Hdc.GenGlue
