import Hdc.Lemmas.PyNpT
import Hdc.Model.Discrete
/-
Loop invariants for `Gen.Kernels.do_mean` against the model `Hdc.zonalMean` / `Hdc.zoneStats` (one time step of the
row-major flattened pixel cube at a time).
-/
namespace Hdc.GenKDoMean
open Hdc Hdc.PyNpT Hdc.GenKernels Hdc.Gen.Kernels

/-! ### the statistics of zone `k` over a list of (pixel, zone label) cells -/

/-- the cells that count for zone `k` -/
def zsel (nd znd k : Int) (l : List (Int × Int)) : List (Int × Int) :=
  l.filter fun p => decide (p.1 ≠ nd ∧ p.2 ≠ znd ∧ p.2 = k)

def zsum (nd znd k : Int) (l : List (Int × Int)) : Int := ((zsel nd znd k l).map fun p => p.1).sum
def zcnt (nd znd k : Int) (l : List (Int × Int)) : ℕ := (zsel nd znd k l).length

theorem zoneStats_eq (pix zones : List Int) (nd znd k : Int) :
    zoneStats pix zones nd znd k = (zsum nd znd k (pix.zip zones), zcnt nd znd k (pix.zip zones)) := by
  unfold zoneStats zsum zcnt zsel
  rw [foldl_pair]
  simp only [Int.zero_add, Nat.zero_add]

theorem zsum_snoc (nd znd k : Int) (l : List (Int × Int)) (v z : Int) :
    zsum nd znd k (l ++ [(v, z)])
      = if v ≠ nd ∧ z ≠ znd ∧ z = k then zsum nd znd k l + v else zsum nd znd k l := by
  unfold zsum zsel
  by_cases h : v ≠ nd ∧ z ≠ znd ∧ z = k
  · rw [if_pos h]; obtain ⟨h1, h2, rfl⟩ := h; simp [List.filter_append, h1, h2]
  · rw [if_neg h]; simp [List.filter_append, h]

theorem zcnt_snoc (nd znd k : Int) (l : List (Int × Int)) (v z : Int) :
    zcnt nd znd k (l ++ [(v, z)])
      = if v ≠ nd ∧ z ≠ znd ∧ z = k then zcnt nd znd k l + 1 else zcnt nd znd k l := by
  unfold zcnt zsel
  by_cases h : v ≠ nd ∧ z ≠ znd ∧ z = k
  · rw [if_pos h]; obtain ⟨h1, h2, rfl⟩ := h; simp [List.filter_append, h1, h2]
  · rw [if_neg h]; simp [List.filter_append, h]

/-! ### the accumulation loops (`for rw`, `for cl`) -/

variable {β : Type}

/-- `sums` / `counts` hold the statistics of every zone over the cells `done` -/
structure ZAcc (F : FloatOps β) (nd znd : Int) (nz : ℕ) (done : List (Int × Int)) (sums : Array β)
    (counts : Array Int) : Prop where
  ssize : sums.size = nz
  csize : counts.size = nz
  cnt : ∀ k < nz, gv counts k = zcnt nd znd (k : ℕ) done
  acc : ∀ k < nz, gD sums k (F.lit 0) = F.lit (zsum nd znd (k : ℕ) done)

/-- `sums[:] = 0; counts[:] = 0` -/
theorem ZAcc.init (F : FloatOps β) (nd znd : Int) {nz : ℕ} {sums : Array β} {counts : Array Int}
    (hs : sums.size = nz) (hc : counts.size = nz) :
    ZAcc F nd znd nz [] (sums.map fun _ => F.lit 0) (counts.map fun _ => (0 : Int)) := by
  refine ⟨by simpa using hs, by simpa using hc, fun k hk => ?_, fun k hk => ?_⟩
  · rw [gv_map_const counts 0 k (by omega)]; rfl
  · rw [gD_map_const sums _ _ k (by omega)]; rfl

theorem ZAcc.cast {F : FloatOps β} {nd znd : Int} {nz : ℕ} {done done' : List (Int × Int)}
    {sums : Array β} {counts : Array Int} (h : ZAcc F nd znd nz done sums counts)
    (hd : done = done') : ZAcc F nd znd nz done' sums counts := hd ▸ h

/-- a cell that does not count (nodata pixel or nodata zone) -/
theorem ZAcc.skip {F : FloatOps β} {nd znd : Int} {nz : ℕ} {done : List (Int × Int)}
    {sums : Array β} {counts : Array Int} (h : ZAcc F nd znd nz done sums counts) {v z : Int}
    (hv : ¬ (v ≠ nd ∧ z ≠ znd)) : ZAcc F nd znd nz (done ++ [(v, z)]) sums counts := by
  refine ⟨h.ssize, h.csize, fun k hk => ?_, fun k hk => ?_⟩
  · rw [zcnt_snoc, if_neg (fun hh => hv ⟨hh.1, hh.2.1⟩)]; exact h.cnt k hk
  · rw [zsum_snoc, if_neg (fun hh => hv ⟨hh.1, hh.2.1⟩)]; exact h.acc k hk

/-- a cell that counts: `sums[z_idx] += pix; counts[z_idx] += 1` (a label `≥ num_zones` writes beyond the arrays: dropped) -/
theorem ZAcc.add {F : FloatOps β} (hadd : ∀ a b : Int, F.add (F.lit a) (F.lit b) = F.lit (a + b))
    {nd znd : Int} {nz : ℕ} {done : List (Int × Int)} {sums sums' : Array β}
    {counts counts' : Array Int} (h : ZAcc F nd znd nz done sums counts) {v z : Int}
    (hv : v ≠ nd) (hz : z ≠ znd) (h0 : 0 ≤ z)
    (hs : sums' = wrG sums z (F.add (rdD sums z (F.lit 0)) (F.lit v)))
    (hc : counts' = wr counts z (rd counts z + 1)) :
    ZAcc F nd znd nz (done ++ [(v, z)]) sums' counts' := by
  subst hs hc
  by_cases hzn : z < (nz : ℤ)
  · have hzt : z = ((z.toNat : ℕ) : ℤ) := by omega
    have hzl : z.toNat < nz := by omega
    refine ⟨by rw [size_wrG]; exact h.ssize, by rw [size_wr]; exact h.csize, fun k hk => ?_,
      fun k hk => ?_⟩
    · rw [zcnt_snoc]
      by_cases hk2 : z = (k : ℤ)
      · have : k = z.toNat := by omega
        subst this
        rw [if_pos ⟨hv, hz, hk2⟩, gv_wr_self _ _ _ _ hzt (by rw [h.csize]; exact hzl),
          rd_nonneg _ _ h0, h.cnt _ hk]
        push_cast; rfl
      · rw [if_neg (fun hh => hk2 hh.2.2), gv_wr_ne _ _ _ _ h0 hk2]; exact h.cnt k hk
    · rw [zsum_snoc]
      by_cases hk2 : z = (k : ℤ)
      · have : k = z.toNat := by omega
        subst this
        rw [if_pos ⟨hv, hz, hk2⟩, gD_wrG_self _ _ _ _ _ hzt (by rw [h.ssize]; exact hzl),
          rdD_nonneg _ _ _ h0, h.acc _ hk, hadd]
      · rw [if_neg (fun hh => hk2 hh.2.2), gD_wrG_ne _ _ _ _ _ h0 hk2]; exact h.acc k hk
  · rw [wrG_out _ _ _ (by rw [h.ssize]; omega), wr_out _ _ _ (by rw [h.csize]; omega)]
    refine ⟨h.ssize, h.csize, fun k hk => ?_, fun k hk => ?_⟩
    · rw [zcnt_snoc, if_neg (fun hh => by omega)]; exact h.cnt k hk
    · rw [zsum_snoc, if_neg (fun hh => by omega)]; exact h.acc k hk

/-! ### the cells of one time step -/

/-- time step `tix` of the flattened cube, paired with the zone labels -/
def cells (pixels zones : List Int) (nrc tix : ℕ) : List (Int × Int) :=
  ((pixels.drop (tix * nrc)).take nrc).zip zones

theorem mul_add_lt {a b n m : ℕ} (ha : a < n) (hb : b < m) : a * m + b < n * m := by
  calc a * m + b < a * m + m := by omega
    _ = (a + 1) * m := by ring
    _ ≤ n * m := Nat.mul_le_mul_right m (by omega)

/-- the next cell of the double loop `for rw … for cl` -/
theorem cells_take_succ (pixels zones : List Int) (t nr nc tix rw cl : ℕ)
    (hp : pixels.length = t * (nr * nc)) (hz : zones.length = nr * nc) (ht : tix < t)
    (hr : rw < nr) (hc : cl < nc) :
    (cells pixels zones (nr * nc) tix).take (rw * nc + (cl + 1))
      = (cells pixels zones (nr * nc) tix).take (rw * nc + cl)
        ++ [(lv pixels ((tix * nr + rw) * nc + cl), lv zones (rw * nc + cl))] := by
  have hm : rw * nc + cl < nr * nc := mul_add_lt hr hc
  have hpl : tix * (nr * nc) + (rw * nc + cl) < pixels.length := by
    rw [hp]; exact mul_add_lt ht hm
  have hlen : rw * nc + cl < (cells pixels zones (nr * nc) tix).length := by
    simp only [cells, List.length_zip, List.length_take, List.length_drop, hz, hp]
    have : nr * nc ≤ t * (nr * nc) - tix * (nr * nc) := by
      rw [← Nat.sub_mul]
      exact Nat.le_mul_of_pos_left _ (by omega)
    omega
  have hidx : (tix * nr + rw) * nc + cl = tix * (nr * nc) + (rw * nc + cl) := by ring
  have hget : (cells pixels zones (nr * nc) tix)[rw * nc + cl]
      = (lv pixels ((tix * nr + rw) * nc + cl), lv zones (rw * nc + cl)) := by
    simp only [cells, List.getElem_zip, List.getElem_take, List.getElem_drop]
    rw [lv_eq_getElem pixels _ (by omega), lv_eq_getElem zones _ (by omega)]
    simp only [hidx]
  rw [show rw * nc + (cl + 1) = rw * nc + cl + 1 by ring, List.take_add_one,
    List.getElem?_eq_getElem hlen, hget]
  rfl

theorem cells_take_all (pixels zones : List Int) (nrc tix : ℕ) :
    (cells pixels zones nrc tix).take nrc = cells pixels zones nrc tix := by
  apply List.take_of_length_le
  simp only [cells, List.length_zip, List.length_take]
  omega

/-- one cell of the double loop: counted (`sums[z_idx] += pix; counts[z_idx] += 1`) or not -/
theorem ZAcc.cell {F : FloatOps β} (hadd : ∀ a b : Int, F.add (F.lit a) (F.lit b) = F.lit (a + b))
    {pixels zones : List Int} {t nr nc nz tix rw cl : ℕ} {nd znd : Int}
    (hlab : ∀ z ∈ zones, z = znd ∨ 0 ≤ z)
    (hp : pixels.length = t * (nr * nc)) (hz : zones.length = nr * nc) (ht : tix < t)
    (hr : rw < nr) (hc : cl < nc) {sums : Array β} {counts : Array Int}
    (h : ZAcc F nd znd nz ((cells pixels zones (nr * nc) tix).take (rw * nc + cl)) sums counts)
    {v z : Int} (hv : v = rd pixels.toArray (flat3 (t : ℤ) (nr : ℤ) (nc : ℤ) (tix : ℤ) (rw : ℤ) (cl : ℤ)))
    (hzv : z = rd zones.toArray (flat2 (nr : ℤ) (nc : ℤ) (rw : ℤ) (cl : ℤ))) :
    (v ≠ nd ∧ z ≠ znd → ZAcc F nd znd nz ((cells pixels zones (nr * nc) tix).take (rw * nc + (cl + 1)))
      (wrG sums z (F.add (rdD sums z (F.lit 0)) (F.lit v))) (wr counts z (rd counts z + 1))) ∧
    (¬ (v ≠ nd ∧ z ≠ znd) → ZAcc F nd znd nz
      ((cells pixels zones (nr * nc) tix).take (rw * nc + (cl + 1))) sums counts) := by
  rw [flat3_nat, rd_natCast, gv_toArray] at hv
  rw [flat2_nat, rd_natCast, gv_toArray] at hzv
  rw [cells_take_succ pixels zones t nr nc tix rw cl hp hz ht hr hc, ← hv, ← hzv]
  refine ⟨fun hh => ?_, fun hh => h.skip hh⟩
  have hm : rw * nc + cl < zones.length := by rw [hz]; exact mul_add_lt hr hc
  have h0 : 0 ≤ z := by
    rcases hlab z (by rw [hzv]; exact lv_mem zones _ hm) with h1 | h1
    · exact absurd h1 hh.2
    · exact h1
  exact h.add hadd hh.1 hh.2 h0 rfl rfl

/-! ### the output loop (`for idx`) and the loop over the time steps -/

/-- the model of time step `tix` -/
def zmodel (pixels zones : List Int) (nrc nz : ℕ) (nd znd : Int) (tix : ℕ) : List (Int × Nat) :=
  zonalMean ((pixels.drop (tix * nrc)).take nrc) zones nz nd znd

/-- the two cells `result[tix, idx, 0]`, `result[tix, idx, 1]` of one zone -/
def zcell (F : FloatOps β) (sc : Int × Nat) : List β := [F.quot F.nan sc.1 sc.2, F.lit (sc.2 : ℕ)]

/-- the flattened result of the first `p` time steps -/
def zdone (F : FloatOps β) (pixels zones : List Int) (nrc nz : ℕ) (nd znd : Int) (p : ℕ) : List β :=
  (List.range p).flatMap fun tix => (zmodel pixels zones nrc nz nd znd tix).flatMap (zcell F)

theorem zmodel_length (pixels zones : List Int) (nrc nz : ℕ) (nd znd : Int) (tix : ℕ) :
    (zmodel pixels zones nrc nz nd znd tix).length = nz := by
  simp [zmodel, zonalMean]

theorem flatMap_zcell_length (F : FloatOps β) (l : List (Int × Nat)) :
    (l.flatMap (zcell F)).length = l.length * 2 := by
  induction l with
  | nil => rfl
  | cons a l ih => simp [List.flatMap_cons, ih, zcell]; omega

theorem zdone_length (F : FloatOps β) (pixels zones : List Int) (nrc nz : ℕ) (nd znd : Int) (p : ℕ) :
    (zdone F pixels zones nrc nz nd znd p).length = p * (nz * 2) := by
  induction p with
  | zero => simp [zdone]
  | succ p ih =>
    unfold zdone at ih ⊢
    rw [List.range_succ, List.flatMap_append, List.length_append, ih]
    simp only [List.flatMap_cons, List.flatMap_nil, List.append_nil, flatMap_zcell_length,
      zmodel_length]
    ring

/-- output loop in time step `tix` after `i` zones -/
structure RIn (F : FloatOps β) (pixels zones : List Int) (t nrc nz : ℕ) (nd znd : Int) (tix i : ℕ)
    (result : Array β) : Prop where
  size : result.size = t * (nz * 2)
  pre : result.toList.take (tix * (nz * 2) + i * 2)
    = zdone F pixels zones nrc nz nd znd tix
      ++ ((zmodel pixels zones nrc nz nd znd tix).take i).flatMap (zcell F)

/-- loop over the time steps after `p` steps -/
structure ROut (F : FloatOps β) (pixels zones : List Int) (t nrc nz : ℕ) (nd znd : Int) (p : ℕ)
    (result : Array β) (sums : Array β) (counts : Array Int) : Prop where
  size : result.size = t * (nz * 2)
  pre : result.toList.take (p * (nz * 2)) = zdone F pixels zones nrc nz nd znd p
  ssize : sums.size = nz
  csize : counts.size = nz

theorem ROut.init (F : FloatOps β) (pixels zones : List Int) (t nrc nz : ℕ) (nd znd : Int) :
    ROut F pixels zones t nrc nz nd znd 0 (npFull ((t : ℤ) * (nz : ℤ) * 2) (F.lit 0))
      (npFull (nz : ℤ) (F.lit 0)) (npFull (nz : ℤ) (0 : Int)) := by
  refine ⟨?_, by simp [zdone], by simp [npFull], by simp [npFull]⟩
  simp only [npFull, Array.size_replicate]
  have : (t : ℤ) * (nz : ℤ) * 2 = ((t * (nz * 2) : ℕ) : ℤ) := by push_cast; ring
  rw [this, Int.toNat_natCast]

/-- entry of the output loop -/
theorem ROut.enter {F : FloatOps β} {pixels zones : List Int} {t nrc nz : ℕ} {nd znd : Int} {p : ℕ}
    {result sums : Array β} {counts : Array Int}
    (h : ROut F pixels zones t nrc nz nd znd p result sums counts) :
    RIn F pixels zones t nrc nz nd znd p 0 result :=
  ⟨h.size, by simpa using h.pre⟩

/-- exit of the output loop: one more time step -/
theorem RIn.exit {F : FloatOps β} {pixels zones : List Int} {t nrc nz : ℕ} {nd znd : Int} {p : ℕ}
    {result sums : Array β} {counts : Array Int}
    (h : RIn F pixels zones t nrc nz nd znd p nz result) (hs : sums.size = nz)
    (hc : counts.size = nz) : ROut F pixels zones t nrc nz nd znd (p + 1) result sums counts := by
  refine ⟨h.size, ?_, hs, hc⟩
  have := h.pre
  have e : (zmodel pixels zones nrc nz nd znd p).take nz = zmodel pixels zones nrc nz nd znd p :=
    List.take_of_length_le (by rw [zmodel_length])
  rw [e] at this
  rw [show (p + 1) * (nz * 2) = p * (nz * 2) + nz * 2 by ring, this]
  unfold zdone
  rw [List.range_succ, List.flatMap_append]
  simp

/-- one zone: `result[tix, idx, 0] = sums[idx] / counts[idx]` or NaN, `result[tix, idx, 1] = counts[idx]` -/
theorem RIn.step {F : FloatOps β} {pixels zones : List Int} {t nr nc nz : ℕ} {nd znd : Int}
    {tix i : ℕ} {result result' sums : Array β} {counts : Array Int}
    (h : RIn F pixels zones t (nr * nc) nz nd znd tix i result) (ht : tix < t) (hi : i < nz)
    (hA : ZAcc F nd znd nz ((cells pixels zones (nr * nc) tix).take (nr * nc)) sums counts)
    {i0 i1 : ℤ} (hi0 : i0 = flat3 (t : ℤ) (nz : ℤ) 2 (tix : ℤ) (i : ℤ) 0)
    (hi1 : i1 = flat3 (t : ℤ) (nz : ℤ) 2 (tix : ℤ) (i : ℤ) 1) {v0 : β}
    (hv0 : v0 = if rd counts i > 0 then F.div (rdD sums i (F.lit 0)) (F.lit (rd counts i)) else F.nan)
    (hr : result' = wrG (wrG result i0 v0) i1 (F.lit (rd counts i))) :
    RIn F pixels zones t (nr * nc) nz nd znd tix (i + 1) result' := by
  subst hr
  rw [cells_take_all] at hA
  replace hi0 : i0 = (((tix * nz + i) * 2 + 0 : ℕ) : ℤ) := by
    rw [hi0, ← flat3_nat t nz 2 tix i 0]; rfl
  replace hi1 : i1 = (((tix * nz + i) * 2 + 1 : ℕ) : ℤ) := by
    rw [hi1, ← flat3_nat t nz 2 tix i 1]; rfl
  have hL : tix * (nz * 2) + i * 2 + 1 < t * (nz * 2) := by
    have := mul_add_lt (m := nz * 2) ht (show i * 2 + 1 < nz * 2 by omega)
    omega
  refine ⟨by rw [size_wrG, size_wrG]; exact h.size, ?_⟩
  have hm : (zmodel pixels zones (nr * nc) nz nd znd tix).take (i + 1)
      = (zmodel pixels zones (nr * nc) nz nd znd tix).take i
        ++ [(zsum nd znd (i : ℕ) (cells pixels zones (nr * nc) tix),
             zcnt nd znd (i : ℕ) (cells pixels zones (nr * nc) tix))] := by
    rw [List.take_add_one]
    congr 1
    simp only [zmodel, zonalMean, List.getElem?_map, List.getElem?_range hi, Option.map_some,
      zoneStats_eq, cells]
    rfl
  rw [hm, List.flatMap_append, ← List.append_assoc, ← h.pre]
  simp only [List.flatMap_cons, List.flatMap_nil, List.append_nil, zcell]
  rw [show tix * (nz * 2) + (i + 1) * 2 = (tix * (nz * 2) + i * 2 + 1) + 1 by ring,
    take_wrG _ _ _ _ (by rw [hi1]; congr 1; ring) (by rw [size_wrG, h.size]; exact hL),
    take_wrG _ _ _ _ (by rw [hi0]; congr 1; ring) (by rw [h.size]; omega),
    List.append_assoc]
  congr 2
  rw [rd_of_eq _ _ i rfl, rdD_of_eq _ _ _ i rfl, hA.cnt i hi, hA.acc i hi] at *
  subst hv0
  simp only [List.cons_append, List.nil_append, FloatOps.quot, List.cons.injEq, and_true]
  by_cases hc : zcnt nd znd (i : ℕ) (cells pixels zones (nr * nc) tix) = 0
  · rw [if_pos hc, if_neg (by omega)]
  · rw [if_neg hc, if_pos (by omega)]

/-- the whole array once all time steps are done -/
theorem ROut.final {F : FloatOps β} {pixels zones : List Int} {t nrc nz : ℕ} {nd znd : Int}
    {result sums : Array β} {counts : Array Int}
    (h : ROut F pixels zones t nrc nz nd znd t result sums counts) :
    result.toList = zdone F pixels zones nrc nz nd znd t := by
  rw [← h.pre, List.take_of_length_le (by rw [Array.length_toList, h.size])]

end Hdc.GenKDoMean
