import Hdc.Lemmas.GenNumWcvTac
import Hdc.Lemmas.SmoothGcvShift
import Hdc.Lemmas.SafeWcv
import Hdc.Props.SafeWs2d
/-
SafeOk  Facts for "under the contract the flag of the instrumented `ws2dwcv(robust=True)` is false"
(Hdc/Props/SafeWs2dwcvOk.lean): the model's chain `grun` (Hdc/Lemmas/SmoothGcv.lean) and the invariant `OuterInv` of the
refinement proof (Hdc/Lemmas/GenNumWcv.lean) are reused; here: what they give for the FLAG (sizes, positive divisors, the
contract of every `ws2d` call with the re-weighted `w * r_weights`).
-/
namespace Hdc.SafeOk
open Hdc Hdc.C01 Hdc.Gen.NumKernels Hdc.PyNpW Hdc.GenNum Hdc.Smooth Hdc.SafeL

set_option linter.unusedSectionVars false
set_option linter.unusedVariables false

variable {α : Type} [Field α] [LinearOrder α] [IsStrictOrderedRing α]

/-- a non-negative list with a positive cell has a positive sum -/
theorem sumF_pos_of_twoPos (l : List α) (h0 : ∀ x ∈ l, 0 ≤ x) (h2 : TwoPos l) : 0 < sumF l := by
  obtain ⟨i, j, hij, hj, hi0, _⟩ := h2
  rw [Smooth.sumF_eq]
  have hi : i < l.length := by omega
  rw [fn_of_lt l i hi] at hi0
  exact lt_of_lt_of_le hi0 (List.single_le_sum h0 _ (List.getElem_mem hi))

/-- the chain of `k + 1` iterations is defined only if the chain of `k` iterations is -/
theorem grun_none_succ (G : GFns α) (y w de lp : List α) (robust : Bool) (n : α) (k : ℕ) (st : GState α)
    (h : grun G y w de lp robust n k 0 st = none) : grun G y w de lp robust n (k + 1) 0 st = none := by
  rw [grun_succ_last, h]; rfl

theorem grun_none_le (G : GFns α) (y w de lp : List α) (robust : Bool) (n : α) (k j : ℕ) (st : GState α)
    (hkj : k ≤ j) (h : grun G y w de lp robust n k 0 st = none) : grun G y w de lp robust n j 0 st = none := by
  induction j with
  | zero => obtain rfl : k = 0 := by omega
            exact h
  | succ j ih =>
    rcases Nat.lt_or_ge k (j + 1) with hlt | hge
    · exact grun_none_succ G y w de lp robust n j st (ih (by omega))
    · obtain rfl : k = j + 1 := by omega
      exact h

/-- with the flag `unbound` up, the invariant of the robust loop says that the model's chain has failed -/
theorem outerInv_unbound {G : GFns α} {y w de lp : List α} {robust : Bool} {n : α} {p : ℕ}
    {yt : Array α} {set : Bool} {rwts : Array α} {rwset : Bool} {z rw : Array α}
    {rg : Array (Array α)} {gt : Array α}
    (h : OuterInv G y w de lp robust n p true yt set rwts rwset z rw rg gt) :
    grun G y w de lp robust n p 0 (gs0 G y) = none := by
  unfold OuterInv at h
  cases hg : grun G y w de lp robust n p 0 (gs0 G y) with
  | none => rfl
  | some st => rw [hg] at h; exact absurd h.1 (by simp)

/-- the invariants of the model's robust loop after `p` iterations (`robust = True`) -/
theorem grun_facts (G : GFns α) (Y w de lp : List α) (n : α) (p : ℕ) (st : GState α)
    (hwl : w.length = Y.length) (h2 : TwoPos w)
    (h : grun G Y w de lp true n p 0 (gs0 G Y) = some st) :
    RInv lp Y.length st ∧ TwoPos (mul2 w st.2.1) := by
  refine ⟨grun_rinv G de lp n hwl p 0 _ st (rinv_gstate0 G lp Y) h, ?_⟩
  apply grun_twoPos G de lp n p 0 _ st _ h
  show TwoPos (mul2 w (Y.map fun _ => (nat 1 : α)))
  rw [mul2_ones' w Y hwl]; exact h2

/-- the validity weights of a series with two valid cells have two positive cells -/
theorem twoPos_weights (miss : α → Bool) (y : List α) (hv : 2 ≤ countValid miss y) : TwoPos (weightsOf miss y) := by
  obtain ⟨i, k, hik, hk, h1, h2⟩ := exists_two_valid miss y hv
  refine ⟨i, k, hik, by simpa using hk, ?_, ?_⟩
  · rw [fn_weightsOf miss y i (by omega), h1]; simp
  · rw [fn_weightsOf miss y k hk, h2]; simp

/-- a λ of the sweep of iteration `p` is one of the model's `iterLams` -/
theorem lams_mem {Y w lp : List α} {p : ℕ} {st : GState α} {yt : Array α} {set : Bool} {rwts : Array α} {rwset : Bool}
    {z rw : Array α} {rg : Array (Array α)} {gt : Array α}
    (hok : OuterOk Y w p st yt set rwts rwset z rw rg gt) (lams : List α)
    (hl : lams = if 1 < p then [rd (rdA rg 1) 1] else lp) (cu : α) (hm : cu ∈ lams) : cu ∈ iterLams lp p st.2.2 := by
  rw [← iterLams_eq lp p _ rg hok.hist hok.hlen, ← hl]; exact hm

/-- `robust_gcv` has one entry per finished iteration -/
theorem rg_size {Y w : List α} {p : ℕ} {st : GState α} {yt : Array α} {set : Bool} {rwts : Array α} {rwset : Bool}
    {z rw : Array α} {rg : Array (Array α)} {gt : Array α}
    (hok : OuterOk Y w p st yt set rwts rwset z rw rg gt) : rg.size = p := by
  have := congrArg List.length hok.hist
  simp only [List.length_map, Array.length_toList] at this
  rw [this, hok.hlen]

/-- a row of `robust_gcv` -/
theorem rdA_mem {β : Type} (rg : Array (Array β)) (k : ℕ) (hk : k < rg.size) : rdA rg (k : ℤ) ∈ rg.toList := by
  rw [rdA_eq]
  simp only [List.getD_eq_getElem?_getD, List.getElem?_eq_getElem (show k < rg.toList.length by simpa using hk),
    Option.getD_some]
  exact List.getElem_mem _

theorem rdA_mem_one {β : Type} (rg : Array (Array β)) (hk : 1 < rg.size) : rdA rg 1 ∈ rg.toList := by
  have := rdA_mem rg 1 hk
  rwa [show ((1 : ℕ) : ℤ) = 1 from rfl] at this

/-- `robust_gcv[1][1]` is a λ of the grid -/
theorem rg_lam_mem {Y w lp : List α} {p n : ℕ} {st : GState α} {yt : Array α} {set : Bool} {rwts : Array α} {rwset : Bool}
    {z rw : Array α} {rg : Array (Array α)} {gt : Array α}
    (hok : OuterOk Y w p st yt set rwts rwset z rw rg gt) (hRI : RInv lp n st) (h1 : 1 < p) :
    rd (rdA rg 1) 1 ∈ lp := by
  have hl : 1 < st.2.2.length := by rw [hok.hlen]; exact h1
  have := hist_lam st.2.2 rg ⟨nat 0, nat 0, none⟩ hok.hist 1 hl
  rw [show ((1 : ℕ) : ℤ) = 1 from rfl] at this
  rw [this]
  apply hRI.2.2.2
  simp only [List.getD_eq_getElem?_getD, List.getElem?_eq_getElem hl, Option.getD_some]
  exact List.getElem_mem _

/-- a call `ws2d(y, λ, w * r_weights)` of the instrumented smoother, arrays against the lists of the model -/
theorem call_ok_arr (ya wta : Array α) (Y wt : List α) (lam : α) (hya : ya.toList = Y) (hwt : wta.toList = wt)
    (hc : C01.InContract Y wt lam) : (Gen.Safe.ws2d ya lam wta).2 = false := by
  have := SafeWs2d.safe_ws2d_ok_c01 Y wt lam hc
  rw [← hya, ← hwt] at this
  simpa using this

/-- `y[w != 0]` is not empty when a cell is valid -/
theorem select_size_pos (ya wa : Array α) (Y w : List α) (hya : ya.toList = Y) (hwa : wa.toList = w)
    (hl : w.length = Y.length) (i : ℕ) (hi : i < w.length) (hpos : 0 < fn w i) :
    (npSelect ya (npMap (fun e => !eqv e (nat 0)) wa)).size ≠ 0 := by
  intro h0
  have hl0 : (npSelect ya (npMap (fun e => !eqv e (nat 0)) wa)).toList.length = 0 := by
    rw [Array.length_toList]; exact h0
  rw [toList_npSelect, toList_npMap, hya, hwa, List.length_map, List.length_eq_zero_iff,
    List.filter_eq_nil_iff] at hl0
  have hiY : i < Y.length := by omega
  have hmem : (Y[i], (List.map (fun e => !eqv e (nat 0)) w)[i]'(by simpa using hi)) ∈
      Y.zip (List.map (fun e => !eqv e (nat 0)) w) := by
    rw [List.mem_iff_getElem]
    exact ⟨i, by simp; omega, by simp⟩
  have := hl0 _ hmem
  rw [fn_of_lt w i hi] at hpos
  simp only [List.getElem_map, Bool.not_eq_true', Bool.not_eq_false, eqv_zero_iff] at this
  exact hpos.ne' this

end Hdc.SafeOk
