import Hdc.Lemmas.PyNpW
import Hdc.Lemmas.SmoothGcv
import Hdc.Lemmas.SmoothIrls
import Hdc.Lemmas.GenNumOptv
/-
Lemmas for the refinement proofs "generated translation of ws2dwcv.py / ws2dwcvp.py = hand model
`Hdc.wcv` / `Hdc.wcvp`" (Hdc/Props/GenNumWcv.lean, GenNumWcvp.lean):

  (a) the NumPy idioms of the source at the list level = the model's functions
      (`weightsOf`, `countValid`, `cleanOf`, `deigs`, `gammaOf`, `gcvScore`, `robustStep`);
  (b) `bestOf` / `SweepOk`: the invariant of the loop over the λ grid (`gcvSweep`);
  (c) `OuterInv`: the invariant of the robust loop (`grun`, the chain of `gstep`s of
      Hdc/Lemmas/SmoothGcv.lean).

Nothing in this file mentions a generated kernel.
-/
namespace Hdc.GenNum
open Hdc Hdc.Gen.NumKernels Hdc.PyNpW Hdc.Smooth
open Hdc.Ws2dGen (av)

set_option linter.unusedSectionVars false

variable {α : Type} [Field α] [LinearOrder α] [IsStrictOrderedRing α]

/-- the missing-cell test of the GCV kernels: `(x == nodata) or np.isnan(x) or np.isinf(x)` -/
abbrev missG (nodata : α) (isnan isinf : α → Bool) : α → Bool :=
  fun x => eqv x nodata || isnan x || isinf x

/-! ### (a) NumPy idioms at the list level -/

/-- `w = 1 - np.array([miss(x) for x in y], dtype=float64)` -/
theorem weights_np (miss : α → Bool) (y : List α) :
    List.map (fun e => nat 1 - e)
      (List.map (fun (b : Bool) => if b = true then (nat 1 : α) else nat 0) (List.map miss y))
      = weightsOf miss y := by
  simp only [weightsOf, List.map_map]
  apply List.map_congr_left
  intro x _
  by_cases h : miss x <;> simp [h, nat]

/-- `n = np.sum(w)` is the number of valid cells -/
theorem sumF_weightsOf (miss : α → Bool) (y : List α) :
    sumF (weightsOf miss y) = (countValid miss y : α) := by
  rw [sumF_eq]
  induction y with
  | nil => simp [weightsOf, countValid]
  | cons x xs ih =>
    have ih' : (List.map (fun x => if miss x = true then (nat 0 : α) else nat 1) xs).sum
        = (countValid miss xs : α) := ih
    by_cases h : miss x
    · simp [weightsOf, countValid, h, nat] at ih' ⊢
      exact ih'
    · simp [weightsOf, countValid, h, nat] at ih' ⊢
      rw [ih']; ring

/-- `n > 4` -/
theorem four_lt_n_iff (miss : α → Bool) (y : List α) :
    (nat 4 : α) < sumF (weightsOf miss y) ↔ 4 < countValid miss y := by
  rw [sumF_weightsOf, nat]
  exact Nat.cast_lt

/-- `y = np.where(w == 0, 0.0, y)` -/
theorem clean_np (miss : α → Bool) (y : List α) :
    List.zipWith (fun (ci : Bool) (bi : α) => if ci = true then nat 0 else bi)
      (List.map (fun e => eqv e (nat 0)) (weightsOf miss y)) y = cleanOf miss y := by
  simp only [weightsOf, cleanOf, List.map_map]
  induction y with
  | nil => rfl
  | cons x xs ih =>
    simp only [List.map_cons, List.zipWith_cons_cons, ih, Function.comp]
    congr 1
    by_cases h : miss x
    · simp [h, nat, eqv]
    · simp [h, nat, eqv]

/-- `y[w != 0]`, `r_arr[w_temp != 0]` -/
theorem select_np (a w : List α) :
    List.map (fun p => p.1)
      (List.filter (fun p => p.2) (a.zip (List.map (fun e => !eqv e (nat 0)) w)))
      = ((a.zip w).filter fun (_, wi) => !(eqv wi (nat 0))).map (·.1) := by
  rw [List.zip_map_right, List.filter_map, List.map_map]
  rfl

/-- `d_eigs = -2 + 2 * np.cos(np.arange(m) * np.pi / m); d_eigs[0] = 1e-15` -/
theorem deigs_np (G : GFns α) (cos : α → α) (pi : α)
    (hG : ∀ i m : ℕ, G.eig i m = -2 + 2 * cos ((i : α) * pi / (m : α))) (m : ℕ) :
    (List.map (fun e => -nat 2 + e) (List.map (fun e => nat 2 * e) (List.map (fun e => cos e)
      (List.map (fun e => e / (((m : ℤ) : α))) (List.map (fun e => e * pi)
        (List.map (fun (e : ℤ) => (e : α)) (List.map (fun (k : ℕ) => (k : ℤ)) (List.range m)))))))).set 0 G.eig0
      = deigs G m := by
  simp only [deigs, List.map_map]
  apply List.ext_getElem
  · simp
  · intro i h1 h2
    simp only [List.length_set, List.length_map, List.length_range] at h1
    rw [List.getElem_set]
    by_cases hi : i = 0
    · subst hi; simp
    · have : ¬ 0 = i := fun h => hi h.symm
      simp [this, hi, hG, nat]

/-- `gamma = w_temp / (w_temp + s * ((-1 * d_eigs) ** 2))` -/
theorem gamma_np (wt de : List α) (s : α) :
    List.zipWith (fun a b => a / b) wt (List.zipWith (fun a b => a + b) wt
      (List.map (fun e => s * e) (List.map (fun e => e * e) (List.map (fun e => -nat 1 * e) de))))
      = gammaOf wt de s := by
  unfold gammaOf
  induction wt generalizing de with
  | nil => simp
  | cons a wt' ih =>
    cases de with
    | nil => simp
    | cons d ds => simp only [List.map_cons, List.zipWith_cons_cons, List.zip_cons_cons, ih]

/-- the GCV score as the source computes it from the fitted curve -/
theorem score_np (G : GFns α) (y wt de : List α) (s : α) :
    sumF (List.map (fun e => e * e) (List.zipWith (fun a b => a * b) (List.map (fun e => G.sqrtw e) wt)
        (List.zipWith (fun a b => a - b) y (ws2d y s wt)))) /
      (sumF wt * ((nat 1 - sumF (gammaOf wt de s) / sumF wt) * (nat 1 - sumF (gammaOf wt de s) / sumF wt)))
      = gsc G y wt de s := by
  simp only [gsc, gcvScore, mul2_eq, sub2_eq]

/-- `r_sel = r_arr[w_temp != 0]` with `r_arr = y - y_temp` -/
theorem rsel_np (y yt wt : List α) :
    List.map (fun p => p.1) (List.filter (fun p => p.2)
      ((List.zipWith (fun a b => a - b) y yt).zip (List.map (fun e => !eqv e (nat 0)) wt)))
      = rselOf y yt wt := by
  rw [select_np, rselOf, sub2_eq]

/-- `mad = np.median(np.abs(r_sel - np.median(r_sel)))` -/
theorem mad_np (y yt wt : List α) :
    median (List.map (fun e => absv e)
      (List.map (fun e => e - median (rselOf y yt wt)) (rselOf y yt wt))) = madOf y yt wt := by
  rw [madOf, List.map_map]
  rfl

/-- `mad_min = 1e-9 * (1.0 + (np.max(y_valid) - np.min(y_valid)))` with `y_valid = y[w != 0]` -/
theorem madmin_np (G : GFns α) (y w : List α) :
    G.madtol * (nat 1 + (maxL (List.map (fun p => p.1) (List.filter (fun p => p.2)
        (y.zip (List.map (fun e => !eqv e (nat 0)) w)))) -
      minL (List.map (fun p => p.1) (List.filter (fun p => p.2)
        (y.zip (List.map (fun e => !eqv e (nat 0)) w))))))
      = madMinOf G y w := by
  rw [select_np, madMinOf, yvOf, nat_one]

/-- the bisquare weights: `u = r / scale; r_new = (1 - (u/c)**2)**2; r_new[|u/c| > 1] = 0;
    r_new[r > 0] = 1` -/
theorem rnew_np (G : GFns α) (scale : α) (r : List α) :
    List.zipWith (fun (x : α) (b : Bool) => if b = true then nat 1 else x)
      (List.zipWith (fun (x : α) (b : Bool) => if b = true then nat 0 else x)
        (List.map (fun e => e * e) (List.map (fun e => nat 1 - e) (List.map (fun e => e * e)
          (List.map (fun e => e / G.c2) (List.map (fun e => e / scale) r)))))
        (List.map (fun e => decide (nat 1 < e)) (List.map (fun e => absv e)
          (List.map (fun e => e / G.c2) (List.map (fun e => e / scale) r)))))
      (List.map (fun e => decide (nat 0 < e)) r)
      = r.map (bisq G scale) := by
  induction r with
  | nil => rfl
  | cons x xs ih =>
    simp only [List.map_cons, List.zipWith_cons_cons, ih]
    congr 1
    simp only [bisq, nat_zero, nat_one, absv_eq, decide_eq_true_eq]

/-- `np.sum((w * r_new) > 0)` -/
theorem count_np (l : List α) :
    (((List.map (fun e => decide (nat 0 < e)) l).filter id).length : ℤ) = (countPos l : ℤ) := by
  rw [List.filter_map, List.length_map, countPos, nat_zero]
  rfl

theorem robustStep_new (G : GFns α) (y yt wt de rw w : List α) (s n : α)
    (h1 : madMinOf G y w < madOf y yt wt) (h2 : 1 < countPos (mul2 w (rnewOf G y yt wt de s n))) :
    rnewOf G y yt wt de s n = robustStep G y yt wt de rw w s n := by
  rw [robustStep_eq, if_pos h1, if_pos h2]

theorem robustStep_keep1 (G : GFns α) (y yt wt de rw w : List α) (s n : α)
    (h1 : madMinOf G y w < madOf y yt wt) (h2 : ¬ 1 < countPos (mul2 w (rnewOf G y yt wt de s n))) :
    rw = robustStep G y yt wt de rw w s n := by
  rw [robustStep_eq, if_pos h1, if_neg h2]

theorem robustStep_keep2 (G : GFns α) (y yt wt de rw w : List α) (s n : α)
    (h1 : ¬ madMinOf G y w < madOf y yt wt) :
    rw = robustStep G y yt wt de rw w s n := by
  rw [robustStep_eq, if_neg h1]

/-- `rnewOf` in the shape the source computes it -/
theorem rnewOf_np (G : GFns α) (y yt wt de : List α) (s n : α) :
    (List.zipWith (fun a b => a - b) y yt).map
      (bisq G (G.c1 * madOf y yt wt * G.sqrt (nat 1 - sumF (gammaOf wt de s) / n)))
      = rnewOf G y yt wt de s n := by
  rw [rnewOf, sub2_eq, nat_one]

/-! ### (b) the loop over the λ grid -/

/-- the running best of the source: `gcv_temp = [score, λ]`, and `y_temp` once it is bound -/
def bestOf (gt yt : Array α) (set : Bool) : Best α :=
  ⟨rd gt 0, rd gt 1, if set then some yt.toList else none⟩

/-- after the λ values `pre`: the state is the model's sweep over `pre`; a bound `y_temp` has the
    length of the data -/
structure SweepOk (G : GFns α) (y wt de : List α) (b0 : Best α) (pre : List α)
    (gt yt : Array α) (set : Bool) (z : Array α) : Prop where
  best : bestOf gt yt set = pre.foldl (sweepStep G y wt de) b0
  ylen : set = true → yt.size = y.length
  zlen : z.size = y.length

theorem SweepOk.init (G : GFns α) (y wt de : List α) (gt yt : Array α) (set : Bool) (z : Array α)
    (h : set = true → yt.size = y.length) (hz : z.size = y.length) :
    SweepOk G y wt de (bestOf gt yt set) [] gt yt set z := ⟨rfl, h, hz⟩

/-- `gcv[0] < gcv_temp[0]`: the candidate replaces the running best, `y_temp = z` -/
theorem SweepOk.step_lt {G : GFns α} {y wt de : List α} {b0 : Best α} {pre : List α} {cur sc : α}
    {gt yt z z0 : Array α} {set : Bool} (h : SweepOk G y wt de b0 pre gt yt set z0)
    (hlt : rd #[sc, cur] 0 < rd gt 0) (hsc : sc = gsc G y wt de cur)
    (hz : z = (ws2d y cur wt).toArray) (hw : wt.length = y.length) :
    SweepOk G y wt de b0 (pre ++ [cur]) #[sc, cur] z true z := by
  have hzl : z.size = y.length := by rw [hz, List.size_toArray, C01.ws2d_length y wt cur hw]
  refine ⟨?_, fun _ => hzl, hzl⟩
  rw [List.foldl_append, ← h.best]
  simp only [List.foldl_cons, List.foldl_nil, sweepStep]
  rw [rd_pair_zero] at hlt
  have h0 : (bestOf gt yt set).score = rd gt 0 := rfl
  rw [h0, ← hsc, if_pos hlt, cand, ← hsc, hz]
  simp [bestOf, rd_pair_zero, rd_pair_one]

/-- otherwise the running best stays -/
theorem SweepOk.step_ge {G : GFns α} {y wt de : List α} {b0 : Best α} {pre : List α} {cur sc : α}
    {gt yt z z0 : Array α} {set : Bool} (h : SweepOk G y wt de b0 pre gt yt set z0)
    (hge : ¬ rd #[sc, cur] 0 < rd gt 0) (hsc : sc = gsc G y wt de cur)
    (hz : z = (ws2d y cur wt).toArray) (hw : wt.length = y.length) :
    SweepOk G y wt de b0 (pre ++ [cur]) gt yt set z := by
  refine ⟨?_, h.ylen, by rw [hz, List.size_toArray, C01.ws2d_length y wt cur hw]⟩
  rw [List.foldl_append, ← h.best]
  simp only [List.foldl_cons, List.foldl_nil, sweepStep]
  rw [rd_pair_zero] at hge
  have h0 : (bestOf gt yt set).score = rd gt 0 := rfl
  rw [h0, ← hsc, if_neg hge]

/-- the translated `ws2d` on arbitrary arrays -/
theorem gen_ws2d_arrW (a b : Array α) (s : α) (h : b.size = a.size) (h3 : 3 ≤ a.size) :
    Gen.Ws2d.ws2d a s b = (Hdc.ws2d a.toList s b.toList).toArray := by
  have := C01gen.gen_ws2d_eq_model a.toList b.toList s (by simpa using h) (by simpa using h3)
  rw [← this]

/-- `lopt[0] = v` on the one-cell buffer -/
theorem wr_one (a : Array α) (v : α) (h : a.size = 1) : wr a 0 v = #[v] :=
  Array.toList_inj.1 (wr_single a v h)

theorem gen_ws2d_sizeW (a b : Array α) (s : α) (h : b.size = a.size) (h3 : 3 ≤ a.size) :
    (Gen.Ws2d.ws2d a s b).size = a.size := by
  rw [gen_ws2d_arrW _ _ _ h h3, List.size_toArray, C01.ws2d_length _ _ _ (by simpa using h)]
  simp

/-! ### (c) the robust loop -/

/-- initial state of the loop -/
def gs0 (G : GFns α) (y : List α) : GState α := (⟨G.big, nat 0, none⟩, y.map (fun _ => nat 1), [])

/-- the program state `(y_temp, y_temp_set, robust_weights, robust_weights_set, z, r_weights, robust_gcv,
    gcv_temp)` after `p` iterations is the model's state `st` -/
structure OuterOk (y w : List α) (p : ℕ) (st : GState α)
    (yt : Array α) (set : Bool) (rwts : Array α) (rwset : Bool) (z rw : Array α)
    (rg : Array (Array α)) (gt : Array α) : Prop where
  zlen : z.size = y.length
  best : bestOf gt yt set = st.1
  ylen : set = true → yt.size = y.length
  rweq : rw.toList = st.2.1
  rwlen : rw.size = y.length
  hist : rg.toList.map (fun a => rd a 1) = st.2.2.map (·.lam)
  hlen : st.2.2.length = p
  rwts : 0 < p → rwset = true ∧ rwts.toList = mul2 w st.2.1

/-- invariant of the robust loop after `p` iterations: the model's chain `grun` failed (an unbound
    `y_temp` was read) and the flag `unbound` is up, or it is in the state of the program -/
def OuterInv (G : GFns α) (y w de lp : List α) (robust : Bool) (n : α) (p : ℕ)
    (unbound : Bool) (yt : Array α) (set : Bool) (rwts : Array α) (rwset : Bool) (z rw : Array α)
    (rg : Array (Array α)) (gt : Array α) : Prop :=
  match grun G y w de lp robust n p 0 (gs0 G y) with
  | none => unbound = true
  | some st => unbound = false ∧ OuterOk y w p st yt set rwts rwset z rw rg gt

/-- while `unbound` is down the model's chain is in the state of the program -/
theorem OuterInv.ok {G : GFns α} {y w de lp : List α} {robust : Bool} {n : α} {p : ℕ} {unbound : Bool}
    {yt : Array α} {set : Bool} {rwts : Array α} {rwset : Bool} {z rw : Array α}
    {rg : Array (Array α)} {gt : Array α}
    (h : OuterInv G y w de lp robust n p unbound yt set rwts rwset z rw rg gt) (hu : unbound = false) :
    ∃ st, grun G y w de lp robust n p 0 (gs0 G y) = some st ∧ OuterOk y w p st yt set rwts rwset z rw rg gt := by
  unfold OuterInv at h
  cases hg : grun G y w de lp robust n p 0 (gs0 G y) with
  | none => rw [hg] at h; rw [h] at hu; cases hu
  | some st => rw [hg] at h; exact ⟨st, rfl, h.2⟩

theorem OuterInv.init (G : GFns α) (y w de lp : List α) (robust : Bool) (n : α) (m : ℕ)
    (hm : m = y.length) (rwts : Array α) :
    OuterInv G y w de lp robust n 0 false #[] false rwts false (Array.replicate m (nat 0))
      (Array.replicate m (nat 1)) #[] #[G.big, nat 0] := by
  subst hm
  unfold OuterInv
  simp only [grun]
  refine ⟨by trivial, ?_⟩
  exact {
    zlen := by simp
    best := by simp [bestOf, gs0, rd_pair_zero, rd_pair_one]
    ylen := fun h => by cases h
    rweq := by simp [gs0]
    rwlen := by simp
    hist := rfl
    hlen := rfl
    rwts := fun h => by omega }

theorem hist_lam (hist : List (Best α)) (rg : Array (Array α)) (d : Best α)
    (hh : rg.toList.map (fun a => rd a 1) = hist.map (·.lam)) (k : ℕ) (hk : k < hist.length) :
    rd (rdA rg (k : ℤ)) 1 = (hist.getD k d).lam := by
  rw [rdA_eq]
  have h1 : (rg.toList.map (fun a => rd a 1)).getD k 0 = (hist.map (·.lam)).getD k 0 := by rw [hh]
  have hk' : k < rg.toList.length := by
    have := congrArg List.length hh
    simp only [List.length_map] at this
    omega
  simp only [List.getD_eq_getElem?_getD, List.getElem?_map, List.getElem?_eq_getElem hk,
    List.getElem?_eq_getElem hk', Option.map_some, Option.getD_some] at h1 ⊢
  exact h1

/-- the λ values of iteration `p`, read from `robust_gcv` -/
theorem iterLams_eq (lp : List α) (p : ℕ) (hist : List (Best α)) (rg : Array (Array α))
    (hh : rg.toList.map (fun a => rd a 1) = hist.map (·.lam)) (hl : hist.length = p) :
    (if 1 < p then [rd (rdA rg 1) 1] else lp) = iterLams lp p hist := by
  unfold iterLams
  split_ifs with h1
  · have := hist_lam hist rg ⟨nat 0, nat 0, none⟩ hh 1 (by omega)
    rw [show ((1 : ℕ) : ℤ) = 1 from rfl] at this
    rw [this]
    match hist, hl with
    | h0 :: b1 :: rest, _ => rfl
    | [_], hl => simp at hl; omega
    | [], hl => simp at hl; omega
  · rfl

/-- one iteration with `robust = False` -/
theorem OuterInv.step_plain {G : GFns α} {y w de lp : List α} {n : α} {p : ℕ} {unbound : Bool}
    {yt : Array α} {set : Bool} {rwts : Array α} {rwset : Bool} {z rw : Array α}
    {rg : Array (Array α)} {gt : Array α}
    (h : OuterInv G y w de lp false n p unbound yt set rwts rwset z rw rg gt)
    {lams : List α} (hlams : lams = if 1 < p then [rd (rdA rg 1) 1] else lp)
    {gt' yt' z' : Array α} {set' : Bool}
    (hsw : unbound = false → SweepOk G y (mul2 w rw.toList) de (bestOf gt yt set) lams gt' yt' set' z')
    {rwts' : Array α} (hrwts : rwts'.toList = mul2 w rw.toList) :
    OuterInv G y w de lp false n (p + 1) unbound yt' set' rwts' true z' rw (rg.push gt') gt' := by
  unfold OuterInv at *
  rw [grun_succ_last, Nat.zero_add]
  cases hg : grun G y w de lp false n p 0 (gs0 G y) with
  | none => rw [hg] at h; simpa using h
  | some st =>
    rw [hg] at h
    obtain ⟨hu, hok⟩ := h
    have hsw := hsw hu
    have hl : lams = iterLams lp p st.2.2 := by rw [hlams]; exact iterLams_eq lp p _ rg hok.hist hok.hlen
    have hb := hsw.best
    rw [hok.rweq, hok.best, hl, ← gcvSweep_eq] at hb
    simp only [Option.bind_some, gstep, Bool.false_eq_true, if_false]
    refine ⟨hu, ⟨hsw.zlen, hb, hsw.ylen, hok.rweq, hok.rwlen, ?_, by simp [hok.hlen], fun _ => ⟨rfl, by rw [hrwts, hok.rweq]⟩⟩⟩
    simp only [Array.toList_push, List.map_append, List.map_cons, List.map_nil, hok.hist, ← hb]
    rfl

/-- one iteration with `robust = True` in which `y_temp` is still unbound after the sweep: the
    source fails -/
theorem OuterInv.step_unset {G : GFns α} {y w de lp : List α} {n : α} {p : ℕ} {unbound : Bool}
    {yt : Array α} {set : Bool} {rwts : Array α} {rwset : Bool} {z rw : Array α}
    {rg : Array (Array α)} {gt : Array α}
    (h : OuterInv G y w de lp true n p unbound yt set rwts rwset z rw rg gt)
    {lams : List α} (hlams : lams = if 1 < p then [rd (rdA rg 1) 1] else lp)
    {gt' yt' z' : Array α} {set' : Bool} (hset : set' = false)
    (hsw : unbound = false → SweepOk G y (mul2 w rw.toList) de (bestOf gt yt set) lams gt' yt' set' z')
    (rwts' : Array α) (rwset' : Bool) (rw' : Array α) (rg' : Array (Array α)) :
    OuterInv G y w de lp true n (p + 1) true yt' set' rwts' rwset' z' rw' rg' gt' := by
  subst hset
  unfold OuterInv at *
  rw [grun_succ_last, Nat.zero_add]
  cases hg : grun G y w de lp true n p 0 (gs0 G y) with
  | none => simp
  | some st =>
    rw [hg] at h
    obtain ⟨hu, hok⟩ := h
    have hsw := hsw hu
    have hl : lams = iterLams lp p st.2.2 := by rw [hlams]; exact iterLams_eq lp p _ rg hok.hist hok.hlen
    have hb := hsw.best
    rw [hok.rweq, hok.best, hl, ← gcvSweep_eq] at hb
    have hy : (gcvSweep G y (mul2 w st.2.1) de (iterLams lp p st.2.2) st.1).ytemp = none := by
      rw [← hb]; rfl
    simp only [Option.bind_some, gstep, if_true, hy]

/-- one iteration with `robust = True`, `y_temp` bound: `r_weights` becomes the model's `robustStep` -/
theorem OuterInv.step_robust {G : GFns α} {y w de lp : List α} {n : α} {p : ℕ} {unbound : Bool}
    {yt : Array α} {set : Bool} {rwts : Array α} {rwset : Bool} {z rw : Array α}
    {rg : Array (Array α)} {gt : Array α}
    (h : OuterInv G y w de lp true n p unbound yt set rwts rwset z rw rg gt)
    {lams : List α} (hlams : lams = if 1 < p then [rd (rdA rg 1) 1] else lp)
    {gt' yt' z' : Array α} {set' : Bool} (hset : set' = true)
    (hsw : unbound = false → SweepOk G y (mul2 w rw.toList) de (bestOf gt yt set) lams gt' yt' set' z')
    {rw' : Array α}
    (hrw : rw'.toList = robustStep G y yt'.toList (mul2 w rw.toList) de rw.toList w (rd gt' 1) n)
    {rwts' : Array α} (hrwts : rwts'.toList = mul2 w rw'.toList) :
    OuterInv G y w de lp true n (p + 1) unbound yt' set' rwts' true z' rw' (rg.push gt') gt' := by
  subst hset
  unfold OuterInv at *
  rw [grun_succ_last, Nat.zero_add]
  cases hg : grun G y w de lp true n p 0 (gs0 G y) with
  | none => rw [hg] at h; simpa using h
  | some st =>
    rw [hg] at h
    obtain ⟨hu, hok⟩ := h
    have hsw := hsw hu
    have hl : lams = iterLams lp p st.2.2 := by rw [hlams]; exact iterLams_eq lp p _ rg hok.hist hok.hlen
    have hb := hsw.best
    rw [hok.rweq, hok.best, hl, ← gcvSweep_eq] at hb
    have hy : (gcvSweep G y (mul2 w st.2.1) de (iterLams lp p st.2.2) st.1).ytemp = some yt'.toList := by
      rw [← hb]; rfl
    have hlam : (gcvSweep G y (mul2 w st.2.1) de (iterLams lp p st.2.2) st.1).lam = rd gt' 1 := by
      rw [← hb]; rfl
    simp only [Option.bind_some, gstep, if_true, hy]
    rw [hok.rweq] at hrw
    refine ⟨hu, ⟨hsw.zlen, hb, hsw.ylen, by rw [hrw, hlam], ?_, ?_, by simp [hok.hlen],
      fun _ => ⟨rfl, by rw [hrwts, hrw, hlam]⟩⟩⟩
    · have := congrArg List.length hrw
      rw [robustStep_length _ _ _ _ _ _ _ _ _ (by simpa using hsw.ylen rfl)
        (by rw [← hok.rweq]; simpa using hok.rwlen)] at this
      simpa using this
    · simp only [Array.toList_push, List.map_append, List.map_cons, List.map_nil, hok.hist, ← hb]
      rfl

/-- what a caller of the gufunc sees: the pass-through copies the input and reports `lopt = 0`, the
    unbound-variable failure has no result, otherwise the rounded curve and λ -/
def wcvOut (rnd : α → α) (y : List α) : GcvOut α → Option (Array α × Array α)
  | .passthrough => some (y.toArray, #[0])
  | .unbound => none
  | .ok z lo => some ((z.map rnd).toArray, #[lo])

/-- after the loop: the λ the source reports and the weights of the final fit are the model's -/
theorem OuterInv.final {G : GFns α} (miss : α → Bool) (y llas : List α) (robust : Bool)
    (h4 : 4 < countValid miss y)
    {unbound : Bool} {yt : Array α} {set : Bool} {rwts : Array α} {rwset : Bool} {z rw : Array α}
    {rg : Array (Array α)} {gt : Array α}
    (h : OuterInv G (cleanOf miss y) (weightsOf miss y) (deigs G y.length) (llas.map G.pow10) robust
      (sumF (weightsOf miss y)) (if robust then 4 else 1) unbound yt set rwts rwset z rw rg gt) :
    (unbound = true ∧ gcvSelect G (cleanOf miss y) (weightsOf miss y) llas robust = none) ∨
    (unbound = false ∧ rwset = true ∧ rwts.size = y.length ∧ z.size = y.length ∧
      gcvSelect G (cleanOf miss y) (weightsOf miss y) llas robust =
        some (rd (rdA rg (if robust then 1 else 0)) 1, rwts.toList)) := by
  unfold OuterInv at h
  rw [gcvSelect_unfold, cleanOf_length]
  cases hg : grun G (cleanOf miss y) (weightsOf miss y) (deigs G y.length) (llas.map G.pow10) robust
      (sumF (weightsOf miss y)) (if robust then 4 else 1) 0 (gs0 G (cleanOf miss y)) with
  | none =>
    rw [hg] at h
    left
    refine ⟨h, ?_⟩
    unfold gs0 at hg
    rw [hg]; rfl
  | some st =>
    rw [hg] at h
    obtain ⟨hu, hok⟩ := h
    right
    have hp : 0 < (if robust then 4 else 1) := by split <;> omega
    obtain ⟨h1, h2⟩ := hok.rwts hp
    refine ⟨hu, h1, ?_, by simpa using hok.zlen, ?_⟩
    · have := congrArg List.length h2
      have hl := congrArg List.length hok.rweq
      have hs := hok.rwlen
      simp only [Array.length_toList, mul2_length, weightsOf_length, cleanOf_length] at this hl hs
      omega
    · unfold gs0 at hg
      rw [hg, Option.map_some, h2]
      congr 2
      have := hist_lam st.2.2 rg ⟨nat 0, nat 0, none⟩ hok.hist (if robust then 1 else 0)
        (by rw [hok.hlen]; split <;> omega)
      rw [← this]
      cases robust <;> rfl

/-- the result of `ws2dwcv` after the loop: `lopt[0] = robust_gcv[k, 1]`, the final fit with
    `robust_weights`, rounding -/
theorem OuterInv.result {G : GFns α} (miss : α → Bool) (y llas : List α) (robust : Bool) (rnd : α → α)
    (h4 : 4 < countValid miss y)
    {unbound : Bool} {yt : Array α} {set : Bool} {rwts : Array α} {rwset : Bool} {z rw : Array α}
    {rg : Array (Array α)} {gt : Array α}
    (h : OuterInv G (cleanOf miss y) (weightsOf miss y) (deigs G y.length) (llas.map G.pow10) robust
      (sumF (weightsOf miss y)) (if robust then 4 else 1) unbound yt set rwts rwset z rw rg gt)
    (ya : Array α) (hya : ya.toList = cleanOf miss y) :
    (unbound = true ∧ wcvOut rnd y (wcv G miss y llas robust) = none) ∨
    (unbound = false ∧ rwset = true ∧ wcvOut rnd y (wcv G miss y llas robust) =
      some (Array.map rnd (Gen.Ws2d.ws2d ya (rd (rdA rg (if robust then 1 else 0)) 1) rwts),
        #[rd (rdA rg (if robust then 1 else 0)) 1])) := by
  have h5 : 5 ≤ y.length := le_trans h4 (countValid_le_length _ y)
  have hysz : ya.size = y.length := by rw [← Array.length_toList, hya, cleanOf_length]
  rcases OuterInv.final miss y llas robust h4 h with ⟨hu, hs⟩ | ⟨hu, hset, hsz, -, hs⟩
  · left
    refine ⟨hu, ?_⟩
    rw [wcv_unfold, if_pos h4, hs]
    rfl
  · right
    refine ⟨hu, hset, ?_⟩
    rw [wcv_unfold, if_pos h4, hs, outOf_some, gen_ws2d_arrW _ _ _ (by omega) (by omega), hya]
    simp [wcvOut]

/-! ### (d) the asymmetric re-weighting loop of ws2dwcvp -/

/-- `envelope = y > z; wa[envelope] = p; wa[~envelope] = 1 - p; ww = robust_weights * wa` -/
theorem asym_np (p : α) (w y z wa : List α) (hz : z.length = y.length) (ha : wa.length = y.length) :
    List.zipWith (fun a b => a * b) w
      (List.zipWith (fun (x : α) (b : Bool) => if b = true then nat 1 - p else x)
        (List.zipWith (fun (x : α) (b : Bool) => if b = true then p else x) wa
          (List.zipWith (fun a b => decide (b < a)) y z))
        (List.map (fun b => !b) (List.zipWith (fun a b => decide (b < a)) y z)))
      = asymW p w y z := by
  rw [asymW_eq]
  apply List.ext_getElem
  · simp only [List.length_zipWith, List.length_map, List.length_zip]
    omega
  · intro i h1 h2
    simp only [List.getElem_zipWith, List.getElem_map, List.getElem_zip, aw, nat_one]
    by_cases hlt : z[i]'(by simp at h2; omega) < y[i]'(by simp at h2; omega) <;> simp [hlt]

/-- `z_tmp = np.sum(np.abs(znew - z))` -/
theorem l1dist_np (a b : List α) :
    sumF (List.map (fun e => absv e) (List.zipWith (fun x y => x - y) a b)) = l1dist a b := by
  rw [List.map_zipWith]
  rfl

/-- state `(ww, z, znew, wa)` of the re-weighting loop with `k` passes left: the model's loop continued
    from it returns what the model returns -/
structure IrlsOk (y w : List α) (lam p : α) (k : ℕ) (ww z znew wa : Array α) : Prop where
  zlen : z.size = y.length
  nlen : znew.size = y.length
  alen : wa.size = y.length
  wlen : k < 10 → ww.size = y.length
  cont : irls y w lam p 10 (zerosLike y) (zerosLike y) = irls y w lam p k z.toList ww.toList

/-- entry: `z[:] = 0.0` -/
theorem IrlsOk.init (y w : List α) (lam p : α) (ww z0 : Array α) (m : ℕ) (hm : m = y.length)
    (hz : z0.size = y.length) :
    IrlsOk y w lam p 10 ww (npFill z0 (nat 0)) (Array.replicate m (nat 0)) (Array.replicate m (nat 0)) := by
  subst hm
  refine ⟨by simpa using hz, by simp, by simp, fun h => absurd h (by omega), ?_⟩
  have : (npFill z0 (nat 0)).toList = zerosLike y := by
    rw [toList_npFill, zerosLike_eq_replicate, List.map_const', nat_zero]
    simp [hz]
  rw [this]
  rfl

/-- one pass that does not reproduce the curve: `z[0:m] = znew[0:m]` -/
theorem IrlsOk.step {y w : List α} {lam p : α} {k : ℕ} {ww z znew wa : Array α}
    (h : IrlsOk y w lam p (k + 1) ww z znew wa) (hw : w.length = y.length)
    {ww' znew' wa' : Array α} (hww : ww'.toList = asymW p w y z.toList)
    (hzn : znew' = (ws2d y lam (asymW p w y z.toList)).toArray) (halen : wa'.size = y.length)
    (hne : ¬ eqv (l1dist znew'.toList z.toList) (nat 0) = true) :
    IrlsOk y w lam p k ww' znew' znew' wa' := by
  have hzl : znew'.size = y.length := by
    rw [hzn, List.size_toArray, C01.ws2d_length _ _ _ (by
      rw [asymW_length, hw]; simp [h.zlen])]
  have hwl : ww'.size = y.length := by
    have := congrArg List.length hww
    rw [asymW_length, hw] at this
    simpa [h.zlen] using this
  refine ⟨hzl, hzl, halen, fun _ => hwl, ?_⟩
  have hzt : znew'.toList = pass y w lam p z.toList := by rw [hzn]; rfl
  rw [h.cont, irls_succ, ← hzt, if_neg hne, hww]

/-- one pass that reproduces the curve: `break` -/
theorem IrlsOk.stop {y w : List α} {lam p : α} {k : ℕ} {ww z znew wa : Array α}
    (h : IrlsOk y w lam p (k + 1) ww z znew wa) (hw : w.length = y.length)
    {ww' znew' wa' : Array α} (hww : ww'.toList = asymW p w y z.toList)
    (hzn : znew' = (ws2d y lam (asymW p w y z.toList)).toArray) (halen : wa'.size = y.length)
    (heq : eqv (l1dist znew'.toList z.toList) (nat 0) = true) :
    IrlsOk y w lam p 0 ww' z znew' wa' := by
  have hzl : znew'.size = y.length := by
    rw [hzn, List.size_toArray, C01.ws2d_length _ _ _ (by
      rw [asymW_length, hw]; simp [h.zlen])]
  have hwl : ww'.size = y.length := by
    have := congrArg List.length hww
    rw [asymW_length, hw] at this
    simpa [h.zlen] using this
  refine ⟨h.zlen, hzl, halen, fun _ => hwl, ?_⟩
  have hzt : znew'.toList = pass y w lam p z.toList := by rw [hzn]; rfl
  rw [h.cont, irls_succ, ← hzt, if_pos heq, hww]
  rfl

/-- after the loop: the final fit `ws2d(y, lopt[0], ww)` is the model's `expectile` -/
theorem IrlsOk.final {y w : List α} {lam p : α} {ww z znew wa : Array α}
    (h : IrlsOk y w lam p 0 ww z znew wa) :
    expectile y w lam p = ws2d y lam ww.toList ∧ ww.size = y.length := by
  refine ⟨?_, h.wlen (by omega)⟩
  unfold expectile
  rw [h.cont]
  rfl

end Hdc.GenNum
