import Hdc.PySafeS
import Hdc.Props.SafeGammastd
import Std.Tactic.Do
/-
SafeGammastdGrp  Facts for "under the contract the flag of the instrumented `gammastd_grp` / `gammastd_yxt` is false"
(Hdc/Props/SafeGammastdGrp.lean, SafeGammastdYxt.lean): the sizes of the arrays the mask combinators of Hdc/PyNpS.lean
produce, the size of the series `gammastd` returns, and the 2-d subscript check for an index inside its row.
-/
namespace Hdc.SafeSpi
open Hdc Hdc.Gen.NumKernels Hdc.GenNum Hdc.SafeL Std.Do

set_option mvcgen.warning false
set_option linter.unusedSimpArgs false
set_option linter.unusedTactic false
set_option linter.unreachableTactic false
set_option linter.unusedSectionVars false

section masks
variable {β : Type}

theorem maskFillL_length (a : List β) (m : List Bool) (v : β) : (maskFillL a m v).length = a.length := by
  induction a generalizing m with
  | nil => cases m <;> simp [maskFillL]
  | cons x xs ih => cases m <;> simp [maskFillL, ih]

theorem maskSetL_length (a : List β) (m : List Bool) (vals : List β) : (maskSetL a m vals).length = a.length := by
  induction a generalizing m vals with
  | nil => cases m <;> simp [maskSetL]
  | cons x xs ih =>
    cases m with
    | nil => simp [maskSetL]
    | cons b bs =>
      cases b
      · simp [maskSetL, ih]
      · cases vals <;> simp [maskSetL, ih]

theorem gatherL_length (a : List β) (m : List Bool) (h : a.length = m.length) :
    (gatherL a m).length = (m.filter id).length := by
  induction a generalizing m with
  | nil => cases m <;> simp_all [gatherL]
  | cons x xs ih =>
    cases m with
    | nil => simp at h
    | cons b bs =>
      have := ih bs (by simpa using h)
      cases b <;> simp [gatherL, this]

@[simp] theorem size_npMaskFill (a : Array β) (m : Array Bool) (v : β) : (npMaskFill a m v).size = a.size := by
  simp [npMaskFill, maskFillL_length]

@[simp] theorem size_npMaskSet (a : Array β) (m : Array Bool) (vals : Array β) : (npMaskSet a m vals).size = a.size := by
  simp [npMaskSet, maskSetL_length]

/-- `len a[m] = m.sum()` for a mask of the array's length -/
theorem size_npGather (a : Array β) (m : Array Bool) (h : a.size = m.size) :
    npCount m = ((npGather a m).size : Int) := by
  simp only [npGather, npCount, List.size_toArray]
  rw [gatherL_length _ _ (by simpa using h)]

end masks

/-- a 2-d subscript with both indices inside the array is not flagged -/
theorem oob2_false {β : Type} (c : Array (Array β)) (i j : ℤ) (hi : 0 ≤ i) (hi' : i < c.size)
    (hj : 0 ≤ j) (hj' : j < (c.getD i.toNat #[]).size) : oob2 c i j = false := by
  have e : ix c.size i = i.toNat := ix_of_eq _ _ _ (by omega)
  rw [oob2_eq_false_iff, e]
  exact ⟨oob_eq_false (by omega) hi', oob_eq_false (by omega) hj'⟩

variable {α : Type} [Field α] [LinearOrder α] [IsStrictOrderedRing α]

/-- the series `gammastd` returns has the length of its input (all four exits) -/
theorem size_gammastd (F : GamFns α) (digamma : α → α) (xtol rtol : α) (x : Array α) (nodata : α)
    (cs ce : Int) (a b : α) :
    (Gen.NumKernels.gammastd F digamma xtol rtol x nodata cs ce a b).size = x.size := by
  generalize hres : Gen.NumKernels.gammastd F digamma xtol rtol x nodata cs ce a b = res
  apply Id.of_wp_run_eq hres
  mvcgen invariants
  · ⇓⟨xs, s⟩ => ⌜True⌝
  · ⇓⟨xs, s⟩ => ⌜s.size = x.size⌝
  · ⇓⟨xs, s⟩ => ⌜s.size = x.size⌝
  all_goals
    simp (config := {zetaDelta := true}) only [size_wr, size_npFull, size_npFullLike, Int.toNat_natCast] at *
  all_goals first | trivial | assumption

theorem size_safe_gammastd (F : GamFns α) (digamma : α → α) (xtol rtol : α) (x : Array α) (nodata : α)
    (cs ce : Int) (a b : α) :
    (Gen.Safe.gammastd F digamma xtol rtol x nodata cs ce a b).1.size = x.size := by
  rw [SafeGammastd.safe_gammastd_fst, size_gammastd]

end Hdc.SafeSpi
