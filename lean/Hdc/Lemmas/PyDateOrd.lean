import Hdc.Model.PyDate
import Hdc.Lemmas.PyDate
/-
`_ord2ymd (_ymd2ord y m d) = (y, m, d)` for every valid date of the model of CPython's datetime.
-/
set_option linter.unusedSimpArgs false
namespace Hdc.PyDate

/-- month and day from the 0-based day of the year (the tail of `_ord2ymd`) -/
def ord2ymdTail (year n : Int) (leapyear : Bool) : Int × Int × Int :=
  let month := (n + 50) / 32
  let preceding := daysBeforeMonthTbl month + (if 2 < month ∧ leapyear then 1 else 0)
  if n < preceding then
    let month := month - 1
    let preceding := preceding - ((if month = 2 then 28 else if month = 4 ∨ month = 6 ∨ month = 9 ∨ month = 11 then 30 else 31)
                        + (if month = 2 ∧ leapyear then 1 else 0))
    (year, month, n - preceding + 1)
  else (year, month, n - preceding + 1)

/-- `_ord2ymd` after the 400/100/4/1-year cycle decomposition -/
def ord2ymdAux (n400 n100 n4 n1 n : Int) : Int × Int × Int :=
  let year := n400 * 400 + 1 + n100 * 100 + n4 * 4 + n1
  if n1 = 4 ∨ n100 = 4 then (year - 1, 12, 31)
  else ord2ymdTail year n (decide (n1 = 3 ∧ (n4 ≠ 24 ∨ n100 = 3)))

theorem ord2ymd_eq (n : Int) :
    ord2ymd n = ord2ymdAux ((n - 1) / 146097) ((n - 1) % 146097 / 36524)
      ((n - 1) % 146097 % 36524 / 1461) ((n - 1) % 146097 % 36524 % 1461 / 365)
      ((n - 1) % 146097 % 36524 % 1461 % 365) := rfl

theorem ord2ymdTail_spec (yr y : Int) {m d : Int} (h1 : 1 ≤ m) (h2 : m ≤ 12) (hd1 : 1 ≤ d)
    (hd2 : d ≤ daysInMonth y m) :
    ord2ymdTail yr (daysBeforeMonth y m + d - 1) (isLeap y) = (yr, m, d) := by
  unfold ord2ymdTail
  simp only []
  generalize hn : daysBeforeMonth y m + d - 1 = n
  generalize hq : (n + 50) / 32 = q
  rcases leapDay_cases y with ⟨hl, _, _⟩ | ⟨hl, _, _⟩ <;>
  rcases month_cases h1 h2 with hm | hm | hm | hm | hm | hm | hm | hm | hm | hm | hm | hm <;>
  (simp [hm, daysBeforeMonth, daysBeforeMonthTbl, daysInMonth, hl] at hn hd2
   have hq' : q = m ∨ q = m + 1 := by omega
   subst hm
   rcases hq' with rfl | rfl <;> simp [daysBeforeMonthTbl, hl] <;> split <;> simp <;> omega)

theorem daysBeforeMonth_twelve (y : Int) : daysBeforeMonth y 12 = 334 + leapDay y := by
  rcases leapDay_cases y with ⟨h, h1, _⟩ | ⟨h, h1, _⟩ <;>
  simp [daysBeforeMonth, daysBeforeMonthTbl, h, h1]

theorem daysInMonth_twelve (y : Int) : daysInMonth y 12 = 31 := by
  simp [daysInMonth]

/-- `_ord2ymd` inverts `_ymd2ord` on every valid date 0001-01-01 .. 9999-12-31 (indeed for every year ≥ 1) -/
theorem ord2ymd_ymd2ord {y m d : Int} (hy1 : 1 ≤ y) (h1 : 1 ≤ m) (h2 : m ≤ 12) (hd1 : 1 ≤ d)
    (hd2 : d ≤ daysInMonth y m) : ord2ymd (ymd2ord y m d) = (y, m, d) := by
  rw [ord2ymd_eq]
  obtain ⟨q400, q100, q4, q1, hY, b0, b1, b2, b3, b4, b5, b6⟩ :
      ∃ q400 q100 q4 q1 : Int, y - 1 = 400 * q400 + 100 * q100 + 4 * q4 + q1 ∧ 0 ≤ q400 ∧
        0 ≤ q100 ∧ q100 ≤ 3 ∧ 0 ≤ q4 ∧ q4 ≤ 24 ∧ 0 ≤ q1 ∧ q1 ≤ 3 :=
    ⟨(y - 1) / 400, (y - 1) % 400 / 100, (y - 1) % 100 / 4, (y - 1) % 4,
      by omega, by omega, by omega, by omega, by omega, by omega, by omega, by omega⟩
  have hdby : daysBeforeYear y = 146097 * q400 + 36524 * q100 + 1461 * q4 + 365 * q1 := by
    unfold daysBeforeYear
    simp only []
    have e4 : (y - 1) / 4 = 100 * q400 + 25 * q100 + q4 := by omega
    have e100 : (y - 1) / 100 = 4 * q400 + q100 := by omega
    have e400 : (y - 1) / 400 = q400 := by omega
    rw [e4, e100, e400]; omega
  have n0 := daysBeforeMonth_nonneg y h1 h2
  have n1 := daysBeforeMonth_add_le_year y h1 h2
  have hX : ymd2ord y m d - 1 = 146097 * q400 + 36524 * q100 + 1461 * q4 + 365 * q1
      + (daysBeforeMonth y m + d - 1) := by
    unfold ymd2ord; omega
  generalize ymd2ord y m d - 1 = X at hX
  by_cases hn : daysBeforeMonth y m + d - 1 ≤ 364
  · -- ordinary day
    have e1 : X / 146097 = q400 := by omega
    have e2 : X % 146097 / 36524 = q100 := by omega
    have e3 : X % 146097 % 36524 / 1461 = q4 := by omega
    have e4 : X % 146097 % 36524 % 1461 / 365 = q1 := by omega
    have e5 : X % 146097 % 36524 % 1461 % 365 = daysBeforeMonth y m + d - 1 := by omega
    rw [e1, e2, e3, e4, e5]
    unfold ord2ymdAux
    simp only []
    rw [if_neg (by omega)]
    have ey : q400 * 400 + 1 + q100 * 100 + q4 * 4 + q1 = y := by omega
    have el : decide (q1 = 3 ∧ (q4 ≠ 24 ∨ q100 = 3)) = isLeap y := by
      rcases leapDay_cases y with ⟨hl, _, hc⟩ | ⟨hl, _, hc⟩
      · rw [hl]; exact decide_eq_true (by omega)
      · rw [hl]; exact decide_eq_false (by omega)
    rw [ey, el]
    exact ord2ymdTail_spec y y h1 h2 hd1 hd2
  · -- 31 December of a leap year
    have hm : m = 12 := by
      by_cases hm : m < 12
      · exfalso
        have := daysBeforeMonth_add_le y h1 hm (Int.le_refl 12)
        have := daysBeforeMonth_twelve y
        have := leapDay_bounds y
        omega
      · omega
    subst hm
    have t1 := daysBeforeMonth_twelve y
    have t2 := daysInMonth_twelve y
    rcases leapDay_cases y with ⟨hl, hl1, hc⟩ | ⟨hl, hl1, hc⟩
    · have hd : d = 31 := by omega
      subst hd
      unfold ord2ymdAux
      simp only []
      by_cases h24 : q4 = 24
      · have e1 : X / 146097 = q400 := by omega
        have e2 : X % 146097 / 36524 = 4 := by omega
        have e3 : X % 146097 % 36524 / 1461 = 0 := by omega
        have e4 : X % 146097 % 36524 % 1461 / 365 = 0 := by omega
        rw [e1, e2, e3, e4, if_pos (by omega)]
        have ey : q400 * 400 + 1 + 4 * 100 + 0 * 4 + 0 - 1 = y := by omega
        rw [ey]
      · have e1 : X / 146097 = q400 := by omega
        have e2 : X % 146097 / 36524 = q100 := by omega
        have e3 : X % 146097 % 36524 / 1461 = q4 := by omega
        have e4 : X % 146097 % 36524 % 1461 / 365 = 4 := by omega
        rw [e1, e2, e3, e4, if_pos (by omega)]
        have ey : q400 * 400 + 1 + q100 * 100 + q4 * 4 + 4 - 1 = y := by omega
        rw [ey]
    · exfalso; omega

theorem ord2ymd_ymd2ord_valid {y m d : Int} (hv : ValidDate y m d) :
    ord2ymd (ymd2ord y m d) = (y, m, d) :=
  ord2ymd_ymd2ord hv.1 hv.2.2.1 hv.2.2.2.1 hv.2.2.2.2.1 hv.2.2.2.2.2

end Hdc.PyDate
