import Hdc.Lemmas.SpiBasic
import Mathlib.Algebra.BigOperators.Group.Finset.Basic
import Mathlib.Algebra.BigOperators.Ring.Finset
import Mathlib.Algebra.Order.BigOperators.Ring.Finset
import Mathlib.Algebra.Order.BigOperators.Group.Finset
import Mathlib.Algebra.Order.Field.Basic
import Mathlib.Tactic.Positivity
/-
Model-side reformulations of `gammafit` / `gammastd` over a linearly ordered field:
the kernels written with `=`/`≤`/`List.sum`, and the sums over the calibration slice
`x[cs:ce]` written as sums over the index set `{k | cs ≤ k < ce, 0 < x[k]}`.
-/
set_option linter.unusedSectionVars false
set_option linter.unusedSimpArgs false
namespace Hdc.Spi
open Finset

section slice
variable {α : Type} [Field α] [LinearOrder α] [IsStrictOrderedRing α]

/-- the calibration slice `x[cs:ce]` -/
def slice (x : List α) (cs ce : ℕ) : List α := (x.drop cs).take (ce - cs)

/-- positive entries -/
def positives (l : List α) : List α := l.filter fun v => decide (0 < v)

/-- indices of the positive cells inside the window `[cs, ce)` -/
def winIdx (x : List α) (cs ce : ℕ) : Finset ℕ :=
  (Finset.range x.length).filter fun k => cs ≤ k ∧ k < ce ∧ 0 < x.getD k 0

/-- sums over the positive cells of the slice are sums over the index set of the window -/
theorem slice_sum_eq {M : Type} [AddCommMonoid M] (f : α → M) : ∀ (x : List α) (cs ce : ℕ),
    ((positives (slice x cs ce)).map f).sum = ∑ k ∈ winIdx x cs ce, f (x.getD k 0)
  | [], cs, ce => by simp [slice, positives, winIdx]
  | a :: xs, 0, 0 => by
    simp only [slice, positives, winIdx, List.drop_zero, Nat.sub_self, List.take_zero, List.filter_nil,
      List.map_nil, List.sum_nil]
    rw [Finset.sum_filter]
    symm; apply Finset.sum_eq_zero; intro k _; simp
  | a :: xs, 0, ce + 1 => by
    have ih := slice_sum_eq f xs 0 ce
    simp only [slice, positives, winIdx, List.drop_zero, Nat.sub_zero, Finset.sum_filter] at ih ⊢
    rw [List.length_cons, Finset.sum_range_succ', List.take_succ_cons, List.filter_cons]
    by_cases ha : 0 < a
    · simp only [ha, decide_true, if_true, List.map_cons, List.sum_cons, ih]
      rw [add_comm]
      congr 1
      · apply Finset.sum_congr rfl; intro k _
        simp
      · simp [ha]
    · simp only [ha, decide_false, Bool.false_eq_true, if_false, ih]
      have : (if 0 ≤ 0 ∧ 0 < ce + 1 ∧ 0 < (a :: xs).getD 0 0 then f ((a :: xs).getD 0 0) else 0)
          = (0 : M) := by simp [ha]
      rw [this, add_zero]
      apply Finset.sum_congr rfl; intro k _
      simp
  | a :: xs, cs + 1, ce => by
    have ih := slice_sum_eq f xs cs (ce - 1)
    simp only [slice, positives, winIdx, Finset.sum_filter] at ih ⊢
    rw [List.length_cons, Finset.sum_range_succ', List.drop_succ_cons]
    have h0 : (if cs + 1 ≤ 0 ∧ 0 < ce ∧ 0 < (a :: xs).getD 0 0 then f ((a :: xs).getD 0 0) else 0)
        = (0 : M) := by simp
    have hsub : ce - (cs + 1) = ce - 1 - cs := by omega
    rw [h0, add_zero, hsub, ih]
    apply Finset.sum_congr rfl; intro k _
    have : (cs + 1 ≤ k + 1 ∧ k + 1 < ce ∧ 0 < xs.getD k 0) ↔
        (cs ≤ k ∧ k < ce - 1 ∧ 0 < xs.getD k 0) := by
      constructor
      · rintro ⟨h1, h2, h3⟩; exact ⟨by omega, by omega, h3⟩
      · rintro ⟨h1, h2, h3⟩; exact ⟨by omega, by omega, h3⟩
    simp only [List.getD_cons_succ, this]

theorem slice_positives_length (x : List α) (cs ce : ℕ) :
    (positives (slice x cs ce)).length = (winIdx x cs ce).card := by
  have := slice_sum_eq (fun _ : α => (1 : ℕ)) x cs ce
  simpa using this

theorem winIdx_pos (x : List α) (cs ce k : ℕ) (hk : k ∈ winIdx x cs ce) : 0 < x.getD k 0 := by
  unfold winIdx at hk
  exact (Finset.mem_filter.mp hk).2.2.2

/-! ### the kernels in the language of ordered fields -/

/-- mean of a list -/
def lmean (l : List α) : α := l.sum / (l.length : α)
/-- `log(mean) − mean(log)` -/
def lS (F : GamFns α) (l : List α) : α := F.log (lmean l) - (l.map F.log).sum / (l.length : α)
/-- Thom's estimate -/
def lAest (F : GamFns α) (s : α) : α := (3 - s + F.sqrt ((s - 3) * (s - 3) + 24 * s)) / (12 * s)
/-- the root call -/
def lRoot (F : GamFns α) (s : α) : α := F.root (lAest F s * (1 - F.c04)) (lAest F s * (1 + F.c04)) s

theorem gammafit_eq (F : GamFns α) (l : List α) :
    gammafit F l =
      if (positives l).length = 0 then (0, 0)
      else if lS F (positives l) = 0 then (0, 0)
      else if lRoot F (lS F (positives l)) = 0 then (0, 0)
      else (lRoot F (lS F (positives l)), lmean (positives l) / lRoot F (lS F (positives l))) := by
  unfold gammafit positives lRoot lAest lS lmean
  simp only [sumF_eq, nat_zero, nat_one, nat_eq, eqv_iff, Nat.cast_ofNat]

/-- number of cells that are not nodata and ≥ 0 (model side) -/
def cntValid (x : List α) (nodata : α) : ℕ := x.countP fun v => decide (v ≠ nodata ∧ 0 ≤ v)
/-- number of cells that are not nodata and = 0 (model side) -/
def cntZero (x : List α) (nodata : α) : ℕ := x.countP fun v => decide (v ≠ nodata ∧ v = 0)

theorem gammastd_eq (F : GamFns α) (x : List α) (nodata : α) (cs ce : ℕ) :
    gammastd F x nodata cs ce =
      if cntValid x nodata = 0 then x.map fun _ => none
      else if F.c09 < (cntZero x nodata : α) / (cntValid x nodata : α) then x.map fun _ => none
      else if (gammafit F (slice x cs ce)).1 = 0 ∨ (gammafit F (slice x cs ce)).2 = 0 then
        x.map fun _ => none
      else x.map fun v =>
        if v = nodata then none
        else if v < 0 then none
        else some (F.ndtri ((cntZero x nodata : α) / (cntValid x nodata : α)
          + (1 - (cntZero x nodata : α) / (cntValid x nodata : α))
            * F.gammainc (gammafit F (slice x cs ce)).1 (v / (gammafit F (slice x cs ce)).2))) := by
  have hv : ((x.filter fun v => !(eqv v nodata)).filter fun v => !(decide (v < nat 0))).length
      = cntValid x nodata := by
    unfold cntValid
    rw [List.filter_filter, List.countP_eq_length_filter]
    congr 1
    apply List.filter_congr
    intro v _
    rw [eqv_eq_decide]
    by_cases h1 : v = nodata <;> by_cases h2 : v < 0 <;>
      simp [h1, h2, not_le.mpr, not_lt.mp]
  have hz : ((x.filter fun v => !(eqv v nodata)).filter fun v => eqv v (nat 0)).length
      = cntZero x nodata := by
    unfold cntZero
    rw [List.filter_filter, List.countP_eq_length_filter]
    congr 1
    apply List.filter_congr
    intro v _
    rw [eqv_eq_decide, eqv_eq_decide]
    by_cases h1 : v = nodata <;> by_cases h2 : v = 0 <;>
      simp [h1, h2]
  unfold gammastd
  simp only [hv, hz, slice]
  simp only [nat_zero, nat_one, nat_eq, eqv_iff]
  rfl

/-! ### what `gammafit` depends on -/

theorem positives_idem (l : List α) : positives (positives l) = positives l := by
  unfold positives; rw [List.filter_filter]; simp

theorem gammafit_positives (F : GamFns α) (l : List α) :
    gammafit F l = gammafit F (positives l) := by
  rw [gammafit_eq F l, gammafit_eq F (positives l), positives_idem]

theorem lmean_perm {l l' : List α} (h : l.Perm l') : lmean l = lmean l' := by
  unfold lmean; rw [h.sum_eq, h.length_eq]

theorem lS_perm (F : GamFns α) {l l' : List α} (h : l.Perm l') : lS F l = lS F l' := by
  unfold lS; rw [lmean_perm h, (h.map F.log).sum_eq, h.length_eq]

theorem gammafit_perm (F : GamFns α) (l l' : List α) (h : (positives l).Perm (positives l')) :
    gammafit F l = gammafit F l' := by
  rw [gammafit_eq F l, gammafit_eq F l', lS_perm F h, lmean_perm h, h.length_eq]

theorem sum_pos_of_forall_pos : ∀ (l : List α), l ≠ [] → (∀ v ∈ l, 0 < v) → 0 < l.sum
  | [], h, _ => absurd rfl h
  | [a], _, hp => by simpa using hp a (by simp)
  | a :: b :: l, _, hp => by
    rw [List.sum_cons]
    have h1 : 0 < a := hp a (by simp)
    have h2 := sum_pos_of_forall_pos (b :: l) (by simp) (fun v hv => hp v (by simp [hv]))
    exact add_pos h1 h2

theorem lmean_positives_pos (l : List α) (h : (positives l).length ≠ 0) :
    0 < lmean (positives l) := by
  unfold lmean
  have hne : positives l ≠ [] := fun hc => h (by rw [hc]; rfl)
  have hs : 0 < (positives l).sum := by
    apply sum_pos_of_forall_pos _ hne
    intro v hv
    unfold positives at hv
    simpa using (List.mem_filter.mp hv).2
  have hn : (0 : α) < ((positives l).length : α) := by
    exact_mod_cast Nat.pos_of_ne_zero h
  exact div_pos hs hn

/-- the two possible outcomes of `gammafit` -/
theorem gammafit_cases (F : GamFns α) (l : List α) :
    (((positives l).length = 0 ∨ lS F (positives l) = 0 ∨ lRoot F (lS F (positives l)) = 0) ∧
        gammafit F l = (0, 0)) ∨
    ((positives l).length ≠ 0 ∧ lS F (positives l) ≠ 0 ∧ lRoot F (lS F (positives l)) ≠ 0 ∧
        gammafit F l =
          (lRoot F (lS F (positives l)), lmean (positives l) / lRoot F (lS F (positives l)))) := by
  rw [gammafit_eq]
  by_cases h1 : (positives l).length = 0
  · left; exact ⟨Or.inl h1, by rw [if_pos h1]⟩
  · by_cases h2 : lS F (positives l) = 0
    · left; exact ⟨Or.inr (Or.inl h2), by rw [if_neg h1, if_pos h2]⟩
    · by_cases h3 : lRoot F (lS F (positives l)) = 0
      · left; exact ⟨Or.inr (Or.inr h3), by rw [if_neg h1, if_neg h2, if_pos h3]⟩
      · right; exact ⟨h1, h2, h3, by rw [if_neg h1, if_neg h2, if_neg h3]⟩

/-- sums over the window as `Finset` sums -/
theorem lmean_slice (x : List α) (cs ce : ℕ) :
    lmean (positives (slice x cs ce)) =
      (∑ k ∈ winIdx x cs ce, x.getD k 0) / ((winIdx x cs ce).card : α) := by
  unfold lmean
  have := slice_sum_eq (fun v : α => v) x cs ce
  simp only [List.map_id'] at this
  rw [this, slice_positives_length]

theorem lS_slice (F : GamFns α) (x : List α) (cs ce : ℕ) :
    lS F (positives (slice x cs ce)) =
      F.log ((∑ k ∈ winIdx x cs ce, x.getD k 0) / ((winIdx x cs ce).card : α))
        - (∑ k ∈ winIdx x cs ce, F.log (x.getD k 0)) / ((winIdx x cs ce).card : α) := by
  unfold lS
  rw [lmean_slice, slice_sum_eq F.log x cs ce, slice_positives_length]


end slice

end Hdc.Spi
