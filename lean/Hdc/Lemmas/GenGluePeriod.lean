import Hdc.Gen.GluePeriod
import Hdc.Props.C11
/-
Helper lemmas for Hdc/Props/GenGluePeriod.lean: `List.mapM` in `Except`, and the per-instant bridge between the GENERATED dekad
class (`Hdc.Gen.Dekad`, through the C11 theorems) and the declarative specification `Hdc.AccPeriod` (Hdc/Model/AccPeriod.lean).
-/
set_option linter.unusedSimpArgs false
namespace Hdc.GenGluePeriod
open Hdc Hdc.Py Hdc.PyDate Hdc.AccPeriod Hdc.C11

/-! ### `List.mapM` in `Except` -/

theorem mapM_nil' {ε α β : Type} (f : α → Except ε β) : List.mapM f [] = .ok [] := rfl

theorem mapM_cons_ok {ε α β : Type} (f : α → Except ε β) (a : α) (l : List α) (b : β) (h : f a = .ok b) :
    List.mapM f (a :: l) = (List.mapM f l).map (fun r => b :: r) := by
  rw [List.mapM_cons, h]
  cases List.mapM f l <;> rfl

theorem mapM_cons_error {ε α β : Type} (f : α → Except ε β) (a : α) (l : List α) (e : ε) (h : f a = .error e) :
    List.mapM f (a :: l) = .error e := by
  rw [List.mapM_cons, h]; rfl

/-- every element succeeds: the map of the results -/
theorem mapM_ok_of_forall {ε α β : Type} (f : α → Except ε β) (g : α → β) :
    ∀ l : List α, (∀ x ∈ l, f x = .ok (g x)) → List.mapM f l = .ok (l.map g)
  | [], _ => rfl
  | a :: l, h => by
    rw [mapM_cons_ok f a l (g a) (h a (List.mem_cons_self ..)),
      mapM_ok_of_forall f g l (fun x hx => h x (List.mem_cons_of_mem _ hx))]
    rfl

/-- a successful `mapM`: same length, element `i` of the result is `f` of element `i` -/
theorem mapM_ok_getElem {ε α β : Type} (f : α → Except ε β) :
    ∀ (l : List α) (r : List β), List.mapM f l = .ok r →
      r.length = l.length ∧ ∀ (i : Nat) (t : α), l[i]? = some t → ∃ v, f t = .ok v ∧ r[i]? = some v
  | [], r, h => by
    cases h
    exact ⟨rfl, fun i t ht => by simp at ht⟩
  | a :: l, r, h => by
    cases hfa : f a with
    | error e => rw [mapM_cons_error f a l e hfa] at h; cases h
    | ok b =>
      rw [mapM_cons_ok f a l b hfa] at h
      cases hl : List.mapM f l with
      | error e => rw [hl] at h; cases h
      | ok r' =>
        rw [hl] at h
        cases h
        obtain ⟨h1, h2⟩ := mapM_ok_getElem f l r' hl
        refine ⟨by simp [h1], ?_⟩
        intro i t ht
        cases i with
        | zero =>
          simp only [List.getElem?_cons_zero, Option.some.injEq] at ht
          subst ht
          exact ⟨b, hfa, rfl⟩
        | succ j =>
          simp only [List.getElem?_cons_succ] at ht ⊢
          exact h2 j t ht

/-- an element that fails makes the whole `mapM` fail -/
theorem mapM_error_of_mem {ε α β : Type} (f : α → Except ε β) :
    ∀ (l : List α) (t : α), t ∈ l → (∃ e, f t = .error e) → ∃ e, List.mapM f l = .error e
  | a :: l, t, hm, ⟨e, he⟩ => by
    cases hfa : f a with
    | error e' => exact ⟨e', mapM_cons_error f a l e' hfa⟩
    | ok b =>
      rw [mapM_cons_ok f a l b hfa]
      have ht : t ∈ l := by
        rcases List.mem_cons.1 hm with rfl | h
        · rw [he] at hfa; cases hfa
        · exact h
      obtain ⟨e', he'⟩ := mapM_error_of_mem f l t ht ⟨e, he⟩
      exact ⟨e', by rw [he']; rfl⟩

/-! ### the per-instant bridge -/

theorem valid_date {t : Instant} (h : t.ValidDay) : ValidDate t.year t.month t.day := by
  obtain ⟨h1, h2, h3, h4, h5, h6⟩ := h
  exact ⟨h1, h2, h3, h4, h5, h6⟩

theorem inRange_of {t : Instant} (h : t.ValidDay) : InRange (Gen.Dekad.ofDate t.year t.month t.day) :=
  ofDate_inRange (valid_date h)

theorem inRange_succ_of {t : Instant} (h : t.ValidDay) (hl : ¬ t.inLastDekad) :
    InRange (Gen.Dekad.ofDate t.year t.month t.day + 1) := by
  have hr := inRange_of h
  obtain ⟨h1, h2, h3, h4, h5, h6⟩ := h
  have := daysInMonth_bounds t.year t.month
  unfold Instant.inLastDekad at hl
  unfold InRange at hr ⊢
  rw [ofDate_eq] at hr ⊢
  omega

theorem inLast_succ_not_inRange {t : Instant} (h : t.ValidDay) (hl : t.inLastDekad) :
    Gen.Dekad.ofDate t.year t.month t.day = 359999 := by
  obtain ⟨h1, h2, h3, h4, h5, h6⟩ := h
  have := daysInMonth_bounds t.year t.month
  obtain ⟨a, b, c⟩ := hl
  rw [ofDate_eq]
  omega

theorem idx_spec {t : Instant} (h : t.ValidDay) : Gen.Dekad.idx (Gen.Dekad.ofDate t.year t.month t.day) = dekadIdx t := by
  rw [idx_ofDate (valid_date h)]
  obtain ⟨h1, h2, h3, h4, h5, h6⟩ := h
  have := daysInMonth_bounds t.year t.month
  unfold dekadIdx
  omega

theorem yidx_spec {t : Instant} (h : t.ValidDay) : Gen.Dekad.yidx (Gen.Dekad.ofDate t.year t.month t.day) = dekadYidx t := by
  rw [yidx_month_idx, month_ofDate (valid_date h), idx_spec h]
  rfl

theorem raw_spec {t : Instant} (h : t.ValidDay) : Gen.Dekad.raw (Gen.Dekad.ofDate t.year t.month t.day) = dekadRaw t := by
  rw [raw_decomp, year_ofDate (valid_date h), month_ofDate (valid_date h), idx_spec h]
  unfold dekadRaw dekadYidx
  omega

theorem str_spec {t : Instant} (h : t.ValidDay) : Gen.Dekad.str (Gen.Dekad.ofDate t.year t.month t.day) = dekadLabel t := by
  simp only [Gen.Dekad.str]
  rw [year_ofDate (valid_date h), month_ofDate (valid_date h), idx_spec h]
  rfl

theorem start_spec {t : Instant} (h : t.ValidDay) :
    Gen.Dekad.start_date (Gen.Dekad.ofDate t.year t.month t.day) = .ok (dekadStart t) := by
  rw [start_date_ok (inRange_of h), year_ofDate (valid_date h), month_ofDate (valid_date h), day_ofDate (valid_date h)]
  rfl

theorem ndays_spec {t : Instant} (h : t.ValidDay) (hl : ¬ t.inLastDekad) :
    Gen.Dekad.ndays (Gen.Dekad.ofDate t.year t.month t.day) = .ok (dekadNdays t) := by
  rw [ndays_eq (inRange_of h) (inRange_succ_of h hl), len_ofDate (valid_date h)]
  rfl

theorem endDay_eq (t : Instant) : dekadEndDay t = dekadStartDay t + dekadNdays t - 1 := by
  unfold dekadEndDay dekadStartDay dekadNdays
  split <;> split <;> omega

theorem end_spec {t : Instant} (h : t.ValidDay) (hl : ¬ t.inLastDekad) :
    Gen.Dekad.end_date (Gen.Dekad.ofDate t.year t.month t.day) = .ok (dekadEnd t) := by
  rw [end_date_ok (inRange_of h) (inRange_succ_of h hl), startOrd_succ, startOrd_ofDate (valid_date h),
    len_ofDate (valid_date h), day_ofDate (valid_date h)]
  unfold dekadEnd
  rw [endDay_eq, ← ymd2ord_add_day]
  unfold dekadStartDay dekadNdays
  congr 2
  unfold ymd2ord
  omega

theorem end_last {t : Instant} (h : t.ValidDay) (hl : t.inLastDekad) :
    Gen.Dekad.end_date (Gen.Dekad.ofDate t.year t.month t.day) = .error .valueError := by
  rw [inLast_succ_not_inRange h hl]; exact end_date_last

theorem ndays_last' {t : Instant} (h : t.ValidDay) (hl : t.inLastDekad) :
    Gen.Dekad.ndays (Gen.Dekad.ofDate t.year t.month t.day) = .error .valueError := by
  rw [inLast_succ_not_inRange h hl]; exact ndays_last

/-! ### the specification alone -/

theorem startDay_le (t : Instant) (h : t.ValidDay) : dekadStartDay t ≤ t.day ∧ t.day ≤ dekadEndDay t := by
  obtain ⟨h1, h2, h3, h4, h5, h6⟩ := h
  unfold dekadStartDay dekadEndDay
  split <;> (try split) <;> omega

theorem start_le_end_spec (t : Instant) (h : t.Valid) :
    (dekadStart t).totalUs ≤ t.totalUs ∧ t.totalUs ≤ (dekadEnd t).totalUs := by
  obtain ⟨a, b⟩ := startDay_le t h.1
  obtain ⟨_, h7, h8⟩ := h
  unfold dekadStart dekadEnd DateTime.totalUs Instant.totalUs ymd2ord
  simp only []
  unfold usPerDay at *
  omega

theorem ndays_span_spec (t : Instant) :
    (dekadEnd t).totalUs + 1 - (dekadStart t).totalUs = dekadNdays t * usPerDay := by
  unfold dekadStart dekadEnd DateTime.totalUs ymd2ord
  simp only []
  rw [endDay_eq]
  unfold usPerDay
  omega

theorem ofDate_eq_iff {a b : Instant} (ha : a.ValidDay) (hb : b.ValidDay) :
    Gen.Dekad.ofDate a.year a.month a.day = Gen.Dekad.ofDate b.year b.month b.day ↔ sameDekad a b := by
  have ia := idx_spec ha
  have ib := idx_spec hb
  rw [idx_eq] at ia ib
  rw [ofDate_eq] at ia ib
  obtain ⟨a1, a2, a3, a4, a5, a6⟩ := ha
  obtain ⟨b1, b2, b3, b4, b5, b6⟩ := hb
  have := daysInMonth_bounds a.year a.month
  have := daysInMonth_bounds b.year b.month
  unfold sameDekad
  rw [ofDate_eq, ofDate_eq]
  constructor
  · intro h; omega
  · rintro ⟨h1, h2, h3⟩; omega

end Hdc.GenGluePeriod
