import Hdc.Lemmas.GenNumOptvplcTyx
import Hdc.Lemmas.SmoothMasked
import Hdc.Props.GenNumOptvpCore
import Hdc.Props.GenNumAC1d
/-
The per-pixel result of `ws2doptvplc_tyx` in terms of the generated callees (`pixOut`, Hdc/Lemmas/GenNumOptvplcTyx.lean) is
what the hand model `Hdc.optvplc` returns for the pixel's series: bridges through the refinement theorems of the callees
(`gen_ws2doptvpCore_eq_model`, `gen_autocorr_1d_nd_eq_model`) and the masked-data congruence of the smoother
(`Smooth.optvpCore_masked`: the source smooths `xx` with 0 in the nodata cells, the model takes the raw series).
-/
namespace Hdc.GenNumTyx
open Hdc Hdc.Gen.NumKernels

set_option linter.unusedSectionVars false

variable {α : Type} [Field α] [LinearOrder α] [IsStrictOrderedRing α]

theorem eqv_cast (v nodata : Int) : eqv ((v : ℤ) : α) ((nodata : ℤ) : α) = true ↔ v = nodata := by
  simp only [eqv, Bool.and_eq_true, Bool.not_eq_true', decide_eq_false_iff_not, not_lt, Int.cast_le]
  omega

/-- the series as the model sees it: every cell cast to the carrier (nodata cells included) -/
def castS (s : List Int) : List α := s.map fun v => ((v : ℤ) : α)

theorem weightsOf_cast (nodata : Int) (s : List Int) :
    weightsOf (fun x : α => eqv x ((nodata : ℤ) : α)) (castS s) = wtI nodata s := by
  simp only [weightsOf, castS, wtI, List.map_map]
  apply List.map_congr_left
  intro v _
  by_cases h : v = nodata
  · simp [h, (eqv_cast (α := α) nodata nodata).2 rfl, nat]
  · have : ¬ eqv ((v : ℤ) : α) ((nodata : ℤ) : α) = true := fun h' => h ((eqv_cast v nodata).1 h')
    simp [h, this, nat]

theorem cleanOf_cast (nodata : Int) (s : List Int) :
    cleanOf (fun x : α => eqv x ((nodata : ℤ) : α)) (castS s) = cleanI nodata s := by
  simp only [cleanOf, castS, cleanI, List.map_map]
  apply List.map_congr_left
  intro v _
  by_cases h : v = nodata
  · simp [h, (eqv_cast (α := α) nodata nodata).2 rfl, nat]
  · have : ¬ eqv ((v : ℤ) : α) ((nodata : ℤ) : α) = true := fun h' => h ((eqv_cast v nodata).1 h')
    simp [h, this]

theorem countValid_cast (nodata : Int) (s : List Int) :
    countValid (fun x : α => eqv x ((nodata : ℤ) : α)) (castS s) = goodI nodata s := by
  simp only [countValid, castS, goodI, List.filter_map, List.length_map]
  congr 1
  apply List.filter_congr
  intro v _
  by_cases h : v = nodata
  · simp [h, (eqv_cast (α := α) nodata nodata).2 rfl]
  · have : ¬ eqv ((v : ℤ) : α) ((nodata : ℤ) : α) = true := fun h' => h ((eqv_cast v nodata).1 h')
    simp [h, this]

/-- the model's lag-1 autocorrelation of the pixel -/
def lcM (rsqrt : α → α) (eps : α) (nodata : Int) (s : List Int) : α :=
  autocorr1d rsqrt eps (s.map fun v => if v = nodata then none else some ((v : ℤ) : α))

/-- one pixel: the generated body computes the model.  `hfit`: only when a fit happens, `3 ≤ nt` (the translated `ws2d`) and
    at least two points in the grid that is selected. -/
theorem pixOut_eq_model (F : VFns α) (rnd : α → Int) (rsqrt : α → α) (eps : α) (g0 g1 : Array α) (c0_5 p : α)
    (nodata : Int) (s : List Int) (gNaN : List α)
    (hfit : 1 < goodI nodata s → 3 ≤ s.length ∧
      2 ≤ (if c0_5 < lcM rsqrt eps nodata s then g0.toList else g1.toList).length) :
    pixOut F rnd rsqrt eps g0 g1 c0_5 p nodata s =
      match optvplc F (fun x : α => eqv x ((nodata : ℤ) : α)) (castS s) p (decide (c0_5 < lcM rsqrt eps nodata s))
          (!decide (c0_5 < lcM rsqrt eps nodata s)) g0.toList g1.toList gNaN with
      | some (z, lo) => (z.map rnd, lo)
      | none => (List.replicate s.length 0, 0) := by
  unfold pixOut optvplc
  rw [countValid_cast]
  by_cases hg : 1 < goodI nodata s
  · obtain ⟨h3, h2⟩ := hfit hg
    rw [if_pos hg, if_pos hg, Hdc.GenNumAC1d.gen_autocorr_1d_nd_eq_model,
      Smooth.optvpCore_masked F (Smooth.maskedEq_clean (fun x : α => eqv x ((nodata : ℤ) : α)) (castS s)) p,
      weightsOf_cast, cleanOf_cast]
    have key : ∀ (g : List α), 2 ≤ g.length →
        (let res := ws2doptvpCore F (cleanI nodata s).toArray (wtI nodata s).toArray p g.toArray
         (if res.1.size = s.length then List.map rnd res.1.toList else List.replicate s.length 0, res.2)) =
        match optvpCore F (cleanI nodata s) (wtI nodata s) p g with
        | some (z, lo) => (z.map rnd, lo)
        | none => (List.replicate s.length 0, 0) := by
      intro g hg2
      have hm := Hdc.GenNum.gen_ws2doptvpCore_eq_model F (cleanI nodata s) (wtI nodata s) g p (by simp)
        (by simpa using h3) hg2
      have hlen : (ws2doptvpCore F (cleanI nodata s).toArray (wtI nodata s).toArray p g.toArray).1.size = s.length := by
        have h := hm
        rw [Hdc.GenNum.optvpCore_eq F _ _ p g hg2] at h
        injection h with h
        injection h with h1 _
        rw [← Array.length_toList, ← h1, Smooth.expectile_length _ _ _ _ (by simp)]
        simp
      rw [hm]
      simp only [hlen, if_true]
    by_cases hc : c0_5 < lcM rsqrt eps nodata s
    · simp only [lcM] at hc h2 ⊢
      simp only [hc, if_true, decide_true] at h2 ⊢
      have := key g0.toList h2
      simp only [Array.toArray_toList] at this
      exact this
    · simp only [lcM] at hc h2 ⊢
      simp only [hc, if_false, decide_false, Bool.not_false, Bool.false_eq_true] at h2 ⊢
      have := key g1.toList h2
      simp only [Array.toArray_toList] at this
      exact this
  · rw [if_neg hg, if_neg hg]

end Hdc.GenNumTyx
