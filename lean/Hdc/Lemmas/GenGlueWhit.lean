import Hdc.Lemmas.GenGlue
import Hdc.Model.AccWhit
/-
Helpers for Hdc/Props/GenGlueWhit*.lean: the INTERPRETATION of a plan of Hdc/Model/AccWhit.lean by the library parameters of the
generated programs (which `xarray.apply_ufunc(..)` parameter a constructor stands for, with the arguments in the kernel's order), and
the post-processing shared by whitsvc / whitswcv.  Definitions and evaluation lemmas only; nothing here mentions a generated program.
-/
namespace Hdc.GenGlue
open Hdc.PyGlue Hdc.AccWhit

/-- whits: `.gu` is the parameter `apply_gu` (pattern `apply_ufunc(ops.ws2dgu, obj, lmda, nodata, ..)`), `.pgu` is `apply_pgu`
    (`apply_ufunc(ops.ws2dpgu, obj, lmda, nodata, p, ..)`); every optional slot is filled (never None) -/
def runFixed {L V P DA : Type} (apply_pgu : Option L → V → Option P → DA) (apply_gu : Option L → V → DA) : FixedCall L V P → DA
  | .gu l nd => apply_gu (some l) nd
  | .pgu l nd q => apply_pgu (some l) nd (some q)

/-- whitsvc: `.optvplc` / `.optvp` / `.optv` are the three `apply_ufunc` parameters; every optional slot is filled -/
def runV {V P SR LC R : Type} (apply_optvplc : V → Option P → Option LC → R) (apply_optvp : V → Option P → Option SR → R)
    (apply_optv : V → Option SR → R) : VCall V P SR LC → R
  | .optv nd r => apply_optv nd (some r)
  | .optvp nd q r => apply_optvp nd (some q) (some r)
  | .optvplc nd q c => apply_optvplc nd (some q) (some c)

/-- whitswcv: `.wcvp` / `.wcv` are the two `apply_ufunc` parameters -/
def runGcv {V P SR R : Type} (apply_wcvp : V → Option P → Option SR → Bool → R) (apply_wcv : V → Option SR → Bool → R) :
    GcvCall V P SR → R
  | .wcv nd r rb => apply_wcv nd (some r) rb
  | .wcvp nd q r rb => apply_wcvp nd (some q) (some r) rb

/-- whitint: the one kernel call; `template_out` is `np.zeros(nOut, dtype='u1')` -/
def runTI {T TO DA : Type} (zeros_u1 : Int → TO) (apply_tinterp : T → List Int → TO → DA) : TICall T → DA
  | .tinterp t l n => apply_tinterp t l (zeros_u1 n)

/-- the post-processing of whitsvc / whitswcv on the kernel's pair (smoothed, lambda):
    `ds = smoothed.to_dataset(name=smoothed.name or 'band'); ds['sgrid'] = np.log10(lambda).astype('float32')` -/
def sgridDataset {DA SGr DS LogS : Type} (to_dataset : DA → DS) (log10_f32 : SGr → LogS) (set_sgrid : DS → LogS → DS)
    (r : DA × SGr) : DS :=
  set_sgrid (to_dataset r.1) (log10_f32 r.2)

theorem except_map_ok {α β : Type} (f : α → β) (x : α) : (Except.ok x : Except Exc α).map f = .ok (f x) := rfl
theorem except_map_error {α β : Type} (f : α → β) (e : Exc) : (Except.error e : Except Exc α).map f = .error e := rfl

end Hdc.GenGlue
