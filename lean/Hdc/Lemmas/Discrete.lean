import Hdc.Model.Discrete
/-
Shared list lemmas for the discrete kernels (C16, C17): the (sum, count) accumulator,
sums under permutation, bounds.
-/
namespace Hdc.Discrete

/-- the `(sum, count)` accumulator loop computes sum and length -/
theorem foldl_sumCount (l : List (Int × Int)) (a : Int) (c : Nat) :
    l.foldl (fun (acc : Int × Nat) (p : Int × Int) => (acc.1 + p.1, acc.2 + 1)) (a, c)
      = (a + (l.map (·.1)).sum, c + l.length) := by
  induction l generalizing a c with
  | nil => simp
  | cons p ps ih => simp only [List.foldl_cons, ih, List.map_cons, List.sum_cons, List.length_cons]
                    congr 1 <;> omega

theorem foldl_sumCount0 (l : List (Int × Int)) :
    l.foldl (fun (acc : Int × Nat) (p : Int × Int) => (acc.1 + p.1, acc.2 + 1)) (0, 0)
      = ((l.map (·.1)).sum, l.length) := by
  rw [foldl_sumCount]; simp

theorem foldl_add_eq_sum (l : List Int) (a : Int) : l.foldl (· + ·) a = a + l.sum := by
  induction l generalizing a with
  | nil => simp
  | cons x xs ih => simp only [List.foldl_cons, ih, List.sum_cons]; omega

theorem perm_sum_int {l₁ l₂ : List Int} (h : l₁.Perm l₂) : l₁.sum = l₂.sum := by
  induction h with
  | nil => rfl
  | cons x _ ih => simp [ih]
  | swap x y l => simp only [List.sum_cons]; omega
  | trans _ _ ih1 ih2 => exact ih1.trans ih2

theorem zip_map_fst_snd {α β : Type} (l : List (α × β)) : (l.map (·.1)).zip (l.map (·.2)) = l := by
  induction l with
  | nil => rfl
  | cons p ps ih => simp [ih]

theorem natAbs_sum_le (l : List Int) (B : Nat) (h : ∀ v ∈ l, v.natAbs ≤ B) :
    l.sum.natAbs ≤ l.length * B := by
  induction l with
  | nil => simp
  | cons x xs ih =>
    have hx := h x (by simp)
    have hxs := ih (fun v hv => h v (by simp [hv]))
    simp only [List.sum_cons, List.length_cons, Nat.add_mul, Nat.one_mul]
    omega

/-- sentinel encoding followed by the validity filter recovers exactly the present values -/
theorem filter_enc (nd : Int) (l : List (Option Int)) (hc : ∀ v, some v ∈ l → v ≠ nd) :
    ((l.map fun o => o.getD nd).filter fun v => v ≠ nd) = l.filterMap id := by
  induction l with
  | nil => rfl
  | cons o os ih =>
    have ih' := ih (fun v hv => hc v (by simp [hv]))
    cases o with
    | none => simpa using ih'
    | some a =>
      have ha : a ≠ nd := hc a (by simp)
      simp only [List.map_cons, Option.getD_some, List.filterMap_cons, id]
      rw [List.filter_cons_of_pos (by simpa using ha), ih']

/-- the same for the grouped kernel: cells carrying label `g` -/
theorem filter_enc_zip (nd g : Int) (l : List (Option Int)) (groups : List Int)
    (hc : ∀ v, some v ∈ l → v ≠ nd) :
    ((((l.map fun o => o.getD nd).zip groups).filter fun (v, k) => k = g ∧ v ≠ nd).map (·.1))
      = (l.zip groups).filterMap fun (o, k) => if k = g then o else none := by
  induction l generalizing groups with
  | nil => rfl
  | cons o os ih =>
    cases groups with
    | nil => rfl
    | cons k ks =>
      have ih' := ih ks (fun v hv => hc v (by simp [hv]))
      simp only [List.map_cons, List.zip_cons_cons, List.filterMap_cons]
      by_cases hk : k = g
      · cases o with
        | none =>
          simp only [hk, if_true]
          rw [List.filter_cons_of_neg (by simp)]
          exact ih'
        | some a =>
          have ha : a ≠ nd := hc a (by simp)
          simp only [hk, if_true, Option.getD_some]
          rw [List.filter_cons_of_pos (by simpa using ha)]
          simp only [List.map_cons]
          rw [ih']
      · simp only [hk, if_false]
        rw [List.filter_cons_of_neg (by simp [hk])]
        exact ih'

end Hdc.Discrete
