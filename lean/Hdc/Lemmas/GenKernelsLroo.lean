import Hdc.Lemmas.GenKernels
import Hdc.Model.Discrete
/-
Loop invariant for `Gen.Kernels.lroo` against the model `Hdc.lroo` (`dotsFrom`, `lrooLoop`, `lrooRaw`).
-/
namespace Hdc.GenKernels
open Hdc Hdc.Gen.Kernels

/-! ### `np.where(data == 1)[0]` -/

theorem dotsFrom_eq (data : List ℕ) (i : ℕ) :
    dotsFrom i data
      = ((List.range data.length).filter fun j => decide (data.getD j 0 = 1)).map (· + i) := by
  induction data generalizing i with
  | nil => simp [dotsFrom]
  | cons a t ih =>
    rw [List.length_cons, List.range_succ_eq_map, List.filter_cons, List.filter_map]
    simp only [dotsFrom, ih (i + 1)]
    have hf : ((fun j => decide ((a :: t).getD j 0 = 1)) ∘ Nat.succ)
        = fun j => decide (t.getD j 0 = 1) := by
      funext j; simp
    have hg : ((fun x => x + i) ∘ Nat.succ) = ((fun x => x + (i + 1)) : ℕ → ℕ) := by
      funext j; simp only [Function.comp]; omega
    rw [hf]
    by_cases ha : a = 1 <;> simp [ha, List.map_map, hg]

theorem whereEq_ofNat (data : List ℕ) :
    whereEq (data.map Int.ofNat).toArray 1 = ((dotsFrom 0 data).map Int.ofNat).toArray := by
  rw [dotsFrom_eq]
  simp only [whereEq, List.size_toArray, List.length_map, Nat.add_zero, List.map_id']
  congr 2
  apply List.filter_congr
  intro j hj
  have hj : j < data.length := List.mem_range.mp hj
  simp only [Array.getD_eq_getD_getElem?, List.getElem?_toArray, List.getElem?_map,
    List.getD_eq_getElem?_getD, List.getElem?_eq_getElem hj, Option.map_some, Option.getD_some,
    decide_eq_decide]
  exact ⟨fun h => by simpa using h, fun h => by simp [h]⟩

/-- the `j`-th dot as the source reads it -/
theorem gv_dots (D : List ℕ) (j : ℕ) (h : j < D.length) :
    gv (D.map Int.ofNat).toArray j = (D.getD j 0 : ℕ) := by
  simp [gv, h]

/-! ### the loop -/

/-- state after `p` iterations: the model's loop, started from dot `p` with the current `cr`, `mr`
    on the remaining dots, returns the final `mr` -/
def LrooInv (data : List ℕ) (p : ℕ) (cr mr : ℤ) : Prop :=
  ∃ c m : ℕ, cr = c ∧ mr = m ∧
    lrooLoop ((dotsFrom 0 data).getD p 0) c m ((dotsFrom 0 data).drop (p + 1)) = lrooRaw data

theorem LrooInv.init (data : List ℕ) : LrooInv data 0 1 0 := by
  refine ⟨1, 0, rfl, rfl, ?_⟩
  unfold lrooRaw
  cases dotsFrom 0 data with
  | nil => rfl
  | cons d ds => simp

theorem drop_succ_getD (D : List ℕ) (p : ℕ) (h : p + 1 < D.length) :
    D.drop (p + 1) = D.getD (p + 1) 0 :: D.drop (p + 2) := by
  rw [List.drop_eq_getElem_cons h]
  simp [h]

/-- one iteration: the source reads the dots `j1 = p + 1` and `j0 = p`; `hcr`/`hmr` describe its
    updates of `cr` and `mr` -/
theorem LrooInv.step {data : List ℕ} {p : ℕ} {cr mr cr' mr' : ℤ} (h : LrooInv data p cr mr)
    {j1 j0 : ℕ} (hj1 : j1 = p + 1) (hj0 : j0 = p)
    (hp : p + 1 < (dotsFrom 0 data).length) {d : ℤ}
    (hd : d = ((dotsFrom 0 data).getD j1 0 : ℕ) - ((dotsFrom 0 data).getD j0 0 : ℕ))
    (hcr : cr' = if d = 1 then cr + 1 else 1)
    (hmr : mr' = if d = 1 then (if cr + 1 > mr then cr + 1 else mr) else mr) :
    LrooInv data (p + 1) cr' mr' := by
  subst hj1; subst j0
  obtain ⟨c, m, rfl, rfl, hl⟩ := h
  rw [drop_succ_getD _ p hp, lrooLoop] at hl
  have hiff : d = 1 ↔ (dotsFrom 0 data).getD (p + 1) 0 - (dotsFrom 0 data).getD p 0 = 1 := by
    omega
  by_cases h1 : d = 1
  · rw [if_pos (hiff.mp h1)] at hl
    rw [if_pos h1] at hcr hmr
    by_cases h2 : c + 1 > m
    · refine ⟨c + 1, c + 1, by rw [hcr]; simp, ?_, by simpa [h2] using hl⟩
      rw [hmr, if_pos (by omega)]; simp
    · refine ⟨c + 1, m, by rw [hcr]; simp, ?_, by simpa [h2] using hl⟩
      rw [hmr, if_neg (by omega)]
  · rw [if_neg (fun h => h1 (hiff.mpr h))] at hl
    rw [if_neg h1] at hcr hmr
    exact ⟨1, m, by rw [hcr]; simp, hmr, hl⟩

theorem LrooInv.final {data : List ℕ} {p : ℕ} {cr mr : ℤ} (h : LrooInv data p cr mr)
    (hp : (dotsFrom 0 data).length ≤ p + 1) : mr = (lrooRaw data : ℕ) := by
  obtain ⟨c, m, rfl, rfl, hl⟩ := h
  rw [List.drop_eq_nil_of_le hp, lrooLoop] at hl
  rw [hl]

/-- the final `if mr > 1` -/
theorem lroo_cast (data : List ℕ) :
    (lroo data : ℤ) = if (lrooRaw data : ℤ) > 1 then (lrooRaw data : ℤ) else 0 := by
  unfold lroo
  by_cases h : lrooRaw data > 1
  · have h' : (lrooRaw data : ℤ) > 1 := by omega
    simp only [h, h', if_true]
  · have h' : ¬ (lrooRaw data : ℤ) > 1 := by omega
    simp only [h, h', if_false, Nat.cast_zero]

/-- `out[0] = v` on a one-cell buffer -/
theorem wr_single (o : Array Int) (ho : o.size = 1) (v : Int) : wr o 0 v = #[v] := by
  apply Array.ext
  · simp [ho]
  · intro i h1 h2
    have : i = 0 := by simp at h2; omega
    subst this
    simp [wr, ix]

end Hdc.GenKernels
