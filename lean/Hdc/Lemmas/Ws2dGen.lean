import Hdc.Gen.Ws2d
import Hdc.Lemmas.Ws2dRows
import Hdc.Lemmas.ArrCommon
import Mathlib.Algebra.Field.Basic
import Mathlib.Tactic.Ring
/-
Generic lemmas for the refinement proof "generated translation of ws2d.py = hand model":

  (a) `rd` / `wr` / `pyRange` / `pyRangeDown` of `Hdc.Gen.Ws2d` (Python index semantics) in terms of
      ℕ-indexed reads `av a j`;
  (b) the rows of the model (`Hdc.Ws2d.RS`) in exactly the shape in which the source writes them;
  (c) the loop invariants `Fwd` (forward sweep) and `Bwd` (back substitution).

Nothing in this file mentions the generated program `Hdc.Gen.Ws2d.ws2d` itself.
-/
namespace Hdc.Ws2dGen
open Hdc.Gen.Ws2d Hdc.Ws2d

variable {α : Type} [Field α]

/-! ### (a) arrays read as functions -/

theorem ix_of_eq (n : ℕ) (i : ℤ) (j : ℕ) (h : i = (j : ℤ)) : ix n i = j := by
  subst h
  have : ¬ ((j : ℤ) < 0) := by omega
  simp [ix, this]

theorem rd_of_eq (a : Array α) (i : ℤ) (j : ℕ) (h : i = (j : ℤ)) : rd a i = av a j := by
  simp only [rd, av, nat, ix_of_eq a.size i j h, Nat.cast_zero]

/-- reading at a non-negative index -/
theorem rd_nonneg (a : Array α) (i : ℤ) (h : 0 ≤ i) : rd a i = av a i.toNat :=
  rd_of_eq a i i.toNat (by omega)

/-- reading at a negative index wraps around; used for the one wrapped read of the source
    (`i2 = m - 3 = -1` at `n = 3`), which hits a cell that is still zero -/
theorem rd_wrap_zero {a : Array α} {n k : ℕ} (hs : a.size = n) (hz : ∀ j, k ≤ j → av a j = 0)
    (i : ℤ) (j : ℕ) (hi : i < 0) (hj : i + (n : ℤ) = (j : ℤ)) (hk : k ≤ j) : rd a i = 0 := by
  have : ix a.size i = j := by
    simp only [ix, hi, if_true, hs]
    omega
  simp only [rd, this, nat, Nat.cast_zero]
  exact hz j hk

omit [Field α] in
@[simp] theorem size_wr (a : Array α) (i : ℤ) (v : α) : (wr a i v).size = a.size := by
  simp [wr]

/-- `rd_wr_same` -/
theorem av_wr_self (a : Array α) (i : ℤ) (v : α) (j : ℕ) (h : i = (j : ℤ)) (hj : j < a.size) :
    av (wr a i v) j = v := by
  simp only [wr, ix_of_eq a.size i j h]
  exact av_setIfInBounds_self a j v hj

/-- `rd_wr_other` -/
theorem av_wr_ne (a : Array α) (i : ℤ) (v : α) (j : ℕ) (hi : 0 ≤ i) (h : i ≠ (j : ℤ)) :
    av (wr a i v) j = av a j := by
  simp only [wr, ix_of_eq a.size i i.toNat (by omega)]
  exact av_setIfInBounds_ne a _ j v (by omega)

theorem av_toArray (l : List α) (j : ℕ) : av l.toArray j = fnl l j := by
  simp [av, fnl]

theorem av_replicate (n j : ℕ) : av (Array.replicate n (0 : α)) j = 0 := by
  simp only [av, Array.getD_eq_getD_getElem?, Array.getElem?_replicate]
  split <;> simp

theorem toList_eq_of_av (z : Array α) (l : List α) (hs : z.size = l.length)
    (h : ∀ j < l.length, av z j = fnl l j) : z.toList = l := by
  apply list_eq_of_fnl _ _ (by simpa using hs)
  intro j hj
  have hj' : j < l.length := by simpa [hs] using hj
  rw [← h j hj']
  simp [av, fnl]

/-! ### `range(a, b)` and `range(a, b, -1)` -/

@[simp] theorem pyRange_length (a b : ℤ) : (pyRange a b).length = (b - a).toNat := by
  simp [pyRange]

@[simp] theorem pyRangeDown_length (a b : ℤ) : (pyRangeDown a b).length = (a - b).toNat := by
  simp [pyRangeDown]

/-- the current element of `for i in range(a, b)` after `pref` iterations -/
theorem pyRange_split (a b : ℤ) (pref suff : List ℤ) (cur : ℤ)
    (h : pyRange a b = pref ++ cur :: suff) :
    cur = a + (pref.length : ℤ) ∧ a + (pref.length : ℤ) < b := by
  obtain ⟨hlt, hget⟩ := split_getElem _ _ _ _ h
  rw [pyRange_length] at hlt
  refine ⟨?_, by omega⟩
  rw [← hget]
  simp [pyRange]

/-- the current element of `for i in range(a, b, -1)` after `pref` iterations -/
theorem pyRangeDown_split (a b : ℤ) (pref suff : List ℤ) (cur : ℤ)
    (h : pyRangeDown a b = pref ++ cur :: suff) :
    cur = a - (pref.length : ℤ) ∧ b < a - (pref.length : ℤ) := by
  obtain ⟨hlt, hget⟩ := split_getElem _ _ _ _ h
  rw [pyRangeDown_length] at hlt
  refine ⟨?_, by omega⟩
  rw [← hget]
  simp [pyRangeDown]

/-! ### (b) rows of the model, as the source writes them -/

section rows
variable (y w : List α) (lam : α)

/-- row `j` of the forward sweep of the model -/
def Rw (j : ℕ) : Row α := RS lam y.length (fnl w) (fnl y) (j + 2)

/-- the output of the model, read as a function -/
def X (j : ℕ) : α := fnl (Hdc.ws2d y lam w) j

theorem diagCoef_first (n : ℕ) : diagCoef n 0 = 1 := by simp [diagCoef]
theorem diagCoef_second (n : ℕ) (h : 3 ≤ n) : diagCoef n 1 = 5 := by
  have : ¬ (1 + 1 = n) := by omega
  simp [diagCoef, this]
theorem diagCoef_mid (n k : ℕ) (h2 : 2 ≤ k) (h : k + 2 < n) : diagCoef n k = 6 := by
  have h1 : ¬ (k = 0 ∨ k + 1 = n) := by omega
  have h3 : ¬ (k = 1 ∨ k + 2 = n) := by omega
  simp [diagCoef, h1, h3]
theorem diagCoef_penult (n k : ℕ) (h2 : 1 ≤ k) (h : k + 2 = n) : diagCoef n k = 5 := by
  have h1 : ¬ (k = 0 ∨ k + 1 = n) := by omega
  simp [diagCoef, h1, h]
theorem diagCoef_last (n k : ℕ) (h : k + 1 = n) : diagCoef n k = 1 := by
  simp [diagCoef, h]
theorem supCoef_first (n : ℕ) : supCoef n 0 = 2 := by simp [supCoef]
theorem supCoef_mid (n k : ℕ) (h1 : 1 ≤ k) (h : k + 2 < n) : supCoef n k = 4 := by
  have h1 : ¬ (k = 0 ∨ k + 2 = n) := by omega
  simp [supCoef, h1]
theorem supCoef_penult (n k : ℕ) (h : k + 2 = n) : supCoef n k = 2 := by
  simp [supCoef, h]

theorem Rw_d_zero : (Rw y w lam 0).d = fnl w 0 + (diagCoef y.length 0 : α) * lam := by
  unfold Rw
  rw [RS_d]
  simp

theorem Rw_d_one : (Rw y w lam 1).d =
    fnl w 1 + (diagCoef y.length 1 : α) * lam
      - (Rw y w lam 0).c * (Rw y w lam 0).c * (Rw y w lam 0).d := by
  unfold Rw
  rw [RS_d]
  simp only [RS_one, zero_e, zero_d]
  ring

theorem Rw_d_succ2 (k : ℕ) : (Rw y w lam (k + 2)).d =
    fnl w (k + 2) + (diagCoef y.length (k + 2) : α) * lam
      - (Rw y w lam (k + 1)).c * (Rw y w lam (k + 1)).c * (Rw y w lam (k + 1)).d
      - (Rw y w lam k).e * (Rw y w lam k).e * (Rw y w lam k).d := by
  unfold Rw
  rw [RS_d]
  ring

theorem Rw_c_zero : (Rw y w lam 0).c =
    (-(supCoef y.length 0 : α) * lam) / (Rw y w lam 0).d := by
  unfold Rw
  rw [RS_succ2]
  simp only [fwdRow, nat, Nat.zero_add, RS_one, RS_zero, zero_e, zero_d, zero_c]
  ring

theorem Rw_c_succ (k : ℕ) : (Rw y w lam (k + 1)).c =
    (-(supCoef y.length (k + 1) : α) * lam
      - (Rw y w lam k).d * (Rw y w lam k).c * (Rw y w lam k).e) / (Rw y w lam (k + 1)).d := by
  unfold Rw
  rw [RS_succ2]
  simp only [fwdRow, nat]

theorem Rw_e (k : ℕ) : (Rw y w lam k).e = lam / (Rw y w lam k).d := by
  unfold Rw
  rw [RS_succ2]
  simp only [fwdRow, nat]

theorem Rw_u_zero : (Rw y w lam 0).u = fnl w 0 * fnl y 0 := by
  unfold Rw
  rw [RS_u]
  simp

theorem Rw_u_one : (Rw y w lam 1).u =
    fnl w 1 * fnl y 1 - (Rw y w lam 0).c * (Rw y w lam 0).u := by
  unfold Rw
  rw [RS_u]
  simp

theorem Rw_u_succ2 (k : ℕ) : (Rw y w lam (k + 2)).u =
    fnl w (k + 2) * fnl y (k + 2) - (Rw y w lam (k + 1)).c * (Rw y w lam (k + 1)).u
      - (Rw y w lam k).e * (Rw y w lam k).u := by
  unfold Rw
  rw [RS_u]

theorem X_rel (h : w.length = y.length) (j : ℕ) (hj : j < y.length) :
    X y w lam j = (Rw y w lam j).u / (Rw y w lam j).d
      - (Rw y w lam j).c * X y w lam (j + 1) - (Rw y w lam j).e * X y w lam (j + 2) :=
  ws2d_rel y w lam h j hj

theorem X_out (h : w.length = y.length) (j : ℕ) (hj : y.length ≤ j) : X y w lam j = 0 :=
  ws2d_out y w lam h j hj

/-! ### (c) loop invariants -/

/-- the first `k` cells of `a` (an array of size `n`) hold `f` -/
def Holds (n : ℕ) (f : ℕ → α) (k : ℕ) (a : Array α) : Prop :=
  a.size = n ∧ ∀ j < k, av a j = f j

/-- the cells `≥ k` of `a` are (still) zero -/
def Zeros (k : ℕ) (a : Array α) : Prop := ∀ j, k ≤ j → av a j = 0

/-- forward sweep: rows `< k` of the four work arrays hold the rows of the model (row `n - 2` of
    `c`, whose coefficient is `-2` instead of `-4`, is only final after the tail rows: for `n = 3` the
    source first writes row 1 with `-4` and then overwrites it), and `e` is still zero from row `k` on -/
structure Fwd (k : ℕ) (z d c e : Array α) : Prop where
  hz : Holds y.length (fun j => (Rw y w lam j).u) k z
  hd : Holds y.length (fun j => (Rw y w lam j).d) k d
  hc : Holds y.length (fun j => (Rw y w lam j).c) (min k (y.length - 2)) c
  he : Holds y.length (fun j => (Rw y w lam j).e) k e
  ze : Zeros k e

/-- back substitution: cells `≥ t` hold the output of the model, cells `< t` still the
    forward-substituted right-hand side -/
structure Bwd (t : ℕ) (z : Array α) : Prop where
  sz : z.size = y.length
  hx : ∀ j, t ≤ j → j < y.length → av z j = X y w lam j
  hu : ∀ j < t, av z j = (Rw y w lam j).u

end rows

/-- the effect of one Python assignment `a[i] = v` with `0 ≤ i < len(a)` -/
theorem wr_upd {a a0 : Array α} {i : ℤ} {v : α} (ha : a = wr a0 i v) (k : ℕ)
    (hi : i = (k : ℤ)) (hk : k < a0.size) : Upd a a0 k v := by
  subst ha
  exact ⟨size_wr _ _ _, av_wr_self _ _ _ _ hi hk,
    fun j hj => av_wr_ne _ _ _ _ (by omega) (by omega)⟩

theorem Holds.size {n : ℕ} {f : ℕ → α} {k : ℕ} {a : Array α} (h : Holds n f k a) :
    a.size = n := h.1

theorem Holds.get {n : ℕ} {f : ℕ → α} {k : ℕ} {a : Array α} (h : Holds n f k a) :
    ∀ j < k, av a j = f j := h.2

theorem Holds.mono {n : ℕ} {f : ℕ → α} {k k' : ℕ} {a : Array α} (h : Holds n f k a)
    (hk : k' ≤ k) : Holds n f k' a := ⟨h.1, fun j hj => h.2 j (by omega)⟩

theorem Zeros.step {k : ℕ} {a a0 : Array α} {v : α} (h : Zeros k a0) (hu : Upd a a0 k v) :
    Zeros (k + 1) a := fun j hj => by rw [hu.other j (by omega)]; exact h j (by omega)

theorem Holds.cast {n : ℕ} {f : ℕ → α} {k k' : ℕ} {a : Array α} (h : Holds n f k a)
    (e : k = k') : Holds n f k' a := e ▸ h

/-- writing row `k` with the right value extends the invariant -/
theorem Holds.step {n : ℕ} {f : ℕ → α} {k : ℕ} {a a0 : Array α} {v : α}
    (h : Holds n f k a0) (hu : Upd a a0 k v) (hv : v = f k) : Holds n f (k + 1) a := by
  refine ⟨hu.size.trans h.1, fun j hj => ?_⟩
  by_cases hjk : j = k
  · subst hjk; rw [hu.self, hv]
  · rw [hu.other j hjk]; exact h.2 j (by omega)

/-- writing at or beyond row `k` keeps the invariant -/
theorem Holds.keep {n : ℕ} {f : ℕ → α} {k i : ℕ} {a a0 : Array α} {v : α}
    (h : Holds n f k a0) (hu : Upd a a0 i v) (hik : k ≤ i) : Holds n f k a :=
  ⟨hu.size.trans h.1, fun j hj => by rw [hu.other j (by omega)]; exact h.2 j hj⟩

section rows
variable (y w : List α) (lam : α)

/-- the freshly allocated work arrays -/
theorem Fwd.init (n : ℕ) (hn : n = y.length) :
    Fwd y w lam 0 (Array.replicate n (nat 0 : α)) (Array.replicate n (nat 0))
      (Array.replicate n (nat 0)) (Array.replicate n (nat 0)) := by
  subst hn
  refine ⟨⟨?_, ?_⟩, ⟨?_, ?_⟩, ⟨?_, ?_⟩, ⟨?_, ?_⟩,
    fun j _ => by simpa [nat] using av_replicate (α := α) y.length j⟩ <;> simp

variable {y w lam}

theorem Fwd.cast {k k' : ℕ} {z d c e : Array α} (h : Fwd y w lam k z d c e) (hk : k = k') :
    Fwd y w lam k' z d c e := hk ▸ h

/-- one step of the back substitution -/
theorem Bwd.step {t : ℕ} {z z0 : Array α} {v : α} (hs : z0.size = y.length)
    (hx : ∀ j, t < j → j < y.length → av z0 j = X y w lam j)
    (hu : ∀ j < t, av z0 j = (Rw y w lam j).u)
    (hupd : Upd z z0 t v) (hv : v = X y w lam t) : Bwd y w lam t z := by
  refine ⟨hupd.size.trans hs, fun j hj hjn => ?_, fun j hj => ?_⟩
  · by_cases hjt : j = t
    · subst hjt; rw [hupd.self, hv]
    · rw [hupd.other j hjt]; exact hx j (by omega) hjn
  · rw [hupd.other j (by omega)]; exact hu j hj

theorem Bwd.cast {t t' : ℕ} {z : Array α} (h : Bwd y w lam t z) (ht : t = t') :
    Bwd y w lam t' z := ht ▸ h

theorem Bwd.toList_eq {z : Array α} (hB : Bwd y w lam 0 z) (h : w.length = y.length) :
    z.toList = Hdc.ws2d y lam w := by
  apply toList_eq_of_av z _ (by rw [hB.sz, ws2d_length' y w lam h])
  intro j hj
  rw [ws2d_length' y w lam h] at hj
  exact hB.hx j (Nat.zero_le _) hj

end rows

/-- closes `source expression = model expression` after the reads have been rewritten: syntactic
    equality (nothing left to do) or a commutative-ring identity in which every quotient is an atom
    (no side condition on the denominators: `x / 0` means the same on both sides) -/
macro "row_arith" : tactic => `(tactic| first | done | ring)

end Hdc.Ws2dGen
