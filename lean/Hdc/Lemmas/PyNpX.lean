import Hdc.PyNpX
import Hdc.Lemmas.PyNpT
/-
Lemmas about the n-d combinators of Hdc/PyNpX.lean (kernel independent): the row-major position `pos3` of a cell of a 3-d
array is injective and in range; the column copy; `a[:] = b`; the rounded column store.
-/
namespace Hdc.PyNpX
open Hdc.PyNpT

/-- row-major position of `a[t, r, c]` in an array of shape `(_, nr, nc)` -/
def pos3 (nr nc t r c : ℕ) : ℕ := (t * nr + r) * nc + c

theorem mixed_inj {a a' b b' n : ℕ} (hb : b < n) (hb' : b' < n) (h : a * n + b = a' * n + b') :
    a = a' ∧ b = b' := by
  rcases Nat.lt_trichotomy a a' with h1 | h1 | h1
  · have h2 := Nat.mul_le_mul_right n (show a + 1 ≤ a' from h1)
    rw [Nat.add_mul, Nat.one_mul] at h2
    omega
  · subst h1; exact ⟨rfl, by omega⟩
  · have h2 := Nat.mul_le_mul_right n (show a' + 1 ≤ a from h1)
    rw [Nat.add_mul, Nat.one_mul] at h2
    omega

theorem pos3_inj {nr nc t r c t' r' c' : ℕ} (hr : r < nr) (hc : c < nc) (hr' : r' < nr) (hc' : c' < nc)
    (h : pos3 nr nc t r c = pos3 nr nc t' r' c') : t = t' ∧ r = r' ∧ c = c' := by
  obtain ⟨h1, h2⟩ := mixed_inj hc hc' h
  obtain ⟨h3, h4⟩ := mixed_inj hr hr' h1
  exact ⟨h3, h4, h2⟩

theorem pos3_lt {nt nr nc t r c : ℕ} (ht : t < nt) (hr : r < nr) (hc : c < nc) :
    pos3 nr nc t r c < nt * nr * nc := by
  have h1 : t * nr + r + 1 ≤ nt * nr := by
    have := Nat.mul_le_mul_right nr (show t + 1 ≤ nt from ht)
    rw [Nat.add_mul, Nat.one_mul] at this
    omega
  have h2 := Nat.mul_le_mul_right nc h1
  rw [Nat.add_mul, Nat.one_mul] at h2
  unfold pos3
  omega

theorem flat3_pos3 (nt nr nc t r c : ℕ) :
    flat3 (nt : ℤ) (nr : ℤ) (nc : ℤ) (t : ℤ) (r : ℤ) (c : ℤ) = ((pos3 nr nc t r c : ℕ) : ℤ) :=
  flat3_nat nt nr nc t r c

/-- `a[:, r, c]`, cell by cell -/
theorem npCol3_nat {γ : Type} (a : Array γ) (d : γ) (nt nr nc r c : ℕ) :
    npCol3 a d (nt : ℤ) (nr : ℤ) (nc : ℤ) (r : ℤ) (c : ℤ)
      = ((List.range nt).map fun t => gD a (pos3 nr nc t r c) d).toArray := by
  simp only [npCol3, Int.toNat_natCast, flat3_pos3, rdD_natCast]

@[simp] theorem size_npSetAll {γ : Type} (a b : Array γ) : (npSetAll a b).size = a.size := by
  unfold npSetAll
  split_ifs with h
  · exact h
  · rfl

theorem npSetAll_eq {γ : Type} (a b : Array γ) (h : b.size = a.size) : npSetAll a b = b := by
  simp [npSetAll, h]

/-- the fold of `npRoundIntoCol3`: cells `k .. k + len(l) - 1` of the column `(r, c)` get the rounded values, every other
    cell keeps its value -/
theorem foldl_col_spec {β γ : Type} (rnd : β → γ) (d : γ) (nt nr nc r c : ℕ) (hr : r < nr) (hc : c < nc) :
    ∀ (l : List β) (k : ℕ) (out : Array γ), k + l.length ≤ nt → out.size = nt * nr * nc →
      ((l.zipIdx k).foldl (fun o p => wrG o (flat3 (nt : ℤ) (nr : ℤ) (nc : ℤ) ((p.2 : ℕ) : ℤ) (r : ℤ) (c : ℤ)) (rnd p.1)) out).size
          = out.size ∧
      ∀ t r' c', t < nt → r' < nr → c' < nc →
        gD ((l.zipIdx k).foldl (fun o p => wrG o (flat3 (nt : ℤ) (nr : ℤ) (nc : ℤ) ((p.2 : ℕ) : ℤ) (r : ℤ) (c : ℤ)) (rnd p.1)) out)
            (pos3 nr nc t r' c') d
          = if r' = r ∧ c' = c ∧ k ≤ t ∧ t < k + l.length then (l.map rnd).getD (t - k) d
            else gD out (pos3 nr nc t r' c') d := by
  intro l
  induction l with
  | nil =>
    intro k out _ _
    refine ⟨rfl, fun t r' c' _ _ _ => ?_⟩
    rw [if_neg (by simp)]
    rfl
  | cons x xs ih =>
    intro k out hk hsz
    simp only [List.zipIdx_cons, List.foldl_cons, List.length_cons] at hk ⊢
    obtain ⟨hs, hg⟩ := ih (k + 1) (wrG out (flat3 (nt : ℤ) (nr : ℤ) (nc : ℤ) ((k : ℕ) : ℤ) (r : ℤ) (c : ℤ)) (rnd x))
      (by omega) (by simpa using hsz)
    refine ⟨by rw [hs]; simp, fun t r' c' ht hr' hc' => ?_⟩
    rw [hg t r' c' ht hr' hc']
    by_cases hcond : r' = r ∧ c' = c ∧ k + 1 ≤ t ∧ t < k + 1 + xs.length
    · rw [if_pos hcond, if_pos ⟨hcond.1, hcond.2.1, by omega, by omega⟩]
      obtain ⟨_, _, h3, _⟩ := hcond
      have : t - k = (t - (k + 1)) + 1 := by omega
      rw [this, List.map_cons, List.getD_cons_succ]
    · rw [if_neg hcond]
      by_cases h0 : r' = r ∧ c' = c ∧ t = k
      · obtain ⟨rfl, rfl, rfl⟩ := h0
        rw [if_pos ⟨rfl, rfl, by omega, by omega⟩, Nat.sub_self, List.map_cons, List.getD_cons_zero]
        exact gD_wrG_self _ _ _ _ _ (flat3_pos3 nt nr nc t r' c') (by rw [hsz]; exact pos3_lt ht hr' hc')
      · rw [if_neg (by intro h; apply hcond; apply h0.elim; omega)]
        apply gD_wrG_ne _ _ _ _ _ (by rw [flat3_pos3]; omega)
        rw [flat3_pos3]
        intro h
        obtain ⟨h1, h2, h3⟩ := pos3_inj hr hc hr' hc' (Int.ofNat_inj.1 h)
        exact h0 ⟨h2.symm, h3.symm, h1.symm⟩

/-- `np.round(z, 0, out[:, r, c])` on an array of shape `(nt, nr, nc)`, `len(z) = nt`: the column gets the rounded values,
    every other cell keeps its value, the size does not change -/
theorem npRoundIntoCol3_spec {β γ : Type} (rnd : β → γ) (d : γ) (z : Array β) (out : Array γ) (nt nr nc r c : ℕ)
    (hr : r < nr) (hc : c < nc) (hz : z.size = nt) (hsz : out.size = nt * nr * nc) :
    (npRoundIntoCol3 rnd z out (nt : ℤ) (nr : ℤ) (nc : ℤ) (r : ℤ) (c : ℤ)).size = out.size ∧
    ∀ t r' c', t < nt → r' < nr → c' < nc →
      gD (npRoundIntoCol3 rnd z out (nt : ℤ) (nr : ℤ) (nc : ℤ) (r : ℤ) (c : ℤ)) (pos3 nr nc t r' c') d
        = if r' = r ∧ c' = c then (z.toList.map rnd).getD t d else gD out (pos3 nr nc t r' c') d := by
  have h := foldl_col_spec rnd d nt nr nc r c hr hc z.toList 0 out (by simp [hz]) hsz
  simp only [npRoundIntoCol3, Int.toNat_natCast, hz, if_true]
  refine ⟨h.1, fun t r' c' ht hr' hc' => ?_⟩
  rw [h.2 t r' c' ht hr' hc']
  simp only [Nat.zero_le, true_and, Nat.zero_add, Array.length_toList, hz, ht, and_true, Nat.sub_zero]

/-- a mismatch of the lengths: nothing is stored -/
theorem npRoundIntoCol3_mismatch {β γ : Type} (rnd : β → γ) (z : Array β) (out : Array γ) (d0 d1 d2 j k : ℤ)
    (hz : z.size ≠ d0.toNat) : npRoundIntoCol3 rnd z out d0 d1 d2 j k = out := by
  simp [npRoundIntoCol3, hz]

end Hdc.PyNpX
