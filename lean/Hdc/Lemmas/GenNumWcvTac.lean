import Hdc.Lemmas.GenNumWcv
import Std.Tactic.Do
/-
Tactic macros shared by the two refinement proofs Hdc/Props/GenNumWcv.lean (ws2dwcv) and
Hdc/Props/GenNumWcvp.lean (ws2dwcvp): both kernels share the λ selection (weights, eigenvalues, robust
loop, loop over the λ grid), and `mvcgen` produces the same verification conditions for it.  The macros
are unhygienic on purpose: they refer to the variables of the theorems (`G cos pi hG y llas nodata isnan
isinf robust`) and introduce the named facts (`hwa hya hde hna hma h4 h5 hlen hysz …`) later steps use.
The variables of the source are picked up by name (`py_name`), never by position; no generated expression
is copied here.
-/
namespace Hdc.GenNum
open Hdc Hdc.Gen.NumKernels Hdc.PyNpW Hdc.Smooth Std.Do

set_option hygiene false in
/-- invariant of the robust loop, on the state tuple
    `(unbound, y_temp, y_temp_set, robust_weights, robust_weights_set, z, r_weights, robust_gcv, gcv_temp)` -/
macro "outer_inv" : term => `(⇓⟨xs, s⟩ =>
  ⌜OuterInv G (cleanOf (missG nodata isnan isinf) y) (weightsOf (missG nodata isnan isinf) y)
    (deigs G y.length) (llas.map G.pow10) robust (sumF (weightsOf (missG nodata isnan isinf) y))
    xs.prefix.length s.1 s.2.1 s.2.2.1 s.2.2.2.1 s.2.2.2.2.1 s.2.2.2.2.2.1 s.2.2.2.2.2.2.1
    s.2.2.2.2.2.2.2.1 s.2.2.2.2.2.2.2.2⌝)

set_option hygiene false in
/-- invariant of the loop over the λ grid, on the state tuple `(y_temp, y_temp_set, z, gcv_temp, s, gamma)`;
    the state of the enclosing robust loop is picked up by name -/
macro "sweep_inv" : term => `(⇓⟨xs, s⟩ => by
  py_name gcv_temp as gt0; py_name y_temp as yt0; py_name y_temp_set as set0
  py_name r_weights as rw0; py_name unbound as ub0
  exact ⌜ub0 = false → SweepOk G (cleanOf (missG nodata isnan isinf) y)
    (mul2 (weightsOf (missG nodata isnan isinf) y) rw0.toList) (deigs G y.length) (bestOf gt0 yt0 set0)
    xs.prefix s.2.2.2.1 s.1 s.2.1 s.2.2.1⌝)

set_option hygiene false in
/-- invariant of the re-weighting loop of ws2dwcvp, on the state tuple `(unbound, ww, z, znew, wa)`; the
    final state `r` of the robust loop, `robust_weights` and `robust_gcv` are picked up by name -/
macro "irls_inv" : term => `(⇓⟨xs, s⟩ => by
  py_name r as rfin; py_name robust_weights as rwts0; py_name robust_gcv as rg0
  exact ⌜(rfin.1 = true → s.1 = true) ∧ (rfin.1 = false → s.1 = false ∧ IrlsOk (cleanOf (missG nodata isnan isinf) y) rwts0.toList
    (rd (rdA rg0 (if robust then 1 else 0)) 1) p (10 - xs.prefix.length) s.2.1 s.2.2.1 s.2.2.2.1 s.2.2.2.2)⌝)

set_option hygiene false in
/-- facts about the variables bound before the loops: `w`, `d_eigs`, `n`, `m` -/
macro "wcv_setup" : tactic => `(tactic| (
  clear_jps
  pyn_ranges
  try dsimp only [id, PostCond.noThrow, SPred.down_pure] at *
  py_name y as ya; py_name w as wa; py_name d_eigs as dea; py_name n as na; py_name m as ma
  have hma : ma = (y.length : ℤ) := by
    simp (config := {zetaDelta := true}) only [List.size_toArray]
  have hwa : wa.toList = weightsOf (missG nodata isnan isinf) y := by
    simp (config := {zetaDelta := true}) only [toList_npMap, List.toList_toArray]
    exact weights_np _ y
  have hna : na = sumF (weightsOf (missG nodata isnan isinf) y) := by rw [← hwa]; rfl
  clear_value wa
  have hde : dea.toList = deigs G y.length := by
    rw [show dea = wr _ 0 G.eig0 from rfl, toList_wr_zero]
    simp (config := {zetaDelta := true}) only [toList_npMap, List.size_toArray, npArange_natCast,
      List.toList_toArray]
    exact deigs_np G cos pi hG y.length
  clear_value dea na ma))

set_option hygiene false in
/-- … and, when more than four cells are valid, about the cleaned `y` -/
macro "wcv_setup_y" : tactic => `(tactic| (
  have hya : ya.toList = cleanOf (missG nodata isnan isinf) y := by
    simp (config := {zetaDelta := true}) only [toList_npWhereSA, toList_npMap, List.toList_toArray, hwa]
    exact clean_np _ y
  have h4 : 4 < countValid (missG nodata isnan isinf) y := by
    rw [← four_lt_n_iff, ← hna]
    exact of_decide_eq_true ‹_›
  have hlen : (cleanOf (missG nodata isnan isinf) y).length = y.length := cleanOf_length _ _
  have h5 : 5 ≤ y.length := le_trans h4 (countValid_le_length _ y)
  have hysz : ya.size = y.length := by rw [← Array.length_toList, hya, hlen]
  clear_value ya))

set_option hygiene false in
/-- inside the robust loop, while `unbound` is down: the model state behind the program state,
    `w_temp`, the fitted curve `z` -/
macro "wcv_inner" : tactic => `(tactic| (
  intro hu
  obtain ⟨st, -, hok⟩ := OuterInv.ok ‹OuterInv _ _ _ _ _ _ _ _ _ _ _ _ _ _ _ _ _› hu
  py_name w_temp as wta; py_name r_weights as rwa; py_name cur as cu; py_name z as za
  have hwt : wta.toList = mul2 (weightsOf (missG nodata isnan isinf) y) rwa.toList := by
    simp only [wta, toList_npMap2, hwa, mul2_eq]
  have hwl : (mul2 (weightsOf (missG nodata isnan isinf) y) rwa.toList).length = y.length := by
    have hrl : rwa.toList.length = y.length := by simpa using hok.rwlen.trans hlen
    rw [mul2_length, weightsOf_length, hrl, Nat.min_self]
  have hwsz : wta.size = ya.size := by
    have := congrArg List.length hwt
    rw [hwl] at this
    rw [hysz, ← this]
    simp
  clear_value wta
  have hz : za = (ws2d (cleanOf (missG nodata isnan isinf) y) cu
      (mul2 (weightsOf (missG nodata isnan isinf) y) rwa.toList)).toArray := by
    rw [show za = Gen.Ws2d.ws2d ya cu wta from rfl, gen_ws2d_arrW _ _ _ hwsz (by omega), hya, hwt]))

set_option hygiene false in
/-- the λ values of the current iteration: `[robust_gcv[1][1]]` if `it > 1`, `10 ** llas` otherwise -/
macro "wcv_lams" : tactic => `(tactic| (
  py_name cur as cui
  first
  | (have hit := of_decide_eq_true ‹decide (cui > (1 : ℤ)) = true›
     rw [if_pos (by omega)])
  | (have hit : ¬ cui > (1 : ℤ) := fun h => ‹¬ decide (cui > (1 : ℤ)) = true› (decide_eq_true h)
     rw [if_neg (by omega), toList_npMap, List.toList_toArray])))

set_option hygiene false in
/-- entry of the robust loop -/
macro "wcv_vc_init" : tactic => `(tactic| (
  exact OuterInv.init G _ _ _ _ robust _ ma.toNat (by rw [hma, hlen]; simp) _))

set_option hygiene false in
/-- entry of the loop over the λ grid -/
macro "wcv_vc_sweep_init" : tactic => `(tactic| (
  intro hu
  obtain ⟨st, -, hok⟩ := OuterInv.ok ‹OuterInv _ _ _ _ _ _ _ _ _ _ _ _ _ _ _ _ _› hu
  exact SweepOk.init _ _ _ _ _ _ _ _ hok.ylen hok.zlen))

set_option hygiene false in
/-- one λ: `gcv[0] < gcv_temp[0]` / not -/
macro "wcv_vc_sweep_step" : tactic => `(tactic| (
  wcv_inner
  first
    | refine SweepOk.step_lt (‹_ → SweepOk _ _ _ _ _ _ _ _ _ _› hu) (of_decide_eq_true ‹_›) ?_ hz
        (hwl.trans hlen.symm)
    | refine SweepOk.step_ge (‹_ → SweepOk _ _ _ _ _ _ _ _ _ _› hu)
        (fun h => ‹¬ decide (_ < _) = true› (decide_eq_true h)) ?_ hz (hwl.trans hlen.symm)
  py_name gcv_score as gs; py_name wsse as ws; py_name denominator as den; py_name tr_H as trh
  py_name gamma as gam
  simp only [gs, ws, den, trh, gam, npSum, toList_npMap, toList_npMap2, hz, hya, hwt, hde, gamma_np,
    List.toList_toArray]
  exact score_np G _ _ _ cu))

set_option hygiene false in
/-- one iteration of the robust loop, `robust = False` -/
macro "wcv_vc_plain" : tactic => `(tactic| (
  have hnr : ¬ robust = true := by assumption
  obtain rfl : robust = false := by simpa using hnr
  rw [List.length_append, List.length_singleton]
  refine OuterInv.step_plain ‹OuterInv _ _ _ _ _ _ _ _ _ _ _ _ _ _ _ _ _› ?_
    ‹_ → SweepOk _ _ _ _ _ _ _ _ _ _› ?_
  · wcv_lams
  · simp only [toList_npMap2, hwa, mul2_eq]))

set_option hygiene false in
/-- one iteration of the robust loop, `robust = True`, `y_temp` unbound after the sweep: the source fails -/
macro "wcv_vc_unset" : tactic => `(tactic| (
  have hr : robust = true := by assumption
  subst hr
  py_name y_temp_set as ysa
  have hys : ysa = false := by simpa using ‹(!ysa) = true›
  rw [List.length_append, List.length_singleton]
  refine OuterInv.step_unset ‹OuterInv _ _ _ _ _ _ _ _ _ _ _ _ _ _ _ _ _› ?_ hys
    ‹_ → SweepOk _ _ _ _ _ _ _ _ _ _› _ _ _ _
  wcv_lams))

set_option hygiene false in
/-- one iteration of the robust loop, `robust = True`, `y_temp` bound: the re-weighting step -/
macro "wcv_vc_robust" : tactic => `(tactic| (
  have hr : robust = true := by assumption
  subst hr
  py_name y_temp_set as ysa; py_name y_temp as yta; py_name gcv_temp as gta
  py_name w_temp as wta; py_name r_weights as rwa; py_name s as sa; py_name gamma as gam
  py_name r_arr as rar; py_name r_sel as rse; py_name mad as md; py_name mad_min as mm
  py_name y_valid as yv
  have hys : ysa = true := by simpa using ‹¬ (!ysa) = true›
  have hwt : wta.toList = mul2 (weightsOf (missG nodata isnan isinf) y) rwa.toList := by
    simp only [wta, toList_npMap2, hwa, mul2_eq]
  clear_value wta
  have hmd : md = madOf (cleanOf (missG nodata isnan isinf) y) yta.toList
      (mul2 (weightsOf (missG nodata isnan isinf) y) rwa.toList) := by
    simp only [md, rse, rar, npMedian, toList_npMap, toList_npSelect, toList_npMap2, hya, hwt, rsel_np,
      mad_np]
  have hmm : mm = madMinOf G (cleanOf (missG nodata isnan isinf) y)
      (weightsOf (missG nodata isnan isinf) y) := by
    simp only [mm, yv, npMax, npMin, toList_npSelect, toList_npMap, hya, hwa]
    exact madmin_np G _ _
  have hgam : gam.toList = gammaOf (mul2 (weightsOf (missG nodata isnan isinf) y) rwa.toList)
      (deigs G y.length) sa := by
    simp only [gam, toList_npMap, toList_npMap2, hwt, hde, gamma_np]
  clear_value md mm gam
  rw [List.length_append, List.length_singleton]
  refine OuterInv.step_robust ‹OuterInv _ _ _ _ _ _ _ _ _ _ _ _ _ _ _ _ _› ?_ hys
    ‹_ → SweepOk _ _ _ _ _ _ _ _ _ _› ?_ ?_
  · wcv_lams
  · first
      -- the MAD is at noise level: the weights are kept
      | (refine robustStep_keep2 _ _ _ _ _ _ _ _ _ ?_
         rw [← hmd, ← hmm]
         exact fun h => ‹¬ decide (mm < md) = true› (decide_eq_true h))
      | (py_name r_new as rn3; py_name r_new as rn2; py_name r_new as rn1; py_name u_arr as ua
         have hrn : rn3.toList = rnewOf G (cleanOf (missG nodata isnan isinf) y) yta.toList
             (mul2 (weightsOf (missG nodata isnan isinf) y) rwa.toList) (deigs G y.length) sa
             (sumF (weightsOf (missG nodata isnan isinf) y)) := by
           simp only [rn3, rn2, rn1, ua, rar, toList_npMaskSet, toList_npMap, toList_npMap2, npSum, hya, hgam,
             hmd, hna]
           rw [rnew_np, rnewOf_np]
         have hc : npCount (npMap (fun e => decide (nat 0 < e)) (npMap2 (fun a b => a * b) wa rn3))
             = (countPos (mul2 (weightsOf (missG nodata isnan isinf) y) (rnewOf G
                 (cleanOf (missG nodata isnan isinf) y) yta.toList
                 (mul2 (weightsOf (missG nodata isnan isinf) y) rwa.toList) (deigs G y.length) sa
                 (sumF (weightsOf (missG nodata isnan isinf) y)))) : ℤ) := by
           rw [npCount_eq]
           simp only [toList_npMap, toList_npMap2, hwa, hrn, ← mul2_eq]
           exact count_np _
         have hm1 : madMinOf G (cleanOf (missG nodata isnan isinf) y)
             (weightsOf (missG nodata isnan isinf) y) < madOf (cleanOf (missG nodata isnan isinf) y)
             yta.toList (mul2 (weightsOf (missG nodata isnan isinf) y) rwa.toList) := by
           rw [← hmd, ← hmm]
           exact of_decide_eq_true ‹decide (mm < md) = true›
         first
           -- at least two cells keep a positive weight: the new weights
           | (rw [hrn]
              refine robustStep_new _ _ _ _ _ _ _ _ _ hm1 ?_
              have := of_decide_eq_true ‹decide (npCount _ > 1) = true›
              rw [hc] at this
              exact (by exact_mod_cast this : 1 < countPos _))
           -- otherwise the weights are kept
           | (refine robustStep_keep1 _ _ _ _ _ _ _ _ _ hm1 ?_
              have : ¬ npCount _ > 1 := fun h => ‹¬ decide (npCount _ > 1) = true› (decide_eq_true h)
              rw [hc] at this
              exact fun h => this (by exact_mod_cast h)))
  · simp only [toList_npMap2, hwa, mul2_eq]))

set_option hygiene false in
/-- paths on which `robust` is both true and false -/
macro "wcv_vc_absurd" : tactic => `(tactic| first
  | exact absurd ‹robust = true› (by simpa using ‹(!robust) = true›)
  | exact absurd (show robust = true by simpa using ‹¬ (!robust) = true›) ‹¬ robust = true›)

end Hdc.GenNum
