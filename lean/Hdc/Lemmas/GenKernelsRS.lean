import Hdc.Lemmas.GenKernels
import Hdc.Model.Discrete
/-
Loop invariants for `Gen.Kernels.rolling_sum` against the model `Hdc.rollingSum`.
The window size is an integer `w` in the source; the model is taken at `w.toNat` (for `w < 0` the
source writes nodata everywhere, as the model does for the window 0).
-/
namespace Hdc.GenKernels
open Hdc Hdc.Gen.Kernels

/-- sum of the valid cells of `l` -/
def vsum (nd : Int) (l : List Int) : Int := (l.filter fun v => v ≠ nd).foldl (· + ·) 0

/-- number of valid cells of `l` -/
def vcnt (nd : Int) (l : List Int) : ℕ := (l.filter fun v => v ≠ nd).length

/-- the first `q` cells of the window that ends at cell `k` -/
def winPre (xx : List Int) (W k q : ℕ) : List Int := (xx.drop (k + 1 - W)).take q

/-- cell `k` of the model -/
def rsCell (xx : List Int) (W : ℕ) (nd : Int) (k : ℕ) : Int :=
  if k + 1 < W then nd
  else if vcnt nd (winPre xx W k W) = 0 then nd else vsum nd (winPre xx W k W)

theorem rollingSum_eq (xx : List Int) (W : ℕ) (nd : Int) :
    rollingSum xx W nd = (List.range xx.length).map (rsCell xx W nd) := rfl

theorem lv_rollingSum (xx : List Int) (W : ℕ) (nd : Int) (k : ℕ) (h : k < xx.length) :
    lv (rollingSum xx W nd) k = rsCell xx W nd k := by
  simp [lv, rollingSum_eq, h]

theorem vsum_snoc (nd : Int) (l : List Int) (a : Int) :
    vsum nd (l ++ [a]) = if a = nd then vsum nd l else vsum nd l + a := by
  unfold vsum
  by_cases h : a = nd <;> simp [List.filter_append, h]

theorem vcnt_snoc (nd : Int) (l : List Int) (a : Int) :
    (vcnt nd (l ++ [a]) : ℤ) = if a = nd then (vcnt nd l : ℤ) else vcnt nd l + 1 := by
  unfold vcnt
  by_cases h : a = nd <;> simp [List.filter_append, h]

@[simp] theorem winPre_zero (xx : List Int) (W k : ℕ) : winPre xx W k 0 = [] := by simp [winPre]

theorem winPre_succ (xx : List Int) (W k q j : ℕ) (hj : j = k + 1 - W + q) (h : j < xx.length) :
    winPre xx W k (q + 1) = winPre xx W k q ++ [lv xx j] := by
  subst hj
  unfold winPre
  rw [List.take_add_one, List.getElem?_drop, List.getElem?_eq_getElem h, lv_eq_getElem xx _ h]
  rfl

/-! ### invariants -/

/-- outer loop after `p` cells: cells `< p` hold the model, cells `≥ p` are still zero -/
structure RsOuter (xx : List Int) (W : ℕ) (nd : Int) (p : ℕ) (yy : Array Int) : Prop where
  size : yy.size = xx.length
  done : ∀ j < p, gv yy j = rsCell xx W nd j
  zero : ∀ j, p ≤ j → gv yy j = 0

/-- inner loop in cell `k` after `q` cells of the window: `yy[k]` holds the sum of the valid ones,
    `n_valid` their number -/
structure RsInner (xx : List Int) (W : ℕ) (nd : Int) (k q : ℕ) (yy : Array Int) (nv : Int) :
    Prop where
  size : yy.size = xx.length
  done : ∀ j < k, gv yy j = rsCell xx W nd j
  zero : ∀ j, k < j → gv yy j = 0
  acc : gv yy k = vsum nd (winPre xx W k q)
  cnt : nv = vcnt nd (winPre xx W k q)

theorem gv_map_zero (a : Array Int) (j : ℕ) : gv (a.map fun _ => (0 : Int)) j = 0 := by
  simp only [gv, Array.getD_eq_getD_getElem?, Array.getElem?_map]
  cases a[j]? <;> rfl

theorem RsOuter.init (xx : List Int) (W : ℕ) (nd : Int) (yy0 : Array Int)
    (h : yy0.size = xx.length) : RsOuter xx W nd 0 (yy0.map fun _ => (0 : Int)) :=
  ⟨by simpa using h, fun j hj => by omega, fun j _ => gv_map_zero yy0 j⟩

/-- an incomplete window: the cell gets nodata -/
theorem RsOuter.step_short {xx : List Int} {W : ℕ} {nd : Int} {p : ℕ} {yy yy' : Array Int}
    (h : RsOuter xx W nd p yy) (hu : Upd yy' yy p nd) (hw : p + 1 < W) :
    RsOuter xx W nd (p + 1) yy' := by
  refine ⟨hu.size.trans h.size, fun j hj => ?_, fun j hj => ?_⟩
  · by_cases hjp : j = p
    · subst hjp; rw [hu.self, rsCell, if_pos hw]
    · rw [hu.other j hjp]; exact h.done j (by omega)
  · rw [hu.other j (by omega)]; exact h.zero j (by omega)

/-- entry of the inner loop (the value of `n_valid` is reset to 0) -/
theorem RsOuter.enter {xx : List Int} {W : ℕ} {nd : Int} {p : ℕ} {yy : Array Int}
    (h : RsOuter xx W nd p yy) : RsInner xx W nd p 0 yy 0 :=
  ⟨h.size, h.done, fun j hj => h.zero j (by omega),
    by rw [h.zero p (le_refl _)]; simp [vsum], by simp [vcnt]⟩

/-- a nodata cell of the window is skipped -/
theorem RsInner.skip {xx : List Int} {W : ℕ} {nd : Int} {k q : ℕ} {yy : Array Int} {nv : Int}
    (h : RsInner xx W nd k q yy nv) {j : ℕ} (hj : j = k + 1 - W + q) (hlt : j < xx.length)
    (hnd : lv xx j = nd) : RsInner xx W nd k (q + 1) yy nv := by
  refine ⟨h.size, h.done, h.zero, ?_, ?_⟩
  · rw [winPre_succ xx W k q j hj hlt, vsum_snoc, if_pos hnd]; exact h.acc
  · rw [winPre_succ xx W k q j hj hlt, vcnt_snoc, if_pos hnd]; exact h.cnt

/-- a valid cell of the window is added -/
theorem RsInner.add {xx : List Int} {W : ℕ} {nd : Int} {k q : ℕ} {yy yy' : Array Int} {nv v : Int}
    (h : RsInner xx W nd k q yy nv) {j : ℕ} (hj : j = k + 1 - W + q) (hlt : j < xx.length)
    (hnd : ¬ lv xx j = nd) (hu : Upd yy' yy k v) (hv : v = gv yy k + lv xx j) :
    RsInner xx W nd k (q + 1) yy' (nv + 1) := by
  refine ⟨hu.size.trans h.size, fun i hi => ?_, fun i hi => ?_, ?_, ?_⟩
  · rw [hu.other i (by omega)]; exact h.done i hi
  · rw [hu.other i (by omega)]; exact h.zero i hi
  · rw [winPre_succ xx W k q j hj hlt, vsum_snoc, if_neg hnd, hu.self, hv, h.acc]
  · rw [winPre_succ xx W k q j hj hlt, vcnt_snoc, if_neg hnd, h.cnt]

/-- exit of the inner loop with at least one valid cell: the cell is final -/
theorem RsInner.exit_some {xx : List Int} {W : ℕ} {nd : Int} {k : ℕ} {yy : Array Int} {nv : Int}
    (h : RsInner xx W nd k W yy nv) (hw : ¬ k + 1 < W) (hnv : ¬ nv = 0) :
    RsOuter xx W nd (k + 1) yy := by
  refine ⟨h.size, fun j hj => ?_, fun j hj => h.zero j (by omega)⟩
  by_cases hjk : j = k
  · subst hjk
    have : ¬ vcnt nd (winPre xx W j W) = 0 := fun h0 => hnv (by rw [h.cnt, h0]; rfl)
    rw [h.acc, rsCell, if_neg hw, if_neg this]
  · exact h.done j (by omega)

/-- exit of the inner loop without a valid cell: the cell gets nodata -/
theorem RsInner.exit_none {xx : List Int} {W : ℕ} {nd : Int} {k : ℕ} {yy yy' : Array Int}
    {nv : Int} (h : RsInner xx W nd k W yy nv) (hw : ¬ k + 1 < W) (hnv : nv = 0)
    (hu : Upd yy' yy k nd) : RsOuter xx W nd (k + 1) yy' := by
  refine ⟨hu.size.trans h.size, fun j hj => ?_, fun j hj => ?_⟩
  · by_cases hjk : j = k
    · subst hjk
      have : vcnt nd (winPre xx W j W) = 0 := by
        have := h.cnt; rw [hnv] at this; exact_mod_cast this.symm
      rw [hu.self, rsCell, if_neg hw, if_pos this]
    · rw [hu.other j hjk]; exact h.done j (by omega)
  · rw [hu.other j (by omega)]; exact h.zero j (by omega)

theorem RsOuter.toList_eq {xx : List Int} {W : ℕ} {nd : Int} {yy : Array Int}
    (h : RsOuter xx W nd xx.length yy) : yy.toList = rollingSum xx W nd := by
  have hl : (rollingSum xx W nd).length = xx.length := by simp [rollingSum_eq]
  apply toList_eq_of_gv yy _ (by rw [h.size, hl])
  intro j hj
  rw [hl] at hj
  rw [h.done j hj, lv_rollingSum xx W nd j hj]

theorem RsOuter.cast {xx : List Int} {W : ℕ} {nd : Int} {p p' : ℕ} {yy : Array Int}
    (h : RsOuter xx W nd p yy) (hp : p = p') : RsOuter xx W nd p' yy := hp ▸ h

theorem RsInner.cast {xx : List Int} {W : ℕ} {nd : Int} {k k' q q' : ℕ} {yy : Array Int} {nv : Int}
    (h : RsInner xx W nd k q yy nv) (hk : k = k') (hq : q = q') : RsInner xx W nd k' q' yy nv :=
  hk ▸ hq ▸ h

end Hdc.GenKernels
