import Hdc.Lemmas.StatsBasic
import Mathlib.Algebra.BigOperators.Group.Finset.Basic
import Mathlib.Algebra.BigOperators.Intervals
import Mathlib.Data.List.Count
import Mathlib.Data.List.Dedup
import Mathlib.Data.Finset.Dedup
import Mathlib.Data.Finset.Image
import Mathlib.Order.Monotone.Basic
import Mathlib.Tactic.Ring
import Mathlib.Tactic.Linarith
/-
Lemmas about the Mann-Kendall model (`mkCounts`, `mkS`, `tieSizes`, `mkVar18`).
-/
namespace Hdc.Stats
open Finset

set_option linter.unusedSectionVars false

section counts
variable {α : Type} [LinearOrder α]

/-- number of entries of `l` above `x` -/
def nAbove (x : α) (l : List α) : ℕ := (l.filter fun v => decide (x < v)).length
/-- number of entries of `l` below `x` -/
def nBelow (x : α) (l : List α) : ℕ := (l.filter fun v => decide (v < x)).length

theorem mkCounts_cons (x : α) (xs : List α) :
    mkCounts (x :: xs) = ((mkCounts xs).1 + nAbove x xs, (mkCounts xs).2 + nBelow x xs) := rfl

theorem nAbove_append (x : α) (l l' : List α) : nAbove x (l ++ l') = nAbove x l + nAbove x l' := by
  simp [nAbove]
theorem nBelow_append (x : α) (l l' : List α) : nBelow x (l ++ l') = nBelow x l + nBelow x l' := by
  simp [nBelow]

theorem nAbove_reverse (x : α) (l : List α) : nAbove x l.reverse = nAbove x l := by
  simp [nAbove]
theorem nBelow_reverse (x : α) (l : List α) : nBelow x l.reverse = nBelow x l := by
  simp [nBelow]

theorem mkS_cons (x : α) (xs : List α) :
    mkS (x :: xs) = mkS xs + ((nAbove x xs : Int) - (nBelow x xs : Int)) := by
  unfold mkS; rw [mkCounts_cons]; push_cast; ring

theorem mkS_nil : mkS ([] : List α) = 0 := rfl

/-- appending one element at the end -/
theorem mkCounts_append_singleton (xs : List α) (a : α) :
    mkCounts (xs ++ [a]) = ((mkCounts xs).1 + nBelow a xs, (mkCounts xs).2 + nAbove a xs) := by
  induction xs with
  | nil => simp [mkCounts, nAbove, nBelow]
  | cons x xs ih =>
    rw [List.cons_append, mkCounts_cons, ih, mkCounts_cons, nAbove_append, nBelow_append]
    have h1 : nAbove x [a] = nBelow a [x] := by
      simp only [nAbove, nBelow, List.filter_cons, List.filter_nil]
      split_ifs <;> rfl
    have h2 : nBelow x [a] = nAbove a [x] := by
      simp only [nAbove, nBelow, List.filter_cons, List.filter_nil]
      split_ifs <;> rfl
    have h3 : nBelow a (x :: xs) = nBelow a [x] + nBelow a xs := nBelow_append a [x] xs
    have h4 : nAbove a (x :: xs) = nAbove a [x] + nAbove a xs := nAbove_append a [x] xs
    rw [h1, h2, h3, h4]
    ext <;> simp only <;> omega

theorem mkCounts_reverse (x : List α) :
    mkCounts x.reverse = ((mkCounts x).2, (mkCounts x).1) := by
  induction x with
  | nil => rfl
  | cons a xs ih =>
    rw [List.reverse_cons, mkCounts_append_singleton, ih, mkCounts_cons, nBelow_reverse,
      nAbove_reverse]

theorem mkS_reverse (x : List α) : mkS x.reverse = - mkS x := by
  unfold mkS; rw [mkCounts_reverse]; ring

variable {β : Type} [LinearOrder β]

theorem nAbove_map_strictMono (g : α → β) (hg : StrictMono g) (x : α) (l : List α) :
    nAbove (g x) (l.map g) = nAbove x l := by
  simp only [nAbove, List.filter_map, List.length_map]
  congr 1; apply List.filter_congr; intro v _; simp [hg.lt_iff_lt]

theorem nBelow_map_strictMono (g : α → β) (hg : StrictMono g) (x : α) (l : List α) :
    nBelow (g x) (l.map g) = nBelow x l := by
  simp only [nBelow, List.filter_map, List.length_map]
  congr 1; apply List.filter_congr; intro v _; simp [hg.lt_iff_lt]

theorem nAbove_map_strictAnti (g : α → β) (hg : StrictAnti g) (x : α) (l : List α) :
    nAbove (g x) (l.map g) = nBelow x l := by
  simp only [nAbove, nBelow, List.filter_map, List.length_map]
  congr 1; apply List.filter_congr; intro v _; simp [hg.lt_iff_gt]

theorem nBelow_map_strictAnti (g : α → β) (hg : StrictAnti g) (x : α) (l : List α) :
    nBelow (g x) (l.map g) = nAbove x l := by
  simp only [nAbove, nBelow, List.filter_map, List.length_map]
  congr 1; apply List.filter_congr; intro v _; simp [hg.lt_iff_gt]

theorem mkCounts_map_strictMono (g : α → β) (hg : StrictMono g) (x : List α) :
    mkCounts (x.map g) = mkCounts x := by
  induction x with
  | nil => rfl
  | cons a xs ih =>
    rw [List.map_cons, mkCounts_cons, mkCounts_cons, ih, nAbove_map_strictMono g hg,
      nBelow_map_strictMono g hg]

theorem mkCounts_map_strictAnti (g : α → β) (hg : StrictAnti g) (x : List α) :
    mkCounts (x.map g) = ((mkCounts x).2, (mkCounts x).1) := by
  induction x with
  | nil => rfl
  | cons a xs ih =>
    rw [List.map_cons, mkCounts_cons, mkCounts_cons, ih, nAbove_map_strictAnti g hg,
      nBelow_map_strictAnti g hg]

theorem mkS_map_strictMono (g : α → β) (hg : StrictMono g) (x : List α) :
    mkS (x.map g) = mkS x := by
  unfold mkS; rw [mkCounts_map_strictMono g hg]

theorem mkS_map_strictAnti (g : α → β) (hg : StrictAnti g) (x : List α) :
    mkS (x.map g) = - mkS x := by
  unfold mkS; rw [mkCounts_map_strictAnti g hg]; ring

/-- sign of `b - a`, expressed with the order only -/
def sgnLt (a b : α) : Int := if a < b then 1 else if b < a then -1 else 0

theorem sum_sgnLt (x : α) (xs : List α) :
    (xs.map fun v => sgnLt x v).sum = (nAbove x xs : Int) - (nBelow x xs : Int) := by
  induction xs with
  | nil => simp [nAbove, nBelow]
  | cons a as ih =>
    have h3 : nBelow x (a :: as) = nBelow x [a] + nBelow x as := nBelow_append x [a] as
    have h4 : nAbove x (a :: as) = nAbove x [a] + nAbove x as := nAbove_append x [a] as
    rw [List.map_cons, List.sum_cons, ih, h3, h4]
    simp only [nAbove, nBelow, sgnLt, List.filter_cons, List.filter_nil, decide_eq_true_eq]
    split_ifs with h1 h2
    · exact absurd h2 (lt_asymm h1)
    · simp; ring
    · simp; ring
    · simp

theorem sum_map_eq_sum_range {γ : Type} (l : List γ) (h : γ → Int) (d : γ) :
    (l.map h).sum = ∑ i ∈ range l.length, h (l.getD i d) := by
  induction l with
  | nil => simp
  | cons a as ih =>
    rw [List.map_cons, List.sum_cons, List.length_cons, Finset.sum_range_succ', ih]
    simp only [List.getD_cons_succ, List.getD_cons_zero]
    ring

/-- `S` as a sum of signs over all pairs `i < j` -/
theorem mkS_eq_sum_pairs (x : List α) (d : α) :
    mkS x = ∑ j ∈ range x.length, ∑ i ∈ range j, sgnLt (x.getD i d) (x.getD j d) := by
  induction x with
  | nil => simp [mkS_nil]
  | cons a xs ih =>
    rw [mkS_cons, List.length_cons, Finset.sum_range_succ']
    simp only [Finset.range_zero, Finset.sum_empty, add_zero]
    have : ∀ j, ∑ i ∈ range (j + 1), sgnLt ((a :: xs).getD i d) ((a :: xs).getD (j + 1) d)
        = ∑ i ∈ range j, sgnLt (xs.getD i d) (xs.getD j d) + sgnLt a (xs.getD j d) := by
      intro j
      rw [Finset.sum_range_succ']
      simp only [List.getD_cons_succ, List.getD_cons_zero]
    simp only [this]
    rw [Finset.sum_add_distrib, ← ih, ← sum_map_eq_sum_range xs (fun v => sgnLt a v) d, sum_sgnLt]

end counts

section ties
variable {α : Type} [LinearOrder α]

theorem mem_insertUniq (x u : α) (l : List α) : u ∈ Py.insertUniq x l ↔ u = x ∨ u ∈ l := by
  induction l with
  | nil => simp [Py.insertUniq]
  | cons a as ih =>
    unfold Py.insertUniq
    split_ifs with h1 h2
    · simp
    · rw [List.mem_cons, ih, List.mem_cons]; tauto
    · have : x = a := le_antisymm (not_lt.1 h2) (not_lt.1 h1)
      subst this; simp

theorem pairwise_insertUniq (x : α) (l : List α) (hl : l.Pairwise (· < ·)) :
    (Py.insertUniq x l).Pairwise (· < ·) := by
  induction l with
  | nil => simp [Py.insertUniq]
  | cons a as ih =>
    have ha := List.pairwise_cons.1 hl
    unfold Py.insertUniq
    split_ifs with h1 h2
    · refine List.pairwise_cons.2 ⟨?_, hl⟩
      intro b hb
      rcases List.mem_cons.1 hb with rfl | hb
      · exact h1
      · exact lt_trans h1 (ha.1 b hb)
    · refine List.pairwise_cons.2 ⟨?_, ih ha.2⟩
      intro b hb
      rcases (mem_insertUniq x b as).1 hb with rfl | hb
      · exact h2
      · exact ha.1 b hb
    · exact hl

theorem mem_unique (u : α) (x : List α) : u ∈ Py.unique x ↔ u ∈ x := by
  induction x with
  | nil => simp [Py.unique]
  | cons a as ih =>
    show u ∈ Py.insertUniq a (Py.unique as) ↔ _
    rw [mem_insertUniq, ih, List.mem_cons]

theorem pairwise_unique (x : List α) : (Py.unique x).Pairwise (· < ·) := by
  induction x with
  | nil => simp [Py.unique]
  | cons a as ih => exact pairwise_insertUniq a _ ih

theorem nodup_unique (x : List α) : (Py.unique x).Nodup :=
  (pairwise_unique x).imp (fun h => ne_of_lt h)

theorem toFinset_unique (x : List α) : (Py.unique x).toFinset = x.toFinset := by
  ext u; simp [mem_unique]

theorem length_unique (x : List α) : (Py.unique x).length = x.toFinset.card := by
  rw [← toFinset_unique, List.toFinset_card_of_nodup (nodup_unique x)]

theorem tieSizes_eq (x : List α) : tieSizes x = (Py.unique x).map fun u => x.count u := by
  unfold tieSizes
  apply List.map_congr_left
  intro u _
  rw [List.count_eq_countP, List.countP_eq_length_filter]
  congr 1
  apply List.filter_congr
  intro v _
  rw [eqv_eq_decide]
  by_cases h : u = v
  · subst h; simp
  · have h' : ¬ v = u := fun e => h e.symm
    simp [h, h']

theorem length_tieSizes (x : List α) : (tieSizes x).length = x.toFinset.card := by
  rw [tieSizes_eq, List.length_map, length_unique]

/-- the tie correction term `t (t-1) (2t+5)` -/
def tieTerm (t : ℕ) : Int := (t : Int) * ((t : Int) - 1) * (2 * (t : Int) + 5)

theorem tieTerm_one : tieTerm 1 = 0 := by simp [tieTerm]

/-- the sum of the tie corrections over the tie groups is the sum over the distinct values -/
theorem tieSizes_sum (x : List α) :
    ((tieSizes x).map fun (t : Nat) =>
        (Int.ofNat t * (Int.ofNat t - 1) * (2 * Int.ofNat t + 5))).foldl (· + ·) 0
      = ∑ u ∈ x.toFinset, tieTerm (x.count u) := by
  rw [foldl_add_int, zero_add, tieSizes_eq, List.map_map, ← toFinset_unique,
    List.sum_toFinset _ (nodup_unique x)]
  rfl

theorem nodup_of_length_tieSizes (x : List α) (h : (tieSizes x).length = x.length) : x.Nodup := by
  rw [length_tieSizes] at h
  exact Multiset.toFinset_card_eq_card_iff_nodup.1 h

theorem mkVar18_eq (x : List α) :
    mkVar18 x = (x.length : Int) * ((x.length : Int) - 1) * (2 * (x.length : Int) + 5)
      - ∑ u ∈ x.toFinset, tieTerm (x.count u) := by
  unfold mkVar18
  simp only
  split_ifs with h
  · have hn := nodup_of_length_tieSizes x h
    have : ∑ u ∈ x.toFinset, tieTerm (x.count u) = 0 := by
      apply Finset.sum_eq_zero
      intro u hu
      rw [List.count_eq_one_of_mem hn (List.mem_toFinset.1 hu), tieTerm_one]
    rw [this, sub_zero]
  · rw [tieSizes_sum]

variable {β : Type} [LinearOrder β]

theorem mkVar18_map_injective (g : α → β) (hg : Function.Injective g) (x : List α) :
    mkVar18 (x.map g) = mkVar18 x := by
  have himg : (x.map g).toFinset = x.toFinset.image g := by
    ext u; simp
  rw [mkVar18_eq, mkVar18_eq, List.length_map, himg,
    Finset.sum_image (fun a _ b _ h => hg h)]
  congr 1
  apply Finset.sum_congr rfl
  intro u _
  rw [List.count_map_of_injective _ _ hg]

theorem mkVar18_reverse (x : List α) : mkVar18 x.reverse = mkVar18 x := by
  rw [mkVar18_eq, mkVar18_eq, List.length_reverse, List.toFinset_reverse]
  congr 1
  apply Finset.sum_congr rfl
  intro u _
  rw [List.count_reverse]

end ties

section trend
variable {α : Type} [Field α] [LinearOrder α] [IsStrictOrderedRing α]

/-- the Z score as `mkTrend` computes it -/
def zOf (F : MKFns α) (x : List α) : α := mkZ F (mkS x) (F.ofInt (mkVar18 x) / nat 18)

/-- the trend flag from (h, z) -/
def trendOf (h : Bool) (z : α) : Int :=
  if !h then 0 else if (nat 0 : α) < z then 1 else if z < nat 0 then -1 else 0

theorem mkTrend_tau (F : MKFns α) (x : List α) : (mkTrend F x).1 = mkTau F.half x F.ofInt := rfl
theorem mkTrend_p (F : MKFns α) (x : List α) : (mkTrend F x).2.1 = (mkP F (zOf F x)).1 := rfl
theorem mkTrend_slope (F : MKFns α) (x : List α) : (mkTrend F x).2.2.1 = sensSlope x := rfl
theorem mkTrend_trend (F : MKFns α) (x : List α) :
    (mkTrend F x).2.2.2 = trendOf (mkP F (zOf F x)).2 (zOf F x) := rfl

theorem mkZ_neg (F : MKFns α) (hodd : ∀ s, F.ofInt (-s) = - F.ofInt s) (s : Int) (vs : α) :
    mkZ F (-s) vs = - mkZ F s vs := by
  unfold mkZ
  rcases lt_trichotomy s 0 with h | h | h
  · have h1 : (0 : Int) < -s := by omega
    have h2 : ¬ (0 : Int) < s := by omega
    rw [if_pos h1, if_neg h2, if_pos h]
    have : -s - 1 = -(s + 1) := by ring
    rw [this, hodd, neg_div]
  · subst h; simp
  · have h1 : ¬ (0 : Int) < -s := by omega
    have h2 : -s < 0 := by omega
    rw [if_neg h1, if_pos h2, if_pos h]
    have : -s + 1 = -(s - 1) := by ring
    rw [this, hodd, neg_div]

theorem mkP_neg (F : MKFns α) (z : α) : mkP F (-z) = mkP F z := by
  unfold mkP; rw [absv_eq, absv_eq, abs_neg]

theorem trendOf_neg (h : Bool) (z : α) : trendOf h (-z) = - trendOf h z := by
  unfold trendOf
  rw [nat_zero]
  cases h
  · simp
  · simp only [Bool.not_true, Bool.false_eq_true, if_false, neg_pos, neg_neg_iff_pos]
    rcases lt_trichotomy z 0 with hz | hz | hz
    · rw [if_pos hz, if_neg (lt_asymm hz), if_pos hz]; simp
    · subst hz; simp
    · rw [if_neg (lt_asymm hz), if_pos hz, if_pos hz]

theorem mkTau_neg_of (half : α) (ofInt : Int → α) (hodd : ∀ s, ofInt (-s) = - ofInt s)
    (x y : List α) (hl : y.length = x.length) (hs : mkS y = - mkS x) :
    mkTau half y ofInt = - mkTau half x ofInt := by
  unfold mkTau; rw [hl, hs, hodd, neg_div]

theorem mkTau_eq_of (half : α) (ofInt : Int → α)
    (x y : List α) (hl : y.length = x.length) (hs : mkS y = mkS x) :
    mkTau half y ofInt = mkTau half x ofInt := by
  unfold mkTau; rw [hl, hs]

end trend

end Hdc.Stats
