import Hdc.PySafeT
import Hdc.PyNpT
import Hdc.Lemmas.SafeBasic
import Hdc.Lemmas.SafeSimN
import Hdc.Lemmas.GenNum
import Mathlib.Tactic.Ring
import Mathlib.Algebra.Order.Ring.Rat
import Mathlib.Tactic.Linarith
/-
SafeMk  Kernel-independent counting facts for the proofs that the flags of the instrumented Mann-Kendall kernels
(Hdc/Props/SafeMkSens.lean, SafeMkVariance.lean) stay false: the number of pairs `tri m = m (m - 1) / 2`, the length
`int(n * (n - 1) / 2)` of the slope buffer, and the counting invariant `CInv` of the double loop
`for i in range(n - 1): for j in range(i + 1, n): d[ix] = ..; ix += 1`.  Nothing here mentions a generated program.
-/
namespace Hdc.SafeMk
open Hdc Hdc.PyNpT

/-- the number of pairs `i < j` among `m` cells -/
def tri : ℕ → ℕ
  | 0 => 0
  | m + 1 => tri m + m

theorem two_tri (m : ℕ) : (2 : ℤ) * (tri m : ℤ) = (m : ℤ) * ((m : ℤ) - 1) := by
  induction m with
  | zero => simp [tri]
  | succ k ih =>
    simp only [tri]
    push_cast
    linarith [ih]

/-- `nd = int(n * (n - 1) / 2)` is the number of pairs -/
theorem tdiv_eq_tri (n : ℕ) : Int.tdiv ((n : ℤ) * ((n : ℤ) - 1)) 2 = (tri n : ℤ) := by
  rw [← two_tri n]
  exact Int.mul_tdiv_cancel_left _ (by decide)

/-- the pairs among the last `n - p` cells: those that start at cell `p`, and the pairs among the last `n - (p + 1)` -/
theorem tri_sub (n p : ℕ) (h : p < n) : tri (n - p) = tri (n - (p + 1)) + (n - (p + 1)) := by
  have : n - p = (n - (p + 1)) + 1 := by omega
  rw [this, tri]

theorem size_npFull {γ : Type} (n : ℤ) (v : γ) : (npFull n v).size = n.toNat := by
  simp [npFull]

/-- the allocation `d = np.ones(int(n * (n - 1) / 2))`: the length is not negative, one cell per pair -/
theorem negLen_nd (n : ℕ) : negLen (Int.tdiv ((n : ℤ) * ((n : ℤ) - 1)) 2) = false := by
  rw [tdiv_eq_tri]; exact negLen_eq_false (by omega)

/-- the counting invariant of the double loop: the buffer of `sz` cells has one cell per pair of the `n` cells;
    `ix` pairs are written, `k` pairs of the current row and all pairs among the last `m` cells are still to come -/
structure CInv (n m : ℕ) (k : ℤ) (sz : ℕ) (ix : ℤ) : Prop where
  size : sz = tri n
  nonneg : 0 ≤ ix
  knn : 0 ≤ k
  count : ix + k + (tri m : ℤ) = (tri n : ℤ)

/-- `ix = 0; d = np.ones(nd)` -/
theorem CInv.init {γ : Type} (n : ℕ) (v : γ) :
    CInv n (n - 0) 0 (npFull (Int.tdiv ((n : ℤ) * ((n : ℤ) - 1)) 2) v).size 0 := by
  refine ⟨?_, le_refl _, le_refl _, by simp⟩
  rw [size_npFull, tdiv_eq_tri]; simp

/-- the same invariant, the parameters written differently -/
theorem CInv.cast {n m m' sz sz' : ℕ} {k k' ix : ℤ} (h : CInv n m k sz ix) (hm : m' = m) (hk : k' = k)
    (hs : sz' = sz) : CInv n m' k' sz' ix := by
  subst hm hk hs; exact h

/-- entry of the inner loop of row `p`: `n - (p + 1)` pairs in this row -/
theorem CInv.enter {n p sz : ℕ} {ix : ℤ} (h : CInv n (n - p) 0 sz ix) (hp : p < n) :
    CInv n (n - (p + 1)) ((n : ℤ) - ((p : ℤ) + 1)) sz ix := by
  refine ⟨h.size, h.nonneg, by omega, ?_⟩
  have := h.count
  rw [tri_sub n p hp] at this
  push_cast at this ⊢
  omega

/-- `d[ix] = ..` is inside the buffer as long as a pair of the current row is to come -/
theorem CInv.lt {n m sz : ℕ} {k ix : ℤ} (h : CInv n m k sz ix) (hk : 1 ≤ k) : 0 ≤ ix ∧ ix < (sz : ℤ) := by
  have := h.count
  have := h.size
  have := h.nonneg
  omega

/-- `d[ix] = ..; ix += 1` -/
theorem CInv.step {n m sz sz' : ℕ} {k k' ix : ℤ} (h : CInv n m k sz ix) (hk : 1 ≤ k) (hk' : k' = k - 1)
    (hs : sz' = sz) : CInv n m k' sz' (ix + 1) := by
  subst hk' hs
  refine ⟨h.size, by have := h.nonneg; omega, by omega, ?_⟩
  have := h.count
  omega

/-- the toy instance of `MKFns ℚ` used by the examples (the one of Hdc/Props/GenNumMkVar.lean) -/
def Fq : MKFns ℚ := ⟨id, id, 1 / 2, 2, fun i => (i : ℚ)⟩

end Hdc.SafeMk
