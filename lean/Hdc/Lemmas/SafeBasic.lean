import Hdc.PySafe
import Hdc.Num
import Mathlib.Algebra.Order.Field.Basic
/-
SafeBasic  Kernel-independent facts for the proofs "under the contract the flag of the instrumented program is false"
(Hdc/Props/Safe*.lean): the checks `oob`, `badSlice`, `eqv · 0` as propositions, and the bookkeeping predicate
`FlagIs P bad` ("the flag is set exactly when `P`") with the rules for `bad := (bad || c1 || c2 …)`.
Nothing here mentions a generated program.
-/
namespace Hdc.SafeL

/-! ### the checks -/

/-- a subscript on an array of length `n` with an index in Python's accepted range is not flagged -/
theorem oob_false (n : ℕ) (i : ℤ) (h : -(n : ℤ) ≤ i ∧ i < (n : ℤ)) : oob n i = false :=
  oob_eq_false h.1 h.2

/-- the same, with the length of the array given by a hypothesis -/
theorem oob_size {β : Type} {a : Array β} {n : ℕ} (hs : a.size = n) {i : ℤ} (h1 : -(n : ℤ) ≤ i)
    (h2 : i < (n : ℤ)) : oob a.size i = false := by
  rw [hs]; exact oob_eq_false h1 h2

theorem oob_true (n : ℕ) (i : ℤ) (h : i < -(n : ℤ) ∨ (n : ℤ) ≤ i) : oob n i = true := by
  unfold oob
  rcases h with h | h
  · have : ¬ (-(n : ℤ) ≤ i) := by omega
    simp [this]
  · have : ¬ (i < (n : ℤ)) := by omega
    simp [this]

section order
variable {α : Type} [Field α] [LinearOrder α]

theorem nat_zero : (nat 0 : α) = 0 := by simp [nat]

theorem eqv_iff (a b : α) : eqv a b = true ↔ a = b := by
  unfold eqv
  simp only [Bool.and_eq_true, Bool.not_eq_true', decide_eq_false_iff_not, not_lt]
  constructor
  · rintro ⟨h1, h2⟩; exact le_antisymm h2 h1
  · rintro rfl; exact ⟨le_refl _, le_refl _⟩

theorem eqv_false_iff (a b : α) : eqv a b = false ↔ a ≠ b := by
  rw [Ne, ← eqv_iff a b, Bool.not_eq_true]

/-- the divisor check of the instrumented programs -/
theorem eqv_zero_iff (a : α) : eqv a (nat 0) = true ↔ a = 0 := by
  rw [eqv_iff]; simp [nat]

theorem eqv_zero_false (a : α) (h : a ≠ 0) : eqv a (nat 0) = false := by
  rw [eqv_false_iff]; simpa [nat] using h

end order

/-! ### the flag -/

/-- the flag is set exactly when `P` -/
def FlagIs (P : Prop) (b : Bool) : Prop := b = true ↔ P

theorem FlagIs.init : FlagIs False false := by simp [FlagIs]

theorem FlagIs.congr {P Q : Prop} {b : Bool} (h : FlagIs P b) (hpq : P ↔ Q) : FlagIs Q b :=
  Iff.trans h hpq

/-- `bad := bad || c` with a check that cannot fire -/
theorem FlagIs.or_false {P : Prop} {b c : Bool} (h : FlagIs P b) (hc : c = false) :
    FlagIs P (b || c) := by
  subst hc; simpa using h

/-- `bad := bad || c` with a check that fires exactly when `Q` -/
theorem FlagIs.or {P Q : Prop} {b c : Bool} (h : FlagIs P b) (hc : c = true ↔ Q) :
    FlagIs (P ∨ Q) (b || c) := by
  unfold FlagIs at *
  rw [Bool.or_eq_true, h, hc]

theorem FlagIs.eq_false {P : Prop} {b : Bool} (h : FlagIs P b) (hp : ¬ P) : b = false := by
  cases b
  · rfl
  · exact absurd (h.1 rfl) hp

theorem FlagIs.eq_true {P : Prop} {b : Bool} (h : FlagIs P b) (hp : P) : b = true := h.2 hp

end Hdc.SafeL
