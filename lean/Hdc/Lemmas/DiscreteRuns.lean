import Hdc.Model.Discrete
/-
Run-length lemmas for C18: a data-level scan equivalent to the dot loop of `lroo`,
its specification in terms of runs, the `croo` pipeline, and the insertion sort.
-/
namespace Hdc.Discrete

/-! ### runs -/

/-- cells `i … i+len-1` exist and are all 1 (same body as `Hdc.C18.IsRun`) -/
def IsRun (data : List Nat) (i len : Nat) : Prop :=
  i + len ≤ data.length ∧ ∀ k, k < len → data[i + k]? = some 1

theorem isRun_cons_succ (x : Nat) (xs : List Nat) (j len : Nat) :
    IsRun (x :: xs) (j + 1) len ↔ IsRun xs j len := by
  unfold IsRun
  have e : ∀ k, (x :: xs)[j + 1 + k]? = xs[j + k]? := by
    intro k
    have : j + 1 + k = (j + k) + 1 := by omega
    rw [this, List.getElem?_cons_succ]
  simp only [e, List.length_cons]
  constructor
  · rintro ⟨h1, h2⟩; exact ⟨by omega, h2⟩
  · rintro ⟨h1, h2⟩; exact ⟨by omega, h2⟩

theorem isRun_cons_zero_succ (x : Nat) (xs : List Nat) (len : Nat) :
    IsRun (x :: xs) 0 (len + 1) ↔ x = 1 ∧ IsRun xs 0 len := by
  unfold IsRun
  simp only [List.length_cons, Nat.zero_add]
  constructor
  · rintro ⟨h1, h2⟩
    refine ⟨?_, by omega, ?_⟩
    · have := h2 0 (by omega); simpa using this
    · intro k hk
      have := h2 (k + 1) (by omega)
      simpa using this
  · rintro ⟨rfl, h1, h2⟩
    refine ⟨by omega, ?_⟩
    intro k hk
    cases k with
    | zero => simp
    | succ k => simpa using h2 k (by omega)

theorem isRun_zero_len (xs : List Nat) (j : Nat) (h : j ≤ xs.length) : IsRun xs j 0 :=
  ⟨by omega, fun k hk => absurd hk (Nat.not_lt_zero k)⟩

theorem isRun_nil (j len : Nat) (h : IsRun [] j len) : len = 0 := by
  have := h.1; simp at this; omega

/-! ### the dot loop as a scan over the data -/

/-- `c` = number of ones immediately preceding the current cell, `mr` = best so far -/
def scan : Nat → Nat → List Nat → Nat
  | _, mr, [] => mr
  | c, mr, x :: xs =>
    if x = 1 then scan (c + 1) (if 1 ≤ c ∧ c + 1 > mr then c + 1 else mr) xs
    else scan 0 mr xs

theorem lrooLoop_dotsFrom (xs : List Nat) (prev cr mr i : Nat) (hp : prev < i) (hcr : 1 ≤ cr) :
    lrooLoop prev cr mr (dotsFrom i xs) = scan (if i - prev = 1 then cr else 0) mr xs := by
  induction xs generalizing prev cr mr i with
  | nil => simp [dotsFrom, lrooLoop, scan]
  | cons x xs ih =>
    unfold dotsFrom scan
    by_cases hx : x = 1
    · simp only [hx, if_true]
      unfold lrooLoop
      by_cases hadj : i - prev = 1
      · simp only [hadj, if_true]
        rw [ih i (cr + 1) _ (i + 1) (by omega) (by omega)]
        have h1 : i + 1 - i = 1 := by omega
        simp only [h1, if_true, hcr, true_and]
      · simp only [hadj, if_false]
        rw [ih i 1 mr (i + 1) (by omega) (by omega)]
        have h1 : i + 1 - i = 1 := by omega
        simp
    · simp only [hx, if_false]
      rw [ih prev cr mr (i + 1) (by omega) hcr]
      have h1 : ¬ (i + 1 - prev = 1) := by omega
      simp only [h1, if_false]

theorem lrooRaw_aux (xs : List Nat) (i : Nat) :
    (match dotsFrom i xs with
      | [] => 0
      | d :: ds => lrooLoop d 1 0 ds) = scan 0 0 xs := by
  induction xs generalizing i with
  | nil => simp [dotsFrom, scan]
  | cons x xs ih =>
    unfold dotsFrom scan
    by_cases hx : x = 1
    · simp only [hx, if_true]
      rw [lrooLoop_dotsFrom xs i 1 0 (i + 1) (by omega) (by omega)]
      have h1 : i + 1 - i = 1 := by omega
      simp [h1]
    · simp only [hx, if_false]
      exact ih (i + 1)

theorem lrooRaw_eq_scan (data : List Nat) : lrooRaw data = scan 0 0 data :=
  lrooRaw_aux data 0

/-! ### specification of the scan -/

theorem scan_mono (xs : List Nat) (c mr : Nat) : mr ≤ scan c mr xs := by
  induction xs generalizing c mr with
  | nil => simp [scan]
  | cons x xs ih =>
    unfold scan
    split
    · refine Nat.le_trans ?_ (ih _ _)
      split <;> omega
    · exact ih _ _

/-- a run starting at the current cell, extended by the `c` preceding ones, is not missed -/
theorem scan_upper_head (xs : List Nat) (c mr len : Nat) (hcm : 2 ≤ c → c ≤ mr)
    (hr : IsRun xs 0 len) (h2 : 2 ≤ c + len) : c + len ≤ scan c mr xs := by
  induction xs generalizing c mr len with
  | nil =>
    have := isRun_nil 0 len hr
    simp only [scan]; omega
  | cons x xs ih =>
    cases len with
    | zero =>
      have := scan_mono (x :: xs) c mr
      omega
    | succ len =>
      obtain ⟨hx, hr'⟩ := (isRun_cons_zero_succ x xs len).1 hr
      unfold scan
      simp only [hx, if_true]
      have := ih (c + 1) (if 1 ≤ c ∧ c + 1 > mr then c + 1 else mr) len
        (by intro _; split <;> omega) hr' (by omega)
      omega

/-- no run of at least two cells is missed -/
theorem scan_upper (xs : List Nat) (c mr j len : Nat) (hcm : 2 ≤ c → c ≤ mr)
    (hr : IsRun xs j len) (h2 : 2 ≤ len) : len ≤ scan c mr xs := by
  induction xs generalizing c mr j with
  | nil => have := isRun_nil j len hr; omega
  | cons x xs ih =>
    cases j with
    | zero =>
      have := scan_upper_head (x :: xs) c mr len hcm hr (by omega)
      omega
    | succ j =>
      have hr' := (isRun_cons_succ x xs j len).1 hr
      unfold scan
      split
      · exact ih (c + 1) _ j (by intro _; split <;> omega) hr'
      · exact ih 0 mr j (by omega) hr'

/-- the result is the initial `mr` or the length of an actual run (counting the `c` preceding
    ones when the run starts at the current cell) -/
theorem scan_attained (xs : List Nat) (c mr : Nat) :
    scan c mr xs = mr ∨
      (2 ≤ scan c mr xs ∧ ∃ j len, IsRun xs j len ∧ scan c mr xs = (if j = 0 then c else 0) + len) := by
  induction xs generalizing c mr with
  | nil => left; simp [scan]
  | cons x xs ih =>
    unfold scan
    by_cases hx : x = 1
    · simp only [hx, if_true]
      rcases ih (c + 1) (if 1 ≤ c ∧ c + 1 > mr then c + 1 else mr) with h | ⟨h2, j, len, hr, he⟩
      · by_cases hc : 1 ≤ c ∧ c + 1 > mr
        · right
          rw [if_pos hc] at h ⊢
          refine ⟨by omega, 0, 1, ?_, by simp [h]⟩
          exact (isRun_cons_zero_succ 1 xs 0).2 ⟨rfl, isRun_zero_len xs 0 (Nat.zero_le _)⟩
        · left
          rw [if_neg hc] at h ⊢
          exact h
      · right
        refine ⟨h2, ?_⟩
        cases j with
        | zero =>
          refine ⟨0, len + 1, (isRun_cons_zero_succ 1 xs len).2 ⟨rfl, hr⟩, ?_⟩
          simp only [if_true] at he ⊢
          omega
        | succ j =>
          refine ⟨j + 2, len, (isRun_cons_succ 1 xs (j + 1) len).2 hr, ?_⟩
          simpa using he
    · simp only [hx, if_false]
      rcases ih 0 mr with h | ⟨h2, j, len, hr, he⟩
      · left; exact h
      · right
        refine ⟨h2, j + 1, len, (isRun_cons_succ x xs j len).2 hr, ?_⟩
        have : (if j = 0 then 0 else 0) = 0 := by split <;> rfl
        rw [this] at he
        simpa using he

/-! ### lroo in terms of runs -/

theorem lroo_eq (data : List Nat) :
    lroo data = if scan 0 0 data > 1 then scan 0 0 data else 0 := by
  simp only [lroo, lrooRaw_eq_scan]

theorem lroo_upper' (data : List Nat) (i len : Nat) (hr : IsRun data i len) :
    len ≤ max (lroo data) 1 := by
  by_cases h2 : 2 ≤ len
  · have := scan_upper data 0 0 i len (by omega) hr h2
    rw [lroo_eq]
    have h1 : scan 0 0 data > 1 := by omega
    rw [if_pos h1]; omega
  · omega

theorem lroo_attained' (data : List Nat) (h : 2 ≤ lroo data) : ∃ i, IsRun data i (lroo data) := by
  rw [lroo_eq] at h ⊢
  by_cases h1 : scan 0 0 data > 1
  · rw [if_pos h1] at h ⊢
    rcases scan_attained data 0 0 with h0 | ⟨_, j, len, hr, he⟩
    · omega
    · refine ⟨j, ?_⟩
      have : (if j = 0 then 0 else 0) = 0 := by split <;> rfl
      rw [this, Nat.zero_add] at he
      rw [he]; exact hr
  · rw [if_neg h1] at h; omega

/-! ### croo -/

/-- length of the leading run of ones (same body as `Hdc.C18.leadingRun`) -/
def leadingRun (s : List Nat) : Nat := (s.takeWhile fun x => x = 1).length

/-- the `argmax` loop body -/
def amStep (st : Nat × Nat × Nat) (v : Nat) : Nat × Nat × Nat :=
  let (bi, bv, i) := st
  if v > bv then (i, v, i + 1) else (bi, bv, i + 1)

theorem argmaxFirst_cons (x : Nat) (xs : List Nat) :
    argmaxFirst (x :: xs) = (xs.foldl amStep (0, x, 1)).1 := rfl

theorem fold_none (t : List Nat) (bi bv i : Nat) :
    (((crooCum none t).map fun o => o.getD 0).foldl amStep (bi, bv, i)).1 = bi := by
  induction t generalizing i with
  | nil => simp [crooCum]
  | cons x xs ih =>
    simp only [crooCum, List.map_cons, List.foldl_cons, Option.getD_none]
    have : amStep (bi, bv, i) 0 = (bi, bv, i + 1) := by simp [amStep]
    rw [this]; exact ih (i + 1)

theorem fold_some (t : List Nat) (hbin : ∀ x ∈ t, x = 0 ∨ x = 1) (bi k : Nat) :
    (((crooCum (some k) t).map fun o => o.getD 0).foldl amStep (bi, k, bi + 1)).1
      = bi + leadingRun t := by
  induction t generalizing bi k with
  | nil => simp [crooCum, leadingRun]
  | cons x xs ih =>
    have hxs : ∀ y ∈ xs, y = 0 ∨ y = 1 := fun y hy => hbin y (by simp [hy])
    rcases hbin x (by simp) with rfl | rfl
    · simp only [crooCum, List.map_cons, List.foldl_cons]
      have h0 : (if (0 : Nat) = 1 then some (k + 1) else none) = none := by simp
      rw [h0]
      have : amStep (bi, k, bi + 1) (none.getD 0) = (bi, k, bi + 1 + 1) := by simp [amStep]
      rw [this, fold_none]
      simp [leadingRun]
    · simp only [crooCum, List.map_cons, List.foldl_cons, if_true, Option.getD_some]
      have : amStep (bi, k, bi + 1) (k + 1) = (bi + 1, k + 1, bi + 1 + 1) := by simp [amStep]
      rw [this, ih hxs (bi + 1) (k + 1)]
      simp [leadingRun]; omega

theorem crooSorted_eq' (s : List Nat) (hbin : ∀ x ∈ s, x = 0 ∨ x = 1) :
    crooSorted s = leadingRun s := by
  cases s with
  | nil => rfl
  | cons x xs =>
    have hxs : ∀ y ∈ xs, y = 0 ∨ y = 1 := fun y hy => hbin y (by simp [hy])
    unfold crooSorted
    rcases hbin x (by simp) with rfl | rfl
    · simp only [crooCum, List.map_cons, argmaxFirst_cons, List.headD_cons]
      have h0 : (if (0 : Nat) = 1 then some (0 + 1) else none) = none := by simp
      rw [h0, fold_none]
      simp [leadingRun]
    · simp only [crooCum, List.map_cons, argmaxFirst_cons, List.headD_cons, if_true,
        Option.getD_some]
      have := fold_some xs hxs 0 (0 + 1)
      rw [Nat.zero_add] at this ⊢
      rw [this]
      simp [leadingRun]

/-- the leading run is a run -/
theorem isRun_leadingRun (s : List Nat) : IsRun s 0 (leadingRun s) := by
  induction s with
  | nil => exact isRun_zero_len [] 0 (Nat.le_refl _)
  | cons x xs ih =>
    by_cases hx : x = 1
    · have : leadingRun (x :: xs) = leadingRun xs + 1 := by simp [leadingRun, hx]
      rw [this]
      exact (isRun_cons_zero_succ x xs _).2 ⟨hx, ih⟩
    · have : leadingRun (x :: xs) = 0 := by simp [leadingRun, hx]
      rw [this]
      exact isRun_zero_len _ 0 (Nat.zero_le _)

/-- a leading run of `s` is a trailing run of `s.reverse` -/
theorem isRun_reverse (s : List Nat) (len : Nat) (h : IsRun s 0 len) :
    IsRun s.reverse (s.length - len) len := by
  obtain ⟨h1, h2⟩ := h
  refine ⟨by simp; omega, ?_⟩
  intro k hk
  rw [List.getElem?_reverse (by omega)]
  have := h2 (s.length - 1 - (s.length - len + k)) (by omega)
  simpa using this

/-! ### insertion sort by descending time -/

theorem insertDesc_perm (p : Int × Nat) (l : List (Int × Nat)) : (insertDesc p l).Perm (p :: l) := by
  induction l with
  | nil => exact List.Perm.refl _
  | cons q qs ih =>
    unfold insertDesc
    split
    · exact List.Perm.refl _
    · exact (List.Perm.cons q ih).trans (List.Perm.swap p q qs)

theorem sortDesc_perm (ps : List (Int × Nat)) : (sortDesc ps).Perm ps := by
  induction ps with
  | nil => exact List.Perm.refl _
  | cons p ps ih =>
    show (insertDesc p (sortDesc ps)).Perm (p :: ps)
    exact (insertDesc_perm p _).trans (List.Perm.cons p ih)

theorem insertDesc_sorted (p : Int × Nat) (l : List (Int × Nat))
    (hl : l.Pairwise (fun a b => b.1 < a.1)) (hp : ∀ q ∈ l, q.1 ≠ p.1) :
    (insertDesc p l).Pairwise (fun a b => b.1 < a.1) := by
  induction l with
  | nil => simp [insertDesc]
  | cons q qs ih =>
    unfold insertDesc
    have hq := hp q (by simp)
    rw [List.pairwise_cons] at hl
    split
    · rename_i hlt
      refine List.Pairwise.cons ?_ (List.Pairwise.cons hl.1 hl.2)
      intro r hr
      rcases List.mem_cons.1 hr with rfl | hr
      · exact hlt
      · exact Int.lt_trans (hl.1 r hr) hlt
    · rename_i hnlt
      refine List.Pairwise.cons ?_ (ih hl.2 (fun r hr => hp r (by simp [hr])))
      intro r hr
      rcases List.mem_cons.1 ((insertDesc_perm p qs).subset hr) with rfl | hr
      · omega
      · exact hl.1 r hr

theorem sortDesc_sorted (ps : List (Int × Nat)) (hd : (ps.map (·.1)).Nodup) :
    (sortDesc ps).Pairwise (fun a b => b.1 < a.1) := by
  induction ps with
  | nil => exact List.Pairwise.nil
  | cons p ps ih =>
    rw [List.map_cons, List.nodup_cons] at hd
    show (insertDesc p (sortDesc ps)).Pairwise _
    refine insertDesc_sorted p _ (ih hd.2) ?_
    intro q hq heq
    apply hd.1
    rw [← heq]
    exact List.mem_map_of_mem ((sortDesc_perm ps).subset hq)

theorem sortDesc_perm_invariant (ps qs : List (Int × Nat)) (h : ps.Perm qs)
    (hd : (ps.map (·.1)).Nodup) : sortDesc ps = sortDesc qs := by
  have hd' : (qs.map (·.1)).Nodup := (h.map _).nodup hd
  refine List.Perm.eq_of_pairwise (le := fun a b => b.1 < a.1) ?_ (sortDesc_sorted ps hd)
    (sortDesc_sorted qs hd') (((sortDesc_perm ps).trans h).trans (sortDesc_perm qs).symm)
  intro a b _ _ h1 h2
  omega

end Hdc.Discrete
