import Hdc.Lemmas.SmoothV
import Mathlib.Algebra.BigOperators.Intervals
/-
Sums of the V-curve as finite sums, and invariance of every building block under a shift of
the data by a constant and under reversal of the series.
-/
namespace Hdc.Smooth
open Hdc Hdc.C01 Finset

set_option linter.unusedSectionVars false

variable {α : Type} [Field α] [LinearOrder α] [IsStrictOrderedRing α]

/-! ### list sums as finite sums -/

theorem sum_eq_finset (l : List α) : l.sum = ∑ i ∈ range l.length, fn l i := by
  induction l with
  | nil => simp
  | cons a as ih =>
    rw [List.sum_cons, List.length_cons, Finset.sum_range_succ', ih]
    have h0 : fn (a :: as) 0 = a := Ws2d.fnl_cons_zero a as
    have hs : ∀ i, fn (a :: as) (i + 1) = fn as i := fun i => Ws2d.fnl_cons_succ a as i
    simp only [hs, h0]
    ring

theorem fn_fitTerms (w y z : List α) (i : ℕ) (h1 : i < w.length) (h2 : i < y.length)
    (h3 : i < z.length) :
    fn (fitTerms w y z) i = (fn w i * (fn y i - fn z i)) ^ 2 := by
  rw [fn_of_lt _ i (by simp; exact ⟨h1, h2, h3⟩), fn_of_lt _ i h1, fn_of_lt _ i h2, fn_of_lt _ i h3]
  simp only [fitTerms_eq, List.getElem_zipWith, List.getElem_zip, ft]
  ring

/-- `fitSS w y z = Σ (w_i (y_i − z_i))²` -/
theorem fitSS_eq_sum (w y z : List α) (hw : w.length = y.length) (hz : z.length = y.length) :
    fitSS w y z = ∑ i ∈ range y.length, (fn w i * (fn y i - fn z i)) ^ 2 := by
  unfold fitSS
  rw [sumF_eq, sum_eq_finset, fitTerms_length, hw, hz, min_self, min_self]
  apply Finset.sum_congr rfl
  intro i hi
  have hi' := mem_range.1 hi
  exact fn_fitTerms w y z i (by omega) hi' (by omega)

theorem diffs_length (z : List α) : (diffs z).length = z.length - 1 := by
  induction z with
  | nil => simp [diffs]
  | cons a rest ih =>
    cases rest with
    | nil => simp [diffs]
    | cons b rest' =>
      simp only [diffs, List.length_cons, ih]
      simp

theorem fn_diffs (z : List α) (i : ℕ) (hi : i + 1 < z.length) :
    fn (diffs z) i = fn z (i + 1) - fn z i := by
  induction z generalizing i with
  | nil => simp at hi
  | cons a rest ih =>
    cases rest with
    | nil => simp at hi
    | cons b rest' =>
      cases i with
      | zero => simp [diffs, fn]
      | succ i =>
        have := ih i (by simpa using hi)
        simp only [diffs]
        rw [show fn ((b - a) :: diffs (b :: rest')) (i + 1) = fn (diffs (b :: rest')) i from
            Ws2d.fnl_cons_succ _ _ _, this]
        rw [show fn (a :: b :: rest') (i + 1 + 1) = fn (b :: rest') (i + 1) from
            Ws2d.fnl_cons_succ _ _ _,
          show fn (a :: b :: rest') (i + 1) = fn (b :: rest') i from Ws2d.fnl_cons_succ _ _ _]

theorem fn_diffs2 (z : List α) (i : ℕ) (hi : i + 2 < z.length) :
    fn (diffs (diffs z)) i = D2 (fn z) i := by
  rw [fn_diffs _ i (by rw [diffs_length]; omega), fn_diffs z (i + 1) (by omega),
    fn_diffs z i (by omega), D2]
  ring

/-- `penSS z = Σ (Δ² z)²`, the roughness term of the penalised least-squares functional -/
theorem penSS_eq_sum (z : List α) :
    penSS z = ∑ j ∈ range (z.length - 2), (D2 (fn z) j) ^ 2 := by
  unfold penSS
  rw [sumF_eq, sum_eq_finset, List.length_map, diffs_length, diffs_length]
  have : z.length - 1 - 1 = z.length - 2 := by omega
  rw [this]
  apply Finset.sum_congr rfl
  intro j hj
  have hj' := mem_range.1 hj
  rw [fn_map_of_lt _ _ _ (by rw [diffs_length, diffs_length]; omega), fn_diffs2 z j (by omega)]
  ring

/-! ### shift by a constant -/

theorem fitTerms_shift (w y z : List α) (c : α) :
    fitTerms w (y.map (· + c)) (z.map (· + c)) = fitTerms w y z := by
  induction w generalizing y z with
  | nil => cases y <;> cases z <;> simp [fitTerms]
  | cons a as ih =>
    cases y with
    | nil => simp [fitTerms]
    | cons b bs =>
      cases z with
      | nil => simp [fitTerms]
      | cons d ds => simp [fitTerms, ih]

theorem fitSS_shift (w y z : List α) (c : α) :
    fitSS w (y.map (· + c)) (z.map (· + c)) = fitSS w y z := by
  unfold fitSS; rw [fitTerms_shift]

theorem diffs_shift (z : List α) (c : α) : diffs (z.map (· + c)) = diffs z := by
  induction z with
  | nil => simp [diffs]
  | cons a rest ih =>
    cases rest with
    | nil => simp [diffs]
    | cons b rest' =>
      simp only [List.map_cons, diffs] at ih ⊢
      rw [ih]; simp

theorem penSS_shift (z : List α) (c : α) : penSS (z.map (· + c)) = penSS z := by
  unfold penSS; rw [diffs_shift]

theorem sub2_shift (y z : List α) (c : α) : sub2 (y.map (· + c)) (z.map (· + c)) = sub2 y z := by
  induction y generalizing z with
  | nil => cases z <;> simp [sub2]
  | cons a as ih =>
    cases z with
    | nil => simp [sub2]
    | cons b bs => simp [sub2, ih]

theorem weightsOf_shift (miss : α → Bool) (y : List α) (c : α) :
    weightsOf (fun x => miss (x - c)) (y.map (· + c)) = weightsOf miss y := by
  simp [weightsOf]

theorem countValid_shift (miss : α → Bool) (y : List α) (c : α) :
    countValid (fun x => miss (x - c)) (y.map (· + c)) = countValid miss y := by
  unfold countValid
  rw [List.filter_map, List.length_map]
  congr 2
  funext x
  simp

/-- cleaning after the shift and shifting after cleaning differ only on missing cells -/
theorem cleanOf_shift_masked (miss : α → Bool) (y : List α) (c : α) :
    MaskedEq (weightsOf miss y) (cleanOf (fun x => miss (x - c)) (y.map (· + c)))
      ((cleanOf miss y).map (· + c)) := by
  refine ⟨by simp, fun i hi => ?_⟩
  obtain ⟨hl, hm⟩ := weightsOf_ne_zero miss y i hi
  rw [fn_cleanOf _ _ i (by simpa using hl), fn_map_of_lt _ _ _ (by simpa using hl),
    fn_cleanOf miss y i hl]
  simp [hm]

/-! ### reversal -/

theorem weightsOf_reverse (miss : α → Bool) (y : List α) :
    weightsOf miss y.reverse = (weightsOf miss y).reverse := by
  simp [weightsOf]

theorem cleanOf_reverse (miss : α → Bool) (y : List α) :
    cleanOf miss y.reverse = (cleanOf miss y).reverse := by
  simp [cleanOf]

theorem countValid_reverse (miss : α → Bool) (y : List α) :
    countValid miss y.reverse = countValid miss y := by
  unfold countValid
  rw [List.filter_reverse, List.length_reverse]

theorem fitSS_reverse (w y z : List α) (hw : w.length = y.length) (hz : z.length = y.length) :
    fitSS w.reverse y.reverse z.reverse = fitSS w y z := by
  rw [fitSS_eq_sum _ _ _ (by simpa using hw) (by simpa using hz), fitSS_eq_sum _ _ _ hw hz,
    List.length_reverse]
  rw [← Finset.sum_range_reflect]
  apply Finset.sum_congr rfl
  intro i hi
  have hi' := mem_range.1 hi
  rw [fn_reverse_of_lt w _ (by omega), fn_reverse_of_lt y _ (by omega),
    fn_reverse_of_lt z _ (by omega), hw, hz]
  have : y.length - 1 - (y.length - 1 - i) = i := by omega
  rw [this]

theorem penSS_reverse (z : List α) : penSS z.reverse = penSS z := by
  rw [penSS_eq_sum, penSS_eq_sum, List.length_reverse]
  rw [← Finset.sum_range_reflect]
  apply Finset.sum_congr rfl
  intro j hj
  have hj' := mem_range.1 hj
  congr 1
  simp only [D2]
  rw [fn_reverse_of_lt z _ (by omega), fn_reverse_of_lt z _ (by omega),
    fn_reverse_of_lt z _ (by omega)]
  have e1 : z.length - 1 - (z.length - 2 - 1 - j) = j + 2 := by omega
  have e2 : z.length - 1 - (z.length - 2 - 1 - j + 1) = j + 1 := by omega
  have e3 : z.length - 1 - (z.length - 2 - 1 - j + 2) = j := by omega
  rw [e1, e2, e3]
  ring

/-! ### straight lines -/

/-- the values `a + b·i`, `i = 0 … n−1` -/
def lineList (a b : α) (n : ℕ) : List α := (List.range n).map fun (i : ℕ) => a + b * (Nat.cast i : α)

@[simp] theorem lineList_length (a b : α) (n : ℕ) : (lineList a b n).length = n := by
  simp [lineList]

theorem fn_lineList (a b : α) (n i : ℕ) (hi : i < n) : fn (lineList a b n) i = a + b * (i : α) := by
  rw [fn_of_lt _ i (by simpa using hi)]
  simp only [lineList, List.getElem_map, List.getElem_range]

/-- list form of `ws2d_affine` -/
theorem ws2d_eq_line {y w : List α} {lam : α} (h : InContract y w lam) (a b : α)
    (hy : ∀ i, fn w i ≠ 0 → fn y i = a + b * (i : α)) :
    ws2d y lam w = lineList a b y.length := by
  apply list_eq_of_fn _ _ (by rw [ws2d_length _ _ _ h.wlen]; simp)
  intro i hi
  rw [ws2d_length _ _ _ h.wlen] at hi
  rw [ws2d_affine h a b hy i hi, fn_lineList a b _ i hi]

end Hdc.Smooth
