import Hdc.Py
import Hdc.Model.Discrete
import Mathlib.Order.Defs.LinearOrder
import Mathlib.Order.Basic
import Mathlib.Tactic.Tauto
/-
`np.searchsorted` / `np.unique` on sorted lists over a linear order: the generic facts about
`takeWhile` of a downward-closed predicate on a sorted list, then `searchLeft`, `searchRight`,
`insertUniq`, `unique`.
-/
set_option linter.unusedSectionVars false
set_option linter.unusedSimpArgs false
namespace Hdc.Spi

section generic
variable {β : Type} [LinearOrder β]

/-- a predicate that, once false, stays false further up -/
def DownClosed (p : β → Bool) : Prop := ∀ x y, x ≤ y → p y = true → p x = true

theorem takeWhile_eq_filter_of_sorted (p : β → Bool) (hp : DownClosed p) :
    ∀ (l : List β), l.Pairwise (· ≤ ·) → l.takeWhile p = l.filter p
  | [], _ => rfl
  | x :: l, h => by
    rw [List.pairwise_cons] at h
    by_cases hx : p x = true
    · simp [List.takeWhile_cons, List.filter_cons, hx, takeWhile_eq_filter_of_sorted p hp l h.2]
    · have : l.filter p = [] := by
        rw [List.filter_eq_nil_iff]; intro y hy hpy; exact hx (hp x y (h.1 y hy) hpy)
      simp [List.takeWhile_cons, List.filter_cons, hx, this]

theorem takeWhile_length_eq_countP (p : β → Bool) (hp : DownClosed p) (l : List β)
    (h : l.Pairwise (· ≤ ·)) : (l.takeWhile p).length = l.countP p := by
  rw [takeWhile_eq_filter_of_sorted p hp l h, List.countP_eq_length_filter]

theorem lt_takeWhile_length_iff (p : β → Bool) (hp : DownClosed p) :
    ∀ (l : List β), l.Pairwise (· ≤ ·) → ∀ (k : ℕ) (hk : k < l.length),
      (k < (l.takeWhile p).length ↔ p l[k] = true)
  | [], _, k, hk => by simp at hk
  | x :: l, h, k, hk => by
    rw [List.pairwise_cons] at h
    by_cases hx : p x = true
    · cases k with
      | zero => simp [List.takeWhile_cons, hx]
      | succ k =>
        have := lt_takeWhile_length_iff p hp l h.2 k (by simpa using hk)
        simp [List.takeWhile_cons, hx, this]
    · cases k with
      | zero => simp [List.takeWhile_cons, hx]
      | succ k =>
        have hk' : k < l.length := by simpa using hk
        have : ¬ p l[k] = true := fun hpk => hx (hp x _ (h.1 _ (List.getElem_mem hk')) hpk)
        simp [List.takeWhile_cons, hx, this]

/-- on a sorted list the entries satisfying a downward-closed predicate are a prefix … -/
theorem filter_eq_take_of_sorted (p : β → Bool) (hp : DownClosed p) (l : List β)
    (h : l.Pairwise (· ≤ ·)) : l.filter p = l.take (l.takeWhile p).length := by
  rw [← takeWhile_eq_filter_of_sorted p hp l h]
  induction l with
  | nil => rfl
  | cons x l ih =>
    rw [List.pairwise_cons] at h
    by_cases hx : p x = true
    · simp only [List.takeWhile_cons, hx, if_true, List.length_cons, List.take_succ_cons]
      rw [← ih h.2]
    · simp [List.takeWhile_cons, hx]

/-- … and the others the complementary suffix -/
theorem filter_not_eq_drop_of_sorted (p : β → Bool) (hp : DownClosed p) :
    ∀ (l : List β), l.Pairwise (· ≤ ·) →
      l.filter (fun x => !p x) = l.drop (l.takeWhile p).length
  | [], _ => rfl
  | x :: l, h => by
    rw [List.pairwise_cons] at h
    by_cases hx : p x = true
    · simp [List.takeWhile_cons, List.filter_cons, hx, filter_not_eq_drop_of_sorted p hp l h.2]
    · have : ∀ y ∈ l, (!p y) = true := by
        intro y hy
        have : ¬ p y = true := fun hpy => hx (hp x y (h.1 y hy) hpy)
        simpa using this
      simp [List.takeWhile_cons, List.filter_cons, hx, List.filter_eq_self.mpr this]

theorem takeWhile_length_le (p : β → Bool) (l : List β) : (l.takeWhile p).length ≤ l.length :=
  (List.takeWhile_sublist p).length_le

theorem downClosed_lt (v : β) : DownClosed (fun x : β => decide (x < v)) := by
  intro x y hxy hy
  simp only [decide_eq_true_eq] at hy ⊢
  exact lt_of_le_of_lt hxy hy

theorem downClosed_le (v : β) : DownClosed (fun x : β => !decide (v < x)) := by
  intro x y hxy hy
  simp only [Bool.not_eq_true', decide_eq_false_iff_not, not_lt] at hy ⊢
  exact le_trans hxy hy

/-! ### searchLeft / searchRight -/

theorem searchLeft_le_length (a : List β) (v : β) : Py.searchLeft a v ≤ a.length :=
  takeWhile_length_le _ _

theorem searchRight_le_length (a : List β) (v : β) : Py.searchRight a v ≤ a.length :=
  takeWhile_length_le _ _

theorem searchLeft_eq_countP (a : List β) (v : β) (h : a.Pairwise (· ≤ ·)) :
    Py.searchLeft a v = a.countP (fun x => decide (x < v)) :=
  takeWhile_length_eq_countP _ (downClosed_lt v) a h

theorem searchRight_eq_countP (a : List β) (v : β) (h : a.Pairwise (· ≤ ·)) :
    Py.searchRight a v = a.countP (fun x => decide (x ≤ v)) := by
  unfold Py.searchRight
  rw [takeWhile_length_eq_countP _ (downClosed_le v) a h]
  congr 1; funext x
  by_cases hx : v < x
  · simp [hx, not_le.mpr hx]
  · simp [hx, not_lt.mp hx]

theorem lt_searchLeft_iff (a : List β) (v : β) (h : a.Pairwise (· ≤ ·)) (k : ℕ)
    (hk : k < a.length) : k < Py.searchLeft a v ↔ a[k] < v := by
  unfold Py.searchLeft
  rw [lt_takeWhile_length_iff _ (downClosed_lt v) a h k hk]; simp

theorem lt_searchRight_iff (a : List β) (v : β) (h : a.Pairwise (· ≤ ·)) (k : ℕ)
    (hk : k < a.length) : k < Py.searchRight a v ↔ a[k] ≤ v := by
  unfold Py.searchRight
  rw [lt_takeWhile_length_iff _ (downClosed_le v) a h k hk]; simp

/-! ### insertUniq / unique -/

theorem mem_insertUniq (x y : β) (l : List β) : y ∈ Py.insertUniq x l ↔ y = x ∨ y ∈ l := by
  induction l with
  | nil => simp [Py.insertUniq]
  | cons a as ih =>
    unfold Py.insertUniq
    split
    · simp
    · split
      · simp only [List.mem_cons, ih]; tauto
      · next h1 h2 =>
        have : x = a := le_antisymm (not_lt.mp h2) (not_lt.mp h1)
        subst this; simp

theorem insertUniq_sorted (x : β) (l : List β) (h : l.Pairwise (· < ·)) :
    (Py.insertUniq x l).Pairwise (· < ·) := by
  induction l with
  | nil => simp [Py.insertUniq]
  | cons a as ih =>
    rw [List.pairwise_cons] at h
    unfold Py.insertUniq
    split
    · next hxa =>
      rw [List.pairwise_cons]
      refine ⟨?_, List.pairwise_cons.mpr h⟩
      intro y hy
      rcases List.mem_cons.mp hy with rfl | hy
      · exact hxa
      · exact lt_trans hxa (h.1 y hy)
    · split
      · next hax =>
        rw [List.pairwise_cons]
        refine ⟨?_, ih h.2⟩
        intro y hy
        rcases (mem_insertUniq x y as).mp hy with rfl | hy
        · exact hax
        · exact h.1 y hy
      · exact List.pairwise_cons.mpr h

theorem mem_unique (y : β) (xs : List β) : y ∈ Py.unique xs ↔ y ∈ xs := by
  induction xs with
  | nil => simp [Py.unique]
  | cons x xs ih =>
    have : Py.unique (x :: xs) = Py.insertUniq x (Py.unique xs) := rfl
    rw [this, mem_insertUniq, ih]; simp

theorem unique_sorted (xs : List β) : (Py.unique xs).Pairwise (· < ·) := by
  induction xs with
  | nil => simp [Py.unique]
  | cons x xs ih =>
    have : Py.unique (x :: xs) = Py.insertUniq x (Py.unique xs) := rfl
    rw [this]; exact insertUniq_sorted x _ ih

theorem pairwise_le_of_lt {l : List β} (h : l.Pairwise (· < ·)) : l.Pairwise (· ≤ ·) :=
  h.imp (fun hab => le_of_lt hab)

/-- on a strictly sorted list `searchLeft` finds the position of a member -/
theorem searchLeft_getElem_of_strict (l : List β) (h : l.Pairwise (· < ·)) (m : ℕ)
    (hm : m < l.length) : Py.searchLeft l l[m] = m := by
  have hs := pairwise_le_of_lt h
  have hle : Py.searchLeft l l[m] ≤ l.length := searchLeft_le_length _ _
  apply Nat.le_antisymm
  · by_contra hlt
    have hlt : m < Py.searchLeft l l[m] := Nat.lt_of_not_le hlt
    exact lt_irrefl _ ((lt_searchLeft_iff l l[m] hs m hm).mp hlt)
  · by_contra hlt
    have hlt : Py.searchLeft l l[m] < m := Nat.lt_of_not_le hlt
    have hk : Py.searchLeft l l[m] < l.length := Nat.lt_trans hlt hm
    have : l[Py.searchLeft l l[m]] < l[m] := List.pairwise_iff_getElem.mp h _ _ hk hm hlt
    exact Nat.lt_irrefl _ ((lt_searchLeft_iff l l[m] hs _ hk).mpr this)

end generic

end Hdc.Spi
