import Hdc.Lemmas.GenGlue
import Hdc.Lemmas.SpiSearch
import Hdc.Model.Discrete
/-
NumPy vector steps of `to_linspace` (in-place sort of a sorted array, masked assignment, fancy indexing, `np.where`) on the
list representation.  No generated program is mentioned here.
-/
namespace Hdc.GenGlue
open Hdc Hdc.PyGlue Hdc.Spi

section
variable {β : Type} [LinearOrder β]

/-- sorting a strictly ascending array leaves it unchanged (`keys.sort()` after `np.unique`) -/
theorem npSort_of_sorted : ∀ (l : List β), l.Pairwise (· < ·) → npSort l = l
  | [], _ => rfl
  | a :: as, h => by
    have ih := npSort_of_sorted as (List.Pairwise.of_cons h)
    show insertAsc a (npSort as) = a :: as
    rw [ih]
    cases as with
    | nil => rfl
    | cons b bs =>
      have hab : a < b := (List.pairwise_cons.mp h).1 b (by simp)
      simp [insertAsc, hab]

/-- a label of `x` is found among the keys at its `searchLeft` position -/
theorem searchLeft_unique_spec (x : List β) (v : β) (hv : v ∈ x) :
    ∃ (h : Py.searchLeft (Py.unique x) v < (Py.unique x).length), (Py.unique x)[Py.searchLeft (Py.unique x) v] = v := by
  have hmem : v ∈ Py.unique x := (mem_unique v x).mpr hv
  obtain ⟨m, hm, rfl⟩ := List.getElem_of_mem hmem
  have hs := searchLeft_getElem_of_strict _ (unique_sorted x) m hm
  refine ⟨by rw [hs]; exact hm, ?_⟩
  simp only [hs]

end

theorem getItem_natCast {α : Type} (a : List α) (n : Nat) (h : n < a.length) : getItem a (n : Int) = .ok a[n] := by
  unfold getItem
  have h1 : ¬ ((n : Int) < 0) := by omega
  simp only [h1, if_false, Int.toNat_natCast, List.getElem?_eq_getElem h]

/-- fancy indexing with positions computed from a list `l`: element-wise -/
theorem gather_of {α γ : Type} (a : List α) (l : List γ) (c : γ → Int) (g : γ → α)
    (h : ∀ v ∈ l, getItem a (c v) = .ok (g v)) : gather a (l.map c) = .ok (l.map g) := by
  unfold gather
  induction l with
  | nil => rfl
  | cons v vs ih =>
    simp only [List.map_cons, List.mapM_cons, h v (by simp), ih (fun w hw => h w (by simp [hw]))]
    rfl

/-- a masked assignment whose mask is nowhere true changes nothing -/
theorem maskAssign_none {α : Type} (a : List α) (p : α → Bool) (v : α) (h : ∀ x ∈ a, p x = false) :
    maskAssign a (a.map p) v = .ok a := by
  unfold maskAssign
  rw [if_pos (by simp)]
  congr 1
  induction a with
  | nil => rfl
  | cons x xs ih =>
    simp only [List.map_cons, List.zipWith_cons_cons, h x (by simp), Bool.false_eq_true, if_false,
      ih (fun y hy => h y (by simp [hy]))]

theorem zipWithArr_self {α γ : Type} (f : α → α → γ) (l : List α) : zipWithArr f l l = .ok (l.map fun x => f x x) := by
  have := zipWithArr_id f l
  exact this
where
  zipWithArr_id {α γ : Type} (f : α → α → γ) (l : List α) : zipWithArr f l l = .ok (l.map fun x => f x x) := by
    unfold zipWithArr
    rw [if_pos rfl]
    congr 1
    induction l with
    | nil => rfl
    | cons x xs ih => simp [ih]

/-- `np.where` with an all-true mask of the right length returns the array -/
theorem npWhereS_all_true {α γ : Type} (l : List γ) (a : List α) (s : α) (h : l.length = a.length) :
    npWhereS (l.map fun _ => true) a s = .ok a := by
  unfold npWhereS
  rw [if_pos (by simp [h])]
  congr 1
  induction l generalizing a with
  | nil => cases a with
    | nil => rfl
    | cons _ _ => simp at h
  | cons x xs ih =>
    cases a with
    | nil => simp at h
    | cons y ys =>
      simp only [List.map_cons, List.zipWith_cons_cons, if_true]
      rw [ih ys (by simpa using h)]

/-- `np.arange(k)[n] = n` -/
theorem getItem_range (k n : Nat) (h : n < k) : getItem (range 0 (k : Int)) (n : Int) = .ok (n : Int) := by
  rw [range_zero_natCast, getItem_natCast _ n (by simpa using h)]
  simp

end Hdc.GenGlue
