import Hdc.Gen.Dekad
import Hdc.Lemmas.Dekad
import Hdc.Lemmas.PyDateOrd
/-
Every day 1 ..= maxOrdinal lies in exactly one dekad; consequently `_ymd2ord (_ord2ymd n) = n`
and `_ord2ymd n` is a valid date.
-/
set_option linter.unusedSimpArgs false
namespace Hdc.C11
open Hdc Hdc.Py Hdc.PyDate Hdc.Gen.Dekad

theorem startOrd_first : startOrd 36 = 1 := by decide

theorem startOrd_360000 : startOrd 360000 = maxOrdinal + 1 := by decide

/-- the dekads tile the days from 0001-01-01 on -/
theorem exists_dekad_of_ord_nat (k : Nat) :
    ∃ r : Int, 36 ≤ r ∧ startOrd r ≤ 1 + (k : Int) ∧ 1 + (k : Int) < startOrd (r + 1) := by
  induction k with
  | zero =>
    refine ⟨36, by omega, by rw [startOrd_first]; omega, ?_⟩
    have := startOrd_lt_succ 36
    rw [startOrd_first] at this
    omega
  | succ k ih =>
    obtain ⟨r, h1, h2, h3⟩ := ih
    by_cases h : 1 + ((k + 1 : Nat) : Int) < startOrd (r + 1)
    · exact ⟨r, h1, by omega, h⟩
    · refine ⟨r + 1, by omega, by omega, ?_⟩
      have := startOrd_lt_succ (r + 1)
      omega

theorem exists_dekad_of_ord {n : Int} (h1 : 1 ≤ n) (h2 : n ≤ maxOrdinal) :
    ∃ r : Int, InRange r ∧ startOrd r ≤ n ∧ n < startOrd (r + 1) := by
  obtain ⟨r, a, b, c⟩ := exists_dekad_of_ord_nat (n - 1).toNat
  have e : 1 + (((n - 1).toNat : Nat) : Int) = n := by omega
  rw [e] at b c
  refine ⟨r, ⟨a, ?_⟩, b, c⟩
  have : startOrd r < startOrd 360000 := by rw [startOrd_360000]; omega
  exact (startOrd_lt_iff r 360000).1 this

/-- every ordinal in range is the ordinal of a valid date -/
theorem exists_date_of_ord {n : Int} (h1 : 1 ≤ n) (h2 : n ≤ maxOrdinal) :
    ∃ y m d, ValidDate y m d ∧ ymd2ord y m d = n := by
  obtain ⟨r, hr, a, b⟩ := exists_dekad_of_ord h1 h2
  have hv := start_valid hr
  refine ⟨year r, month r, day r + (n - startOrd r), ?_, ?_⟩
  · obtain ⟨v1, v2, v3, v4, v5, v6⟩ := hv
    refine ⟨v1, v2, v3, v4, by omega, ?_⟩
    have := daysInMonth_bounds (year r) (month r)
    rw [startOrd_succ] at b
    unfold len at b
    rw [idx_eq] at b
    rw [day_eq] at v6 ⊢
    split at b <;> omega
  · rw [ymd2ord_add_day]
    unfold startOrd
    omega

/-- `_ymd2ord` inverts `_ord2ymd` on 1 ..= maxOrdinal, and `_ord2ymd` yields a valid date -/
theorem ymd2ord_ord2ymd {n : Int} (h1 : 1 ≤ n) (h2 : n ≤ maxOrdinal) :
    ValidDate (ord2ymd n).1 (ord2ymd n).2.1 (ord2ymd n).2.2 ∧
    ymd2ord (ord2ymd n).1 (ord2ymd n).2.1 (ord2ymd n).2.2 = n := by
  obtain ⟨y, m, d, hv, rfl⟩ := exists_date_of_ord h1 h2
  rw [ord2ymd_ymd2ord_valid hv]
  exact ⟨hv, rfl⟩

end Hdc.C11
