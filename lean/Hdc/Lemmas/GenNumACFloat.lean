import Hdc.Lemmas.GenNum
import Hdc.Lemmas.PyNpT
import Hdc.Model.Stats
import Mathlib.Algebra.Order.Field.Basic
import Mathlib.Algebra.Order.Ring.Rat
/-
Loop invariant for `Gen.NumKernels.autocorr_1d_float` against the model `Hdc.acAccum` / `Hdc.autocorr1d` over an ordered
field: the ten accumulators (the three counters are floating in the source, naturals in the model).
-/
namespace Hdc.GenNumACFloat
open Hdc Hdc.Gen.NumKernels Hdc.PyNpT
open Hdc.Ws2dGen (av)
open Hdc.Ws2d (fnl)

set_option linter.unusedSectionVars false

variable {α : Type} [Field α] [LinearOrder α] [IsStrictOrderedRing α]

/-- the model's input: `none` = a cell that `isnan` reports missing -/
def acOpt (isnan : α → Bool) (data : List α) : List (Option α) :=
  data.map fun v => if isnan v then none else some v

abbrev Tup10 (α : Type) := α × α × α × α × α × α × α × α × α × α

/-- the accumulators in the order of the loop state: `Sxy, Sx_, Sy_, nxy, Sx, Sxx, nx, Sy, Syy, ny` -/
def acTuple (S : ACSums α) : Tup10 α :=
  (S.sxy, S.sx_, S.sy_, (S.nxy : α), S.sx, S.sxx, (S.nx : α), S.sy, S.syy, (S.ny : α))

/-- the effect of one iteration on the accumulators, cells `x = data[i]`, `y = data[i+1]` -/
def acNext (isnan : α → Bool) (x y : α) (t : Tup10 α) : Tup10 α :=
  let sxy := t.1; let sx_ := t.2.1; let sy_ := t.2.2.1; let nxy := t.2.2.2.1
  let sx := t.2.2.2.2.1; let sxx := t.2.2.2.2.2.1; let nx := t.2.2.2.2.2.2.1
  let sy := t.2.2.2.2.2.2.2.1; let syy := t.2.2.2.2.2.2.2.2.1; let ny := t.2.2.2.2.2.2.2.2.2
    (if isnan x = false ∧ isnan y = false then sxy + x * y else sxy,
     if isnan x = false ∧ isnan y = false then sx_ + x else sx_,
     if isnan x = false ∧ isnan y = false then sy_ + y else sy_,
     if isnan x = false ∧ isnan y = false then nxy + 1 else nxy,
     if isnan x = false then sx + x else sx,
     if isnan x = false then sxx + x * x else sxx,
     if isnan x = false then nx + 1 else nx,
     if isnan y = false then sy + y else sy,
     if isnan y = false then syy + y * y else syy,
     if isnan y = false then ny + 1 else ny)

/-- after `p` iterations: the model, continued from cell `p` with the current accumulators, returns its final ones -/
def AcInv (isnan : α → Bool) (data : List α) (p : ℕ) (t : Tup10 α) : Prop :=
  ∃ S : ACSums α, t = acTuple S ∧
    acAccum ((acOpt isnan data).drop p) S = acAccum (acOpt isnan data) ACSums.zero

theorem AcInv.init (isnan : α → Bool) (data : List α) :
    AcInv isnan data 0 (0, 0, 0, 0, 0, 0, 0, 0, 0, 0) :=
  ⟨ACSums.zero, by simp [acTuple, ACSums.zero, nat], rfl⟩

theorem acAccum_cons2 (a b : Option α) (rest : List (Option α)) (s : ACSums α) :
    acAccum (a :: b :: rest) s = acAccum (b :: rest)
      (let s1 := match a with
        | some x => { s with sx := s.sx + x, sxx := s.sxx + x * x, nx := s.nx + 1 }
        | none => s
      let s2 := match b with
        | some y => { s1 with sy := s1.sy + y, syy := s1.syy + y * y, ny := s1.ny + 1 }
        | none => s1
      match a, b with
        | some x, some y =>
          { s2 with sx_ := s2.sx_ + x, sy_ := s2.sy_ + y, sxy := s2.sxy + x * y, nxy := s2.nxy + 1 }
        | _, _ => s2) := by
  cases a <;> cases b <;> simp only [acAccum]

theorem AcInv.step {isnan : α → Bool} {data : List α} {p : ℕ} {t t' : Tup10 α}
    (h : AcInv isnan data p t) (hp : p + 1 < data.length) {x y : α}
    (hx : x = fnl data p) (hy : y = fnl data (p + 1)) (ht : t' = acNext isnan x y t) :
    AcInv isnan data (p + 1) t' := by
  obtain ⟨S, rfl, hS⟩ := h
  have hlen : (acOpt isnan data).length = data.length := by simp [acOpt]
  have hd1 : (acOpt isnan data).drop p
      = (if isnan x then none else some x) :: (acOpt isnan data).drop (p + 1) := by
    rw [List.drop_eq_getElem_cons (by omega)]
    simp [acOpt, hx, fnl_eq_getElem data p (by omega)]
  have hd2 : (acOpt isnan data).drop (p + 1)
      = (if isnan y then none else some y) :: (acOpt isnan data).drop (p + 1 + 1) := by
    rw [List.drop_eq_getElem_cons (by omega)]
    simp [acOpt, hy, fnl_eq_getElem data (p + 1) (by omega)]
  rw [hd1, hd2, acAccum_cons2, ← hd2] at hS
  refine ⟨_, ?_, hS⟩
  rw [ht]
  cases h1 : isnan x <;> cases h2 : isnan y <;>
    simp [acNext, acTuple, h1, h2]

theorem AcInv.final {isnan : α → Bool} {data : List α} {p : ℕ} {t : Tup10 α}
    (h : AcInv isnan data p t) (hp : data.length ≤ p + 1) :
    ∃ S, t = acTuple S ∧ S = acAccum (acOpt isnan data) ACSums.zero := by
  obtain ⟨S, rfl, hS⟩ := h
  refine ⟨S, rfl, ?_⟩
  have hlen : (acOpt isnan data).length = data.length := by simp [acOpt]
  rw [← hS]
  rcases hl : (acOpt isnan data).drop p with _ | ⟨a, _ | ⟨b, r⟩⟩
  · rw [acAccum]
    simp
  · rw [acAccum]
    simp
  · have := congrArg List.length hl
    simp only [List.length_drop, List.length_cons] at this
    omega

/-- the model's final formula in terms of the floating accumulators of the source -/
theorem autocorr1d_of_sums (rsqrt : α → α) (eps : α) (l : List (Option α)) (S : ACSums α)
    (hS : S = acAccum l ACSums.zero) :
    autocorr1d rsqrt eps l =
      if eqv (S.nxy : α) (nat 0) = true then nat 0
      else
        if ((((S.nx : α) * S.sxx) - (S.sx * S.sx)) * (S.nx : α) < eps
            ∨ (((S.ny : α) * S.syy) - (S.sy * S.sy)) * (S.ny : α) < eps)
        then nat 0
        else ((((((S.nx : α) * (S.ny : α)) * S.sxy) - (((S.ny : α) * S.sx) * S.sy_))
                - (((S.nx : α) * S.sy) * S.sx_)) + (((S.nxy : α) * S.sx) * S.sy))
              * rsqrt ((((S.nx : α) * S.sxx) - (S.sx * S.sx)) * (S.nx : α))
              * rsqrt ((((S.ny : α) * S.syy) - (S.sy * S.sy)) * (S.ny : α)) := by
  subst hS
  unfold autocorr1d
  simp only [nat, Nat.cast_zero, Nat.cast_mul]
  have he : (eqv ((acAccum l ACSums.zero).nxy : α) 0 = true) ↔ (acAccum l ACSums.zero).nxy = 0 := by
    simp only [eqv, Bool.and_eq_true, Bool.not_eq_true', decide_eq_false_iff_not, not_lt]
    constructor
    · rintro ⟨h1, h2⟩
      exact_mod_cast le_antisymm h2 h1
    · intro h; rw [h]; simp
  by_cases h0 : (acAccum l ACSums.zero).nxy = 0
  · rw [if_pos h0, if_pos (he.mpr h0)]
  · rw [if_neg h0, if_neg (fun h => h0 (he.mp h))]

end Hdc.GenNumACFloat
