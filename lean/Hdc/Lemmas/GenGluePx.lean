import Hdc.PyXr
import Hdc.Model.Discrete
import Hdc.Lemmas.GenGlue
/-
Helper lemmas for the translator-tied pixel accessors (harness/py2lean_glue_px.py): the per-pixel xarray semantics of
Hdc/PyXr.lean against the hand model of `croo` (Hdc/Model/Discrete.lean).  Nothing here mentions a generated program.
-/
namespace Hdc.GenGluePx
open Hdc Hdc.PyGlue Hdc.PyXr

/-- a NaN-free pixel series -/
def liftSer (ps : List (Int × Nat)) : PxSer := ps.map fun p => (p.1, some p.2)

/-! ### `sortby("time", ascending=False)` = the model's `sortDesc` -/

/-- `Hdc.insertDesc` on series with NaN -/
def insertDescX (p : Int × PxVal) : PxSer → PxSer
  | [] => [p]
  | q :: qs => if q.1 < p.1 then p :: q :: qs else q :: insertDescX p qs

theorem insertDescX_append_of_ge (p : Int × PxVal) (M : PxSer) (h : ∀ q ∈ M, p.1 ≤ q.1) : insertDescX p M = M ++ [p] := by
  induction M with
  | nil => rfl
  | cons q qs ih =>
    have h1 : ¬ q.1 < p.1 := by have := h q (by simp); omega
    simp only [insertDescX, h1, if_false, List.cons_append]
    rw [ih (fun r hr => h r (by simp [hr]))]

theorem insertDescX_append_lt (p q : Int × PxVal) (M : PxSer) (h : q.1 < p.1) :
    insertDescX p (M ++ [q]) = insertDescX p M ++ [q] := by
  induction M with
  | nil => simp [insertDescX, h]
  | cons r rs ih =>
    simp only [List.cons_append, insertDescX]
    by_cases hr : r.1 < p.1
    · simp [hr]
    · simp [hr, ih]

theorem mem_insertAsc (p x : Int × PxVal) (L : PxSer) : x ∈ insertAscT p L ↔ x = p ∨ x ∈ L := by
  induction L with
  | nil => simp [insertAscT]
  | cons q qs ih =>
    simp only [insertAscT]
    by_cases h : p.1 ≤ q.1
    · simp [h]
    · simp only [h, if_false, List.mem_cons, ih]
      constructor
      · rintro (h1 | h1 | h1) <;> simp [h1]
      · rintro (h1 | h1 | h1) <;> simp [h1]

theorem insertAsc_sorted (p : Int × PxVal) (L : PxSer) (hs : L.Pairwise (fun a b => a.1 ≤ b.1)) :
    (insertAscT p L).Pairwise (fun a b => a.1 ≤ b.1) := by
  induction L with
  | nil => simp [insertAscT]
  | cons q qs ih =>
    have hs' := List.pairwise_cons.1 hs
    simp only [insertAscT]
    by_cases h : p.1 ≤ q.1
    · rw [if_pos h]
      refine List.pairwise_cons.2 ⟨?_, hs⟩
      intro r hr
      rcases List.mem_cons.1 hr with rfl | hr
      · exact h
      · have := hs'.1 r hr; omega
    · rw [if_neg h]
      refine List.pairwise_cons.2 ⟨?_, ih hs'.2⟩
      intro r hr
      rcases (mem_insertAsc p r qs).1 hr with rfl | hr
      · omega
      · exact hs'.1 r hr

theorem sortAsc_sorted (x : PxSer) : (sortAscT x).Pairwise (fun a b => a.1 ≤ b.1) := by
  induction x with
  | nil => simp [sortAscT]
  | cons p ps ih => exact insertAsc_sorted p _ ih

theorem reverse_insertAsc (p : Int × PxVal) (L : PxSer) (hs : L.Pairwise (fun a b => a.1 ≤ b.1)) :
    (insertAscT p L).reverse = insertDescX p L.reverse := by
  induction L with
  | nil => rfl
  | cons q qs ih =>
    have hs' := List.pairwise_cons.1 hs
    simp only [insertAscT]
    by_cases h : p.1 ≤ q.1
    · rw [if_pos h]
      simp only [List.reverse_cons]
      rw [insertDescX_append_of_ge]
      intro r hr
      rcases List.mem_append.1 hr with hr | hr
      · have := hs'.1 r (List.mem_reverse.1 hr); omega
      · have : r = q := by simpa using hr
        subst this; exact h
    · rw [if_neg h]
      simp only [List.reverse_cons]
      rw [ih hs'.2, insertDescX_append_lt _ _ _ (by omega)]

theorem reverse_sortAsc (x : PxSer) : (sortAscT x).reverse = x.foldr insertDescX [] := by
  induction x with
  | nil => rfl
  | cons p ps ih =>
    show (insertAscT p (sortAscT ps)).reverse = insertDescX p (ps.foldr insertDescX [])
    rw [reverse_insertAsc p _ (sortAsc_sorted ps), ih]

theorem insertDescX_liftSer (p : Int × Nat) (l : List (Int × Nat)) :
    insertDescX (p.1, some p.2) (liftSer l) = liftSer (insertDesc p l) := by
  induction l with
  | nil => rfl
  | cons q qs ih =>
    simp only [liftSer, List.map_cons, insertDescX, insertDesc]
    by_cases h : q.1 < p.1
    · simp [h]
    · simp only [h, if_false, List.map_cons]
      congr 1

/-- the descending sort of xarray (stable ascending order, reversed) on a NaN-free series is the model's `sortDesc`, for
    ANY keys (duplicates included: both put the later-stored of two equal keys first) -/
theorem sortbyTime_desc_liftSer (ps : List (Int × Nat)) : sortbyTime (liftSer ps) false = liftSer (sortDesc ps) := by
  simp only [sortbyTime, Bool.false_eq_true, if_false]
  rw [reverse_sortAsc]
  induction ps with
  | nil => rfl
  | cons p ps ih =>
    show insertDescX (p.1, some p.2) ((liftSer ps).foldr insertDescX []) = liftSer (insertDesc p (sortDesc ps))
    rw [ih, insertDescX_liftSer]

/-! ### `where(x == 1).cumsum(skipna=False)`, `where(~isnull, 0)` = the model's `crooCum` -/

theorem croo_cells (S : List (Int × Nat)) (acc : Option Nat) :
    (whereNotnullElse (cumsumFrom false acc (whereEq (liftSer S) 1)) 0).map (·.2)
      = ((crooCum acc (S.map (·.2))).map fun o => o.getD 0).map some := by
  induction S generalizing acc with
  | nil => rfl
  | cons p S ih =>
    simp only [liftSer, List.map_cons, whereEq, cumsumFrom, whereNotnullElse, crooCum] at ih ⊢
    rcases acc with _ | k
    · simpa using ih none
    · by_cases h : p.2 = 1
      · simpa [h] using ih (some (k + 1))
      · simpa [h] using ih none

/-! ### `argmax` = the model's `argmaxFirst` -/

theorem argmaxGo_some (l : List Nat) (i bi bv : Nat) :
    argmaxGo (l.map some) i (some (bi, bv))
      = some ((l.foldl (fun (st : Nat × Nat × Nat) v =>
          let (bi, bv, i) := st
          if v > bv then (i, v, i + 1) else (bi, bv, i + 1)) (bi, bv, i)).1,
          (l.foldl (fun (st : Nat × Nat × Nat) v =>
          let (bi, bv, i) := st
          if v > bv then (i, v, i + 1) else (bi, bv, i + 1)) (bi, bv, i)).2.1) := by
  induction l generalizing i bi bv with
  | nil => rfl
  | cons v vs ih =>
    simp only [List.map_cons, argmaxGo, List.foldl_cons]
    by_cases h : v > bv
    · simp only [h, if_true]; exact ih _ _ _
    · simp only [h, if_false]; exact ih _ _ _

theorem argmaxTime_of_cells (x : PxSer) (l : List Nat) (hl : l ≠ []) (h : x.map (·.2) = l.map some) :
    argmaxTime x = .ok (argmaxFirst l) := by
  unfold argmaxTime
  rw [h]
  cases l with
  | nil => exact absurd rfl hl
  | cons v vs => simp only [List.map_cons, argmaxGo, argmaxGo_some, argmaxFirst]

theorem crooCum_ne_nil (acc : Option Nat) (v : Nat) (vs : List Nat) :
    ((crooCum acc (v :: vs)).map fun o => o.getD 0) ≠ [] := by
  simp [crooCum]

/-- once a best cell is known the scan returns one -/
theorem argmaxGo_isSome (vs : List PxVal) (i : Nat) (b : Nat × Nat) : (argmaxGo vs i (some b)).isSome = true := by
  induction vs generalizing i b with
  | nil => rfl
  | cons v vs ih =>
    rcases v with _ | v
    · exact ih _ _
    · obtain ⟨bi, bv⟩ := b
      simp only [argmaxGo]
      split <;> exact ih _ _

/-- `argmax` succeeds on a non-empty series whose first cell is not NaN -/
theorem argmaxTime_ok_of_head (t : Int) (a : Nat) (xs : PxSer) : ∃ k, argmaxTime ((t, some a) :: xs) = .ok k := by
  unfold argmaxTime
  simp only [List.map_cons, argmaxGo]
  have h := argmaxGo_isSome (xs.map (·.2)) (0 + 1) (0, a)
  rcases hh : argmaxGo (xs.map (·.2)) (0 + 1) (some (0, a)) with _ | ⟨k, w⟩
  · rw [hh] at h; cases h
  · exact ⟨k, rfl⟩

end Hdc.GenGluePx
