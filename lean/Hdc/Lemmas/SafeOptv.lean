import Hdc.Lemmas.GenNumOptv
import Hdc.Lemmas.SafeBasic
import Hdc.Props.SafeWs2d
/-
SafeOptv  Facts for "under the contract the flag of the instrumented `ws2doptv` is false" (Hdc/Props/SafeWs2doptv.lean):
the weight vector the kernel builds (`1` on valid cells, `0` on `nodata` cells) satisfies the contract of `ws2d` as soon
as two cells are valid (for `len y ≥ 3`: Hdc/Lemmas/SmoothBasic.lean states this for `len y ≥ 4`, the range of C01), so
every call `ws2d(y, λ, w)` with `λ > 0` of the kernel has its flag unset.
-/
namespace Hdc.SafeOptv
open Hdc Hdc.Gen.NumKernels Hdc.GenNum Hdc.SafeL
open Hdc.Ws2dGen (av)
open Hdc.Ws2d (fnl)

set_option linter.unusedSectionVars false

variable {α : Type} [Field α] [LinearOrder α] [IsStrictOrderedRing α]

/-- the contract of `ws2d` for the raw data with the validity weights -/
theorem contract_raw (miss : α → Bool) (y : List α) (lam : α) (hn : 3 ≤ y.length) (hlam : 0 < lam)
    (hv : 2 ≤ countValid miss y) : SafeWs2d.Contract y (weightsOf miss y) lam where
  len := hn
  wlen := by simp
  lam_pos := hlam
  w_nonneg := Smooth.weightsOf_nonneg miss y
  two_pos := by
    obtain ⟨i, j, hij, hj, h1, h2⟩ := Smooth.exists_two_valid miss y hv
    refine ⟨i, j, hij, by simpa using hj, ?_, ?_⟩
    · rw [Smooth.fn_weightsOf miss y i (by omega), h1]; simp
    · rw [Smooth.fn_weightsOf miss y j hj, h2]; simp

/-- every call `ws2d(y, λ, w)` of the V-curve kernel with a positive `λ` is safe -/
theorem ws2d_call_ok (miss : α → Bool) (y : List α) (lam : α) (hn : 3 ≤ y.length) (hlam : 0 < lam)
    (hv : 2 ≤ countValid miss y) :
    (Gen.Safe.ws2d y.toArray lam (weightsOf miss y).toArray).2 = false :=
  SafeWs2d.safe_ws2d_ok y (weightsOf miss y) lam (contract_raw miss y lam hn hlam hv)

/-- the curve the instrumented smoother returns has the length of the data -/
theorem ws2d_call_size (y w : Array α) (lam : α) : (Gen.Safe.ws2d y lam w).1.size = y.size := by
  rw [SafeWs2d.safe_ws2d_fst, C01gen.gen_ws2d_size_array]

end Hdc.SafeOptv
