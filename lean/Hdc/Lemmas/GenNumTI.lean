import Hdc.Lemmas.GenNum
import Hdc.Lemmas.StatsTI
import Hdc.Props.C01gen
/-
Loop invariants for the refinement proof "generated translation of tinterpolate.py = hand model
`Hdc.tinterp`" (Hdc/Props/GenNum.lean):

  * `Scat` : the scatter loop (`temp[ii] = x[jj]` at the marks of the template) against
             `scatterMarks`;
  * `Runs` : the run-length loop (`out[kk] = round(v / jj)` at every change of label) against
             `runMeans`.

Nothing in this file mentions the generated kernel.
-/
namespace Hdc.GenNum
open Hdc Hdc.Gen.NumKernels
open Hdc.Ws2dGen (av Upd)
open Hdc.Ws2d (fnl fnl_of_lt fnl_of_le)
open Hdc.GenKernels (gv lv gv_toArray)
open Hdc.Stats (marksBefore marksBefore_succ marksBefore_lt_of_mark scatterMarks_getElem?
  scatterMarks_length setLast_eq setLast_length)

set_option linter.unusedSectionVars false

variable {α : Type} [Field α] [LinearOrder α] [IsStrictOrderedRing α]

/-! ### arrays and lists read as functions -/

omit [LinearOrder α] [IsStrictOrderedRing α] in
theorem av_eq_fnl_toList (z : Array α) (j : ℕ) : av z j = fnl z.toList j := by
  simp [av, fnl]

omit [LinearOrder α] [IsStrictOrderedRing α] in
theorem av_list (l : List α) (j : ℕ) : av l.toArray j = fnl l j := by
  simp [av, fnl]

omit [LinearOrder α] [IsStrictOrderedRing α] in
theorem eq_toArray_of_av (z : Array α) (l : List α) (hs : z.size = l.length)
    (h : ∀ j < l.length, av z j = fnl l j) : z = l.toArray := by
  have := Hdc.Ws2dGen.toList_eq_of_av z l hs h
  rw [← this]

omit [LinearOrder α] [IsStrictOrderedRing α] in
/-- `x[-1]` (0 on the empty array, where Python raises) -/
theorem rd_last (x : List α) : rd x.toArray (-1) = x.getLastD (nat 0) := by
  rcases List.eq_nil_or_concat x with rfl | ⟨l, a, rfl⟩
  · simp [rd, ix, nat]
  · rw [rd_of_neg _ (-1) l.length (by omega) (by simp)]
    simp [av]

omit [LinearOrder α] [IsStrictOrderedRing α] in
theorem fnl_set (l : List α) (k : ℕ) (v : α) (j : ℕ) (hk : k < l.length) :
    fnl (l.set k v) j = if j = k then v else fnl l j := by
  unfold fnl
  rw [List.getD_eq_getElem?_getD, List.getD_eq_getElem?_getD, List.getElem?_set]
  by_cases h : j = k
  · subst h; simp [hk]
  · rw [if_neg (fun e => h e.symm), if_neg h]

/-! ### the scatter loop -/

/-- the nonzero cells of the template (the marks) -/
def nmarks (t : List α) : ℕ := t.countP (fun v => decide (v ≠ 0))

theorem fnl_scatterMarks (t x : List α) (j : ℕ) (hj : j < t.length) :
    fnl (scatterMarks t x) j =
      if fnl t j = 0 then 0 else x.getD (marksBefore t j) (fnl t j) := by
  unfold fnl
  rw [List.getD_eq_getElem?_getD, scatterMarks_getElem?]
  simp [hj]

/-- after `p` passes: `ii = p`, `jj` observations consumed, cells `< p` scattered, cells `≥ p`
    still the template -/
structure Scat (t x : List α) (p : ℕ) (temp : Array α) (ii jj : ℤ) : Prop where
  hii : ii = (p : ℤ)
  hjj : jj = (marksBefore t p : ℤ)
  size : temp.size = t.length
  done : ∀ j < p, av temp j = fnl (scatterMarks t x) j
  rest : ∀ j, p ≤ j → av temp j = fnl t j

theorem Scat.init (t x : List α) : Scat t x 0 t.toArray 0 0 :=
  ⟨rfl, by simp [Stats.marksBefore_zero], by simp, fun j hj => by omega, fun j _ => av_list t j⟩

/-- a mark: `temp[ii] = x[jj]; jj += 1; ii += 1` -/
theorem Scat.step_mark {t x : List α} {p : ℕ} {temp : Array α} {ii jj cur : ℤ}
    (h : Scat t x p temp ii jj) (hp : p < t.length) (hm : nmarks t ≤ x.length)
    (hne : (!eqv (rd temp cur) (nat 0)) = true) (hcur : cur = (p : ℤ)) :
    Scat t x (p + 1) (wr temp ii (rd x.toArray jj)) (ii + 1) (jj + 1) := by
  have hne' : fnl t p ≠ 0 := by
    rw [rd_of_eq temp cur p hcur, h.rest p (le_refl _)] at hne
    intro h0
    rw [h0] at hne
    simp [(Stats.eqv_iff (0 : α) 0).2 rfl, nat] at hne
  have hne'' : t[p] ≠ 0 := by rwa [fnl_of_lt t p hp] at hne'
  have hlt := marksBefore_lt_of_mark t p hp hne''
  have hu := wr_upd (a0 := temp) (v := rd x.toArray jj) rfl p h.hii (by rw [h.size]; exact hp)
  refine ⟨by rw [h.hii]; push_cast; ring, ?_, hu.size.trans h.size, fun j hj => ?_, fun j hj => ?_⟩
  · rw [h.hjj, marksBefore_succ t p hp, if_neg hne'']; push_cast; ring
  · by_cases hjp : j = p
    · subst hjp
      rw [hu.self, fnl_scatterMarks t x j hp, if_neg hne', rd_of_eq _ jj _ h.hjj, av_list]
      unfold fnl nmarks at *
      rw [List.getD_eq_getElem?_getD, List.getD_eq_getElem?_getD,
        List.getElem?_eq_getElem (by omega)]
      rfl
    · rw [hu.other j hjp]; exact h.done j (by omega)
  · rw [hu.other j (by omega)]; exact h.rest j (by omega)

/-- no mark: `ii += 1` -/
theorem Scat.step_zero {t x : List α} {p : ℕ} {temp : Array α} {ii jj cur : ℤ}
    (h : Scat t x p temp ii jj) (hp : p < t.length)
    (hz : ¬ (!eqv (rd temp cur) (nat 0)) = true) (hcur : cur = (p : ℤ)) :
    Scat t x (p + 1) temp (ii + 1) jj := by
  have hz' : fnl t p = 0 := by
    rw [rd_of_eq temp cur p hcur, h.rest p (le_refl _)] at hz
    simpa [Stats.eqv_iff, nat] using hz
  have hz'' : t[p] = 0 := by rwa [fnl_of_lt t p hp] at hz'
  refine ⟨by rw [h.hii]; push_cast; ring, ?_, h.size, fun j hj => ?_, fun j hj => h.rest j (by omega)⟩
  · rw [h.hjj, marksBefore_succ t p hp, if_pos hz'']; simp
  · by_cases hjp : j = p
    · subst hjp
      rw [h.rest j (le_refl _), fnl_scatterMarks t x j hp, if_pos hz', hz']
    · exact h.done j (by omega)

/-- after the loop and `temp[-1] = x[-1]`: the vector the model hands to the smoother -/
theorem Scat.final {t x : List α} {p : ℕ} {temp : Array α} {ii jj : ℤ}
    (h : Scat t x p temp ii jj) (hp : p = t.length) (h1 : 1 ≤ t.length) :
    wr temp (-1) (rd x.toArray (-1)) = (setLast (scatterMarks t x) (x.getLastD (nat 0))).toArray := by
  have hu := wr_upd_neg (a0 := temp) (i := -1) (v := rd x.toArray (-1)) rfl (t.length - 1) (by omega)
    (by rw [h.size]; omega)
  apply eq_toArray_of_av
  · rw [hu.size, h.size, setLast_length, scatterMarks_length]
  · intro j hj
    rw [setLast_length, scatterMarks_length] at hj
    rw [setLast_eq, scatterMarks_length, fnl_set _ _ _ _ (by rw [scatterMarks_length]; omega)]
    by_cases hjl : j = t.length - 1
    · rw [if_pos hjl, hjl, hu.self, rd_last]
    · rw [if_neg hjl, hu.other j hjl]
      exact h.done j (by omega)

/-! ### the run-length loop -/

/-- the value written for a run: `round(sum / days)` -/
def band (rnd : α → α) (d : α × ℕ) : α := rnd (d.1 / (d.2 : α))

omit [LinearOrder α] [IsStrictOrderedRing α] in
/-- `out[kk] = g d` appends one run to the written prefix (nothing happens when the buffer is full:
    Python raises, the translation ignores the write) -/
theorem write_run {g : α × ℕ → α} {out out0 : Array α} {done : List (α × ℕ)} {kk : ℤ} (d : α × ℕ)
    (hs : out.size = out0.size)
    (hd : ∀ j < out0.size, av out j = ((done.map g)[j]?).getD (av out0 j))
    (hk : kk = (done.length : ℤ)) :
    (wr out kk (g d)).size = out0.size ∧
      ∀ j < out0.size, av (wr out kk (g d)) j = (((done ++ [d]).map g)[j]?).getD (av out0 j) := by
  by_cases hlt : done.length < out.size
  · have hu := wr_upd (a0 := out) (v := g d) rfl done.length hk hlt
    refine ⟨hu.size.trans hs, fun j hj => ?_⟩
    by_cases hjk : j = done.length
    · subst hjk; rw [hu.self]; simp
    · rw [hu.other j hjk, hd j hj]
      by_cases hjl : j < done.length
      · simp [List.getElem?_append_left, hjl]
      · have : done.length + 1 ≤ j := by omega
        simp [List.getElem?_eq_none, this, (by omega : done.length ≤ j)]
  · rw [wr_out out kk _ (by omega)]
    refine ⟨hs, fun j hj => ?_⟩
    rw [hd j hj]
    have hjl : j < done.length := by omega
    simp [List.getElem?_append_left, hjl]

/-- after `p` passes (labels `1 … p` consumed): `done` runs written, the current run has label
    `labels[p]`, sum `v` and `jj` days; the model, continued from here, returns its result -/
def Runs (labels : List Int) (zl : List α) (g : α × ℕ → α) (out0 : Array α) (p : ℕ)
    (out : Array α) (ii jj kk : ℤ) (v : α) : Prop :=
  ∃ (done : List (α × ℕ)) (k : ℕ), ii = (p : ℤ) + 1 ∧ jj = (k : ℤ) ∧ kk = (done.length : ℤ) ∧
    out.size = out0.size ∧
    (∀ j < out0.size, av out j = ((done.map g)[j]?).getD (av out0 j)) ∧
    done ++ runMeans ((labels.zip zl).drop (p + 1)) (some (lv labels p, v, k))
      = runMeans (labels.zip zl) none

omit [LinearOrder α] [IsStrictOrderedRing α] in
theorem Runs.hii {labels : List Int} {zl : List α} {g : α × ℕ → α} {out0 out : Array α}
    {p : ℕ} {ii jj kk : ℤ} {v : α} (h : Runs labels zl g out0 p out ii jj kk v) :
    ii = (p : ℤ) + 1 := by
  obtain ⟨_, _, h, _⟩ := h; exact h

omit [IsStrictOrderedRing α] in
theorem Runs.init (labels : List Int) (zl : List α) (g : α × ℕ → α) (out0 : Array α)
    (hl : 1 ≤ labels.length) (hz : 1 ≤ zl.length) :
    Runs labels zl g out0 0 out0 1 1 0 (fnl zl 0) := by
  refine ⟨[], 1, by simp, by simp, by simp, rfl, fun j hj => by simp, ?_⟩
  match labels, zl, hl, hz with
  | l :: ls, a :: zs, _, _ => simp [runMeans, lv, fnl]

omit [IsStrictOrderedRing α] in
theorem drop_zip_cons (labels : List Int) (zl : List α) (q : ℕ) (hq : q < labels.length)
    (hz : labels.length ≤ zl.length) :
    (labels.zip zl).drop q = (lv labels q, fnl zl q) :: (labels.zip zl).drop (q + 1) := by
  have hlen : q < (labels.zip zl).length := by rw [List.length_zip]; omega
  rw [List.drop_eq_getElem_cons hlen, List.getElem_zip]
  congr 2
  · simp [lv, hq]
  · rw [fnl_of_lt zl q (by omega)]

omit [IsStrictOrderedRing α] in
/-- same label: `v += z[ii]; jj += 1; ii += 1` -/
theorem Runs.step_same {labels : List Int} {zl : List α} {g : α × ℕ → α} {out0 out : Array α}
    {p : ℕ} {ii jj kk : ℤ} {v : α} (h : Runs labels zl g out0 p out ii jj kk v)
    (hp : p + 1 < labels.length) (hz : labels.length ≤ zl.length)
    (heq : lv labels (p + 1) = lv labels p) :
    Runs labels zl g out0 (p + 1) out (ii + 1) (jj + 1) kk (v + fnl zl (p + 1)) := by
  obtain ⟨done, k, hii, hjj, hkk, hs, hd, hm⟩ := h
  refine ⟨done, k + 1, by rw [hii]; push_cast; ring, by rw [hjj]; push_cast; ring, hkk, hs, hd, ?_⟩
  rw [← hm, drop_zip_cons labels zl (p + 1) hp hz, runMeans, if_pos heq, heq]

/-- new label: `out[kk] = round(v / jj); kk += 1; jj = 1; v = z[ii]; ii += 1` -/
theorem Runs.step_new {labels : List Int} {zl : List α} {rnd : α → α} {out0 out : Array α}
    {p : ℕ} {ii jj kk : ℤ} {v : α} (h : Runs labels zl (band rnd) out0 p out ii jj kk v)
    (hp : p + 1 < labels.length) (hz : labels.length ≤ zl.length)
    (hne : lv labels (p + 1) ≠ lv labels p) :
    Runs labels zl (band rnd) out0 (p + 1) (wr out kk (rnd (v / ((jj : ℤ) : α)))) (ii + 1) 1
      (kk + 1) (fnl zl (p + 1)) := by
  obtain ⟨done, k, hii, hjj, hkk, hs, hd, hm⟩ := h
  have hw := write_run (g := band rnd) (v, k) hs hd hkk
  have hv : rnd (v / ((jj : ℤ) : α)) = band rnd (v, k) := by
    rw [hjj, Int.cast_natCast]; rfl
  rw [hv]
  refine ⟨done ++ [(v, k)], 1, by rw [hii]; push_cast; ring, by simp,
    by rw [hkk]; simp, hw.1, hw.2, ?_⟩
  rw [← hm, drop_zip_cons labels zl (p + 1) hp hz, runMeans, if_neg hne, List.append_assoc]
  rfl

/-- after the loop: `out[kk] = round(v / jj)` writes the last run -/
theorem Runs.final {labels : List Int} {zl : List α} {rnd : α → α} {out0 out : Array α}
    {p : ℕ} {ii jj kk : ℤ} {v : α} (h : Runs labels zl (band rnd) out0 p out ii jj kk v)
    (hp : p + 1 = labels.length) (hz : labels.length ≤ zl.length) :
    (wr out kk (rnd (v / ((jj : ℤ) : α)))).size = out0.size ∧
    ∀ j < out0.size, av (wr out kk (rnd (v / ((jj : ℤ) : α)))) j =
      (((runMeans (labels.zip zl) none).map (band rnd))[j]?).getD (av out0 j) := by
  obtain ⟨done, k, hii, hjj, hkk, hs, hd, hm⟩ := h
  have hw := write_run (g := band rnd) (v, k) hs hd hkk
  have hv : rnd (v / ((jj : ℤ) : α)) = band rnd (v, k) := by
    rw [hjj, Int.cast_natCast]; rfl
  rw [hv, ← hm]
  have : (labels.zip zl).drop (p + 1) = [] := by
    apply List.drop_eq_nil_of_le
    rw [List.length_zip]; omega
  rw [this, runMeans]
  exact hw

omit [LinearOrder α] [IsStrictOrderedRing α] in
/-- the buffer, as a list: the runs, then (if it is longer) its old content -/
theorem toList_of_spec {g : α × ℕ → α} {out out0 : Array α} {L : List (α × ℕ)}
    (hs : out.size = out0.size)
    (h : ∀ j < out0.size, av out j = ((L.map g)[j]?).getD (av out0 j)) :
    out.toList = (L.map g ++ out0.toList.drop L.length).take out0.size := by
  apply List.ext_getElem
  · simp only [Array.length_toList, List.length_take, List.length_append, List.length_map,
      List.length_drop]
    omega
  · intro j h1 h2
    have hj : j < out0.size := by simpa [hs] using h1
    have := h j hj
    rw [av_eq_fnl_toList, fnl_of_lt _ _ h1] at this
    rw [this, List.getElem_take]
    by_cases hjl : j < L.length
    · rw [List.getElem_append_left (by simpa using hjl)]
      simp [hjl]
    · rw [List.getElem_append_right (by simpa using hjl)]
      simp only [List.length_map, List.getElem_drop]
      rw [List.getElem?_eq_none (by simpa using hjl), Option.getD_none, av_eq_fnl_toList,
        fnl_of_lt _ _ (by simpa using hj)]
      congr 1
      omega

/-- the number of values the model returns: the number of maximal runs of equal labels -/
theorem tinterp_length (lam : α) (x t : List α) (labels : List Int)
    (hlen : t.length = labels.length) :
    (Hdc.tinterp lam x t labels).length = (labels.splitBy (· == ·)).length := by
  unfold tinterp
  simp only []
  rw [Stats.runMeans_spanSums _ _ (by rw [Stats.tinterp_z_length, hlen]), Stats.spanSums_length,
    List.length_map]

end Hdc.GenNum
