import Hdc.Model.Effects
/-
C12, part B: the parallel row loop (`numba.prange`).

Store-level semantics of loop iterations as lists of atomic actions, conformance of an iteration to an
access summary (`Hdc.Effects.Summary`), the decidable predicate `RowLocal`, and the generic theorems
  RowLocal s → iterations conforming to s touch disjoint locations (B1)
  RowLocal s → every interleaving of conforming iterations ends in the state of the sequential loop (B2).
No Mathlib.
-/
namespace Hdc.Conc
open Hdc.Effects

/-- a cell of an array: name and index tuple -/
abbrev Loc := String × List Nat

/-- One atomic action of an iteration: it reads the cells `reads`, and writes to the cells `writes`
    values that are a function of the values read and of the iteration's private state (locals,
    loop counters of inner loops, ...), which it may also change. -/
structure Action (V P : Type) where
  reads : List Loc
  writes : List Loc
  /-- values read (in the order of `reads`), private state ↦ values written (in the order of
      `writes`; missing values = cell not written), new private state -/
  compute : List V → P → List V × P

/-- global state: the store and the private state of every iteration -/
structure PState (V P : Type) where
  store : Loc → V
  priv : Nat → P

variable {V P : Type}

/-- the writes of one action, first to last -/
def writeMany (σ : Loc → V) : List (Loc × V) → Loc → V
  | [] => σ
  | (k, v) :: ws => writeMany (fun l => if l = k then v else σ l) ws

/-- an event `(r, a)`: iteration `r` performs its action `a` -/
def execEv (s : PState V P) (e : Nat × Action V P) : PState V P :=
  let out := e.2.compute (e.2.reads.map s.store) (s.priv e.1)
  { store := writeMany s.store (e.2.writes.zip out.1),
    priv := fun j => if j = e.1 then out.2 else s.priv j }

def exec (s : PState V P) (evs : List (Nat × Action V P)) : PState V P := evs.foldl execEv s

theorem exec_append (s : PState V P) (a b : List (Nat × Action V P)) :
    exec s (a ++ b) = exec (exec s a) b := by simp [exec, List.foldl_append]

@[simp] theorem exec_nil (s : PState V P) : exec s [] = s := rfl
@[simp] theorem exec_cons (s : PState V P) (e : Nat × Action V P) (t : List (Nat × Action V P)) :
    exec s (e :: t) = exec (execEv s e) t := rfl

/-! ### write lists -/

/-- the value the list finally leaves in cell `l`, if it writes there -/
def lastWrite : List (Loc × V) → Loc → Option V
  | [], _ => none
  | (k, v) :: ws, l =>
    match lastWrite ws l with
    | some v' => some v'
    | none => if l = k then some v else none

theorem writeMany_eq (ws : List (Loc × V)) :
    ∀ (σ : Loc → V) (l : Loc), writeMany σ ws l = (lastWrite ws l).getD (σ l) := by
  induction ws with
  | nil => intro σ l; rfl
  | cons kv ws ih =>
    intro σ l
    obtain ⟨k, v⟩ := kv
    simp only [writeMany, lastWrite, ih]
    cases h : lastWrite ws l with
    | some v' => simp
    | none => by_cases hl : l = k <;> simp [hl]

theorem lastWrite_none (ws : List (Loc × V)) (l : Loc) (h : l ∉ ws.map (·.1)) :
    lastWrite ws l = none := by
  induction ws with
  | nil => rfl
  | cons kv ws ih =>
    obtain ⟨k, v⟩ := kv
    simp only [List.map_cons, List.mem_cons, not_or] at h
    simp [lastWrite, ih h.2, h.1]

theorem writeMany_not_mem (σ : Loc → V) (ws : List (Loc × V)) (l : Loc) (h : l ∉ ws.map (·.1)) :
    writeMany σ ws l = σ l := by
  rw [writeMany_eq, lastWrite_none ws l h]; rfl

theorem mem_of_mem_zip_keys (ks : List Loc) (vs : List V) (l : Loc)
    (h : l ∈ (ks.zip vs).map (·.1)) : l ∈ ks := by
  obtain ⟨⟨k, v⟩, hm, rfl⟩ := List.mem_map.mp h
  exact (List.of_mem_zip hm).1

/-! ### independent events commute -/

/-- the events belong to different iterations and neither writes what the other reads or writes -/
def Indep (e e' : Nat × Action V P) : Prop :=
  e.1 ≠ e'.1 ∧
  (∀ l ∈ e.2.writes, l ∉ e'.2.reads ∧ l ∉ e'.2.writes) ∧
  (∀ l ∈ e'.2.writes, l ∉ e.2.reads ∧ l ∉ e.2.writes)

theorem Indep.symm {e e' : Nat × Action V P} (h : Indep e e') : Indep e' e :=
  ⟨fun x => h.1 x.symm, h.2.2, h.2.1⟩

theorem reads_unchanged (s : PState V P) (e e' : Nat × Action V P)
    (h : ∀ l ∈ e.2.writes, l ∉ e'.2.reads) :
    e'.2.reads.map (execEv s e).store = e'.2.reads.map s.store := by
  apply List.map_congr_left
  intro l hl
  simp only [execEv]
  apply writeMany_not_mem
  intro hm
  exact h l (mem_of_mem_zip_keys _ _ _ hm) hl

theorem execEv_congr (s s' : PState V P) (e : Nat × Action V P)
    (hr : e.2.reads.map s'.store = e.2.reads.map s.store) (hp : s'.priv e.1 = s.priv e.1) :
    execEv s' e =
      { store := writeMany s'.store (e.2.writes.zip (e.2.compute (e.2.reads.map s.store) (s.priv e.1)).1),
        priv := fun j => if j = e.1 then (e.2.compute (e.2.reads.map s.store) (s.priv e.1)).2
          else s'.priv j } := by
  simp only [execEv, hr, hp]

theorem execEv_comm (s : PState V P) (e e' : Nat × Action V P) (h : Indep e e') :
    execEv (execEv s e) e' = execEv (execEv s e') e := by
  obtain ⟨hne, h1, h2⟩ := h
  have hne' : e'.1 ≠ e.1 := fun x => hne x.symm
  have hr1 := reads_unchanged s e e' (fun l hl => (h1 l hl).1)
  have hr2 := reads_unchanged s e' e (fun l hl => (h2 l hl).1)
  have hp1 : (execEv s e).priv e'.1 = s.priv e'.1 := by
    simp [execEv, hne']
  have hp2 : (execEv s e').priv e.1 = s.priv e.1 := by
    simp [execEv, hne]
  rw [execEv_congr s (execEv s e) e' hr1 hp1, execEv_congr s (execEv s e') e hr2 hp2]
  congr 1
  · funext l
    simp only [execEv, writeMany_eq]
    by_cases hl : l ∈ e.2.writes
    · have hn : l ∉ (e'.2.writes.zip (e'.2.compute (e'.2.reads.map s.store) (s.priv e'.1)).1).map (·.1) :=
        fun hm => (h1 l hl).2 (mem_of_mem_zip_keys _ _ _ hm)
      rw [lastWrite_none _ l hn]; rfl
    · have hn : l ∉ (e.2.writes.zip (e.2.compute (e.2.reads.map s.store) (s.priv e.1)).1).map (·.1) :=
        fun hm => hl (mem_of_mem_zip_keys _ _ _ hm)
      rw [lastWrite_none _ l hn]; rfl
  · funext j
    simp only [execEv]
    by_cases hj1 : j = e.1
    · have hj2 : j ≠ e'.1 := fun x => hne (hj1.symm.trans x)
      simp [hj1, hne]
    · by_cases hj2 : j = e'.1
      · simp [hj2, hne']
      · simp [hj1, hj2]

/-- an event that is independent of every event of a block can be moved behind the block -/
theorem exec_move_behind (e : Nat × Action V P) (F : List (Nat × Action V P))
    (h : ∀ e' ∈ F, Indep e e') : ∀ s : PState V P, exec s (e :: F) = exec s (F ++ [e]) := by
  induction F with
  | nil => intro s; rfl
  | cons f F ih =>
    intro s
    have hf := h f (List.mem_cons_self)
    have ih' := ih (fun e' he' => h e' (List.mem_cons_of_mem _ he')) (execEv s f)
    simp only [exec_cons, List.cons_append] at ih' ⊢
    rw [execEv_comm s e f hf, ih']

/-! ### sorting an interleaving by iteration -/

/-- the events of iteration `r`, in their order -/
def evsOf (r : Nat) (l : List (Nat × Action V P)) : List (Nat × Action V P) :=
  l.filter fun e => e.1 = r
def evsNot (r : Nat) (l : List (Nat × Action V P)) : List (Nat × Action V P) :=
  l.filter fun e => e.1 ≠ r

/-- events of different iterations are independent -/
def PairIndep (l : List (Nat × Action V P)) : Prop :=
  ∀ e ∈ l, ∀ e' ∈ l, e.1 ≠ e'.1 → Indep e e'

theorem PairIndep.tail {e : Nat × Action V P} {l : List (Nat × Action V P)}
    (h : PairIndep (e :: l)) : PairIndep l :=
  fun a ha b hb => h a (List.mem_cons_of_mem _ ha) b (List.mem_cons_of_mem _ hb)

theorem PairIndep.sub {l l' : List (Nat × Action V P)} (h : PairIndep l)
    (hs : ∀ e ∈ l', e ∈ l) : PairIndep l' :=
  fun a ha b hb => h a (hs a ha) b (hs b hb)

/-- pull the events of one iteration to the front -/
theorem exec_pull_front (r : Nat) (l : List (Nat × Action V P)) (h : PairIndep l) :
    ∀ s : PState V P, exec s l = exec s (evsOf r l ++ evsNot r l) := by
  induction l with
  | nil => intro s; rfl
  | cons e t ih =>
    intro s
    have iht := ih h.tail
    by_cases he : e.1 = r
    · have h1 : evsOf r (e :: t) = e :: evsOf r t := by simp [evsOf, he]
      have h2 : evsNot r (e :: t) = evsNot r t := by simp [evsNot, he]
      rw [h1, h2, List.cons_append, exec_cons, exec_cons, iht]
    · have h1 : evsOf r (e :: t) = evsOf r t := by simp [evsOf, he]
      have h2 : evsNot r (e :: t) = e :: evsNot r t := by simp [evsNot, he]
      rw [h1, h2, exec_cons, iht]
      have hmove := exec_move_behind e (evsOf r t) (by
        intro e' he'
        have hm := List.mem_filter.mp he'
        have : e'.1 = r := by simpa using hm.2
        exact h e List.mem_cons_self e' (List.mem_cons_of_mem _ hm.1) (by rw [this]; exact he)) s
      rw [exec_cons] at hmove
      rw [exec_append, hmove, ← exec_append, List.append_assoc]
      rfl

theorem flatMap_congr' {α β : Type} (l : List α) (f g : α → List β) (h : ∀ x ∈ l, f x = g x) :
    l.flatMap f = l.flatMap g := by
  induction l with
  | nil => rfl
  | cons a t ih =>
    rw [List.flatMap_cons, List.flatMap_cons, h a List.mem_cons_self,
      ih (fun x hx => h x (List.mem_cons_of_mem _ hx))]

/-- the events grouped by iteration, iterations in the order `rs` -/
def grouped (rs : List Nat) (l : List (Nat × Action V P)) : List (Nat × Action V P) :=
  rs.flatMap fun r => evsOf r l

theorem evsOf_evsNot (r r0 : Nat) (l : List (Nat × Action V P)) (h : r ≠ r0) :
    evsOf r (evsNot r0 l) = evsOf r l := by
  simp only [evsOf, evsNot, List.filter_filter]
  apply List.filter_congr
  intro e _
  by_cases he : e.1 = r
  · simp [he, h]
  · simp [he]

theorem exec_grouped (rs : List Nat) (hnd : rs.Nodup) :
    ∀ (l : List (Nat × Action V P)), PairIndep l → (∀ e ∈ l, e.1 ∈ rs) →
      ∀ s : PState V P, exec s l = exec s (grouped rs l) := by
  induction rs with
  | nil =>
    intro l _ hmem s
    cases l with
    | nil => rfl
    | cons e t => exact absurd (hmem e List.mem_cons_self) (by simp)
  | cons r0 rs ih =>
    intro l hind hmem s
    have hnd' := List.nodup_cons.mp hnd
    rw [exec_pull_front r0 l hind s, exec_append]
    have hsub : ∀ e ∈ evsNot r0 l, e ∈ l := fun e he => (List.mem_filter.mp he).1
    have hmem' : ∀ e ∈ evsNot r0 l, e.1 ∈ rs := by
      intro e he
      have hm := List.mem_filter.mp he
      have hne : e.1 ≠ r0 := by simpa using hm.2
      rcases List.mem_cons.mp (hmem e hm.1) with h | h
      · exact absurd h hne
      · exact h
    rw [ih hnd'.2 (evsNot r0 l) (hind.sub hsub) hmem']
    have hg : grouped rs (evsNot r0 l) = grouped rs l := by
      unfold grouped
      apply flatMap_congr'
      intro r hr
      exact evsOf_evsNot r r0 l (fun h => hnd'.1 (h ▸ hr))
    rw [hg, ← exec_append]
    rfl

/-! ### iterations, interleavings, the sequential loop -/

/-- the events of the sequential loop `for r in range(nr)` -/
def seqEvents (iters : Nat → List (Action V P)) (nr : Nat) : List (Nat × Action V P) :=
  (List.range nr).flatMap fun r => (iters r).map fun a => (r, a)

/-- `evs` is a merge of the action lists of the iterations `0 … nr-1` that keeps each iteration's
    own order (any number of threads, any assignment of rows to threads, any timing) -/
def IsInterleaving (iters : Nat → List (Action V P)) (nr : Nat) (evs : List (Nat × Action V P)) : Prop :=
  (∀ e ∈ evs, e.1 < nr) ∧ ∀ r, r < nr → evsOf r evs = (iters r).map fun a => (r, a)

theorem evsOf_map_same (r : Nat) (acts : List (Action V P)) :
    evsOf r (acts.map fun a => (r, a)) = acts.map fun a => (r, a) := by
  induction acts with
  | nil => rfl
  | cons a t ih => unfold evsOf at ih ⊢; simp [ih]

theorem evsOf_map_other (r r' : Nat) (h : r' ≠ r) (acts : List (Action V P)) :
    evsOf r (acts.map fun a => (r', a)) = [] := by
  simp [evsOf, List.filter_map, Function.comp_def, h]

theorem seqEvents_isInterleaving (iters : Nat → List (Action V P)) (nr : Nat) :
    IsInterleaving iters nr (seqEvents iters nr) := by
  constructor
  · intro e he
    simp only [seqEvents, List.mem_flatMap, List.mem_range, List.mem_map] at he
    obtain ⟨r, hr, a, _, rfl⟩ := he
    exact hr
  · intro r hr
    unfold seqEvents
    induction nr with
    | zero => omega
    | succ n ih =>
      rw [List.range_succ, List.flatMap_append]
      simp only [List.flatMap_cons, List.flatMap_nil, List.append_nil]
      have happ : ∀ a b : List (Nat × Action V P), evsOf r (a ++ b) = evsOf r a ++ evsOf r b := by
        intro a b; simp [evsOf]
      rw [happ]
      by_cases hrn : r = n
      · subst hrn
        rw [evsOf_map_same]
        have : evsOf r ((List.range r).flatMap fun r' => (iters r').map fun a => (r', a)) = [] := by
          simp only [evsOf, List.filter_eq_nil_iff, List.mem_flatMap, List.mem_range, List.mem_map]
          rintro e ⟨r', hr', a, _, rfl⟩
          simp; omega
        rw [this]; rfl
      · rw [evsOf_map_other r n (fun h => hrn h.symm), List.append_nil]
        exact ih (by omega)

theorem grouped_of_interleaving (iters : Nat → List (Action V P)) (nr : Nat)
    (evs : List (Nat × Action V P)) (h : IsInterleaving iters nr evs) :
    grouped (List.range nr) evs = seqEvents iters nr := by
  unfold grouped seqEvents
  apply flatMap_congr'
  intro r hr
  exact h.2 r (List.mem_range.mp hr)

/-- Independence of the iterations at the level of locations: an iteration writes nothing that
    another iteration reads or writes. -/
def ItersIndep (iters : Nat → List (Action V P)) (nr : Nat) : Prop :=
  ∀ r r', r < nr → r' < nr → r ≠ r' → ∀ a ∈ iters r, ∀ a' ∈ iters r',
    ∀ l ∈ a.writes, l ∉ a'.reads ∧ l ∉ a'.writes

theorem pairIndep_of_interleaving (iters : Nat → List (Action V P)) (nr : Nat)
    (hind : ItersIndep iters nr) (evs : List (Nat × Action V P)) (h : IsInterleaving iters nr evs) :
    PairIndep evs := by
  have hmem : ∀ e ∈ evs, e.1 < nr ∧ e.2 ∈ iters e.1 := by
    intro e he
    have hlt := h.1 e he
    refine ⟨hlt, ?_⟩
    have : e ∈ evsOf e.1 evs := by simp [evsOf, he]
    rw [h.2 e.1 hlt] at this
    obtain ⟨a, ha, hae⟩ := List.mem_map.mp this
    rw [← hae]; exact ha
  intro e he e' he' hne
  obtain ⟨h1, h2⟩ := hmem e he
  obtain ⟨h1', h2'⟩ := hmem e' he'
  exact ⟨hne, hind e.1 e'.1 h1 h1' hne e.2 h2 e'.2 h2',
    hind e'.1 e.1 h1' h1 (fun x => hne x.symm) e'.2 h2' e.2 h2⟩

/-- every interleaving of independent iterations ends in the state of the sequential loop -/
theorem exec_interleaving_eq_seq (iters : Nat → List (Action V P)) (nr : Nat)
    (hind : ItersIndep iters nr) (evs : List (Nat × Action V P)) (h : IsInterleaving iters nr evs)
    (s : PState V P) : exec s evs = exec s (seqEvents iters nr) := by
  rw [exec_grouped (List.range nr) List.nodup_range evs
    (pairIndep_of_interleaving iters nr hind evs h)
    (fun e he => List.mem_range.mpr (h.1 e he)) s, grouped_of_interleaving iters nr evs h]

/-! ### conformance to a summary, `RowLocal` -/

/-- Iteration `r` may touch cell `l` (for writing when `w`) according to the summary:
    * a cell of an array allocated inside the body is the iteration's own copy (cells of private
      arrays are tagged with the iteration number in front of the index);
    * a cell of a shared array must be covered by an access of the summary for that array — a write
      by a write access, a read by any access — and when the access carries the loop variable as a
      plain index at position `p`, the cell's index has `r` at position `p`. -/
def Touches (s : Summary) (r : Nat) (w : Bool) (l : Loc) : Prop :=
  (l.1 ∈ s.priv ∧ l.2.head? = some r) ∨
  (l.1 ∈ s.shared ∧ ∃ a ∈ s.accesses, a.arr = l.1 ∧ (w = true → a.write = true) ∧
      ∀ p, a.rowAxis = some p → l.2[p]? = some r)

/-- all actions of iteration `r` stay within the summary -/
def IterConforms (s : Summary) (r : Nat) (acts : List (Action V P)) : Prop :=
  ∀ a ∈ acts, (∀ l ∈ a.reads, Touches s r false l) ∧ (∀ l ∈ a.writes, Touches s r true l)

/-- the common row axis of all accesses to `x`, if there is one -/
def commonAxis (s : Summary) (x : String) : Option Nat :=
  match ((s.accesses.filter fun a => a.arr = x).head?).bind (·.rowAxis) with
  | some p => if (s.accesses.filter fun a => a.arr = x).all fun a => a.rowAxis = some p then some p else none
  | none => none

def isWritten (s : Summary) (x : String) : Bool := s.accesses.any fun a => a.arr = x ∧ a.write = true

/-- No array is both shared and private, and every shared array that is written in the body is
    accessed — for reading and for writing — only with the loop variable as a plain index at one
    common position.  (Shared arrays that are never written may be read anywhere.) -/
def RowLocal (s : Summary) : Bool :=
  (s.shared.all fun x => !s.priv.contains x) &&
  (s.shared.all fun x => !isWritten s x || (commonAxis s x).isSome)

theorem commonAxis_spec (s : Summary) (x : String) (p : Nat) (h : commonAxis s x = some p) :
    ∀ a ∈ s.accesses, a.arr = x → a.rowAxis = some p := by
  unfold commonAxis at h
  split at h
  case h_2 => cases h
  case h_1 q hq =>
    split at h
    case isFalse => cases h
    case isTrue hall =>
      cases h
      intro a ha hax
      have := (List.all_eq_true.mp hall) a (List.mem_filter.mpr ⟨ha, by simpa using hax⟩)
      simpa using this

theorem commonAxis_complete (s : Summary) (x : String) (p : Nat)
    (hne : ∃ a ∈ s.accesses, a.arr = x)
    (hall : ∀ a ∈ s.accesses, a.arr = x → a.rowAxis = some p) : commonAxis s x = some p := by
  obtain ⟨a0, ha0, hx0⟩ := hne
  have hmem : a0 ∈ s.accesses.filter fun a => a.arr = x := List.mem_filter.mpr ⟨ha0, by simpa using hx0⟩
  have hall' : ((s.accesses.filter fun a => a.arr = x).all fun a => a.rowAxis = some p) = true := by
    rw [List.all_eq_true]
    intro a ha
    have := List.mem_filter.mp ha
    simpa using hall a this.1 (by simpa using this.2)
  unfold commonAxis
  cases hf : s.accesses.filter fun a => a.arr = x with
  | nil => rw [hf] at hmem; cases hmem
  | cons b t =>
    have hb : b.rowAxis = some p := by
      have : b ∈ s.accesses.filter fun a => a.arr = x := by rw [hf]; exact List.mem_cons_self
      have := List.mem_filter.mp this
      exact hall b this.1 (by simpa using this.2)
    rw [hf] at hall'
    simp only [List.head?_cons, Option.bind_some, hb, hall', if_true]

/-- the predicate says what it should -/
theorem rowLocal_iff (s : Summary) :
    RowLocal s = true ↔
      (∀ x ∈ s.shared, x ∉ s.priv) ∧
      (∀ x ∈ s.shared, (∃ a ∈ s.accesses, a.arr = x ∧ a.write = true) →
        ∃ p, ∀ a ∈ s.accesses, a.arr = x → a.rowAxis = some p) := by
  unfold RowLocal
  rw [Bool.and_eq_true, List.all_eq_true, List.all_eq_true]
  constructor
  · rintro ⟨h1, h2⟩
    refine ⟨fun x hx => by simpa using h1 x hx, ?_⟩
    intro x hx ⟨a, ha, hax, haw⟩
    have hw : isWritten s x = true := by
      unfold isWritten; rw [List.any_eq_true]; exact ⟨a, ha, by simp [hax, haw]⟩
    have := h2 x hx
    rw [hw] at this
    simp only [Bool.not_true, Bool.false_or] at this
    obtain ⟨p, hp⟩ := Option.isSome_iff_exists.mp this
    exact ⟨p, commonAxis_spec s x p hp⟩
  · rintro ⟨h1, h2⟩
    refine ⟨fun x hx => by simpa using h1 x hx, ?_⟩
    intro x hx
    cases hw : isWritten s x with
    | false => rfl
    | true =>
      unfold isWritten at hw
      rw [List.any_eq_true] at hw
      obtain ⟨a, ha, haw⟩ := hw
      simp only [decide_eq_true_eq] at haw
      obtain ⟨p, hp⟩ := h2 x hx ⟨a, ha, haw.1, haw.2⟩
      rw [commonAxis_complete s x p ⟨a, ha, haw.1⟩ hp]
      rfl

/-! ### B1 -/

/-- B1 on cells: under `RowLocal` a cell written by iteration `r` is not touched by iteration `r'` -/
theorem rowlocal_cell_disjoint {s : Summary} (h : RowLocal s = true) {r r' : Nat} (hne : r ≠ r')
    (l : Loc) (w : Bool) (hw : Touches s r true l) (ht : Touches s r' w l) : False := by
  obtain ⟨hdisj, hrow⟩ := (rowLocal_iff s).mp h
  rcases hw with ⟨hp, htag⟩ | ⟨hsh, a, ha, hax, haw, hpos⟩
  · rcases ht with ⟨_, htag'⟩ | ⟨hsh', _⟩
    · rw [htag] at htag'; exact hne (Option.some.inj htag')
    · exact hdisj _ hsh' hp
  · rcases ht with ⟨hp', _⟩ | ⟨_, a', ha', hax', _, hpos'⟩
    · exact hdisj _ hsh hp'
    · obtain ⟨p, hp⟩ := hrow _ hsh ⟨a, ha, hax, haw rfl⟩
      have e1 := hpos p (hp a ha hax)
      have e2 := hpos' p (hp a' ha' hax')
      rw [e1] at e2
      exact hne (Option.some.inj e2)

/-- B1: for `r ≠ r'`, write-set(r) ∩ (read-set(r') ∪ write-set(r')) = ∅ -/
theorem rowlocal_disjoint {s : Summary} (h : RowLocal s = true) {r r' : Nat} (hne : r ≠ r')
    (acts acts' : List (Action V P)) (hc : IterConforms s r acts) (hc' : IterConforms s r' acts') :
    ∀ a ∈ acts, ∀ a' ∈ acts', ∀ l ∈ a.writes, l ∉ a'.reads ∧ l ∉ a'.writes := by
  intro a ha a' ha' l hl
  have hw := (hc a ha).2 l hl
  exact ⟨fun hr => rowlocal_cell_disjoint h hne l false hw ((hc' a' ha').1 l hr),
    fun hr => rowlocal_cell_disjoint h hne l true hw ((hc' a' ha').2 l hr)⟩

/-! ### B2 -/

/-- B2: under `RowLocal`, every interleaving of conforming iterations — whatever the number of
    threads, the assignment of rows to threads and the timing — ends in the same store (and the same
    private states) as the sequential loop `r = 0, 1, …, nr-1`. -/
theorem prange_schedule_independent {s : Summary} (h : RowLocal s = true)
    (iters : Nat → List (Action V P)) (nr : Nat) (hc : ∀ r, r < nr → IterConforms s r (iters r))
    (evs : List (Nat × Action V P)) (hi : IsInterleaving iters nr evs) (st : PState V P) :
    exec st evs = exec st (seqEvents iters nr) := by
  apply exec_interleaving_eq_seq iters nr _ evs hi st
  intro r r' hr hr' hne a ha a' ha' l hl
  exact rowlocal_disjoint h hne (iters r) (iters r') (hc r hr) (hc r' hr') a ha a' ha' l hl

/-- any two executions (thread counts, chunkings, timings) agree -/
theorem prange_any_two_schedules_agree {s : Summary} (h : RowLocal s = true)
    (iters : Nat → List (Action V P)) (nr : Nat) (hc : ∀ r, r < nr → IterConforms s r (iters r))
    (evs evs' : List (Nat × Action V P)) (hi : IsInterleaving iters nr evs)
    (hi' : IsInterleaving iters nr evs') (st : PState V P) :
    (exec st evs).store = (exec st evs').store := by
  rw [prange_schedule_independent h iters nr hc evs hi st,
    prange_schedule_independent h iters nr hc evs' hi' st]

/-! ### chunked execution: rows dealt out to threads -/

/-- a thread that is given the rows `rows` runs them one after the other -/
def chunkEvents (iters : Nat → List (Action V P)) (rows : List Nat) : List (Nat × Action V P) :=
  rows.flatMap fun r => (iters r).map fun a => (r, a)

theorem evsOf_append (r : Nat) (a b : List (Nat × Action V P)) :
    evsOf r (a ++ b) = evsOf r a ++ evsOf r b := by simp [evsOf]

theorem mem_chunkEvents (iters : Nat → List (Action V P)) (rows : List Nat) (e : Nat × Action V P)
    (h : e ∈ chunkEvents iters rows) : e.1 ∈ rows := by
  simp only [chunkEvents, List.mem_flatMap, List.mem_map] at h
  obtain ⟨r, hr, a, _, rfl⟩ := h
  exact hr

theorem evsOf_chunkEvents_not_mem (iters : Nat → List (Action V P)) (rows : List Nat) (r : Nat)
    (h : r ∉ rows) : evsOf r (chunkEvents iters rows) = [] := by
  simp only [evsOf, List.filter_eq_nil_iff]
  intro e he
  have := mem_chunkEvents iters rows e he
  simp only [decide_eq_true_eq]
  intro heq; exact h (heq ▸ this)

theorem evsOf_chunkEvents (iters : Nat → List (Action V P)) (rows : List Nat) (hnd : rows.Nodup)
    (r : Nat) (h : r ∈ rows) : evsOf r (chunkEvents iters rows) = (iters r).map fun a => (r, a) := by
  induction rows with
  | nil => cases h
  | cons r0 t ih =>
    have hnd' := List.nodup_cons.mp hnd
    have hc : chunkEvents iters (r0 :: t) = ((iters r0).map fun a => (r0, a)) ++ chunkEvents iters t := by
      simp [chunkEvents]
    rw [hc, evsOf_append]
    by_cases hr : r = r0
    · subst hr
      rw [evsOf_map_same, evsOf_chunkEvents_not_mem iters t r hnd'.1, List.append_nil]
    · rw [evsOf_map_other r r0 (fun x => hr x.symm), List.nil_append]
      rcases List.mem_cons.mp h with h' | h'
      · exact absurd h' hr
      · exact ih hnd'.2 h'

/-- the rows executed one after the other in any order (a permutation of `0 … nr-1`) form an
    interleaving -/
theorem chunkEvents_isInterleaving (iters : Nat → List (Action V P)) (nr : Nat) (rows : List Nat)
    (hnd : rows.Nodup) (hmem : ∀ r, r ∈ rows ↔ r < nr) :
    IsInterleaving iters nr (chunkEvents iters rows) :=
  ⟨fun e he => (hmem _).mp (mem_chunkEvents iters rows e he),
    fun r hr => evsOf_chunkEvents iters rows hnd r ((hmem r).mpr hr)⟩

/-- the rows `0 … nr-1` are dealt out to `T` threads: thread `t` gets the rows `assign t` (any
    chunking, any schedule kind), every row exactly once -/
def IsDeal (nr T : Nat) (assign : Nat → List Nat) : Prop :=
  (∀ t, t < T → (assign t).Nodup) ∧
  (∀ t t', t < T → t' < T → t ≠ t' → ∀ r ∈ assign t, r ∉ assign t') ∧
  (∀ r, r < nr ↔ ∃ t, t < T ∧ r ∈ assign t)

/-- `tevs` (events tagged with the executing thread) is a merge of the threads' event lists that
    keeps each thread's own order; thread `t` executes its rows one after the other -/
def IsThreadMerge (iters : Nat → List (Action V P)) (T : Nat) (assign : Nat → List Nat)
    (tevs : List (Nat × (Nat × Action V P))) : Prop :=
  (∀ e ∈ tevs, e.1 < T) ∧
  ∀ t, t < T → (tevs.filter fun e => e.1 = t).map (·.2) = chunkEvents iters (assign t)

theorem evsOf_map_snd_filter (r t0 : Nat) (l : List (Nat × (Nat × Action V P)))
    (h : ∀ te ∈ l, te.2.1 = r → te.1 = t0) :
    evsOf r (l.map (·.2)) = evsOf r ((l.filter fun e => e.1 = t0).map (·.2)) := by
  induction l with
  | nil => rfl
  | cons te l ih =>
    have ih' := ih (fun x hx => h x (List.mem_cons_of_mem _ hx))
    unfold evsOf at ih' ⊢
    by_cases ht : te.1 = t0
    · simp only [List.map_cons, List.filter_cons, ht, decide_true, if_true]
      rw [ih']
    · have hr : te.2.1 ≠ r := fun x => ht (h te List.mem_cons_self x)
      simp [ht, hr, ih']

theorem threadMerge_isInterleaving (iters : Nat → List (Action V P)) (nr T : Nat)
    (assign : Nat → List Nat) (hd : IsDeal nr T assign) (tevs : List (Nat × (Nat × Action V P)))
    (hm : IsThreadMerge iters T assign tevs) : IsInterleaving iters nr (tevs.map (·.2)) := by
  obtain ⟨hnd, hdisj, hcover⟩ := hd
  have hrow : ∀ te ∈ tevs, te.1 < T ∧ te.2.1 ∈ assign te.1 := by
    intro te hte
    have hT := hm.1 te hte
    refine ⟨hT, ?_⟩
    have : te.2 ∈ (tevs.filter fun e => e.1 = te.1).map (·.2) :=
      List.mem_map.mpr ⟨te, List.mem_filter.mpr ⟨hte, by simp⟩, rfl⟩
    rw [hm.2 te.1 hT] at this
    exact mem_chunkEvents iters _ _ this
  constructor
  · intro e he
    obtain ⟨te, hte, rfl⟩ := List.mem_map.mp he
    obtain ⟨hT, hr⟩ := hrow te hte
    exact (hcover _).mpr ⟨te.1, hT, hr⟩
  · intro r hr
    obtain ⟨t0, ht0, hr0⟩ := (hcover r).mp hr
    rw [evsOf_map_snd_filter r t0 tevs, hm.2 t0 ht0, evsOf_chunkEvents iters _ (hnd t0 ht0) r hr0]
    intro te hte hter
    obtain ⟨hT, hmem⟩ := hrow te hte
    rw [hter] at hmem
    false_or_by_contra
    rename_i hne
    exact hdisj te.1 t0 hT ht0 hne r hmem hr0

/-- the order in which the rows are executed does not matter -/
theorem prange_row_order_irrelevant {s : Summary} (h : RowLocal s = true)
    (iters : Nat → List (Action V P)) (nr : Nat) (hc : ∀ r, r < nr → IterConforms s r (iters r))
    (rows : List Nat) (hnd : rows.Nodup) (hmem : ∀ r, r ∈ rows ↔ r < nr) (st : PState V P) :
    exec st (chunkEvents iters rows) = exec st (seqEvents iters nr) :=
  prange_schedule_independent h iters nr hc _ (chunkEvents_isInterleaving iters nr rows hnd hmem) st

/-- any number of threads, any way of dealing the rows out to them, any merge of the threads'
    executions: the state of the sequential loop -/
theorem prange_threads_independent {s : Summary} (h : RowLocal s = true)
    (iters : Nat → List (Action V P)) (nr : Nat) (hc : ∀ r, r < nr → IterConforms s r (iters r))
    (T : Nat) (assign : Nat → List Nat) (hd : IsDeal nr T assign)
    (tevs : List (Nat × (Nat × Action V P))) (hm : IsThreadMerge iters T assign tevs)
    (st : PState V P) : exec st (tevs.map (·.2)) = exec st (seqEvents iters nr) :=
  prange_schedule_independent h iters nr hc _ (threadMerge_isInterleaving iters nr T assign hd tevs hm) st

end Hdc.Conc
