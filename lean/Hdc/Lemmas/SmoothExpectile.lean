import Hdc.Lemmas.SmoothIrls
import Mathlib.Tactic.Positivity
/-
The expectile (asymmetric least-squares) equations have at most one solution inside the
contract of C01: they are the stationarity conditions of a strictly convex functional.
-/
namespace Hdc.Smooth
open Hdc Hdc.C01 Finset

set_option linter.unusedSectionVars false

variable {α : Type} [Field α] [LinearOrder α] [IsStrictOrderedRing α]

/-- half the derivative of the asymmetric square `ρ_p(r) = p r²` (r > 0), `(1 − p) r²` (r ≤ 0) -/
def psi (p r : α) : α := (if 0 < r then p else 1 - p) * r

/-- `ψ` is strongly monotone with modulus `min p (1 − p)` -/
theorem psi_mono (p : α) (hp0 : 0 < p) (hp1 : p < 1) (r r' : α) :
    min p (1 - p) * (r - r') ^ 2 ≤ (psi p r - psi p r') * (r - r') := by
  have hm1 : min p (1 - p) ≤ p := min_le_left _ _
  have hm2 : min p (1 - p) ≤ 1 - p := min_le_right _ _
  have hm0 : 0 < min p (1 - p) := lt_min hp0 (by linarith)
  set m := min p (1 - p)
  unfold psi
  by_cases h1 : 0 < r <;> by_cases h2 : 0 < r'
  · simp only [h1, h2, if_true]
    have : (p * r - p * r') * (r - r') = p * (r - r') ^ 2 := by ring
    rw [this]
    exact mul_le_mul_of_nonneg_right hm1 (sq_nonneg _)
  · simp only [h1, h2, if_true, if_false]
    have h2' : r' ≤ 0 := not_lt.1 h2
    have e : (p * r - (1 - p) * r') * (r - r') - m * (r - r') ^ 2 =
        ((p - m) * r + ((1 - p) - m) * (-r')) * (r - r') := by ring
    have : 0 ≤ ((p - m) * r + ((1 - p) - m) * (-r')) * (r - r') := by
      apply mul_nonneg
      · apply add_nonneg
        · exact mul_nonneg (by linarith) (le_of_lt h1)
        · exact mul_nonneg (by linarith) (by linarith)
      · linarith
    linarith
  · simp only [h1, h2, if_true, if_false]
    have h1' : r ≤ 0 := not_lt.1 h1
    have e : ((1 - p) * r - p * r') * (r - r') - m * (r - r') ^ 2 =
        (((1 - p) - m) * (-r) + (p - m) * r') * (r' - r) := by ring
    have : 0 ≤ (((1 - p) - m) * (-r) + (p - m) * r') * (r' - r) := by
      apply mul_nonneg
      · apply add_nonneg
        · exact mul_nonneg (by linarith) (by linarith)
        · exact mul_nonneg (by linarith) (le_of_lt h2)
      · linarith
    linarith
  · simp only [h1, h2, if_false]
    have : ((1 - p) * r - (1 - p) * r') * (r - r') = (1 - p) * (r - r') ^ 2 := by ring
    rw [this]
    exact mul_le_mul_of_nonneg_right hm2 (sq_nonneg _)

/-- the expectile equations: the normal equations with the weights computed from the
    solution itself (`w_i p` where the data lies above the curve, `w_i (1 − p)` elsewhere) -/
def ExpectileEq (n : ℕ) (y w : ℕ → α) (lam p : α) (z : ℕ → α) : Prop :=
  NormalEq n y (fun i => aw p (w i) (y i) (z i)) lam z

theorem expectileEq_iff (n : ℕ) (y w : ℕ → α) (lam p : α) (z : ℕ → α) :
    ExpectileEq n y w lam p z ↔ ∀ i < n, w i * psi p (y i - z i) = lam * DtD n z i := by
  unfold ExpectileEq NormalEq
  apply forall₂_congr
  intro i _
  have e : (if 0 < y i - z i then p else 1 - p) = (if z i < y i then p else 1 - p) := by
    by_cases h : z i < y i
    · rw [if_pos h, if_pos (sub_pos.2 h)]
    · rw [if_neg h, if_neg (by rwa [sub_pos])]
  unfold aw psi
  rw [e]
  constructor
  · intro h; linear_combination -h
  · intro h; linear_combination -h

/-- uniqueness of the solution of the expectile equations (0 < p < 1, inside the contract) -/
theorem expectileEq_unique (n : ℕ) (y w : ℕ → α) (lam p : α) (hlam : 0 < lam) (hp0 : 0 < p)
    (hp1 : p < 1) (hw : ∀ i < n, 0 ≤ w i) (a b : ℕ) (hab : a < b) (hb : b < n) (hwa : 0 < w a)
    (hwb : 0 < w b) (z z' : ℕ → α) (hz : ExpectileEq n y w lam p z)
    (hz' : ExpectileEq n y w lam p z') : ∀ i < n, z i = z' i := by
  rw [expectileEq_iff] at hz hz'
  have hm0 : 0 < min p (1 - p) := lt_min hp0 (by linarith)
  set m := min p (1 - p) with hm
  -- h = z − z'
  have hsub : ∀ i < n, w i * (psi p (y i - z i) - psi p (y i - z' i)) =
      lam * DtD n (fun k => z k - z' k) i := by
    intro i hi
    have e : DtD n (fun k => z k - z' k) i = DtD n z i - DtD n z' i := Ws2d.dtd_sub n z z' i
    rw [e, mul_sub, mul_sub, hz i hi, hz' i hi]
  have hsum : ∑ i ∈ range n, (z i - z' i) * (w i * (psi p (y i - z i) - psi p (y i - z' i))) =
      lam * ∑ j ∈ range (n - 2), (D2 (fun k => z k - z' k) j) ^ 2 := by
    have := Ws2d.sum_mul_dtd n (fun k => z k - z' k) (fun k => z k - z' k)
    rw [Finset.mul_sum]
    have e2 : ∑ j ∈ range (n - 2), lam * (D2 (fun k => z k - z' k) j) ^ 2 =
        lam * ∑ j ∈ range (n - 2), Ws2d.d2 (fun k => z k - z' k) j * Ws2d.d2 (fun k => z k - z' k) j := by
      rw [Finset.mul_sum]
      apply Finset.sum_congr rfl
      intro j _
      rw [D2_eq]; ring
    rw [e2, ← this, Finset.mul_sum]
    apply Finset.sum_congr rfl
    intro i hi
    rw [hsub i (mem_range.1 hi)]
    show _ = lam * ((z i - z' i) * DtD n (fun k => z k - z' k) i)
    ring
  have hq : Ws2d.qf n (fun i => m * w i) lam (fun k => z k - z' k) ≤ 0 := by
    unfold Ws2d.qf
    have e3 : lam * ∑ j ∈ range (n - 2), Ws2d.d2 (fun k => z k - z' k) j ^ 2 =
        ∑ i ∈ range n, (z i - z' i) * (w i * (psi p (y i - z i) - psi p (y i - z' i))) := by
      rw [hsum]; rfl
    rw [e3, ← Finset.sum_add_distrib]
    apply Finset.sum_nonpos
    intro i hi
    have hwi := hw i (mem_range.1 hi)
    have hmono := psi_mono p hp0 hp1 (y i - z i) (y i - z' i)
    have e4 : y i - z i - (y i - z' i) = -(z i - z' i) := by ring
    rw [e4] at hmono
    have : m * w i * (z i - z' i) ^ 2 + (z i - z' i) * (w i * (psi p (y i - z i) - psi p (y i - z' i)))
        = - (w i * ((psi p (y i - z i) - psi p (y i - z' i)) * -(z i - z' i) - m * (-(z i - z' i)) ^ 2)) := by
      ring
    rw [this]
    apply neg_nonpos.2
    exact mul_nonneg hwi (by linarith)
  have hdef := Ws2d.qf_definite n (fun i => m * w i) lam hlam
    (fun i hi => mul_nonneg (le_of_lt hm0) (hw i hi)) a b hab hb (mul_pos hm0 hwa) (mul_pos hm0 hwb)
    (fun k => z k - z' k) hq
  intro i hi
  exact sub_eq_zero.1 (hdef i hi)

/-! ### list level -/

variable {y w : List α} {lam : α}

/-- a fixed point of "re-weight, re-fit" solves the expectile equations -/
theorem expectileEq_of_fix (h : InContract y w lam) (p : α) (hp0 : 0 < p) (hp1 : p < 1) (z : List α)
    (hzl : z.length = y.length) (hz : z = ws2d y lam (asymW p w y z)) :
    ExpectileEq y.length (fn y) (fn w) lam p (fn z) := by
  have hc : InContract y (asymW p w y z) lam := by
    refine ⟨h.len, by simp [h.wlen, hzl], h.lam_pos, ?_, ?_⟩
    · intro x hx
      obtain ⟨i, hi, rfl⟩ := List.getElem_of_mem hx
      have hi' : i < y.length := by simpa [h.wlen, hzl] using hi
      rw [← fn_of_lt _ i hi, fn_asymW p w y z i (by rw [h.wlen]; exact hi') hi' (by rw [hzl]; exact hi')]
      unfold aw
      apply mul_nonneg (h.w_nonneg_fn i hi')
      split_ifs <;> linarith
    · obtain ⟨i, j, hij, hj, hi0, hj0⟩ := h.two_pos
      have hj' : j < y.length := by rw [← h.wlen]; exact hj
      refine ⟨i, j, hij, by simpa [h.wlen, hzl] using hj', ?_, ?_⟩
      · rw [fn_asymW p w y z i (by omega) (by omega) (by omega)]
        unfold aw; apply mul_pos hi0; split_ifs <;> linarith
      · rw [fn_asymW p w y z j hj hj' (by omega)]
        unfold aw; apply mul_pos hj0; split_ifs <;> linarith
  have hN := ws2d_normal_eq hc
  rw [← hz] at hN
  intro i hi
  have := hN i hi
  rw [fn_asymW p w y z i (by rw [h.wlen]; exact hi) hi (by rw [hzl]; exact hi)] at this
  exact this

/-- two fixed points of "re-weight, re-fit" of full length coincide -/
theorem expectile_fix_unique (h : InContract y w lam) (p : α) (hp0 : 0 < p) (hp1 : p < 1)
    (z z' : List α) (hz : z = ws2d y lam (asymW p w y z)) (hz' : z' = ws2d y lam (asymW p w y z'))
    (hl : z.length = y.length) (hl' : z'.length = y.length) : z = z' := by
  obtain ⟨a, b, hab, hb, hwa, hwb⟩ := h.two_pos
  apply list_eq_of_fn _ _ (by rw [hl, hl'])
  intro i hi
  rw [hl] at hi
  exact expectileEq_unique y.length (fn y) (fn w) lam p h.lam_pos hp0 hp1 h.w_nonneg_fn a b hab
    (by rw [← h.wlen]; exact hb) hwa hwb (fn z) (fn z')
    (expectileEq_of_fix h p hp0 hp1 z hl hz) (expectileEq_of_fix h p hp0 hp1 z' hl' hz') i hi

/-! ### the re-weighting under a shift of data and curve -/

theorem asymW_shift (p : α) (w y z : List α) (c : α) :
    asymW p w (y.map (· + c)) (z.map (· + c)) = asymW p w y z := by
  induction w generalizing y z with
  | nil => cases y <;> cases z <;> simp [asymW]
  | cons a as ih =>
    cases y with
    | nil => simp [asymW]
    | cons b bs =>
      cases z with
      | nil => simp [asymW]
      | cons d ds => simp [asymW, ih]

/-- the shifted fixed point is a fixed point of the shifted problem -/
theorem expectile_fix_shift (h : InContract y w lam) (p : α) (hp0 : 0 < p) (hp1 : p < 1) (c : α)
    (z : List α) (hl : z.length = y.length) (hz : z = ws2d y lam (asymW p w y z)) :
    z.map (· + c) = ws2d (y.map (· + c)) lam (asymW p w (y.map (· + c)) (z.map (· + c))) := by
  have hc : InContract y (asymW p w y z) lam := by
    refine ⟨h.len, by simp [h.wlen, hl], h.lam_pos, ?_, ?_⟩
    · intro x hx
      obtain ⟨i, hi, rfl⟩ := List.getElem_of_mem hx
      have hi' : i < y.length := by simpa [h.wlen, hl] using hi
      rw [← fn_of_lt _ i hi, fn_asymW p w y z i (by rw [h.wlen]; exact hi') hi' (by rw [hl]; exact hi')]
      unfold aw
      apply mul_nonneg (h.w_nonneg_fn i hi')
      split_ifs <;> linarith
    · obtain ⟨i, j, hij, hj, hi0, hj0⟩ := h.two_pos
      have hj' : j < y.length := by rw [← h.wlen]; exact hj
      refine ⟨i, j, hij, by simpa [h.wlen, hl] using hj', ?_, ?_⟩
      · rw [fn_asymW p w y z i (by omega) (by omega) (by omega)]
        unfold aw; apply mul_pos hi0; split_ifs <;> linarith
      · rw [fn_asymW p w y z j hj hj' (by omega)]
        unfold aw; apply mul_pos hj0; split_ifs <;> linarith
  rw [asymW_shift, ws2d_shift hc c, ← hz]

/-! ### the iterates on masked-equal data -/

theorem iter_masked {w y y' : List α} (h : MaskedEq w y y') (lam p : α) (z0 : List α) (j : ℕ) :
    iter y w lam p z0 j = iter y' w lam p z0 j := by
  induction j with
  | zero => rfl
  | succ j ih =>
    simp only [iter, pass]
    rw [ih, ← asymW_masked h, ← ws2d_masked h (suppIn_asymW p w y _)]

end Hdc.Smooth
