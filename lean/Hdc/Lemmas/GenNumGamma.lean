import Hdc.Lemmas.GenNum
import Hdc.Lemmas.SpiBasic
import Hdc.PyNpS
/-
Lemmas for the refinement proofs "generated translation of gammafit / gammastd = hand model"
(Hdc/Props/GenNumGammafit.lean, GenNumGammastd.lean).  Nothing in this file mentions a generated kernel.
-/
namespace Hdc.GenNum
open Hdc Hdc.Gen.NumKernels
open Hdc.Ws2dGen (av)

set_option linter.unusedSectionVars false

/-- the special functions of the model with the root finder instantiated by Brent's method on
    `a ↦ log a − digamma a − s` (what `brentq(xa, xb, s)` of the source computes) -/
def brentRoot {α : Type} [Add α] [Sub α] [Mul α] [Div α] [Neg α] [NatCast α] [LT α] [DecidableLT α]
    (F : GamFns α) (digamma : α → α) (xtol rtol : α) : GamFns α :=
  { F with root := fun xa xb s => Hdc.brentq (fun a => F.log a - digamma a - s) xtol rtol 100 xa xb }

open Lean Elab Tactic Meta in
/-- `pyn_subst`: for every fact `cur = e ∧ _` that `pyn_ranges` added for a loop variable `cur` (a free variable not
    occurring in `e`), replace `cur` by `e` everywhere. -/
elab "pyn_subst" : tactic => do
  for _ in [0:16] do
    let found ← withMainContext do
      let lctx ← getLCtx
      let mut res : Option FVarId := none
      for decl in lctx do
        if decl.isImplementationDetail then continue
        let ty ← instantiateMVars decl.type
        if let some (a, _) := ty.and? then
          if let some (_, lhs, rhs) := a.eq? then
            if lhs.isFVar && !(rhs.containsFVar lhs.fvarId!) then res := some decl.fvarId
      return res
    match found with
    | none => return
    | some h =>
      liftMetaTactic fun g => g.withContext do
        let e ← mkAppM ``And.left #[mkFVar h]
        let t ← inferType e
        let g ← g.assert `hcur t e
        let (fv, g) ← g.intro1P
        let g ← subst g fv
        return [g]

section fields
variable {α : Type} [Add α] [Sub α] [Mul α] [Div α] [Neg α] [NatCast α] [LT α] [DecidableLT α]
  (F : GamFns α) (digamma : α → α) (xtol rtol : α)
@[simp] theorem brentRoot_log : (brentRoot F digamma xtol rtol).log = F.log := rfl
@[simp] theorem brentRoot_sqrt : (brentRoot F digamma xtol rtol).sqrt = F.sqrt := rfl
@[simp] theorem brentRoot_gammainc : (brentRoot F digamma xtol rtol).gammainc = F.gammainc := rfl
@[simp] theorem brentRoot_ndtri : (brentRoot F digamma xtol rtol).ndtri = F.ndtri := rfl
@[simp] theorem brentRoot_c04 : (brentRoot F digamma xtol rtol).c04 = F.c04 := rfl
@[simp] theorem brentRoot_c09 : (brentRoot F digamma xtol rtol).c09 = F.c09 := rfl
end fields

variable {α : Type} [Field α] [LinearOrder α] [IsStrictOrderedRing α]

omit [LinearOrder α] [IsStrictOrderedRing α] in
/-- reading a list-backed array inside its bounds -/
theorem rd_list (l : List α) (i : ℤ) (p : ℕ) (h : i = (p : ℤ)) (hp : p < l.length) :
    rd l.toArray i = l[p] := by
  rw [rd_of_eq _ i p h]
  simp [av, hp]

omit [Field α] [LinearOrder α] [IsStrictOrderedRing α] in
theorem take_succ_eq (l : List α) (p : ℕ) (hp : p < l.length) : l.take (p + 1) = l.take p ++ [l[p]] := by
  exact List.take_succ_eq_append_getElem hp

theorem eqv_self (a : α) : eqv a a = true := (Spi.eqv_iff a a).2 rfl

/-! ### gammafit: the accumulation loop -/

/-- the positive cells among the first `p` -/
def posTake (x : List α) (p : ℕ) : List α := (x.take p).filter fun v => decide (nat 0 < v)

/-- after `p` passes of `for xx in x: if xx > 0: xts += xx; logs += log(xx); n += 1` -/
structure FitInv (lg : α → α) (x : List α) (p : ℕ) (xts logs : α) (n : ℤ) : Prop where
  hx : xts = sumF (posTake x p)
  hl : logs = sumF ((posTake x p).map lg)
  hn : n = ((posTake x p).length : ℤ)

theorem FitInv.init (lg : α → α) (x : List α) : FitInv lg x 0 (nat 0) (nat 0) 0 :=
  ⟨by simp [posTake, sumF], by simp [posTake, sumF], by simp [posTake]⟩

theorem posTake_succ_pos (x : List α) (p : ℕ) (hp : p < x.length) (h : nat 0 < x[p]) :
    posTake x (p + 1) = posTake x p ++ [x[p]] := by
  unfold posTake
  rw [take_succ_eq x p hp, List.filter_append, List.filter_singleton, decide_eq_true h]
  rfl

theorem posTake_succ_neg (x : List α) (p : ℕ) (hp : p < x.length) (h : ¬ nat 0 < x[p]) :
    posTake x (p + 1) = posTake x p := by
  unfold posTake
  rw [take_succ_eq x p hp, List.filter_append, List.filter_singleton, decide_eq_false h]
  simp

omit [LinearOrder α] [IsStrictOrderedRing α] in
theorem sumF_append_singleton (l : List α) (v : α) : sumF (l ++ [v]) = sumF l + v := by
  simp [sumF, List.foldl_append]

theorem FitInv.step_pos {lg : α → α} {x : List α} {p : ℕ} {xts logs : α} {n cur : ℤ}
    (h : FitInv lg x p xts logs n) (hp : p < x.length)
    (hc : nat 0 < rd x.toArray cur) (hcur : cur = (p : ℤ)) :
    FitInv lg x (p + 1) (xts + rd x.toArray cur) (logs + lg (rd x.toArray cur)) (n + 1) := by
  rw [rd_list x cur p hcur hp] at hc ⊢
  refine ⟨?_, ?_, ?_⟩
  · rw [posTake_succ_pos x p hp hc, sumF_append_singleton, h.hx]
  · rw [posTake_succ_pos x p hp hc, List.map_append, List.map_singleton, sumF_append_singleton, h.hl]
  · rw [posTake_succ_pos x p hp hc, h.hn]; simp

theorem FitInv.step_neg {lg : α → α} {x : List α} {p : ℕ} {xts logs : α} {n cur : ℤ}
    (h : FitInv lg x p xts logs n) (hp : p < x.length)
    (hc : ¬ nat 0 < rd x.toArray cur) (hcur : cur = (p : ℤ)) :
    FitInv lg x (p + 1) xts logs n := by
  rw [rd_list x cur p hcur hp] at hc
  refine ⟨?_, ?_, ?_⟩ <;> rw [posTake_succ_neg x p hp hc]
  · exact h.hx
  · exact h.hl
  · exact h.hn

theorem posTake_all (x : List α) (p : ℕ) (hp : x.length ≤ p) :
    posTake x p = x.filter fun v => decide (nat 0 < v) := by
  simp [posTake, List.take_of_length_le hp]

/-- the model `gammafit`, given the three accumulated quantities of the source's loop -/
theorem gammafit_of_inv (F : GamFns α) {x : List α} {p : ℕ} {xts logs : α} {n : ℤ}
    (h : FitInv F.log x p xts logs n) (hp : x.length ≤ p) :
    Hdc.gammafit F x =
      if n = 0 then (nat 0, nat 0)
      else
        if eqv (F.log (xts / (n : α)) - logs / (n : α)) (nat 0) then (nat 0, nat 0)
        else
          let s := F.log (xts / (n : α)) - logs / (n : α)
          let aest := (nat 3 - s + F.sqrt ((s - nat 3) * (s - nat 3) + nat 24 * s)) / (nat 12 * s)
          let a := F.root (aest * (nat 1 - F.c04)) (aest * (nat 1 + F.c04)) s
          if eqv a (nat 0) then (nat 0, nat 0) else (a, xts / (n : α) / a) := by
  have hx := h.hx
  have hl := h.hl
  have hn := h.hn
  rw [posTake_all x p hp] at hx hl hn
  have hc : (n : α) = nat (x.filter fun v => decide (nat 0 < v)).length := by
    rw [hn]; simp [nat]
  unfold Hdc.gammafit
  simp only [← hx, ← hl, ← hc]
  have : (n = 0) ↔ (x.filter fun v => decide (nat 0 < v)).length = 0 := by rw [hn]; omega
  by_cases h0 : n = 0
  · rw [if_pos h0, if_pos (this.1 h0)]
  · rw [if_neg h0, if_neg (fun e => h0 (this.2 e))]

end Hdc.GenNum
