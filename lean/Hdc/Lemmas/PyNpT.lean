import Hdc.PyNpT
import Hdc.Lemmas.GenKernels
/-
Lemmas about the NumPy combinators of Hdc/PyNpT.lean (kernel independent): what the mask / gather / scatter idioms do on
lists, cells of any type read as functions, the row-major flattening.
-/
namespace Hdc.PyNpT

/-! ### `a == k`, `a[mask]`, `a[mask] = v` -/

/-- the cells of `xx` whose label is `g` (`xx[groups == g]`) -/
def gsel {γ : Type} (xx : List γ) (groups : List Int) (g : Int) : List γ :=
  ((xx.zip groups).filter fun p => decide (p.2 = g)).map fun p => p.1

theorem npEqMask_toList (groups : List Int) (g : Int) :
    (npEqMask groups.toArray g).toList = groups.map fun k => decide (k = g) := by
  simp [npEqMask]

/-- `xx[groups == g]` -/
theorem npCompress_eqMask {γ : Type} (xx : List γ) (groups : List Int) (g : Int) :
    npCompress xx.toArray (npEqMask groups.toArray g) = (gsel xx groups g).toArray := by
  simp only [npCompress, npEqMask_toList, gsel, List.zip_map_right, List.filter_map, List.map_map]
  rfl

theorem size_npMaskSet {γ : Type} (a : Array γ) (mask : Array Bool) (v : γ) :
    (npMaskSet a mask v).size = a.size := by
  simp [npMaskSet]

theorem zipIdx_map_eq_zipWith {γ δ : Type} (f : Bool → γ → δ) (bs : List Bool) (ys : List γ) (i : ℕ)
    (m : Array Bool) (hm : ∀ j, j < ys.length → m.getD (i + j) false = bs.getD j false)
    (h : bs.length = ys.length) :
    ((ys.zipIdx i).map fun p => f (m.getD p.2 false) p.1) = List.zipWith f bs ys := by
  induction ys generalizing bs i with
  | nil => cases bs <;> simp_all
  | cons y ys ih =>
    cases bs with
    | nil => simp at h
    | cons b bs =>
      simp only [List.zipIdx_cons, List.map_cons, List.zipWith_cons_cons]
      congr 1
      · have := hm 0 (by simp)
        simpa using congrArg (fun t => f t y) this
      · apply ih bs (i + 1) ?_ (by simpa using h)
        intro j hj
        have := hm (j + 1) (by simpa using hj)
        simpa [Nat.add_assoc, Nat.add_comm 1 j] using this

/-- `yy[groups == g] = v` on a buffer with one cell per label -/
theorem npMaskSet_eqMask_toList {γ : Type} (yy : Array γ) (groups : List Int) (g : Int) (v : γ)
    (h : groups.length = yy.size) :
    (npMaskSet yy (npEqMask groups.toArray g) v).toList
      = List.zipWith (fun k y => if k = g then v else y) groups yy.toList := by
  have h1 := zipIdx_map_eq_zipWith (fun (b : Bool) (y : γ) => if b then v else y)
    (groups.map fun k => decide (k = g)) yy.toList 0 (npEqMask groups.toArray g)
    (by
      intro j _
      simp [npEqMask, List.getD_eq_getElem?_getD, Array.getD_eq_getD_getElem?])
    (by simpa using h)
  simp only [npMaskSet, h1, List.zipWith_map_left]
  simp

/-! ### cells of any type read as functions -/

/-- an array read as a function (`d` outside) -/
def gD {γ : Type} (a : Array γ) (j : ℕ) (d : γ) : γ := a.getD j d

theorem ix_of_eq (n : ℕ) (i : ℤ) (j : ℕ) (h : i = (j : ℤ)) : ix n i = j := by
  subst h
  have : ¬ ((j : ℤ) < 0) := by omega
  simp [ix, this]

theorem rdD_of_eq {γ : Type} (a : Array γ) (i : ℤ) (d : γ) (j : ℕ) (h : i = (j : ℤ)) :
    rdD a i d = gD a j d := by
  simp only [rdD, gD, ix_of_eq a.size i j h]

theorem rdD_nonneg {γ : Type} (a : Array γ) (i : ℤ) (d : γ) (h : 0 ≤ i) :
    rdD a i d = gD a i.toNat d := rdD_of_eq a i d i.toNat (by omega)

theorem rdD_natCast {γ : Type} (a : Array γ) (j : ℕ) (d : γ) : rdD a (j : ℤ) d = gD a j d :=
  rdD_of_eq a _ d j rfl

theorem rd_natCast (a : Array Int) (j : ℕ) :
    Hdc.Gen.Kernels.rd a (j : ℤ) = Hdc.GenKernels.gv a j := Hdc.GenKernels.rd_of_eq a _ j rfl

theorem lv_mem (l : List Int) (j : ℕ) (h : j < l.length) : Hdc.GenKernels.lv l j ∈ l := by
  rw [Hdc.GenKernels.lv_eq_getElem l j h]; exact List.getElem_mem h

@[simp] theorem size_wrG {γ : Type} (a : Array γ) (i : ℤ) (v : γ) : (wrG a i v).size = a.size := by
  simp [wrG]

theorem gD_wrG_self {γ : Type} (a : Array γ) (i : ℤ) (v d : γ) (j : ℕ) (h : i = (j : ℤ))
    (hj : j < a.size) : gD (wrG a i v) j d = v := by
  simp only [wrG, ix_of_eq a.size i j h, gD]
  simp [Array.getElem?_setIfInBounds_self_of_lt hj]

theorem gD_wrG_ne {γ : Type} (a : Array γ) (i : ℤ) (v d : γ) (j : ℕ) (hi : 0 ≤ i)
    (h : i ≠ (j : ℤ)) : gD (wrG a i v) j d = gD a j d := by
  simp only [wrG, ix_of_eq a.size i i.toNat (by omega), gD]
  have : i.toNat ≠ j := by omega
  simp [Array.getElem?_setIfInBounds_ne this]

/-- a write beyond the end does nothing (Python raises; Numba does not check; the translation keeps the array) -/
theorem wrG_out {γ : Type} (a : Array γ) (i : ℤ) (v : γ) (hi : (a.size : ℤ) ≤ i) : wrG a i v = a := by
  simp only [wrG, ix_of_eq a.size i i.toNat (by omega)]
  exact Array.setIfInBounds_eq_of_size_le (by omega)

/-- the same for the integer arrays of `Hdc.Gen.Kernels` -/
theorem wr_out (a : Array Int) (i : ℤ) (v : Int) (hi : (a.size : ℤ) ≤ i) :
    Hdc.Gen.Kernels.wr a i v = a := by
  simp only [Hdc.Gen.Kernels.wr, Hdc.GenKernels.ix_of_eq a.size i i.toNat (by omega)]
  exact Array.setIfInBounds_eq_of_size_le (by omega)

theorem gD_map_const {γ : Type} (a : Array γ) (c d : γ) (j : ℕ) (hj : j < a.size) :
    gD (a.map fun _ => c) j d = c := by
  simp [gD, Array.getD_eq_getD_getElem?, hj]

theorem gv_map_const (a : Array Int) (c : Int) (j : ℕ) (hj : j < a.size) :
    Hdc.GenKernels.gv (a.map fun _ => c) j = c := by
  simp [Hdc.GenKernels.gv, Array.getD_eq_getD_getElem?, hj]

/-- a write at the frontier `L` of the finished prefix extends the prefix -/
theorem take_wrG {γ : Type} (a : Array γ) (i : ℤ) (v : γ) (L : ℕ) (hi : i = (L : ℤ))
    (hL : L < a.size) : (wrG a i v).toList.take (L + 1) = a.toList.take L ++ [v] := by
  simp only [wrG, ix_of_eq a.size i L hi, Array.toList_setIfInBounds]
  rw [List.take_add_one, List.take_set_of_le (Nat.le_refl L)]
  simp [hL]

/-! ### the row-major flattening -/

theorem flat2_nat (d0 d1 i j : ℕ) : flat2 d0 d1 i j = ((i * d1 + j : ℕ) : ℤ) := by
  have h1 : ¬ ((i : ℤ) < 0) := by omega
  have h2 : ¬ ((j : ℤ) < 0) := by omega
  simp only [flat2, ax, h1, h2, if_false]
  push_cast; rfl

theorem flat3_nat (d0 d1 d2 i j k : ℕ) :
    flat3 d0 d1 d2 i j k = (((i * d1 + j) * d2 + k : ℕ) : ℤ) := by
  have h1 : ¬ ((i : ℤ) < 0) := by omega
  have h2 : ¬ ((j : ℤ) < 0) := by omega
  have h3 : ¬ ((k : ℤ) < 0) := by omega
  simp only [flat3, ax, h1, h2, h3, if_false]
  push_cast; rfl

/-! ### lists and arrays over a field read as functions (`fnl`, `av`: 0 outside) -/

section field
open Hdc.Ws2dGen (av)
open Hdc.Ws2d (fnl)
variable {α : Type} [Field α]

theorem av_toArray (l : List α) (j : ℕ) : av l.toArray j = fnl l j := by
  simp [av, fnl]

theorem av_eq_fnl_toList (a : Array α) (j : ℕ) : av a j = fnl a.toList j := by
  simp [av, fnl]

theorem fnl_dropLast (l : List α) (j : ℕ) (h : j + 1 < l.length) : fnl l.dropLast j = fnl l j := by
  simp only [fnl, List.getD_eq_getElem?_getD, List.dropLast_eq_take]
  rw [List.getElem?_take_of_lt (by omega)]

theorem fnl_tail (l : List α) (j : ℕ) : fnl l.tail j = fnl l (j + 1) := by
  cases l <;> simp [fnl]

theorem fnl_eq_getElem (l : List α) (j : ℕ) (h : j < l.length) : fnl l j = l[j] := by
  simp [fnl, h]

end field

/-! ### slices -/

/-- `a[:-1]` is `dropLast` (any length, including 0) -/
theorem pySliceG_init {γ : Type} (l : List γ) : pySliceG l.toArray 0 (-1) = l.dropLast.toArray := by
  have h1 : (max (0 : ℤ) (-1 + (l.length : ℤ))).toNat = l.length - 1 := by omega
  have h2 : (min (0 : ℤ) (l.length : ℤ)).toNat = 0 := by omega
  simp only [pySliceG, List.size_toArray, show ((-1 : ℤ) < 0) from by omega,
    show ¬ ((0 : ℤ) < 0) from by omega, if_true, if_false, h1, h2]
  simp [List.dropLast_eq_take]

/-- `a[1:]` is `tail` (any length, including 0) -/
theorem pySliceG_tail {γ : Type} (l : List γ) :
    pySliceG l.toArray 1 (l.toArray.size : ℤ) = l.tail.toArray := by
  have h1 : (min (1 : ℤ) (l.length : ℤ)).toNat = min 1 l.length := by omega
  have h2 : (min (l.length : ℤ) (l.length : ℤ)).toNat = l.length := by omega
  simp only [pySliceG, List.size_toArray, show ¬ ((1 : ℤ) < 0) from by omega,
    show ¬ ((l.length : ℤ) < 0) from by omega, if_false, h1, h2]
  cases l <;> simp

/-! ### loop positions -/

open Lean Elab Tactic Meta in
/-- `py_subst_ranges`: every fact `cur = e ∧ P` about a loop variable `cur` (as `py_ranges` / `pyn_ranges` add them) is
    split and `cur` is replaced by `e` everywhere; `P` stays in the context. -/
elab "py_subst_ranges" : tactic => do
  for _ in [0:16] do
    let g ← getMainGoal
    let found ← g.withContext do
      let lctx ← getLCtx
      let mut r : Option FVarId := none
      for decl in lctx do
        if decl.isImplementationDetail then continue
        let ty ← instantiateMVars decl.type
        if let some (l, _) := ty.and? then
          if let some (_, lhs, _) := l.eq? then
            if lhs.isFVar then
              if !(← lhs.fvarId!.isLetVar) then r := some decl.fvarId
      return r
    match found with
    | none => break
    | some fv =>
      let subgoals ← g.cases fv
      let some s := subgoals[0]? | throwError "py_subst_ranges: unexpected"
      let hEq := s.fields[0]!.fvarId!
      let g'' ← Lean.Meta.subst s.mvarId hEq
      replaceMainGoal [g'']

/-! ### sums and counts as a fold over pairs -/

theorem foldl_pair (l : List (Int × Int)) (a : Int) (c : ℕ) :
    l.foldl (fun (acc : Int × Nat) (p : Int × Int) => (acc.1 + p.1, acc.2 + 1)) (a, c)
      = (a + (l.map fun p => p.1).sum, c + l.length) := by
  induction l generalizing a c with
  | nil => simp
  | cons p ps ih => simp [ih]; omega

end Hdc.PyNpT
