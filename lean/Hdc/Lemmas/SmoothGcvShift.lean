import Hdc.Lemmas.SmoothGcv
/-
The GCV machinery on data shifted by a constant: every score, every MAD and every robust
weight (on the support of the validity weights) is unchanged, every recorded curve is shifted.
-/
namespace Hdc.Smooth
open Hdc Hdc.C01

set_option linter.unusedSectionVars false

variable {α : Type} [Field α] [LinearOrder α] [IsStrictOrderedRing α]

/-- the running best with its curve shifted -/
def shiftB (c : α) (b : Best α) : Best α := ⟨b.score, b.lam, b.ytemp.map (·.map (· + c))⟩

theorem Best.ext' (a b : Best α) (h1 : a.score = b.score) (h2 : a.lam = b.lam)
    (h3 : a.ytemp = b.ytemp) : a = b := by
  cases a; cases b; simp_all

section
variable (G : GFns α) {w Y Y' : List α} (c : α)

/-- residuals against the shifted curve agree where the weights are non-zero -/
theorem resid_masked (hM : MaskedEq w Y' (Y.map (· + c))) (z : List α) (i : ℕ)
    (hw : fn w i ≠ 0) (hi : i < Y.length) (hz : i < z.length) :
    fn (sub2 Y' (z.map (· + c))) i = fn (sub2 Y z) i := by
  have hi' : i < Y'.length := by have := hM.1; simp at this; omega
  rw [fn_sub2 _ _ i hi' (by simpa using hz), fn_sub2 _ _ i hi hz, hM.2 i hw,
    fn_map_of_lt _ _ _ hi, fn_map_of_lt _ _ _ hz]
  ring

theorem sub2_shift_length (hM : MaskedEq w Y' (Y.map (· + c))) (z : List α) :
    (sub2 Y' (z.map (· + c))).length = (sub2 Y z).length := by
  have := hM.1; simp at this
  simp [this]

/-- the GCV score is invariant, the curve is shifted -/
theorem gcvScore_shift (hM : MaskedEq w Y' (Y.map (· + c))) (hsq : G.sqrtw 0 = 0)
    (wt de : List α) (s : α) (hs : SuppIn wt w) (hC : InContract Y wt s) :
    gcvScore G Y' wt de s = ((gcvScore G Y wt de s).1, (gcvScore G Y wt de s).2.map (· + c)) := by
  have hz : ws2d Y' s wt = (ws2d Y s wt).map (· + c) := by
    rw [ws2d_masked hM hs, ws2d_shift hC c]
  have hzl : (ws2d Y s wt).length = Y.length := ws2d_length _ _ _ hC.wlen
  have hres : mul2 (wt.map G.sqrtw) (sub2 Y' ((ws2d Y s wt).map (· + c))) =
      mul2 (wt.map G.sqrtw) (sub2 Y (ws2d Y s wt)) := by
    apply list_eq_of_fn _ _ (by simp only [mul2_length, sub2_shift_length c hM])
    intro i hi
    simp only [mul2_length, List.length_map, sub2_length, lt_min_iff] at hi
    rw [fn_mul2, fn_mul2, fn_map_of_lt _ _ _ hi.1]
    by_cases h0 : fn wt i = 0
    · rw [h0, hsq]; simp
    · rw [resid_masked c hM _ i (hs i h0) (by rw [← hC.wlen]; exact hi.1) (by rw [hzl, ← hC.wlen]; exact hi.1)]
  unfold gcvScore
  simp only [hz, hres]

theorem sweepStep_shift (hM : MaskedEq w Y' (Y.map (· + c))) (hsq : G.sqrtw 0 = 0)
    (wt de : List α) (s : α) (hs : SuppIn wt w) (hC : InContract Y wt s) (b : Best α) :
    sweepStep G Y' wt de (shiftB c b) s = shiftB c (sweepStep G Y wt de b s) := by
  have h := gcvScore_shift G c hM hsq wt de s hs hC
  have h1 : gsc G Y' wt de s = gsc G Y wt de s := by unfold gsc; rw [h]
  have h2 : ws2d Y' s wt = (ws2d Y s wt).map (· + c) := by
    have := congrArg Prod.snd h
    simpa [gcvScore_snd] using this
  unfold sweepStep
  rw [h1]
  show (if gsc G Y wt de s < b.score then cand G Y' wt de s else shiftB c b) = _
  split_ifs
  · unfold cand shiftB; simp only [h1, h2, Option.map_some]
  · rfl

theorem gcvSweep_shift (hM : MaskedEq w Y' (Y.map (· + c))) (hsq : G.sqrtw 0 = 0)
    (wt de lams : List α) (hs : SuppIn wt w) (hC : ∀ s ∈ lams, InContract Y wt s) (b : Best α) :
    gcvSweep G Y' wt de lams (shiftB c b) = shiftB c (gcvSweep G Y wt de lams b) := by
  rw [gcvSweep_eq, gcvSweep_eq]
  induction lams generalizing b with
  | nil => rfl
  | cons s ss ih =>
    simp only [List.foldl_cons]
    rw [sweepStep_shift G c hM hsq wt de s hs (hC s (by simp))]
    exact ih (fun s' hs' => hC s' (List.mem_cons_of_mem _ hs')) _

/-! ### the robust step -/

/-- the selection of the residuals with non-zero weight only sees those residuals -/
theorem rsel_congr (r r' wt : List α) (hl : r.length = r'.length)
    (h : ∀ i, fn wt i ≠ 0 → i < r.length → fn r i = fn r' i) :
    ((r.zip wt).filter fun (_, w) => !(eqv w (nat 0))).map (·.1) =
      ((r'.zip wt).filter fun (_, w) => !(eqv w (nat 0))).map (·.1) := by
  induction r generalizing r' wt with
  | nil =>
    have : r' = [] := List.length_eq_zero_iff.1 (by simpa using hl.symm)
    subst this; rfl
  | cons a as ih =>
    cases r' with
    | nil => simp at hl
    | cons a' as' =>
      cases wt with
      | nil => simp
      | cons v vs =>
        have htail := ih as' vs (by simpa using hl) (by
          intro i hi hlt
          have := h (i + 1) (by rw [show fn (v :: vs) (i + 1) = fn vs i from Ws2d.fnl_cons_succ _ _ _]; exact hi)
            (by simpa using hlt)
          rwa [show fn (a :: as) (i + 1) = fn as i from Ws2d.fnl_cons_succ _ _ _,
            show fn (a' :: as') (i + 1) = fn as' i from Ws2d.fnl_cons_succ _ _ _] at this)
        simp only [List.zip_cons_cons, List.filter_cons]
        by_cases hv : v = 0
        · have : eqv v (nat 0) = true := by rw [eqv_iff, nat_zero]; exact hv
          simp only [this, Bool.not_true, Bool.false_eq_true, if_false]
          exact htail
        · have : eqv v (nat 0) = false := by rw [eqv_eq_false_iff, nat_zero]; exact hv
          simp only [this, Bool.not_false, if_true, List.map_cons]
          have h0 := h 0 (by rw [show fn (v :: vs) 0 = v from Ws2d.fnl_cons_zero _ _]; exact hv) (by simp)
          rw [show fn (a :: as) 0 = a from Ws2d.fnl_cons_zero _ _,
            show fn (a' :: as') 0 = a' from Ws2d.fnl_cons_zero _ _] at h0
          rw [h0, htail]

theorem rselOf_shift (hM : MaskedEq w Y' (Y.map (· + c))) (yt wt : List α) (hs : SuppIn wt w) :
    rselOf Y' (yt.map (· + c)) wt = rselOf Y yt wt := by
  unfold rselOf
  apply rsel_congr _ _ _ (sub2_shift_length c hM yt)
  intro i hi hlt
  rw [sub2_shift_length c hM yt] at hlt
  simp only [sub2_length, lt_min_iff] at hlt
  exact resid_masked c hM yt i (hs i hi) hlt.1 hlt.2

theorem madOf_shift (hM : MaskedEq w Y' (Y.map (· + c))) (yt wt : List α) (hs : SuppIn wt w) :
    madOf Y' (yt.map (· + c)) wt = madOf Y yt wt := by
  unfold madOf; rw [rselOf_shift c hM yt wt hs]

/-- the candidate weights agree on the support of `w` -/
theorem rnewOf_shift (hM : MaskedEq w Y' (Y.map (· + c))) (yt wt de : List α) (s n : α)
    (hs : SuppIn wt w) :
    mul2 w (rnewOf G Y' (yt.map (· + c)) wt de s n) = mul2 w (rnewOf G Y yt wt de s n) := by
  unfold rnewOf
  rw [madOf_shift c hM yt wt hs]
  apply list_eq_of_fn _ _ (by simp only [mul2_length, List.length_map, sub2_shift_length c hM])
  intro i hi
  simp only [mul2_length, List.length_map, sub2_shift_length c hM, lt_min_iff] at hi
  rw [fn_mul2, fn_mul2]
  by_cases h0 : fn w i = 0
  · rw [h0]; simp
  · have hlt := hi.2
    rw [fn_map_of_lt _ _ _ (by rw [sub2_shift_length c hM]; exact hlt), fn_map_of_lt _ _ _ hlt]
    simp only [sub2_length, lt_min_iff] at hlt
    rw [resid_masked c hM yt i h0 hlt.1 hlt.2]

/-! #### the MAD threshold is shift invariant -/

theorem foldl_max_shift (c : α) (xs : List α) (x : α) :
    (xs.map (· + c)).foldl (fun m v => if m < v then v else m) (x + c) =
      xs.foldl (fun m v => if m < v then v else m) x + c := by
  induction xs generalizing x with
  | nil => rfl
  | cons a as ih =>
    simp only [List.map_cons, List.foldl_cons]
    have : (if x + c < a + c then a + c else x + c) = (if x < a then a else x) + c := by
      by_cases h : x < a
      · rw [if_pos h, if_pos (by linarith)]
      · rw [if_neg h, if_neg (by intro h'; exact h (by linarith))]
    rw [this, ih]

theorem foldl_min_shift (c : α) (xs : List α) (x : α) :
    (xs.map (· + c)).foldl (fun m v => if v < m then v else m) (x + c) =
      xs.foldl (fun m v => if v < m then v else m) x + c := by
  induction xs generalizing x with
  | nil => rfl
  | cons a as ih =>
    simp only [List.map_cons, List.foldl_cons]
    have : (if a + c < x + c then a + c else x + c) = (if a < x then a else x) + c := by
      by_cases h : a < x
      · rw [if_pos h, if_pos (by linarith)]
      · rw [if_neg h, if_neg (by intro h'; exact h (by linarith))]
    rw [this, ih]

theorem maxL_shift (c : α) (l : List α) (hl : l ≠ []) : maxL (l.map (· + c)) = maxL l + c := by
  cases l with
  | nil => exact absurd rfl hl
  | cons x xs => exact foldl_max_shift c xs x

theorem minL_shift (c : α) (l : List α) (hl : l ≠ []) : minL (l.map (· + c)) = minL l + c := by
  cases l with
  | nil => exact absurd rfl hl
  | cons x xs => exact foldl_min_shift c xs x

/-- the spread `max − min` is shift invariant (also for the empty list) -/
theorem spread_shift (c : α) (l : List α) :
    maxL (l.map (· + c)) - minL (l.map (· + c)) = maxL l - minL l := by
  by_cases hl : l = []
  · subst hl; rfl
  · rw [maxL_shift c l hl, minL_shift c l hl]; ring

theorem yvOf_map (f : α → α) (Y w : List α) : yvOf (Y.map f) w = (yvOf Y w).map f := by
  unfold yvOf
  induction Y generalizing w with
  | nil => simp
  | cons a as ih =>
    cases w with
    | nil => simp
    | cons v vs =>
      simp only [List.map_cons, List.zip_cons_cons, List.filter_cons]
      split_ifs
      · simp only [List.map_cons, ih]
      · exact ih vs

theorem yvOf_shift (hM : MaskedEq w Y' (Y.map (· + c))) : yvOf Y' w = (yvOf Y w).map (· + c) := by
  rw [← yvOf_map]
  unfold yvOf
  apply rsel_congr _ _ _ hM.1.symm
  intro i hi _
  exact hM.2 i hi

theorem madMinOf_shift (hM : MaskedEq w Y' (Y.map (· + c))) : madMinOf G Y' w = madMinOf G Y w := by
  unfold madMinOf
  rw [yvOf_shift c hM, spread_shift]

/-- the new robust weights agree on the support of `w` -/
theorem robustStep_shift (hM : MaskedEq w Y' (Y.map (· + c))) (yt wt de rw rw' : List α) (s n : α)
    (hs : SuppIn wt w) (hrw : mul2 w rw' = mul2 w rw) :
    mul2 w (robustStep G Y' (yt.map (· + c)) wt de rw' w s n) =
      mul2 w (robustStep G Y yt wt de rw w s n) := by
  rw [robustStep_eq, robustStep_eq, madOf_shift c hM yt wt hs, madMinOf_shift G c hM,
    rnewOf_shift G c hM yt wt de s n hs]
  split_ifs
  · exact rnewOf_shift G c hM yt wt de s n hs
  · exact hrw
  · exact hrw

end

/-! ### the robust loop, relationally -/

/-- relation between the loop state on the shifted data (`st'`) and on the original data (`st`) -/
def ShiftRel (c : α) (w : List α) (st st' : GState α) : Prop :=
  st'.1 = shiftB c st.1 ∧ mul2 w st'.2.1 = mul2 w st.2.1 ∧ st'.2.2 = st.2.2.map (shiftB c)

/-- invariants of the robust loop -/
def RInv (llasPow : List α) (n : ℕ) (st : GState α) : Prop :=
  st.2.1.length = n ∧ (∀ x ∈ st.2.1, 0 ≤ x ∧ x ≤ 1) ∧
    (∀ yt, st.1.ytemp = some yt → yt.length = n ∧ st.1.lam ∈ llasPow) ∧
    (∀ b ∈ st.2.2, b.lam ∈ llasPow)

theorem iterLams_subset (llasPow : List α) (it : ℕ) (hist : List (Best α))
    (h : ∀ b ∈ hist, b.lam ∈ llasPow) : ∀ s ∈ iterLams llasPow it hist, s ∈ llasPow := by
  intro s hs
  unfold iterLams at hs
  split_ifs at hs
  · split at hs
    · rename_i b0 b1 tl
      simp only [List.mem_singleton] at hs
      subst hs
      exact h b1 (by simp)
    · simp at hs
  · exact hs

theorem iterLams_shift (c : α) (llasPow : List α) (it : ℕ) (hist : List (Best α)) :
    iterLams llasPow it (hist.map (shiftB c)) = iterLams llasPow it hist := by
  unfold iterLams
  split_ifs
  · cases hist with
    | nil => rfl
    | cons a t =>
      cases t with
      | nil => rfl
      | cons b t' => rfl
  · rfl

theorem mul2_nonneg (w rw : List α) (hw : ∀ x ∈ w, 0 ≤ x) (hr : ∀ x ∈ rw, 0 ≤ x ∧ x ≤ 1) :
    ∀ x ∈ mul2 w rw, 0 ≤ x := by
  intro x hx
  rw [mul2_eq, List.mem_iff_getElem] at hx
  obtain ⟨i, hi, rfl⟩ := hx
  simp only [List.length_zipWith, lt_min_iff] at hi
  rw [List.getElem_zipWith]
  exact mul_nonneg (hw _ (List.getElem_mem hi.1)) (hr _ (List.getElem_mem hi.2)).1

theorem inContract_mul2 (Y w rw : List α) (s : α) (hn : 4 ≤ Y.length) (hwl : w.length = Y.length)
    (hw : ∀ x ∈ w, 0 ≤ x) (hrl : rw.length = Y.length) (hr : ∀ x ∈ rw, 0 ≤ x ∧ x ≤ 1)
    (hs : 0 < s) (h2 : TwoPos (mul2 w rw)) : InContract Y (mul2 w rw) s where
  len := hn
  wlen := by simp [hwl, hrl]
  lam_pos := hs
  w_nonneg := mul2_nonneg w rw hw hr
  two_pos := h2

section
variable (G : GFns α) {w Y Y' : List α} (c : α)

theorem gstep_rinv (de llasPow : List α) (n : α) (it : ℕ) (st st' : GState α)
    (hwl : w.length = Y.length) (hI : RInv llasPow Y.length st)
    (h : gstep G Y w de llasPow true n it st = some st') : RInv llasPow Y.length st' := by
  obtain ⟨hl, hr, hy, hh⟩ := hI
  unfold gstep at h
  simp only [if_true] at h
  have hsub := iterLams_subset llasPow it st.2.2 hh
  rcases gcvSweep_lam G Y (mul2 w st.2.1) de (iterLams llasPow it st.2.2) st.1 with e | ⟨e1, e2⟩
  · -- the running best did not move
    rw [e] at h
    cases hyt : st.1.ytemp with
    | none => simp [hyt] at h
    | some yt =>
      simp only [hyt, Option.some.injEq] at h
      subst h
      obtain ⟨hyl, hlam⟩ := hy yt hyt
      refine ⟨robustStep_length G Y yt _ de _ w _ n hyl hl, robustStep_range G Y yt _ de _ w _ n hr, ?_, ?_⟩
      · intro yt' hyt'; exact hy yt' hyt'
      · intro b hb
        simp only [List.mem_append, List.mem_singleton] at hb
        rcases hb with hb | rfl
        · exact hh b hb
        · exact hlam
  · generalize gcvSweep G Y (mul2 w st.2.1) de (iterLams llasPow it st.2.2) st.1 = b' at h e1 e2
    have hyl : (ws2d Y b'.lam (mul2 w st.2.1)).length = Y.length :=
      ws2d_length _ _ _ (by simp [hwl, hl])
    simp only [e2, Option.some.injEq] at h
    subst h
    refine ⟨robustStep_length G Y _ _ de _ w _ n hyl hl, robustStep_range G Y _ _ de _ w _ n hr, ?_, ?_⟩
    · intro yt' hyt'
      simp only [e2, Option.some.injEq] at hyt'
      subst hyt'
      exact ⟨hyl, hsub _ e1⟩
    · intro b hb
      simp only [List.mem_append, List.mem_singleton] at hb
      rcases hb with hb | rfl
      · exact hh b hb
      · exact hsub _ e1

theorem gstep_shiftRel (hM : MaskedEq w Y' (Y.map (· + c))) (hsq : G.sqrtw 0 = 0)
    (de llasPow : List α) (n : α) (it : ℕ) (st st' : GState α)
    (hn : 4 ≤ Y.length) (hwl : w.length = Y.length) (hw : ∀ x ∈ w, 0 ≤ x)
    (hpow : ∀ s ∈ llasPow, 0 < s)
    (hI : RInv llasPow Y.length st) (h2 : TwoPos (mul2 w st.2.1)) (hR : ShiftRel c w st st') :
    (gstep G Y w de llasPow true n it st = none → gstep G Y' w de llasPow true n it st' = none) ∧
    (∀ r, gstep G Y w de llasPow true n it st = some r →
      ∃ r', gstep G Y' w de llasPow true n it st' = some r' ∧ ShiftRel c w r r') := by
  obtain ⟨hl, hr, hy, hh⟩ := hI
  obtain ⟨r1, r2, r3⟩ := hR
  have hsub := iterLams_subset llasPow it st.2.2 hh
  have hC : ∀ s ∈ iterLams llasPow it st.2.2, InContract Y (mul2 w st.2.1) s := fun s hs =>
    inContract_mul2 Y w st.2.1 s hn hwl hw hl hr (hpow s (hsub s hs)) h2
  have hsw := gcvSweep_shift G c hM hsq (mul2 w st.2.1) de (iterLams llasPow it st.2.2)
    (suppIn_mul2 _ _) hC st.1
  have key : gstep G Y' w de llasPow true n it st' =
      (match (shiftB c (gcvSweep G Y (mul2 w st.2.1) de (iterLams llasPow it st.2.2) st.1)).ytemp with
        | none => none
        | some yt => some (shiftB c (gcvSweep G Y (mul2 w st.2.1) de (iterLams llasPow it st.2.2) st.1),
            robustStep G Y' yt (mul2 w st.2.1) de st'.2.1 w
              (gcvSweep G Y (mul2 w st.2.1) de (iterLams llasPow it st.2.2) st.1).lam n,
            st.2.2.map (shiftB c) ++
              [shiftB c (gcvSweep G Y (mul2 w st.2.1) de (iterLams llasPow it st.2.2) st.1)])) := by
    unfold gstep
    simp only [if_true]
    rw [r1, r2, r3, iterLams_shift, hsw]
    rfl
  have key0 : gstep G Y w de llasPow true n it st =
      (match (gcvSweep G Y (mul2 w st.2.1) de (iterLams llasPow it st.2.2) st.1).ytemp with
        | none => none
        | some yt => some (gcvSweep G Y (mul2 w st.2.1) de (iterLams llasPow it st.2.2) st.1,
            robustStep G Y yt (mul2 w st.2.1) de st.2.1 w
              (gcvSweep G Y (mul2 w st.2.1) de (iterLams llasPow it st.2.2) st.1).lam n,
            st.2.2 ++ [gcvSweep G Y (mul2 w st.2.1) de (iterLams llasPow it st.2.2) st.1])) := by
    unfold gstep
    simp only [if_true]
    rfl
  rw [key, key0]
  generalize gcvSweep G Y (mul2 w st.2.1) de (iterLams llasPow it st.2.2) st.1 = b'
  obtain ⟨sc, lm, yto⟩ := b'
  cases yto with
  | none => exact ⟨fun _ => rfl, fun r hr => (by cases hr)⟩
  | some yt =>
    refine ⟨fun h => (by cases h), ?_⟩
    intro r hr'
    simp only [Option.some.injEq] at hr'
    subst hr'
    refine ⟨_, rfl, rfl, ?_, ?_⟩
    · exact robustStep_shift G c hM yt _ de _ _ _ n (suppIn_mul2 _ _) r2
    · simp only [List.map_append, List.map_cons, List.map_nil]

/-- a robust step never loses the two positively weighted cells -/
theorem gstep_twoPos (de llasPow : List α) (n : α) (it : ℕ) (st st' : GState α)
    (h2 : TwoPos (mul2 w st.2.1))
    (h : gstep G Y w de llasPow true n it st = some st') : TwoPos (mul2 w st'.2.1) := by
  obtain ⟨_, _, yt, _, e⟩ := gstep_robust_some _ _ _ _ _ _ _ _ _ h
  rw [e]
  exact robustStep_two_pos G Y yt _ de _ w _ n h2

theorem grun_twoPos (de llasPow : List α) (n : α) (k it : ℕ) (st r : GState α)
    (h2 : TwoPos (mul2 w st.2.1))
    (h : grun G Y w de llasPow true n k it st = some r) : TwoPos (mul2 w r.2.1) := by
  induction k generalizing it st with
  | zero =>
    simp only [grun, Option.some.injEq] at h
    subst h; exact h2
  | succ k ih =>
    simp only [grun, Option.bind_eq_some_iff] at h
    obtain ⟨st1, h1, h3⟩ := h
    exact ih _ _ (gstep_twoPos G de llasPow n it st st1 h2 h1) h3

theorem grun_shiftRel (hM : MaskedEq w Y' (Y.map (· + c))) (hsq : G.sqrtw 0 = 0)
    (de llasPow : List α) (n : α) (hn : 4 ≤ Y.length) (hwl : w.length = Y.length)
    (hw : ∀ x ∈ w, 0 ≤ x) (hpow : ∀ s ∈ llasPow, 0 < s) (k it : ℕ) (st st' : GState α)
    (hI : RInv llasPow Y.length st) (hR : ShiftRel c w st st') (h2 : TwoPos (mul2 w st.2.1)) :
    (grun G Y w de llasPow true n k it st = none → grun G Y' w de llasPow true n k it st' = none) ∧
    (∀ r, grun G Y w de llasPow true n k it st = some r →
      ∃ r', grun G Y' w de llasPow true n k it st' = some r' ∧ ShiftRel c w r r' ∧
        RInv llasPow Y.length r) := by
  induction k generalizing it st st' with
  | zero =>
    refine ⟨fun h => (by cases h), ?_⟩
    intro r hr
    simp only [grun, Option.some.injEq] at hr
    subst hr
    exact ⟨st', rfl, hR, hI⟩
  | succ k ih =>
    obtain ⟨g1, g2⟩ := gstep_shiftRel G c hM hsq de llasPow n it st st' hn hwl hw hpow hI h2 hR
    simp only [grun]
    cases hs : gstep G Y w de llasPow true n it st with
    | none =>
      rw [g1 hs]
      exact ⟨fun _ => rfl, fun r hr => (by cases hr)⟩
    | some st1 =>
      obtain ⟨st1', e1, hR1⟩ := g2 st1 hs
      rw [e1]
      simp only [Option.bind_some]
      exact ih (it + 1) st1 st1' (gstep_rinv G de llasPow n it st st1 hwl hI hs) hR1
        (gstep_twoPos G de llasPow n it st st1 h2 hs)

end

section
variable (G : GFns α) {w Y Y' : List α} (c : α)

theorem grun_rinv (de llasPow : List α) (n : α) (hwl : w.length = Y.length) (k it : ℕ)
    (st r : GState α) (hI : RInv llasPow Y.length st)
    (h : grun G Y w de llasPow true n k it st = some r) : RInv llasPow Y.length r := by
  induction k generalizing it st with
  | zero =>
    simp only [grun, Option.some.injEq] at h
    subst h; exact hI
  | succ k ih =>
    simp only [grun, Option.bind_eq_some_iff] at h
    obtain ⟨st1, h1, h2⟩ := h
    exact ih _ _ (gstep_rinv G de llasPow n it st st1 hwl hI h1) h2

theorem mul2_ones' (w Y : List α) (h : w.length = Y.length) :
    mul2 w (Y.map fun _ => (nat 1 : α)) = w := by
  apply list_eq_of_fn _ _ (by simp [h])
  intro i hi
  have hi' : i < w.length := by simpa [h] using hi
  rw [fn_mul2, fn_map_of_lt _ _ _ (by omega)]; simp

/-- the initial state of the loop -/
def gstate0 (G : GFns α) (Y : List α) : GState α :=
  (⟨G.big, nat 0, none⟩, Y.map (fun _ => nat 1), [])

theorem rinv_gstate0 (llasPow : List α) (Y : List α) : RInv llasPow Y.length (gstate0 G Y) := by
  refine ⟨by simp [gstate0], ?_, ?_, ?_⟩
  · intro x hx
    simp only [gstate0, List.mem_map] at hx
    obtain ⟨_, _, rfl⟩ := hx
    simp
  · intro yt hyt; simp [gstate0] at hyt
  · intro b hb; simp [gstate0] at hb

theorem getD_map_shiftB_lam (c : α) (l : List (Best α)) (k : ℕ) (d : Best α) :
    ((l.map (shiftB c)).getD k d).lam = (l.getD k d).lam := by
  by_cases hk : k < l.length
  · simp [List.getD_eq_getElem?_getD, hk, shiftB]
  · simp [List.getD_eq_getElem?_getD, hk]

/-- on shifted data the robust selection returns the same λ and the same final weights -/
theorem gcvSelect_shift_robust (hM : MaskedEq w Y' (Y.map (· + c))) (hsq : G.sqrtw 0 = 0)
    (llas : List α) (hn : 4 ≤ Y.length) (hwl : w.length = Y.length) (hw : ∀ x ∈ w, 0 ≤ x)
    (hpow : ∀ l ∈ llas, 0 < G.pow10 l) (h2 : TwoPos w) :
    gcvSelect G Y' w llas true = gcvSelect G Y w llas true := by
  have hlen : Y'.length = Y.length := by have := hM.1; simpa using this.symm
  have hones : Y'.map (fun _ => (nat 1 : α)) = Y.map (fun _ => (nat 1 : α)) := by
    rw [List.map_const', List.map_const', hlen]
  rw [gcvSelect_unfold, gcvSelect_unfold, hlen, hones]
  simp only [if_true]
  have hpow' : ∀ s ∈ llas.map G.pow10, 0 < s := by
    intro s hs
    rw [List.mem_map] at hs
    obtain ⟨l, hl, rfl⟩ := hs
    exact hpow l hl
  have hR0 : ShiftRel c w (gstate0 G Y) (gstate0 G Y) := ⟨rfl, rfl, rfl⟩
  obtain ⟨g1, g2⟩ := grun_shiftRel G c hM hsq (deigs G Y.length) (llas.map G.pow10) (sumF w) hn hwl hw
    hpow' 4 0 (gstate0 G Y) (gstate0 G Y) (rinv_gstate0 G _ Y) hR0
    (by show TwoPos (mul2 w (Y.map fun _ => (nat 1 : α))); rw [mul2_ones' w Y hwl]; exact h2)
  show Option.map _ (grun G Y' w (deigs G Y.length) (llas.map G.pow10) true (sumF w) 4 0 (gstate0 G Y)) =
    Option.map _ (grun G Y w (deigs G Y.length) (llas.map G.pow10) true (sumF w) 4 0 (gstate0 G Y))
  cases hs : grun G Y w (deigs G Y.length) (llas.map G.pow10) true (sumF w) 4 0 (gstate0 G Y) with
  | none => rw [g1 hs]
  | some r =>
    obtain ⟨r', e, ⟨_, r2, r3⟩, _⟩ := g2 r hs
    rw [e]
    simp only [Option.map_some, Option.some.injEq, Prod.mk.injEq]
    exact ⟨by rw [r3, getD_map_shiftB_lam], r2⟩

end

end Hdc.Smooth
