import Hdc.Lemmas.GenNumTI
import Hdc.Lemmas.SmoothInv
/-
Loop invariants for the refinement proof "generated translation of ws2doptv.py = hand model
`Hdc.optv`" (Hdc/Props/GenNum.lean), one per loop of the source:

  * `WInv`   : the weights loop                 = `weightsOf`, `countValid`;
  * `AccInv` : `a[k] += t` over a list of terms  = `sumF` (used for `fitSS` and for `penSS`);
  * `Holds`  : the first-difference loop         = `diffs`;
  * `Sweep`  : the loop over the λ grid          = the points (log fit, log roughness) of the sweep;
  * `VInv`   : the V-curve loop                  = `vcurve`;
  * `ArgInv` : the first strict minimum          = `argminFirst`.

Nothing in this file mentions the generated kernel.
-/
namespace Hdc.GenNum
open Hdc Hdc.Gen.NumKernels
open Hdc.Ws2dGen (av Upd Holds)
open Hdc.Ws2d (fnl fnl_of_lt fnl_of_le)

set_option linter.unusedSectionVars false

variable {α : Type} [Field α] [LinearOrder α] [IsStrictOrderedRing α]

/-! ### one-cell buffers -/

theorem rd_wr_zero (a : Array α) (v : α) (h : 1 ≤ a.size) : rd (wr a 0 v) 0 = v := by
  rw [rd_of_eq _ 0 0 rfl, av_wr_self a 0 v 0 rfl (by omega)]

theorem wr_single (a : Array α) (v : α) (h : a.size = 1) : (wr a 0 v).toList = [v] := by
  apply Hdc.Ws2dGen.toList_eq_of_av
  · simp [h]
  · intro j hj
    have : j = 0 := by simpa using hj
    subst this
    rw [av_wr_self a 0 v 0 rfl (by omega)]
    simp [fnl]

/-- the translated `ws2d` on list arrays, read as a function -/
theorem av_gen_ws2d (y w : List α) (lam : α) (hlen : w.length = y.length) (h3 : 3 ≤ y.length)
    (j : ℕ) : av (Gen.Ws2d.ws2d y.toArray lam w.toArray) j = fnl (ws2d y lam w) j := by
  rw [av_eq_fnl_toList, C01gen.gen_ws2d_eq_model y w lam hlen h3]

/-! ### left-to-right sums -/

theorem sumF_take_zero (l : List α) : sumF (l.take 0) = 0 := by simp [sumF, nat]

theorem sumF_take_succ (l : List α) (q : ℕ) (hq : q < l.length) :
    sumF (l.take (q + 1)) = sumF (l.take q) + fnl l q := by
  unfold sumF
  rw [List.take_succ_eq_append_getElem hq, List.foldl_append, fnl_of_lt l q hq]
  simp

/-- `a[k] += t` for the terms `t` of a list, in order: cell `k` holds the running `sumF`, the other
    cells are untouched -/
structure AccInv (a0 a : Array α) (k : ℕ) (terms : List α) (q : ℕ) : Prop where
  size : a.size = a0.size
  other : ∀ j, j ≠ k → av a j = av a0 j
  acc : av a k = sumF (terms.take q)

theorem AccInv.init (a0 : Array α) (k : ℕ) (terms : List α) (h0 : av a0 k = 0) :
    AccInv a0 a0 k terms 0 :=
  ⟨rfl, fun _ _ => rfl, by rw [h0, sumF_take_zero]⟩

/-- `a[k] += t` -/
theorem AccInv.step_wr {a0 a : Array α} {k : ℕ} {terms : List α} {q : ℕ} {t : α} {ci : ℤ}
    (h : AccInv a0 a k terms q) (hk : k < a0.size) (hq : q < terms.length)
    (hci : ci = (k : ℤ)) (ht : t = fnl terms q) :
    AccInv a0 (wr a ci (av a k + t)) k terms (q + 1) := by
  have hu := wr_upd (a0 := a) (v := av a k + t) rfl k hci (by rw [h.size]; exact hk)
  refine ⟨hu.size.trans h.size, fun j hj => by rw [hu.other j hj]; exact h.other j hj, ?_⟩
  rw [hu.self, h.acc, sumF_take_succ terms q hq, ht]

theorem AccInv.final {a0 a : Array α} {k : ℕ} {terms : List α} {q : ℕ}
    (h : AccInv a0 a k terms q) (hq : q = terms.length) : av a k = sumF terms := by
  rw [h.acc, hq, List.take_length]

/-! ### the weights loop -/

/-- the missing-cell test of the V-curve kernels -/
abbrev missNd (nodata : α) : α → Bool := fun x => eqv x nodata

theorem fnl_weightsOf (miss : α → Bool) (y : List α) (i : ℕ) (h : i < y.length) :
    fnl (weightsOf miss y) i = if miss (fnl y i) then 0 else 1 := by
  rw [fnl_of_lt y i h]
  exact Smooth.fn_weightsOf miss y i h

theorem countValid_take_succ (miss : α → Bool) (y : List α) (p : ℕ) (hp : p < y.length) :
    countValid miss (y.take (p + 1)) =
      countValid miss (y.take p) + (if miss (fnl y p) then 0 else 1) := by
  unfold countValid
  rw [List.take_succ_eq_append_getElem hp, List.filter_append, List.length_append,
    fnl_of_lt y p hp]
  by_cases hm : miss y[p] <;> simp [hm]

/-- after `p` passes: cells `< p` of `w` are the model's weights, `n` counts the valid cells -/
structure WInv (nodata : α) (y : List α) (p : ℕ) (w : Array α) (n : ℤ) : Prop where
  hw : Holds y.length (fnl (weightsOf (missNd nodata) y)) p w
  hn : n = (countValid (missNd nodata) (y.take p) : ℤ)

theorem WInv.init (nodata : α) (y : List α) :
    WInv nodata y 0 (Array.replicate y.length (nat 0)) 0 :=
  ⟨⟨by simp, fun j hj => by omega⟩, by simp [countValid]⟩

/-- `w[ii] = 0` -/
theorem WInv.step_miss {nodata : α} {y : List α} {p : ℕ} {w : Array α} {n ci : ℤ}
    (h : WInv nodata y p w n) (hp : p < y.length) (hc : eqv (rd y.toArray ci) nodata = true)
    (hci : ci = (p : ℤ)) : WInv nodata y (p + 1) (wr w ci (nat 0)) n := by
  rw [rd_of_eq _ ci p hci, av_list] at hc
  have hu := wr_upd (a0 := w) (v := (nat 0 : α)) rfl p hci (by rw [h.hw.size]; exact hp)
  refine ⟨h.hw.step hu ?_, ?_⟩
  · rw [fnl_weightsOf _ y p hp, if_pos hc]; simp [nat]
  · rw [h.hn, countValid_take_succ _ y p hp, if_pos hc]; simp

/-- `n += 1; w[ii] = 1` -/
theorem WInv.step_valid {nodata : α} {y : List α} {p : ℕ} {w : Array α} {n ci : ℤ}
    (h : WInv nodata y p w n) (hp : p < y.length) (hc : ¬ eqv (rd y.toArray ci) nodata = true)
    (hci : ci = (p : ℤ)) : WInv nodata y (p + 1) (wr w ci (nat 1)) (n + 1) := by
  rw [rd_of_eq _ ci p hci, av_list] at hc
  have hu := wr_upd (a0 := w) (v := (nat 1 : α)) rfl p hci (by rw [h.hw.size]; exact hp)
  refine ⟨h.hw.step hu ?_, ?_⟩
  · rw [fnl_weightsOf _ y p hp, if_neg hc]; simp [nat]
  · rw [h.hn, countValid_take_succ _ y p hp, if_neg hc]; simp

theorem WInv.final {nodata : α} {y : List α} {p : ℕ} {w : Array α} {n : ℤ}
    (h : WInv nodata y p w n) (hp : p = y.length) :
    w = (weightsOf (missNd nodata) y).toArray ∧ n = (countValid (missNd nodata) y : ℤ) := by
  subst hp
  refine ⟨eq_toArray_of_av _ _ (by rw [h.hw.size]; simp) (fun j hj => ?_), ?_⟩
  · exact h.hw.get j (by simpa using hj)
  · rw [h.hn, List.take_length]

/-! ### first differences and the terms of the two sums -/

theorem fnl_diffs (z : List α) (i : ℕ) (hi : i + 1 < z.length) :
    fnl (diffs z) i = fnl z (i + 1) - fnl z i := Smooth.fn_diffs z i hi

theorem fnl_fitTerms (w y z : List α) (i : ℕ) (h1 : i < w.length) (h2 : i < y.length)
    (h3 : i < z.length) :
    fnl (fitTerms w y z) i = fnl w i * (fnl y i - fnl z i) * (fnl w i * (fnl y i - fnl z i)) := by
  have := Smooth.fn_fitTerms w y z i h1 h2 h3
  unfold C01.fn at this
  unfold fnl
  rw [this]; ring

/-- the terms `(Δ² z)²` of the roughness -/
def penTerms (z : List α) : List α := (diffs (diffs z)).map fun t => t * t

theorem penSS_eq (z : List α) : penSS z = sumF (penTerms z) := rfl

theorem penTerms_length (z : List α) : (penTerms z).length = z.length - 2 := by
  unfold penTerms
  rw [List.length_map, Smooth.diffs_length, Smooth.diffs_length]
  omega

theorem fnl_penTerms (z : List α) (i : ℕ) (hi : i + 2 < z.length) :
    fnl (penTerms z) i =
      (fnl (diffs z) (i + 1) - fnl (diffs z) i) * (fnl (diffs z) (i + 1) - fnl (diffs z) i) := by
  have hl : i < (diffs (diffs z)).length := by
    rw [Smooth.diffs_length, Smooth.diffs_length]; omega
  rw [fnl_of_lt _ i (by rw [penTerms_length]; omega)]
  unfold penTerms
  rw [List.getElem_map, ← fnl_of_lt _ i hl,
    fnl_diffs (diffs z) i (by rw [Smooth.diffs_length]; omega)]

theorem fitTerms_length' (w y z : List α) (hw : w.length = y.length) (hz : z.length = y.length) :
    (fitTerms w y z).length = y.length := by
  rw [Smooth.fitTerms_length, hw, hz, min_self, min_self]

/-! ### the sweep over the λ grid -/

section sweep
variable (F : VFns α) (wl y llas : List α)

/-- the smoothed curve at grid point `l` -/
def zAt (l : α) : List α := ws2d y (F.pow10 l) wl

variable {F wl y} in
theorem zAt_length (hw : wl.length = y.length) (l : α) : (zAt F wl y l).length = y.length :=
  C01.ws2d_length y wl _ hw

/-- log of the fit and of the roughness at grid point `l` -/
def fAt (l : α) : α := F.log (fitSS wl y (zAt F wl y l))
def pAt (l : α) : α := F.log (penSS (zAt F wl y l))

/-- after `p` grid points: cells `< p` of `fits` / `pens` hold the model's values, the cells `≥ p`
    are still zero (the source accumulates in place) -/
structure Sweep (p : ℕ) (fits pens diff1 : Array α) : Prop where
  fsz : fits.size = llas.length
  psz : pens.size = llas.length
  dsz : diff1.size = y.length - 1
  fdone : ∀ j < p, av fits j = fAt F wl y (fnl llas j)
  pdone : ∀ j < p, av pens j = pAt F wl y (fnl llas j)
  frest : ∀ j, p ≤ j → av fits j = 0
  prest : ∀ j, p ≤ j → av pens j = 0

theorem Sweep.init (nl m1 : ℕ) (hnl : nl = llas.length) (hm : m1 = y.length - 1) :
    Sweep F wl y llas 0 (Array.replicate nl (nat 0)) (Array.replicate nl (nat 0))
      (Array.replicate m1 (nat 0)) := by
  subst hnl hm
  refine ⟨by simp, by simp, by simp, fun j hj => by omega, fun j hj => by omega, ?_, ?_⟩ <;>
  · intro j _
    simpa [nat] using Hdc.Ws2dGen.av_replicate (α := α) llas.length j

variable {F wl y llas}

/-- one grid point: the two accumulations are complete, their logs are stored -/
theorem Sweep.step {p q1 q2 : ℕ} {fits pens d fits1 pens1 d' : Array α} {z : List α} {ci : ℤ}
    (hS : Sweep F wl y llas p fits pens d) (hp : p < llas.length)
    (hz : z = zAt F wl y (fnl llas p))
    (hF : AccInv fits fits1 p (fitTerms wl y z) q1) (hq1 : q1 = (fitTerms wl y z).length)
    (hP : AccInv pens pens1 p (penTerms z) q2) (hq2 : q2 = (penTerms z).length)
    (hd : d'.size = y.length - 1) (hci : ci = (p : ℤ)) :
    Sweep F wl y llas (p + 1) (wr fits1 ci (F.log (av fits1 p)))
      (wr pens1 ci (F.log (av pens1 p))) d' := by
  have huf := wr_upd (a0 := fits1) (v := F.log (av fits1 p)) rfl p hci
    (by rw [hF.size, hS.fsz]; exact hp)
  have hup := wr_upd (a0 := pens1) (v := F.log (av pens1 p)) rfl p hci
    (by rw [hP.size, hS.psz]; exact hp)
  refine ⟨huf.size.trans (hF.size.trans hS.fsz), hup.size.trans (hP.size.trans hS.psz), hd,
    fun j hj => ?_, fun j hj => ?_, fun j hj => ?_, fun j hj => ?_⟩
  · by_cases hjp : j = p
    · subst hjp
      rw [huf.self, hF.final hq1, hz]; rfl
    · rw [huf.other j hjp, hF.other j hjp]; exact hS.fdone j (by omega)
  · by_cases hjp : j = p
    · subst hjp
      rw [hup.self, hP.final hq2, hz]; rfl
    · rw [hup.other j hjp, hP.other j hjp]; exact hS.pdone j (by omega)
  · rw [huf.other j (by omega), hF.other j (by omega)]; exact hS.frest j (by omega)
  · rw [hup.other j (by omega), hP.other j (by omega)]; exact hS.prest j (by omega)

/-! ### the V-curve -/

variable (F wl y llas)

/-- the points of the sweep -/
def vpt (l : α) : α × α × α := (l, fAt F wl y l, pAt F wl y l)

/-- the V-curve of the model: `(v[i], lamids[i])` -/
def vcl : List (α × α) := vcurve F (gridStep llas) (llas.map (vpt F wl y))

/-- … read as a function -/
def vcf (j : ℕ) : α × α := (vcl F wl y llas).getD j (0, 0)

theorem vcl_length : (vcl F wl y llas).length = llas.length - 1 := by
  unfold vcl; rw [Smooth.vcurve_length, List.length_map]

theorem gridStep_eq (h2 : 2 ≤ llas.length) : gridStep llas = fnl llas 1 - fnl llas 0 := by
  match llas, h2 with
  | a :: b :: rest, _ => simp [gridStep, fnl]

theorem vcf_eq (j : ℕ) (hj : j + 1 < llas.length) :
    vcf F wl y llas j =
      (F.sqrt ((fAt F wl y (fnl llas (j + 1)) - fAt F wl y (fnl llas j))
            * (fAt F wl y (fnl llas (j + 1)) - fAt F wl y (fnl llas j))
          + (pAt F wl y (fnl llas (j + 1)) - pAt F wl y (fnl llas j))
            * (pAt F wl y (fnl llas (j + 1)) - pAt F wl y (fnl llas j)))
        / (F.ln10 * (fnl llas 1 - fnl llas 0)),
       (fnl llas j + fnl llas (j + 1)) / 2) := by
  have hl : j < (vcl F wl y llas).length := by rw [vcl_length]; omega
  unfold vcf
  rw [List.getD_eq_getElem?_getD, List.getElem?_eq_getElem hl, Option.getD_some]
  have hg := Smooth.vcurve_getElem F (gridStep llas) (llas.map (vpt F wl y)) j
    (by rw [List.length_map]; exact hj)
  refine hg.trans ?_
  simp only [List.getElem_map, vpt, Smooth.vval, gridStep_eq llas (by omega),
    fnl_of_lt llas j (by omega), fnl_of_lt llas (j + 1) hj]

/-- after `p` passes: cells `< p` of `v` and `lamids` hold the model's V-curve -/
structure VInv (p : ℕ) (lamids v : Array α) : Prop where
  hv : Holds (llas.length - 1) (fun j => (vcf F wl y llas j).1) p v
  hl : Holds (llas.length - 1) (fun j => (vcf F wl y llas j).2) p lamids

theorem VInv.init (n1 : ℕ) (hn : n1 = llas.length - 1) :
    VInv F wl y llas 0 (Array.replicate n1 (nat 0)) (Array.replicate n1 (nat 0)) := by
  subst hn
  exact ⟨⟨by simp, fun j hj => by omega⟩, ⟨by simp, fun j hj => by omega⟩⟩

variable {F wl y llas}

theorem VInv.step {p : ℕ} {lamids v lamids' v' : Array α} {lval vval : α}
    (h : VInv F wl y llas p lamids v) (hul : Upd lamids' lamids p lval) (huv : Upd v' v p vval)
    (hl : lval = (vcf F wl y llas p).2) (hv : vval = (vcf F wl y llas p).1) :
    VInv F wl y llas (p + 1) lamids' v' :=
  ⟨h.hv.step huv hv, h.hl.step hul hl⟩

/-! ### the first strict minimum -/

/-- `if v[i] < vmin` -/
def sel (best c : α × α) : α × α := if c.1 < best.1 then c else best

/-- the running minimum after `p` comparisons -/
def amin (vc : List (α × α)) (p : ℕ) : α × α :=
  ((vc.drop 1).take p).foldl sel (vc.getD 0 (0, 0))

theorem amin_zero (vc : List (α × α)) : amin vc 0 = vc.getD 0 (0, 0) := by simp [amin]

theorem amin_succ (vc : List (α × α)) (p : ℕ) (hp : p + 1 < vc.length) :
    amin vc (p + 1) = sel (amin vc p) (vc.getD (p + 1) (0, 0)) := by
  unfold amin
  have hq : p < (vc.drop 1).length := by rw [List.length_drop]; omega
  rw [List.take_succ_eq_append_getElem hq, List.foldl_append]
  simp only [List.foldl_cons, List.foldl_nil, List.getElem_drop]
  congr 1
  rw [List.getD_eq_getElem?_getD, List.getElem?_eq_getElem hp, Option.getD_some]
  congr 1
  omega

theorem argminFirst_eq (vc : List (α × α)) (h : 1 ≤ vc.length) :
    argminFirst vc = some (amin vc (vc.length - 1)) := by
  match vc, h with
  | x :: xs, _ =>
    simp only [argminFirst, amin, List.drop_one, List.tail_cons, List.length_cons,
      Nat.add_sub_cancel, List.take_length, List.getD_cons_zero]
    rfl

variable (F wl y llas)

/-- after `p` comparisons: `k` is the index of the running minimum `vmin` -/
def ArgInv (p : ℕ) (k : ℤ) (vmin : α) : Prop :=
  ∃ kn : ℕ, k = (kn : ℤ) ∧ kn + 1 < llas.length ∧
    vcf F wl y llas kn = amin (vcl F wl y llas) p ∧ vmin = (amin (vcl F wl y llas) p).1

variable {F wl y llas}

theorem ArgInv.init {vmin : α} (h2 : 2 ≤ llas.length) (hv : vmin = (vcf F wl y llas 0).1) :
    ArgInv F wl y llas 0 0 vmin :=
  ⟨0, rfl, by omega, by rw [amin_zero]; rfl, by rw [amin_zero]; exact hv⟩

/-- `vmin = v[i]; k = i` -/
theorem ArgInv.step_lt {p : ℕ} {k ci : ℤ} {vmin c : α} (h : ArgInv F wl y llas p k vmin)
    (hp : p + 2 < llas.length) (hc : c = (vcf F wl y llas (p + 1)).1) (hlt : c < vmin)
    (hci : ci = (p : ℤ) + 1) : ArgInv F wl y llas (p + 1) ci c := by
  obtain ⟨kn, _, _, _, hm⟩ := h
  have hs := amin_succ (vcl F wl y llas) p (by rw [vcl_length]; omega)
  have hsel : amin (vcl F wl y llas) (p + 1) = vcf F wl y llas (p + 1) := by
    rw [hs, sel, if_pos (by rw [← hm]; change (vcf F wl y llas (p + 1)).1 < vmin; rw [← hc]; exact hlt)]
    rfl
  exact ⟨p + 1, by rw [hci]; push_cast; ring, by omega, hsel.symm, by rw [hsel]; exact hc⟩

theorem ArgInv.step_ge {p : ℕ} {k : ℤ} {vmin c : α} (h : ArgInv F wl y llas p k vmin)
    (hp : p + 2 < llas.length) (hc : c = (vcf F wl y llas (p + 1)).1) (hge : ¬ c < vmin) :
    ArgInv F wl y llas (p + 1) k vmin := by
  obtain ⟨kn, hk, hkn, hb, hm⟩ := h
  have hs := amin_succ (vcl F wl y llas) p (by rw [vcl_length]; omega)
  have hsel : amin (vcl F wl y llas) (p + 1) = amin (vcl F wl y llas) p := by
    rw [hs, sel, if_neg (by rw [← hm]; change ¬ (vcf F wl y llas (p + 1)).1 < vmin; rw [← hc]; exact hge)]
  exact ⟨kn, hk, hkn, by rw [hsel]; exact hb, by rw [hsel]; exact hm⟩

/-! ### the model, in the terms of the invariants -/

/-- the λ the model selects (as its log₁₀) -/
def lbest (F : VFns α) (wl y llas : List α) : α :=
  (amin (vcl F wl y llas) (llas.length - 2)).2

theorem optv_valid (F : VFns α) (miss : α → Bool) (y llas : List α)
    (h1 : 1 < countValid miss y) (h2 : 2 ≤ llas.length) :
    optv F miss y llas =
      some (ws2d y (F.pow10 (lbest F (weightsOf miss y) y llas)) (weightsOf miss y),
        F.pow10 (lbest F (weightsOf miss y) y llas)) := by
  rw [Smooth.optv_unfold, if_pos h1, Smooth.vselect_eq, Smooth.vpts_unit]
  have hvc : vcurve F (gridStep llas)
      (llas.map fun l => (l, F.log (fitSS (weightsOf miss y) y (ws2d y (F.pow10 l) (weightsOf miss y))),
        F.log (penSS (ws2d y (F.pow10 l) (weightsOf miss y))))) = vcl F (weightsOf miss y) y llas := rfl
  rw [hvc, argminFirst_eq _ (by rw [vcl_length]; omega), vcl_length]
  simp only [Option.map_some, lbest]
  congr 4

theorem optv_invalid (F : VFns α) (miss : α → Bool) (y llas : List α)
    (h1 : ¬ 1 < countValid miss y) : optv F miss y llas = none := by
  rw [Smooth.optv_unfold, if_neg h1]

/-- at the end of the minimum loop `lamids[k]` is the model's choice -/
theorem ArgInv.final {p : ℕ} {k : ℤ} {vmin : α} {lamids v : Array α}
    (h : ArgInv F wl y llas p k vmin) (hp : p + 2 = llas.length)
    (hV : VInv F wl y llas (llas.length - 1) lamids v) :
    rd lamids k = lbest F wl y llas := by
  obtain ⟨kn, hk, hkn, hb, _⟩ := h
  rw [rd_of_eq lamids k kn hk, hV.hl.get kn (by omega), hb, lbest]
  congr 2
  omega

end sweep

end Hdc.GenNum
