import Hdc.Lemmas.StatsMedian
/-
Lemmas about `slopesFrom` / `sensSlope` (Theil-Sen slope of the Mann-Kendall model).
-/
namespace Hdc.Stats

set_option linter.unusedSectionVars false

variable {α : Type} [Field α] [LinearOrder α] [IsStrictOrderedRing α]

theorem slopesFrom_nil (i : ℕ) : slopesFrom i ([] : List α) = [] := rfl

theorem slopesFrom_cons (i : ℕ) (x : α) (xs : List α) :
    slopesFrom i (x :: xs)
      = (xs.zipIdx.map fun (v, k) => (v - x) / nat (k + 1)) ++ slopesFrom (i + 1) xs := rfl

/-- the start index is not used -/
theorem slopesFrom_index (i j : ℕ) (x : List α) : slopesFrom i x = slopesFrom j x := by
  induction x generalizing i j with
  | nil => rfl
  | cons a xs ih => rw [slopesFrom_cons, slopesFrom_cons, ih (i + 1) (j + 1)]

theorem slopesFrom_length_two (i : ℕ) (x : List α) :
    2 * (slopesFrom i x).length = x.length * (x.length - 1) := by
  induction x generalizing i with
  | nil => rfl
  | cons a xs ih =>
    rw [slopesFrom_cons, List.length_append, List.length_map, List.length_zipIdx, Nat.mul_add,
      ih (i + 1), List.length_cons]
    cases xs.length with
    | zero => rfl
    | succ m => simp only [Nat.add_sub_cancel]; ring

theorem slopesFrom_length (i : ℕ) (x : List α) :
    (slopesFrom i x).length = x.length * (x.length - 1) / 2 := by
  rw [← slopesFrom_length_two i x]; omega

/-- pairwise slopes under a map `g` of the data that acts as `h` on divided differences -/
theorem slopesFrom_map (g h : α → α) (hgh : ∀ v x k : α, (g v - g x) / k = h ((v - x) / k))
    (i : ℕ) (x : List α) : slopesFrom i (x.map g) = (slopesFrom i x).map h := by
  induction x generalizing i with
  | nil => rfl
  | cons a xs ih =>
    rw [List.map_cons, slopesFrom_cons, slopesFrom_cons, ih (i + 1), List.map_append,
      List.zipIdx_map, List.map_map, List.map_map]
    congr 1
    apply List.map_congr_left
    rintro ⟨v, k⟩ _
    simp only [Function.comp, Prod.map, id]
    exact hgh v a _

theorem slopesFrom_map_mul (a : α) (i : ℕ) (x : List α) :
    slopesFrom i (x.map (a * ·)) = (slopesFrom i x).map (a * ·) :=
  slopesFrom_map _ _ (fun v x k => by ring) i x

theorem slopesFrom_map_neg (i : ℕ) (x : List α) :
    slopesFrom i (x.map Neg.neg) = (slopesFrom i x).map Neg.neg :=
  slopesFrom_map _ _ (fun v x k => by ring) i x

theorem slopesFrom_map_add (c : α) (i : ℕ) (x : List α) :
    slopesFrom i (x.map (· + c)) = slopesFrom i x := by
  have := slopesFrom_map (· + c) id (fun v x k => by simp) i x
  rw [this, List.map_id]

/-- all divided differences `(x_j - x_i)/(j - i)`, `i < j`, listed by `i` and then by `k = j - i - 1` -/
def pairSlopesL (x : List α) : List α :=
  (List.range x.length).flatMap fun i =>
    (List.range (x.length - 1 - i)).map fun k => (x.getD (i + k + 1) 0 - x.getD i 0) / ((k : α) + 1)

theorem zipIdx_map_eq_range {γ δ : Type} (l : List γ) (d : γ) (F : γ × ℕ → δ) :
    l.zipIdx.map F = (List.range l.length).map fun k => F (l.getD k d, k) := by
  apply List.ext_getElem
  · simp
  · intro i h1 h2
    have hi : i < l.length := by simpa using h1
    simp [hi]

theorem slopesFrom_eq_pairSlopesL (i : ℕ) (x : List α) : slopesFrom i x = pairSlopesL x := by
  induction x generalizing i with
  | nil => rfl
  | cons a xs ih =>
    rw [slopesFrom_cons, ih (i + 1)]
    unfold pairSlopesL
    rw [List.length_cons, List.range_succ_eq_map, List.flatMap_cons, List.flatMap_map]
    congr 1
    · rw [zipIdx_map_eq_range xs 0]
      simp only [Nat.add_sub_cancel, Nat.sub_zero, Nat.zero_add, List.getD_cons_succ,
        List.getD_cons_zero]
      apply List.map_congr_left
      intro k _
      simp [nat]
    · apply List.flatMap_congr
      intro j _
      have e : xs.length + 1 - 1 - (j + 1) = xs.length - 1 - j := by omega
      rw [e]
      apply List.map_congr_left
      intro k _
      have e2 : j + 1 + k + 1 = (j + k + 1) + 1 := by omega
      rw [e2, List.getD_cons_succ, List.getD_cons_succ]

/-! ### reversal of the series -/

theorem sortL_eq_of_perm {β : Type} [LinearOrder β] (l l' : List β) (h : l.Perm l') :
    sortL l = sortL l' :=
  sortL_unique l' (sortL l) ((sortL_perm l).trans h) (sortL_pairwise l)

theorem median_eq_of_perm (l l' : List α) (h : l.Perm l') : median l = median l' := by
  rw [median_eq, median_eq, sortL_eq_of_perm l l' h, h.length_eq]

/-- slopes towards an element appended at the end -/
def slopesTo (a : α) (xs : List α) : List α :=
  xs.reverse.zipIdx.map fun (v, k) => (a - v) / nat (k + 1)

theorem slopesFrom_append_singleton (i : ℕ) (xs : List α) (a : α) :
    (slopesFrom i (xs ++ [a])).Perm (slopesFrom i xs ++ slopesTo a xs) := by
  induction xs generalizing i with
  | nil => simp [slopesFrom, slopesTo]
  | cons y ys ih =>
    rw [List.cons_append, slopesFrom_cons, slopesFrom_cons]
    unfold slopesTo
    rw [List.reverse_cons, List.zipIdx_append, List.zipIdx_append, List.map_append, List.map_append]
    simp only [List.zipIdx_cons, List.zipIdx_nil, List.map_cons, List.map_nil, Nat.zero_add,
      List.length_reverse]
    have ih' := ih (i + 1)
    unfold slopesTo at ih'
    -- A ++ [e] ++ S'  ~  A ++ S ++ (T ++ [e])
    refine (List.Perm.append_left _ ih').trans ?_
    simp only [List.append_assoc]
    refine List.Perm.append_left _ ?_
    refine (List.perm_append_comm (l₁ := [_])).trans ?_
    simp only [List.append_assoc]
    exact List.Perm.refl _

theorem slopesTo_eq (a : α) (xs : List α) :
    slopesTo a xs.reverse = (xs.zipIdx.map fun (v, k) => (v - a) / nat (k + 1)).map Neg.neg := by
  unfold slopesTo
  rw [List.reverse_reverse, List.map_map]
  apply List.map_congr_left
  rintro ⟨v, k⟩ _
  simp only [Function.comp]
  ring

theorem slopesFrom_reverse (i : ℕ) (x : List α) :
    (slopesFrom i x.reverse).Perm ((slopesFrom i x).map Neg.neg) := by
  induction x generalizing i with
  | nil => simp [slopesFrom]
  | cons a xs ih =>
    rw [List.reverse_cons, slopesFrom_cons, List.map_append]
    refine (slopesFrom_append_singleton i xs.reverse a).trans ?_
    rw [slopesTo_eq]
    refine (List.perm_append_comm).trans ?_
    refine List.Perm.append_left _ ?_
    rw [slopesFrom_index (i + 1) i xs]
    exact ih i

theorem sensSlope_reverse (x : List α) : sensSlope x.reverse = - sensSlope x := by
  unfold sensSlope
  rw [median_eq_of_perm _ _ (slopesFrom_reverse 0 x), median_map_neg]

end Hdc.Stats
