import Hdc.Lemmas.Ws2dRows
import Hdc.Lemmas.Ws2dSpec
/-
The link between the program's rows and the specification: applying `W + λ DᵀD` to a vector
equals applying `L D Lᵀ` built from the rows (`apply_eq`), whence the normal equations for the
output (`normal_eq_fn`) and positivity of the pivots (`pivots_pos_fn`).
-/
namespace Hdc.Ws2d
open Finset

section core
variable {α : Type} [Field α]
variable (lam : α) (n : ℕ) (W Y : ℕ → α)

/-- `tS x k` is `(Lᵀ x)_{k-2}` : `x_i + c_i x_{i+1} + e_i x_{i+2}` at `i = k - 2` -/
def tS (x : ℕ → α) : ℕ → α
  | 0 => 0
  | 1 => 0
  | k + 2 => x k + (RS lam n W Y (k + 2)).c * x (k + 1) + (RS lam n W Y (k + 2)).e * x (k + 2)

theorem core_alg (A B Bp lam lam2 d c e d1 c1 e1 d2 c2 e2 xm2 xm1 x0 x1 x2 : α)
    (hd : d = A - c1 ^ 2 * d1 - e2 ^ 2 * d2)
    (hc : d * c * x1 = (B - d1 * c1 * e1) * x1)
    (he : d * e * x2 = lam * x2)
    (hc1 : d1 * c1 = Bp - d2 * c2 * e2)
    (he2 : d2 * e2 = lam2) :
    A * x0 + Bp * xm1 + lam2 * xm2 + B * x1 + lam * x2 =
      d * (x0 + c * x1 + e * x2) + c1 * d1 * (xm1 + c1 * x0 + e1 * x1)
        + e2 * d2 * (xm2 + c2 * xm1 + e2 * x0) := by
  linear_combination (-x0) * hd - hc - he - xm1 * hc1 - xm2 * he2

local notation "R" => RS lam n W Y
local notation "T" => tS lam n W Y

/-- `(W + λ DᵀD) x` at row `i` equals `(L D Lᵀ x)` at row `i`, provided the pivots before `i`
are nonzero and either pivot `i` is nonzero or `x` vanishes after `i`. -/
theorem apply_eq (hn : 4 ≤ n) (x : ℕ → α) (hx : ∀ j, n ≤ j → x j = 0) (i : ℕ) (hi : i < n)
    (hprev : ∀ j < i, (R (j + 2)).d ≠ 0)
    (hcur : (R (i + 2)).d ≠ 0 ∨ (x (i + 1) = 0 ∧ x (i + 2) = 0)) :
    W i * x i + lam * dtd n x i =
      (R (i + 2)).d * T x (i + 2) + (R (i + 1)).c * (R (i + 1)).d * T x (i + 1)
        + (R i).e * (R i).d * T x i := by
  have hd := RS_d lam n W Y i
  have hcx : (R (i + 2)).d * (R (i + 2)).c * x (i + 1) =
      (-(supCoef n i : α) * lam - (R (i + 1)).d * (R (i + 1)).c * (R (i + 1)).e) * x (i + 1) := by
    rcases hcur with h | h
    · rw [RS_c lam n W Y i h]
    · rw [h.1]; simp
  have hex : (R (i + 2)).d * (R (i + 2)).e * x (i + 2) = lam * x (i + 2) := by
    rcases hcur with h | h
    · rw [RS_e lam n W Y i h]
    · rw [h.2]; simp
  rcases i with _ | _ | i
  · -- row 0
    have a1 : (diagCoef n 0 : α) = 1 := by simp [diagCoef]
    have a2 : (supCoef n 0 : α) = 2 := by simp [supCoef]
    rw [a1] at hd; rw [a2] at hcx
    have key := core_alg (W 0 + 1 * lam) (-2 * lam) 0 lam 0 (R 2).d (R 2).c (R 2).e
      0 0 0 0 0 0 0 0 (x 0) (x 1) (x 2)
      (by simpa using hd) (by simpa using hcx) (by simpa using hex) (by simp) (by simp)
    rw [dtd_zero n hn]
    show _ = (R 2).d * (x 0 + (R 2).c * x 1 + (R 2).e * x 2) + (R 1).c * (R 1).d * 0
        + (R 0).e * (R 0).d * 0
    unfold d2
    linear_combination key
  · -- row 1
    have a1 : (diagCoef n 1 : α) = 5 := by
      have : diagCoef n 1 = 5 := by simp [diagCoef]; omega
      rw [this]; norm_num
    have a2 : (supCoef n 1 : α) = 4 := by
      have : supCoef n 1 = 4 := by simp [supCoef]; omega
      rw [this]; norm_num
    have a3 : (supCoef n 0 : α) = 2 := by simp [supCoef]
    have hc1 := RS_c lam n W Y 0 (hprev 0 (by omega))
    rw [a3] at hc1
    rw [a1] at hd; rw [a2] at hcx
    have key := core_alg (W 1 + 5 * lam) (-4 * lam) (-2 * lam) lam 0 (R 3).d (R 3).c (R 3).e
      (R 2).d (R 2).c (R 2).e 0 0 0 0 (x 0) (x 1) (x 2) (x 3)
      (by simpa using hd) (by simpa using hcx) (by simpa using hex) (by simpa using hc1) (by simp)
    rw [dtd_one n hn]
    show _ = (R 3).d * (x 1 + (R 3).c * x 2 + (R 3).e * x 3)
        + (R 2).c * (R 2).d * (x 0 + (R 2).c * x 1 + (R 2).e * x 2) + (R 1).e * (R 1).d * 0
    unfold d2
    linear_combination key
  · -- rows ≥ 2
    have hc1 := RS_c lam n W Y (i + 1) (hprev (i + 1) (by omega))
    have he2 := RS_e lam n W Y i (hprev i (by omega))
    have key := fun A B Bp hd hc hc1 =>
      core_alg A B Bp lam lam (R (i + 4)).d (R (i + 4)).c (R (i + 4)).e
      (R (i + 3)).d (R (i + 3)).c (R (i + 3)).e (R (i + 2)).d (R (i + 2)).c (R (i + 2)).e
      (x i) (x (i + 1)) (x (i + 2)) (x (i + 3)) (x (i + 4)) hd hc hex hc1 he2
    show W (i + 2) * x (i + 2) + lam * dtd n x (i + 2) =
      (R (i + 4)).d * (x (i + 2) + (R (i + 4)).c * x (i + 3) + (R (i + 4)).e * x (i + 4))
        + (R (i + 3)).c * (R (i + 3)).d
          * (x (i + 1) + (R (i + 3)).c * x (i + 2) + (R (i + 3)).e * x (i + 3))
        + (R (i + 2)).e * (R (i + 2)).d
          * (x i + (R (i + 2)).c * x (i + 1) + (R (i + 2)).e * x (i + 2))
    rcases Nat.lt_or_ge (i + 4) n with h | h
    · -- interior
      have a1 : (diagCoef n (i + 2) : α) = 6 := by
        have : diagCoef n (i + 2) = 6 := by
          unfold diagCoef; rw [if_neg (by omega), if_neg (by omega)]
        rw [this]; norm_num
      have a2 : (supCoef n (i + 2) : α) = 4 := by
        have : supCoef n (i + 2) = 4 := by unfold supCoef; rw [if_neg (by omega)]
        rw [this]; norm_num
      have a3 : (supCoef n (i + 1) : α) = 4 := by
        have : supCoef n (i + 1) = 4 := by unfold supCoef; rw [if_neg (by omega)]
        rw [this]; norm_num
      rw [a1] at hd; rw [a2] at hcx; rw [a3] at hc1
      have := key (W (i + 2) + 6 * lam) (-4 * lam) (-4 * lam) hd hcx hc1
      rw [dtd_mid n x i h]
      unfold d2
      linear_combination this
    · rcases Nat.lt_or_ge (i + 3) n with h' | h'
      · -- row n-2
        have hn' : i + 4 = n := by omega
        have a1 : (diagCoef n (i + 2) : α) = 5 := by
          have : diagCoef n (i + 2) = 5 := by
            unfold diagCoef; rw [if_neg (by omega), if_pos (by omega)]
          rw [this]; norm_num
        have a2 : (supCoef n (i + 2) : α) = 2 := by
          have : supCoef n (i + 2) = 2 := by unfold supCoef; rw [if_pos (by omega)]
          rw [this]; norm_num
        have a3 : (supCoef n (i + 1) : α) = 4 := by
          have : supCoef n (i + 1) = 4 := by unfold supCoef; rw [if_neg (by omega)]
          rw [this]; norm_num
        rw [a1] at hd; rw [a2] at hcx; rw [a3] at hc1
        have := key (W (i + 2) + 5 * lam) (-2 * lam) (-4 * lam) hd hcx hc1
        have z4 : x (i + 4) = 0 := hx _ (by omega)
        rw [dtd_penult n x i hn']
        unfold d2
        rw [z4] at this ⊢
        linear_combination this
      · -- row n-1
        have hn' : i + 3 = n := by omega
        have a1 : (diagCoef n (i + 2) : α) = 1 := by
          have : diagCoef n (i + 2) = 1 := by
            unfold diagCoef; rw [if_pos (by omega)]
          rw [this]; norm_num
        have a3 : (supCoef n (i + 1) : α) = 2 := by
          have : supCoef n (i + 1) = 2 := by unfold supCoef; rw [if_pos (by omega)]
          rw [this]; norm_num
        rw [a1] at hd; rw [a3] at hc1
        have := key (W (i + 2) + 1 * lam) (-(supCoef n (i + 2) : α) * lam) (-2 * lam)
          hd hcx hc1
        have z3 : x (i + 3) = 0 := hx _ (by omega)
        have z4 : x (i + 4) = 0 := hx _ (by omega)
        rw [dtd_last n x i hn']
        unfold d2
        rw [z3, z4] at this ⊢
        linear_combination this

/-- a vector with `x_k = 1`, zero beyond `k`, and `(Lᵀ x)_j = 0` for `j < k` -/
theorem exists_test_vector (c e : ℕ → α) (k : ℕ) :
    ∃ x : ℕ → α, x k = 1 ∧ (∀ j, k < j → x j = 0) ∧
      ∀ j < k, x j + c j * x (j + 1) + e j * x (j + 2) = 0 := by
  induction k generalizing c e with
  | zero =>
    refine ⟨fun j => if j = 0 then 1 else 0, by simp, ?_, ?_⟩
    · intro j hj; simp; omega
    · intro j hj; omega
  | succ k ih =>
    obtain ⟨x', h1, h2, h3⟩ := ih (fun j => c (j + 1)) (fun j => e (j + 1))
    refine ⟨fun j => match j with
      | 0 => -(c 0 * x' 0) - e 0 * x' 1
      | j + 1 => x' j, h1, ?_, ?_⟩
    · intro j hj
      cases j with
      | zero => omega
      | succ j => exact h2 j (by omega)
    · intro j hj
      cases j with
      | zero => show -(c 0 * x' 0) - e 0 * x' 1 + c 0 * x' 0 + e 0 * x' 1 = 0; ring
      | succ j => exact h3 j (by omega)

end core

section ordered
variable {α : Type} [Field α] [LinearOrder α] [IsStrictOrderedRing α]
variable (lam : α) (n : ℕ) (W Y : ℕ → α)

/-- every pivot of the forward sweep is positive -/
theorem pivots_pos_fn (hn : 4 ≤ n) (hlam : 0 < lam) (hw : ∀ i < n, 0 ≤ W i)
    (p q : ℕ) (hpq : p < q) (hq : q < n) (hwp : 0 < W p) (hwq : 0 < W q) :
    ∀ k < n, 0 < (RS lam n W Y (k + 2)).d := by
  intro k
  induction k using Nat.strong_induction_on with
  | _ k ih =>
    intro hk
    have hprev : ∀ j < k, (RS lam n W Y (j + 2)).d ≠ 0 :=
      fun j hj => (ih j hj (by omega)).ne'
    obtain ⟨x, x1, x2, x3⟩ := exists_test_vector
      (fun j => (RS lam n W Y (j + 2)).c) (fun j => (RS lam n W Y (j + 2)).e) k
    have hx : ∀ j, n ≤ j → x j = 0 := fun j hj => x2 j (by omega)
    -- `Lᵀ x` vanishes below `k`
    have hT : ∀ m, m < k + 2 → tS lam n W Y x m = 0 := by
      intro m hm
      rcases m with _ | _ | m
      · rfl
      · rfl
      · exact x3 m (by omega)
    have hTk : tS lam n W Y x (k + 2) = 1 := by
      show x k + _ * x (k + 1) + _ * x (k + 2) = 1
      rw [x1, x2 (k + 1) (by omega), x2 (k + 2) (by omega)]; ring
    -- rows of `(W + λ DᵀD) x`
    have rows : ∀ i ∈ range n, x i * (W i * x i + lam * dtd n x i)
        = if i = k then (RS lam n W Y (k + 2)).d else 0 := by
      intro i hi
      have hi := mem_range.1 hi
      rcases lt_trichotomy i k with h | h | h
      · rw [apply_eq lam n W Y hn x hx i hi (fun j hj => hprev j (by omega))
          (Or.inl (hprev i h)), hT (i + 2) (by omega), hT (i + 1) (by omega), hT i (by omega),
          if_neg (by omega)]
        ring
      · subst h
        rw [apply_eq lam n W Y hn x hx i hi hprev
          (Or.inr ⟨x2 _ (by omega), x2 _ (by omega)⟩), hTk, hT (i + 1) (by omega),
          hT i (by omega), x1, if_pos rfl]
        ring
      · rw [x2 i h, if_neg (by omega)]; ring
    have hsum : qf n W lam x = (RS lam n W Y (k + 2)).d := by
      have e : ∑ i ∈ range n, x i * (W i * x i + lam * dtd n x i) = qf n W lam x := by
        unfold qf
        have e2 : ∑ j ∈ range (n - 2), d2 x j ^ 2 = ∑ j ∈ range (n - 2), d2 x j * d2 x j :=
          Finset.sum_congr rfl (fun _ _ => sq _)
        rw [e2, ← sum_mul_dtd n x x, Finset.mul_sum, ← Finset.sum_add_distrib]
        apply Finset.sum_congr rfl; intro i _; ring
      rw [← e, Finset.sum_congr rfl rows, Finset.sum_ite_eq' (range n) k, if_pos (mem_range.2 hk)]
    rw [← hsum]
    by_contra hneg
    have := qf_definite n W lam hlam hw p q hpq hq hwp hwq x (not_lt.1 hneg) k hk
    rw [x1] at this
    exact one_ne_zero this

end ordered

section normal
variable {α : Type} [Field α]

/-- the output of the program satisfies the normal equations when no pivot vanishes -/
theorem normal_eq_fn (y w : List α) (lam : α) (hn : 4 ≤ y.length) (hlen : w.length = y.length)
    (hpiv : ∀ k < y.length, (RS lam y.length (fnl w) (fnl y) (k + 2)).d ≠ 0) :
    ∀ i < y.length, fnl w i * fnl (ws2d y lam w) i + lam * dtd y.length (fnl (ws2d y lam w)) i
      = fnl w i * fnl y i := by
  intro i hi
  set n := y.length with hndef
  set z := fnl (ws2d y lam w) with hz
  have hx : ∀ j, n ≤ j → z j = 0 := fun j hj => ws2d_out y w lam hlen j hj
  -- `d_k (Lᵀ z)_k = u_k`
  have hu : ∀ m, m < n + 2 → (RS lam n (fnl w) (fnl y) m).d * tS lam n (fnl w) (fnl y) z m
      = (RS lam n (fnl w) (fnl y) m).u := by
    intro m hm
    rcases m with _ | _ | m
    · simp
    · simp
    · have hm' : m < n := by omega
      have rel := ws2d_rel y w lam hlen m hm'
      have hd := hpiv m hm'
      show _ * (z m + _ * z (m + 1) + _ * z (m + 2)) = _
      rw [← hz, ← hndef] at rel
      rw [rel]
      field_simp
      ring
  rw [apply_eq lam n (fnl w) (fnl y) hn z hx i hi (fun j hj => hpiv j (by omega))
    (Or.inl (hpiv i hi))]
  have u2 := hu (i + 2) (by omega)
  have u1 := hu (i + 1) (by omega)
  have u0 := hu i (by omega)
  have ru := RS_u lam n (fnl w) (fnl y) i
  linear_combination u2 + (RS lam n (fnl w) (fnl y) (i + 1)).c * u1
    + (RS lam n (fnl w) (fnl y) i).e * u0 + ru

end normal

end Hdc.Ws2d
