import Hdc.Lemmas.GenNum
import Hdc.Lemmas.SmoothIrls
import Hdc.Props.C01gen
import Hdc.PyNpF
import Mathlib.Data.Nat.Cast.Order.Ring
/-
Lemmas for the refinement proofs "generated translation of ws2dgu.py / ws2dpgu.py = hand model
`Hdc.gu` / `Hdc.pgu`" (Hdc/Props/GenNumGu.lean, GenNumPgu.lean).

The generated programs are compositions of the NumPy combinators of `Hdc/PyNpF.lean`; `PyNpF.*_eq` turns each
combinator into the list operation on `toList`.  This file identifies the resulting list expressions with
the list programs of the models:

  * `weights_eq`, `clean_eq`     `1 - np.array([miss x for x in y])`, `np.where(w == 0, 0.0, y)`
                                  = `weightsOf`, `cleanOf`;
  * `sum_weights`, `one_lt_count` `np.sum(w) > 1`  ⇔  `1 < countValid` (the float count is the cast of the ℕ count;
                                  `Nat.cast` is strictly monotone in an ordered field);
  * `asymW_zip`, `l1dist_zip`     `w * wa` after the two masked assignments, `np.sum(np.abs(znew - z))`
                                  = `asymW`, `l1dist`;
  * `gen_ws2d_arr`                the translated `ws2d` on arbitrary arrays = the model on their lists (C01gen);
  * `PInv`                        the invariant of the re-weighting loop of ws2dpgu (a `for … break` loop).

Nothing in this file mentions the generated kernels.
-/
namespace Hdc.GenNum
open Hdc Hdc.Smooth

set_option linter.unusedSectionVars false

variable {α : Type} [Field α] [LinearOrder α] [IsStrictOrderedRing α]

/-! ### weights, count, cleaned data -/

/-- `1 - np.array([miss x for x in y], dtype=float64)` -/
theorem weights_eq (miss : α → Bool) (y : List α) :
    ((y.map miss).map fun b => if b then (nat 1 : α) else nat 0).map (fun v => nat 1 - v)
      = weightsOf miss y := by
  unfold weightsOf
  rw [List.map_map, List.map_map]
  apply List.map_congr_left
  intro x _
  cases h : miss x <;> simp [nat, h]

/-- `np.sum(w)` is the number of valid cells -/
theorem sum_weights (miss : α → Bool) (y : List α) :
    (weightsOf miss y).foldl (· + ·) (nat 0) = ((countValid miss y : ℕ) : α) := by
  rw [foldl_add_eq, nat_zero, zero_add]
  unfold weightsOf countValid
  induction y with
  | nil => simp
  | cons x xs ih =>
    rw [List.map_cons, List.sum_cons, ih, List.filter_cons]
    cases miss x <;> simp [nat, add_comm]

/-- `n > 1` on the float count ⇔ on the ℕ count -/
theorem one_lt_count (c : ℕ) : (nat 1 : α) < (c : α) ↔ 1 < c := by
  rw [nat_one]; exact Nat.one_lt_cast

/-- `np.where(w == 0, 0.0, y)` -/
theorem clean_eq (miss : α → Bool) (y : List α) :
    List.zipWith (fun c v => if c then (nat 0 : α) else v)
        ((weightsOf miss y).map fun u => eqv u (nat 0)) y = cleanOf miss y := by
  unfold weightsOf cleanOf
  induction y with
  | nil => rfl
  | cons x xs ih =>
    simp only [List.map_cons, List.zipWith_cons_cons, ih]
    congr 1
    have h10 : eqv (nat 1 : α) (nat 0) = false := by
      rw [eqv_eq_false_iff]; simp [nat]
    have h00 : eqv (nat 0 : α) (nat 0) = true := by rw [eqv_iff]
    cases miss x
    · simp only [Bool.false_eq_true, if_false, h10]
    · simp only [if_true, h00]

/-! ### the translated ws2d on arbitrary arrays -/

omit [LinearOrder α] [IsStrictOrderedRing α] in
theorem gen_ws2d_arr (y w : Array α) (lam : α) (hs : w.size = y.size) (h3 : 3 ≤ y.size) :
    Gen.Ws2d.ws2d y lam w = (Hdc.ws2d y.toList lam w.toList).toArray := by
  apply Array.toList_inj.1
  have := C01gen.gen_ws2d_eq_model y.toList w.toList lam (by simpa using hs) (by simpa using h3)
  simpa using this

/-- `z = ws2d(y, lmda, w); np.round(z, 0, out)` on arrays of one length `≥ 3` -/
theorem round_gen_ws2d (rnd : α → α) (y w out : Array α) (lam : α) (hw : w.size = y.size)
    (ho : out.size = y.size) (h3 : 3 ≤ y.size) :
    PyNpF.npRoundInto rnd (Gen.Ws2d.ws2d y lam w) out
      = ((Hdc.ws2d y.toList lam w.toList).map rnd).toArray := by
  rw [gen_ws2d_arr y w lam hw h3, PyNpF.npRoundInto_eq]
  rw [List.size_toArray, C01.ws2d_length _ _ _ (by simpa using hw), ho]
  simp

/-- the same on arrays that come from lists -/
theorem round_gen_ws2d_list (rnd : α → α) (y w : List α) (out : Array α) (lam : α)
    (hw : w.length = y.length) (ho : out.size = y.length) (h3 : 3 ≤ y.length) :
    PyNpF.npRoundInto rnd (Gen.Ws2d.ws2d y.toArray lam w.toArray) out
      = ((Hdc.ws2d y lam w).map rnd).toArray := by
  rw [round_gen_ws2d rnd _ _ out lam (by simpa using hw) (by simpa using ho) (by simpa using h3)]

omit [LinearOrder α] [IsStrictOrderedRing α] in
/-- `out[:] = y[:]` -/
theorem setAll_list (out : Array α) (y : List α) (h : out.size = y.length) :
    PyNpF.npSetAll out y.toArray = y.toArray :=
  PyNpF.npSetAll_eq _ _ (by simpa using h.symm)

/-! ### the branches of the models -/

theorem gu_some (miss : α → Bool) (y : List α) (lam : α) (h0 : eqv lam (nat 0) = false)
    (hc : 1 < countValid miss y) :
    gu miss y lam = some (ws2d (cleanOf miss y) lam (weightsOf miss y)) := by
  unfold gu; rw [h0]; simp only [Bool.false_eq_true, if_false, hc, if_true]

theorem gu_none_lam (miss : α → Bool) (y : List α) (lam : α) (h0 : eqv lam (nat 0) = true) :
    gu miss y lam = none := by
  unfold gu; rw [h0]; simp only [if_true]

theorem gu_none_count (miss : α → Bool) (y : List α) (lam : α) (hc : ¬ 1 < countValid miss y) :
    gu miss y lam = none := by
  unfold gu; simp only [hc, if_false, ite_self]

theorem pgu_some (miss : α → Bool) (y : List α) (lam p : α) (h0 : eqv lam (nat 0) = false)
    (hc : 1 < countValid miss y) :
    pgu miss y lam p = some (expectile (cleanOf miss y) (weightsOf miss y) lam p) := by
  unfold pgu; rw [h0]; simp only [Bool.false_eq_true, if_false, hc, if_true]

theorem pgu_none_lam (miss : α → Bool) (y : List α) (lam p : α) (h0 : eqv lam (nat 0) = true) :
    pgu miss y lam p = none := by
  unfold pgu; rw [h0]; simp only [if_true]

theorem pgu_none_count (miss : α → Bool) (y : List α) (lam p : α)
    (hc : ¬ 1 < countValid miss y) : pgu miss y lam p = none := by
  unfold pgu; simp only [hc, if_false, ite_self]

/-- two valid cells in a series that does not have exactly two cells: at least three cells -/
theorem three_le_of_count (miss : α → Bool) (y : List α) (hc : 1 < countValid miss y)
    (h2 : y.length ≠ 2) : 3 ≤ y.length := by
  have := countValid_le_length miss y
  omega

/-! ### asymmetric weights and the stopping test -/

/-- `envelope = y > z; wa[envelope] = p; wa[~envelope] = 1 - p; ww = w * wa` -/
theorem asymW_zip (p : α) (w y z : List α) :
    List.zipWith (fun u v => u * v) w
        ((List.zipWith (fun u v => decide (v < u)) y z).map fun m => if m then p else nat 1 - p)
      = asymW p w y z := by
  induction w generalizing y z with
  | nil => cases y <;> cases z <;> simp [asymW]
  | cons a ws ih =>
    cases y with
    | nil => simp [asymW]
    | cons b bs =>
      cases z with
      | nil => simp [asymW]
      | cons c cs => simp [asymW, ← ih]

/-- `z < y` and `y > z` are the same mask -/
theorem zipWith_lt_swap (a b : List α) :
    List.zipWith (fun u v => decide (u < v)) a b = List.zipWith (fun u v => decide (v < u)) b a :=
  List.zipWith_comm

/-- `np.sum(np.abs(znew - z))` -/
theorem l1dist_zip (a b : List α) :
    ((List.zipWith (fun u v => u - v) a b).map fun u => absv u).foldl (· + ·) (nat 0)
      = l1dist a b := by
  unfold l1dist
  rw [List.map_zipWith]

/-! ### the re-weighting loop of ws2dpgu -/

omit [LinearOrder α] [IsStrictOrderedRing α] in
/-- `np.zeros(m)` with `m = y.shape[0]` is the model's zero curve -/
theorem zeros_toList (n : ℕ) (y : List α) (h : y.length = n) :
    (Array.replicate ((n : ℤ)).toNat (nat 0 : α)).toList = zerosLike y := by
  subst h
  rw [Int.toNat_natCast, Array.toList_replicate]
  unfold zerosLike
  induction y with
  | nil => rfl
  | cons x xs _ => simp [List.replicate_succ]

/-- a pass with fuel left does not look at the weights it is handed -/
theorem irls_pos_ww (y w : List α) (lam p : α) (k : ℕ) (hk : 0 < k) (z ww ww' : List α) :
    irls y w lam p k z ww = irls y w lam p k z ww' := by
  obtain ⟨j, rfl⟩ := Nat.exists_eq_succ_of_ne_zero (Nat.pos_iff_ne_zero.1 hk)
  rfl

/-- Invariant of `for _ in range(N): … break … z[:] = znew[:]` after `k` passes (`k = N` also stands for
    "left by `break`"): the work arrays keep their length, and either the loop is over and `ww` holds the
    weights the model's `irls` returns (`final.2`), or the model's loop continued from the current curve
    with the remaining fuel returns `final`. -/
structure PInv (y w : List α) (lam p : α) (N : ℕ) (final : List α × List α) (k : ℕ)
    (z znew wa ww : Array α) : Prop where
  zsz : z.size = y.length
  nsz : znew.size = y.length
  asz : wa.size = y.length
  cont : (k = N ∧ ww.toList = final.2) ∨
    (k < N ∧ ∀ ww', irls y w lam p (N - k) z.toList ww' = final)

/-- entry of the loop: the zero curve, any `ww` -/
theorem PInv.init (y w : List α) (lam p : α) (N : ℕ) (hN : 0 < N) (z znew wa ww : Array α)
    (hz : z.toList = zerosLike y) (hn : znew.size = y.length) (ha : wa.size = y.length) :
    PInv y w lam p N (irls y w lam p N (zerosLike y) (zerosLike y)) 0 z znew wa ww := by
  refine ⟨?_, hn, ha, Or.inr ⟨hN, fun ww' => ?_⟩⟩
  · rw [← Array.length_toList, hz, zerosLike_length]
  · rw [hz]; exact irls_pos_ww y w lam p N hN _ _ _

/-- a pass that reproduces the curve: `break` -/
theorem PInv.brk {y w : List α} {lam p : α} {N : ℕ} {final : List α × List α} {k : ℕ}
    {z znew wa ww : Array α} (h : PInv y w lam p N final k z znew wa ww) (hk : k < N)
    (znew' wa' : Array α) (hn : znew'.size = y.length) (ha : wa'.size = y.length)
    (hb : eqv (l1dist (ws2d y lam (asymW p w y z.toList)) z.toList) (nat 0) = true) :
    PInv y w lam p N final N z znew' wa' (asymW p w y z.toList).toArray := by
  refine ⟨h.zsz, hn, ha, Or.inl ⟨rfl, ?_⟩⟩
  rcases h.cont with ⟨hk', _⟩ | ⟨_, hc⟩
  · omega
  · have := hc []
    rw [show N - k = (N - (k + 1)) + 1 by omega, irls_succ, pass, if_pos hb] at this
    rw [← this]

/-- a pass that changes the curve: `z[:] = znew[:]` -/
theorem PInv.step {y w : List α} {lam p : α} {N : ℕ} {final : List α × List α} {k : ℕ}
    {z znew wa ww : Array α} (h : PInv y w lam p N final k z znew wa ww) (hk : k < N)
    (hw : w.length = y.length) (wa' : Array α) (ha : wa'.size = y.length)
    (hb : ¬ eqv (l1dist (ws2d y lam (asymW p w y z.toList)) z.toList) (nat 0) = true) :
    PInv y w lam p N final (k + 1) (ws2d y lam (asymW p w y z.toList)).toArray
      (ws2d y lam (asymW p w y z.toList)).toArray wa' (asymW p w y z.toList).toArray := by
  have hzl : z.toList.length = y.length := by rw [Array.length_toList, h.zsz]
  have hlen : (ws2d y lam (asymW p w y z.toList)).length = y.length :=
    C01.ws2d_length _ _ _ (by simp [hw, hzl])
  rcases h.cont with ⟨hk', _⟩ | ⟨_, hc⟩
  · omega
  · have h1 := hc []
    rw [show N - k = (N - (k + 1)) + 1 by omega, irls_succ, pass, if_neg hb] at h1
    refine ⟨by simpa using hlen, by simpa using hlen, ha, ?_⟩
    by_cases hlast : k + 1 = N
    · refine Or.inl ⟨hlast, ?_⟩
      rw [hlast, Nat.sub_self, irls] at h1
      rw [← h1]
    · refine Or.inr ⟨by omega, fun ww' => ?_⟩
      rw [List.toList_toArray, irls_pos_ww y w lam p _ (by omega) _ ww' (asymW p w y z.toList)]
      exact h1

/-- after the loop: `ww` is what the model's loop returns -/
theorem PInv.final {y w : List α} {lam p : α} {N : ℕ} {final : List α × List α} {k : ℕ}
    {z znew wa ww : Array α} (h : PInv y w lam p N final k z znew wa ww) (hk : k = N) :
    ww = final.2.toArray := by
  rcases h.cont with ⟨_, hc⟩ | ⟨hk', _⟩
  · rw [← hc]
  · omega

/-- after the loop of ws2dpgu (10 passes from the zero curve): `z = ws2d(y, lmda, ww); np.round(z, 0, out)`
    is the rounded `expectile` curve of the model -/
theorem PInv.post {y w : List α} {lam p : α} {k : ℕ} {z znew wa ww : Array α}
    (h : PInv y w lam p 10 (irls y w lam p 10 (zerosLike y) (zerosLike y)) k z znew wa ww)
    (hk : k = 10) (hw : w.length = y.length) (h3 : 3 ≤ y.length) (rnd : α → α) (out : Array α)
    (ho : out.size = y.length) :
    PyNpF.npRoundInto rnd (Gen.Ws2d.ws2d y.toArray lam ww) out
      = ((expectile y w lam p).map rnd).toArray := by
  rw [h.final hk, round_gen_ws2d_list rnd y _ out lam
    (irls_snd_length y w lam p hw 9 _ _ (by simp)) ho h3]
  rfl

/-- the invariant of the loop of ws2dpgu for the cleaned data and validity weights of a series `y`
    (10 passes, as in the model's `expectile`) -/
def PInvM (miss : α → Bool) (y : List α) (lam p : α) (k : ℕ) (z znew wa ww : Array α) : Prop :=
  PInv (cleanOf miss y) (weightsOf miss y) lam p 10
    (irls (cleanOf miss y) (weightsOf miss y) lam p 10 (zerosLike (cleanOf miss y))
      (zerosLike (cleanOf miss y))) k z znew wa ww

end Hdc.GenNum
