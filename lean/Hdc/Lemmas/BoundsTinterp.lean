import Hdc.Lemmas.Bounds
/-
Helper lemmas for C14: the fold-based traces of `tinterpolate` (scatter loop and run loop) described by
invariants over the fold state.
-/
namespace Hdc.Bounds

/-! ### scatter loop -/

/-- number of marks (nonzero template entries) -/
def nmarks (template : List Int) : Nat := template.countP (fun t => t ≠ 0)

/-- the body of the scatter loop of `tinterpScatter` -/
def scatterStep (m n : Nat) (st : Nat × List Acc) (p : Int × Nat) : Nat × List Acc :=
  if p.1 ≠ 0 then (st.1 + 1, st.2 ++ [wr "temp" p.2 m, rd "x" st.1 n]) else st

theorem tinterpScatter_eq (n : Nat) (template : List Int) :
    tinterpScatter n template =
      (template.zipIdx.foldl (scatterStep template.length n) (0, [])).2
        ++ [wr "temp" (-1) template.length, rd "x" (-1) n] := rfl

def marksP (ps : List (Int × Nat)) : Nat := ps.countP (fun p => p.1 ≠ 0)

theorem marksP_zipIdx (t : List Int) (k : Nat) : marksP (t.zipIdx k) = nmarks t := by
  unfold marksP nmarks
  conv => rhs; rw [← List.zipIdx_map_fst k t, List.countP_map]
  rfl

theorem scatter_fst (m n : Nat) (ps : List (Int × Nat)) (st : Nat × List Acc) :
    (ps.foldl (scatterStep m n) st).1 = st.1 + marksP ps := by
  induction ps generalizing st with
  | nil => simp [marksP]
  | cons p ps ih =>
    rw [List.foldl_cons, ih]
    unfold scatterStep marksP
    by_cases h : p.1 ≠ 0
    · simp [h]; omega
    · simp [h]

/-- every access the scatter loop appends is a store `temp[p.2]` of a visited position or a load `x[k]` with
    `k` below the number of marks seen -/
theorem scatter_mem (m n : Nat) (ps : List (Int × Nat)) (st : Nat × List Acc) (a : Acc) :
    a ∈ (ps.foldl (scatterStep m n) st).2 ↔
      a ∈ st.2 ∨ (∃ p ∈ ps, p.1 ≠ 0 ∧ a = wr "temp" p.2 m) ∨
        (∃ k : Nat, st.1 ≤ k ∧ k < st.1 + marksP ps ∧ a = rd "x" k n) := by
  induction ps generalizing st with
  | nil =>
    simp only [List.foldl_nil, marksP, List.countP_nil, List.not_mem_nil, false_and, exists_false, false_or, Nat.add_zero]
    constructor
    · exact Or.inl
    · rintro (h | ⟨k, h1, h2, _⟩)
      · exact h
      · omega
  | cons p ps ih =>
    rw [List.foldl_cons, ih]
    by_cases h : p.1 ≠ 0
    · have hm : marksP (p :: ps) = marksP ps + 1 := by simp [marksP, h]
      simp only [scatterStep, h, if_true, hm, List.mem_append, List.mem_cons, List.not_mem_nil, or_false, ne_eq, not_false_eq_true]
      constructor
      · rintro ((h1 | h1 | h1) | ⟨q, hq, hq0, rfl⟩ | ⟨k, hk1, hk2, rfl⟩)
        · exact Or.inl h1
        · exact Or.inr (Or.inl ⟨p, Or.inl rfl, h, h1⟩)
        · exact Or.inr (Or.inr ⟨st.1, by omega, by omega, h1⟩)
        · exact Or.inr (Or.inl ⟨q, Or.inr hq, hq0, rfl⟩)
        · exact Or.inr (Or.inr ⟨k, by omega, by omega, rfl⟩)
      · rintro (h1 | ⟨q, (rfl | hq), hq0, rfl⟩ | ⟨k, hk1, hk2, rfl⟩)
        · exact Or.inl (Or.inl h1)
        · exact Or.inl (Or.inr (Or.inl rfl))
        · exact Or.inr (Or.inl ⟨q, hq, hq0, rfl⟩)
        · by_cases hk : k = st.1
          · subst hk; exact Or.inl (Or.inr (Or.inr rfl))
          · exact Or.inr (Or.inr ⟨k, by omega, by omega, rfl⟩)
    · have hm : marksP (p :: ps) = marksP ps := by simp [marksP, h]
      simp only [scatterStep, h, if_false, hm, List.mem_cons]
      constructor
      · rintro (h1 | ⟨q, hq, hq0, rfl⟩ | h1)
        · exact Or.inl h1
        · exact Or.inr (Or.inl ⟨q, Or.inr hq, hq0, rfl⟩)
        · exact Or.inr (Or.inr h1)
      · rintro (h1 | ⟨q, (rfl | hq), hq0, rfl⟩ | h1)
        · exact Or.inl h1
        · exact absurd hq0 h
        · exact Or.inr (Or.inl ⟨q, hq, hq0, rfl⟩)
        · exact Or.inr (Or.inr h1)

/-- exact description of the accesses of the scatter loop -/
theorem mem_tinterpScatter (n : Nat) (template : List Int) (a : Acc) :
    a ∈ tinterpScatter n template ↔
      (∃ i : Nat, ∃ h : i < template.length, template[i] ≠ 0 ∧ a = wr "temp" i template.length) ∨
      (∃ k : Nat, k < nmarks template ∧ a = rd "x" k n) ∨
      a = wr "temp" (-1) template.length ∨ a = rd "x" (-1) n := by
  rw [tinterpScatter_eq, List.mem_append, scatter_mem, marksP_zipIdx]
  simp only [List.not_mem_nil, false_or, Nat.zero_le, true_and, Nat.zero_add, List.mem_cons, or_false]
  constructor
  · rintro ((⟨⟨v, i⟩, hp, hv, rfl⟩ | h) | h)
    · have := List.mem_zipIdx' hp
      exact Or.inl ⟨i, this.1, by rw [← this.2]; exact hv, rfl⟩
    · exact Or.inr (Or.inl h)
    · exact Or.inr (Or.inr h)
  · rintro (⟨i, hi, hv, rfl⟩ | h | h)
    · refine Or.inl (Or.inl ⟨(template[i], i), ?_, hv, rfl⟩)
      exact List.mem_zipIdx_iff_getElem?.2 (by simp [hi])
    · exact Or.inl (Or.inr h)
    · exact Or.inr h

/-! ### run loop -/

/-- the body of the run loop of `tinterpRuns` -/
def runsStep (m l : Nat) (st : Nat × Nat × Int × List Acc) (ll : Int) : Nat × Nat × Int × List Acc :=
  if ll = st.2.2.1 then
    (st.1 + 1, st.2.1, ll, st.2.2.2 ++ [rd "labels" ((st.1 : Int) - 1) m, rd "z" st.1 m])
  else
    (st.1 + 1, st.2.1 + 1, ll, st.2.2.2 ++ [rd "labels" ((st.1 : Int) - 1) m, wr "out" st.2.1 l, rd "z" st.1 m])

theorem tinterpRuns_cons (l0 : Int) (rest : List Int) (l : Nat) :
    tinterpRuns (l0 :: rest) l =
      (rest.foldl (runsStep (rest.length + 1) l) (1, 0, l0, [rd "z" 0 (rest.length + 1)])).2.2.2
        ++ [wr "out" (rest.foldl (runsStep (rest.length + 1) l) (1, 0, l0, [rd "z" 0 (rest.length + 1)])).2.1 l] := rfl

/-- number of label changes when scanning `rest` after `prev` -/
def nchanges : Int → List Int → Nat
  | _, [] => 0
  | p, x :: xs => (if x = p then 0 else 1) + nchanges x xs

/-- number of maximal runs of equal consecutive labels: one more than the number of adjacent unequal pairs -/
def nruns (labels : List Int) : Nat := (labels.zip labels.tail).countP (fun p => p.1 ≠ p.2) + 1

theorem countP_zip_tail (l0 : Int) (rest : List Int) :
    ((l0 :: rest).zip rest).countP (fun p => p.1 ≠ p.2) = nchanges l0 rest := by
  induction rest generalizing l0 with
  | nil => simp [nchanges]
  | cons x xs ih =>
    rw [List.zip_cons_cons, List.countP_cons, ih, nchanges]
    by_cases h : x = l0
    · subst h; simp
    · have : l0 ≠ x := fun e => h e.symm
      simp [h, this]; omega

theorem nruns_cons (l0 : Int) (rest : List Int) : nruns (l0 :: rest) = nchanges l0 rest + 1 := by
  simp only [nruns, List.tail_cons, countP_zip_tail]

theorem runs_fold (m l : Nat) (rest : List Int) (ii kk : Nat) (prev : Int) (acc : List Acc) :
    ∃ extra : List Acc,
      rest.foldl (runsStep m l) (ii, kk, prev, acc)
        = (ii + rest.length, kk + nchanges prev rest, (prev :: rest).getLast (by simp), acc ++ extra) ∧
      (∀ a ∈ extra,
        (∃ j : Nat, ii ≤ j ∧ j < ii + rest.length ∧ (a = rd "labels" ((j : Int) - 1) m ∨ a = rd "z" j m)) ∨
        (∃ k : Nat, kk ≤ k ∧ k < kk + nchanges prev rest ∧ a = wr "out" k l)) ∧
      written extra "out" = (List.range (nchanges prev rest)).map (fun k => ((kk + k : Nat) : Int)) := by
  induction rest generalizing ii kk prev acc with
  | nil => exact ⟨[], by simp [nchanges], by simp, by simp [nchanges, written]⟩
  | cons x xs ih =>
    by_cases h : x = prev
    · subst h
      obtain ⟨extra, h1, h2, h3⟩ := ih (ii + 1) kk x (acc ++ [rd "labels" ((ii : Int) - 1) m, rd "z" ii m])
      refine ⟨[rd "labels" ((ii : Int) - 1) m, rd "z" ii m] ++ extra, ?_, ?_, ?_⟩
      · rw [List.foldl_cons]
        simp only [runsStep, if_true, h1, nchanges, List.length_cons, List.append_assoc, List.getLast_cons_cons]
        simp; omega
      · intro a ha
        rcases List.mem_append.1 ha with ha | ha
        · refine Or.inl ⟨ii, Nat.le_refl _, by simp, ?_⟩
          simpa using ha
        · rcases h2 a ha with ⟨j, hj1, hj2, hj3⟩ | ⟨k, hk1, hk2, hk3⟩
          · exact Or.inl ⟨j, by omega, by simp only [List.length_cons]; omega, hj3⟩
          · exact Or.inr ⟨k, hk1, by simpa [nchanges] using hk2, hk3⟩
      · rw [written_append, h3]
        simp [written, nchanges, rd]
    · obtain ⟨extra, h1, h2, h3⟩ := ih (ii + 1) (kk + 1) x
        (acc ++ [rd "labels" ((ii : Int) - 1) m, wr "out" kk l, rd "z" ii m])
      refine ⟨[rd "labels" ((ii : Int) - 1) m, wr "out" kk l, rd "z" ii m] ++ extra, ?_, ?_, ?_⟩
      · rw [List.foldl_cons]
        simp only [runsStep, h, if_false, h1, nchanges, List.length_cons, List.append_assoc, List.getLast_cons_cons]
        simp; omega
      · intro a ha
        rcases List.mem_append.1 ha with ha | ha
        · simp only [List.mem_cons, List.not_mem_nil, or_false] at ha
          rcases ha with ha | ha | ha
          · exact Or.inl ⟨ii, Nat.le_refl _, by simp, Or.inl ha⟩
          · exact Or.inr ⟨kk, Nat.le_refl _, by simp only [nchanges, h, if_false]; omega, ha⟩
          · exact Or.inl ⟨ii, Nat.le_refl _, by simp, Or.inr ha⟩
        · rcases h2 a ha with ⟨j, hj1, hj2, hj3⟩ | ⟨k, hk1, hk2, hk3⟩
          · exact Or.inl ⟨j, by omega, by simp only [List.length_cons]; omega, hj3⟩
          · exact Or.inr ⟨k, by omega, by simp only [nchanges, h, if_false]; omega, hk3⟩
      · rw [written_append, h3]
        simp only [nchanges, h, if_false]
        rw [Nat.add_comm 1, List.range_succ_eq_map]
        simp [written, rd, wr, Acc.cell]
        constructor
        · omega
        · intro a _; omega

/-! ### `nruns` agrees with the other ways of counting runs -/

theorem splitBy_loop_length (as : List Int) (b : Int) (g : List Int) (gs : List (List Int)) :
    (List.splitBy.loop (fun x y => x == y) as b g gs).length = gs.length + 1 + nchanges b as := by
  induction as generalizing b g gs with
  | nil => simp [List.splitBy.loop, nchanges]
  | cons a as ih =>
    unfold List.splitBy.loop
    by_cases h : a = b
    · subst h; simp [ih, nchanges]
    · have h' : (b == a) = false := by simp; exact fun e => h e.symm
      rw [h']; simp only [ih, nchanges, h, if_false, List.length_cons]; omega

/-- `nruns` is the number of groups when the labels are split into maximal runs of equal consecutive values -/
theorem nruns_eq_splitBy_length (labels : List Int) (hne : labels ≠ []) :
    nruns labels = (labels.splitBy (fun x y => x == y)).length := by
  cases labels with
  | nil => exact absurd rfl hne
  | cons l0 rest => rw [nruns_cons, List.splitBy, splitBy_loop_length]; simp; omega

theorem nchanges_eq_filter (l0 : Int) (rest : List Int) :
    nchanges l0 rest =
      ((List.range rest.length).filter (fun i => decide ((l0 :: rest)[i]? ≠ (l0 :: rest)[i + 1]?))).length := by
  induction rest generalizing l0 with
  | nil => simp [nchanges]
  | cons x xs ih =>
    rw [nchanges, ih x, List.length_cons, List.range_succ_eq_map, List.filter_cons, List.filter_map]
    by_cases h : x = l0
    · subst h; simp [Function.comp_def]
    · have h' : ¬ l0 = x := fun e => h e.symm
      simp [h, h', Function.comp_def]; omega

/-- `nruns labels = 1 + #{ i < len−1 | labels[i] ≠ labels[i+1] }` -/
theorem nruns_eq_index_count (labels : List Int) (hne : labels ≠ []) :
    nruns labels =
      1 + ((List.range (labels.length - 1)).filter (fun i => decide (labels[i]? ≠ labels[i + 1]?))).length := by
  cases labels with
  | nil => exact absurd rfl hne
  | cons l0 rest =>
    rw [nruns_cons, nchanges_eq_filter]
    simp only [List.length_cons, Nat.add_sub_cancel]
    omega

end Hdc.Bounds
