import Hdc.Gen.Dekad
import Hdc.Lemmas.PyDate
/-
Helper lemmas about the GENERATED dekad model `Hdc.Gen.Dekad` (fields, start/end dates, ndays).
Every lemma that mentions a generated definition unfolds it (`simp only [Gen.Dekad.xxx]`) and
finishes with `omega`, so it is re-checked against whatever the translator emitted.
-/
set_option linter.unusedSimpArgs false
namespace Hdc.C11
open Hdc Hdc.Py Hdc.PyDate Hdc.Gen.Dekad

/-- raw integers of the dekads of the years 1..9999 -/
def InRange (r : Int) : Prop := 36 ≤ r ∧ r < 360000

/-! ### field equations (Python `//`, `%` by positive literals are Lean's `/`, `%`) -/

theorem year_eq (r : Int) : year r = r / 36 := by
  simp only [Gen.Dekad.year, Py.fdiv_pos, Py.fmod_pos, Int.reduceLT] <;> omega

theorem month_eq (r : Int) : month r = 1 + r % 36 / 3 := by
  simp only [Gen.Dekad.month, Py.fdiv_pos, Py.fmod_pos, Int.reduceLT] <;> omega

theorem day_eq (r : Int) : day r = 1 + r % 3 * 10 := by
  simp only [Gen.Dekad.day, Py.fdiv_pos, Py.fmod_pos, Int.reduceLT] <;> omega

theorem idx_eq (r : Int) : idx r = 1 + r % 3 := by
  simp only [Gen.Dekad.idx, Py.fdiv_pos, Py.fmod_pos, Int.reduceLT] <;> omega

theorem yidx_eq (r : Int) : yidx r = 1 + r % 36 := by
  simp only [Gen.Dekad.yidx, month_eq, idx_eq] <;> omega

theorem raw_eq (r : Int) : raw r = r := by
  simp only [Gen.Dekad.raw]

theorem ofRaw_eq (r : Int) : ofRaw r = r := by
  simp only [Gen.Dekad.ofRaw]

theorem ofDate_eq (y m d : Int) : ofDate y m d = 36 * y + 3 * (m - 1) + min 2 ((d - 1) / 10) := by
  simp only [Gen.Dekad.ofDate, Py.fdiv_pos, Py.fmod_pos, Int.reduceLT] <;> omega

theorem add_eq (r n : Int) : add r n = r + n := by
  simp only [Gen.Dekad.add] <;> omega

theorem ofDate_inRange {y m d : Int} (hv : ValidDate y m d) : InRange (ofDate y m d) := by
  obtain ⟨h1, h2, h3, h4, h5, h6⟩ := hv
  have := daysInMonth_bounds y m
  rw [ofDate_eq]; unfold InRange; omega

/-! ### `datetime(y, m, d)` -/

theorem datetime_ok {y m d : Int} (hv : ValidDate y m d) :
    datetime y m d = .ok ⟨ymd2ord y m d, 0⟩ := by
  obtain ⟨h1, h2, h3, h4, h5, h6⟩ := hv
  unfold datetime
  rw [if_neg (by omega), if_neg (by omega), if_neg (by omega)]

theorem datetime_year_big {y : Int} (h : 9999 < y) (m d : Int) :
    datetime y m d = .error .valueError := by
  unfold datetime
  rw [if_pos (by omega)]

/-! ### start of a dekad -/

/-- ordinal of the first day of dekad `r` -/
def startOrd (r : Int) : Int := ymd2ord (year r) (month r) (day r)

/-- first microsecond of dekad `r`, counted from 0001-01-00T00:00 -/
def startUs (r : Int) : Int := startOrd r * usPerDay

theorem start_valid {r : Int} (h : InRange r) : ValidDate (year r) (month r) (day r) := by
  have := daysInMonth_bounds (year r) (month r)
  revert this
  rw [year_eq, month_eq, day_eq]; unfold InRange at h; unfold ValidDate
  omega

theorem start_date_eq {r : Int} (h : InRange r) : start_date r = .ok ⟨startOrd r, 0⟩ := by
  simp only [Gen.Dekad.start_date]
  exact datetime_ok (start_valid h)

theorem start_date_year_big {r : Int} (h : 360000 ≤ r) : start_date r = .error .valueError := by
  simp only [Gen.Dekad.start_date]
  exact datetime_year_big (by rw [year_eq]; omega) _ _

/-- length of dekad `r` as a pure function -/
def len (r : Int) : Int := if idx r ≤ 2 then 10 else daysInMonth (year r) (month r) - 20

theorem len_bounds (r : Int) : 8 ≤ len r ∧ len r ≤ 11 := by
  unfold len
  have := daysInMonth_bounds (year r) (month r)
  split <;> omega

/-- consecutive dekads: the next one starts `len r` days later (all integers `r`) -/
theorem startOrd_succ (r : Int) : startOrd (r + 1) = startOrd r + len r := by
  unfold startOrd len
  rw [idx_eq, year_eq, month_eq, day_eq, year_eq, month_eq, day_eq]
  by_cases h3 : r % 3 ≤ 1
  · -- same month
    have e1 : (r + 1) / 36 = r / 36 := by omega
    have e2 : (r + 1) % 36 / 3 = r % 36 / 3 := by omega
    have e3 : 1 + (r + 1) % 3 * 10 = (1 + r % 3 * 10) + 10 := by omega
    rw [e1, e2, e3, ymd2ord_add_day, if_pos (by omega)]
  · rw [if_neg (by omega)]
    have e3 : 1 + (r + 1) % 3 * 10 = 1 := by omega
    have e4 : 1 + r % 3 * 10 = 21 := by omega
    rw [e3, e4]
    by_cases h36 : r % 36 = 35
    · -- next year
      have e1 : (r + 1) / 36 = r / 36 + 1 := by omega
      have e2 : 1 + (r + 1) % 36 / 3 = 1 := by omega
      have e5 : 1 + r % 36 / 3 = 12 := by omega
      rw [e1, e2, e5, ymd2ord_next_year]
      unfold ymd2ord; omega
    · have e1 : (r + 1) / 36 = r / 36 := by omega
      have e2 : 1 + (r + 1) % 36 / 3 = (1 + r % 36 / 3) + 1 := by omega
      rw [e1, e2, ymd2ord_next_month _ (by omega) (by omega)]
      unfold ymd2ord; omega

theorem startOrd_lt_succ (r : Int) : startOrd r < startOrd (r + 1) := by
  have := len_bounds r
  rw [startOrd_succ]; omega

theorem startOrd_add_nat (r : Int) (k : Nat) : startOrd r + k ≤ startOrd (r + k) := by
  induction k with
  | zero => simp
  | succ k ih =>
    have := startOrd_lt_succ (r + k)
    have e : r + ((k + 1 : Nat) : Int) = r + k + 1 := by omega
    rw [e]; omega

/-- `r ↦ startOrd r` is strictly increasing on all integers -/
theorem startOrd_strictMono {a b : Int} (h : a < b) : startOrd a < startOrd b := by
  have := startOrd_add_nat a (b - a).toNat
  have e : a + ((b - a).toNat : Int) = b := by omega
  rw [e] at this
  omega

theorem startOrd_lt_iff (a b : Int) : startOrd a < startOrd b ↔ a < b := by
  constructor
  · intro h
    by_cases hc : a < b
    · exact hc
    · exfalso
      by_cases he : a = b
      · subst he; omega
      · have := startOrd_strictMono (show b < a by omega); omega
  · exact startOrd_strictMono

theorem startOrd_le_iff (a b : Int) : startOrd a ≤ startOrd b ↔ a ≤ b := by
  have := startOrd_lt_iff b a
  omega

theorem startOrd_inj {a b : Int} (h : startOrd a = startOrd b) : a = b := by
  have h1 := startOrd_le_iff a b
  have h2 := startOrd_le_iff b a
  omega

theorem startUs_lt_iff (a b : Int) : startUs a < startUs b ↔ a < b := by
  rw [← startOrd_lt_iff a b]; unfold startUs usPerDay; omega

theorem startUs_le_iff (a b : Int) : startUs a ≤ startUs b ↔ a ≤ b := by
  rw [← startOrd_le_iff a b]; unfold startUs usPerDay; omega

theorem totalUs_start (r : Int) : (⟨startOrd r, 0⟩ : DateTime).totalUs = startUs r := by
  unfold DateTime.totalUs startUs; simp only []; omega

theorem startOrd_bounds {r : Int} (h : InRange r) : day r ≤ startOrd r ∧ startOrd r ≤ maxOrdinal :=
  ymd2ord_bounds (start_valid h)

/-! ### `datetime - timedelta(microseconds=1)`, end of a dekad, number of days -/

theorem subDelta_us1 {o : Int} (h1 : 2 ≤ o) (h2 : o ≤ maxOrdinal + 1) :
    DateTime.subDelta ⟨o, 0⟩ (microseconds 1) = .ok ⟨o - 1, usPerDay - 1⟩ := by
  unfold DateTime.subDelta DateTime.addDelta DateTime.totalUs microseconds
  simp only []
  unfold maxOrdinal at h2
  have e1 : (o * usPerDay + 0 + -1) / usPerDay = o - 1 := by unfold usPerDay; omega
  have e2 : (o * usPerDay + 0 + -1) % usPerDay = usPerDay - 1 := by unfold usPerDay; omega
  rw [e1, e2, if_pos (by unfold maxOrdinal; omega)]

theorem end_date_eq {r : Int} (h : InRange r) (h' : InRange (r + 1)) :
    end_date r = .ok ⟨startOrd (r + 1) - 1, usPerDay - 1⟩ := by
  have hb := startOrd_bounds h'
  have hd : 1 ≤ day (r + 1) := by rw [day_eq]; omega
  have hlt := startOrd_lt_succ r
  have hb0 := startOrd_bounds h
  have hd0 : 1 ≤ day r := by rw [day_eq]; omega
  simp only [Gen.Dekad.end_date, add_eq, start_date_eq h']
  show DateTime.subDelta ⟨startOrd (r + 1), 0⟩ (microseconds 1) = _
  rw [subDelta_us1 (by omega) (by omega)]

theorem end_date_359999 : end_date 359999 = .error .valueError := by
  simp only [Gen.Dekad.end_date, add_eq]
  rw [start_date_year_big (by omega)]
  rfl

theorem ndays_eq {r : Int} (h : InRange r) (h' : InRange (r + 1)) : ndays r = .ok (len r) := by
  simp only [Gen.Dekad.ndays, end_date_eq h h', start_date_eq h]
  show Except.ok _ = _
  congr 1
  unfold TimeDelta.days TimeDelta.add DateTime.diff DateTime.totalUs microseconds
  simp only []
  have := startOrd_succ r
  unfold usPerDay; omega

end Hdc.C11
