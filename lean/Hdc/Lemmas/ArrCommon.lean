import Hdc.Lemmas.Ws2dRows
import Mathlib.Algebra.Field.Basic
import Mathlib.Tactic.Ring
/-
Array facts shared by every refinement proof "generated program = hand model" (ws2d, the integer kernels, the
floating-point kernels).  Nothing here mentions a generated file, so a proof about one generated kernel does not depend on
the translation of another one.  (Kept in the namespace `Hdc.Ws2dGen`, where these names were first stated.)
-/
namespace Hdc.Ws2dGen

variable {α : Type} [Field α]

/-- an array read as a function (0 outside) -/
def av (a : Array α) (j : ℕ) : α := a.getD j 0

theorem av_setIfInBounds_self (a : Array α) (j : ℕ) (v : α) (hj : j < a.size) :
    av (a.setIfInBounds j v) j = v := by
  simp [av, Array.getElem?_setIfInBounds_self_of_lt hj]

theorem av_setIfInBounds_ne (a : Array α) (i j : ℕ) (v : α) (h : i ≠ j) :
    av (a.setIfInBounds i v) j = av a j := by
  simp [av, Array.getElem?_setIfInBounds_ne h]

theorem split_getElem {ι : Type} (l pref suff : List ι) (cur : ι) (h : l = pref ++ cur :: suff) :
    ∃ hlt : pref.length < l.length, l[pref.length] = cur := by
  subst h
  exact ⟨by simp, by simp⟩

/-- `a` is `a0` with cell `k` overwritten by `v` -/
structure Upd (a a0 : Array α) (k : ℕ) (v : α) : Prop where
  size : a.size = a0.size
  self : av a k = v
  other : ∀ j, j ≠ k → av a j = av a0 j

/-! ### naming the variables of the source in the verification conditions -/

open Lean Elab Tactic Meta in
/-- `py_name x as x'`: give the accessible name `x'` to the most recent inaccessible local called
    `x` (the verification-condition generator introduces the `let mut` variables of the source
    under inaccessible names; the most recent one is the current value of the Python variable). -/
elab "py_name " x:ident " as " x':ident : tactic => withMainContext do
  let lctx ← getLCtx
  let mut found : Option FVarId := none
  for decl in lctx do
    if decl.userName.hasMacroScopes && decl.userName.eraseMacroScopes == x.getId then
      found := some decl.fvarId
  match found with
  | some fv => liftMetaTactic fun g => return [← g.rename fv x'.getId]
  | none => throwError "py_name: no inaccessible local named {x.getId}"


end Hdc.Ws2dGen
