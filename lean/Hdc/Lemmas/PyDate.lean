import Hdc.Model.PyDate
/-
Lemmas about the hand model of CPython's proleptic Gregorian calendar (`Hdc.PyDate`):
leap years, month lengths, `daysBeforeYear`/`daysBeforeMonth` recurrences, bounds and strict
monotonicity of `ymd2ord`.
-/
namespace Hdc.Py

theorem fdiv_pos (a : Int) {b : Int} (h : 0 < b) : Py.fdiv a b = a / b :=
  Int.fdiv_eq_ediv_of_nonneg a (Int.le_of_lt h)

theorem fmod_pos (a : Int) {b : Int} (h : 0 < b) : Py.fmod a b = a % b :=
  Int.fmod_eq_emod_of_nonneg a (Int.le_of_lt h)

end Hdc.Py

namespace Hdc.PyDate

/-- a civil date of the proleptic Gregorian calendar in CPython's range -/
def ValidDate (y m d : Int) : Prop :=
  1 ≤ y ∧ y ≤ 9999 ∧ 1 ≤ m ∧ m ≤ 12 ∧ 1 ≤ d ∧ d ≤ daysInMonth y m

theorem isLeap_iff (y : Int) :
    isLeap y = true ↔ (y % 4 = 0 ∧ (y % 100 ≠ 0 ∨ y % 400 = 0)) := by
  simp [isLeap]

theorem isLeap_false_iff (y : Int) :
    isLeap y = false ↔ ¬ (y % 4 = 0 ∧ (y % 100 ≠ 0 ∨ y % 400 = 0)) := by
  rw [← isLeap_iff]; simp

/-- number of days of year `y` minus 365 -/
def leapDay (y : Int) : Int := if isLeap y then 1 else 0

theorem leapDay_cases (y : Int) :
    (isLeap y = true ∧ leapDay y = 1 ∧ (y % 4 = 0 ∧ (y % 100 ≠ 0 ∨ y % 400 = 0))) ∨
    (isLeap y = false ∧ leapDay y = 0 ∧ ¬ (y % 4 = 0 ∧ (y % 100 ≠ 0 ∨ y % 400 = 0))) := by
  cases h : isLeap y
  · right; exact ⟨rfl, by simp [leapDay, h], (isLeap_false_iff y).1 h⟩
  · left; exact ⟨rfl, by simp [leapDay, h], (isLeap_iff y).1 h⟩

theorem leapDay_bounds (y : Int) : 0 ≤ leapDay y ∧ leapDay y ≤ 1 := by
  rcases leapDay_cases y with ⟨_, h, _⟩ | ⟨_, h, _⟩ <;> omega

theorem daysBeforeYear_succ (y : Int) :
    daysBeforeYear (y + 1) = daysBeforeYear y + 365 + leapDay y := by
  unfold daysBeforeYear
  simp only []
  rcases leapDay_cases y with ⟨_, h, h2⟩ | ⟨_, h, h2⟩ <;> omega

theorem daysBeforeYear_one : daysBeforeYear 1 = 0 := by decide

theorem daysBeforeYear_10000 : daysBeforeYear 10000 = maxOrdinal := by decide

theorem daysBeforeYear_mono {y y' : Int} (h : y ≤ y') : daysBeforeYear y ≤ daysBeforeYear y' := by
  unfold daysBeforeYear
  simp only []
  have e1 : (y - 1) / 100 = (y - 1) / 4 / 25 := by omega
  have e2 : (y - 1) / 400 = (y - 1) / 100 / 4 := by omega
  have e3 : (y' - 1) / 100 = (y' - 1) / 4 / 25 := by omega
  have e4 : (y' - 1) / 400 = (y' - 1) / 100 / 4 := by omega
  omega

theorem daysBeforeYear_nonneg {y : Int} (h : 1 ≤ y) : 0 ≤ daysBeforeYear y := by
  have := daysBeforeYear_mono h
  rwa [daysBeforeYear_one] at this

theorem daysBeforeYear_le_max {y : Int} (h : y ≤ 9999) : daysBeforeYear (y + 1) ≤ maxOrdinal := by
  have := daysBeforeYear_mono (show y + 1 ≤ 10000 by omega)
  rwa [daysBeforeYear_10000] at this

theorem month_cases {m : Int} (h1 : 1 ≤ m) (h2 : m ≤ 12) :
    m = 1 ∨ m = 2 ∨ m = 3 ∨ m = 4 ∨ m = 5 ∨ m = 6 ∨ m = 7 ∨ m = 8 ∨ m = 9 ∨ m = 10 ∨ m = 11 ∨ m = 12 := by
  omega

theorem daysInMonth_bounds (y m : Int) : 28 ≤ daysInMonth y m ∧ daysInMonth y m ≤ 31 := by
  unfold daysInMonth
  split
  · split <;> omega
  · split <;> omega

theorem daysInMonth_feb (y : Int) : daysInMonth y 2 = 28 + leapDay y := by
  rcases leapDay_cases y with ⟨h, h1, _⟩ | ⟨h, h1, _⟩ <;> simp [daysInMonth, h, h1]

theorem daysBeforeMonth_one (y : Int) : daysBeforeMonth y 1 = 0 := by
  simp [daysBeforeMonth, daysBeforeMonthTbl]

/-- `_DAYS_BEFORE_MONTH` recurrence -/
theorem daysBeforeMonth_succ (y : Int) {m : Int} (h1 : 1 ≤ m) (h2 : m < 12) :
    daysBeforeMonth y (m + 1) = daysBeforeMonth y m + daysInMonth y m := by
  have hm : m = 1 ∨ m = 2 ∨ m = 3 ∨ m = 4 ∨ m = 5 ∨ m = 6 ∨ m = 7 ∨ m = 8 ∨ m = 9 ∨ m = 10 ∨ m = 11 := by
    omega
  rcases leapDay_cases y with ⟨h, _, _⟩ | ⟨h, _, _⟩ <;>
  rcases hm with rfl | rfl | rfl | rfl | rfl | rfl | rfl | rfl | rfl | rfl | rfl <;>
  simp [daysBeforeMonth, daysBeforeMonthTbl, daysInMonth, h]

/-- the year has `365 + leapDay` days -/
theorem daysBeforeMonth_dec (y : Int) :
    daysBeforeMonth y 12 + daysInMonth y 12 = 365 + leapDay y := by
  rcases leapDay_cases y with ⟨h, h1, _⟩ | ⟨h, h1, _⟩ <;>
  simp [daysBeforeMonth, daysBeforeMonthTbl, daysInMonth, h, h1]

theorem daysBeforeMonth_nonneg (y : Int) {m : Int} (h1 : 1 ≤ m) (h2 : m ≤ 12) :
    0 ≤ daysBeforeMonth y m := by
  rcases leapDay_cases y with ⟨h, _, _⟩ | ⟨h, _, _⟩ <;>
  rcases month_cases h1 h2 with rfl | rfl | rfl | rfl | rfl | rfl | rfl | rfl | rfl | rfl | rfl | rfl <;>
  simp [daysBeforeMonth, daysBeforeMonthTbl, h]

/-- month ends are increasing within the year -/
theorem daysBeforeMonth_add_le (y : Int) {m m' : Int} (h1 : 1 ≤ m) (h : m < m') (h2 : m' ≤ 12) :
    daysBeforeMonth y m + daysInMonth y m ≤ daysBeforeMonth y m' := by
  rcases leapDay_cases y with ⟨hl, _, _⟩ | ⟨hl, _, _⟩ <;>
  rcases month_cases h1 (by omega : m ≤ 12) with
    rfl | rfl | rfl | rfl | rfl | rfl | rfl | rfl | rfl | rfl | rfl | rfl <;>
  rcases month_cases (by omega : 1 ≤ m') h2 with
    rfl | rfl | rfl | rfl | rfl | rfl | rfl | rfl | rfl | rfl | rfl | rfl <;>
  first
  | (exfalso; omega)
  | simp [daysBeforeMonth, daysBeforeMonthTbl, daysInMonth, hl]

theorem daysBeforeMonth_add_le_year (y : Int) {m : Int} (h1 : 1 ≤ m) (h2 : m ≤ 12) :
    daysBeforeMonth y m + daysInMonth y m ≤ 365 + leapDay y := by
  by_cases h : m < 12
  · have := daysBeforeMonth_add_le y h1 h (Int.le_refl 12)
    have := daysBeforeMonth_dec y
    have := (daysInMonth_bounds y 12).1
    omega
  · have : m = 12 := by omega
    subst this
    exact Int.le_of_eq (daysBeforeMonth_dec y)

/-! ### `ymd2ord` -/

theorem ymd2ord_next_month (y : Int) {m : Int} (h1 : 1 ≤ m) (h2 : m < 12) :
    ymd2ord y (m + 1) 1 = ymd2ord y m (daysInMonth y m) + 1 := by
  unfold ymd2ord
  rw [daysBeforeMonth_succ y h1 h2]; omega

theorem ymd2ord_next_year (y : Int) :
    ymd2ord (y + 1) 1 1 = ymd2ord y 12 (daysInMonth y 12) + 1 := by
  unfold ymd2ord
  rw [daysBeforeYear_succ, daysBeforeMonth_one]
  have := daysBeforeMonth_dec y
  omega

theorem ymd2ord_add_day (y m d k : Int) : ymd2ord y m (d + k) = ymd2ord y m d + k := by
  unfold ymd2ord; omega

theorem ymd2ord_lt_of_day_lt (y m : Int) {d d' : Int} (h : d < d') : ymd2ord y m d < ymd2ord y m d' := by
  unfold ymd2ord; omega

theorem ymd2ord_lt_of_month_lt (y : Int) {m m' d d' : Int} (h1 : 1 ≤ m) (h : m < m') (h2 : m' ≤ 12)
    (hd : d ≤ daysInMonth y m) (hd' : 1 ≤ d') : ymd2ord y m d < ymd2ord y m' d' := by
  unfold ymd2ord
  have := daysBeforeMonth_add_le y h1 h h2
  omega

theorem ymd2ord_lt_of_year_lt {y y' m m' d d' : Int} (h : y < y') (h1 : 1 ≤ m) (h2 : m ≤ 12)
    (hd : d ≤ daysInMonth y m) (h1' : 1 ≤ m') (h2' : m' ≤ 12) (hd' : 1 ≤ d') :
    ymd2ord y m d < ymd2ord y' m' d' := by
  unfold ymd2ord
  have a1 := daysBeforeMonth_add_le_year y h1 h2
  have a2 := daysBeforeYear_succ y
  have a3 := daysBeforeYear_mono (show y + 1 ≤ y' by omega)
  have a4 := daysBeforeMonth_nonneg y' h1' h2'
  omega

/-- `_ymd2ord` is strictly increasing in `(y, m, d)` ordered lexicographically (valid dates) -/
theorem ymd2ord_lt {y m d y' m' d' : Int} (hv : ValidDate y m d) (hv' : ValidDate y' m' d')
    (h : y < y' ∨ (y = y' ∧ (m < m' ∨ (m = m' ∧ d < d')))) : ymd2ord y m d < ymd2ord y' m' d' := by
  obtain ⟨_, _, h1, h2, _, hd⟩ := hv
  obtain ⟨_, _, h1', h2', hd', _⟩ := hv'
  rcases h with h | ⟨rfl, h | ⟨rfl, h⟩⟩
  · exact ymd2ord_lt_of_year_lt h h1 h2 hd h1' h2' hd'
  · exact ymd2ord_lt_of_month_lt y h1 h h2' hd hd'
  · exact ymd2ord_lt_of_day_lt y m h

theorem ymd2ord_lt_iff {y m d y' m' d' : Int} (hv : ValidDate y m d) (hv' : ValidDate y' m' d') :
    ymd2ord y m d < ymd2ord y' m' d' ↔ (y < y' ∨ (y = y' ∧ (m < m' ∨ (m = m' ∧ d < d')))) := by
  constructor
  · intro h
    by_cases hc : (y < y' ∨ (y = y' ∧ (m < m' ∨ (m = m' ∧ d < d'))))
    · exact hc
    · exfalso
      by_cases he : y = y' ∧ m = m' ∧ d = d'
      · obtain ⟨rfl, rfl, rfl⟩ := he; omega
      · have := ymd2ord_lt hv' hv (by omega)
        omega
  · exact ymd2ord_lt hv hv'

theorem ymd2ord_inj {y m d y' m' d' : Int} (hv : ValidDate y m d) (hv' : ValidDate y' m' d')
    (h : ymd2ord y m d = ymd2ord y' m' d') : y = y' ∧ m = m' ∧ d = d' := by
  have a := (ymd2ord_lt_iff hv hv').2
  have b := (ymd2ord_lt_iff hv' hv).2
  by_cases c1 : (y < y' ∨ (y = y' ∧ (m < m' ∨ (m = m' ∧ d < d'))))
  · have := a c1; omega
  · by_cases c2 : (y' < y ∨ (y' = y ∧ (m' < m ∨ (m' = m ∧ d' < d))))
    · have := b c2; omega
    · omega

/-- ordinals of valid dates are in `1 ..= maxOrdinal` -/
theorem ymd2ord_bounds {y m d : Int} (hv : ValidDate y m d) :
    d ≤ ymd2ord y m d ∧ ymd2ord y m d ≤ maxOrdinal := by
  obtain ⟨hy1, hy2, h1, h2, hd1, hd⟩ := hv
  unfold ymd2ord
  have a1 := daysBeforeMonth_add_le_year y h1 h2
  have a2 := daysBeforeYear_succ y
  have a3 := daysBeforeYear_le_max hy2
  have a4 := daysBeforeMonth_nonneg y h1 h2
  have a5 := daysBeforeYear_nonneg hy1
  omega

end Hdc.PyDate
