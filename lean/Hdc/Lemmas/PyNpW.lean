import Hdc.PyNpW
import Hdc.Lemmas.GenNum
import Hdc.Lemmas.SmoothBasic
/-
Lemmas about the NumPy combinators of Hdc/PyNpW.lean: each combinator applied to arrays that come from
lists is the array of the corresponding `List` operation (`np_list`: the rewriting set that moves a
program expression over `Array`s to the list level, where the hand models live).
Kernel independent: nothing here mentions a generated kernel.
-/
namespace Hdc.PyNpW
open Hdc Hdc.Gen.NumKernels

set_option linter.unusedSectionVars false

section generic
variable {α β γ : Type}

theorem npMap_toArray (f : α → β) (l : List α) : npMap f l.toArray = (l.map f).toArray := by
  simp [npMap]

theorem npMap2_toArray (f : α → β → γ) (a : List α) (b : List β) :
    npMap2 f a.toArray b.toArray = (List.zipWith f a b).toArray := by
  simp [npMap2]

theorem npMaskSet_toArray (a : List α) (m : List Bool) (c : α) :
    npMaskSet a.toArray m.toArray c = (List.zipWith (fun x b => if b then c else x) a m).toArray := by
  simp [npMaskSet]

theorem npWhereSA_toArray (c : List Bool) (a : α) (b : List α) :
    npWhereSA c.toArray a b.toArray = (List.zipWith (fun ci bi => if ci then a else bi) c b).toArray := by
  simp [npWhereSA]

theorem npSelect_toArray (a : List α) (m : List Bool) :
    npSelect a.toArray m.toArray = (((a.zip m).filter fun p => p.2).map fun p => p.1).toArray := rfl

theorem npCount_toArray (m : List Bool) : npCount m.toArray = ((m.filter id).length : ℤ) := rfl

theorem npFill_toArray (a : List α) (c : α) : npFill a.toArray c = (a.map fun _ => c).toArray := by
  simp [npFill]

theorem npFill_replicate (n : ℕ) (v c : α) : npFill (Array.replicate n v) c = Array.replicate n c := by
  simp [npFill]

@[simp] theorem npCopyTo_eq (a b : Array α) : npCopyTo a b = b := rfl

/-! #### the same facts in `toList` form (for arbitrary arrays) -/

@[simp] theorem toList_npMap (f : α → β) (a : Array α) : (npMap f a).toList = a.toList.map f := by
  simp [npMap]
@[simp] theorem toList_npMap2 (f : α → β → γ) (a : Array α) (b : Array β) :
    (npMap2 f a b).toList = List.zipWith f a.toList b.toList := by
  simp [npMap2]
@[simp] theorem toList_npMaskSet (a : Array α) (m : Array Bool) (c : α) :
    (npMaskSet a m c).toList = List.zipWith (fun x b => if b then c else x) a.toList m.toList := by
  simp [npMaskSet]
@[simp] theorem toList_npWhereSA (c : Array Bool) (a : α) (b : Array α) :
    (npWhereSA c a b).toList = List.zipWith (fun ci bi => if ci then a else bi) c.toList b.toList := by
  simp [npWhereSA]
@[simp] theorem toList_npSelect (a : Array α) (m : Array Bool) :
    (npSelect a m).toList = ((a.toList.zip m.toList).filter fun p => p.2).map fun p => p.1 := rfl
theorem npCount_eq (m : Array Bool) : npCount m = ((m.toList.filter id).length : ℤ) := rfl
@[simp] theorem toList_npFill (a : Array α) (c : α) : (npFill a c).toList = a.toList.map fun _ => c := by
  simp [npFill]
@[simp] theorem size_npMap (f : α → β) (a : Array α) : (npMap f a).size = a.size := by simp [npMap]
@[simp] theorem size_npMap2 (f : α → β → γ) (a : Array α) (b : Array β) :
    (npMap2 f a b).size = min a.size b.size := by simp [npMap2]
@[simp] theorem size_npMaskSet (a : Array α) (m : Array Bool) (c : α) :
    (npMaskSet a m c).size = min a.size m.size := by simp [npMaskSet]
@[simp] theorem size_npWhereSA (c : Array Bool) (a : α) (b : Array α) :
    (npWhereSA c a b).size = min c.size b.size := by simp [npWhereSA]
@[simp] theorem size_npFill (a : Array α) (c : α) : (npFill a c).size = a.size := by simp [npFill]

@[simp] theorem toList_wr_zero [Add α] [NatCast α] (a : Array α) (v : α) :
    (Hdc.Gen.NumKernels.wr a 0 v).toList = a.toList.set 0 v := by
  simp [Hdc.Gen.NumKernels.wr, Hdc.Gen.NumKernels.ix]

theorem rdA_eq (a : Array (Array α)) (j : ℕ) : rdA a (j : ℤ) = a.toList.getD j #[] := by
  simp only [rdA, Hdc.GenNum.ix_of_eq _ (j : ℤ) j rfl]
  simp [Array.getD, List.getD]
  split <;> simp_all
theorem rdA_zero (a : Array (Array α)) : rdA a 0 = a.toList.getD 0 #[] := rdA_eq a 0
theorem rdA_one (a : Array (Array α)) : rdA a 1 = a.toList.getD 1 #[] := rdA_eq a 1

theorem npArange_natCast (m : ℕ) :
    npArange (m : ℤ) = (List.map (fun (k : ℕ) => (k : ℤ)) (List.range m)).toArray := by
  unfold npArange pyRange
  congr 1
  rw [show ((m : ℤ) - 0).toNat = m by omega]
  apply List.map_congr_left
  intro k _
  simp

theorem sliceIx_zero (n : ℕ) : sliceIx n 0 = 0 := by simp [sliceIx]

theorem sliceIx_size (n : ℕ) : sliceIx n (n : ℤ) = n := by
  have : ¬ ((n : ℤ) < 0) := by omega
  simp [sliceIx, this]

/-- `a[0:m] = b` with `m = len(a) = len(b)` replaces the content -/
theorem npSetSlice_full (a b : Array α) (m : ℤ) (hm : m = (a.size : ℤ)) (hb : b.size = a.size) :
    npSetSlice a 0 m b = b := by
  subst hm
  apply Array.ext
  · simp [npSetSlice, hb]
  · intro i h1 h2
    simp only [npSetSlice, sliceIx_zero, sliceIx_size, Array.getElem_ofFn]
    have hi : i < a.size := by simpa [npSetSlice] using h1
    simp [hi, Array.getD, h2]

/-- `b[0:m]` with `m = len(b)` is the whole array -/
theorem npSlice_full (b : Array α) (m : ℤ) (hm : m = (b.size : ℤ)) : npSlice b 0 m = b := by
  subst hm
  simp [npSlice, sliceIx_zero, sliceIx_size]

theorem rdA_push_lt (a : Array (Array α)) (x : Array α) (j : ℕ) (hj : j < a.size) :
    rdA (a.push x) (j : ℤ) = rdA a (j : ℤ) := by
  simp only [rdA, Hdc.GenNum.ix_of_eq _ (j : ℤ) j rfl, Array.size_push]
  simp [Array.getD, hj, Nat.lt_succ_of_lt hj, Array.getElem_push_lt hj]

theorem rdA_push_eq (a : Array (Array α)) (x : Array α) :
    rdA (a.push x) (a.size : ℤ) = x := by
  simp only [rdA, Hdc.GenNum.ix_of_eq _ (a.size : ℤ) a.size rfl, Array.size_push]
  simp [Array.getD]

theorem rdA_toArray (l : List (Array α)) (j : ℕ) : rdA l.toArray (j : ℤ) = l.getD j #[] := by
  simp only [rdA, Hdc.GenNum.ix_of_eq _ (j : ℤ) j rfl]
  simp [Array.getD, List.getD]
  split <;> simp_all

open Lean Elab Tactic Meta in
/-- remove the join points of a `do` block (local definitions `__do_jp`: copies of program text that
    the verification-condition generator has already inlined) from the context -/
elab "clear_jps" : tactic => withMainContext do
  let lctx ← getLCtx
  let mut g ← getMainGoal
  for decl in lctx.decls.toArray.reverse do
    if let some decl := decl then
      if decl.userName.eraseMacroScopes == `__do_jp then
        try g ← g.clear decl.fvarId catch _ => pure ()
  replaceMainGoal [g]

end generic

section carrier
variable {α : Type} [Field α] [LinearOrder α] [IsStrictOrderedRing α]

theorem npSum_toArray (l : List α) : npSum l.toArray = sumF l := rfl
theorem npMedian_toArray (l : List α) : npMedian l.toArray = median l := rfl
theorem npMax_toArray (l : List α) : npMax l.toArray = maxL l := rfl
theorem npMin_toArray (l : List α) : npMin l.toArray = minL l := rfl

/-- `a[0] = v` on an array that comes from a list -/
theorem wr_zero_toArray (l : List α) (v : α) : wr l.toArray 0 v = (l.set 0 v).toArray := by
  simp [wr, ix]

/-- `[a, b][0]`, `[a, b][1]` -/
theorem rd_single (a : α) : rd #[a] 0 = a := by simp [rd, ix]
theorem rd_pair_zero (a b : α) : rd #[a, b] 0 = a := by simp [rd, ix]
theorem rd_pair_one (a b : α) : rd #[a, b] 1 = b := by simp [rd, ix]

end carrier

end Hdc.PyNpW
