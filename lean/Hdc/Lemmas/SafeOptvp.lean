import Hdc.Lemmas.SafeOptv
import Hdc.PySafeV
import Hdc.PyNpV
/-
SafeOptvp  Facts for "under the contract the flag of the instrumented `_ws2doptvp` / `ws2doptvp` / `ws2doptvplc` is false"
(Hdc/Props/SafeWs2doptvp*.lean):

  * the re-weighting loop `wa[j] = p if y[j] > z[j] else 1 - p; ww[j] = w[j] * wa[j]` multiplies every weight by a POSITIVE
    factor when `0 < p < 1` (`Rew`), so `ww` satisfies the contract of `ws2d` whenever `w` does (`Rew.call_ok`: the
    analogue of `SafeOptv.contract_raw` for the asymmetric weights);
  * the checks of Hdc/PySafe.lean / Hdc/PySafeV.lean on slices as rewrite rules with arithmetic side conditions, and the sizes
    of the arrays the slice combinators of Hdc/PyNpV.lean return.

Nothing here mentions a generated V-curve kernel.
-/
namespace Hdc.SafeOptvp
open Hdc Hdc.Gen.NumKernels Hdc.GenNum Hdc.SafeL
open Hdc.Ws2dGen (av)
open Hdc.Ws2d (fnl)

set_option linter.unusedSectionVars false

/-! ### slices: checks and sizes -/

theorem badSlice_false (n : ℕ) (lo hi : ℤ) (h : 0 ≤ lo ∧ lo ≤ hi ∧ hi ≤ (n : ℤ)) : badSlice n lo hi = false :=
  badSlice_eq_false_iff.2 h

theorem badStoreLen_false (lo hi : ℤ) (k : ℕ) (h : hi - lo = (k : ℤ)) : PySafeV.badStoreLen lo hi k = false :=
  PySafeV.badStoreLen_eq_false_iff.2 h

theorem lenDiff_false (n k : ℕ) (h : n = k) : PySafeV.lenDiff n k = false :=
  PySafeV.lenDiff_eq_false_iff.2 h

theorem size_npSlice_full {β : Type} (a : Array β) (hi : ℤ) (h : hi = (a.size : ℤ)) :
    (PyNpV.npSlice a 0 hi).size = a.size := by
  rw [PyNpV.npSlice_full a hi h]

/-- `y[:]` for a list literal -/
theorem size_npSlice_toArray {β : Type} (l : List β) (hi : ℤ) (h : hi = (l.length : ℤ)) :
    (PyNpV.npSlice l.toArray 0 hi).size = l.length := by
  rw [size_npSlice_full _ _ (by simpa using h)]; simp

/-- `znew[0:m]` right after `znew[0:m] = …` -/
theorem size_npSlice_setSlice {β : Type} (a b : Array β) (hi hi' : ℤ) (h : hi = (a.size : ℤ))
    (h' : hi' = (a.size : ℤ)) : (PyNpV.npSlice (PyNpV.npSetSlice a 0 hi b) 0 hi').size = a.size := by
  rw [size_npSlice_full _ _ (by rw [PyNpV.size_npSetSlice_full _ _ _ h]; exact h'),
    PyNpV.size_npSetSlice_full _ _ _ h]

theorem size_npFillSlice_full {β : Type} (a : Array β) (hi : ℤ) (v : β) (h : hi = (a.size : ℤ)) :
    (PyNpV.npFillSlice a 0 hi v).size = a.size := by
  rw [PyNpV.npFillSlice_full a hi v h]; simp

theorem size_npRoundInto {β : Type} (rnd : β → β) (z out : Array β) :
    (PyNpV.npRoundInto rnd z out).size = out.size := by
  unfold PyNpV.npRoundInto
  exact PyNpV.size_npSetSlice_full _ _ _ rfl

section order
variable {α : Type} [Field α] [LinearOrder α] [IsStrictOrderedRing α]

/-! ### the weights the kernel is given / builds -/

/-- what `ws2d` needs of the first `n` cells of a weight vector (`n` observations): they exist, none is negative, two are
    positive -/
structure WOK (w : List α) (n : ℕ) : Prop where
  wlen : n ≤ w.length
  nonneg : ∀ i < n, 0 ≤ fnl w i
  two_pos : ∃ i j, i < j ∧ j < n ∧ 0 < fnl w i ∧ 0 < fnl w j

/-- the validity weights (`1` on valid cells, `0` on `nodata` cells) of a series with two valid cells -/
theorem WOK.raw (miss : α → Bool) (y : List α) (hv : 2 ≤ countValid miss y) : WOK (weightsOf miss y) y.length := by
  refine ⟨by simp, fun i hi => ?_, ?_⟩
  · rw [Hdc.Ws2d.fnl_of_lt _ _ (by simpa using hi)]
    exact Smooth.weightsOf_nonneg miss y _ (List.getElem_mem _)
  obtain ⟨i, j, hij, hj, h1, h2⟩ := Smooth.exists_two_valid miss y hv
  refine ⟨i, j, hij, hj, ?_, ?_⟩
  · show 0 < C01.fn (weightsOf miss y) i
    rw [Smooth.fn_weightsOf miss y i (by omega), h1]; simp
  · show 0 < C01.fn (weightsOf miss y) j
    rw [Smooth.fn_weightsOf miss y j hj, h2]; simp

/-- the first `q` cells of `ww` are the cells of `w` times a positive factor -/
def Rew (w : List α) (q : ℕ) (ww : Array α) : Prop := ∀ j < q, ∃ c, 0 < c ∧ av ww j = fnl w j * c

theorem Rew.init (w : List α) (ww : Array α) : Rew w 0 ww := fun j hj => by omega

/-- `wa[j] = c; ww[j] = w[j] * wa[j]` with a positive `c` -/
theorem Rew.step {w : List α} {q : ℕ} {wa ww : Array α} {ci : ℤ} {c : α} (h : Rew w q ww)
    (hci : ci = (q : ℤ)) (hq : q < ww.size) (hqa : q < wa.size) (hc : 0 < c) :
    Rew w (q + 1) (wr ww ci (rd w.toArray ci * rd (wr wa ci c) ci)) := by
  intro j hj
  by_cases hjq : j = q
  · subst hjq
    refine ⟨c, hc, ?_⟩
    rw [av_wr_self _ ci _ j hci hq, rd_of_eq _ ci j hci, rd_of_eq _ ci j hci, av_wr_self _ ci _ j hci hqa,
      av_list]
  · obtain ⟨c', hc', he⟩ := h j (by omega)
    exact ⟨c', hc', by rw [av_wr_ne _ ci _ j (by omega) (by omega), he]⟩

theorem p1_pos {p : α} (h : p < 1) : 0 < (nat 1 : α) - p := by
  have : (nat 1 : α) = 1 := by simp [nat]
  rw [this]; exact sub_pos.2 h

/-- the contract of `ws2d` for re-weighted weights -/
theorem Rew.contract {y w : List α} {ww : Array α} {lam : α} (h : Rew w y.length ww) (hn : 3 ≤ y.length)
    (hlam : 0 < lam) (hW : WOK w y.length) (hs : ww.size = y.length) : SafeWs2d.Contract y ww.toList lam where
  len := hn
  wlen := by simpa using hs
  lam_pos := hlam
  w_nonneg := by
    intro x hx
    obtain ⟨i, hi, rfl⟩ := List.getElem_of_mem hx
    have hi' : i < y.length := by simpa [hs] using hi
    obtain ⟨c, hc, he⟩ := h i hi'
    have hx : ww.toList[i] = av ww i := by
      rw [av_eq_fnl_toList, Hdc.Ws2d.fnl_of_lt _ _ hi]
    rw [hx, he]
    exact mul_nonneg (hW.nonneg i hi') hc.le
  two_pos := by
    obtain ⟨i, j, hij, hj, h1, h2⟩ := hW.two_pos
    refine ⟨i, j, hij, by simpa [hs] using hj, ?_, ?_⟩
    · obtain ⟨c, hc, he⟩ := h i (by omega)
      show 0 < fnl ww.toList i
      rw [← av_eq_fnl_toList, he]; exact mul_pos h1 hc
    · obtain ⟨c, hc, he⟩ := h j (by omega)
      show 0 < fnl ww.toList j
      rw [← av_eq_fnl_toList, he]; exact mul_pos h2 hc

/-- every call `ws2d(y, λ, ww)` of the asymmetric V-curve kernels with a positive `λ` and re-weighted weights is safe -/
theorem Rew.call_ok {y w : List α} {ww : Array α} (lam : α) (hn : 3 ≤ y.length) (hW : WOK w y.length)
    (hlam : 0 < lam) (hs : ww.size = y.length) (h : Rew w y.length ww) :
    (Gen.Safe.ws2d y.toArray lam ww).2 = false := by
  have := SafeWs2d.safe_ws2d_ok y ww.toList lam (h.contract hn hlam hW hs)
  simpa using this

end order

end Hdc.SafeOptvp
