import Mathlib.Algebra.BigOperators.Group.Finset.Basic
import Mathlib.Algebra.BigOperators.Ring.Finset
import Mathlib.Algebra.Order.BigOperators.Ring.Finset
import Mathlib.Algebra.Order.Field.Basic
import Mathlib.Tactic.Ring
import Mathlib.Tactic.LinearCombination
import Mathlib.Tactic.Linarith
import Mathlib.Tactic.Positivity
/-
Specification-side lemmas for C01: second differences, DᵀD, the quadratic form, and the
penalised least-squares functional.  Nothing here mentions the program.

The definitions `d2`, `dmat`, `dtd`, `pls` are verbatim copies of `D2`, `Dmat`, `DtD`, `PLS`
of `Hdc/Props/C01.lean` (which cannot be imported from here); `C01.lean` identifies them by `rfl`.
-/
namespace Hdc.Ws2d
open Finset

variable {α : Type} [Field α]

def d2 (z : ℕ → α) (j : ℕ) : α := z j - 2 * z (j + 1) + z (j + 2)

def dmat (j i : ℕ) : α :=
  if i = j then 1 else if i = j + 1 then -2 else if i = j + 2 then 1 else 0

def dtd (n : ℕ) (z : ℕ → α) (i : ℕ) : α := ∑ j ∈ range (n - 2), dmat j i * d2 z j

def pls (n : ℕ) (y w : ℕ → α) (lam : α) (z : ℕ → α) : α :=
  (∑ i ∈ range n, w i * (y i - z i) ^ 2) + lam * ∑ j ∈ range (n - 2), (d2 z j) ^ 2

/-- the quadratic form of `W + λ DᵀD` -/
def qf (n : ℕ) (w : ℕ → α) (lam : α) (h : ℕ → α) : α :=
  (∑ i ∈ range n, w i * h i ^ 2) + lam * ∑ j ∈ range (n - 2), (d2 h j) ^ 2

theorem dmat_mul (j i : ℕ) (a : α) :
    dmat j i * a = (if i = j then a else 0) + (if i = j + 1 then -2 * a else 0)
      + (if i = j + 2 then a else 0) := by
  unfold dmat
  by_cases h1 : i = j
  · subst h1; simp
  · by_cases h2 : i = j + 1
    · subst h2; simp
    · by_cases h3 : i = j + 2
      · subst h3; simp
      · simp [h1, h2, h3]

/-! ### Column sums of `dmat` (index `j` runs) -/

theorem sum_dmat_zero (f : ℕ → α) (m : ℕ) (hm : 0 < m) :
    ∑ j ∈ range m, dmat j 0 * f j = f 0 := by
  rw [Finset.sum_eq_single 0]
  · simp [dmat]
  · intro j _ hj
    have : (0 : ℕ) ≠ j := fun h => hj h.symm
    simp [dmat, this]
  · intro h; exact absurd (mem_range.2 hm) h

theorem sum_dmat_one (f : ℕ → α) (m : ℕ) (hm : 1 < m) :
    ∑ j ∈ range m, dmat j 1 * f j = f 1 - 2 * f 0 := by
  have h : ∀ j, dmat j 1 * f j = (if j = 1 then f j else 0) + (if j = 0 then -2 * f j else 0) := by
    intro j
    rw [dmat_mul]
    have e1 : (1 = j) = (j = 1) := propext eq_comm
    have e2 : (1 = j + 1) = (j = 0) := propext (by omega)
    have e3 : ¬ (1 = j + 2) := by omega
    simp only [e1, e2, e3, if_false, add_zero]
  simp_rw [h, Finset.sum_add_distrib, Finset.sum_ite_eq', mem_range]
  have h0 : 0 < m := by omega
  simp [hm, h0]; ring

theorem sum_dmat_add_two (f : ℕ → α) (m i : ℕ) :
    ∑ j ∈ range m, dmat j (i + 2) * f j =
      (if i + 2 < m then f (i + 2) else 0) + (if i + 1 < m then -2 * f (i + 1) else 0)
        + (if i < m then f i else 0) := by
  have h : ∀ j, dmat j (i + 2) * f j = (if j = i + 2 then f j else 0)
      + (if j = i + 1 then -2 * f j else 0) + (if j = i then f j else 0) := by
    intro j
    rw [dmat_mul]
    have e1 : (i + 2 = j) = (j = i + 2) := propext eq_comm
    have e2 : (i + 2 = j + 1) = (j = i + 1) := propext (by omega)
    have e3 : (i + 2 = j + 2) = (j = i) := propext (by omega)
    simp only [e1, e2, e3]
  simp_rw [h, Finset.sum_add_distrib, Finset.sum_ite_eq', mem_range]

/-! ### Row sums of `dmat` (index `i` runs) -/

theorem sum_dmat_row (h : ℕ → α) (n j : ℕ) (hj : j + 2 < n) :
    ∑ i ∈ range n, dmat j i * h i = d2 h j := by
  simp_rw [dmat_mul, Finset.sum_add_distrib, Finset.sum_ite_eq', mem_range]
  have h0 : j < n := by omega
  have h1 : j + 1 < n := by omega
  simp [hj, h0, h1, d2]; ring

/-- `DᵀD` is the adjoint square of `D` -/
theorem sum_mul_dtd (n : ℕ) (h z : ℕ → α) :
    ∑ i ∈ range n, h i * dtd n z i = ∑ j ∈ range (n - 2), d2 h j * d2 z j := by
  unfold dtd
  simp_rw [Finset.mul_sum]
  rw [Finset.sum_comm]
  apply Finset.sum_congr rfl
  intro j hj
  have hj' : j + 2 < n := by have := mem_range.1 hj; omega
  rw [← sum_dmat_row h n j hj', Finset.sum_mul]
  apply Finset.sum_congr rfl
  intro i _; ring

/-! ### Explicit `dtd` in the five row classes -/

theorem dtd_zero (n : ℕ) (hn : 4 ≤ n) (z : ℕ → α) : dtd n z 0 = d2 z 0 := by
  unfold dtd; exact sum_dmat_zero _ _ (by omega)

theorem dtd_one (n : ℕ) (hn : 4 ≤ n) (z : ℕ → α) : dtd n z 1 = d2 z 1 - 2 * d2 z 0 := by
  unfold dtd; exact sum_dmat_one _ _ (by omega)

theorem dtd_mid (n : ℕ) (z : ℕ → α) (i : ℕ) (hi : i + 4 < n) :
    dtd n z (i + 2) = d2 z (i + 2) - 2 * d2 z (i + 1) + d2 z i := by
  unfold dtd; rw [sum_dmat_add_two]
  have h1 : i + 2 < n - 2 := by omega
  have h2 : i + 1 < n - 2 := by omega
  have h3 : i < n - 2 := by omega
  simp [h1, h2, h3]; ring

theorem dtd_penult (n : ℕ) (z : ℕ → α) (i : ℕ) (hi : i + 4 = n) :
    dtd n z (i + 2) = - 2 * d2 z (i + 1) + d2 z i := by
  unfold dtd; rw [sum_dmat_add_two]
  have h1 : ¬ i + 2 < n - 2 := by omega
  have h2 : i + 1 < n - 2 := by omega
  have h3 : i < n - 2 := by omega
  simp [h1, h2, h3]

theorem dtd_last (n : ℕ) (z : ℕ → α) (i : ℕ) (hi : i + 3 = n) :
    dtd n z (i + 2) = d2 z i := by
  unfold dtd; rw [sum_dmat_add_two]
  have h1 : ¬ i + 2 < n - 2 := by omega
  have h2 : ¬ i + 1 < n - 2 := by omega
  have h3 : i < n - 2 := by omega
  simp [h1, h2, h3]

/-! ### Linearity -/

theorem d2_sub (z z' : ℕ → α) (j : ℕ) : d2 (fun i => z i - z' i) j = d2 z j - d2 z' j := by
  simp only [d2]; ring

theorem dtd_sub (n : ℕ) (z z' : ℕ → α) (i : ℕ) :
    dtd n (fun i => z i - z' i) i = dtd n z i - dtd n z' i := by
  unfold dtd
  rw [← Finset.sum_sub_distrib]
  apply Finset.sum_congr rfl
  intro j _; rw [d2_sub]; ring

theorem dtd_congr (n : ℕ) (z z' : ℕ → α) (h : ∀ i < n, z i = z' i) (i : ℕ) :
    dtd n z i = dtd n z' i := by
  unfold dtd
  apply Finset.sum_congr rfl
  intro j hj
  have hj' : j + 2 < n := by have := mem_range.1 hj; omega
  simp only [d2]
  rw [h j (by omega), h (j + 1) (by omega), h (j + 2) hj']

/-! ### Expansion of the functional around a solution of the normal equations -/

theorem pls_expand (n : ℕ) (y w : ℕ → α) (lam : α) (z z' : ℕ → α) :
    pls n y w lam z' = pls n y w lam z
      + 2 * ∑ i ∈ range n, (z' i - z i) * (w i * z i + lam * dtd n z i - w i * y i)
      + qf n w lam (fun i => z' i - z i) := by
  have hadj := sum_mul_dtd n (fun i => z' i - z i) z
  have e1 : ∑ i ∈ range n, (z' i - z i) * (w i * z i + lam * dtd n z i - w i * y i)
      = ∑ i ∈ range n, (z' i - z i) * (w i * (z i - y i))
        + lam * ∑ i ∈ range n, (z' i - z i) * dtd n z i := by
    rw [Finset.mul_sum, ← Finset.sum_add_distrib]
    apply Finset.sum_congr rfl; intro i _; ring
  rw [e1, hadj]
  have e2 : ∀ j, d2 z' j = d2 z j + d2 (fun i => z' i - z i) j := by
    intro j; rw [d2_sub]; ring
  have e3 : ∑ j ∈ range (n - 2), d2 z' j ^ 2
      = ∑ j ∈ range (n - 2), (d2 z j ^ 2
          + 2 * (d2 (fun i => z' i - z i) j * d2 z j)
          + d2 (fun i => z' i - z i) j ^ 2) := by
    apply Finset.sum_congr rfl; intro j _; rw [e2 j]; ring
  have e4 : ∑ i ∈ range n, w i * (y i - z' i) ^ 2
      = ∑ i ∈ range n, (w i * (y i - z i) ^ 2
          + 2 * ((z' i - z i) * (w i * (z i - y i))) + w i * (z' i - z i) ^ 2) := by
    apply Finset.sum_congr rfl; intro i _; ring
  unfold pls qf
  beta_reduce
  rw [e3, e4]
  simp only [Finset.sum_add_distrib, ← Finset.mul_sum]
  ring

/-- around a solution of the normal equations the functional is that value plus the form -/
theorem pls_of_normal (n : ℕ) (y w : ℕ → α) (lam : α) (z z' : ℕ → α)
    (hz : ∀ i < n, w i * z i + lam * dtd n z i = w i * y i) :
    pls n y w lam z' = pls n y w lam z + qf n w lam (fun i => z' i - z i) := by
  rw [pls_expand n y w lam z z']
  have : ∑ i ∈ range n, (z' i - z i) * (w i * z i + lam * dtd n z i - w i * y i) = 0 := by
    apply Finset.sum_eq_zero
    intro i hi
    rw [hz i (mem_range.1 hi)]; ring
  rw [this]; ring

end Hdc.Ws2d

/-! ### Definiteness (ordered field) -/
namespace Hdc.Ws2d
open Finset

variable {α : Type} [Field α] [LinearOrder α] [IsStrictOrderedRing α]

theorem qf_nonneg (n : ℕ) (w : ℕ → α) (lam : α) (hlam : 0 < lam)
    (hw : ∀ i < n, 0 ≤ w i) (h : ℕ → α) : 0 ≤ qf n w lam h := by
  unfold qf
  have h1 : 0 ≤ ∑ i ∈ range n, w i * h i ^ 2 :=
    Finset.sum_nonneg (fun i hi => mul_nonneg (hw i (mem_range.1 hi)) (sq_nonneg _))
  have h2 : 0 ≤ ∑ j ∈ range (n - 2), (d2 h j) ^ 2 := Finset.sum_nonneg (fun j _ => sq_nonneg _)
  have := mul_nonneg hlam.le h2
  linarith

/-- the quadratic form is definite as soon as two weights are positive -/
theorem qf_definite (n : ℕ) (w : ℕ → α) (lam : α) (hlam : 0 < lam)
    (hw : ∀ i < n, 0 ≤ w i) (p q : ℕ) (hpq : p < q) (hq : q < n) (hwp : 0 < w p) (hwq : 0 < w q)
    (h : ℕ → α) (hQ : qf n w lam h ≤ 0) : ∀ i < n, h i = 0 := by
  have n1 : ∀ i ∈ range n, 0 ≤ w i * h i ^ 2 :=
    fun i hi => mul_nonneg (hw i (mem_range.1 hi)) (sq_nonneg _)
  have n2 : ∀ j ∈ range (n - 2), 0 ≤ (d2 h j) ^ 2 := fun j _ => sq_nonneg _
  have h1 : 0 ≤ ∑ i ∈ range n, w i * h i ^ 2 := Finset.sum_nonneg n1
  have h2 : 0 ≤ ∑ j ∈ range (n - 2), (d2 h j) ^ 2 := Finset.sum_nonneg n2
  have h3 := mul_nonneg hlam.le h2
  unfold qf at hQ
  have s1 : ∑ i ∈ range n, w i * h i ^ 2 = 0 := by linarith
  have s2' : lam * ∑ j ∈ range (n - 2), (d2 h j) ^ 2 = 0 := by linarith
  have s2 : ∑ j ∈ range (n - 2), (d2 h j) ^ 2 = 0 := by
    rcases mul_eq_zero.1 s2' with h0 | h0
    · exact absurd h0 hlam.ne'
    · exact h0
  have t1 := (Finset.sum_eq_zero_iff_of_nonneg n1).1 s1
  have t2 := (Finset.sum_eq_zero_iff_of_nonneg n2).1 s2
  have hd : ∀ j, j + 2 < n → h (j + 2) = 2 * h (j + 1) - h j := by
    intro j hj
    have := t2 j (mem_range.2 (by omega))
    have := pow_eq_zero_iff (two_ne_zero) |>.1 this
    unfold d2 at this
    linear_combination this
  -- affine on [0, n)
  have haff : ∀ j, j < n → h j = h 0 + (j : α) * (h 1 - h 0) ∧
      (j + 1 < n → h (j + 1) = h 0 + ((j : α) + 1) * (h 1 - h 0)) := by
    intro j
    induction j with
    | zero => intro _; constructor <;> [simp; (intro _; simp)]
    | succ j ih =>
      intro hj
      have ihj := ih (by omega)
      refine ⟨by have := ihj.2 hj; push_cast; exact this, ?_⟩
      intro hj2
      have e := hd j (by omega)
      have a1 := ihj.1
      have a2 := ihj.2 hj
      push_cast
      rw [show j + 1 + 1 = j + 2 from rfl, e]
      linear_combination 2 * a2 - a1
  have zp : h p = 0 := by
    have := t1 p (mem_range.2 (by omega))
    rcases mul_eq_zero.1 this with h0 | h0
    · exact absurd h0 hwp.ne'
    · exact pow_eq_zero_iff (two_ne_zero) |>.1 h0
  have zq : h q = 0 := by
    have := t1 q (mem_range.2 hq)
    rcases mul_eq_zero.1 this with h0 | h0
    · exact absurd h0 hwq.ne'
    · exact pow_eq_zero_iff (two_ne_zero) |>.1 h0
  have ap := (haff p (by omega)).1
  have aq := (haff q hq).1
  have hne : (q : α) - (p : α) ≠ 0 := by
    have : (p : α) < (q : α) := Nat.cast_lt.2 hpq
    exact (sub_pos.2 this).ne'
  have hs : h 1 - h 0 = 0 := by
    have : ((q : α) - (p : α)) * (h 1 - h 0) = 0 := by
      linear_combination -aq + ap + zq - zp
    rcases mul_eq_zero.1 this with h0 | h0
    · exact absurd h0 hne
    · exact h0
  have h00 : h 0 = 0 := by
    rw [hs, mul_zero, add_zero] at ap
    rw [← ap]; exact zp
  intro i hi
  rw [(haff i hi).1, hs, h00]; ring

end Hdc.Ws2d
