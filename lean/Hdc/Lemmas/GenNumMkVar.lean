import Hdc.Lemmas.GenNum
import Hdc.Lemmas.PyNpT
import Hdc.Model.Stats
import Mathlib.Algebra.Order.Field.Basic
import Mathlib.Algebra.Order.Ring.Rat
/-
Loop invariants for `Gen.NumKernels.mk_variance_s` against the model `Hdc.mkVar18` / `Hdc.tieSizes`.
-/
namespace Hdc.GenNumMk
open Hdc Hdc.PyNpT
open Hdc.Ws2d (fnl)

set_option linter.unusedSectionVars false

variable {α : Type} [Field α] [LinearOrder α]

/-- number of cells of `l` equal to `u` (the inner loop `if xu[i] == x[ii]: _tp += 1`) -/
def cntEq (u : α) (l : List α) : ℕ := (l.filter fun v => eqv u v).length

/-- the tie term `t (t − 1) (2 t + 5)` -/
def tieTerm (t : ℤ) : ℤ := t * (t - 1) * (2 * t + 5)

/-- `tp` after the first `p` distinct values -/
def tpSum (x : List α) (p : ℕ) : ℤ := (((tieSizes x).take p).map fun (t : ℕ) => tieTerm (t : ℤ)).sum

theorem tieSizes_eq (x : List α) : tieSizes x = (Hdc.Py.unique x).map fun u => cntEq u x := rfl

theorem tieSizes_length (x : List α) : (tieSizes x).length = (Hdc.Py.unique x).length := by
  simp [tieSizes]

@[simp] theorem cntEq_nil (u : α) : cntEq u [] = 0 := rfl

theorem cntEq_take_succ (u : α) (x : List α) (q : ℕ) (h : q < x.length) :
    (cntEq u (x.take (q + 1)) : ℤ) = cntEq u (x.take q) + if eqv u (fnl x q) = true then 1 else 0 := by
  unfold cntEq
  rw [List.take_add_one, List.getElem?_eq_getElem h, ← fnl_eq_getElem x q h]
  simp only [Option.toList_some, List.filter_append, List.length_append, List.filter_cons, List.filter_nil]
  split <;> simp

@[simp] theorem tpSum_zero (x : List α) : tpSum x 0 = 0 := by simp [tpSum]

theorem tpSum_succ (x : List α) (p : ℕ) (h : p < (Hdc.Py.unique x).length) :
    tpSum x (p + 1) = tpSum x p + tieTerm (cntEq (fnl (Hdc.Py.unique x) p) x : ℕ) := by
  unfold tpSum
  rw [List.take_add_one, List.getElem?_eq_getElem (by rw [tieSizes_length]; exact h)]
  simp only [Option.toList_some, List.map_append, List.sum_append, List.map_cons, List.map_nil,
    List.sum_cons, List.sum_nil, add_zero]
  congr 3
  simp only [tieSizes_eq, List.getElem_map, fnl_eq_getElem _ p h]

/-- the model in terms of `tpSum` -/
theorem mkVar18_eq (x : List α) :
    mkVar18 x = if (Hdc.Py.unique x).length = x.length
      then (x.length : ℤ) * ((x.length : ℤ) - 1) * (2 * (x.length : ℤ) + 5)
      else (x.length : ℤ) * ((x.length : ℤ) - 1) * (2 * (x.length : ℤ) + 5)
            - tpSum x (Hdc.Py.unique x).length := by
  unfold mkVar18
  simp only [tieSizes_length]
  split
  · rfl
  · congr 1
    unfold tpSum
    rw [List.take_of_length_le (by rw [tieSizes_length]), ← List.sum_eq_foldl]
    rfl

end Hdc.GenNumMk
