import Hdc.Lemmas.GenNum
import Hdc.Lemmas.PyNpT
import Hdc.Lemmas.StatsSlope
import Mathlib.Algebra.Order.Ring.Rat
/-
Loop invariant for `Gen.NumKernels.mk_sens_slope` against the model `Hdc.slopesFrom` / `Hdc.sensSlope`.
The invariant speaks about what is still to be written: the finished prefix `d[:ix]` followed by the slopes the model
still has to produce is the model's whole list.
-/
namespace Hdc.GenNumMk
open Hdc Hdc.PyNpT Hdc.Gen.NumKernels Hdc.Stats
open Hdc.Ws2dGen (av)
open Hdc.Ws2d (fnl)

set_option linter.unusedSectionVars false

variable {α : Type} [Field α] [LinearOrder α] [IsStrictOrderedRing α]

/-- the slopes of row `i`: `(x[j] - x[i]) / (j - i)` for `j = i+1 .. n-1` -/
def rowOf (x : List α) (i : ℕ) : List α :=
  (x.drop (i + 1)).zipIdx.map fun p => (p.1 - fnl x i) / nat (p.2 + 1)

theorem rowOf_length (x : List α) (i : ℕ) : (rowOf x i).length = x.length - (i + 1) := by
  simp [rowOf]

theorem rowOf_getElem (x : List α) (i q : ℕ) (h : i + 1 + q < x.length) :
    (rowOf x i)[q]'(by rw [rowOf_length]; omega) = (fnl x (i + 1 + q) - fnl x i) / ((q + 1 : ℕ) : α) := by
  simp only [rowOf, List.getElem_map, List.getElem_zipIdx, List.getElem_drop, Nat.zero_add, nat]
  try rw [fnl_eq_getElem x _ h]

/-- the model, one row at a time -/
theorem slopesFrom_drop (x : List α) (p : ℕ) (h : p < x.length) :
    slopesFrom 0 (x.drop p) = rowOf x p ++ slopesFrom 0 (x.drop (p + 1)) := by
  rw [List.drop_eq_getElem_cons h, slopesFrom_cons, slopesFrom_index (0 + 1) 0, rowOf,
    fnl_eq_getElem x p h]

theorem slopesFrom_short (x : List α) (p : ℕ) (h : x.length ≤ p + 1) : slopesFrom 0 (x.drop p) = [] := by
  rcases Nat.lt_or_ge p x.length with h1 | h1
  · rw [List.drop_eq_getElem_cons h1, List.drop_eq_nil_of_le (by omega)]
    rfl
  · rw [List.drop_eq_nil_of_le h1]; rfl

/-- `nd = int(n * (n - 1) / 2)` is the number of slopes -/
theorem nd_eq (x : List α) :
    (Int.tdiv ((x.length : ℤ) * ((x.length : ℤ) - 1)) 2).toNat = (slopesFrom 0 x).length := by
  rw [slopesFrom_length]
  have h : (x.length : ℤ) * ((x.length : ℤ) - 1) = ((x.length * (x.length - 1) : ℕ) : ℤ) := by
    rcases Nat.eq_zero_or_pos x.length with h0 | h0
    · simp [h0]
    · rw [Nat.cast_mul, Nat.cast_sub h0]; simp
  rw [h, Int.tdiv_eq_ediv_of_nonneg (by positivity)]
  omega

/-- a write at the frontier `L` of the finished prefix extends the prefix -/
theorem take_wr (a : Array α) (i : ℤ) (v : α) (L : ℕ) (hi : i = (L : ℤ)) (hL : L < a.size) :
    (wr a i v).toList.take (L + 1) = a.toList.take L ++ [v] := by
  simp only [wr, Hdc.GenNum.ix_of_eq a.size i L hi, Array.toList_setIfInBounds]
  rw [List.take_add_one, List.take_set_of_le (Nat.le_refl L)]
  simp [hL]

/-- the finished prefix `d[:ix]`, then `rem`, is the model's list -/
structure SInv (x : List α) (rem : List α) (d : Array α) (ix : ℤ) : Prop where
  nonneg : 0 ≤ ix
  le : ix.toNat ≤ d.size
  size : d.size = (slopesFrom 0 x).length
  eq : d.toList.take ix.toNat ++ rem = slopesFrom 0 x

theorem SInv.init (x : List α) :
    SInv x (slopesFrom 0 (x.drop 0))
      (npFull (Int.tdiv ((x.length : ℤ) * ((x.length : ℤ) - 1)) 2) (nat 1 : α)) 0 := by
  refine ⟨le_refl _, by simp, ?_, by simp⟩
  simp only [npFull, Array.size_replicate]
  exact nd_eq x

theorem SInv.cast {x : List α} {rem rem' : List α} {d : Array α} {ix : ℤ} (h : SInv x rem d ix)
    (hr : rem = rem') : SInv x rem' d ix := hr ▸ h

/-- entry of the inner loop -/
theorem SInv.enter {x : List α} {p : ℕ} {d : Array α} {ix : ℤ}
    (h : SInv x (slopesFrom 0 (x.drop p)) d ix) (hp : p < x.length) :
    SInv x ((rowOf x p).drop 0 ++ slopesFrom 0 (x.drop (p + 1))) d ix :=
  h.cast (by rw [slopesFrom_drop x p hp]; rfl)

/-- exit of the inner loop -/
theorem SInv.exit {x : List α} {p q : ℕ} {d : Array α} {ix : ℤ}
    (h : SInv x ((rowOf x p).drop q ++ slopesFrom 0 (x.drop (p + 1))) d ix)
    (hq : x.length - (p + 1) ≤ q) : SInv x (slopesFrom 0 (x.drop (p + 1))) d ix :=
  h.cast (by rw [List.drop_eq_nil_of_le (by rw [rowOf_length]; exact hq)]; rfl)

/-- `d[ix] = (x[j] - x[i]) / (j - i); ix += 1` -/
theorem SInv.step {x : List α} {p q : ℕ} {d : Array α} {ix : ℤ} {rest : List α}
    (h : SInv x ((rowOf x p).drop q ++ rest) d ix) (hq : p + 1 + q < x.length)
    {i j : ℤ} (hi : i = (p : ℤ)) (hj : j = ((p + 1 + q : ℕ) : ℤ)) (hc : ((j - i : ℤ) : α) = ((q + 1 : ℕ) : α)) :
    SInv x ((rowOf x p).drop (q + 1) ++ rest)
      (wr d ix ((rd x.toArray j - rd x.toArray i) / ((j - i : ℤ) : α))) (ix + 1) := by
  have hlen : q < (rowOf x p).length := by rw [rowOf_length]; omega
  have hd : (rowOf x p).drop q = (rowOf x p)[q] :: (rowOf x p).drop (q + 1) :=
    List.drop_eq_getElem_cons hlen
  have heq := h.eq
  rw [hd] at heq
  have hlt : ix.toNat < d.size := by
    have := congrArg List.length heq
    simp only [List.length_append, List.length_take, List.length_cons, Array.length_toList] at this
    have h1 := h.le
    have h2 := h.size
    omega
  have hnn := h.nonneg
  refine ⟨by omega, ?_, ?_, ?_⟩
  · rw [Hdc.GenNum.size_wr]; omega
  · rw [Hdc.GenNum.size_wr]; exact h.size
  · rw [show (ix + 1).toNat = ix.toNat + 1 by omega, take_wr d ix _ ix.toNat (by omega) hlt,
      List.append_assoc, ← heq]
    congr 1
    rw [List.singleton_append, List.cons_append]
    congr 1
    rw [rowOf_getElem x p q hq, hc, Hdc.GenNum.rd_of_eq _ _ _ hj, Hdc.GenNum.rd_of_eq _ _ _ hi,
      av_toArray, av_toArray]

/-- after the loops: the whole array is the model's list -/
theorem SInv.final {x : List α} {p : ℕ} {d : Array α} {ix : ℤ}
    (h : SInv x (slopesFrom 0 (x.drop p)) d ix) (hp : x.length ≤ p + 1) :
    d.toList = slopesFrom 0 x := by
  have heq := h.eq
  rw [slopesFrom_short x p hp, List.append_nil] at heq
  have hl := congrArg List.length heq
  rw [List.length_take, Array.length_toList, ← h.size] at hl
  rw [← heq, List.take_of_length_le (by rw [Array.length_toList]; omega)]

end Hdc.GenNumMk
