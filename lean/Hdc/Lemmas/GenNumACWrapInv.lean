import Hdc.Props.C15
import Hdc.Lemmas.GenNumACWrap
import Hdc.Props.GenNumACYxt
/-
Helper lemmas for Hdc/Props/GenNumACWrapInv.lean.

  autocorr_affine_ne     the 1-d affine invariance for EVERY `a ≠ 0` (Hdc/Props/C15.lean states it for `0 < a` only); the
                         homogeneity hypothesis on `rsqrt` is then `rsqrt (a² x) = rsqrt x / |a|` (for `0 < a` it is C15's)
  rsqrtR_homogeneous_abs the hypothesis `hh` is satisfiable for every `a ≠ 0` (real inverse square root)
  optF_encF / optI_renod the two re-encodings (`encF`, `renod`) decode to the same optional series
  rowSeries_map / colSeries_map, mem_of_mem_rowSeries / mem_of_mem_colSeries     slices of a re-encoded cube
-/
namespace Hdc.GenNumACWI
open Hdc Hdc.GenNumACW
open Hdc.GenNumACYxt (optF optI)

variable {α : Type} [Field α] [LinearOrder α] [IsStrictOrderedRing α]

set_option linter.unusedSectionVars false

/-- affine invariance of the 1-d model for every `a ≠ 0` (the sign of `a` is irrelevant for a lag-1 autocorrelation) -/
theorem autocorr_affine_ne (rsqrt : α → α) (eps : α) (data : List (Option α)) (a b : α)
    (ha : a ≠ 0) (hh : ∀ x, 0 < x → rsqrt (a ^ 2 * x) = rsqrt x / |a|)
    (hb : C15.EpsBranch eps (C15.amap a b data) ↔ C15.EpsBranch eps data) :
    autocorr1d rsqrt eps (C15.amap a b data) = autocorr1d rsqrt eps data := by
  rw [C15.autocorr_eq_spec rsqrt eps (C15.amap a b data), C15.autocorr_eq_spec rsqrt eps data, C15.nPairs_amap]
  by_cases hn : C15.nPairs (C15.X data) (C15.Y data) = 0
  · simp only [if_pos hn]
  simp only [if_neg hn]
  by_cases he : C15.EpsBranch eps data
  · rw [if_pos he, if_pos (hb.2 he)]
  rw [if_neg he, if_neg (fun h => he (hb.1 h))]
  obtain ⟨hx, hy⟩ := C15.cnt_ne_zero_of_pairs _ _ hn
  have hn' : C15.nPairs (C15.X (C15.amap a b data)) (C15.Y (C15.amap a b data)) ≠ 0 := by
    rw [C15.nPairs_amap]; exact hn
  obtain ⟨hx', hy'⟩ := C15.cnt_ne_zero_of_pairs _ _ hn'
  have hA : C15.scaledCov (C15.X (C15.amap a b data)) (C15.Y (C15.amap a b data))
      = a ^ 2 * C15.scaledCov (C15.X data) (C15.Y data) := by
    rw [C15.scaledCov_eq _ _ hx' hy', C15.scaledCov_eq _ _ hx hy, C15.X_amap, C15.Y_amap, StatsAC.numA_affine]
  rw [hA, (C15.scaledVar_amap a b data).1, (C15.scaledVar_amap a b data).2]
  have hCS := C15.scaledCov_sq_le (C15.X data) (C15.Y data)
  by_cases h0 : C15.scaledVar (C15.X data) * C15.scaledVar (C15.Y data) = 0
  · have hA0 : C15.scaledCov (C15.X data) (C15.Y data) = 0 := by
      have : C15.scaledCov (C15.X data) (C15.Y data) ^ 2 = 0 := le_antisymm (h0 ▸ hCS) (sq_nonneg _)
      exact (pow_eq_zero_iff two_ne_zero).1 this
    rw [hA0]; ring
  · have hvx : 0 < C15.scaledVar (C15.X data) :=
      lt_of_le_of_ne (C15.scaledVar_nonneg _) (fun h => h0 (by rw [← h, zero_mul]))
    have hvy : 0 < C15.scaledVar (C15.Y data) :=
      lt_of_le_of_ne (C15.scaledVar_nonneg _) (fun h => h0 (by rw [← h, mul_zero]))
    rw [hh _ hvx, hh _ hvy]
    have ha' : |a| ≠ 0 := abs_ne_zero.2 ha
    have h2 : a ^ 2 = |a| * |a| := by rw [← sq_abs, sq]
    rw [h2]
    field_simp

/-- the slice of a cell-wise re-encoded cube is the re-encoded slice -/
theorem rowSeries_map {γ δ : Type} (f : γ → δ) (x : List γ) (nr nc nt r c : ℕ) :
    rowSeries (x.map f) nr nc nt r c = (rowSeries x nr nc nt r c).map f := by
  unfold rowSeries
  rw [List.map_filterMap]
  apply List.filterMap_congr
  intro t _
  rw [List.getElem?_map]

theorem colSeries_map {γ δ : Type} (f : γ → δ) (x : List γ) (nt nr nc r c : ℕ) :
    colSeries (x.map f) nt nr nc r c = (colSeries x nt nr nc r c).map f := by
  unfold colSeries
  rw [List.map_filterMap]
  apply List.filterMap_congr
  intro t _
  rw [List.getElem?_map]

theorem mem_of_mem_rowSeries {γ : Type} {x : List γ} {nr nc nt r c : ℕ} {v : γ}
    (h : v ∈ rowSeries x nr nc nt r c) : v ∈ x := by
  unfold rowSeries at h
  obtain ⟨t, _, ht⟩ := List.mem_filterMap.1 h
  exact List.mem_of_getElem? ht

theorem mem_of_mem_colSeries {γ : Type} {x : List γ} {nt nr nc r c : ℕ} {v : γ}
    (h : v ∈ colSeries x nt nr nc r c) : v ∈ x := by
  unfold colSeries at h
  obtain ⟨t, _, ht⟩ := List.mem_filterMap.1 h
  exact List.mem_of_getElem? ht

/-- the float/NaN re-encoding of an integer cell: the nodata value becomes `nan`, every other value is cast -/
def encF (nodata : Int) (nan : α) (v : Int) : α := if v = nodata then nan else (v : α)

/-- another placeholder for the missing cells of an integer series -/
def renod (nodata nodata' : Int) (v : Int) : Int := if v = nodata then nodata' else v

theorem optF_encF (isnan : α → Bool) (nodata : Int) (nan : α) (s : List Int) (hnan : isnan nan = true)
    (hval : ∀ v ∈ s, v ≠ nodata → isnan (v : α) = false) :
    optF isnan (s.map (encF nodata nan)) = optI nodata s := by
  unfold optF optI
  rw [List.map_map]
  apply List.map_congr_left
  intro v hv
  by_cases h : v = nodata
  · simp [encF, h, hnan]
  · simp [encF, h, hval v hv h]

theorem optI_renod (nodata nodata' : Int) (s : List Int) (hfresh : ∀ v ∈ s, v ≠ nodata → v ≠ nodata') :
    (optI nodata' (s.map (renod nodata nodata')) : List (Option α)) = optI nodata s := by
  unfold optI
  rw [List.map_map]
  apply List.map_congr_left
  intro v hv
  by_cases h : v = nodata
  · simp [renod, h]
  · simp [renod, h, hfresh v hv h]

/-- `hh` is satisfiable for every `a ≠ 0`: the real inverse square root -/
theorem rsqrtR_homogeneous_abs (a : ℝ) : ∀ v, 0 < v → C15.rsqrtR (a ^ 2 * v) = C15.rsqrtR v / |a| := by
  intro v _
  unfold C15.rsqrtR
  rw [Real.sqrt_mul (sq_nonneg a), Real.sqrt_sq_eq_abs, mul_inv, div_eq_inv_mul]

end Hdc.GenNumACWI
