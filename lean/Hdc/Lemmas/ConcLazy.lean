import Hdc.Model.Effects
/-
C12, part A: the lazily initialised closure cell of `lazycompile`.

Semantics of the instruction lists of `Hdc.Effects.Instr` for N threads that share the cell `cache`,
the decidable predicate `SafeLazyInit`, and the generic theorems
  every program satisfying `SafeLazyInit` is safe for every number of threads and every schedule.
No Mathlib.
-/
namespace Hdc.Conc
open Hdc.Effects

/-- content of the closure cell `inner_decorated` -/
inductive Val where
  /-- `None` (not yet compiled) -/
  | none
  /-- the compiled function -/
  | compiled
  /-- anything else (a placeholder, a half-built object, ...) -/
  | other
  deriving DecidableEq, Repr

/-- shared cell, per-thread program counter, per-thread log of the value that was called -/
structure LState where
  cache : Val
  pc : Nat → Nat
  call : Nat → Option Val

def LState.init : LState := ⟨Val.none, fun _ => 0, fun _ => Option.none⟩

/-- pointwise update of a per-thread component -/
def upd {β : Type} (f : Nat → β) (i : Nat) (v : β) : Nat → β := fun j => if j = i then v else f j

@[simp] theorem upd_same {β : Type} (f : Nat → β) (i : Nat) (v : β) : upd f i v i = v := by simp [upd]
theorem upd_other {β : Type} (f : Nat → β) (i j : Nat) (v : β) (h : j ≠ i) : upd f i v j = f j := by
  simp [upd, h]

/-- what a `storeOther` writes: chosen by the adversary among the values that are not the compiled
    function -/
def junkVal (b : Bool) : Val := if b then Val.other else Val.none

/-- One atomic step.  An event `(i, b)` lets thread `i` execute its next instruction; `b` is the
    adversary's choice for a `storeOther`.  Threads `≥ N` do not exist, finished threads idle. -/
def step (prog : List Instr) (N : Nat) (s : LState) (e : Nat × Bool) : LState :=
  if e.1 < N then
    match prog[s.pc e.1]? with
    | Option.none => s
    | some (.loadTest k) =>
      if s.cache = Val.none then { s with pc := upd s.pc e.1 (s.pc e.1 + 1) }
      else { s with pc := upd s.pc e.1 k }
    | some .storeCompiled => { s with cache := Val.compiled, pc := upd s.pc e.1 (s.pc e.1 + 1) }
    | some .storeOther => { s with cache := junkVal e.2, pc := upd s.pc e.1 (s.pc e.1 + 1) }
    | some .loadCall =>
      { s with pc := upd s.pc e.1 prog.length, call := upd s.call e.1 (some s.cache) }
  else s

def runFrom (prog : List Instr) (N : Nat) (s : LState) (sched : List (Nat × Bool)) : LState :=
  sched.foldl (step prog N) s

/-- all threads start at pc 0 with an empty cell -/
def run (prog : List Instr) (N : Nat) (sched : List (Nat × Bool)) : LState :=
  runFrom prog N LState.init sched

/-- schedules that only name the thread (a `storeOther` publishes `other`) -/
def runNat (prog : List Instr) (N : Nat) (sched : List Nat) : LState :=
  run prog N (sched.map fun i => (i, true))

def runFin (prog : List Instr) (N : Nat) (sched : List (Fin N)) : LState :=
  run prog N (sched.map fun i => (i.val, true))

theorem runFrom_append (prog : List Instr) (N : Nat) (s : LState) (a b : List (Nat × Bool)) :
    runFrom prog N s (a ++ b) = runFrom prog N (runFrom prog N s a) b := by
  simp [runFrom, List.foldl_append]

theorem run_append (prog : List Instr) (N : Nat) (a b : List (Nat × Bool)) :
    run prog N (a ++ b) = runFrom prog N (run prog N a) b := runFrom_append ..

/-! ### the decidable predicate -/

/-- Abstract interpretation of one thread with the flag "this thread knows the cell is initialised".
    Both branches of a `loadTest` are explored; `true` = every `loadCall` that is reached is reached
    with the flag set.  Out of fuel counts as failure unless the thread has finished. -/
def absRun (prog : List Instr) : Nat → Nat → Bool → Bool
  | 0, pc, _ => decide (prog.length ≤ pc)
  | f + 1, pc, known =>
    match prog[pc]? with
    | Option.none => true
    | some (.loadTest k) => absRun prog f k true && absRun prog f (pc + 1) known
    | some .storeCompiled => absRun prog f (pc + 1) true
    | some .storeOther => absRun prog f (pc + 1) false
    | some .loadCall => known

def noStoreOther (prog : List Instr) : Bool := prog.all fun i => decide (i ≠ Instr.storeOther)

/-- every `loadTest k` at position `pc` has `pc < k ≤ length` -/
def forwardJumps (prog : List Instr) : Bool :=
  (List.range prog.length).all fun pc =>
    match prog[pc]? with
    | some (.loadTest k) => decide (pc < k ∧ k ≤ prog.length)
    | _ => true

/-- no `storeOther`; jumps go forward; every `loadCall` is guarded on every control path from pc 0 -/
def SafeLazyInit (prog : List Instr) : Bool :=
  noStoreOther prog && forwardJumps prog && absRun prog prog.length 0 false

theorem noStoreOther_get {prog : List Instr} (h : noStoreOther prog = true) (pc : Nat) :
    prog[pc]? ≠ some Instr.storeOther := by
  intro hp
  have hm : Instr.storeOther ∈ prog := List.mem_of_getElem? hp
  have := (List.all_eq_true.mp h) _ hm
  simp at this

theorem forwardJumps_get {prog : List Instr} (h : forwardJumps prog = true) {pc k : Nat}
    (hp : prog[pc]? = some (Instr.loadTest k)) : pc < k ∧ k ≤ prog.length := by
  have hlt : pc < prog.length := by
    rcases Nat.lt_or_ge pc prog.length with h' | h'
    · exact h'
    · rw [List.getElem?_eq_none h'] at hp; cases hp
  have := (List.all_eq_true.mp h) pc (List.mem_range.mpr hlt)
  rw [hp] at this
  simpa using this

theorem absRun_finished (prog : List Instr) (f pc : Nat) (known : Bool) (h : prog.length ≤ pc) :
    absRun prog f pc known = true := by
  cases f with
  | zero => simp [absRun, h]
  | succ f => simp [absRun, List.getElem?_eq_none h]

/-! ### the invariant -/

/-- the invariant of every reachable state of a `SafeLazyInit` program -/
structure Inv (prog : List Instr) (s : LState) : Prop where
  cache_ok : s.cache ≠ Val.other
  thr : ∀ i, ∃ f known, absRun prog f (s.pc i) known = true ∧ (known = true → s.cache = Val.compiled)
  calls : ∀ i v, s.call i = some v → v = Val.compiled

theorem inv_init {prog : List Instr} (h : SafeLazyInit prog = true) : Inv prog LState.init := by
  simp only [SafeLazyInit, Bool.and_eq_true] at h
  refine ⟨by simp [LState.init], fun i => ⟨prog.length, false, h.2, by simp⟩, ?_⟩
  intro i v hv
  simp [LState.init] at hv

theorem inv_step {prog : List Instr} (hno : noStoreOther prog = true) (N : Nat) (s : LState)
    (e : Nat × Bool) (hs : Inv prog s) : Inv prog (step prog N s e) := by
  obtain ⟨i, b⟩ := e
  unfold step
  split
  case isFalse => exact hs
  case isTrue hi =>
    obtain ⟨f, known, hf, hk⟩ := hs.thr i
    split
    case h_1 => exact hs
    case h_2 k hp =>
      -- loadTest
      simp only at hp
      cases f with
      | zero =>
        simp only [absRun, decide_eq_true_eq] at hf
        rw [List.getElem?_eq_none hf] at hp; cases hp
      | succ f =>
        simp only [absRun, hp, Bool.and_eq_true] at hf
        split
        case isTrue hc =>
          refine ⟨hs.cache_ok, fun j => ?_, hs.calls⟩
          by_cases hj : j = i
          · subst hj; exact ⟨f, known, by simpa using hf.2, hk⟩
          · simpa [upd_other _ _ _ _ hj] using hs.thr j
        case isFalse hc =>
          have hcomp : s.cache = Val.compiled := by
            have := hs.cache_ok
            cases hcache : s.cache <;> simp_all
          refine ⟨hs.cache_ok, fun j => ?_, hs.calls⟩
          by_cases hj : j = i
          · subst hj; exact ⟨f, true, by simpa using hf.1, fun _ => hcomp⟩
          · simpa [upd_other _ _ _ _ hj] using hs.thr j
    case h_3 hp =>
      -- storeCompiled
      simp only at hp
      cases f with
      | zero =>
        simp only [absRun, decide_eq_true_eq] at hf
        rw [List.getElem?_eq_none hf] at hp; cases hp
      | succ f =>
        simp only [absRun, hp] at hf
        refine ⟨by simp, fun j => ?_, hs.calls⟩
        by_cases hj : j = i
        · subst hj; exact ⟨f, true, by simpa using hf, fun _ => rfl⟩
        · obtain ⟨f', k', h1, _⟩ := hs.thr j
          exact ⟨f', k', by simpa [upd_other _ _ _ _ hj] using h1, fun _ => rfl⟩
    case h_4 hp =>
      exact absurd hp (noStoreOther_get hno _)
    case h_5 hp =>
      -- loadCall
      simp only at hp
      cases f with
      | zero =>
        simp only [absRun, decide_eq_true_eq] at hf
        rw [List.getElem?_eq_none hf] at hp; cases hp
      | succ f =>
        simp only [absRun, hp] at hf
        have hcomp := hk hf
        refine ⟨hs.cache_ok, fun j => ?_, fun j v hv => ?_⟩
        · by_cases hj : j = i
          · subst hj
            exact ⟨0, true, by simpa using absRun_finished prog 0 _ true (Nat.le_refl _),
              fun _ => hcomp⟩
          · simpa [upd_other _ _ _ _ hj] using hs.thr j
        · by_cases hj : j = i
          · subst hj
            simp only [upd_same, Option.some.injEq] at hv
            rw [← hv]; exact hcomp
          · simp only [upd_other _ _ _ _ hj] at hv
            exact hs.calls j v hv

theorem inv_runFrom {prog : List Instr} (hno : noStoreOther prog = true) (N : Nat)
    (sched : List (Nat × Bool)) : ∀ s, Inv prog s → Inv prog (runFrom prog N s sched) := by
  induction sched with
  | nil => intro s hs; exact hs
  | cons e t ih => intro s hs; exact ih _ (inv_step hno N s e hs)

theorem inv_run {prog : List Instr} (h : SafeLazyInit prog = true) (N : Nat)
    (sched : List (Nat × Bool)) : Inv prog (run prog N sched) := by
  have hno : noStoreOther prog = true := by
    simp only [SafeLazyInit, Bool.and_eq_true] at h; exact h.1.1
  exact inv_runFrom hno N sched _ (inv_init h)

/-! ### A1: every call sees the compiled function -/

theorem lazy_init_safe {prog : List Instr} (h : SafeLazyInit prog = true) (N : Nat)
    (sched : List (Nat × Bool)) (i : Nat) (v : Val) (hv : (run prog N sched).call i = some v) :
    v = Val.compiled :=
  (inv_run h N sched).calls i v hv

/-! ### A2: the cell only moves none → compiled -/

theorem cache_step_compiled {prog : List Instr} (hno : noStoreOther prog = true) (N : Nat)
    (s : LState) (e : Nat × Bool) (hc : s.cache = Val.compiled) :
    (step prog N s e).cache = Val.compiled := by
  unfold step
  split
  case isFalse => exact hc
  case isTrue =>
    split
    case h_1 => exact hc
    case h_2 => split <;> exact hc
    case h_3 => rfl
    case h_4 hp => exact absurd hp (noStoreOther_get hno _)
    case h_5 => exact hc

theorem cache_runFrom_compiled {prog : List Instr} (hno : noStoreOther prog = true) (N : Nat)
    (sched : List (Nat × Bool)) :
    ∀ s, s.cache = Val.compiled → (runFrom prog N s sched).cache = Val.compiled := by
  induction sched with
  | nil => intro s hs; exact hs
  | cons e t ih => intro s hs; exact ih _ (cache_step_compiled hno N s e hs)

/-- the order none < compiled on the values the cell takes -/
def Val.le (a b : Val) : Prop := a = Val.none ∨ (a = Val.compiled ∧ b = Val.compiled)

theorem lazy_cache_monotone {prog : List Instr} (h : SafeLazyInit prog = true) (N : Nat)
    (sched more : List (Nat × Bool)) :
    ((run prog N sched).cache = Val.none ∨ (run prog N sched).cache = Val.compiled) ∧
    ((run prog N sched).cache = Val.compiled → (run prog N (sched ++ more)).cache = Val.compiled) := by
  have hno : noStoreOther prog = true := by
    simp only [SafeLazyInit, Bool.and_eq_true] at h; exact h.1.1
  constructor
  · have := (inv_run h N sched).cache_ok
    cases hc : (run prog N sched).cache <;> simp_all
  · intro hc
    rw [run_append]
    exact cache_runFrom_compiled hno N more _ hc

theorem lazy_cache_le {prog : List Instr} (h : SafeLazyInit prog = true) (N : Nat)
    (sched more : List (Nat × Bool)) :
    Val.le (run prog N sched).cache (run prog N (sched ++ more)).cache := by
  obtain ⟨h1, h2⟩ := lazy_cache_monotone h N sched more
  rcases h1 with h1 | h1
  · exact Or.inl h1
  · exact Or.inr ⟨h1, h2 h1⟩

/-- the cell is never `other` and never returns to `none` -/
theorem lazy_cache_never_reset {prog : List Instr} (h : SafeLazyInit prog = true) (N : Nat)
    (sched more : List (Nat × Bool)) (hc : (run prog N sched).cache ≠ Val.none) :
    (run prog N (sched ++ more)).cache = Val.compiled := by
  obtain ⟨h1, h2⟩ := lazy_cache_monotone h N sched more
  rcases h1 with h1 | h1
  · exact absurd h1 hc
  · exact h2 h1

/-! ### A3: termination under a fair-enough schedule -/

/-- number of steps thread `i` gets -/
def turns (i : Nat) (sched : List (Nat × Bool)) : Nat := (sched.filter fun e => e.1 = i).length

theorem step_pc_other (prog : List Instr) (N : Nat) (s : LState) (e : Nat × Bool) (j : Nat)
    (hj : j ≠ e.1) : (step prog N s e).pc j = s.pc j := by
  unfold step
  split
  case isFalse => rfl
  case isTrue =>
    split
    case h_1 => rfl
    case h_2 => split <;> simp [upd_other _ _ _ _ hj]
    all_goals simp [upd_other _ _ _ _ hj]

theorem step_pc_self {prog : List Instr} (hfw : forwardJumps prog = true) (N : Nat) (s : LState)
    (e : Nat × Bool) (he : e.1 < N) :
    min (s.pc e.1 + 1) prog.length ≤ (step prog N s e).pc e.1 := by
  unfold step
  rw [if_pos he]
  split
  case h_1 hp =>
    have : prog.length ≤ s.pc e.1 := by
      rcases Nat.lt_or_ge (s.pc e.1) prog.length with h' | h'
      · rw [List.getElem?_eq_getElem h'] at hp; cases hp
      · exact h'
    omega
  case h_2 k hp =>
    have := forwardJumps_get hfw hp
    split <;> simp only [upd_same] <;> omega
  all_goals simp only [upd_same]; omega

theorem runFrom_pc_ge {prog : List Instr} (hfw : forwardJumps prog = true) (N : Nat) (i : Nat)
    (hi : i < N) (sched : List (Nat × Bool)) :
    ∀ s, min (s.pc i + turns i sched) prog.length ≤ (runFrom prog N s sched).pc i := by
  induction sched with
  | nil => intro s; simp [runFrom, turns]; omega
  | cons e t ih =>
    intro s
    have ih' := ih (step prog N s e)
    change _ ≤ (runFrom prog N (step prog N s e) t).pc i
    by_cases hei : e.1 = i
    · have h1 := step_pc_self hfw N s e (by omega)
      have ht : turns i (e :: t) = turns i t + 1 := by simp [turns, hei]
      rw [hei] at h1
      rw [ht]
      unfold turns at ih' ⊢
      omega
    · have h1 := step_pc_other prog N s e i (fun h => hei h.symm)
      have ht : turns i (e :: t) = turns i t := by simp [turns, hei]
      rw [ht, ← h1]; exact ih'

/-- a thread is finished when its pc has left the program -/
def finished (prog : List Instr) (s : LState) (i : Nat) : Prop := prog.length ≤ s.pc i

theorem lazy_all_terminate {prog : List Instr} (h : SafeLazyInit prog = true) (N : Nat)
    (sched : List (Nat × Bool)) (hfair : ∀ i, i < N → prog.length ≤ turns i sched) :
    ∀ i, i < N → finished prog (run prog N sched) i := by
  have hfw : forwardJumps prog = true := by
    simp only [SafeLazyInit, Bool.and_eq_true] at h; exact h.1.2
  intro i hi
  have := runFrom_pc_ge hfw N i hi sched LState.init
  have hf := hfair i hi
  unfold finished run
  simp only [LState.init] at this ⊢
  omega

end Hdc.Conc
