import Hdc.Model.Smooth
import Hdc.Props.C06core
import Mathlib.Algebra.Order.Field.Basic
import Mathlib.Algebra.Order.Ring.Abs
import Mathlib.Algebra.BigOperators.Group.List.Basic
import Mathlib.Algebra.Order.BigOperators.Group.List
import Mathlib.Tactic.Ring
import Mathlib.Tactic.Linarith
/-
Bridge lemmas: over a linearly ordered field the carrier-level primitives of the models are
the usual mathematical notions, and the list programs `asymW`, `mul2`, `sub2`, `fitTerms`
are `zipWith`s.
-/
namespace Hdc.Smooth
open Hdc Hdc.C01

set_option linter.unusedSectionVars false

variable {α : Type} [Field α] [LinearOrder α] [IsStrictOrderedRing α]

/-! ### primitives -/

theorem nat_eq (k : ℕ) : (nat k : α) = (k : α) := rfl
@[simp] theorem nat_zero : (nat 0 : α) = 0 := by simp [nat]
@[simp] theorem nat_one : (nat 1 : α) = 1 := by simp [nat]
@[simp] theorem nat_two : (nat 2 : α) = 2 := by simp [nat]

theorem eqv_iff (a b : α) : eqv a b = true ↔ a = b := by
  unfold eqv
  simp only [Bool.and_eq_true, Bool.not_eq_true', decide_eq_false_iff_not, not_lt]
  constructor
  · rintro ⟨h1, h2⟩; exact le_antisymm h2 h1
  · rintro rfl; exact ⟨le_refl _, le_refl _⟩

theorem eqv_eq_false_iff (a b : α) : eqv a b = false ↔ a ≠ b := by
  rw [Ne, ← eqv_iff a b, Bool.not_eq_true]

theorem eqv_eq_decide (a b : α) : eqv a b = decide (a = b) := by
  by_cases h : a = b
  · rw [(eqv_iff a b).2 h]; simp [h]
  · rw [(eqv_eq_false_iff a b).2 h]; simp [h]

theorem absv_eq (a : α) : absv a = |a| := by
  unfold absv
  rw [nat_zero]
  split_ifs with h
  · exact (abs_of_neg h).symm
  · exact (abs_of_nonneg (not_lt.1 h)).symm

theorem foldl_add_eq (l : List α) (a : α) : l.foldl (· + ·) a = a + l.sum := by
  induction l generalizing a with
  | nil => simp
  | cons x xs ih => simp only [List.foldl_cons, List.sum_cons, ih]; ring

theorem sumF_eq (l : List α) : sumF l = l.sum := by
  unfold sumF; rw [foldl_add_eq, nat_zero, zero_add]

theorem sumL_eq (l : List α) : sumL l = l.sum := by
  unfold sumL; rw [foldl_add_eq, nat_zero, zero_add]

/-! ### the elementwise list programs are `zipWith`s -/

theorem mul2_eq (a b : List α) : mul2 a b = List.zipWith (· * ·) a b := by
  induction a generalizing b with
  | nil => cases b <;> simp [mul2]
  | cons x xs ih => cases b with
    | nil => simp [mul2]
    | cons y ys => simp [mul2, ih]

theorem sub2_eq (a b : List α) : sub2 a b = List.zipWith (· - ·) a b := by
  induction a generalizing b with
  | nil => cases b <;> simp [sub2]
  | cons x xs ih => cases b with
    | nil => simp [sub2]
    | cons y ys => simp [sub2, ih]

/-- one asymmetric weight -/
def aw (p w y z : α) : α := w * (if z < y then p else 1 - p)

theorem asymW_eq (p : α) (w y z : List α) :
    asymW p w y z = List.zipWith (fun w yz => aw p w yz.1 yz.2) w (y.zip z) := by
  induction w generalizing y z with
  | nil => cases y <;> cases z <;> simp [asymW]
  | cons a as ih =>
    cases y with
    | nil => simp [asymW]
    | cons b bs =>
      cases z with
      | nil => simp [asymW]
      | cons c cs => simp [asymW, ih, aw]

/-- one fit term -/
def ft (w y z : α) : α := (w * (y - z)) * (w * (y - z))

theorem fitTerms_eq (w y z : List α) :
    fitTerms w y z = List.zipWith (fun w yz => ft w yz.1 yz.2) w (y.zip z) := by
  induction w generalizing y z with
  | nil => cases y <;> cases z <;> simp [fitTerms]
  | cons a as ih =>
    cases y with
    | nil => simp [fitTerms]
    | cons b bs =>
      cases z with
      | nil => simp [fitTerms]
      | cons c cs => simp [fitTerms, ih, ft]

@[simp] theorem mul2_length (a b : List α) : (mul2 a b).length = min a.length b.length := by
  rw [mul2_eq]; simp

@[simp] theorem sub2_length (a b : List α) : (sub2 a b).length = min a.length b.length := by
  rw [sub2_eq]; simp

@[simp] theorem asymW_length (p : α) (w y z : List α) :
    (asymW p w y z).length = min w.length (min y.length z.length) := by
  rw [asymW_eq]; simp

@[simp] theorem fitTerms_length (w y z : List α) :
    (fitTerms w y z).length = min w.length (min y.length z.length) := by
  rw [fitTerms_eq]; simp

/-! ### reading lists as functions -/

theorem fn_of_le (l : List α) (i : ℕ) (h : l.length ≤ i) : fn l i = 0 := Ws2d.fnl_of_le l i h

theorem fn_ne_zero_lt (l : List α) (i : ℕ) (h : fn l i ≠ 0) : i < l.length := by
  by_contra hc
  exact h (fn_of_le l i (not_lt.1 hc))

theorem fn_mul2 (a b : List α) (i : ℕ) : fn (mul2 a b) i = fn a i * fn b i := by
  by_cases h : i < a.length ∧ i < b.length
  · rw [fn_of_lt _ i (by simp; exact h), fn_of_lt _ i h.1, fn_of_lt _ i h.2]
    simp [mul2_eq]
  · rw [fn_of_le _ i (by simp; omega)]
    by_cases h1 : i < a.length
    · rw [fn_of_le b i (by omega)]; simp
    · rw [fn_of_le a i (by omega)]; simp

theorem fn_sub2 (a b : List α) (i : ℕ) (h1 : i < a.length) (h2 : i < b.length) :
    fn (sub2 a b) i = fn a i - fn b i := by
  rw [fn_of_lt _ i (by simp; exact ⟨h1, h2⟩), fn_of_lt _ i h1, fn_of_lt _ i h2]
  simp [sub2_eq]

theorem fn_asymW (p : α) (w y z : List α) (i : ℕ) (h1 : i < w.length) (h2 : i < y.length)
    (h3 : i < z.length) : fn (asymW p w y z) i = aw p (fn w i) (fn y i) (fn z i) := by
  rw [fn_of_lt _ i (by simp; exact ⟨h1, h2, h3⟩), fn_of_lt _ i h1, fn_of_lt _ i h2, fn_of_lt _ i h3]
  simp [asymW_eq]

/-- the support of the asymmetric weights is inside the support of `w` -/
theorem fn_asymW_ne_zero (p : α) (w y z : List α) (i : ℕ) (h : fn (asymW p w y z) i ≠ 0) :
    fn w i ≠ 0 := by
  have hi := fn_ne_zero_lt _ i h
  simp only [asymW_length, lt_min_iff] at hi
  rw [fn_asymW p w y z i hi.1 hi.2.1 hi.2.2, aw] at h
  exact left_ne_zero_of_mul h

theorem fn_zerosLike (y : List α) (i : ℕ) : fn (zerosLike y) i = 0 := by
  by_cases h : i < y.length
  · rw [zerosLike, fn_map_of_lt _ _ _ h]; simp
  · rw [fn_of_le _ i (by simp [zerosLike]; omega)]

@[simp] theorem zerosLike_length (y : List α) : (zerosLike y).length = y.length := by
  simp [zerosLike]

theorem zerosLike_congr (y y' : List α) (h : y.length = y'.length) :
    zerosLike y = zerosLike y' := by
  apply list_eq_of_fn _ _ (by simp [h])
  intro i _
  rw [fn_zerosLike, fn_zerosLike]

theorem zerosLike_eq_replicate (y : List α) : zerosLike y = List.replicate y.length 0 := by
  unfold zerosLike
  rw [nat_zero]
  exact List.map_const'

/-! ### validity weights, cleaned data, valid count -/

@[simp] theorem weightsOf_length (miss : α → Bool) (y : List α) :
    (weightsOf miss y).length = y.length := by simp [weightsOf]

@[simp] theorem cleanOf_length (miss : α → Bool) (y : List α) :
    (cleanOf miss y).length = y.length := by simp [cleanOf]

theorem fn_weightsOf (miss : α → Bool) (y : List α) (i : ℕ) (h : i < y.length) :
    fn (weightsOf miss y) i = if miss y[i] then 0 else 1 := by
  rw [fn_of_lt _ i (by simpa using h)]
  simp [weightsOf]

theorem fn_cleanOf (miss : α → Bool) (y : List α) (i : ℕ) (h : i < y.length) :
    fn (cleanOf miss y) i = if miss y[i] then 0 else y[i] := by
  rw [fn_of_lt _ i (by simpa using h)]
  simp [cleanOf]

theorem weightsOf_nonneg (miss : α → Bool) (y : List α) : ∀ x ∈ weightsOf miss y, (0 : α) ≤ x := by
  intro x hx
  simp only [weightsOf, List.mem_map] at hx
  obtain ⟨a, _, rfl⟩ := hx
  split_ifs <;> simp

theorem weightsOf_le_one (miss : α → Bool) (y : List α) : ∀ x ∈ weightsOf miss y, x ≤ (1 : α) := by
  intro x hx
  simp only [weightsOf, List.mem_map] at hx
  obtain ⟨a, _, rfl⟩ := hx
  split_ifs <;> simp

/-- a non-zero validity weight means the cell is valid -/
theorem weightsOf_ne_zero (miss : α → Bool) (y : List α) (i : ℕ) (h : fn (weightsOf miss y) i ≠ 0) :
    ∃ hi : i < y.length, miss y[i] = false := by
  have hi : i < y.length := by simpa using fn_ne_zero_lt _ i h
  refine ⟨hi, ?_⟩
  rw [fn_weightsOf miss y i hi] at h
  by_contra hc
  simp only [Bool.not_eq_false] at hc
  simp [hc] at h

/-- cleaning does not change what the weights let through -/
theorem cleanOf_masked (miss : α → Bool) (y : List α) (i : ℕ) (h : fn (weightsOf miss y) i ≠ 0) :
    fn y i = fn (cleanOf miss y) i := by
  obtain ⟨hi, hm⟩ := weightsOf_ne_zero miss y i h
  rw [fn_cleanOf miss y i hi, fn_of_lt _ i hi, hm]; simp

/-- two valid cells, located -/
theorem exists_two_valid (miss : α → Bool) (y : List α) (h : 2 ≤ countValid miss y) :
    ∃ i j, ∃ (_ : i < j) (hj : j < y.length), miss (y[i]'(by omega)) = false ∧ miss y[j] = false := by
  induction y with
  | nil => simp [countValid] at h
  | cons a as ih =>
    by_cases ha : miss a = true
    · have h' : 2 ≤ countValid miss as := by
        simpa [countValid, List.filter_cons, ha] using h
      obtain ⟨i, j, hij, hj, h1, h2⟩ := ih h'
      exact ⟨i + 1, j + 1, by omega, by simpa using hj, by simpa using h1, by simpa using h2⟩
    · have ha' : miss a = false := by simpa using ha
      have h' : 1 ≤ ((as.filter fun x => !miss x)).length := by
        simpa [countValid, List.filter_cons, ha'] using h
      have hpos : 0 < ((as.filter fun x => !miss x)).length := h'
      obtain ⟨b, hb⟩ := List.exists_mem_of_length_pos hpos
      rw [List.mem_filter] at hb
      obtain ⟨j, hj, rfl⟩ := List.getElem_of_mem hb.1
      refine ⟨0, j + 1, by omega, by simpa using hj, by simpa using ha', ?_⟩
      simpa using hb.2

theorem countValid_le_length (miss : α → Bool) (y : List α) : countValid miss y ≤ y.length :=
  List.length_filter_le _ _

/-- the contract of C01 holds for the cleaned data with the validity weights -/
theorem inContract_clean (miss : α → Bool) (y : List α) (lam : α) (hn : 4 ≤ y.length)
    (hlam : 0 < lam) (hv : 2 ≤ countValid miss y) :
    InContract (cleanOf miss y) (weightsOf miss y) lam where
  len := by simpa using hn
  wlen := by simp
  lam_pos := hlam
  w_nonneg := weightsOf_nonneg miss y
  two_pos := by
    obtain ⟨i, j, hij, hj, h1, h2⟩ := exists_two_valid miss y hv
    refine ⟨i, j, hij, by simpa using hj, ?_, ?_⟩
    · rw [fn_weightsOf miss y i (by omega), h1]; simp
    · rw [fn_weightsOf miss y j hj, h2]; simp

/-- the same with the raw (uncleaned) data, as the V-curve kernels use it -/
theorem inContract_raw (miss : α → Bool) (y : List α) (lam : α) (hn : 4 ≤ y.length)
    (hlam : 0 < lam) (hv : 2 ≤ countValid miss y) :
    InContract y (weightsOf miss y) lam where
  len := hn
  wlen := by simp
  lam_pos := hlam
  w_nonneg := weightsOf_nonneg miss y
  two_pos := (inContract_clean miss y lam hn hlam hv).two_pos

end Hdc.Smooth
