import Hdc.Lemmas.SafeBasic
import Hdc.Lemmas.ArrCommon
import Mathlib.Algebra.Order.Ring.Abs
import Mathlib.Tactic.Linarith
import Mathlib.Tactic.Ring
/-
SafeBrent  Why no division of `brentq` (hdc/algo/ops/stats.py) can be a division by zero, for EVERY function `f`, every
bracket and every pair of tolerances, over a linearly ordered field (Hdc/Props/SafeBrentq.lean).

Loop invariant `BInv` (at the head of the loop):   `fpre = f xpre`, `fcur = f xcur`, and
    `fpre * fcur < 0`  (the bracket is about to be reset)   or   `fblk = f xblk` and (`fcur = 0` or `fblk * fcur < 0`).
After the bracket reset and the swap ("mid-iteration") this gives `fpre = f xpre`, `fcur = f xcur`, `fblk = f xblk` and
`fblk * fcur < 0` (the program has returned when `fcur = 0`).  Then, in the interpolation branch (`|fcur| < |fpre|`):
  * `fcur - fpre ≠ 0`                         because `|fcur| < |fpre|`                                          (secant step)
  * `xpre - xcur ≠ 0`                         because `f xpre = fpre ≠ fcur = f xcur`
  * `xblk - xcur ≠ 0`                         because `f xblk` and `f xcur` have opposite signs
  * `dblk * dpre * (fblk - fpre) ≠ 0`         the two slopes are quotients of non-zero numbers, and `fblk ≠ fpre`: this branch
                                              (`xpre ≠ xblk`) is only reached when neither the reset nor the swap happened in
                                              this pass, so `fpre * fcur > 0`, while `fblk * fcur < 0`.
Nothing here mentions a generated program.
-/
namespace Hdc.SafeBrent
open Hdc Hdc.SafeL

variable {α : Type} [Field α] [LinearOrder α] [IsStrictOrderedRing α]

theorem absv_eq (a : α) : absv a = |a| := by
  unfold absv
  have : (nat 0 : α) = 0 := by simp [nat]
  rw [this]
  split_ifs with h
  · exact (abs_of_neg h).symm
  · exact (abs_of_nonneg (not_lt.1 h)).symm

/-- the loop invariant, on the state tuple of the instrumented loop
    `(bad, delta, sbis, stry, dpre, dblk, xpre, xcur, xblk, fblk, spre, scur, fpre, fcur, iterations)` -/
def BInv (f : α → α) (s : Bool × α × α × α × α × α × α × α × α × α × α × α × α × α × ℤ) : Prop :=
  s.1 = false ∧ s.2.2.2.2.2.2.2.2.2.2.2.2.1 = f s.2.2.2.2.2.2.1 ∧
    s.2.2.2.2.2.2.2.2.2.2.2.2.2.1 = f s.2.2.2.2.2.2.2.1 ∧
    (s.2.2.2.2.2.2.2.2.2.2.2.2.1 * s.2.2.2.2.2.2.2.2.2.2.2.2.2.1 < 0 ∨
      (s.2.2.2.2.2.2.2.2.2.1 = f s.2.2.2.2.2.2.2.2.1 ∧
        (s.2.2.2.2.2.2.2.2.2.2.2.2.2.1 = 0 ∨
          s.2.2.2.2.2.2.2.2.2.1 * s.2.2.2.2.2.2.2.2.2.2.2.2.2.1 < 0)))

/-- entry of the loop: the three tests before it leave a sign change -/
theorem BInv.init (f : α → α) (xa xb : α) (δ sb st dp db xk fk sp sc : α) (it : ℤ)
    (h1 : ¬ 0 < f xa * f xb) (h2 : f xa ≠ 0) (h3 : f xb ≠ 0) :
    BInv f (false, δ, sb, st, dp, db, xa, xb, xk, fk, sp, sc, f xa, f xb, it) := by
  refine ⟨rfl, rfl, rfl, Or.inl ?_⟩
  exact lt_of_le_of_ne (not_lt.1 h1) (mul_ne_zero h2 h3)

/-- mid-iteration facts when the bracket is not reset -/
theorem keep_bracket {f : α → α} {xk fp fc fk : α}
    (hK : fp * fc < 0 ∨ (fk = f xk ∧ (fc = 0 ∨ fk * fc < 0))) (hR : ¬ fp * fc < 0) :
    fk = f xk ∧ (fc = 0 ∨ fk * fc < 0) := hK.resolve_left hR

/-- end of a pass: `xpre, fpre := xcur, fcur`, a new point `xn` -/
theorem BInv.next {f : α → α} {b : Bool} {xc xn xk fc fk δ sb st dp db sp sc : α} {it : ℤ}
    (hb : b = false) (hfc : fc = f xc) (hfk : fk = f xk) (hs : fk * fc < 0) :
    BInv f (b, δ, sb, st, dp, db, xc, xn, xk, fk, sp, sc, fc, f xn, it) := by
  refine ⟨hb, hfc, rfl, ?_⟩
  show fc * f xn < 0 ∨ (fk = f xk ∧ (f xn = 0 ∨ fk * f xn < 0))
  rcases lt_trichotomy (f xn) 0 with hn | hn | hn
  · rcases mul_neg_iff.1 hs with ⟨hk, hc⟩ | ⟨hk, hc⟩
    · exact Or.inr ⟨hfk, Or.inr (mul_neg_of_pos_of_neg hk hn)⟩
    · exact Or.inl (mul_neg_of_pos_of_neg hc hn)
  · exact Or.inr ⟨hfk, Or.inl hn⟩
  · rcases mul_neg_iff.1 hs with ⟨hk, hc⟩ | ⟨hk, hc⟩
    · exact Or.inl (mul_neg_of_neg_of_pos hc hn)
    · exact Or.inr ⟨hfk, Or.inr (mul_neg_of_neg_of_pos hk hn)⟩

/-! ### the four divisors -/

theorem div1 {fc fp : α} (h : |fc| < |fp|) : fc - fp ≠ 0 := by
  intro h0
  rw [sub_eq_zero.1 h0] at h
  exact lt_irrefl _ h

theorem div2 {f : α → α} {xp xc fp fc : α} (hp : fp = f xp) (hc : fc = f xc) (h : |fc| < |fp|) :
    xp - xc ≠ 0 := by
  intro h0
  rw [hp, hc, sub_eq_zero.1 h0] at h
  exact lt_irrefl _ h

theorem div3 {f : α → α} {xk xc fk fc : α} (hk : fk = f xk) (hc : fc = f xc) (h : fk * fc < 0) :
    xk - xc ≠ 0 := by
  intro h0
  rw [hk, hc, sub_eq_zero.1 h0] at h
  exact absurd h (not_lt.2 (mul_self_nonneg _))

/-- `fblk ≠ fpre` when `fblk`, `fcur` have opposite signs and `fpre`, `fcur` do not -/
theorem fk_ne_fp {fp fc fk : α} (hs : fk * fc < 0) (hR : ¬ fp * fc < 0) : fk - fp ≠ 0 := by
  intro h0
  rw [sub_eq_zero.1 h0] at hs
  exact hR hs

theorem div4 {f : α → α} {xp xc xk fp fc fk : α} (hp : fp = f xp) (hc : fc = f xc) (hk : fk = f xk)
    (h : |fc| < |fp|) (hs : fk * fc < 0) (hR : ¬ fp * fc < 0) :
    (fk - fc) / (xk - xc) * ((fp - fc) / (xp - xc)) * (fk - fp) ≠ 0 := by
  have h1 : fk - fc ≠ 0 := by
    intro h0
    rw [sub_eq_zero.1 h0] at hs
    exact absurd hs (not_lt.2 (mul_self_nonneg _))
  have h2 : fp - fc ≠ 0 := fun h0 => div1 h (by rw [← neg_sub, h0, neg_zero])
  exact mul_ne_zero (mul_ne_zero (div_ne_zero h1 (div3 hk hc hs)) (div_ne_zero h2 (div2 hp hc h)))
    (fk_ne_fp hs hR)

/-! ### the tactic that closes one path through the loop body -/

open Hdc.Ws2dGen in
open Lean Elab Tactic Meta in
/-- `clear_large n`: clear every hypothesis (a proof) whose statement has more than `n` nodes: the conditions on the size of
    the trial step, which mention the interpolation formulas and are irrelevant for the safety argument -/
elab "clear_large " n:num : tactic => withMainContext do
  let lim := n.getNat
  let rec size (e : Expr) (fuel : Nat) : Nat :=
    match fuel with
    | 0 => 1
    | fuel + 1 =>
      match e with
      | .app f a => size f fuel + size a fuel
      | .lam _ t b _ => 1 + size t fuel + size b fuel
      | .forallE _ t b _ => 1 + size t fuel + size b fuel
      | .letE _ t v b _ => 1 + size t fuel + size v fuel + size b fuel
      | .mdata _ e => size e fuel
      | .proj _ _ e => 1 + size e fuel
      | _ => 1
  let mut g ← getMainGoal
  for decl in (← getLCtx) do
    if decl.isImplementationDetail || decl.isLet then continue
    if !(← isProp decl.type) then continue
    let t ← instantiateMVars decl.type
    if size t 40 > lim then
      try g ← g.clear decl.fvarId catch _ => pure ()
  replaceMainGoal [g]

/-- close a mid-iteration fact from the hypotheses of the path -/
macro "brent_fact" : tactic => `(tactic| first
  | assumption
  | (rw [mul_comm]; assumption)
  | grind)

set_option hygiene false in
macro "brent_path" : tactic => `(tactic| (
  rename_i hinv
  py_name b as b
  obtain ⟨r, bad, delta0, sbis0, stry0, dpre0, dblk0, xpre, xcur, xblk, fblk, spre, scur, fpre, fcur, it⟩ := b
  rcases hinv with ⟨_, hI⟩ | ⟨_, _, hnil, _⟩
  · obtain ⟨hb, hfp, hfc, hK⟩ := hI
    simp (config := {zetaDelta := true}) only [decide_eq_true_eq, eqv_iff, absv_eq, nat_zero,
      Bool.or_eq_true, Bool.and_eq_true, not_or, not_and, not_true_eq_false] at * <;> first
      | (refine Or.inr ⟨_, rfl, trivial, ?_⟩
         exact hb)
      | (refine Or.inl ⟨trivial, BInv.next ?_ ?_ ?_ ?_⟩ <;> clear_large 250
         · simp only [hb, Bool.false_or, Bool.or_eq_false_iff, eqv_false_iff]
           first
             | done
             | exact div1 (by brent_fact)
             | (have hkb := keep_bracket hK ‹¬ fpre * fcur < 0›
                have hs : fblk * fcur < 0 := hkb.2.resolve_left (‹¬ fcur = 0 ∧ _›).1
                exact ⟨⟨div2 hfp hfc (‹_ ∧ |fcur| < |fpre|›).2, div3 hkb.1 hfc hs⟩,
                  div4 hfp hfc hkb.1 (‹_ ∧ |fcur| < |fpre|›).2 hs ‹¬ fpre * fcur < 0›⟩)
         · brent_fact
         · brent_fact
         · brent_fact)
  · exact absurd hnil (List.cons_ne_nil _ _)))

end Hdc.SafeBrent
