import Hdc.Gen.Dekad
import Hdc.Lemmas.Dekad
/-
Labels: `Py.fmtInt` (zero padded decimal formatting), `Py.int` (parsing of digit strings),
`Py.slice` of a label, and the round trip `ofStr (str r) = .ok r` of the generated model.
-/
set_option linter.unusedSimpArgs false
namespace Hdc.C11
open Hdc Hdc.Py Hdc.PyDate Hdc.Gen.Dekad

/-! ### `int(s)` of a digit string -/

theorem foldl_int_eq (L : List Char) (init : Nat) :
    L.foldl (fun (acc : Int) c => acc * 10 + ((c.toNat - '0'.toNat : Nat) : Int)) (init : Int)
      = ((Nat.ofDigitChars 10 L init : Nat) : Int) := by
  induction L generalizing init with
  | nil => simp
  | cons c cs ih =>
    simp only [List.foldl_cons, Nat.ofDigitChars_cons]
    rw [← ih]
    congr 1
    omega

theorem int_ofList {L : List Char} (hne : L ≠ []) (hd : ∀ c ∈ L, c.isDigit = true) :
    Py.int (String.ofList L) = .ok ((Nat.ofDigitChars 10 L 0 : Nat) : Int) := by
  unfold Py.int
  simp only [String.toList_ofList]
  rw [if_neg (by simpa using hne), if_pos (List.all_eq_true.2 hd)]
  congr 1
  exact foldl_int_eq L 0

/-! ### `format(v, "0{w}d")` of a natural number -/

/-- the characters of `format(n, "0{w}d")` -/
def fmtL (w n : Nat) : List Char :=
  List.replicate (w - (Nat.toDigits 10 n).length) '0' ++ Nat.toDigits 10 n

theorem fmtInt_natCast (w n : Nat) : Py.fmtInt w (n : Int) = String.ofList (fmtL w n) := by
  unfold Py.fmtInt Py.digits fmtL
  have h : ¬ ((n : Int) < 0) := by omega
  simp [h]

theorem fmtInt_nonneg (w : Nat) {v : Int} (h : 0 ≤ v) : Py.fmtInt w v = String.ofList (fmtL w v.toNat) := by
  rw [← fmtInt_natCast, Int.toNat_of_nonneg h]

/-- exactly `w` characters when the value fits -/
theorem fmtL_length {w n : Nat} (hw : 0 < w) (h : n < 10 ^ w) : (fmtL w n).length = w := by
  have := (Nat.length_toDigits_le_iff (b := 10) (n := n) (by decide) hw).2 h
  unfold fmtL
  simp only [List.length_append, List.length_replicate]
  omega

/-- width 0 (`format(n, "d")`), one digit -/
theorem fmtL_zero_length {n : Nat} (h : n < 10) : (fmtL 0 n).length = 1 := by
  unfold fmtL
  rw [Nat.toDigits_of_lt_base h]
  simp

theorem fmtL_ne_nil (w n : Nat) : fmtL w n ≠ [] := by
  unfold fmtL
  simp

theorem fmtL_isDigit (w n : Nat) : ∀ c ∈ fmtL w n, c.isDigit = true := by
  intro c hc
  unfold fmtL at hc
  rcases List.mem_append.1 hc with h | h
  · rw [(List.mem_replicate.1 h).2]; decide
  · exact Nat.isDigit_of_mem_toDigits (by decide) (by decide) h

theorem fmtL_value (w n : Nat) : Nat.ofDigitChars 10 (fmtL w n) 0 = n := by
  unfold fmtL
  rw [Nat.ofDigitChars_append, Nat.ofDigitChars_replicate_zero, Nat.mul_zero,
    Nat.ofDigitChars_ten_toDigits]

/-- `int(format(n, "0{w}d")) = n` -/
theorem int_fmtL (w n : Nat) : Py.int (String.ofList (fmtL w n)) = .ok (n : Int) := by
  rw [int_ofList (fmtL_ne_nil w n) (fmtL_isDigit w n), fmtL_value]

/-! ### slices of a label `YYYYMMdI` -/

theorem slice_label (A B C : List Char) (hA : A.length = 4) (hB : B.length = 2) (hC : C.length = 1) :
    Py.slice (String.ofList (A ++ B ++ ['d'] ++ C)) none (some 4) = String.ofList A ∧
    Py.slice (String.ofList (A ++ B ++ ['d'] ++ C)) (some 4) (some 6) = String.ofList B ∧
    Py.slice (String.ofList (A ++ B ++ ['d'] ++ C)) (some (-1)) none = String.ofList C := by
  have hl : (A ++ B ++ ['d'] ++ C).length = 8 := by simp [hA, hB, hC]
  unfold Py.slice
  simp only [String.toList_ofList, hl]
  refine ⟨?_, ?_, ?_⟩
  · congr 1
    have : A ++ B ++ ['d'] ++ C = A ++ (B ++ ['d'] ++ C) := by simp
    rw [this]
    have e1 : ((if (4 : Int) < 0 then max 0 (4 + ((8 : Nat) : Int)) else min 4 ((8 : Nat) : Int))).toNat = 4 := by decide
    rw [e1]
    exact List.take_left' hA
  · congr 1
    have : A ++ B ++ ['d'] ++ C = A ++ (B ++ (['d'] ++ C)) := by simp
    rw [this]
    have e1 : ((if (4 : Int) < 0 then max 0 (4 + ((8 : Nat) : Int)) else min 4 ((8 : Nat) : Int))).toNat = 4 := by decide
    have e2 : ((if (6 : Int) < 0 then max 0 (6 + ((8 : Nat) : Int)) else min 6 ((8 : Nat) : Int))).toNat = 6 := by decide
    rw [e1, e2, List.drop_left' hA]
    exact List.take_left' hB
  · congr 1
    have e1 : ((if (-1 : Int) < 0 then max 0 (-1 + ((8 : Nat) : Int)) else min (-1) ((8 : Nat) : Int))).toNat = 7 := by decide
    rw [e1]
    have h7 : (A ++ B ++ ['d']).length = 7 := by simp [hA, hB]
    rw [List.drop_left' h7]
    exact List.take_of_length_le (by omega)

end Hdc.C11

namespace Hdc.C11
open Hdc Hdc.Py Hdc.PyDate Hdc.Gen.Dekad

/-- the label of a dekad of the years 1..9999: `YYYY` `MM` `d` `I` -/
theorem str_eq {r : Int} (h : InRange r) :
    str r = String.ofList
      (fmtL 4 (year r).toNat ++ fmtL 2 (month r).toNat ++ ['d'] ++ fmtL 0 (idx r).toNat) := by
  have hy : 0 ≤ year r := by unfold InRange at h; rw [year_eq]; omega
  have hm : 0 ≤ month r := by rw [month_eq]; omega
  have hi : 0 ≤ idx r := by rw [idx_eq]; omega
  simp only [Gen.Dekad.str]
  rw [fmtInt_nonneg 4 hy, fmtInt_nonneg 2 hm, fmtInt_nonneg 0 hi]
  simp only [String.ofList_append] <;> rfl

theorem ofStr_str {r : Int} (h : InRange r) : ofStr (str r) = .ok r := by
  have hy : 0 ≤ year r ∧ year r < 10000 := by unfold InRange at h; rw [year_eq]; omega
  have hm : 1 ≤ month r ∧ month r ≤ 12 := by rw [month_eq]; omega
  have hi : 1 ≤ idx r ∧ idx r ≤ 3 := by rw [idx_eq]; omega
  rw [str_eq h]
  obtain ⟨s1, s2, s3⟩ := slice_label (fmtL 4 (year r).toNat) (fmtL 2 (month r).toNat) (fmtL 0 (idx r).toNat)
    (fmtL_length (by decide) (by omega)) (fmtL_length (by decide) (by omega))
    (fmtL_zero_length (by omega))
  simp only [Gen.Dekad.ofStr, s1, s2, s3, int_fmtL]
  rw [Int.toNat_of_nonneg hy.1, Int.toNat_of_nonneg (by omega : 0 ≤ month r),
    Int.toNat_of_nonneg (by omega : 0 ≤ idx r)]
  have a1 : Py.assert (decide (1 ≤ month r ∧ month r ≤ 12)) = .ok () := by
    unfold Py.assert; rw [if_pos (by simpa using hm)]
  have a2 : Py.assert (decide (1 ≤ idx r ∧ idx r ≤ 3)) = .ok () := by
    unfold Py.assert; rw [if_pos (by simpa using hi)]
  simp only [bind, Except.bind, a1, a2, pure, Except.pure]
  congr 1
  rw [year_eq, month_eq, idx_eq]; omega

end Hdc.C11
