import Hdc.Lemmas.SmoothInv
/-
The GCV machinery: the sweep keeps the first strict minimum, the robust loop as an explicit
chain of steps, the robust re-weighting step.
-/
namespace Hdc.Smooth
open Hdc Hdc.C01

set_option linter.unusedSectionVars false

variable {α : Type} [Field α] [LinearOrder α] [IsStrictOrderedRing α]

/-! ### the sweep -/

/-- the GCV score of one λ -/
def gsc (G : GFns α) (y wt de : List α) (s : α) : α := (gcvScore G y wt de s).1

theorem gcvScore_snd (G : GFns α) (y wt de : List α) (s : α) :
    (gcvScore G y wt de s).2 = ws2d y s wt := rfl

/-- the candidate the sweep records for λ = `s` -/
def cand (G : GFns α) (y wt de : List α) (s : α) : Best α :=
  ⟨gsc G y wt de s, s, some (ws2d y s wt)⟩

/-- one step of the sweep -/
def sweepStep (G : GFns α) (y wt de : List α) (b : Best α) (s : α) : Best α :=
  if gsc G y wt de s < b.score then cand G y wt de s else b

theorem gcvSweep_eq (G : GFns α) (y wt de lams : List α) (b : Best α) :
    gcvSweep G y wt de lams b = lams.foldl (sweepStep G y wt de) b := rfl

/-- state of the sweep after the prefix `pre`, started from `b0` -/
def SweepInv (G : GFns α) (y wt de : List α) (b0 : Best α) (pre : List α) (r : Best α) : Prop :=
  r.score ≤ b0.score ∧ (∀ s ∈ pre, ¬ gsc G y wt de s < r.score) ∧
    ((r = b0 ∧ ∀ s ∈ pre, ¬ gsc G y wt de s < b0.score) ∨
      ∃ k, ∃ hk : k < pre.length, r = cand G y wt de pre[k] ∧ gsc G y wt de pre[k] < b0.score ∧
        ∀ j (hj : j < k), gsc G y wt de pre[k] < gsc G y wt de (pre[j]'(by omega)))

theorem sweepInv_snoc (G : GFns α) (y wt de : List α) (b0 : Best α) (pre : List α) (r : Best α)
    (s : α) (h : SweepInv G y wt de b0 pre r) :
    SweepInv G y wt de b0 (pre ++ [s]) (sweepStep G y wt de r s) := by
  obtain ⟨h1, h2, h3⟩ := h
  unfold sweepStep
  by_cases hs : gsc G y wt de s < r.score
  · rw [if_pos hs]
    have hlt : ∀ s' ∈ pre, gsc G y wt de s < gsc G y wt de s' := fun s' hs' =>
      lt_of_lt_of_le hs (not_lt.1 (h2 s' hs'))
    refine ⟨le_of_lt (lt_of_lt_of_le hs h1), ?_, Or.inr ⟨pre.length, by simp, by simp, ?_, ?_⟩⟩
    · intro s' hs'
      rw [List.mem_append, List.mem_singleton] at hs'
      rcases hs' with hs' | rfl
      · exact not_lt.2 (le_of_lt (hlt s' hs'))
      · exact lt_irrefl _
    · simpa using lt_of_lt_of_le hs h1
    · intro j hj
      simp only [List.getElem_append_left hj, List.getElem_concat_length]
      exact hlt _ (List.getElem_mem hj)
  · rw [if_neg hs]
    refine ⟨h1, ?_, ?_⟩
    · intro s' hs'
      rw [List.mem_append, List.mem_singleton] at hs'
      rcases hs' with hs' | rfl
      · exact h2 s' hs'
      · exact hs
    · rcases h3 with ⟨rfl, h3⟩ | ⟨k, hk, hr, hb, hbefore⟩
      · left
        refine ⟨rfl, ?_⟩
        intro s' hs'
        rw [List.mem_append, List.mem_singleton] at hs'
        rcases hs' with hs' | rfl
        · exact h3 s' hs'
        · exact hs
      · right
        refine ⟨k, by simp; omega, ?_, ?_, ?_⟩
        · rw [List.getElem_append_left hk]; exact hr
        · rw [List.getElem_append_left hk]; exact hb
        · intro j hj
          rw [List.getElem_append_left hk, List.getElem_append_left (by omega)]
          exact hbefore j hj

theorem sweepInv_foldl (G : GFns α) (y wt de : List α) (b0 : Best α) (lams pre : List α) (r : Best α)
    (h : SweepInv G y wt de b0 pre r) :
    SweepInv G y wt de b0 (pre ++ lams) (lams.foldl (sweepStep G y wt de) r) := by
  induction lams generalizing pre r with
  | nil => simpa using h
  | cons s ss ih =>
    simp only [List.foldl_cons]
    have := ih (pre ++ [s]) _ (sweepInv_snoc G y wt de b0 pre r s h)
    simpa using this

theorem sweepInv_gcvSweep (G : GFns α) (y wt de lams : List α) (b0 : Best α) :
    SweepInv G y wt de b0 lams (gcvSweep G y wt de lams b0) := by
  have h0 : SweepInv G y wt de b0 [] b0 :=
    ⟨le_refl _, by simp, Or.inl ⟨rfl, by simp⟩⟩
  rw [gcvSweep_eq]
  simpa using sweepInv_foldl G y wt de b0 lams [] b0 h0

/-- the λ the sweep reports is the initial one or a swept one (with its curve) -/
theorem gcvSweep_lam (G : GFns α) (y wt de lams : List α) (b0 : Best α) :
    (gcvSweep G y wt de lams b0 = b0) ∨
      ((gcvSweep G y wt de lams b0).lam ∈ lams ∧
        (gcvSweep G y wt de lams b0).ytemp =
          some (ws2d y (gcvSweep G y wt de lams b0).lam wt)) := by
  obtain ⟨_, _, h | ⟨k, hk, hr, _, _⟩⟩ := sweepInv_gcvSweep G y wt de lams b0
  · exact Or.inl h.1
  · right; rw [hr]; exact ⟨List.getElem_mem hk, rfl⟩

/-- once a curve is recorded it stays recorded -/
theorem gcvSweep_ytemp_isSome (G : GFns α) (y wt de lams : List α) (b : Best α)
    (h : b.ytemp.isSome) : (gcvSweep G y wt de lams b).ytemp.isSome := by
  rw [gcvSweep_eq]
  induction lams generalizing b with
  | nil => exact h
  | cons s ss ih =>
    simp only [List.foldl_cons]
    apply ih
    unfold sweepStep
    split_ifs
    · simp [cand]
    · exact h

/-! ### the robust loop as a chain of steps -/

/-- state of the loop: running best, robust weights, history -/
abbrev GState (α : Type) := Best α × List α × List (Best α)

/-- the λ values swept in iteration `it` -/
def iterLams (llasPow : List α) (it : ℕ) (hist : List (Best α)) : List α :=
  if 1 < it then (match hist with | _ :: b1 :: _ => [b1.lam] | _ => []) else llasPow

/-- one iteration of the loop -/
def gstep (G : GFns α) (y w de llasPow : List α) (robust : Bool) (n : α) (it : ℕ)
    (st : GState α) : Option (GState α) :=
  let b' := gcvSweep G y (mul2 w st.2.1) de (iterLams llasPow it st.2.2) st.1
  if robust then
    match b'.ytemp with
    | none => none
    | some yt => some (b', robustStep G y yt (mul2 w st.2.1) de st.2.1 w b'.lam n, st.2.2 ++ [b'])
  else some (b', st.2.1, st.2.2 ++ [b'])

theorem gcvIter_zero (G : GFns α) (y w de llasPow : List α) (robust : Bool) (n : α) (it : ℕ)
    (b : Best α) (rw : List α) (hist : List (Best α)) :
    gcvIter G y w de llasPow robust n 0 it b rw hist = some (hist, rw) := rfl

theorem gcvIter_succ (G : GFns α) (y w de llasPow : List α) (robust : Bool) (n : α) (k it : ℕ)
    (b : Best α) (rw : List α) (hist : List (Best α)) :
    gcvIter G y w de llasPow robust n (k + 1) it b rw hist =
      (gstep G y w de llasPow robust n it (b, rw, hist)).bind fun st =>
        gcvIter G y w de llasPow robust n k (it + 1) st.1 st.2.1 st.2.2 := by
  cases robust with
  | false => rfl
  | true =>
    have key : ∀ b' : Best α, b' = gcvSweep G y (mul2 w rw) de (iterLams llasPow it hist) b →
        gcvIter G y w de llasPow true n (k + 1) it b rw hist =
          (match b'.ytemp with
            | none => none
            | some yt => gcvIter G y w de llasPow true n k (it + 1) b'
                (robustStep G y yt (mul2 w rw) de rw w b'.lam n) (hist ++ [b'])) := by
      intro b' hb'; subst hb'; rfl
    have key2 : ∀ b' : Best α, b' = gcvSweep G y (mul2 w rw) de (iterLams llasPow it hist) b →
        gstep G y w de llasPow true n it (b, rw, hist) =
          (match b'.ytemp with
            | none => none
            | some yt => some (b', robustStep G y yt (mul2 w rw) de rw w b'.lam n, hist ++ [b'])) := by
      intro b' hb'; subst hb'; rfl
    rw [key _ rfl, key2 _ rfl]
    generalize gcvSweep G y (mul2 w rw) de (iterLams llasPow it hist) b = b'
    cases h : b'.ytemp <;> simp

/-- the chain of the first `k` iterations, starting at iteration number `it` -/
def grun (G : GFns α) (y w de llasPow : List α) (robust : Bool) (n : α) :
    ℕ → ℕ → GState α → Option (GState α)
  | 0, _, st => some st
  | k + 1, it, st => (gstep G y w de llasPow robust n it st).bind (grun G y w de llasPow robust n k (it + 1))

theorem gcvIter_eq_grun (G : GFns α) (y w de llasPow : List α) (robust : Bool) (n : α) (k it : ℕ)
    (b : Best α) (rw : List α) (hist : List (Best α)) :
    gcvIter G y w de llasPow robust n k it b rw hist =
      (grun G y w de llasPow robust n k it (b, rw, hist)).map fun st => (st.2.2, st.2.1) := by
  induction k generalizing it b rw hist with
  | zero => rfl
  | succ k ih =>
    rw [gcvIter_succ, grun]
    cases gstep G y w de llasPow robust n it (b, rw, hist) with
    | none => rfl
    | some st => simp only [Option.bind_some]; exact ih _ _ _ _

/-- `grun (k+1)` = `grun k` followed by one more step -/
theorem grun_succ_last (G : GFns α) (y w de llasPow : List α) (robust : Bool) (n : α) (k it : ℕ)
    (st : GState α) :
    grun G y w de llasPow robust n (k + 1) it st =
      (grun G y w de llasPow robust n k it st).bind (gstep G y w de llasPow robust n (it + k)) := by
  induction k generalizing it st with
  | zero =>
    simp only [grun, Nat.add_zero, Option.bind_some]
    cases gstep G y w de llasPow robust n it st <;> rfl
  | succ k ih =>
    rw [grun]
    conv_rhs => rw [grun]
    cases gstep G y w de llasPow robust n it st with
    | none => rfl
    | some st' =>
      simp only [Option.bind_some]
      rw [ih]
      have : it + 1 + k = it + (k + 1) := by omega
      rw [this]

/-! ### the robust re-weighting step -/

/-- the residuals entering the MAD: those at cells with non-zero weight -/
def rselOf (y ytemp wt : List α) : List α :=
  (((sub2 y ytemp).zip wt).filter fun (_, w) => !(eqv w (nat 0))).map (·.1)

/-- the MAD of `robustStep` -/
def madOf (y ytemp wt : List α) : α :=
  median ((rselOf y ytemp wt).map fun x => absv (x - median (rselOf y ytemp wt)))

/-- one bisquare weight, from the residual `ri` and the scale -/
def bisq (G : GFns α) (scale ri : α) : α :=
  if 0 < ri then 1
  else if 1 < |ri / scale / G.c2| then 0
  else (1 - (ri / scale / G.c2) * (ri / scale / G.c2)) * (1 - (ri / scale / G.c2) * (ri / scale / G.c2))

/-- the valid cells of `y` (those with non-zero validity weight) -/
def yvOf (y w : List α) : List α :=
  ((y.zip w).filter fun (_, wi) => !(eqv wi (nat 0))).map (·.1)

/-- the MAD threshold of `robustStep`: `madtol · (1 + max − min)` over the valid cells -/
def madMinOf (G : GFns α) (y w : List α) : α :=
  G.madtol * (1 + (maxL (yvOf y w) - minL (yvOf y w)))

/-- number of positive entries -/
def countPos (l : List α) : ℕ := (l.filter fun x => decide (0 < x)).length

/-- at least two positive entries -/
def TwoPos (w : List α) : Prop := ∃ i j, i < j ∧ j < w.length ∧ 0 < fn w i ∧ 0 < fn w j

/-- the candidate new robust weights -/
def rnewOf (G : GFns α) (y ytemp wt de : List α) (s n : α) : List α :=
  (sub2 y ytemp).map (bisq G (G.c1 * madOf y ytemp wt * G.sqrt (1 - sumF (gammaOf wt de s) / n)))

theorem robustStep_eq (G : GFns α) (y ytemp wt de rw w : List α) (s n : α) :
    robustStep G y ytemp wt de rw w s n =
      if madMinOf G y w < madOf y ytemp wt then
        (if 1 < countPos (mul2 w (rnewOf G y ytemp wt de s n)) then rnewOf G y ytemp wt de s n else rw)
      else rw := by
  unfold robustStep madMinOf yvOf countPos rnewOf madOf rselOf bisq
  simp only [nat_zero, nat_one, absv_eq]

theorem twoPos_of_countPos (l : List α) (h : 1 < countPos l) : TwoPos l := by
  have h2 : 2 ≤ countValid (fun x => !decide (0 < x)) l := by
    unfold countValid
    have : (fun x : α => !(fun x => !decide (0 < x)) x) = fun x => decide (0 < x) := by
      funext x; simp
    rw [this]; exact h
  obtain ⟨i, j, hij, hj, h1, h2⟩ := exists_two_valid _ l h2
  refine ⟨i, j, hij, hj, ?_, ?_⟩
  · rw [fn_of_lt _ i (by omega)]; simpa using h1
  · rw [fn_of_lt _ j hj]; simpa using h2

theorem bisq_range (G : GFns α) (scale ri : α) : 0 ≤ bisq G scale ri ∧ bisq G scale ri ≤ 1 := by
  unfold bisq
  split_ifs with h1 h2
  · exact ⟨zero_le_one, le_refl _⟩
  · exact ⟨le_refl _, zero_le_one⟩
  · set t := ri / scale / G.c2
    have ht : |t| ≤ 1 := not_lt.1 h2
    have h3 : t * t ≤ 1 := by
      have := abs_mul_abs_self t
      have h4 : |t| * |t| ≤ 1 * 1 := mul_le_mul ht ht (abs_nonneg _) zero_le_one
      linarith
    have h5 : 0 ≤ t * t := mul_self_nonneg t
    have h6 : 0 ≤ 1 - t * t := by linarith
    have h7 : 1 - t * t ≤ 1 := by linarith
    exact ⟨mul_nonneg h6 h6, by nlinarith⟩

theorem rnewOf_range (G : GFns α) (y ytemp wt de : List α) (s n : α) :
    ∀ x ∈ rnewOf G y ytemp wt de s n, 0 ≤ x ∧ x ≤ 1 := by
  intro x hx
  unfold rnewOf at hx
  rw [List.mem_map] at hx
  obtain ⟨r, _, rfl⟩ := hx
  exact bisq_range G _ r

theorem robustStep_range (G : GFns α) (y ytemp wt de rw w : List α) (s n : α)
    (h : ∀ x ∈ rw, 0 ≤ x ∧ x ≤ 1) :
    ∀ x ∈ robustStep G y ytemp wt de rw w s n, 0 ≤ x ∧ x ≤ 1 := by
  rw [robustStep_eq]
  split_ifs
  · exact rnewOf_range G y ytemp wt de s n
  · exact h
  · exact h

/-- the guard of the step: two positively weighted cells are never lost -/
theorem robustStep_two_pos (G : GFns α) (y ytemp wt de rw w : List α) (s n : α)
    (h : TwoPos (mul2 w rw)) : TwoPos (mul2 w (robustStep G y ytemp wt de rw w s n)) := by
  rw [robustStep_eq]
  split_ifs with h1 h2
  · exact twoPos_of_countPos _ h2
  · exact h
  · exact h

theorem robustStep_length (G : GFns α) (y ytemp wt de rw w : List α) (s n : α)
    (hy : ytemp.length = y.length) (hr : rw.length = y.length) :
    (robustStep G y ytemp wt de rw w s n).length = y.length := by
  rw [robustStep_eq]
  split_ifs
  · simp [rnewOf, hy]
  · exact hr
  · exact hr

/-! ### robust = true: the steps -/

theorem gstep_robust_some (G : GFns α) (y w de llasPow : List α) (n : α) (it : ℕ)
    (st st' : GState α) (h : gstep G y w de llasPow true n it st = some st') :
    st'.1 = gcvSweep G y (mul2 w st.2.1) de (iterLams llasPow it st.2.2) st.1 ∧
    st'.2.2 = st.2.2 ++ [st'.1] ∧
    ∃ yt, st'.1.ytemp = some yt ∧
      st'.2.1 = robustStep G y yt (mul2 w st.2.1) de st.2.1 w st'.1.lam n := by
  unfold gstep at h
  simp only [if_true] at h
  generalize gcvSweep G y (mul2 w st.2.1) de (iterLams llasPow it st.2.2) st.1 = b' at h
  cases hy : b'.ytemp with
  | none => simp [hy] at h
  | some yt =>
    simp only [hy, Option.some.injEq] at h
    subst h
    exact ⟨rfl, rfl, yt, hy, rfl⟩

/-- the four iterations of the robust loop, spelled out -/
theorem grun_robust_four (G : GFns α) (y w de llasPow : List α) (n : α) (s0 st4 : GState α)
    (h : grun G y w de llasPow true n 4 0 s0 = some st4) :
    ∃ st1 st2 st3, gstep G y w de llasPow true n 0 s0 = some st1 ∧
      gstep G y w de llasPow true n 1 st1 = some st2 ∧
      gstep G y w de llasPow true n 2 st2 = some st3 ∧
      gstep G y w de llasPow true n 3 st3 = some st4 := by
  simp only [grun, Option.bind_eq_some_iff] at h
  obtain ⟨st1, h1, st2, h2, st3, h3, st4', h4, h5⟩ := h
  simp only [Option.some.injEq] at h5
  subst h5
  exact ⟨st1, st2, st3, h1, h2, h3, h4⟩

/-! ### `match`-free forms of the GCV kernels -/

theorem gcvSelect_unfold (G : GFns α) (y w llas : List α) (robust : Bool) :
    gcvSelect G y w llas robust =
      (grun G y w (deigs G y.length) (llas.map G.pow10) robust (sumF w) (if robust then 4 else 1) 0
        (⟨G.big, nat 0, none⟩, y.map (fun _ => nat 1), [])).map
        fun st => ((st.2.2.getD (if robust then 1 else 0) ⟨nat 0, nat 0, none⟩).lam, mul2 w st.2.1) := by
  unfold gcvSelect
  simp only []
  rw [gcvIter_eq_grun]
  cases grun G y w (deigs G y.length) (llas.map G.pow10) robust (sumF w) (if robust then 4 else 1) 0
        (⟨G.big, nat 0, none⟩, y.map (fun _ => nat 1), []) with
  | none => rfl
  | some st => cases robust <;> rfl

/-- result of a GCV kernel from the λ selection -/
def outOf (o : Option (α × List α)) (f : α → List α → List α) : GcvOut α :=
  match o with
  | none => .unbound
  | some (l, r) => .ok (f l r) l

@[simp] theorem outOf_none (f : α → List α → List α) : outOf none f = .unbound := rfl
@[simp] theorem outOf_some (l : α) (r : List α) (f : α → List α → List α) :
    outOf (some (l, r)) f = .ok (f l r) l := rfl

theorem wcv_unfold (G : GFns α) (miss : α → Bool) (y llas : List α) (robust : Bool) :
    wcv G miss y llas robust =
      if 4 < countValid miss y then
        outOf (gcvSelect G (cleanOf miss y) (weightsOf miss y) llas robust)
          (fun l r => ws2d (cleanOf miss y) l r)
      else .passthrough := by
  unfold wcv
  split_ifs
  · simp only []
    split <;> rename_i h <;> simp [h]
  · rfl

theorem wcvp_unfold (G : GFns α) (miss : α → Bool) (y : List α) (p : α) (llas : List α) (robust : Bool) :
    wcvp G miss y p llas robust =
      if 4 < countValid miss y then
        outOf (gcvSelect G (cleanOf miss y) (weightsOf miss y) llas robust)
          (fun l r => expectile (cleanOf miss y) r l p)
      else .passthrough := by
  unfold wcvp
  split_ifs
  · simp only []
    split <;> rename_i h <;> simp [h]
  · rfl

/-- what `.ok` means -/
theorem outOf_eq_ok (o : Option (α × List α)) (f : α → List α → List α) (z : List α) (lopt : α)
    (h : outOf o f = .ok z lopt) : ∃ r, o = some (lopt, r) ∧ z = f lopt r := by
  cases o with
  | none => cases h
  | some lr =>
    obtain ⟨l, r⟩ := lr
    simp only [outOf_some] at h
    injection h with h1 h2
    subst h2
    exact ⟨r, rfl, h1.symm⟩

end Hdc.Smooth
