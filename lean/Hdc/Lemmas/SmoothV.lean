import Hdc.Lemmas.SmoothMasked
/-
Lemmas on the V-curve machinery: first strict minimum, shape of `vcurve`, shape of the sweep.
-/
namespace Hdc.Smooth
open Hdc Hdc.C01

set_option linter.unusedSectionVars false

variable {α : Type} [Field α] [LinearOrder α] [IsStrictOrderedRing α]

/-! ### first strict minimum -/

/-- `b` sits at position `k` of `l`, nothing in `l` is strictly below it, everything before
    position `k` is strictly above it -/
def IsFirstMin (l : List (α × α)) (k : ℕ) (b : α × α) : Prop :=
  ∃ hk : k < l.length, l[k] = b ∧ (∀ c ∈ l, ¬ c.1 < b.1) ∧ ∀ j (hj : j < k), b.1 < (l[j]'(by omega)).1

theorem isFirstMin_snoc (pre : List (α × α)) (k : ℕ) (best c : α × α) (h : IsFirstMin pre k best) :
    IsFirstMin (pre ++ [c]) (if c.1 < best.1 then pre.length else k)
      (if c.1 < best.1 then c else best) := by
  obtain ⟨hk, hb, hmin, hbefore⟩ := h
  by_cases hc : c.1 < best.1
  · simp only [hc, if_true]
    refine ⟨by simp, by simp, ?_, ?_⟩
    · intro d hd
      rw [List.mem_append, List.mem_singleton] at hd
      rcases hd with hd | rfl
      · have := hmin d hd
        exact not_lt.2 (le_of_lt (lt_of_lt_of_le hc (not_lt.1 this)))
      · exact lt_irrefl _
    · intro j hj
      rw [List.getElem_append_left hj]
      exact lt_of_lt_of_le hc (not_lt.1 (hmin _ (List.getElem_mem hj)))
  · simp only [hc, if_false]
    refine ⟨by simp; omega, by rw [List.getElem_append_left hk]; exact hb, ?_, ?_⟩
    · intro d hd
      rw [List.mem_append, List.mem_singleton] at hd
      rcases hd with hd | rfl
      · exact hmin d hd
      · exact hc
    · intro j hj
      rw [List.getElem_append_left (by omega)]
      exact hbefore j hj

theorem isFirstMin_foldl (xs pre : List (α × α)) (k : ℕ) (best : α × α) (h : IsFirstMin pre k best) :
    ∃ k', IsFirstMin (pre ++ xs) k'
      (xs.foldl (fun best c => if c.1 < best.1 then c else best) best) := by
  induction xs generalizing pre k best with
  | nil => exact ⟨k, by simpa using h⟩
  | cons c cs ih =>
    simp only [List.foldl_cons]
    have := ih (pre ++ [c]) _ _ (isFirstMin_snoc pre k best c h)
    simpa using this

theorem argminFirst_cons (x : α × α) (xs : List (α × α)) :
    ∃ k, IsFirstMin (x :: xs) k
      (xs.foldl (fun best c => if c.1 < best.1 then c else best) x) := by
  have h0 : IsFirstMin [x] 0 x :=
    ⟨by simp, by simp, by intro c hc; simp at hc; subst hc; exact lt_irrefl _, by intro j hj; omega⟩
  simpa using isFirstMin_foldl xs [x] 0 x h0

/-! ### shape of `vcurve` -/

/-- the V value between two consecutive points of the sweep -/
def vval (F : VFns α) (step : α) (a b : α × α × α) : α :=
  F.sqrt ((b.2.1 - a.2.1) * (b.2.1 - a.2.1) + (b.2.2 - a.2.2) * (b.2.2 - a.2.2)) / (F.ln10 * step)

theorem vcurve_length (F : VFns α) (step : α) (pts : List (α × α × α)) :
    (vcurve F step pts).length = pts.length - 1 := by
  induction pts with
  | nil => simp [vcurve]
  | cons a rest ih =>
    cases rest with
    | nil => simp [vcurve]
    | cons b rest' =>
      obtain ⟨l1, f1, p1⟩ := a
      obtain ⟨l2, f2, p2⟩ := b
      simp only [vcurve, List.length_cons, ih]
      simp

theorem vcurve_getElem (F : VFns α) (step : α) (pts : List (α × α × α)) (k : ℕ)
    (hk : k + 1 < pts.length) :
    (vcurve F step pts)[k]'(by rw [vcurve_length]; omega) =
      (vval F step pts[k] pts[k + 1], (pts[k].1 + pts[k + 1].1) / 2) := by
  induction pts generalizing k with
  | nil => simp at hk
  | cons a rest ih =>
    cases rest with
    | nil => simp at hk
    | cons b rest' =>
      obtain ⟨l1, f1, p1⟩ := a
      obtain ⟨l2, f2, p2⟩ := b
      cases k with
      | zero => simp [vcurve, vval]
      | succ k =>
        simp only [vcurve, List.getElem_cons_succ]
        exact ih k (by simpa using hk)

/-! ### shape of the sweep -/

theorem vfold_fst_map {σ : Type} (F : VFns α) (w y : List α) (fit : σ → α → σ × List α)
    (llas : List α) (acc : σ × List (α × α × α)) :
    ((llas.foldl (vstep F w y fit) acc).2).map (·.1) = acc.2.map (·.1) ++ llas := by
  induction llas generalizing acc with
  | nil => simp
  | cons l ls ih =>
    simp only [List.foldl_cons]
    rw [ih]
    simp [vstep]

/-- the first components of the sweep points are the grid -/
theorem vpts_fst {σ : Type} (F : VFns α) (w y llas : List α) (fit : σ → α → σ × List α) (s0 : σ) :
    (vpts F w y llas fit s0).map (·.1) = llas := by
  unfold vpts; rw [vfold_fst_map]; simp

theorem vpts_length {σ : Type} (F : VFns α) (w y llas : List α) (fit : σ → α → σ × List α) (s0 : σ) :
    (vpts F w y llas fit s0).length = llas.length := by
  have := congrArg List.length (vpts_fst F w y llas fit s0)
  simpa using this

theorem vpts_getElem_fst {σ : Type} (F : VFns α) (w y llas : List α) (fit : σ → α → σ × List α)
    (s0 : σ) (k : ℕ) (hk : k < llas.length) :
    ((vpts F w y llas fit s0)[k]'(by rw [vpts_length]; exact hk)).1 = llas[k] := by
  have := vpts_fst F w y llas fit s0
  have h2 : ((vpts F w y llas fit s0).map (·.1))[k]'(by simp [vpts_length]; exact hk) = llas[k] := by
    simp only [this]
  simpa using h2

theorem vfold_unit (F : VFns α) (w y : List α) (g : α → List α) (llas : List α)
    (acc : List (α × α × α)) :
    (llas.foldl (vstep F w y (fun (_ : Unit) lam => ((), g lam))) ((), acc)).2 =
      acc ++ llas.map fun l => (l, F.log (fitSS w y (g (F.pow10 l))), F.log (penSS (g (F.pow10 l)))) := by
  induction llas generalizing acc with
  | nil => simp
  | cons l ls ih =>
    simp only [List.foldl_cons, vstep]
    rw [ih]
    simp

/-- for a stateless fit the sweep is a `map` over the grid -/
theorem vpts_unit (F : VFns α) (w y llas : List α) (g : α → List α) :
    vpts F w y llas (fun (_ : Unit) lam => ((), g lam)) () =
      llas.map fun l => (l, F.log (fitSS w y (g (F.pow10 l))), F.log (penSS (g (F.pow10 l)))) := by
  unfold vpts; rw [vfold_unit]; simp

/-! ### `match`-free forms of the V-curve kernels -/

theorem optv_unfold (F : VFns α) (miss : α → Bool) (y llas : List α) :
    optv F miss y llas = if 1 < countValid miss y then
      (vselect F (weightsOf miss y) y llas
        (fun (_ : Unit) lam => ((), ws2d y lam (weightsOf miss y))) ()).map
          fun lopt => (ws2d y lopt (weightsOf miss y), lopt) else none := by
  unfold optv
  split_ifs with hc
  · simp only []
    split <;> rename_i h <;> simp [h]
  · rfl

theorem optvpCore_unfold (F : VFns α) (y w : List α) (p : α) (llas : List α) :
    optvpCore F y w p llas =
      (vselect F w y llas
        (fun (z : List α) lam => let r := irls y w lam p 10 z (zerosLike y); (r.1, r.1))
        (zerosLike y)).map fun lopt => (expectile y w lopt p, lopt) := by
  unfold optvpCore
  split <;> rename_i h <;> simp [h]

end Hdc.Smooth
