import Hdc.Lemmas.Ws2dGen
import Hdc.Lemmas.SafeBasic
import Hdc.Props.C01
import Mathlib.Tactic.FieldSimp
import Mathlib.Tactic.Positivity
import Mathlib.Tactic.Linarith
/-
SafeWs2d  Loop invariants for "the flag of the instrumented `ws2d` is set exactly when a pivot of the forward sweep
vanishes" (Hdc/Props/SafeWs2d.lean).  The work arrays `d`, `c`, `e` hold the rows of the hand model (the invariant `Fwd`
of Hdc/Lemmas/Ws2dGen.lean without the right-hand side `z`, of which only the length matters here); every subscript of
the source is in `[-n, n)` for `n ≥ 3`, so the only checks that can fire are the divisions by `d[i]`.
Nothing here mentions a generated program.
-/
namespace Hdc.SafeWs2d
open Hdc.Gen.Ws2d Hdc.Ws2d Hdc.Ws2dGen Hdc.SafeL

variable {α : Type} [Field α]
variable (y w : List α) (lam : α)

/-- a pivot among the rows `< k` of the forward sweep of the model vanishes -/
def ZeroPiv (k : ℕ) : Prop := ∃ j < k, (Rw y w lam j).d = 0

theorem zeroPiv_zero : ZeroPiv y w lam 0 ↔ False := by simp [ZeroPiv]

theorem zeroPiv_succ (k : ℕ) : ZeroPiv y w lam (k + 1) ↔ ZeroPiv y w lam k ∨ (Rw y w lam k).d = 0 := by
  unfold ZeroPiv
  constructor
  · rintro ⟨j, hj, h⟩
    rcases Nat.lt_succ_iff_lt_or_eq.1 hj with h' | rfl
    · exact Or.inl ⟨j, h', h⟩
    · exact Or.inr h
  · rintro (⟨j, hj, h⟩ | h)
    · exact ⟨j, by omega, h⟩
    · exact ⟨k, by omega, h⟩

/-- a pivot that is already accounted for -/
theorem zeroPiv_absorb {k j : ℕ} (hj : j < k) :
    (ZeroPiv y w lam k ∨ (Rw y w lam j).d = 0) ↔ ZeroPiv y w lam k :=
  ⟨fun h => h.elim id (fun h0 => ⟨j, hj, h0⟩), Or.inl⟩

variable {y w lam} in
theorem ZeroPiv.mono {k k' : ℕ} (h : ZeroPiv y w lam k) (hk : k ≤ k') : ZeroPiv y w lam k' := by
  obtain ⟨j, hj, h0⟩ := h
  exact ⟨j, by omega, h0⟩

/-- forward sweep of the instrumented program: rows `< k` of `d`, `c`, `e` are the rows of the model, `e` is still
    zero from row `k` on, `z` has the right length, and the flag records the vanishing pivots among the rows `< k` -/
structure FwdS (k : ℕ) (bad : Bool) (z d c e : Array α) : Prop where
  sz : z.size = y.length
  hd : Holds y.length (fun j => (Rw y w lam j).d) k d
  hc : Holds y.length (fun j => (Rw y w lam j).c) (min k (y.length - 2)) c
  he : Holds y.length (fun j => (Rw y w lam j).e) k e
  ze : Zeros k e
  hb : FlagIs (ZeroPiv y w lam k) bad

/-- back substitution of the instrumented program -/
structure BwdS (bad : Bool) (z : Array α) : Prop where
  sz : z.size = y.length
  hb : FlagIs (ZeroPiv y w lam y.length) bad

/-! ### the pivots at `n = 3`

`C01.pivots_pos` needs `n ≥ 4` (its proof goes through the second-difference matrix `DᵀD`).  At `n = 3` the source (and
the model) use the diagonal `1, 5, 1` (the hand-written row `m - 1` overwrites row 1), i.e. the matrix
`W + λ (DᵀD + diag(0,1,0))`, which is still positive definite; the three pivots are computed directly. -/

section three
variable {α : Type} [Field α] [LinearOrder α] [IsStrictOrderedRing α]

theorem three_alg (a b c L D0 C0 E0 D1 C1 D2 : α) (h0 : D0 = a + L) (hC0 : C0 = -2 * L / D0)
    (hE0 : E0 = L / D0) (hD1 : D1 = b + 5 * L - C0 * C0 * D0)
    (hC1 : C1 = (-2 * L - D0 * C0 * E0) / D1) (hD2 : D2 = c + L - C1 * C1 * D1 - E0 * E0 * D0)
    (ha : 0 ≤ a) (hb : 0 ≤ b) (hc : 0 ≤ c) (hL : 0 < L) (hpos : 0 < a ∨ 0 < c) :
    0 < D0 ∧ 0 < D1 ∧ 0 < D2 := by
  have p0 : 0 < a + L := by linarith
  have hP : 0 < b * (a + L) + 5 * L * a + L ^ 2 := by positivity
  have e1 : D1 = (b * (a + L) + 5 * L * a + L ^ 2) / (a + L) := by
    rw [hD1, hC0, h0]; field_simp; ring
  have p1 : 0 < D1 := by rw [e1]; positivity
  have e2 : D2 = c + L * a * (b * (a + L) + L * a + L ^ 2)
      / ((a + L) * (b * (a + L) + 5 * L * a + L ^ 2)) := by
    rw [hD2, hC1, hE0, hC0, e1, h0]; field_simp; ring
  refine ⟨by rw [h0]; exact p0, p1, ?_⟩
  rw [e2]
  rcases hpos with h | h
  · have : 0 < L * a * (b * (a + L) + L * a + L ^ 2)
        / ((a + L) * (b * (a + L) + 5 * L * a + L ^ 2)) := by positivity
    linarith
  · have : 0 ≤ L * a * (b * (a + L) + L * a + L ^ 2)
        / ((a + L) * (b * (a + L) + 5 * L * a + L ^ 2)) := by positivity
    linarith

/-- the three pivots at `n = 3`: positive when `λ > 0`, `w ≥ 0` and `w₀ > 0` or `w₂ > 0` (which holds as soon as two
    weights are positive) -/
theorem pivots_pos_three (y w : List α) (lam : α) (hy : y.length = 3) (hlam : 0 < lam)
    (h0 : 0 ≤ fnl w 0) (h1 : 0 ≤ fnl w 1) (h2 : 0 ≤ fnl w 2) (hpos : 0 < fnl w 0 ∨ 0 < fnl w 2) :
    ∀ k < 3, 0 < (Rw y w lam k).d := by
  have d0 := Rw_d_zero y w lam
  have c0 := Rw_c_zero y w lam
  have e0 := Rw_e y w lam 0
  have d1 := Rw_d_one y w lam
  have c1 := Rw_c_succ y w lam 0
  have d2 := Rw_d_succ2 y w lam 0
  rw [hy] at d0 c0 d1 c1 d2
  have k0 : diagCoef 3 0 = 1 := by decide
  have k1 : diagCoef 3 1 = 5 := by decide
  have k2 : diagCoef 3 2 = 1 := by decide
  have s0 : supCoef 3 0 = 2 := by decide
  have s1 : supCoef 3 1 = 2 := by decide
  simp only [k0, k1, k2, s0, s1, Nat.cast_one, Nat.cast_ofNat, one_mul, Nat.zero_add] at d0 c0 d1 c1 d2
  have key := three_alg (fnl w 0) (fnl w 1) (fnl w 2) lam (Rw y w lam 0).d (Rw y w lam 0).c
    (Rw y w lam 0).e (Rw y w lam 1).d (Rw y w lam 1).c (Rw y w lam 2).d d0 c0 e0
    (by rw [d1]) c1 (by rw [d2]) h0 h1 h2 hlam hpos
  intro k hk
  rcases k with _ | _ | _ | k
  · exact key.1
  · exact key.2.1
  · exact key.2.2
  · omega

end three

/-! ### the contract -/

section contract
variable {α : Type} [Field α] [LinearOrder α] [IsStrictOrderedRing α]

/-- the documented contract of `ws2d`, at its true minimum length: `n ≥ 3`, one weight per observation, `λ > 0`,
    non-negative weights, at least two of them positive -/
structure Contract (y w : List α) (lam : α) : Prop where
  len : 3 ≤ y.length
  wlen : w.length = y.length
  lam_pos : 0 < lam
  w_nonneg : ∀ x ∈ w, 0 ≤ x
  two_pos : ∃ i j, i < j ∧ j < w.length ∧ 0 < C01.fn w i ∧ 0 < C01.fn w j

theorem Contract.of_c01 {y w : List α} {lam : α} (h : C01.InContract y w lam) : Contract y w lam :=
  ⟨by have := h.len; omega, h.wlen, h.lam_pos, h.w_nonneg, h.two_pos⟩

theorem Contract.fn_nonneg {y w : List α} {lam : α} (h : Contract y w lam) (i : ℕ) : 0 ≤ fnl w i := by
  by_cases hi : i < w.length
  · rw [fnl_of_lt w i hi]; exact h.w_nonneg _ (List.getElem_mem hi)
  · rw [fnl_of_le w i (by omega)]

/-- under the contract every pivot is positive (`n ≥ 4`: C01; `n = 3`: direct computation) -/
theorem Contract.pivots_pos {y w : List α} {lam : α} (h : Contract y w lam) :
    ∀ k < y.length, 0 < (Rw y w lam k).d := by
  by_cases h4 : 4 ≤ y.length
  · exact C01.pivots_pos_fn ⟨h4, h.wlen, h.lam_pos, h.w_nonneg, h.two_pos⟩
  · have h3 : y.length = 3 := by have := h.len; omega
    obtain ⟨i, j, hij, hj, hi0, hj0⟩ := h.two_pos
    rw [h.wlen, h3] at hj
    rw [h3]
    refine pivots_pos_three y w lam h3 h.lam_pos (h.fn_nonneg 0) (h.fn_nonneg 1) (h.fn_nonneg 2) ?_
    have hi' : i = 0 ∨ i = 1 := by omega
    have hj' : j = 1 ∨ j = 2 := by omega
    rcases hi' with rfl | rfl
    · exact Or.inl hi0
    · rcases hj' with rfl | rfl
      · omega
      · exact Or.inr hj0

end contract

end Hdc.SafeWs2d
