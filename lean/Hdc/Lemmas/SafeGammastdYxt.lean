import Hdc.Lemmas.SafeGammastdGrp
import Hdc.Lemmas.GenNumGammastdYxt
/-
SafeGammastdYxt  Facts for "under the contract the flag of the instrumented `gammastd_yxt` is false"
(Hdc/Props/SafeGammastdYxt.lean): the output cube `y = np.full_like(x, …)` keeps the shape of `x` (number of planes, of
columns per plane, of steps per series) through every store `y[r, c, :] = row` of a row of the right length, so the 3-d
subscripts of `y` are in range whenever those of `x` are.  Kernel independent (carrier: ragged `Array (Array (Array β))`).
-/
namespace Hdc.SafeSpi
open Hdc Hdc.Gen.NumKernels Hdc.GenNum

set_option linter.unusedSectionVars false

variable {β γ : Type}

/-- `y` has the shape of `x`: planes, columns of every plane, steps of every series -/
def SameShape (y : Array (Array (Array γ))) (x : Array (Array (Array β))) : Prop :=
  y.size = x.size ∧ (∀ i : ℕ, (y.getD i #[]).size = (x.getD i #[]).size) ∧
    ∀ i j : ℕ, (rd3 y (i : ℤ) (j : ℤ)).size = (rd3 x (i : ℤ) (j : ℤ)).size

theorem getD_map_empty {δ ε : Type} (a : Array (Array δ)) (f : Array δ → Array ε) (hf : f #[] = #[]) (i : ℕ) :
    (a.map f).getD i #[] = f (a.getD i #[]) := by
  simp only [Array.getD_eq_getD_getElem?, Array.getElem?_map]
  cases a[i]? <;> simp [hf]

theorem getD_map_empty3 (a : Array (Array (Array β))) (f : Array (Array β) → Array (Array γ)) (hf : f #[] = #[])
    (i : ℕ) : (a.map f).getD i #[] = f (a.getD i #[]) := by
  simp only [Array.getD_eq_getD_getElem?, Array.getElem?_map]
  cases a[i]? <;> simp [hf]

/-- `np.full_like(x, v)` has the shape of `x` -/
theorem SameShape.init (x : Array (Array (Array β))) (v : γ) : SameShape (npFullLike3 x v) x := by
  refine ⟨by simp [npFullLike3], fun i => ?_, fun i j => ?_⟩
  · unfold npFullLike3
    rw [getD_map_empty3 _ _ (by simp)]
    simp
  · simp only [rd3_nat, rowOf]
    unfold npFullLike3
    rw [getD_map_empty3 _ _ (by simp), getD_map_empty _ _ (by simp)]
    simp

/-- a store `y[r, c, :] = row` with `len row = len x[r, c, :]` keeps the shape -/
theorem SameShape.wr3 {y : Array (Array (Array γ))} {x : Array (Array (Array β))} (h : SameShape y x) (r c : ℕ)
    (row : Array γ) (hr : r < x.size) (hc : c < (x.getD r #[]).size)
    (hrow : row.size = (rd3 x (r : ℤ) (c : ℤ)).size) : SameShape (wr3 y (r : ℤ) (c : ℤ) row) x := by
  obtain ⟨h1, h2, h3⟩ := h
  refine ⟨by simp [h1], fun i => by rw [plane_size_wr3, h2], fun i j => ?_⟩
  have := h3 i j
  simp only [rd3_nat] at *
  rw [rowOf_wr3 _ _ _ _ _ _ (by omega) (by rw [h2]; exact hc)]
  split
  · rename_i hij
    rw [hrow, hij.1, hij.2]
  · exact this

/-- a 3-d subscript of `y` is in range when it is one of `x` -/
theorem SameShape.oob2 {y : Array (Array (Array γ))} {x : Array (Array (Array β))} (h : SameShape y x) (r c : ℕ)
    (hr : r < x.size) (hc : c < (x.getD r #[]).size) : oob2 y (r : ℤ) (c : ℤ) = false := by
  refine oob2_false _ _ _ (by omega) (by rw [h.1]; exact_mod_cast hr) (by omega) ?_
  rw [Int.toNat_natCast, h.2.1]
  exact_mod_cast hc

theorem oob2_nat (x : Array (Array β)) (r c : ℕ) (hr : r < x.size) (hc : c < (x.getD r #[]).size) :
    oob2 x (r : ℤ) (c : ℤ) = false := by
  refine oob2_false _ _ _ (by omega) (by exact_mod_cast hr) (by omega) ?_
  rw [Int.toNat_natCast]
  exact_mod_cast hc

end Hdc.SafeSpi
