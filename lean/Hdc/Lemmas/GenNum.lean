import Hdc.Gen.NumBase
import Hdc.Lemmas.GenKernels
/-
Generic lemmas for the refinement proofs "generated translation of a floating-point loop kernel =
hand model" (Hdc/Props/GenNum.lean):

  (a) `rd` / `wr` / `rdI` / `pyRange` of `Hdc.Gen.NumKernels` (Python index semantics) in terms of the
      ℕ-indexed reads `av` (Hdc/Lemmas/Ws2dGen.lean) and `gv` (Hdc/Lemmas/GenKernels.lean);
  (b) the tactic `pyn_ranges` (the `py_ranges` of Hdc/Lemmas/GenKernels.lean for the `pyRange` of
      `Hdc.Gen.NumKernels`);
  (c) the loop invariant of `brentq` (over the bare operator classes: no field axiom is used).

Nothing in this file mentions a generated kernel.
-/
namespace Hdc.GenNum
open Hdc.Gen.NumKernels
open Hdc.Ws2dGen (av Upd)
open Hdc.GenKernels (gv)

/-! ### (a) arrays read as functions -/

theorem ix_of_eq (n : ℕ) (i : ℤ) (j : ℕ) (h : i = (j : ℤ)) : ix n i = j := by
  subst h
  have : ¬ ((j : ℤ) < 0) := by omega
  simp [ix, this]

/-- a negative index wraps around -/
theorem ix_of_neg (n : ℕ) (i : ℤ) (j : ℕ) (hi : i < 0) (h : i + (n : ℤ) = (j : ℤ)) : ix n i = j := by
  simp only [ix, hi, if_true]
  omega

section field
variable {α : Type} [Field α]

theorem rd_of_eq (a : Array α) (i : ℤ) (j : ℕ) (h : i = (j : ℤ)) : rd a i = av a j := by
  simp only [rd, av, nat, ix_of_eq a.size i j h, Nat.cast_zero]

/-- reading at a non-negative index -/
theorem rd_nonneg (a : Array α) (i : ℤ) (h : 0 ≤ i) : rd a i = av a i.toNat :=
  rd_of_eq a i i.toNat (by omega)

/-- reading at a negative index: Python wrap-around -/
theorem rd_of_neg (a : Array α) (i : ℤ) (j : ℕ) (hi : i < 0) (h : i + (a.size : ℤ) = (j : ℤ)) :
    rd a i = av a j := by
  simp only [rd, av, nat, ix_of_neg a.size i j hi h, Nat.cast_zero]

omit [Field α] in
@[simp] theorem size_wr (a : Array α) (i : ℤ) (v : α) : (wr a i v).size = a.size := by
  simp [wr]

theorem av_wr_self (a : Array α) (i : ℤ) (v : α) (j : ℕ) (h : i = (j : ℤ)) (hj : j < a.size) :
    av (wr a i v) j = v := by
  simp only [wr, ix_of_eq a.size i j h]
  exact Hdc.Ws2dGen.av_setIfInBounds_self a j v hj

theorem av_wr_ne (a : Array α) (i : ℤ) (v : α) (j : ℕ) (hi : 0 ≤ i) (h : i ≠ (j : ℤ)) :
    av (wr a i v) j = av a j := by
  simp only [wr, ix_of_eq a.size i i.toNat (by omega)]
  exact Hdc.Ws2dGen.av_setIfInBounds_ne a _ j v (by omega)

/-- the effect of one Python assignment `a[i] = v` with `0 ≤ i < len(a)` -/
theorem wr_upd {a a0 : Array α} {i : ℤ} {v : α} (ha : a = wr a0 i v) (k : ℕ)
    (hi : i = (k : ℤ)) (hk : k < a0.size) : Upd a a0 k v := by
  subst ha
  exact ⟨size_wr _ _ _, av_wr_self _ _ _ _ hi hk,
    fun j hj => av_wr_ne _ _ _ _ (by omega) (by omega)⟩

/-- the effect of one Python assignment `a[i] = v` with `-len(a) ≤ i < 0` -/
theorem wr_upd_neg {a a0 : Array α} {i : ℤ} {v : α} (ha : a = wr a0 i v) (k : ℕ)
    (hi : i < 0) (hik : i + (a0.size : ℤ) = (k : ℤ)) : Upd a a0 k v := by
  subst ha
  have hk : k < a0.size := by omega
  refine ⟨size_wr _ _ _, ?_, fun j hj => ?_⟩
  · simp only [wr, ix_of_neg a0.size i k hi hik]
    exact Hdc.Ws2dGen.av_setIfInBounds_self a0 k v hk
  · simp only [wr, ix_of_neg a0.size i k hi hik]
    exact Hdc.Ws2dGen.av_setIfInBounds_ne a0 _ j v (by omega)

omit [Field α] in
/-- a write outside the array does nothing (Python raises; the translation keeps the array) -/
theorem wr_out (a : Array α) (i : ℤ) (v : α) (hi : (a.size : ℤ) ≤ i) : wr a i v = a := by
  simp only [wr, ix_of_eq a.size i i.toNat (by omega)]
  exact Array.setIfInBounds_eq_of_size_le (by omega)

end field

theorem rdI_of_eq (a : Array Int) (i : ℤ) (j : ℕ) (h : i = (j : ℤ)) : rdI a i = gv a j := by
  simp only [rdI, gv, ix_of_eq a.size i j h]

theorem rdI_nonneg (a : Array Int) (i : ℤ) (h : 0 ≤ i) : rdI a i = gv a i.toNat :=
  rdI_of_eq a i i.toNat (by omega)

/-! ### (b) `range(a, b)` -/

@[simp] theorem pyRange_length (a b : ℤ) : (pyRange a b).length = (b - a).toNat := by
  simp [pyRange]

/-- the current element of `for i in range(a, b)` after `pref` iterations -/
theorem pyRange_split (a b : ℤ) (pref suff : List ℤ) (cur : ℤ)
    (h : pyRange a b = pref ++ cur :: suff) :
    cur = a + (pref.length : ℤ) ∧ a + (pref.length : ℤ) < b := by
  obtain ⟨hlt, hget⟩ := Hdc.Ws2dGen.split_getElem _ _ _ _ h
  rw [pyRange_length] at hlt
  refine ⟨?_, by omega⟩
  rw [← hget]
  simp [pyRange]

open Lean Elab Tactic Meta in
/-- `pyn_ranges`: for every hypothesis `h : pyRange a b = pref ++ cur :: suff` (the position of a
    `for … in range(a, b)` loop, as the verification-condition generator records it) add the fact
    `cur = a + pref.length ∧ a + pref.length < b` to the context. -/
elab "pyn_ranges" : tactic => withMainContext do
  let lctx ← getLCtx
  let mut facts : Array Expr := #[]
  for decl in lctx do
    if decl.isImplementationDetail then continue
    try
      let e ← mkAppOptM ``Hdc.GenNum.pyRange_split
        #[none, none, none, none, none, some decl.toExpr]
      facts := facts.push e
    catch _ => pure ()
  for e in facts do
    liftMetaTactic fun g => do
      let t ← inferType e
      let g ← g.assert `hrange t e
      let (_, g) ← g.intro1P
      return [g]

/-! ### (c) Brent's root finder: the model continued from the current state -/

section brent
variable {α : Type} [Add α] [Sub α] [Mul α] [Div α] [Neg α] [NatCast α] [LT α] [DecidableLT α]

/-- after `p` passes the model, continued from the state `s` with the remaining budget, returns
    `final` (the value of the model on the whole input) -/
def BCont (f : α → α) (xtol rtol final : α) (p : ℕ) (s : BState α) : Prop :=
  p ≤ 100 ∧ brentLoop f xtol rtol (100 - p) s = final

/-- one pass that continues -/
theorem BCont.step {f : α → α} {xtol rtol final : α} {p : ℕ} {s s' : BState α}
    (h : BCont f xtol rtol final p s) (hp : p < 100) (hs : brentStep f xtol rtol s = .inr s') :
    BCont f xtol rtol final (p + 1) s' := by
  refine ⟨hp, ?_⟩
  have := h.2
  rw [show 100 - p = (100 - (p + 1)) + 1 by omega, brentLoop, hs] at this
  exact this

/-- one pass that returns -/
theorem BCont.ret {f : α → α} {xtol rtol final : α} {p : ℕ} {s : BState α} {x : α}
    (h : BCont f xtol rtol final p s) (hp : p < 100) (hs : brentStep f xtol rtol s = .inl x) :
    x = final := by
  have := h.2
  rw [show 100 - p = (100 - (p + 1)) + 1 by omega, brentLoop, hs] at this
  exact this

/-- the budget is used up: `return xcur` after the loop -/
theorem BCont.final {f : α → α} {xtol rtol final : α} {p : ℕ} {s : BState α}
    (h : BCont f xtol rtol final p s) (hp : p = 100) : s.xcur = final := by
  have := h.2
  rw [hp, Nat.sub_self, brentLoop] at this
  exact this

end brent

end Hdc.GenNum
