import Hdc.Model.Ws2d
import Mathlib.Algebra.Field.Basic
import Mathlib.Tactic.Ring
import Mathlib.Tactic.LinearCombination
import Mathlib.Tactic.FieldSimp
/-
Model-side lemmas for `ws2d`: the list program is re-expressed through ℕ-indexed functions.

`RS k` is the row with index `k - 2` of the forward sweep (`RS 0 = RS 1 =` the zero row), so
that the three-term recurrences have no case split at the start.
-/
namespace Hdc.Ws2d

variable {α : Type} [Field α]

/-- a list read as a function (0 outside) -/
def fnl (l : List α) : ℕ → α := fun i => l.getD i 0

theorem fnl_nil (i : ℕ) : fnl ([] : List α) i = 0 := by simp [fnl]
theorem fnl_cons_zero (a : α) (l : List α) : fnl (a :: l) 0 = a := by simp [fnl]
theorem fnl_cons_succ (a : α) (l : List α) (i : ℕ) : fnl (a :: l) (i + 1) = fnl l i := by
  simp [fnl]
theorem fnl_of_lt (l : List α) (i : ℕ) (h : i < l.length) : fnl l i = l[i] := by
  simp [fnl, h]
theorem fnl_of_le (l : List α) (i : ℕ) (h : l.length ≤ i) : fnl l i = 0 := by
  simp [fnl, h]

theorem list_eq_of_fnl (l l' : List α) (hl : l.length = l'.length)
    (h : ∀ i < l.length, fnl l i = fnl l' i) : l = l' := by
  apply List.ext_getElem hl
  intro i h1 h2
  have := h i h1
  rwa [fnl_of_lt _ _ h1, fnl_of_lt _ _ h2] at this

/-- shifted rows of the forward sweep: `RS k` is row `k-2` -/
def RS (lam : α) (n : ℕ) (W Y : ℕ → α) : ℕ → Row α
  | 0 => Row.zero
  | 1 => Row.zero
  | k + 2 => fwdRow lam n k (RS lam n W Y (k + 1)) (RS lam n W Y k) (W k) (Y k)

section
variable (lam : α) (n : ℕ) (W Y : ℕ → α)

@[simp] theorem RS_zero : RS lam n W Y 0 = Row.zero := rfl
@[simp] theorem RS_one : RS lam n W Y 1 = Row.zero := rfl
theorem RS_succ2 (k : ℕ) :
    RS lam n W Y (k + 2) = fwdRow lam n k (RS lam n W Y (k + 1)) (RS lam n W Y k) (W k) (Y k) :=
  rfl

@[simp] theorem zero_d : (Row.zero : Row α).d = 0 := by simp [Row.zero]
@[simp] theorem zero_c : (Row.zero : Row α).c = 0 := by simp [Row.zero]
@[simp] theorem zero_e : (Row.zero : Row α).e = 0 := by simp [Row.zero]
@[simp] theorem zero_u : (Row.zero : Row α).u = 0 := by simp [Row.zero]

theorem RS_d (k : ℕ) : (RS lam n W Y (k + 2)).d =
    W k + (diagCoef n k : α) * lam
      - (RS lam n W Y (k + 1)).c ^ 2 * (RS lam n W Y (k + 1)).d
      - (RS lam n W Y k).e ^ 2 * (RS lam n W Y k).d := by
  rw [RS_succ2]; simp only [fwdRow, nat]; ring

theorem RS_u (k : ℕ) : (RS lam n W Y (k + 2)).u =
    W k * Y k - (RS lam n W Y (k + 1)).c * (RS lam n W Y (k + 1)).u
      - (RS lam n W Y k).e * (RS lam n W Y k).u := by
  rw [RS_succ2]; simp only [fwdRow]

theorem RS_c (k : ℕ) (h : (RS lam n W Y (k + 2)).d ≠ 0) :
    (RS lam n W Y (k + 2)).d * (RS lam n W Y (k + 2)).c =
      -(supCoef n k : α) * lam
        - (RS lam n W Y (k + 1)).d * (RS lam n W Y (k + 1)).c * (RS lam n W Y (k + 1)).e := by
  have : (RS lam n W Y (k + 2)).c =
      (-(supCoef n k : α) * lam
        - (RS lam n W Y (k + 1)).d * (RS lam n W Y (k + 1)).c * (RS lam n W Y (k + 1)).e)
        / (RS lam n W Y (k + 2)).d := by
    rw [RS_succ2]; simp only [fwdRow, nat]
  rw [this, mul_div_cancel₀ _ h]

theorem RS_e (k : ℕ) (h : (RS lam n W Y (k + 2)).d ≠ 0) :
    (RS lam n W Y (k + 2)).d * (RS lam n W Y (k + 2)).e = lam := by
  have : (RS lam n W Y (k + 2)).e = lam / (RS lam n W Y (k + 2)).d := by
    rw [RS_succ2]; simp only [fwdRow, nat]
  rw [this, mul_div_cancel₀ _ h]

/-- the forward sweep started at index `i` with the right state produces the rows `RS` -/
theorem fwd_eq (l : List (α × α)) : ∀ (i : ℕ),
    (∀ j (h : j < l.length), l[j] = (W (i + j), Y (i + j))) →
    fwd lam n i (RS lam n W Y (i + 1)) (RS lam n W Y i) l
      = (List.range' i l.length).map (fun j => RS lam n W Y (j + 2)) := by
  induction l with
  | nil => intro i _; simp [fwd]
  | cons p rest ih =>
    intro i h
    have h0 := h 0 (by simp)
    simp only [List.getElem_cons_zero, Nat.add_zero] at h0
    obtain ⟨pw, py⟩ := p
    simp only [Prod.mk.injEq] at h0
    obtain ⟨rfl, rfl⟩ := h0
    simp only [fwd, List.length_cons, List.range'_succ, List.map_cons]
    rw [← RS_succ2]
    congr 1
    apply ih (i + 1)
    intro j hj
    have := h (j + 1) (by simp; omega)
    simp only [List.getElem_cons_succ] at this
    rw [this]; congr 2 <;> omega

end

theorem fwd_length (lam : α) (n : ℕ) (l : List (α × α)) :
    ∀ (i : ℕ) (r1 r2 : Row α), (fwd lam n i r1 r2 l).length = l.length := by
  induction l with
  | nil => intros; simp [fwd]
  | cons p rest ih => intro i r1 r2; obtain ⟨a, b⟩ := p; simp [fwd, ih]

/-- `back`, one step, without the case split of the source -/
theorem back_cons (r : Row α) (rs : List (Row α)) :
    back (r :: rs) =
      (r.u / r.d - r.c * fnl (back rs) 0 - r.e * fnl (back rs) 1) :: back rs := by
  rw [back]
  split
  · next h => simp [h, fnl]
  · next z1 h => simp [h, fnl]
  · next z1 z2 zs h => simp [h, fnl]

theorem back_length (rs : List (Row α)) : (back rs).length = rs.length := by
  induction rs with
  | nil => simp [back]
  | cons r rs ih => rw [back_cons]; simp [ih]

/-- the back-substitution relation, uniformly in the index (values past the end read as 0) -/
theorem back_rel (rs : List (Row α)) : ∀ (i : ℕ) (h : i < rs.length),
    fnl (back rs) i =
      rs[i].u / rs[i].d - rs[i].c * fnl (back rs) (i + 1) - rs[i].e * fnl (back rs) (i + 2) := by
  induction rs with
  | nil => intro i h; simp at h
  | cons r rs ih =>
    intro i h
    rw [back_cons]
    cases i with
    | zero => simp [fnl_cons_zero, fnl_cons_succ]
    | succ i =>
      simp only [fnl_cons_succ, List.getElem_cons_succ]
      exact ih i (by simpa using h)

/-- rows of the program as the functions `RS` -/
theorem ws2dRows_eq (y : List α) (lam : α) (w : List α) :
    ws2dRows y lam w = (List.range' 0 (w.zip y).length).map
      (fun j => RS lam y.length (fnl w) (fnl y) (j + 2)) := by
  unfold ws2dRows
  have := fwd_eq lam y.length (fnl w) (fnl y) (w.zip y) 0 (by
    intro j hj
    have hj' : j < w.length ∧ j < y.length := by simpa using hj
    simp [fnl, hj'.1, hj'.2])
  simpa using this

theorem ws2dRows_length (y : List α) (lam : α) (w : List α) (h : w.length = y.length) :
    (ws2dRows y lam w).length = y.length := by
  unfold ws2dRows; rw [fwd_length]; simp [h]

theorem ws2dRows_getElem (y : List α) (lam : α) (w : List α) (h : w.length = y.length)
    (i : ℕ) (hi : i < y.length) :
    (ws2dRows y lam w)[i]'(by rw [ws2dRows_length y lam w h]; exact hi)
      = RS lam y.length (fnl w) (fnl y) (i + 2) := by
  simp [ws2dRows_eq]

theorem ws2d_length' (y w : List α) (lam : α) (h : w.length = y.length) :
    (ws2d y lam w).length = y.length := by
  unfold ws2d; rw [back_length, ws2dRows_length y lam w h]

/-- the output, read as a function, satisfies the back-substitution relation -/
theorem ws2d_rel (y w : List α) (lam : α) (h : w.length = y.length) (i : ℕ) (hi : i < y.length) :
    fnl (ws2d y lam w) i =
      (RS lam y.length (fnl w) (fnl y) (i + 2)).u / (RS lam y.length (fnl w) (fnl y) (i + 2)).d
        - (RS lam y.length (fnl w) (fnl y) (i + 2)).c * fnl (ws2d y lam w) (i + 1)
        - (RS lam y.length (fnl w) (fnl y) (i + 2)).e * fnl (ws2d y lam w) (i + 2) := by
  unfold ws2d
  rw [back_rel _ i (by rw [ws2dRows_length y lam w h]; exact hi),
    ws2dRows_getElem y lam w h i hi]

theorem ws2d_out (y w : List α) (lam : α) (h : w.length = y.length) (i : ℕ) (hi : y.length ≤ i) :
    fnl (ws2d y lam w) i = 0 :=
  fnl_of_le _ _ (by rw [ws2d_length' y w lam h]; exact hi)

/-- the rows only see the products `w_i * y_i` -/
theorem RS_congr (lam : α) (n : ℕ) (W Y Y' : ℕ → α) (h : ∀ k, W k * Y k = W k * Y' k) :
    ∀ k, RS lam n W Y k = RS lam n W Y' k := by
  have key : ∀ k, RS lam n W Y k = RS lam n W Y' k ∧ RS lam n W Y (k + 1) = RS lam n W Y' (k + 1) := by
    intro k
    induction k with
    | zero => simp
    | succ k ih =>
      refine ⟨ih.2, ?_⟩
      rw [RS_succ2, RS_succ2, ih.1, ih.2]
      simp only [fwdRow, h k]
  exact fun k => (key k).1

end Hdc.Ws2d
