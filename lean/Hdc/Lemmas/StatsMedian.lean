import Hdc.Lemmas.StatsBasic
import Mathlib.Order.Monotone.Basic
import Mathlib.Data.List.Basic
import Mathlib.Tactic.Ring
import Mathlib.Tactic.Linarith
/-
Lemmas about `sortL` / `median` (model in `Hdc/Model/Smooth.lean`).
-/
namespace Hdc.Stats

set_option linter.unusedSectionVars false

theorem getD_of_lt {γ : Type} (l : List γ) (i : ℕ) (d : γ) (h : i < l.length) :
    l.getD i d = l[i] := by
  simp [List.getD_eq_getElem?_getD, h]

theorem getD_of_ge {γ : Type} (l : List γ) (i : ℕ) (d : γ) (h : l.length ≤ i) :
    l.getD i d = d := by
  simp [List.getD_eq_getElem?_getD, h]

theorem getD_map_of {γ δ : Type} (g : γ → δ) (l : List γ) (i : ℕ) (d : γ) :
    (l.map g).getD i (g d) = g (l.getD i d) := by
  by_cases h : i < l.length
  · rw [getD_of_lt _ _ _ (by simpa using h), getD_of_lt _ _ _ h, List.getElem_map]
  · rw [getD_of_ge _ _ _ (by simpa using h), getD_of_ge _ _ _ (not_lt.1 h)]

theorem getD_reverse_of_lt {γ : Type} (l : List γ) (i : ℕ) (d : γ) (h : i < l.length) :
    l.reverse.getD i d = l.getD (l.length - 1 - i) d := by
  rw [getD_of_lt _ _ _ (by simpa using h), getD_of_lt _ _ _ (by omega), List.getElem_reverse]

section sort
variable {α : Type} [LinearOrder α]

theorem sortL_perm (l : List α) : (sortL l).Perm l := List.mergeSort_perm l _

theorem sortL_length (l : List α) : (sortL l).length = l.length := List.length_mergeSort l

theorem sortL_pairwise (l : List α) : (sortL l).Pairwise (· ≤ ·) := by
  have := List.pairwise_mergeSort (le := fun a b : α => !decide (b < a))
    (by
      intro a b c h1 h2
      simp only [Bool.not_eq_eq_eq_not, Bool.not_true, decide_eq_false_iff_not, not_lt] at *
      exact le_trans h1 h2)
    (by
      intro a b
      simp only [Bool.or_eq_true, Bool.not_eq_eq_eq_not, Bool.not_true, decide_eq_false_iff_not,
        not_lt]
      exact le_total a b) l
  refine this.imp ?_
  intro a b h
  simpa using h

/-- the sorted permutation is unique -/
theorem sortL_unique (l s : List α) (hp : s.Perm l) (hs : s.Pairwise (· ≤ ·)) : s = sortL l :=
  List.Perm.eq_of_pairwise (fun _ _ _ _ h1 h2 => le_antisymm h1 h2) hs (sortL_pairwise l)
    (hp.trans (sortL_perm l).symm)

variable {β : Type} [LinearOrder β]

theorem sortL_map_monotone (g : α → β) (hg : Monotone g) (l : List α) :
    sortL (l.map g) = (sortL l).map g := by
  symm
  apply sortL_unique
  · exact (sortL_perm l).map g
  · rw [List.pairwise_map]
    exact (sortL_pairwise l).imp (fun h => hg h)

theorem sortL_map_antitone (g : α → β) (hg : Antitone g) (l : List α) :
    sortL (l.map g) = ((sortL l).map g).reverse := by
  symm
  apply sortL_unique
  · exact (List.reverse_perm _).trans ((sortL_perm l).map g)
  · rw [List.pairwise_reverse, List.pairwise_map]
    exact (sortL_pairwise l).imp (fun h => hg h)

/-- a prefix of `j` entries satisfying `p` -/
theorem le_countP_of_prefix (p : α → Bool) (s : List α) (j : ℕ) (hj : j ≤ s.length)
    (h : ∀ i (hi : i < s.length), i < j → p s[i] = true) : j ≤ s.countP p := by
  induction s generalizing j with
  | nil => simpa using hj
  | cons a t ih =>
    cases j with
    | zero => omega
    | succ j =>
      have h0 : p a = true := h 0 (by simp) (by omega)
      rw [List.countP_cons_of_pos h0]
      have := ih j (by simpa using hj) (fun i hi hij => by
        have := h (i + 1) (by simpa using hi) (by omega)
        simpa using this)
      omega

/-- all entries from index `j` on satisfy `p` -/
theorem le_countP_of_suffix (p : α → Bool) (s : List α) (j : ℕ)
    (h : ∀ i (hi : i < s.length), j ≤ i → p s[i] = true) : s.length - j ≤ s.countP p := by
  induction s generalizing j with
  | nil => simp
  | cons a t ih =>
    cases j with
    | zero =>
      have h0 : p a = true := h 0 (by simp) (by omega)
      rw [List.countP_cons_of_pos h0]
      have := ih 0 (fun i hi _ => by
        have := h (i + 1) (by simpa using hi) (by omega)
        simpa using this)
      simp only [List.length_cons]; omega
    | succ j =>
      have := ih j (fun i hi hij => by
        have := h (i + 1) (by simpa using hi) (by omega)
        simpa using this)
      have h2 : t.countP p ≤ (a :: t).countP p := by
        rw [List.countP_cons]; omega
      simp only [List.length_cons]; omega

theorem sorted_getElem_le (s : List α) (hs : s.Pairwise (· ≤ ·)) (i j : ℕ) (hj : j < s.length)
    (hij : i ≤ j) : s[i]'(lt_of_le_of_lt hij hj) ≤ s[j] := by
  rcases Nat.eq_or_lt_of_le hij with rfl | h
  · exact le_refl _
  · exact List.pairwise_iff_getElem.1 hs i j _ hj h

end sort

section median
variable {α : Type} [Field α] [LinearOrder α] [IsStrictOrderedRing α]

theorem median_eq (l : List α) :
    median l = if l.length % 2 = 1 then (sortL l).getD (l.length / 2) 0
      else ((sortL l).getD (l.length / 2 - 1) 0 + (sortL l).getD (l.length / 2) 0) / 2 := by
  unfold median
  simp only [sortL_length, nat_zero, nat_two]

/-- `median` in terms of any sorted permutation -/
theorem median_of_sorted (l s : List α) (hp : s.Perm l) (hs : s.Pairwise (· ≤ ·)) :
    median l = if l.length % 2 = 1 then s.getD (l.length / 2) 0
      else (s.getD (l.length / 2 - 1) 0 + s.getD (l.length / 2) 0) / 2 := by
  rw [median_eq, sortL_unique l s hp hs]

/-- medians commute with monotone additive-like maps fixing the default `0` -/
theorem median_map_mul_nonneg (a : α) (ha : 0 ≤ a) (l : List α) :
    median (l.map (a * ·)) = a * median l := by
  have hg : Monotone (a * · : α → α) := fun x y h => mul_le_mul_of_nonneg_left h ha
  rw [median_eq, median_eq, sortL_map_monotone _ hg, List.length_map]
  have h0 : ∀ i, ((sortL l).map (a * ·)).getD i 0 = a * (sortL l).getD i 0 := by
    intro i
    have := getD_map_of (a * · : α → α) (sortL l) i 0
    simpa using this
  simp only [h0]
  split_ifs
  · rfl
  · ring

theorem median_reverse_sorted (s : List α) :
    (if s.length % 2 = 1 then s.reverse.getD (s.length / 2) 0
      else (s.reverse.getD (s.length / 2 - 1) 0 + s.reverse.getD (s.length / 2) 0) / 2)
    = if s.length % 2 = 1 then s.getD (s.length / 2) 0
      else (s.getD (s.length / 2 - 1) 0 + s.getD (s.length / 2) 0) / 2 := by
  rcases Nat.eq_zero_or_pos s.length with h0 | hpos
  · have : s = [] := List.length_eq_zero_iff.1 h0
    subst this; simp
  · split_ifs with h
    · rw [getD_reverse_of_lt _ _ _ (by omega)]
      have e : s.length - 1 - s.length / 2 = s.length / 2 := by omega
      rw [e]
    · rw [getD_reverse_of_lt _ _ _ (by omega), getD_reverse_of_lt _ _ _ (by omega)]
      have e1 : s.length - 1 - (s.length / 2 - 1) = s.length / 2 := by omega
      have e2 : s.length - 1 - s.length / 2 = s.length / 2 - 1 := by omega
      rw [e1, e2, add_comm]

theorem median_map_mul_nonpos (a : α) (ha : a ≤ 0) (l : List α) :
    median (l.map (a * ·)) = a * median l := by
  have hg : Antitone (a * · : α → α) := fun x y h => mul_le_mul_of_nonpos_left h ha
  rw [median_eq, median_eq, sortL_map_antitone _ hg, List.length_map]
  have hlen : ((sortL l).map (a * ·)).length = l.length := by simp [sortL_length]
  have := median_reverse_sorted ((sortL l).map (a * ·))
  rw [hlen] at this
  rw [this]
  have h0 : ∀ i, ((sortL l).map (a * ·)).getD i 0 = a * (sortL l).getD i 0 := by
    intro i
    have := getD_map_of (a * · : α → α) (sortL l) i 0
    simpa using this
  simp only [h0]
  split_ifs
  · rfl
  · ring

theorem median_map_mul (a : α) (l : List α) : median (l.map (a * ·)) = a * median l := by
  rcases le_total 0 a with h | h
  · exact median_map_mul_nonneg a h l
  · exact median_map_mul_nonpos a h l

theorem median_map_neg (l : List α) : median (l.map Neg.neg) = - median l := by
  have : (Neg.neg : α → α) = ((-1 : α) * ·) := by funext x; simp
  have h := median_map_mul (-1) l
  rw [← this] at h
  rw [h, neg_one_mul]

/-- at least half of the entries are `≤` the median and at least half are `≥` it -/
theorem median_half (l : List α) (hl : l ≠ []) :
    l.length ≤ 2 * l.countP (fun v => decide (v ≤ median l)) ∧
    l.length ≤ 2 * l.countP (fun v => decide (median l ≤ v)) := by
  have hn : 0 < l.length := List.length_pos_iff.2 hl
  obtain ⟨s, hs⟩ : ∃ s, s = sortL l := ⟨_, rfl⟩
  have hsl : s.length = l.length := by rw [hs]; exact sortL_length l
  have hsp : s.Pairwise (· ≤ ·) := by rw [hs]; exact sortL_pairwise l
  have hmed := median_eq l
  rw [← (sortL_perm l).countP_eq, ← (sortL_perm l).countP_eq, ← hs]
  rw [← hs] at hmed
  by_cases hodd : l.length % 2 = 1
  · have hm : median l = s[l.length / 2]'(by omega) := by
      rw [hmed, if_pos hodd, getD_of_lt _ _ _ (by omega)]
    constructor
    · have := le_countP_of_prefix (fun v => decide (v ≤ median l)) s (l.length / 2 + 1) (by omega)
        (fun i hi hij => by
          rw [decide_eq_true_iff, hm]
          exact sorted_getElem_le s hsp i (l.length / 2) (by omega) (by omega))
      omega
    · have := le_countP_of_suffix (fun v => decide (median l ≤ v)) s (l.length / 2)
        (fun i hi hij => by
          rw [decide_eq_true_iff, hm]
          exact sorted_getElem_le s hsp (l.length / 2) i hi hij)
      omega
  · have hk : 1 ≤ l.length / 2 := by omega
    have hm : median l = (s[l.length / 2 - 1]'(by omega) + s[l.length / 2]'(by omega)) / 2 := by
      rw [hmed, if_neg hodd, getD_of_lt _ _ _ (by omega), getD_of_lt _ _ _ (by omega)]
    have hle : s[l.length / 2 - 1]'(by omega) ≤ s[l.length / 2]'(by omega) :=
      sorted_getElem_le s hsp _ _ (by omega) (by omega)
    have h1 : s[l.length / 2 - 1]'(by omega) ≤ median l := by rw [hm]; linarith
    have h2 : median l ≤ s[l.length / 2]'(by omega) := by rw [hm]; linarith
    constructor
    · have := le_countP_of_prefix (fun v => decide (v ≤ median l)) s (l.length / 2) (by omega)
        (fun i hi hij => by
          rw [decide_eq_true_iff]
          exact le_trans (sorted_getElem_le s hsp i (l.length / 2 - 1) (by omega) (by omega)) h1)
      omega
    · have := le_countP_of_suffix (fun v => decide (median l ≤ v)) s (l.length / 2)
        (fun i hi hij => by
          rw [decide_eq_true_iff]
          exact le_trans h2 (sorted_getElem_le s hsp (l.length / 2) i hi hij))
      omega

end median

end Hdc.Stats
