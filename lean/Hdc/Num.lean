/-
Carrier conventions shared by all numeric models.

Every arithmetic kernel is modelled polymorphically over a carrier `α` using only the
operator classes below.  The same definition is
  * proved about for every linearly ordered field (Props/, with Mathlib instances),
  * executed at `Rat` (exact) and at `Float` (IEEE binary64) by the driver.
Integer literals of the source enter as casts of naturals (`nat 5`), so that no `OfNat`
instance is needed; non-integer literals (1e-5, 1e15, ...) are parameters.
No Mathlib import here: the driver links this file natively.
-/
namespace Hdc

/-- cast of a natural-number literal of the source -/
@[reducible] def nat {α : Type} [NatCast α] (n : Nat) : α := (n : α)

/-- Equality test as the kernels perform it on non-NaN values, expressed with `<` only
    (so that it is available on `Float`, which has no `DecidableEq`). -/
def eqv {α : Type} [LT α] [DecidableLT α] (a b : α) : Bool :=
  !(decide (a < b)) && !(decide (b < a))

/-- `abs` as the kernels compute it. -/
def absv {α : Type} [LT α] [DecidableLT α] [Neg α] [NatCast α] (a : α) : α :=
  if a < nat 0 then -a else a

/-- left-to-right sum starting from 0, as `for ...: acc += x` and `np.sum` on short arrays do -/
def sumL {α : Type} [Add α] [NatCast α] (xs : List α) : α :=
  xs.foldl (· + ·) (nat 0)

end Hdc
