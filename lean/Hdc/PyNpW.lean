import Hdc.Gen.NumBase
/-
PyNpW: the NumPy vector idioms the translators emit, as generic combinators on `Array`.
HAND-WRITTEN, kernel independent (no generated kernel is mentioned here); the translators
(harness/py2lean_wcv.py) emit calls of these combinators, compositionally, one per NumPy
operation of the source.  Lemmas about them: Hdc/Lemmas/PyNpW.lean.

Conventions
  * elementwise operations take the scalar operation as a function: `npMap f a` (one array, or an
    array and a broadcast scalar captured by `f`), `npMap2 f a b` (two arrays of the same shape;
    NumPy raises on a shape mismatch other than broadcasting, `npMap2` truncates: the translation is
    faithful for equal lengths, which is what the refinement theorems establish for every call);
  * `npSum` is the left-to-right sum from 0 (what Numba's `np.sum` / `.sum()` compile to), `sumF` of
    the model;  `npCount` the number of `True` cells (`np.sum` of a mask);
  * `np.median`, `np.max`, `np.min` are the hand model's `median` (sort based), `maxL`, `minL` of the
    cells: refinement theorems about programs using them hold modulo "NumPy's function computes
    this definition";
  * Python index semantics (negative indices wrap) for `rdA`, slices clip (`npSlice`, `npSetSlice`).
-/
namespace Hdc.PyNpW
open Hdc Hdc.Gen.NumKernels

section generic
variable {α β γ : Type}

/-- `f(a)` elementwise; also `a ∘ c` / `c ∘ a` with a broadcast scalar `c` captured by `f`,
    `[e for x in a]`, `np.array(mask, dtype=float64)` -/
def npMap (f : α → β) (a : Array α) : Array β := a.map f

/-- `a ∘ b` elementwise on arrays of the same shape -/
def npMap2 (f : α → β → γ) (a : Array α) (b : Array β) : Array γ := Array.zipWith f a b

/-- `np.sum(mask)`: the number of `True` cells -/
def npCount (m : Array Bool) : Int := ((m.toList.filter id).length : Int)

/-- `a[mask]`: the cells of `a` where the mask is `True`, in order -/
def npSelect (a : Array α) (m : Array Bool) : Array α :=
  (((a.toList.zip m.toList).filter fun p => p.2).map fun p => p.1).toArray

/-- `a[mask] = c` -/
def npMaskSet (a : Array α) (m : Array Bool) (c : α) : Array α :=
  Array.zipWith (fun x b => if b then c else x) a m

/-- `np.where(cond, a, b)` with array / scalar branches -/
def npWhereAA (c : Array Bool) (a b : Array α) : Array α :=
  Array.zipWith (fun (ci : Bool) (p : α × α) => if ci then p.1 else p.2) c (Array.zip a b)
def npWhereSA (c : Array Bool) (a : α) (b : Array α) : Array α :=
  Array.zipWith (fun (ci : Bool) (bi : α) => if ci then a else bi) c b
def npWhereAS (c : Array Bool) (a : Array α) (b : α) : Array α :=
  Array.zipWith (fun (ci : Bool) (ai : α) => if ci then ai else b) c a
def npWhereSS (c : Array Bool) (a b : α) : Array α := c.map fun ci => if ci then a else b

/-- `a[:] = c` -/
def npFill (a : Array α) (c : α) : Array α := a.map fun _ => c

/-- `a[:] = b[:]`, `np.round(z, 0, out)`: the content of `b` written into the buffer `a`
    (NumPy requires equal shapes; the result is `b`) -/
def npCopyTo (_a b : Array α) : Array α := b

/-- start / stop of a slice on an array of length `n`: negative values count from the end, both
    are clipped to `[0, n]` -/
def sliceIx (n : Nat) (i : Int) : Nat := min n (if i < 0 then (i + (n : Int)).toNat else i.toNat)

/-- `a[lo:hi]` -/
def npSlice (a : Array α) (lo hi : Int) : Array α :=
  a.extract (sliceIx a.size lo) (sliceIx a.size hi)

/-- `a[lo:hi] = b` (NumPy requires `len(b) = hi - lo` after clipping; cells of the slice beyond
    `len(b)` keep their value here) -/
def npSetSlice (a : Array α) (lo hi : Int) (b : Array α) : Array α :=
  Array.ofFn (n := a.size) fun j =>
    if sliceIx a.size lo ≤ j.1 ∧ j.1 < sliceIx a.size hi then b.getD (j.1 - sliceIx a.size lo) a[j.1]
    else a[j.1]

/-- `l[i]` on a list of arrays (Python index semantics; `#[]` when out of range) -/
def rdA (a : Array (Array α)) (i : Int) : Array α := a.getD (ix a.size i) #[]

/-- `np.arange(m)` -/
def npArange (m : Int) : Array Int := (pyRange 0 m).toArray

end generic

section carrier
variable {α : Type} [Add α] [Sub α] [Mul α] [Div α] [Neg α] [NatCast α] [LT α] [DecidableLT α]

/-- `np.sum(a)`, `a.sum()`: left-to-right from 0 -/
def npSum (a : Array α) : α := sumF a.toList

/-- `np.median(a)` := the model's sort-based median of the cells -/
def npMedian (a : Array α) : α := median a.toList

/-- `np.max(a)`, `np.min(a)` := the model's running maximum / minimum -/
def npMax (a : Array α) : α := maxL a.toList
def npMin (a : Array α) : α := minL a.toList

end carrier

end Hdc.PyNpW
