import Hdc.Num
/-
PyNpV  Hand-written, kernel-independent combinators for the NumPy vector idioms that the translators
(harness/py2lean_*.py) meet in the kernels, with the lemmas the refinement proofs need.  No Mathlib.

  `a[lo:hi]`            -> `npSlice a lo hi`
  `a[lo:hi] = b`        -> `npSetSlice a lo hi b`     (`a[:]` is `a[0:len(a)]`)
  `a[lo:hi] = scalar`   -> `npFillSlice a lo hi v`
  `np.round(z, 0, out)` -> `npRoundInto rnd z out`    (= `out[:] = round(z)`)

Slice bounds follow Python: a negative bound counts from the end, every bound is clamped to `[0, len]`.
NumPy raises when the shapes of the two sides of a slice assignment differ (a one-element right-hand side is
broadcast; the kernels never do that): the translation then keeps the target unchanged, as `wr` does for an
index out of range.
-/
namespace Hdc.PyNpV
variable {α : Type}

/-- normalised slice bound: `i + n` for negative `i`, clamped to `[0, n]` -/
def sliceIx (n : Nat) (i : Int) : Nat := if i < 0 then (i + (n : Int)).toNat else min i.toNat n

/-- `a[lo:hi]` -/
def npSlice (a : Array α) (lo hi : Int) : Array α :=
  a.extract (sliceIx a.size lo) (sliceIx a.size hi)

/-- `a[lo:hi] = b` -/
def npSetSlice (a : Array α) (lo hi : Int) (b : Array α) : Array α :=
  let l := sliceIx a.size lo
  let h := sliceIx a.size hi
  if l ≤ h ∧ h - l = b.size then a.extract 0 l ++ b ++ a.extract h a.size else a

/-- `a[lo:hi] = v` for a scalar `v` -/
def npFillSlice (a : Array α) (lo hi : Int) (v : α) : Array α :=
  let l := sliceIx a.size lo
  let h := sliceIx a.size hi
  npSetSlice a lo hi (Array.replicate (h - l) v)

/-- `np.round(z, 0, out)`: the rounded `z` is stored into the cells of `out` -/
def npRoundInto (rnd : α → α) (z out : Array α) : Array α :=
  npSetSlice out (0 : Int) (out.size : Int) (z.map rnd)

/-! ### lemmas -/

@[simp] theorem sliceIx_zero (n : Nat) : sliceIx n 0 = 0 := by simp [sliceIx]

@[simp] theorem sliceIx_size (n : Nat) : sliceIx n (n : Int) = n := by
  have : ¬ ((n : Int) < 0) := by omega
  simp [sliceIx, this]

theorem sliceIx_of_eq (n : Nat) (i : Int) (h : i = (n : Int)) : sliceIx n i = n := by
  subst h; exact sliceIx_size n

/-- `a[0:len(a)]` is `a` -/
theorem npSlice_full (a : Array α) (hi : Int) (h : hi = (a.size : Int)) : npSlice a 0 hi = a := by
  subst h; simp [npSlice]

/-- `a[0:len(a)] = b` with `len(b) = len(a)` stores `b` -/
theorem npSetSlice_full (a b : Array α) (hi : Int) (h : hi = (a.size : Int)) (hb : b.size = a.size) :
    npSetSlice a 0 hi b = b := by
  subst h
  simp [npSetSlice, hb]

/-- a slice assignment of the wrong shape leaves the target alone -/
theorem npSetSlice_mismatch (a b : Array α) (hi : Int) (h : hi = (a.size : Int)) (hb : b.size ≠ a.size) :
    npSetSlice a 0 hi b = a := by
  subst h
  have : ¬ (a.size = b.size) := fun e => hb e.symm
  simp [npSetSlice, this]

/-- `a[0:len(a)] = v` -/
theorem npFillSlice_full (a : Array α) (hi : Int) (v : α) (h : hi = (a.size : Int)) :
    npFillSlice a 0 hi v = Array.replicate a.size v := by
  subst h
  unfold npFillSlice
  rw [npSetSlice_full _ _ _ rfl (by simp)]
  simp

theorem npRoundInto_eq (rnd : α → α) (z out : Array α) (h : z.size = out.size) :
    npRoundInto rnd z out = z.map rnd := by
  unfold npRoundInto
  rw [npSetSlice_full _ _ _ rfl (by simp [h])]

@[simp] theorem size_npSetSlice_full (a b : Array α) (hi : Int) (h : hi = (a.size : Int)) :
    (npSetSlice a 0 hi b).size = a.size := by
  by_cases hb : b.size = a.size
  · rw [npSetSlice_full a b hi h hb, hb]
  · rw [npSetSlice_mismatch a b hi h hb]

end Hdc.PyNpV
