import Hdc.PyGlue
/-
Hand-written TRUSTED list-level semantics of the xarray idioms the accessor `PixelAlgorithms.croo` is built from, PER PIXEL
(every idiom below acts independently on each pixel along the `time` dimension).  Used by the translator
harness/py2lean_glue_px.py (the idioms are matched by pattern, method names AND keyword literals), validated against real
xarray on random pixel series by harness/validate_pyxr.py.  Core Lean only.

A pixel series `PxSer` is the list of (time key, value) in STORED order; a value is a non-negative integer or NaN (`none`).
Negative / fractional values are not represented (under `where(x == 1)` they behave like any value other than 1).
-/
namespace Hdc.PyXr
open Hdc.PyGlue

/-- a per-pixel scalar: a non-negative integer, or NaN -/
abbrev PxVal := Option Nat
/-- a per-pixel series along `time`, stored order: (time key, value) -/
abbrev PxSer := List (Int × PxVal)

/-- insertion into a list ascending by time key, BEFORE the entries with an equal key (the sort below is stable) -/
def insertAscT (p : Int × PxVal) : PxSer → PxSer
  | [] => [p]
  | q :: qs => if p.1 ≤ q.1 then p :: q :: qs else q :: insertAscT p qs

/-- stable ascending sort by time key (`np.lexsort`) -/
def sortAscT (x : PxSer) : PxSer := x.foldr insertAscT []

/-- `x.sortby("time", ascending=b)`: xarray takes the stable ascending order and REVERSES it for `ascending=False` -/
def sortbyTime (x : PxSer) (ascending : Bool) : PxSer := if ascending then sortAscT x else (sortAscT x).reverse

/-- `x.where(x == c)`: cells equal to `c` are kept, all others (NaN included) become NaN -/
def whereEq (x : PxSer) (c : Nat) : PxSer := x.map fun p => (p.1, if p.2 = some c then p.2 else none)

/-- running sum from the accumulator `acc` (`none` = NaN): `skipna = false` propagates NaN, `skipna = true` counts NaN as 0 -/
def cumsumFrom (skipna : Bool) : PxVal → PxSer → PxSer
  | _, [] => []
  | acc, p :: ps =>
    let acc' : PxVal := match acc, p.2 with
      | some a, some b => some (a + b)
      | some a, none => if skipna then some a else none
      | none, _ => none
    (p.1, acc') :: cumsumFrom skipna acc' ps

/-- `x.cumsum("time", skipna=b)` -/
def cumsumTime (x : PxSer) (skipna : Bool) : PxSer := cumsumFrom skipna (some 0) x

/-- `x.where(~x.isnull(), v)`: NaN cells replaced by `v` -/
def whereNotnullElse (x : PxSer) (v : Nat) : PxSer := x.map fun p => (p.1, match p.2 with | some a => some a | none => some v)

/-- scan for the first maximum among the non-NaN cells: position counter, best (index, value) so far -/
def argmaxGo : List PxVal → Nat → Option (Nat × Nat) → Option (Nat × Nat)
  | [], _, best => best
  | none :: vs, i, best => argmaxGo vs (i + 1) best
  | some v :: vs, i, none => argmaxGo vs (i + 1) (some (i, v))
  | some v :: vs, i, some (bi, bv) => argmaxGo vs (i + 1) (if v > bv then some (i, v) else some (bi, bv))

/-- `x.argmax("time")` (NaN skipped, first maximum): `ValueError` for an empty or all-NaN series -/
def argmaxTime (x : PxSer) : Except Exc Nat :=
  match argmaxGo (x.map (·.2)) 0 none with
  | some (i, _) => .ok i
  | none => .error .valueError

/-- `x.isel(time=i)`: positional, negative wraps, `IndexError` outside -/
def iselTime (x : PxSer) (i : Int) : Except Exc PxVal := getItem (x.map (·.2)) i

/-- `k + v` for an integer index `k` and a pixel value (NaN propagates) -/
def addIdxVal (k : Nat) (v : PxVal) : PxVal := v.map fun a => k + a

end Hdc.PyXr
