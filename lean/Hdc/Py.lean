/-
Python / NumPy semantics used by the models (no Mathlib).
-/
namespace Hdc.Py

/-- `round` half to even on rationals (np.round(x, 0), Python round) -/
def roundHalfEvenRat (x : Rat) : Int :=
  let f := x.floor
  let d := x - (f : Rat)
  if d < (1 : Rat) / 2 then f
  else if (1 : Rat) / 2 < d then f + 1
  else if f % 2 = 0 then f else f + 1

/-- the same on binary64 (exact: `x - floor x` is exact for |x| < 2^52) -/
def roundHalfEvenFloat (x : Float) : Float :=
  let f := x.floor
  let d := x - f
  if d < 0.5 then f
  else if 0.5 < d then f + 1
  else if (f / 2).floor * 2 == f then f else f + 1

/-- `np.searchsorted(a, v, 'left')` on a sorted list: number of entries `< v` -/
def searchLeft {β : Type} [LT β] [DecidableLT β] (a : List β) (v : β) : Nat :=
  (a.takeWhile fun x => decide (x < v)).length

/-- `np.searchsorted(a, v, 'right')`: number of entries `≤ v` (i.e. not `v < x`) -/
def searchRight {β : Type} [LT β] [DecidableLT β] (a : List β) (v : β) : Nat :=
  (a.takeWhile fun x => !decide (v < x)).length

/-- insertion into a sorted duplicate-free list -/
def insertUniq {β : Type} [LT β] [DecidableLT β] (x : β) : List β → List β
  | [] => [x]
  | a :: as => if x < a then x :: a :: as else if a < x then a :: insertUniq x as else a :: as

/-- `np.unique` (sorted distinct values) -/
def unique {β : Type} [LT β] [DecidableLT β] (xs : List β) : List β :=
  xs.foldr insertUniq []

/-- Python floor division / modulo on integers (`//`, `%`) for positive divisors coincide
    with Lean's `Int.fdiv`/`Int.fmod`; with `Int./` (`Int.div` T-rounding is *not* used). -/
def fdiv (a b : Int) : Int := Int.fdiv a b
def fmod (a b : Int) : Int := Int.fmod a b

end Hdc.Py
