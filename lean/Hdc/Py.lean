/-
Python / NumPy semantics used by the models (no Mathlib).
-/
namespace Hdc.Py

/-- `round` half to even on rationals (np.round(x, 0), Python round) -/
def roundHalfEvenRat (x : Rat) : Int :=
  let f := x.floor
  let d := x - (f : Rat)
  if d < (1 : Rat) / 2 then f
  else if (1 : Rat) / 2 < d then f + 1
  else if f % 2 = 0 then f else f + 1

/-- the same on binary64 (exact: `x - floor x` is exact for |x| < 2^52) -/
def roundHalfEvenFloat (x : Float) : Float :=
  let f := x.floor
  let d := x - f
  if d < 0.5 then f
  else if 0.5 < d then f + 1
  else if (f / 2).floor * 2 == f then f else f + 1

/-- `np.searchsorted(a, v, 'left')` on a sorted list: number of entries `< v` -/
def searchLeft {β : Type} [LT β] [DecidableLT β] (a : List β) (v : β) : Nat :=
  (a.takeWhile fun x => decide (x < v)).length

/-- `np.searchsorted(a, v, 'right')`: number of entries `≤ v` (i.e. not `v < x`) -/
def searchRight {β : Type} [LT β] [DecidableLT β] (a : List β) (v : β) : Nat :=
  (a.takeWhile fun x => !decide (v < x)).length

/-- insertion into a sorted duplicate-free list -/
def insertUniq {β : Type} [LT β] [DecidableLT β] (x : β) : List β → List β
  | [] => [x]
  | a :: as => if x < a then x :: a :: as else if a < x then a :: insertUniq x as else a :: as

/-- `np.unique` (sorted distinct values) -/
def unique {β : Type} [LT β] [DecidableLT β] (xs : List β) : List β :=
  xs.foldr insertUniq []

/-- Python floor division / modulo on integers (`//`, `%`) for positive divisors coincide
    with Lean's `Int.fdiv`/`Int.fmod`; with `Int./` (`Int.div` T-rounding is *not* used). -/
def fdiv (a b : Int) : Int := Int.fdiv a b
def fmod (a b : Int) : Int := Int.fmod a b

end Hdc.Py

namespace Hdc.Py

inductive PyErr where
  | valueError
  | assertionError
  | overflowError
  | typeError
  deriving DecidableEq, Repr

/-- Python slice `s[a:b]` on a string of ASCII characters (step 1; negative indices wrap) -/
def slice (s : String) (a b : Option Int) : String :=
  let cs := s.toList
  let n : Int := cs.length
  let norm (i : Int) : Nat := (if i < 0 then max 0 (i + n) else min i n).toNat
  let lo := match a with | none => 0 | some i => norm i
  let hi := match b with | none => cs.length | some i => norm i
  String.ofList ((cs.drop lo).take (hi - lo))

/-- `int(s)` for a non-empty string of ASCII decimal digits (what the label grammar produces);
    anything else is a ValueError in this model (Python additionally accepts signs, blanks, underscores
    and non-ASCII digits: out of model) -/
def int (s : String) : Except PyErr Int :=
  let cs := s.toList
  if cs.isEmpty then .error .valueError
  else if cs.all Char.isDigit then .ok (cs.foldl (fun acc c => acc * 10 + ((c.toNat - '0'.toNat : Nat) : Int)) 0)
  else .error .valueError

/-- decimal digits of a natural number -/
def digits (n : Nat) : List Char := (Nat.toDigits 10 n)

/-- `format(v, "0{w}d")`: zero padded to width `w`, sign counted in the width -/
def fmtInt (w : Nat) (v : Int) : String :=
  let ds := digits v.natAbs
  let sign := if v < 0 then ['-'] else []
  let pad := List.replicate (w - (ds.length + sign.length)) '0'
  String.ofList (sign ++ pad ++ ds)

def assert (c : Bool) : Except PyErr Unit := if c then .ok () else .error .assertionError

end Hdc.Py
