/-
PySafeT  Hand-written, kernel-independent predicates used by the INSTRUMENTED translations of harness/py2lean_stats.py
(class `SafeKN`, the float kernels of ops/stats.py) in addition to those of Hdc/PySafe.lean.  No Mathlib, no model, no kernel.

  `negLen n`   an allocation `np.ones(n)` / `np.zeros(n)` with an integer length `n < 0`
               (NumPy and Numba both raise `ValueError: negative dimensions (are) not allowed`)
-/
namespace Hdc

/-- `np.ones(n)` / `np.zeros(n)` raises ValueError: the length is negative -/
def negLen (n : Int) : Bool := decide (n < 0)

theorem negLen_eq_false {n : Int} (h : 0 ≤ n) : negLen n = false := by
  simp [negLen, h]

theorem negLen_eq_false_iff {n : Int} : negLen n = false ↔ 0 ≤ n := by
  simp [negLen]

theorem negLen_eq_true_iff {n : Int} : negLen n = true ↔ n < 0 := by
  simp [negLen]

end Hdc
