import Hdc.PySafe
import Hdc.PyNpS
/-
PySafeS  Hand-written, kernel-independent predicates used by the INSTRUMENTED translations of the SPI kernels
(`Hdc/Gen/SafeGammastdGrp.lean`, `SafeGammastdYxt.lean`, written by the class `SafeS` of harness/py2lean_spi.py), on top of
`Hdc/PySafe.lean` (`oob`, `badSlice`) and the combinators of `Hdc/PyNpS.lean`.  No Mathlib, no model, no kernel.

  `oob2 c i j`        the subscript `c[i, j]` of a 2-d array, and `x[r, c, :]` (read or store) of a 3-d array, both stored as
                      rows: IndexError unless `-rows ≤ i < rows` and `-cols ≤ j < cols`.  The carrier is ragged
                      (`Array (Array β)`), so `cols` is the length of the ACTUAL row `i` (after Python's wrap-around).
  `badMask n k`       `a[m]`, `a[m] = v`, `a[m] = vals` with a boolean mask of length `k` on an array of length `n ≠ k`
                      (NumPy: "boolean index did not match indexed array"; the combinators stop at the shorter one)
  `badMaskSet m k`    `a[m] = vals` with `len vals = k` different from the number of True cells of `m` (NumPy: "cannot assign k
                      input values to the … output values where the mask is true"; NumPy would broadcast `k = 1`, the
                      combinator `npMaskSet` does not, so this case is flagged as well)
  `badLen n k`        an assignment between two 1-d arrays of different lengths (`y[r, c, :] = row`, `a[:] = b`,
                      `np.round(z, 0, out)`): NumPy "could not broadcast"
-/
namespace Hdc
open Hdc.Gen.NumKernels (ix)

/-- `c[i, j]` / `x[i, j, :]` raises IndexError: `i` is not a row, or `j` is not a column of that row -/
def oob2 {β : Type} (c : Array (Array β)) (i j : Int) : Bool :=
  oob c.size i || oob (c.getD (ix c.size i) #[]).size j

/-- a boolean mask of length `k` on an array of length `n` -/
def badMask (n k : Nat) : Bool := !(decide (n = k))

/-- `a[m] = vals` with `len vals = k`: the mask does not select exactly `k` cells -/
def badMaskSet (m : Array Bool) (k : Nat) : Bool := !(decide (npCount m = (k : Int)))

/-- an array of length `k` assigned to an array (a series, a full slice) of length `n` -/
def badLen (n k : Nat) : Bool := !(decide (n = k))

theorem oob2_eq_false_iff {β : Type} {c : Array (Array β)} {i j : Int} :
    oob2 c i j = false ↔ (oob c.size i = false ∧ oob (c.getD (ix c.size i) #[]).size j = false) := by
  simp [oob2]

theorem badMask_eq_false_iff {n k : Nat} : badMask n k = false ↔ n = k := by simp [badMask]

theorem badMaskSet_eq_false_iff {m : Array Bool} {k : Nat} : badMaskSet m k = false ↔ npCount m = (k : Int) := by
  simp [badMaskSet]

theorem badLen_eq_false_iff {n k : Nat} : badLen n k = false ↔ n = k := by simp [badLen]

end Hdc
