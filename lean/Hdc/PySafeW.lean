import Hdc.PySafe
/-
PySafeW  Hand-written, kernel-independent predicates used by the INSTRUMENTED translations of the kernels that mix loops with
NumPy vector idioms (`Hdc/Gen/SafeWs2dwcv.lean`, `SafeWs2dwcvp.lean`, written by the `safe` mode of harness/py2lean_wcv.py), in
addition to those of Hdc/PySafe.lean.  No Mathlib, no model, no kernel: only lengths.

  `lenNe n m`            a NumPy operation that combines two 1-d arrays of lengths `n`, `m` cell by cell: `a ∘ b`, `np.where(c, a, b)`,
                         `a[mask]`, `a[mask] = c`, `a[:] = b[:]`, `np.round(z, 0, out)`.  Flagged when the lengths DIFFER.  NumPy raises
                         ValueError / IndexError then, except that it broadcasts an operand of length 1; the combinators of
                         Hdc/PyNpW.lean (`npMap2` = `zipWith`, ...) do not model broadcasting of arrays, so that case is flagged as well.
  `sliceLenNe lo hi k`   a slice store `a[lo:hi] = b` with `len b = k ≠ hi - lo` (the slice itself is checked by `badSlice`)
  `emptyArr n`           `np.max(a)` / `np.min(a)` of an array of length 0 (ValueError: zero-size array to reduction operation)
-/
namespace Hdc

/-- two arrays that a NumPy operation combines cell by cell differ in length -/
def lenNe (n m : Nat) : Bool := !(decide (n = m))

/-- `a[lo:hi] = b` with `len b = k`: the number of cells of the slice is not `k` -/
def sliceLenNe (lo hi : Int) (k : Nat) : Bool := !(decide (hi - lo = (k : Int)))

/-- a reduction without identity (`np.max`, `np.min`) of an array of length `n = 0` -/
def emptyArr (n : Nat) : Bool := decide (n = 0)

theorem lenNe_eq_false_iff {n m : Nat} : lenNe n m = false ↔ n = m := by
  simp [lenNe]

theorem lenNe_self (n : Nat) : lenNe n n = false := by
  simp [lenNe]

theorem sliceLenNe_eq_false_iff {lo hi : Int} {k : Nat} : sliceLenNe lo hi k = false ↔ hi - lo = (k : Int) := by
  simp [sliceLenNe]

theorem emptyArr_eq_false_iff {n : Nat} : emptyArr n = false ↔ n ≠ 0 := by
  simp [emptyArr]

end Hdc
