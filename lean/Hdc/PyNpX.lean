import Hdc.PyNpT
/-
PyNpX  NumPy idioms on n-d arrays as generic Lean combinators.  HAND-WRITTEN, kernel independent.

Used by harness/py2lean_ac.py and harness/py2lean_tyx.py.  An n-d array is its row-major flattening together with its
dimensions (as in Hdc/PyNpT.lean: `flat2`, `flat3`).

  `a[:, j, k]`   (shape (d0, d1, d2))  -> npCol3 a dflt d0 d1 d2 j k      a COPY of the d0 cells (the translators use it only for
  `a[i, j, :]`                         -> npRow3 a dflt d0 d1 d2 i j      arrays the function never writes, where view = copy)
  `a[:] = b`     (1-d, same cell type) -> npSetAll a b                    NumPy raises on a shape mismatch; the translation keeps `a`
  `np.round(z, 0, out[:, j, k])`       -> npRoundIntoCol3 rnd z out d0 d1 d2 j k     (`rnd` = round half-even, then the cast to
                                                                          the cell type of `out`); mismatch: `out` is kept
Lemmas: Hdc/Lemmas/PyNpX.lean.
-/
namespace Hdc.PyNpX
open Hdc.PyNpT (flat2 flat3 rdD wrG)

/-- `a[:, j, k]` of an array of shape `(d0, d1, d2)`: the `d0` cells, copied -/
def npCol3 {γ : Type} (a : Array γ) (dflt : γ) (d0 d1 d2 j k : Int) : Array γ :=
  ((List.range d0.toNat).map fun (t : Nat) => rdD a (flat3 d0 d1 d2 (t : Int) j k) dflt).toArray

/-- `a[i, j, :]` of an array of shape `(d0, d1, d2)`: the `d2` cells, copied -/
def npRow3 {γ : Type} (a : Array γ) (dflt : γ) (d0 d1 d2 i j : Int) : Array γ :=
  ((List.range d2.toNat).map fun (t : Nat) => rdD a (flat3 d0 d1 d2 i j (t : Int)) dflt).toArray

/-- `a[:] = b` for 1-d arrays of the same cell type -/
def npSetAll {γ : Type} (a b : Array γ) : Array γ := if b.size = a.size then b else a

/-- `np.round(z, 0, out[:, j, k])`: cell `t` of the column gets `rnd z[t]` -/
def npRoundIntoCol3 {β γ : Type} (rnd : β → γ) (z : Array β) (out : Array γ) (d0 d1 d2 j k : Int) : Array γ :=
  if z.size = d0.toNat then
    z.toList.zipIdx.foldl (fun o p => wrG o (flat3 d0 d1 d2 (p.2 : Int) j k) (rnd p.1)) out
  else out

end Hdc.PyNpX
