import Hdc.Py
/-
Hand model of the parts of CPython's `datetime` module that `hdc/algo/dekad.py` uses:
proleptic Gregorian ordinals (`_ymd2ord`, `_ord2ymd`), `datetime(y, m, d)`, `datetime - timedelta`,
`datetime - datetime`, `timedelta + timedelta`, `.days`.  Range 0001-01-01 .. 9999-12-31.
Validated against CPython on every day of the range by the C11 check.
-/
namespace Hdc.PyDate
open Hdc.Py

def isLeap (y : Int) : Bool := y % 4 = 0 ∧ (y % 100 ≠ 0 ∨ y % 400 = 0)

def daysInMonth (y m : Int) : Int :=
  if m = 2 then (if isLeap y then 29 else 28)
  else if m = 4 ∨ m = 6 ∨ m = 9 ∨ m = 11 then 30 else 31

/-- `_DAYS_BEFORE_MONTH[m]` (non-leap) -/
def daysBeforeMonthTbl (m : Int) : Int :=
  match m with
  | 1 => 0 | 2 => 31 | 3 => 59 | 4 => 90 | 5 => 120 | 6 => 151
  | 7 => 181 | 8 => 212 | 9 => 243 | 10 => 273 | 11 => 304 | 12 => 334 | _ => 0

def daysBeforeMonth (y m : Int) : Int :=
  daysBeforeMonthTbl m + (if 2 < m ∧ isLeap y then 1 else 0)

def daysBeforeYear (y : Int) : Int :=
  let y := y - 1
  y * 365 + y / 4 - y / 100 + y / 400

def maxOrdinal : Int := 3652059

/-- `_ymd2ord` -/
def ymd2ord (y m d : Int) : Int := daysBeforeYear y + daysBeforeMonth y m + d

/-- `_ord2ymd` (CPython's algorithm, literally) -/
def ord2ymd (n : Int) : Int × Int × Int :=
  let n := n - 1
  let n400 := n / 146097
  let n := n % 146097
  let year := n400 * 400 + 1
  let n100 := n / 36524
  let n := n % 36524
  let n4 := n / 1461
  let n := n % 1461
  let n1 := n / 365
  let n := n % 365
  let year := year + n100 * 100 + n4 * 4 + n1
  if n1 = 4 ∨ n100 = 4 then (year - 1, 12, 31)
  else
    let leapyear : Bool := n1 = 3 ∧ (n4 ≠ 24 ∨ n100 = 3)
    let month := (n + 50) / 32
    let preceding := daysBeforeMonthTbl month + (if 2 < month ∧ leapyear then 1 else 0)
    if n < preceding then
      let month := month - 1
      let preceding := preceding - ((if month = 2 then 28 else if month = 4 ∨ month = 6 ∨ month = 9 ∨ month = 11 then 30 else 31)
                          + (if month = 2 ∧ leapyear then 1 else 0))
      (year, month, n - preceding + 1)
    else (year, month, n - preceding + 1)

def usPerDay : Int := 86400000000

/-- an aware-less `datetime`: ordinal of the day and microsecond of the day -/
structure DateTime where
  ord : Int
  us : Int
  deriving DecidableEq, Repr

/-- a `timedelta` as total microseconds -/
structure TimeDelta where
  total : Int
  deriving DecidableEq, Repr

/-- `datetime(year, month, day)` -/
def datetime (y m d : Int) : Except PyErr DateTime :=
  if y < 1 ∨ 9999 < y then .error .valueError
  else if m < 1 ∨ 12 < m then .error .valueError
  else if d < 1 ∨ daysInMonth y m < d then .error .valueError
  else .ok ⟨ymd2ord y m d, 0⟩

def DateTime.totalUs (t : DateTime) : Int := t.ord * usPerDay + t.us

/-- `datetime ± timedelta` (OverflowError outside the representable range) -/
def DateTime.addDelta (t : DateTime) (dlt : TimeDelta) : Except PyErr DateTime :=
  let tot := t.totalUs + dlt.total
  let days := tot / usPerDay
  if 0 < days ∧ days ≤ maxOrdinal then .ok ⟨days, tot % usPerDay⟩ else .error .overflowError

def DateTime.subDelta (t : DateTime) (dlt : TimeDelta) : Except PyErr DateTime :=
  t.addDelta ⟨-dlt.total⟩

/-- `datetime - datetime` -/
def DateTime.diff (a b : DateTime) : TimeDelta := ⟨a.totalUs - b.totalUs⟩

def TimeDelta.add (a b : TimeDelta) : TimeDelta := ⟨a.total + b.total⟩

/-- `timedelta.days` (floor) -/
def TimeDelta.days (a : TimeDelta) : Int := a.total / usPerDay

def microseconds (k : Int) : TimeDelta := ⟨k⟩

/-- civil fields of a datetime -/
def DateTime.ymd (t : DateTime) : Int × Int × Int := ord2ymd t.ord

end Hdc.PyDate
