import Hdc.Num
import Hdc.Py
/-
Models of the run-length, rolling, grouped, zonal and iterative-aggregation kernels:
  ops/lroo.py::lroo, accessors.py::croo (xarray pipeline), ops/stats.py::rolling_sum, mean_grp,
  ops/zonal.py::do_mean, accessors.py::_iteragg, utils.py::get_calibration_indices, to_linspace.
-/
namespace Hdc

/-! ### lroo -/

/-- `np.where(data == 1)[0]` -/
def dotsFrom : Nat → List Nat → List Nat
  | _, [] => []
  | i, x :: xs => if x = 1 then i :: dotsFrom (i + 1) xs else dotsFrom (i + 1) xs

/-- the loop over consecutive dots: previous dot, `cr`, `mr` -/
def lrooLoop : Nat → Nat → Nat → List Nat → Nat
  | _, _, mr, [] => mr
  | prev, cr, mr, d :: ds =>
    if d - prev = 1 then
      let cr' := cr + 1
      lrooLoop d cr' (if cr' > mr then cr' else mr) ds
    else lrooLoop d 1 mr ds

/-- the value `mr` holds after the loop -/
def lrooRaw (data : List Nat) : Nat :=
  match dotsFrom 0 data with
  | [] => 0
  | d :: ds => lrooLoop d 1 0 ds

/-- value assigned to `out[0]` before the cast -/
def lroo (data : List Nat) : Nat :=
  let mr := lrooRaw data
  if mr > 1 then mr else 0

/-- the store into a two's-complement output of `bits` bits (int32 after the repair;
    `wrapU 8` was the uint8 output of the pinned tree) -/
def wrapS (bits : Nat) (v : Nat) : Int :=
  let m := v % 2 ^ bits
  if m < 2 ^ (bits - 1) then (m : Int) else (m : Int) - (2 ^ bits : Nat)
def wrapU (bits : Nat) (v : Nat) : Nat := v % 2 ^ bits

/-! ### croo: sortby(time, descending) ∘ where(==1) ∘ cumsum(skipna=False) ∘ where(notnull, 0) ∘ argmax, + first -/

/-- cumulative sum with NaN propagation over `where(x == 1)`: `some k` while all ones so far -/
def crooCum : Option Nat → List Nat → List (Option Nat)
  | _, [] => []
  | acc, x :: xs =>
    let acc' := match acc with
      | some k => if x = 1 then some (k + 1) else none
      | none => none
    acc' :: crooCum acc' xs

/-- `argmax` (first index of the maximum) -/
def argmaxFirst : List Nat → Nat
  | [] => 0
  | x :: xs => (xs.foldl (fun (st : Nat × Nat × Nat) v =>
      let (bi, bv, i) := st
      if v > bv then (i, v, i + 1) else (bi, bv, i + 1)) (0, x, 1)).1

/-- croo on a series already sorted newest-first -/
def crooSorted (s : List Nat) : Nat :=
  argmaxFirst ((crooCum (some 0) s).map fun o => o.getD 0) + s.headD 0

/-- stable insertion sort of (time, value) pairs by descending time -/
def insertDesc (p : Int × Nat) : List (Int × Nat) → List (Int × Nat)
  | [] => [p]
  | q :: qs => if q.1 < p.1 then p :: q :: qs else q :: insertDesc p qs

def sortDesc (ps : List (Int × Nat)) : List (Int × Nat) := ps.foldr insertDesc []

/-- croo on stored (time, value) pairs in any order -/
def croo (ps : List (Int × Nat)) : Nat := crooSorted ((sortDesc ps).map (·.2))

/-! ### rolling_sum (after the repair: sum of the valid cells, nodata when none) -/

/-- `yy[ii]` for every `ii`; values over `Int` (exact) -/
def rollingSum (xx : List Int) (window : Nat) (nodata : Int) : List Int :=
  (List.range xx.length).map fun ii =>
    if ii + 1 < window then nodata
    else
      let win := (xx.drop (ii + 1 - window)).take window
      let valid := win.filter fun v => v ≠ nodata
      if valid.length = 0 then nodata else valid.foldl (· + ·) 0

/-- the accessor drops the first `window - 1` positions -/
def rollingSumAcc (xx : List Int) (window : Nat) (nodata : Int) : List Int :=
  (rollingSum xx window nodata).drop (window - 1)

/-- the pinned tree's loop (kept for the negation witness F6) -/
def rollingSumPinned (xx : List Int) (window : Nat) (nodata : Int) : List Int :=
  (List.range xx.length).map fun ii =>
    if ii + 1 < window then nodata
    else
      ((xx.drop (ii + 1 - window)).take window).foldl
        (fun acc v => if v = nodata then nodata else acc + v) 0

/-! ### mean_grp -/

/-- per group: sum and count of non-nodata cells -/
def grpStats (xx : List Int) (groups : List Int) (nodata : Int) (g : Int) : Int × Nat :=
  ((xx.zip groups).filter fun (v, k) => k = g ∧ v ≠ nodata).foldl
    (fun (acc : Int × Nat) (p : Int × Int) => (acc.1 + p.1, acc.2 + 1)) (0, 0)

/-- output cell: `none` = never written (label outside 0..num_groups-1),
    otherwise `(sum, count)` with count 0 meaning nodata -/
def meanGrp (xx : List Int) (groups : List Int) (numGroups : Nat) (nodata : Int) :
    List (Option (Int × Nat)) :=
  groups.map fun k =>
    if 0 ≤ k ∧ k < (numGroups : Int) then some (grpStats xx groups nodata k) else none

/-! ### zonal mean (after the repair: float64 sum, int64 count) -/

/-- sum and count for zone `k` over one time step (pixels flattened row-major) -/
def zoneStats (pix : List Int) (zones : List Int) (nodata znodata : Int) (k : Int) : Int × Nat :=
  ((pix.zip zones).filter fun (v, z) => v ≠ nodata ∧ z ≠ znodata ∧ z = k).foldl
    (fun (acc : Int × Nat) (p : Int × Int) => (acc.1 + p.1, acc.2 + 1)) (0, 0)

def zonalMean (pix : List Int) (zones : List Int) (numZones : Nat) (nodata znodata : Int) :
    List (Int × Nat) :=
  (List.range numZones).map fun (k : Nat) => zoneStats pix zones nodata znodata (Int.ofNat k)

/-! ### iterative aggregation -/

/-- the `for ii in range(begin_ix, 0, -1)` loop: windows `(jj, ii)` as slices `[jj, ii)` -/
def iterWindows (n : Nat) (endIx : Nat) : Nat → List (Nat × Nat)
  | 0 => []
  | ii + 1 =>
    if ii + 1 ≤ endIx then []
    else if n ≤ ii + 1 then (ii + 1 - n, ii + 1) :: iterWindows n endIx ii
    else iterWindows n endIx ii

inductive AggErr where
  | valueError
  deriving DecidableEq, Repr

/-- `_iteragg` index logic.  `beginLoc`/`endLoc`: `none` = argument not given,
    `some r` = result of `get_indexer` (−1 when the label is not located). -/
def iterAgg (size n : Nat) (beginLoc endLoc : Option Int) : Except AggErr (List (Nat × Nat)) :=
  let b : Except AggErr Nat := match beginLoc with
    | none => .ok size
    | some r => if r + 1 = 0 then .error .valueError else .ok (r + 1).toNat
  let e : Except AggErr Nat := match endLoc with
    | none => .ok 0
    | some r => if r < 0 then .error .valueError else .ok r.toNat
  match b, e with
  | .ok b, .ok e => .ok (iterWindows n e b)
  | .error x, _ => .error x
  | _, .error x => .error x

/-! ### calibration window, label linearisation -/

/-- `get_calibration_indices` without groups on a sorted axis of integer timestamps -/
def calIndices (time : List Int) (b e : Int) : Nat × Nat :=
  (Py.searchLeft time b, Py.searchRight time e)

/-- with groups: per group the indices within the group's sub-axis -/
def calIndicesGrp (time : List Int) (groups : List Nat) (numGroups : Nat) (b e : Int) :
    List (Nat × Nat) :=
  (List.range numGroups).map fun g =>
    calIndices (((time.zip groups).filter fun (_, k) => k = g).map (·.1)) b e

/-- `to_linspace`: index of each label among the sorted distinct labels -/
def toLinspace {β : Type} [LT β] [DecidableLT β] (x : List β) : List Nat × List β :=
  let keys := Py.unique x
  (x.map fun v => Py.searchLeft keys v, keys)

/-- the accessor's validation of the calibration window (`PixelAlgorithms.spi`, no groups):
    `error` = ValueError.  `time` is the sorted axis, `b`/`e` the requested bounds
    (`none` = default: first / last step). -/
def spiWindow (time : List Int) (b e : Option Int) : Except AggErr (Nat × Nat) :=
  match time.head?, time.getLast? with
  | some t0, some tl =>
    let b := b.getD t0
    let e := e.getD tl
    if tl < b then .error .valueError
    else if e < t0 then .error .valueError
    else
      let (i, j) := calIndices time b e
      if j ≤ i then .error .valueError
      else if j - i ≤ 1 then .error .valueError
      else .ok (i, j)
  | _, _ => .error .valueError

/-- with groups: every group's window must hold at least two steps -/
def spiWindowGrp (time : List Int) (groups : List Nat) (numGroups : Nat) (b e : Option Int) :
    Except AggErr (List (Nat × Nat)) :=
  match time.head?, time.getLast? with
  | some t0, some tl =>
    let b := b.getD t0
    let e := e.getD tl
    if tl < b then .error .valueError
    else if e < t0 then .error .valueError
    else
      let ws := calIndicesGrp time groups numGroups b e
      if ws.any (fun (i, j) => j ≤ i) then .error .valueError
      else if ws.any (fun (i, j) => j - i ≤ 1) then .error .valueError
      else .ok ws
  | _, _ => .error .valueError

/-- recorded attributes: first step ≥ begin and last step ≤ end -/
def spiAttrs (time : List Int) (b e : Int) : Option Int × Option Int :=
  ((time.filter fun t => b ≤ t).head?, (time.filter fun t => t ≤ e).getLast?)

end Hdc
