import Hdc.Model.Smooth
import Hdc.Py
/-
Models of ops/stats.py (Mann-Kendall, gamma fit / SPI), ops/autocorr.py, ops/tinterpolate.py.
-/
namespace Hdc
variable {α : Type} [Add α] [Sub α] [Mul α] [Div α] [Neg α] [NatCast α] [LT α] [DecidableLT α]

/-! ### Mann-Kendall -/

/-- `mk_score`: (#concordant, #discordant) over pairs k < kk -/
def mkCounts : List α → Nat × Nat
  | [] => (0, 0)
  | x :: xs =>
    let (a, b) := mkCounts xs
    (a + (xs.filter fun v => decide (x < v)).length, b + (xs.filter fun v => decide (v < x)).length)

def mkS (x : List α) : Int := ((mkCounts x).1 : Int) - ((mkCounts x).2 : Int)

/-- tau = s / (0.5 n (n-1)); `half` is the literal 0.5 -/
def mkTau (half : α) (x : List α) (ofInt : Int → α) : α :=
  ofInt (mkS x) / (half * nat x.length * nat (x.length - 1))

/-- sizes of the tie groups, in order of the distinct values -/
def tieSizes (x : List α) : List Nat :=
  (Py.unique x).map fun u => (x.filter fun v => eqv u v).length

/-- 18 · Var(S) as an integer (`mk_variance_s` returns this / 18) -/
def mkVar18 (x : List α) : Int :=
  let n : Int := x.length
  let ts := tieSizes x
  if ts.length = x.length then n * (n - 1) * (2 * n + 5)
  else n * (n - 1) * (2 * n + 5) - (ts.map fun (t : Nat) => (Int.ofNat t * (Int.ofNat t - 1) * (2 * Int.ofNat t + 5))).foldl (· + ·) 0

structure MKFns (α : Type) where
  sqrt : α → α
  erf : α → α
  half : α        -- 0.5
  zcrit : α       -- ndtri(1 - 0.05/2)
  ofInt : Int → α

/-- `mk_z_score` -/
def mkZ (F : MKFns α) (s : Int) (vs : α) : α :=
  if 0 < s then F.ofInt (s - 1) / F.sqrt vs
  else if s < 0 then F.ofInt (s + 1) / F.sqrt vs
  else nat 0

/-- `mk_p_value`: (p, h) -/
def mkP (F : MKFns α) (z : α) : α × Bool :=
  (nat 2 * (nat 1 - (F.half * (nat 1 + F.erf (absv z * F.sqrt F.half)))), decide (F.zcrit < absv z))

/-- all pairwise slopes `(x[j] - x[i]) / (j - i)`, i < j, in the source's order -/
def slopesFrom : Nat → List α → List α
  | _, [] => []
  | i, x :: xs => (xs.zipIdx.map fun (v, k) => (v - x) / nat (k + 1)) ++ slopesFrom (i + 1) xs

def sensSlope (x : List α) : α := median (slopesFrom 0 x)

/-- `mann_kendall_trend_1d`: (tau, p, slope, trend) -/
def mkTrend (F : MKFns α) (x : List α) : α × α × α × Int :=
  let s := mkS x
  let tau := mkTau F.half x F.ofInt
  let vs := F.ofInt (mkVar18 x) / nat 18
  let z := mkZ F s vs
  let (p, h) := mkP F z
  let slope := sensSlope x
  let trend : Int := if !h then 0 else if nat 0 < z then 1 else if z < nat 0 then -1 else 0
  (tau, p, slope, trend)

/-! ### lag-1 autocorrelation (after the repair) -/

structure ACSums (α : Type) where
  sxy : α
  sx_ : α
  sy_ : α
  nxy : Nat
  sx : α
  sxx : α
  nx : Nat
  sy : α
  syy : α
  ny : Nat

/-- accumulation over pairs (x_i, y_i) = (data[i], data[i+1]); `none` = missing cell -/
def acAccum : List (Option α) → ACSums α → ACSums α
  | a :: b :: rest, s =>
    let s1 := match a with
      | some x => { s with sx := s.sx + x, sxx := s.sxx + x * x, nx := s.nx + 1 }
      | none => s
    let s2 := match b with
      | some y => { s1 with sy := s1.sy + y, syy := s1.syy + y * y, ny := s1.ny + 1 }
      | none => s1
    let s3 := match a, b with
      | some x, some y => { s2 with sx_ := s2.sx_ + x, sy_ := s2.sy_ + y, sxy := s2.sxy + x * y, nxy := s2.nxy + 1 }
      | _, _ => s2
    acAccum (b :: rest) s3
  | _, s => s

def ACSums.zero : ACSums α := ⟨nat 0, nat 0, nat 0, 0, nat 0, nat 0, 0, nat 0, nat 0, 0⟩

/-- `autocorr_1d`; `rsqrt x` = `x ** -0.5`, `eps` = 1e-8 -/
def autocorr1d (rsqrt : α → α) (eps : α) (data : List (Option α)) : α :=
  let s := acAccum data ACSums.zero
  if s.nxy = 0 then nat 0
  else
    let a := (nat (s.nx * s.ny)) * s.sxy - nat s.ny * s.sx * s.sy_ - nat s.nx * s.sy * s.sx_
              + nat s.nxy * s.sx * s.sy
    let vx := (nat s.nx * s.sxx - s.sx * s.sx) * nat s.nx
    let vy := (nat s.ny * s.syy - s.sy * s.sy) * nat s.ny
    if vx < eps ∨ vy < eps then nat 0
    else a * rsqrt vx * rsqrt vy

/-! ### temporal interpolation -/

/-- scatter the observations at the marks of the template; the last cell gets `x[-1]` -/
def scatterMarks : List α → List α → List α
  | [], _ => []
  | t :: ts, xs =>
    if eqv t (nat 0) then t :: scatterMarks ts xs
    else match xs with
      | x :: xs' => x :: scatterMarks ts xs'
      | [] => t :: scatterMarks ts []

def setLast (l : List α) (v : α) : List α :=
  match l.reverse with
  | [] => []
  | _ :: r => (v :: r).reverse

/-- run-length means of `z` over runs of equal labels: (sum, count) per run -/
def runMeans : List (Int × α) → Option (Int × α × Nat) → List (α × Nat)
  | [], none => []
  | [], some (_, v, k) => [(v, k)]
  | (l, z) :: rest, none => runMeans rest (some (l, z, 1))
  | (l, z) :: rest, some (l0, v, k) =>
    if l = l0 then runMeans rest (some (l0, v + z, k + 1))
    else (v, k) :: runMeans rest (some (l, z, 1))

/-- `tinterpolate`: per label run (sum of the daily curve, days); the band is round(sum/days) -/
def tinterp (lam : α) (x : List α) (template : List α) (labels : List Int) : List (α × Nat) :=
  let temp := setLast (scatterMarks template x) (x.getLastD (nat 0))
  let z := ws2d temp lam template
  runMeans (labels.zip z) none

/-! ### gamma fit / SPI -/

structure GamFns (α : Type) where
  log : α → α
  sqrt : α → α
  /-- root of `log a - digamma a - s` in the bracket; 0 = no sign change -/
  root : α → α → α → α
  gammainc : α → α → α
  ndtri : α → α
  c04 : α     -- 0.4
  c09 : α     -- 0.9

/-- `gammafit`: (α, β); (0,0) = not fittable -/
def gammafit (F : GamFns α) (x : List α) : α × α :=
  let pos := x.filter fun v => decide (nat 0 < v)
  let n := pos.length
  if n = 0 then (nat 0, nat 0)
  else
    let xts := sumF pos
    let logs := sumF (pos.map F.log)
    let xbar := xts / nat n
    let s := F.log xbar - logs / nat n
    if eqv s (nat 0) then (nat 0, nat 0)
    else
      let aest := (nat 3 - s + F.sqrt ((s - nat 3) * (s - nat 3) + nat 24 * s)) / (nat 12 * s)
      let a := F.root (aest * (nat 1 - F.c04)) (aest * (nat 1 + F.c04)) s
      if eqv a (nat 0) then (nat 0, nat 0) else (a, xbar / a)

/-- `gammastd` (after the repair): per cell `none` = nodata, `some v` = standardised value -/
def gammastd (F : GamFns α) (x : List α) (nodata : α) (calStart calStop : Nat) : List (Option α) :=
  let notnd := x.filter fun v => !(eqv v nodata)
  let nzero := (notnd.filter fun v => eqv v (nat 0)).length
  let nvalid := (notnd.filter fun v => !(decide (v < nat 0))).length
  let allnd := x.map fun _ => (none : Option α)
  if nvalid = 0 then allnd
  else
    let p0 : α := nat nzero / nat nvalid
    if F.c09 < p0 then allnd
    else
      let (a, b) := gammafit F ((x.drop calStart).take (calStop - calStart))
      if eqv a (nat 0) ∨ eqv b (nat 0) then allnd
      else x.map fun v =>
        if eqv v nodata then none
        else if v < nat 0 then none
        else some (F.ndtri (p0 + (nat 1 - p0) * F.gammainc a (v / b)))

/-- scaling by 1000 with saturation at the int16 limits (before rounding) -/
def spiScale (lo hi thousand : α) (v : α) : α :=
  let t := v * thousand
  let t := if t < lo then lo else t     -- max(t, lo)
  if hi < t then hi else t              -- min(t, hi)

/-- int16 cell of the SPI output: nodata, or the saturated, rounded index -/
def spiCell (rnd : α → α) (lo hi thousand nodata : α) : Option α → α
  | none => nodata
  | some v => rnd (spiScale lo hi thousand v)

/-- `x[groups == g]` -/
def gatherGrp {β : Type} (xx : List β) (groups : List Nat) (g : Nat) : List β :=
  ((xx.zip groups).filter fun (_, k) => k = g).map (·.1)

/-- `yy[groups == g] = vals` (in order); cells of other groups keep their content -/
def scatterGrp {β : Type} (g : Nat) : List Nat → List β → List (Option β) → List (Option β)
  | k :: ks, vals, o :: os =>
    if k = g then
      match vals with
      | v :: vs => some v :: scatterGrp g ks vs os
      | [] => o :: scatterGrp g ks [] os
    else o :: scatterGrp g ks vals os
  | _, _, os => os

/-- `gammastd_grp`: outer `none` = never written (label outside 0..num_groups-1) -/
def gammastdGrp (F : GamFns α) (xx : List α) (groups : List Nat) (numGroups : Nat) (nodata : α)
    (cal : List (Nat × Nat)) : List (Option (Option α)) :=
  (List.range numGroups).foldl (fun out g =>
    let c := cal.getD g (0, 0)
    scatterGrp g groups (gammastd F (gatherGrp xx groups g) nodata c.1 c.2) out)
    (xx.map fun _ => none)

/-! ### Brent's root finder (`brentq`), parametric in the function -/

structure BState (α : Type) where
  xpre : α
  xcur : α
  xblk : α
  fpre : α
  fcur : α
  fblk : α
  spre : α
  scur : α

def minv (a b : α) : α := if b < a then b else a

/-- the trial step: secant (`xpre == xblk`) or inverse quadratic extrapolation -/
def brentTry (s : BState α) : α :=
  if eqv s.xpre s.xblk then -s.fcur * (s.xcur - s.xpre) / (s.fcur - s.fpre)
  else
    let dpre := (s.fpre - s.fcur) / (s.xpre - s.xcur)
    let dblk := (s.fblk - s.fcur) / (s.xblk - s.xcur)
    let stry := -s.fcur * (s.fblk * dblk - s.fpre * dpre) / (dblk * dpre * (s.fblk - s.fpre))
    stry

/-- choice of (spre, scur): short interpolation step or bisection -/
def brentChoose (s : BState α) (delta sbis : α) : BState α :=
  if delta < absv s.spre ∧ absv s.fcur < absv s.fpre then
    if nat 2 * absv (brentTry s) < minv (absv s.spre) (nat 3 * absv sbis - delta) then
      { s with spre := s.scur, scur := brentTry s }
    else { s with spre := sbis, scur := sbis }
  else { s with spre := sbis, scur := sbis }

/-- re-bracketing at the top of the loop body -/
def brentBracket (s : BState α) : BState α :=
  let s1 : BState α := if s.fpre * s.fcur < nat 0 then
      { s with xblk := s.xpre, fblk := s.fpre, spre := s.xcur - s.xpre, scur := s.xcur - s.xpre }
    else s
  if absv s1.fblk < absv s1.fcur then
    { s1 with xpre := s1.xcur, xcur := s1.xblk, xblk := s1.xcur, fpre := s1.fcur, fcur := s1.fblk, fblk := s1.fcur }
  else s1

/-- one pass of the loop body: `.inl x` = return x, `.inr s` = next state -/
def brentStep (f : α → α) (xtol rtol : α) (s0 : BState α) : Sum α (BState α) :=
  let s := brentBracket s0
  let delta := (xtol + rtol * absv s.xcur) / nat 2
  let sbis := (s.xblk - s.xcur) / nat 2
  if eqv s.fcur (nat 0) ∨ absv sbis < delta then .inl s.xcur
  else
    let t := brentChoose s delta sbis
    let xnew := if delta < absv t.scur then t.xcur + t.scur
                else t.xcur + (if nat 0 < sbis then delta else -delta)
    .inr { t with xpre := t.xcur, fpre := t.fcur, xcur := xnew, fcur := f xnew }

def brentLoop (f : α → α) (xtol rtol : α) : Nat → BState α → α
  | 0, s => s.xcur
  | k + 1, s =>
    match brentStep f xtol rtol s with
    | .inl x => x
    | .inr s' => brentLoop f xtol rtol k s'

/-- `brentq(xa, xb, s)` with `f a = log a - digamma a - s`; `maxiter` = 100 in the source -/
def brentq (f : α → α) (xtol rtol : α) (maxiter : Nat) (xa xb : α) : α :=
  let fpre := f xa
  let fcur := f xb
  if nat 0 < fpre * fcur then nat 0
  else if eqv fpre (nat 0) then xa
  else if eqv fcur (nat 0) then xb
  else brentLoop f xtol rtol maxiter ⟨xa, xb, nat 0, fpre, fcur, nat 0, nat 0, nat 0⟩

end Hdc
