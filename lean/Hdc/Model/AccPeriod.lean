import Hdc.Model.PyDate
/-
Declarative specification of the `.dekad` accessor (hdc/algo/accessors.py: `Period` / `DekadPeriod`) and of `Anomalies`.

An element of the time axis (a `pandas.Timestamp`, a subclass of `datetime.datetime`) is an `Instant`: its civil fields
year / month / day and the microsecond of the day.  Everything below is defined DIRECTLY from (year, month, day), without
going through the raw dekad integer `36*year + 3*(month-1) + (idx-1)` the Python class computes with.
No Mathlib.
-/
namespace Hdc.AccPeriod
open Hdc Hdc.PyDate

/-- an element of the time axis: civil date and microsecond of the day -/
structure Instant where
  year : Int
  month : Int
  day : Int
  us : Int
  deriving DecidableEq, Repr

/-- the civil date is a real date of CPython's range 0001-01-01 .. 9999-12-31 -/
def Instant.ValidDay (t : Instant) : Prop :=
  1 ≤ t.year ∧ t.year ≤ 9999 ∧ 1 ≤ t.month ∧ t.month ≤ 12 ∧ 1 ≤ t.day ∧ t.day ≤ daysInMonth t.year t.month

instance (t : Instant) : Decidable t.ValidDay := by unfold Instant.ValidDay; infer_instance

/-- a real instant of CPython's range 0001-01-01T00:00:00 .. 9999-12-31T23:59:59.999999 -/
def Instant.Valid (t : Instant) : Prop := t.ValidDay ∧ 0 ≤ t.us ∧ t.us < usPerDay

instance (t : Instant) : Decidable t.Valid := by unfold Instant.Valid; infer_instance

/-- the instant on the scale of `DateTime.totalUs` (microseconds since the start of ordinal 0) -/
def Instant.totalUs (t : Instant) : Int := ymd2ord t.year t.month t.day * usPerDay + t.us

/-- the instant lies in the last dekad 9999-12-d3 (whose `end_date` / `ndays` CPython cannot compute) -/
def Instant.inLastDekad (t : Instant) : Prop := t.year = 9999 ∧ t.month = 12 ∧ 21 ≤ t.day

instance (t : Instant) : Decidable t.inLastDekad := by unfold Instant.inLastDekad; infer_instance

/-- dekad of the month: days 1-10 ↦ 1, 11-20 ↦ 2, 21-end ↦ 3 -/
def dekadIdx (t : Instant) : Int := min 3 ((t.day - 1) / 10 + 1)

/-- dekad of the year, 1..36 -/
def dekadYidx (t : Instant) : Int := 3 * (t.month - 1) + dekadIdx t

/-- zero-based dekad of the year, 0..35 -/
def dekadLinspace (t : Instant) : Int := dekadYidx t - 1

/-- the integer `Dekad.raw` -/
def dekadRaw (t : Instant) : Int := 36 * t.year + (dekadYidx t - 1)

/-- first day of the dekad: 1, 11 or 21 -/
def dekadStartDay (t : Instant) : Int := if t.day ≤ 10 then 1 else if t.day ≤ 20 then 11 else 21

/-- last day of the dekad: 10, 20 or the last day of the month -/
def dekadEndDay (t : Instant) : Int := if t.day ≤ 10 then 10 else if t.day ≤ 20 then 20 else daysInMonth t.year t.month

/-- number of days of the dekad, from the month length -/
def dekadNdays (t : Instant) : Int := if t.day ≤ 20 then 10 else daysInMonth t.year t.month - 20

/-- `start_date`: midnight of the first day -/
def dekadStart (t : Instant) : DateTime := ⟨ymd2ord t.year t.month (dekadStartDay t), 0⟩

/-- `end_date`: the last microsecond of the last day (= the day before the next dekad's start) -/
def dekadEnd (t : Instant) : DateTime := ⟨ymd2ord t.year t.month (dekadEndDay t), usPerDay - 1⟩

/-- the label `YYYYMMd#` -/
def dekadLabel (t : Instant) : String :=
  Py.fmtInt 4 t.year ++ Py.fmtInt 2 t.month ++ "d" ++ Py.fmtInt 0 (dekadIdx t)

/-- two instants lie in the same dekad -/
def sameDekad (a b : Instant) : Prop := a.year = b.year ∧ a.month = b.month ∧ dekadIdx a = dekadIdx b

/-- outcome of `AccessorTimeBase.__init__`: the checks in order, then `expand_dims("time")` exactly when `time` is not a dim -/
inductive CtorOutcome (Obj : Type) where
  | typeError
  | valueError
  | stored (o : Obj)
  deriving DecidableEq, Repr

def ctorSpec {Obj : Type} (isDatetime64 hasTimeAttr timeInDims : Bool) (expand : Obj → Obj) (o : Obj) : CtorOutcome Obj :=
  if !isDatetime64 then .typeError
  else if !hasTimeAttr then .valueError
  else if timeInDims then .stored o else .stored (expand o)

end Hdc.AccPeriod
