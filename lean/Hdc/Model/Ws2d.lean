import Hdc.Num
/-
Model of `hdc/algo/ops/ws2d.py::ws2d` (pentadiagonal LDLᵀ solve of (W + λ DᵀD) z = W y).

The forward sweep carries the two previous rows; the backward sweep is structural
recursion on the row list.  Row `i` of `n` uses the coefficient of λ that the source uses:
diagonal 1,5,6,…,6,5,1 and super-diagonal −2,−4,…,−4,−2.  The source writes rows 0, 1,
n−2, n−1 out by hand; the uniform formula below produces the same expression trees up to
terms that are literally `0 * 0` (checked bit-for-bit by the level-F correspondence).
Valid for n ≥ 3 (at n = 2 the source reads wrapped-around cells and computes something
else; no property quantifies over n < 4 for values, C14 covers the indices).
-/
namespace Hdc
variable {α : Type} [Add α] [Sub α] [Mul α] [Div α] [Neg α] [NatCast α]

structure Row (α : Type) where
  d : α
  c : α
  e : α
  u : α

def Row.zero : Row α := ⟨nat 0, nat 0, nat 0, nat 0⟩

/-- coefficient of λ on the diagonal of DᵀD, row `i` of `n` -/
def diagCoef (n i : Nat) : Nat :=
  if i = 0 ∨ i + 1 = n then 1 else if i = 1 ∨ i + 2 = n then 5 else 6

/-- minus the coefficient of λ on the first super-diagonal, row `i` of `n` -/
def supCoef (n i : Nat) : Nat :=
  if i = 0 ∨ i + 2 = n then 2 else 4

/-- one row of the forward sweep: `r1` is row `i-1`, `r2` row `i-2` -/
def fwdRow (lam : α) (n i : Nat) (r1 r2 : Row α) (w y : α) : Row α :=
  let d := w + nat (diagCoef n i) * lam - (r1.c * r1.c) * r1.d - (r2.e * r2.e) * r2.d
  let c := (-(nat (supCoef n i)) * lam - r1.d * r1.c * r1.e) / d
  let e := lam / d
  let u := w * y - r1.c * r1.u - r2.e * r2.u
  ⟨d, c, e, u⟩

def fwd (lam : α) (n : Nat) : Nat → Row α → Row α → List (α × α) → List (Row α)
  | _, _, _, [] => []
  | i, r1, r2, (w, y) :: rest =>
    let r := fwdRow lam n i r1 r2 w y
    r :: fwd lam n (i + 1) r r1 rest

/-- back substitution; the last two rows have no `e` (and the last no `c`) term -/
def back : List (Row α) → List α
  | [] => []
  | r :: rs =>
    match back rs with
    | [] => [r.u / r.d]
    | [z1] => [r.u / r.d - r.c * z1, z1]
    | z1 :: z2 :: zs => (r.u / r.d - r.c * z1 - r.e * z2) :: z1 :: z2 :: zs

def ws2dRows (y : List α) (lam : α) (w : List α) : List (Row α) :=
  fwd lam y.length 0 Row.zero Row.zero (w.zip y)

/-- the Whittaker core: `ws2d(y, lmda, w)` -/
def ws2d (y : List α) (lam : α) (w : List α) : List α :=
  back (ws2dRows y lam w)

end Hdc
