/-
Data types of the effect summaries extracted from the two concurrency-relevant pieces of the source
(harness/summarise_effects.py -> Hdc/Gen/Effects.lean), C12.
-/
namespace Hdc.Effects

/-- atomic shared-memory actions of the `lazycompile` wrapper; `cache` is the closure cell `inner_decorated` -/
inductive Instr where
  /-- `r := cache; if r is not None: jump to skipTo` (the `if cache is None:` test) -/
  | loadTest (skipTo : Nat)
  /-- `cache := internal_decorator(f)` (a compiled function equivalent to `f`) -/
  | storeCompiled
  /-- `cache := <anything else>` (None, a placeholder, ...) -/
  | storeOther
  /-- `r := cache; return r(*args)` -/
  | loadCall
  deriving DecidableEq, Repr

/-- one subscript access inside the body of the `prange` loop -/
structure Access where
  arr : String
  write : Bool
  /-- position of the `prange` variable in the index tuple when it occurs there as a plain index -/
  rowAxis : Option Nat
  deriving DecidableEq, Repr

structure Summary where
  /-- arrays that exist once for all iterations (parameters, allocations before the loop) -/
  shared : List String
  /-- arrays allocated inside the loop body: one private copy per iteration -/
  priv : List String
  accesses : List Access
  deriving DecidableEq, Repr

end Hdc.Effects
