import Hdc.Model.Discrete
/-
RoundAcc  Rounding-aware accumulation: a floating-point accumulator seen from the integers.

`rolling_sum` (ops/stats.py) accumulates `yy[ii] += xx[jj]` in a float32 output array for EVERY input dtype, `mean_grp`
accumulates in float64, `do_mean` (ops/zonal.py) in float64.  The integer models (`Hdc.rollingSum`, `Hdc.grpStats`,
`Hdc.zoneStats`) compute these sums exactly in `Int`.  This file makes the gap explicit WITHOUT an IEEE model: a float
format is represented by what it does to integer values,

    rnd : Int → Int      the value stored when the exact result of an operation is the integer `n`
    B   : Nat            an exactness range: every integer of absolute value ≤ B is stored unchanged

and the accumulation loop is modelled with a rounding after every addition (`accR`).  Below the range nothing is lost
(`accR_exact`, `accR_exact_of_bound`); above it the exact model is an idealisation (negative witnesses in
Hdc/Props/C17round.lean).

The intended instances are B = 2^24 for IEEE binary32 and B = 2^53 for binary64 (`B32`, `B64`): with a p-bit significand
every integer of absolute value ≤ 2^p is representable, and an operation whose exact result is representable returns it
(IEEE 754 §4.3: the result is the exact result rounded, and rounding a representable number is the identity).  That the
hardware formats satisfy `exact` for these `B` is the stated, externally validated ASSUMPTION (Lean's `Float32`/`Float` are
opaque to the kernel, so it cannot be proved here; `Hdc/Props/C17round.lean` checks samples by evaluation and gives a
concrete integer-level binary32 round-to-nearest-even `rne 24` that provably satisfies it).  2^24 + 1 is not a binary32
number, so `B32` cannot be larger.

(No Mathlib: `|n| ≤ B` is written `n.natAbs ≤ B`, as in Hdc/Lemmas/Discrete.lean and C16.)
-/
namespace Hdc

/-- A float format seen from the integers: the rounding `rnd` applied to the exact integer result of an operation,
    and a range `B` below which it is the identity. -/
structure IntRound where
  rnd : Int → Int
  B : Nat
  exact : ∀ n : Int, n.natAbs ≤ B → rnd n = n

/-- the idealisation the integer models make: no rounding at all (valid for every `B`) -/
def IntRound.ideal (B : Nat) : IntRound := ⟨fun n => n, B, fun _ _ => rfl⟩

/-- exactness range of IEEE binary32 (24-bit significand) -/
def B32 : Nat := 2 ^ 24

/-- exactness range of IEEE binary64 (53-bit significand) -/
def B64 : Nat := 2 ^ 53

/-- `acc = s; for x in xs: acc = fl(acc + x)` -/
def accRFrom (R : IntRound) (s : Int) (xs : List Int) : Int := xs.foldl (fun s x => R.rnd (s + x)) s

/-- `acc = 0; for x in xs: acc = fl(acc + x)`: the left fold with a rounding after every addition -/
def accR (R : IntRound) (xs : List Int) : Int := accRFrom R 0 xs

theorem accRFrom_nil (R : IntRound) (s : Int) : accRFrom R s [] = s := rfl

theorem accRFrom_cons (R : IntRound) (s x : Int) (xs : List Int) :
    accRFrom R s (x :: xs) = accRFrom R (R.rnd (s + x)) xs := rfl

/-- one more iteration of the loop -/
theorem accR_snoc (R : IntRound) (xs : List Int) (a : Int) :
    accR R (xs ++ [a]) = R.rnd (accR R xs + a) := by
  simp [accR, accRFrom, List.foldl_append]

/-- If every partial sum stays within the exactness range, the rounded accumulation is the exact sum. -/
theorem accRFrom_exact (R : IntRound) (xs : List Int) (s : Int)
    (h : ∀ k, k ≤ xs.length → (s + (xs.take k).sum).natAbs ≤ R.B) :
    accRFrom R s xs = s + xs.sum := by
  induction xs generalizing s with
  | nil => simp [accRFrom]
  | cons x xs ih =>
    have h1 := h 1 (by simp)
    simp only [List.take_succ_cons, List.take_zero, List.sum_cons, List.sum_nil, Int.add_zero] at h1
    rw [accRFrom_cons, R.exact _ h1, ih, List.sum_cons, Int.add_assoc]
    intro k hk
    have := h (k + 1) (by simpa using hk)
    simpa [List.take_succ_cons, List.sum_cons, Int.add_assoc] using this

/-- **accR_exact.**  If all prefix sums of `xs` have absolute value ≤ `R.B`, then `accR R xs = xs.sum`. -/
theorem accR_exact (R : IntRound) (xs : List Int)
    (h : ∀ k, k ≤ xs.length → ((xs.take k).sum).natAbs ≤ R.B) : accR R xs = xs.sum := by
  rw [accR, accRFrom_exact R xs 0 (by simpa using h), Int.zero_add]

/-- `|x₁ + … + xₙ| ≤ n · M` when every `|xᵢ| ≤ M` -/
theorem natAbs_sum_le_mul (l : List Int) (M : Nat) (h : ∀ v ∈ l, v.natAbs ≤ M) :
    l.sum.natAbs ≤ l.length * M := by
  induction l with
  | nil => simp
  | cons x xs ih =>
    have hx := h x (by simp)
    have hxs := ih (fun v hv => h v (by simp [hv]))
    simp only [List.sum_cons, List.length_cons, Nat.add_mul, Nat.one_mul]
    omega

/-- The convenient sufficient condition: `n` summands of absolute value ≤ `M` with `n · M ≤ B`. -/
theorem accR_exact_of_bound (R : IntRound) (xs : List Int) (M : Nat)
    (hM : ∀ x ∈ xs, x.natAbs ≤ M) (hB : xs.length * M ≤ R.B) : accR R xs = xs.sum := by
  apply accR_exact
  intro k hk
  have h1 := natAbs_sum_le_mul (xs.take k) M (fun v hv => hM v (List.mem_of_mem_take hv))
  have h2 : (xs.take k).length * M ≤ xs.length * M :=
    Nat.mul_le_mul_right M (by rw [List.length_take]; omega)
  omega

/-- the plain left fold of the integer models (`valid.foldl (· + ·) 0`) is the sum -/
theorem foldl_add_sum (xs : List Int) (s : Int) : xs.foldl (· + ·) s = s + xs.sum := by
  induction xs generalizing s with
  | nil => simp
  | cons x xs ih => rw [List.foldl_cons, ih, List.sum_cons, Int.add_assoc]

/-- without rounding `accR` is the exact sum, whatever the size of the values -/
theorem accR_ideal (B : Nat) (xs : List Int) : accR (IntRound.ideal B) xs = xs.sum := by
  have : accR (IntRound.ideal B) xs = xs.foldl (· + ·) 0 := rfl
  rw [this, foldl_add_sum, Int.zero_add]

/-! ### a concrete instance: round to nearest, ties to even, with a `p`-bit significand -/

/-- `m` rounded to a multiple of `2^e` (nearest, ties to the even multiple) -/
def rneAt (e m : Nat) : Nat :=
  let q := m / 2 ^ e
  let r := m % 2 ^ e
  let half := 2 ^ e / 2
  if e = 0 then m
  else if r < half then q * 2 ^ e
  else if half < r then (q + 1) * 2 ^ e
  else if q % 2 = 0 then q * 2 ^ e else (q + 1) * 2 ^ e

/-- the natural number `m` rounded to `p` significant bits (nearest, ties to even; no overflow: the exponent range is
    unbounded, which for binary32 / binary64 is right for |values| < 2^128 / 2^1024): the `Nat.log2 m + 1 - p` low bits
    that do not fit are rounded away -/
def rneNat (p m : Nat) : Nat := rneAt (Nat.log2 m + 1 - p) m

/-- the same on the integers (sign-magnitude, as IEEE formats are) -/
def rneInt (p : Nat) (n : Int) : Int :=
  if n < 0 then -((rneNat p n.natAbs : Nat) : Int) else ((rneNat p n.natAbs : Nat) : Int)

theorem rneAt_zero (m : Nat) : rneAt 0 m = m := by simp [rneAt]

theorem rneAt_one_even (m : Nat) (h : m % 2 = 0) : rneAt 1 m = m := by
  simp only [rneAt, Nat.pow_one, h]
  simp
  omega

theorem rneNat_exact (p m : Nat) (hp : 0 < p) (h : m ≤ 2 ^ p) : rneNat p m = m := by
  unfold rneNat
  by_cases hm : m < 2 ^ p
  · have he : Nat.log2 m + 1 - p = 0 := by
      by_cases h0 : m = 0
      · subst h0; simp only [Nat.log2_zero]; omega
      · have := (Nat.log2_lt h0).mpr hm; omega
    rw [he, rneAt_zero]
  · have hmp : m = 2 ^ p := by omega
    subst hmp
    have he : Nat.log2 (2 ^ p) + 1 - p = 1 := by rw [Nat.log2_two_pow]; omega
    rw [he]
    apply rneAt_one_even
    obtain ⟨k, rfl⟩ : ∃ k, p = k + 1 := ⟨p - 1, by omega⟩
    rw [Nat.pow_succ, Nat.mul_mod_left]

/-- round-to-nearest-even with a `p`-bit significand (`p ≥ 1`) as an `IntRound` with `B = 2^p` -/
def IntRound.rne (p : Nat) (hp : 0 < p := by decide) : IntRound :=
  ⟨rneInt p, 2 ^ p, fun n h => by
    unfold rneInt
    rw [rneNat_exact p n.natAbs hp h]
    split <;> omega⟩

/-- binary32 / binary64 on integer values -/
def IntRound.f32 : IntRound := IntRound.rne 24
def IntRound.f64 : IntRound := IntRound.rne 53

/-- a toy format for negative witnesses: integers up to 4 exact, above that only the even ones (odd values rounded
    towards −∞) -/
def IntRound.toy : IntRound :=
  ⟨fun n => if n.natAbs ≤ 4 then n else 2 * (n / 2), 4, fun n h => by simp [h]⟩

/-! ### rolling_sum with a rounding accumulator -/

/-- `rolling_sum` with the float accumulator made explicit: the shape of `Hdc.rollingSum`, every `yy[ii] += xx[jj]`
    rounded (`accR`), the stores of the sentinel `yy[ii] = nodata` unrounded (the sentinel is assumed representable in
    the output type: `R.rnd nodata = nodata` is a hypothesis of the refinement theorem in Hdc/Props/GenKRSround.lean). -/
def rollingSumR (R : IntRound) (xx : List Int) (window : Nat) (nodata : Int) : List Int :=
  (List.range xx.length).map fun ii =>
    if ii + 1 < window then nodata
    else
      let win := (xx.drop (ii + 1 - window)).take window
      let valid := win.filter fun v => v ≠ nodata
      if valid.length = 0 then nodata else accR R valid

/-- the accessor drops the first `window - 1` positions -/
def rollingSumAccR (R : IntRound) (xx : List Int) (window : Nat) (nodata : Int) : List Int :=
  (rollingSumR R xx window nodata).drop (window - 1)

/-! ### mean_grp / do_mean: the size of what the float64 accumulator has to hold

`mean_grp` accumulates `avg += pixv` and `do_mean` `sums[z] += pix` in float64.  The sum of the absolute values of the cells
that are added bounds every partial sum, in whatever order the cells come; the refinement theorems
Hdc/Props/GenKMeanGrpB.lean / GenKDoMeanB.lean ask it to be ≤ B (= 2^53 for float64) per group / per zone and time step. -/

/-- sum of the absolute values of the valid cells of group `g` (the cells `grpStats` sums) -/
def grpAbsSum (xx : List Int) (groups : List Int) (nodata : Int) (g : Int) : Nat :=
  (((xx.zip groups).filter fun (v, k) => k = g ∧ v ≠ nodata).map fun p => p.1.natAbs).sum

/-- sum of the absolute values of the cells counted for zone `k` in one time step (the cells `zoneStats` sums) -/
def zoneAbsSum (pix : List Int) (zones : List Int) (nodata znodata : Int) (k : Int) : Nat :=
  (((pix.zip zones).filter fun (v, z) => v ≠ nodata ∧ z ≠ znodata ∧ z = k).map fun p => p.1.natAbs).sum

end Hdc
