import Hdc.PyGlue
/-
AccWhit  Hand-written DECISION MODEL of the four Whittaker accessors of hdc/algo/accessors.py (`WhittakerSmoother.whits`,
`.whitsvc`, `.whitswcv`, `.whitint`): WHICH kernel is applied to WHICH arguments, or which exception is raised, written as decision
tables straight from the docstrings.  No Mathlib.  The generated translations (Hdc/Gen/GlueWhit*.lean) are proved equal to these
plans in Hdc/Props/GenGlueWhit*.lean.

One call type per accessor (so that "whits never calls a V-curve kernel" holds by typing and the interpretation of a plan by the
library's `apply_ufunc` parameters is a total function without junk cases):
  `FixedCall`  (whits)    `.gu lmda nodata`  |  `.pgu lmda nodata p`
  `VCall`      (whitsvc)  `.optv nodata srange`  |  `.optvp nodata p srange`  |  `.optvplc nodata p lc`
  `GcvCall`    (whitswcv) `.wcv nodata srange robust`  |  `.wcvp nodata p srange robust`
  `TICall`     (whitint)  `.tinterp template labels nOut`
The order of the constructor arguments is the order of the kernel's arguments after the data array.
-/
namespace Hdc.AccWhit
open Hdc.PyGlue

/-- the Python truth value of an `Optional[float]` (`if p:`): not None and not zero (`nonzero v` is `v != 0`; NaN is truthy) -/
def pyTruthy {P : Type} (nonzero : P → Bool) : Option P → Bool
  | none => false
  | some v => nonzero v

/-! ### whits: fixed lambda -/

/-- the kernel call of `whits` -/
inductive FixedCall (L V P : Type) where
  /-- `ws2dgu(y, lmda, nodata)` -/
  | gu (lmda : L) (nodata : V)
  /-- `ws2dpgu(y, lmda, nodata, p)` -/
  | pgu (lmda : L) (nodata : V) (p : P)
  deriving DecidableEq, Repr

/-- the fixed lambda: `10 ** sg` when an sgrid is given (the sgrid WINS over `s`), else the constant `s`, else nothing -/
def fixedLambda {SG L : Type} (pow10 : SG → L) : Option SG → Option L → Option L
  | some g, _ => some (pow10 g)
  | none, s => s

/-- `whits(nodata, sg, s, p)`:
      no time dimension            -> MissingTimeError
      neither sg nor s             -> ValueError
      p given (ANY value, also 0)  -> ws2dpgu(lmda, nodata, p)
      p None                       -> ws2dgu(lmda, nodata) -/
def whitsPlan {SG L V P : Type} (hasTime : Bool) (pow10 : SG → L) (nodata : V) (sg : Option SG) (s : Option L) (p : Option P) :
    Except Exc (FixedCall L V P) :=
  if !hasTime then .error .missingTimeError
  else match fixedLambda pow10 sg s with
    | none => .error .valueError
    | some lmda =>
      match p with
      | some q => .ok (.pgu lmda nodata q)
      | none => .ok (.gu lmda nodata)

/-! ### whitsvc: V-curve -/

/-- the kernel call of `whitsvc` -/
inductive VCall (V P SR LC : Type) where
  /-- `ws2doptv(y, nodata, srange)` -/
  | optv (nodata : V) (srange : SR)
  /-- `ws2doptvp(y, nodata, p, srange)` -/
  | optvp (nodata : V) (p : P) (srange : SR)
  /-- `ws2doptvplc(y, nodata, p, lc)` -/
  | optvplc (nodata : V) (p : P) (lc : LC)
  deriving DecidableEq, Repr

/-- `whitsvc(nodata, lc, srange, p)`:
      no time dimension                 -> MissingTimeError
      lc given, p None                  -> ValueError
      lc given, p given (any value)     -> ws2doptvplc(nodata, p, lc)        (srange is ignored)
      no lc, no srange                  -> ValueError
      no lc, srange, p TRUTHY           -> ws2doptvp(nodata, p, srange)
      no lc, srange, p None or p == 0   -> ws2doptv(nodata, srange) -/
def whitsvcPlan {V P SR LC : Type} (hasTime : Bool) (nonzero : P → Bool) (nodata : V) (lc : Option LC) (srange : Option SR)
    (p : Option P) : Except Exc (VCall V P SR LC) :=
  if !hasTime then .error .missingTimeError
  else match lc, p, srange with
    | some _, none, _ => .error .valueError
    | some c, some q, _ => .ok (.optvplc nodata q c)
    | none, _, none => .error .valueError
    | none, none, some r => .ok (.optv nodata r)
    | none, some q, some r => if nonzero q then .ok (.optvp nodata q r) else .ok (.optv nodata r)

/-! ### whitswcv: generalised cross validation -/

/-- the kernel call of `whitswcv` -/
inductive GcvCall (V P SR : Type) where
  /-- `ws2dwcv(y, nodata, srange, robust)` -/
  | wcv (nodata : V) (srange : SR) (robust : Bool)
  /-- `ws2dwcvp(y, nodata, p, srange, robust)` -/
  | wcvp (nodata : V) (p : P) (srange : SR) (robust : Bool)
  deriving DecidableEq, Repr

/-- the grid of log10(lambda): the argument, or the default `np.arange(-1.8, 4.2, 0.2)` -/
def srangeOrDefault {SR : Type} (dflt : SR) : Option SR → SR
  | some r => r
  | none => dflt

/-- `whitswcv(nodata, srange, p, robust)`:
      no time dimension    -> MissingTimeError
      p TRUTHY             -> ws2dwcvp(nodata, p, srange or default, robust)
      p None or p == 0     -> ws2dwcv(nodata, srange or default, robust) -/
def whitswcvPlan {V P SR : Type} (hasTime : Bool) (nonzero : P → Bool) (dflt : SR) (nodata : V) (srange : Option SR) (p : Option P)
    (robust : Bool) : Except Exc (GcvCall V P SR) :=
  if !hasTime then .error .missingTimeError
  else match p with
    | none => .ok (.wcv nodata (srangeOrDefault dflt srange) robust)
    | some q =>
      if nonzero q then .ok (.wcvp nodata q (srangeOrDefault dflt srange) robust)
      else .ok (.wcv nodata (srangeOrDefault dflt srange) robust)

/-! ### whitint: temporal interpolation -/

/-- the kernel call of `whitint`: `tinterpolate(y, template, labels_daily, template_out)` with `template_out` = `nOut` zeros (uint8);
    the output axis `newtime` has length `nOut` -/
inductive TICall (T : Type) where
  | tinterp (template : T) (labels : List Int) (nOut : Int)
  deriving DecidableEq, Repr

/-- `whitint(labels_daily, template)`:
      no time dimension        -> MissingTimeError
      dtype other than int16   -> NotImplementedError
      otherwise                -> tinterpolate(template, labels_daily, zeros(k, 'u1')),  k = number of DISTINCT labels -/
def whitintPlan {T : Type} (hasTime : Bool) (dtype : String) (labels : List Int) (template : T) : Except Exc (TICall T) :=
  if !hasTime then .error .missingTimeError
  else if dtype ≠ "int16" then .error .notImplementedError
  else .ok (.tinterp template labels ((Hdc.Py.unique labels).length : Int))

end Hdc.AccWhit
