import Hdc.Model.Stats
/-
Model of `ops/stats.py::gammastd_yxt` (the per-pixel wrapper of `gammastd` over a (rows, columns, time) cube), missing in
Hdc/Model/Stats.lean.  Same style: the raw index is `Hdc.gammastd`, the int16 cell is `Hdc.spiCell`.
-/
namespace Hdc
variable {α : Type} [Add α] [Sub α] [Mul α] [Div α] [Neg α] [NatCast α] [LT α] [DecidableLT α]

/-- `gammastd_yxt`: every pixel's series is standardised on its own (window `[calStart, calStop)`, defaults `0` and the
    number of time steps), then scaled by `thousand`, saturated to `[lo, hi]` and rounded; `nodata` where there is no value -/
def gammastdYxt (F : GamFns α) (rnd : α → α) (lo hi thousand : α) (x : List (List (List α))) (nodata : α)
    (calStart calStop : Option Nat) : List (List (List α)) :=
  x.map fun plane => plane.map fun xt =>
    (gammastd F xt nodata (calStart.getD 0) (calStop.getD xt.length)).map (spiCell rnd lo hi thousand nodata)

end Hdc
