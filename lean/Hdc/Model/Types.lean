/-
Type-level model of the compiled kernels of `hdc.algo.ops` (hand-written vocabulary).

The data (`Hdc/Gen/Types.lean`) is produced by `harness/summarise_types.py`, which compiles every kernel with Numba and
reads the tables off Numba's own compile results (`cres.type_annotation`: typed IR, typemap, calltypes) and off NumPy's
own loop table (`ufunc.types`, `ufunc.resolve_dtypes`).  Nothing of Numba's type inference is re-implemented; what is
modelled here is only
  * NumPy's *safe* (value-preserving) casting relation `safeCast`,
  * NumPy's loop resolution `select` for a gufunc with a list of declared loops (validated against
    `ufunc.resolve_dtypes` on a probe grid, theorems `select_agrees_numpy_*`),
  * Boolean predicates over the generated tables (the theorems of `Hdc/Props/Types.lean` are `decide` on them).
-/
namespace Hdc.Types

/-- scalar types.  `pyint` / `pyfloat`: a Python scalar handed to a gufunc (NumPy's "weak" scalars, only meaningful as
inputs of `select`); `lit` / `litneg`: an integer literal in `0..127` / `-128..-1` (exactly representable in every
numeric type / every signed or floating type); `other`: anything that is not a plain number. -/
inductive DType where
  | b | u8 | u16 | u32 | u64 | i8 | i16 | i32 | i64 | f32 | f64
  | pyint | pyfloat | lit | litneg | other
  deriving DecidableEq, Repr, Inhabited

namespace DType

/-- 64-bit arithmetic types: computing in them is what the real/rational Lean models idealise -/
def isWide : DType → Bool
  | f64 | i64 | u64 => true
  | _ => false

def isFloat : DType → Bool
  | f32 | f64 | pyfloat => true
  | _ => false

/-- number that is not a Boolean (the scalar positions a caller may fill with a Python scalar) -/
def isNumber : DType → Bool
  | u8 | u16 | u32 | u64 | i8 | i16 | i32 | i64 | f32 | f64 => true
  | _ => false

end DType

open DType in
/-- `np.can_cast(a, b, casting="safe")`: every value of `a` is a value of `b` (NumPy counts `i64 → f64`, `u64 → f64` as
safe; so do we).  A Python int behaves like `int64`, a Python float like `float64` in the legacy loop search. -/
def safeCast : DType → DType → Bool
  | b, t => t.isNumber || t == b
  | u8, t => [u8, u16, u32, u64, i16, i32, i64, f32, f64].contains t
  | u16, t => [u16, u32, u64, i32, i64, f32, f64].contains t
  | u32, t => [u32, u64, i64, f64].contains t
  | u64, t => [u64, f64].contains t
  | i8, t => [i8, i16, i32, i64, f32, f64].contains t
  | i16, t => [i16, i32, i64, f32, f64].contains t
  | i32, t => [i32, i64, f64].contains t
  | i64, t => [i64, f64].contains t
  | f32, t => [f32, f64].contains t
  | f64, t => t == f64
  | pyint, t => [i64, f64].contains t
  | pyfloat, t => t == f64
  | lit, t => t.isNumber
  | litneg, t => [i8, i16, i32, i64, f32, f64].contains t
  | other, _ => false

inductive Layout where
  /-- C contiguous `t[::1]` -/
  | C
  /-- Fortran contiguous -/
  | F
  /-- any strides `t[:]` -/
  | A
  /-- scalar -/
  | S
  /-- not an array / number -/
  | N
  deriving DecidableEq, Repr

structure Arg where
  dt : DType
  nd : Nat
  layout : Layout
  deriving DecidableEq, Repr

/-- one declared loop of a gufunc as NumPy sees it (or one documented signature of an njit entry point) -/
structure Loop where
  ins : List Arg
  outs : List Arg
  /-- NumPy's type string (`ufunc.types[i]`), resp. the Numba signature -/
  npy : String
  deriving DecidableEq, Repr

def Loop.inDTypes (l : Loop) : List DType := l.ins.map (·.dt)

inductive Role where
  /-- a declared output of the gufunc / an array the function returns -/
  | output
  /-- (a view of) an input parameter -/
  | param
  /-- scratch array allocated in the function and not returned -/
  | loc
  deriving DecidableEq, Repr

/-- `arr[...] = v`, `arr[...] += v`, slice stores, and library calls writing through an `out` argument -/
structure Store where
  site : String
  /-- for outputs a stable name: the parameter name, `ret<i>` for the i-th returned array; else the local's name -/
  arr : String
  role : Role
  arrTy : DType
  valTy : DType
  /-- `setitem`, or the library function that writes (`np.round`) -/
  via : String
  deriving DecidableEq, Repr

/-- arithmetic (binop / unary op / library call) whose result type is narrower than 64 bit -/
structure NarrowOp where
  site : String
  op : String
  args : List DType
  res : DType
  deriving DecidableEq, Repr

/-- `x = x ⊕ e` on a scalar local (`var`), or `a[i] = a[i] ⊕ e` on an array (`var = "a[]"`) -/
structure Accum where
  site : String
  var : String
  varTy : DType
  /-- result type of the `⊕` -/
  opTy : DType
  /-- result types of the arithmetic that computes `e` -/
  feeds : List DType
  inLoop : Bool
  deriving DecidableEq, Repr

/-- conversion of a number: `explicit` (`float64(x)`, `int(x)`, `.astype`), `unify` (assignment to a variable Numba
unified to another type), `return`, `arg f` (coercion of an argument of the library function `f`) -/
structure Cast where
  site : String
  kind : String
  src : DType
  dst : DType
  deriving DecidableEq, Repr

structure VarTy where
  name : String
  /-- all types Numba inferred for the SSA versions of the variable -/
  tys : List Arg
  deriving DecidableEq, Repr

/-- the effective compiler flags of one compilation (`numba.core.compiler.Flags` as the pipeline saw them, i.e. AFTER
the inheritance from the caller that triggered the compilation of a callee: `fastmath` and `error_model` of a plain
`@njit` helper are those of the kernel that compiled it first) -/
structure Flags where
  /-- LLVM fast-math flags (`fast`, or a subset of `nnan ninf nsz arcp contract afn reassoc`); empty = IEEE semantics -/
  fastmath : List String
  /-- `python`: division by zero raises; `numpy`: it yields inf / nan -/
  errorModel : String
  boundscheck : Bool
  /-- automatic parallelisation (`parallel=True`) -/
  parallel : Bool
  nogil : Bool
  /-- object mode allowed or forced -/
  pyobject : Bool
  nrt : Bool
  noRewrites : Bool
  forceinline : Bool
  inline : String
  noCpythonWrapper : Bool
  deriving DecidableEq, Repr

/-- what the decorator of a kernel requested -/
structure Decorator where
  /-- `guvectorize` or `jit` -/
  kind : String
  /-- target options (`nopython`, `fastmath`, `parallel`, `boundscheck`, ...) as `(name, repr value)` -/
  options : List (String × String)
  cache : Bool
  identity : String
  writable : List Nat
  dynamic : Bool
  deriving DecidableEq, Repr

/-- the typing Numba inferred for one function at one signature, compiled with one set of flags -/
structure FnTyping where
  fn : String
  sig : String
  flags : Flags
  vars : List VarTy
  stores : List Store
  narrow : List NarrowOp
  accums : List Accum
  casts : List Cast
  deriving Repr

structure Kernel where
  name : String
  gufunc : Bool
  /-- the gufunc layout signature `(n),()->(n)` -/
  layout : String
  deco : Decorator
  loops : List Loop
  /-- per loop: the kernel function and all jit functions reachable from it, at the signatures compiled for this loop -/
  bodies : List (List FnTyping)
  /-- NumPy's own answer (`ufunc.resolve_dtypes`) on a grid of input dtypes: index of the chosen loop -/
  probes : List (List DType × Option Nat)
  deriving Repr

def Kernel.fns (k : Kernel) : List FnTyping := k.bodies.flatten

/-! ## NumPy's loop resolution -/

def allSafe (ins tys : List DType) : Bool :=
  ins.length == tys.length && (ins.zip tys).all (fun p => safeCast p.1 p.2)

/-- NumPy (≥ 2.0) first looks for a loop registered for exactly the given dtypes; otherwise the legacy resolver takes
the FIRST declared loop to which all inputs can be cast safely. -/
def selectIdx (ls : List Loop) (ins : List DType) : Option Nat :=
  match ls.findIdx? (fun l => l.inDTypes == ins) with
  | some i => some i
  | none => ls.findIdx? (fun l => allSafe ins l.inDTypes)

def select (ls : List Loop) (ins : List DType) : Option Loop :=
  (selectIdx ls ins).bind (ls[·]?)


/-- cartesian product: all input dtype tuples with the i-th dtype taken from the i-th list -/
def prod : List (List DType) → List (List DType)
  | [] => [[]]
  | ds :: rest => ds.flatMap (fun d => (prod rest).map (d :: ·))

/-- the inputs of loop `l` as a caller passes them when the scalar (`()`) arguments are given as `w`
(`none`: NumPy scalars of exactly the declared type; `some pyint` / `some pyfloat`: Python scalars) -/
def Loop.callWith (l : Loop) (w : Option DType) : List DType :=
  l.ins.map (fun a => match w with
    | some t => if a.nd == 0 && a.dt.isNumber then t else a.dt
    | none => a.dt)

def callModes : List (Option DType) := [none, some .pyfloat, some .pyint]

/-- the model `selectIdx` gives NumPy's own answer on every probe, and every query `loopsReachable` asks about the
declared loops is among the probes -/
def Kernel.probesAgree (k : Kernel) : Bool :=
  k.probes.all (fun p => selectIdx k.loops p.1 == p.2)
  && k.loops.all (fun l => callModes.all (fun m => k.probes.any (fun p => p.1 == l.callWith m)))

/-- loop `from` is served by loop `to` -/
structure Shadow where
  kernel : String
  «from» : String
  to : String
  why : String
  deriving DecidableEq, Repr

/-- every declared loop is selected by its own input dtypes, however the scalars are passed, except for the listed
shadowings; and every documented input dtype tuple is accepted by a loop whose inputs are safe widenings of it -/
def Kernel.loopsReachable (k : Kernel) (shadowOK : List Shadow) (documented : List (List DType)) : Bool :=
  k.loops.all (fun l => callModes.all (fun m =>
    match select k.loops (l.callWith m) with
    | some l' => l'.npy == l.npy || shadowOK.any (fun s => s.kernel == k.name && s.from == l.npy && s.to == l'.npy)
    | none => false))
  && documented.all (fun ins =>
    match select k.loops ins with
    | some l' => allSafe ins l'.inDTypes
    | none => false)

/-- diagnostics for `loopsReachable`: which declared loop is served by which other loop / by none -/
def Kernel.reportLoops (k : Kernel) (shadowOK : List Shadow) : List String :=
  k.loops.flatMap (fun l => callModes.filterMap (fun m =>
    let how := match m with
      | none => "NumPy scalars"
      | some .pyint => "Python ints"
      | some _ => "Python floats"
    match select k.loops (l.callWith m) with
    | some l' =>
      if l'.npy == l.npy || shadowOK.any (fun s => s.kernel == k.name && s.from == l.npy && s.to == l'.npy) then none
      else some s!"{k.name}: declared loop {l.npy} is shadowed: inputs of its own dtypes (scalars as {how}) are served by loop {l'.npy}"
    | none => some s!"{k.name}: declared loop {l.npy} is not selected by its own input dtypes (scalars as {how})"))

/-! ## stores -/

def Store.safe (s : Store) : Bool := safeCast s.valTy s.arrTy

/-- stores into scratch arrays and into (views of) parameters that are not declared outputs never change a value -/
def Kernel.storesSafe (k : Kernel) : Bool :=
  k.fns.all (fun f => f.stores.all (fun s => s.role == .output || s.safe))

/-- documented value-changing stores into declared outputs: in each of the functions `fns`, into each of the outputs
`arrs` (parameter name, or `ret<i>` for the i-th returned array), a value of type `valTy` is written into an array of
type `arrTy` by `via` (`setitem`: C cast; `np.round`: rounding to nearest even, then C cast) -/
structure OutDoc where
  fns : List String
  arrs : List String
  via : String
  valTy : DType
  arrTy : DType
  why : String
  deriving DecidableEq, Repr

def OutDoc.keys (d : OutDoc) : List (String × String × String × DType × DType) :=
  d.fns.flatMap (fun f => d.arrs.map (fun a => (f, a, d.via, d.valTy, d.arrTy)))

/-- the value-changing stores into declared outputs, as `(function, output, via, value type, array type)` -/
def Kernel.roundingOutputs (k : Kernel) : List (String × String × String × DType × DType) :=
  (k.fns.flatMap (fun f => (f.stores.filter (fun s => s.role == .output && !s.safe)).map
    (fun s => (f.fn, s.arr, s.via, s.valTy, s.arrTy)))).eraseDups

def Kernel.fnNames (k : Kernel) : List String := (k.fns.map (·.fn)).eraseDups

/-- the value-changing output stores are EXACTLY the documented ones of the functions of this kernel -/
def Kernel.outputsDocumented (k : Kernel) (docs : List OutDoc) : Bool :=
  let mine := (docs.flatMap (·.keys)).filter (fun key => k.fnNames.contains key.1)
  let bad := k.roundingOutputs
  bad.all mine.contains && mine.all bad.contains

/-! ## arithmetic -/

/-- library functions whose (possibly narrow) result is a copy / selection / allocation / exact rounding to integers
of its argument, not arithmetic -/
def movementOps : List String :=
  ["fn:np.zeros", "fn:np.ones", "fn:np.empty", "fn:np.full", "fn:np.zeros_like", "fn:np.ones_like", "fn:np.empty_like",
   "fn:np.full_like", "fn:np.unique", "fn:np.where", "fn:np.round", "fn:np.around", "fn:np.sort", "fn:np.abs", "fn:abs",
   "method:array.flatten", "method:array.copy", "method:array.ravel", "method:array.reshape"]

structure NarrowDoc where
  fn : String
  op : String
  args : List DType
  res : DType
  why : String
  deriving DecidableEq, Repr

def narrowKeys (f : FnTyping) : List (String × String × List DType × DType) :=
  (f.narrow.filter (fun n => !movementOps.contains n.op)).map (fun n => (f.fn, n.op, n.args, n.res))

/-- no arithmetic in a type narrower than 64 bit, except the listed sites -/
def Kernel.noNarrowArith (k : Kernel) (wl : List NarrowDoc) : Bool :=
  k.fns.all (fun f => (narrowKeys f).all (fun key => wl.any (fun d => (d.fn, d.op, d.args, d.res) == key)))

structure AccumDoc where
  fn : String
  /-- `scalar` or the accumulated array `a[]` (arrays are parameters or documented outputs: stable names) -/
  target : String
  varTy : DType
  opTy : DType
  feeds : List DType
  why : String
  deriving DecidableEq, Repr

def Accum.target (a : Accum) : String := if a.var.endsWith "[]" then a.var else "scalar"

def Accum.wide (a : Accum) : Bool := a.varTy.isWide && a.opTy.isWide && a.feeds.all DType.isWide

def accumKeys (f : FnTyping) : List (String × String × DType × DType × List DType) :=
  (f.accums.filter (fun a => !a.wide)).map (fun a => (f.fn, a.target, a.varTy, a.opTy, a.feeds))

/-- every accumulator (scalar `x = x ⊕ e`, or array cell `a[i] = a[i] ⊕ e`) has a 64-bit type, the `⊕` and the
arithmetic computing `e` are carried out in 64 bit; except the listed ones -/
def Kernel.accumulatorsWide (k : Kernel) (wl : List AccumDoc) : Bool :=
  k.fns.all (fun f => (accumKeys f).all (fun key => wl.any (fun d => (d.fn, d.target, d.varTy, d.opTy, d.feeds) == key)))

structure CastDoc where
  fn : String
  kind : String
  src : DType
  dst : DType
  why : String
  deriving DecidableEq, Repr

def castKeys (f : FnTyping) : List (String × String × DType × DType) :=
  (f.casts.filter (fun c => !safeCast c.src c.dst)).map (fun c => (f.fn, c.kind, c.src, c.dst))

/-- every explicit or implicit conversion of a number is a safe cast, except the listed ones -/
def Kernel.castsSafe (k : Kernel) (wl : List CastDoc) : Bool :=
  k.fns.all (fun f => (castKeys f).all (fun key => wl.any (fun d => (d.fn, d.kind, d.src, d.dst) == key)))

/-! ## compile flags, decorators, declared layouts -/

/-- a documented deviation from the default flags: in kernel `kernel`, function `fn` is compiled with `field = value` -/
structure FlagDoc where
  kernel : String
  fn : String
  field : String
  value : String
  why : String
  deriving DecidableEq, Repr

/-- Numba forces `error_model = numpy` on the kernel of a (g)ufunc, jit functions default to the Python model -/
def Kernel.expectedErrorModel (k : Kernel) : String := if k.gufunc then "numpy" else "python"

/-- deviations of one compilation from: no fast-math, the expected error model, no bounds checking, sequential, GIL held,
nopython, NRT on, rewrites on, no forced inlining -/
def Flags.deviations (fl : Flags) (errorModel : String) : List (String × String) :=
  (if fl.fastmath != [] then [("fastmath", String.intercalate " " fl.fastmath)] else [])
  ++ (if fl.errorModel != errorModel then [("errorModel", fl.errorModel)] else [])
  ++ (if fl.boundscheck then [("boundscheck", "true")] else [])
  ++ (if fl.parallel then [("parallel", "true")] else [])
  ++ (if fl.nogil then [("nogil", "true")] else [])
  ++ (if fl.pyobject then [("pyobject", "true")] else [])
  ++ (if !fl.nrt then [("nrt", "false")] else [])
  ++ (if fl.noRewrites then [("noRewrites", "true")] else [])
  ++ (if fl.forceinline then [("forceinline", "true")] else [])
  ++ (if fl.inline != "InlineOptions('never')" then [("inline", fl.inline)] else [])

def Kernel.flagDeviations (k : Kernel) : List (String × String × String × String) :=
  (k.fns.flatMap (fun f => (f.flags.deviations k.expectedErrorModel).map (fun d => (k.name, f.fn, d.1, d.2)))).eraseDups

/-- the kernel and every callee typing reachable from it were compiled with the default flags, except `wl` -/
def Kernel.flagsDocumented (k : Kernel) (wl : List FlagDoc) : Bool :=
  k.flagDeviations.all (fun d => wl.any (fun w => (w.kernel, w.fn, w.field, w.value) == d))

/-- a documented decorator option of a kernel -/
structure DecoDoc where
  kernel : String
  option : String
  value : String
  why : String
  deriving DecidableEq, Repr

/-- options every kernel may carry: `nopython=True` (no object-mode fallback), `boundscheck=None` (Numba's default) -/
def defaultOptions : List (String × String) := [("nopython", "True"), ("boundscheck", "None")]

/-- the decorator is the documented one: right kind, only default or listed options, no on-disk cache, no ufunc
identity, no writable inputs, signatures declared (not a dynamic gufunc) -/
def Kernel.decoratorDocumented (k : Kernel) (wl : List DecoDoc) : Bool :=
  k.deco.kind == (if k.gufunc then "guvectorize" else "jit")
  && k.deco.options.all (fun o => defaultOptions.contains o || wl.any (fun w => w.kernel == k.name && (w.option, w.value) == o))
  && !k.deco.cache && k.deco.identity == "None" && k.deco.writable == [] && !k.deco.dynamic

/-- a documented contiguity requirement of a gufunc argument -/
structure LayoutDoc where
  kernel : String
  loop : String
  /-- position among inputs ++ outputs -/
  pos : Nat
  why : String
  deriving DecidableEq, Repr

/-- array arguments of the declared loops that are NOT declared with layout `A` (`t[:]`): Numba would ignore the
core-dimension stride NumPy hands over, and NumPy does not check contiguity -/
def Kernel.contiguousArgs (k : Kernel) : List (String × String × Nat) :=
  k.loops.flatMap (fun l => ((l.ins ++ l.outs).zipIdx.filter (fun a => a.1.nd > 0 && a.1.layout != .A)).map (fun a => (k.name, l.npy, a.2)))

def Kernel.layoutsAny (k : Kernel) (wl : List LayoutDoc) : Bool :=
  k.contiguousArgs.all (fun c => wl.any (fun w => (w.kernel, w.loop, w.pos) == c))

/-- the same function at the same signature was compiled under several flag sets (by different first callers):
the flags may differ in nothing but the error model (and the wrapper flag, which has no effect on values) -/
def Flags.agreeUpToErrorModel (a b : Flags) : Bool :=
  a.fastmath == b.fastmath && a.boundscheck == b.boundscheck && a.parallel == b.parallel && a.nogil == b.nogil
  && a.pyobject == b.pyobject && a.nrt == b.nrt && a.noRewrites == b.noRewrites && a.forceinline == b.forceinline
  && a.inline == b.inline

def sharedAgree (ts : List FnTyping) : Bool :=
  ts.all (fun f => ts.all (fun g => !(f.fn == g.fn && f.sig == g.sig) || f.flags.agreeUpToErrorModel g.flags))

/-- functions some overload of which is compiled under both error models (which one a process gets depends on which
kernel compiles the helper first) -/
def errorModelSplit (ts : List FnTyping) : List String :=
  ((ts.filter (fun f => ts.any (fun g => f.fn == g.fn && f.sig == g.sig && f.flags.errorModel != g.flags.errorModel))).map (·.fn)).eraseDups

/-! ## diagnostics (`#eval Hdc.Types.Kernel.report ...` names the offending sites when a theorem fails) -/

def Kernel.reportFlags (k : Kernel) (fl : List FlagDoc) (dc : List DecoDoc) (ly : List LayoutDoc) : List String :=
  (k.flagDeviations.filter (fun d => !fl.any (fun w => (w.kernel, w.fn, w.field, w.value) == d))).map
    (fun d => s!"{k.name}: {d.2.1} is compiled with {d.2.2.1} = {d.2.2.2}")
  ++ (k.deco.options.filter (fun o => !(defaultOptions.contains o || dc.any (fun w => w.kernel == k.name && (w.option, w.value) == o)))).map
    (fun o => s!"{k.name}: decorator option {o.1} = {o.2}")
  ++ (if k.gufunc then (k.contiguousArgs.filter (fun c => !ly.any (fun w => (w.kernel, w.loop, w.pos) == c))).map
    (fun c => s!"{k.name}: loop {c.2.1}: array argument {c.2.2} is declared contiguous, the stride NumPy passes is ignored") else [])

def Kernel.report (k : Kernel) (outs : List OutDoc) (nw : List NarrowDoc) (ac : List AccumDoc) (cs : List CastDoc) : List String :=
  k.fns.flatMap (fun f =>
    (f.stores.filter (fun s => s.role != .output && !s.safe)).map
      (fun s => s!"{k.name}: value-changing store into {repr s.role} array {s.arr}: {repr s.valTy} -> {repr s.arrTy} at {f.fn}: `{s.site}` [{f.sig}]")
    ++ (f.stores.filter (fun s => s.role == .output && !s.safe
          && !outs.any (fun d => d.keys.contains (f.fn, s.arr, s.via, s.valTy, s.arrTy)))).map
      (fun s => s!"{k.name}: undocumented rounding into output {s.arr}: {repr s.valTy} -> {repr s.arrTy} via {s.via} at {f.fn}: `{s.site}`")
    ++ (f.narrow.filter (fun n => !movementOps.contains n.op
          && !nw.any (fun d => (d.fn, d.op, d.args, d.res) == (f.fn, n.op, n.args, n.res)))).map
      (fun n => s!"{k.name}: narrow arithmetic {n.op} {repr n.args} -> {repr n.res} at {f.fn}: `{n.site}` [{f.sig}]")
    ++ (f.accums.filter (fun a => !a.wide
          && !ac.any (fun d => (d.fn, d.target, d.varTy, d.opTy, d.feeds) == (f.fn, a.target, a.varTy, a.opTy, a.feeds)))).map
      (fun a => s!"{k.name}: narrow accumulator {a.var} : {repr a.varTy} (op {repr a.opTy}, feeds {repr a.feeds}) at {f.fn}: `{a.site}` [{f.sig}]")
    ++ (f.casts.filter (fun c => !safeCast c.src c.dst
          && !cs.any (fun d => (d.fn, d.kind, d.src, d.dst) == (f.fn, c.kind, c.src, c.dst)))).map
      (fun c => s!"{k.name}: value-changing cast ({c.kind}) {repr c.src} -> {repr c.dst} at {f.fn}: `{c.site}` [{f.sig}]"))

end Hdc.Types
