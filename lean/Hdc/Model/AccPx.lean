import Hdc.PyGlue
import Hdc.Model.GlueExt
/-
Declarative decision models of the dispatch-type accessors of hdc/algo/accessors.py that had no hand model:
`RollingWindowAlgos.sum`, `ZonalStatistics.mean`, `PixelAlgorithms.mktrend`, `.autocorr`, `.lroo`: which exception, which kernel
with which arguments, and the post-processing.  Small, total, readable as the specification (core Lean only).
-/
namespace Hdc
open PyGlue

/-! ### RollingWindowAlgos.sum -/

/-- the nodata value the kernel is called with: the ARGUMENT wins over the attribute; neither: ValueError -/
def rollingSumNodata {V : Type} (arg attr : Option V) : Except Exc V :=
  match resolveNodata arg attr with
  | none => .error .valueError
  | some v => .ok v

/-- the trim `xx[..., window_size - 1:]` for a window of at least one cell: the first `window_size - 1` cells are dropped -/
def trimLeading {C : Type} (cells : List C) (window : Int) : List C := cells.drop (window - 1).toNat

/-! ### ZonalStatistics.mean -/

/-- the four validations, in this order -/
def zonalMeanChecks (isDataset hasNodata zonesIsDataArray zonesHasNodata : Bool) : Except Exc Unit :=
  if isDataset then .error .notImplementedError
  else if !hasNodata then .error .valueError
  else if !zonesIsDataArray then .error .valueError
  else if !zonesHasNodata then .error .valueError
  else .ok ()

/-- the dask key: the token is appended iff a name (a str) was given; no name: `None` (dask chooses) -/
def zonalDaskName (name : Option String) (withToken : Option String → String) : Option String :=
  match name with
  | none => none
  | some _ => some (withToken name)

/-- dims of the result -/
def zonalDims (firstDim dimName : String) : String × String × String := (firstDim, dimName, "stat")

/-- the `stat` coordinate -/
def zonalStatCoord : List String := ["mean", "valid"]

/-- the five positional arguments and `out_dtype` both branches pass to `do_mean` -/
structure ZonalCall (Arr ZArr V ZV DT : Type) where
  data : Arr
  zones : ZArr
  numZones : Int
  nodata : V
  zonesNodata : ZV
  outDtype : DT

/-! ### PixelAlgorithms.mktrend -/

def mkTrendNames : List String := ["tau", "pvalue", "slope", "trend"]
def mkTrendDtypes : List String := ["float32", "float32", "float32", "int8"]
def mkTrendNodata : Int := -2

/-- which kernel: without a nodata attribute `_mann_kendall_trend_gu` (and a warning), else `_mann_kendall_trend_gu_nd` with it -/
inductive MkKernel (V : Type) where
  | plain
  | withNodata (v : V)

def mktrendKernel {V : Type} (attr : Option V) : MkKernel V × Bool :=
  match attr with
  | none => (.plain, true)
  | some v => (.withNodata v, false)

/-! ### PixelAlgorithms.autocorr -/

/-- which route: `autocorr_tyx` directly, through `da.map_blocks` (re-chunking time to one chunk first iff there is more than one),
    or `apply_ufunc(autocorr)`; the nodata ATTRIBUTE (possibly None) is passed in every case -/
inductive AutocorrPlan (V : Type) where
  | tyxEager (nodata : Option V)
  | tyxDask (rechunk : Bool) (nodata : Option V)
  | ufunc (nodata : Option V)

/-- the plan and the warning flag (nodata attribute missing) -/
def autocorrPlan {V : Type} (firstDim : String) (isDask : Bool) (nChunks : Int) (nodata : Option V) : AutocorrPlan V × Bool :=
  (if firstDim = "time" then (if isDask then .tyxDask (decide (nChunks ≠ 1)) nodata else .tyxEager nodata) else .ufunc nodata,
   nodata.isNone)

/-! ### PixelAlgorithms.lroo -/

def lrooAccCheck (hasTime : Bool) : Except Exc Unit := if hasTime then .ok () else .error .missingTimeError

end Hdc
