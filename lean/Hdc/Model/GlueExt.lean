import Hdc.PyGlue
/-
Models of accessor-level decisions that had no hand model yet (same style as Hdc/Model/Discrete.lean: small, total, readable as
the specification).  New file (the existing model files are not edited).
-/
namespace Hdc

/-- how the accessors resolve `nodata`: the ARGUMENT when one is given, otherwise the `nodata` ATTRIBUTE of the object -/
def resolveNodata {V : Type} (arg attr : Option V) : Option V :=
  match arg with
  | some v => some v
  | none => attr

/-- outcome of the accessor `PixelAlgorithms.mean_grp` before the kernel runs: which exception, or the arguments of the kernel
    call (`labels` = the label array, `k` = number of distinct labels, the resolved nodata value) -/
def meanGrpAcc {V : Type} (hasTime : Bool) (arg attr : Option V) (labels : List Int) (timeSize : Int) (k : Int) :
    Except PyGlue.Exc (List Int × Int × V) :=
  if !hasTime then .error .missingTimeError
  else match resolveNodata arg attr with
    | none => .error .valueError
    | some v => if (labels.length : Int) ≠ timeSize then .error .valueError else .ok (labels, k, v)

end Hdc
