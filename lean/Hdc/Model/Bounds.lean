import Hdc.Num
/-
Index traces of the kernels for C14: for a given shape, the list of every integer index expression the
source evaluates on an array, in program order, together with the length of the indexed array.
Python / Numba index semantics: an index `i` on an array of length `len` is in bounds iff `-len ≤ i < len`
(negative indices wrap around).  The traces are compared with the indices logged while executing the real
source (harness: logging ndarray) and with NUMBA_BOUNDSCHECK=1 runs of the compiled kernels.
-/
namespace Hdc.Bounds

/-- one indexed access: array tag, index value, array length, is it a store -/
structure Acc where
  arr : String
  idx : Int
  len : Nat
  write : Bool
  deriving DecidableEq, Repr

def Acc.inBounds (a : Acc) : Bool := decide (-(a.len : Int) ≤ a.idx ∧ a.idx < (a.len : Int))

/-- the cell an in-bounds access touches (after wrap-around) -/
def Acc.cell (a : Acc) : Int := if a.idx < 0 then a.idx + a.len else a.idx

def rd (arr : String) (idx : Int) (len : Nat) : Acc := ⟨arr, idx, len, false⟩
def wr (arr : String) (idx : Int) (len : Nat) : Acc := ⟨arr, idx, len, true⟩

/-- `range(a, b)` -/
def rangeI (a b : Int) : List Int := (List.range (b - a).toNat).map fun (k : Nat) => a + Int.ofNat k

/-- `range(n)` as integers -/
def upto (n : Nat) : List Int := (List.range n).map Int.ofNat

/-- `range(a, b, -1)` (descending, `b` exclusive) -/
def rangeDown (a b : Int) : List Int := (List.range (a - b).toNat).map fun (k : Nat) => a - Int.ofNat k

/-! ### ws2d(y, lmda, w): all six arrays have length n -/
def ws2dTrace (n : Nat) : List Acc :=
  let m : Int := (n : Int) - 1
  let r := fun a i => rd a i n
  let w := fun a i => wr a i n
  -- rows 0 and 1
  [w "d" 0, r "w" 0, w "c" 0, r "d" 0, w "e" 0, r "d" 0, w "z" 0, r "w" 0, r "y" 0,
   w "d" 1, r "w" 1, r "d" 0, r "c" 0, w "c" 1, r "d" 0, r "c" 0, r "e" 0, r "d" 1, w "e" 1, r "d" 1,
   w "z" 1, r "w" 1, r "y" 1, r "c" 0, r "z" 0]
  -- for i in range(2, m - 1)
  ++ (rangeI 2 (m - 1)).flatMap (fun i =>
      [w "d" i, r "w" i, r "c" (i - 1), r "d" (i - 1), r "e" (i - 2), r "d" (i - 2),
       w "c" i, r "d" (i - 1), r "c" (i - 1), r "e" (i - 1), r "d" i, w "e" i, r "d" i,
       w "z" i, r "w" i, r "y" i, r "c" (i - 1), r "z" (i - 1), r "e" (i - 2), r "z" (i - 2)])
  -- row m-1 (i1 = m-2, i2 = m-3) and row m (i1 = m-1, i2 = m-2)
  ++ [w "d" (m - 1), r "w" (m - 1), r "c" (m - 2), r "d" (m - 2), r "e" (m - 3), r "d" (m - 3),
      w "c" (m - 1), r "d" (m - 2), r "c" (m - 2), r "e" (m - 2), r "d" (m - 1),
      w "z" (m - 1), r "w" (m - 1), r "y" (m - 1), r "c" (m - 2), r "z" (m - 2), r "e" (m - 3), r "z" (m - 3),
      w "d" m, r "w" m, r "c" (m - 1), r "d" (m - 1), r "e" (m - 2), r "d" (m - 2),
      w "z" m, r "w" m, r "y" m, r "c" (m - 1), r "z" (m - 1), r "e" (m - 2), r "z" (m - 2), r "d" m,
      w "z" (m - 1), r "z" (m - 1), r "d" (m - 1), r "c" (m - 1), r "z" m]
  -- for i in range(m - 2, -1, -1)
  ++ (rangeDown (m - 2) (-1)).flatMap (fun i =>
      [w "z" i, r "z" i, r "d" i, r "c" i, r "z" (i + 1), r "e" i, r "z" (i + 2)])

/-! ### tinterpolate(x[n], template[m], labels[m], template_out[l]) -> out[l] -/

/-- scatter loop: `temp[ii] = x[jj]` at marks, then `temp[-1] = x[-1]` -/
def tinterpScatter (n : Nat) (template : List Int) : List Acc :=
  let m := template.length
  (template.zipIdx.foldl (fun (st : Nat × List Acc) (p : Int × Nat) =>
      if p.1 ≠ 0 then (st.1 + 1, st.2 ++ [wr "temp" p.2 m, rd "x" st.1 n]) else st) (0, [])).2
  ++ [wr "temp" (-1) m, rd "x" (-1) n]

/-- run loop: `labels[ii-1]`, `z[ii]`, `out[kk]` -/
def tinterpRuns (labels : List Int) (l : Nat) : List Acc :=
  let m := labels.length
  let step := fun (st : Nat × Nat × Int × List Acc) (ll : Int) =>
    let (ii, kk, prev, acc) := st
    if ll = prev then (ii + 1, kk, ll, acc ++ [rd "labels" ((ii : Int) - 1) m, rd "z" ii m])
    else (ii + 1, kk + 1, ll, acc ++ [rd "labels" ((ii : Int) - 1) m, wr "out" kk l, rd "z" ii m])
  match labels with
  | [] => [rd "z" 0 0]
  | l0 :: rest =>
    let (_, kk, _, acc) := rest.foldl step (1, 0, l0, [rd "z" 0 m])
    acc ++ [wr "out" kk l]

/-! ### do_mean: `sums[z_idx]`, `counts[z_idx]` for pixels passing the guard -/
def zonalTrace (pix zones : List Int) (numZones : Nat) (nodata znodata : Int) : List Acc :=
  (pix.zip zones).flatMap fun (v, z) =>
    if v ≠ nodata ∧ z ≠ znodata then [wr "sums" z numZones, wr "counts" z numZones] else []

/-! ### rolling_sum(xx[n], window) -> yy[n] -/
def rollingTrace (n : Nat) (window : Int) : List Acc :=
  (upto n).flatMap fun ii =>
    if ii - window + 1 < 0 then [wr "yy" ii n]
    else (rangeI (ii - window + 1) (ii + 1)).flatMap (fun jj => [rd "xx" jj n, wr "yy" ii n]) ++ [wr "yy" ii n]

/-! ### V-curve kernels: grid-side indexing for a grid of `nl` entries and a series of `m` cells -/
def vcurveTrace (m nl : Nat) : List Acc :=
  (upto nl).flatMap (fun lix =>
      [rd "llas" lix nl, wr "fits" lix nl, wr "pens" lix nl]
      ++ (upto (m - 1)).flatMap (fun i => [rd "z" i m, rd "z" (i + 1) m, wr "diff1" i (m - 1)])
      ++ (upto (m - 2)).flatMap (fun i => [rd "diff1" i (m - 1), rd "diff1" (i + 1) (m - 1)]))
  ++ [rd "llas" 1 nl, rd "llas" 0 nl]
  ++ (upto (nl - 1)).flatMap (fun i =>
      [rd "llas" i nl, rd "llas" (i + 1) nl, rd "fits" i nl, rd "fits" (i + 1) nl,
       rd "pens" i nl, rd "pens" (i + 1) nl, wr "v" i (nl - 1), wr "lamids" i (nl - 1)])
  ++ [rd "v" 0 (nl - 1)]
  ++ (rangeI 1 ((nl : Int) - 1)).map (fun i => rd "v" i (nl - 1))
  ++ [rd "lamids" 0 (nl - 1)]

/-- cells of array `a` stored by a trace -/
def written (t : List Acc) (a : String) : List Int :=
  (t.filter fun x => x.write ∧ x.arr = a).map Acc.cell

end Hdc.Bounds
