import Hdc.Model.Ws2d
/-
Models of the smoother kernels wrapped around `ws2d`:
  ws2dgu, ws2dpgu, ws2doptv, ws2doptvp / _ws2doptvp, ws2doptvplc, ws2dwcv, ws2dwcvp
(hdc/algo/ops/ws2d*.py).  Each returns the *unrounded* curve (the int16 band is its
half-to-even rounding, `Hdc.Py.roundHalfEven`, applied by the caller) and the reported λ;
`none` stands for the pass-through branch `out[:] = y[:]; lopt = 0`.

`miss : α → Bool` is the missing-cell test of the kernel: `x == nodata || isnan x || isinf x`
for gu/pgu/wcv/wcvp and `x == nodata` for the V-curve kernels.  Transcendental functions
are parameters (`VFns`, `GFns`).
-/
namespace Hdc
variable {α : Type} [Add α] [Sub α] [Mul α] [Div α] [Neg α] [NatCast α] [LT α] [DecidableLT α]

/-- `w = 1 - [miss x for x in y]` -/
def weightsOf (miss : α → Bool) (y : List α) : List α :=
  y.map fun x => if miss x then nat 0 else nat 1

/-- `np.where(w == 0, 0.0, y)` -/
def cleanOf (miss : α → Bool) (y : List α) : List α :=
  y.map fun x => if miss x then nat 0 else x

/-- number of valid cells (`n = np.sum(w)`) -/
def countValid (miss : α → Bool) (y : List α) : Nat :=
  (y.filter fun x => !miss x).length

def zerosLike (y : List α) : List α := y.map fun _ => nat 0

/-! ### fixed λ -/

/-- ws2dgu: `none` = input returned unchanged -/
def gu (miss : α → Bool) (y : List α) (lam : α) : Option (List α) :=
  if eqv lam (nat 0) then none
  else if 1 < countValid miss y then some (ws2d (cleanOf miss y) lam (weightsOf miss y))
  else none

/-- asymmetric weights: `ww = w * (p if y > z else 1 - p)` -/
def asymW (p : α) : List α → List α → List α → List α
  | w :: ws, y :: ys, z :: zs => (w * (if z < y then p else nat 1 - p)) :: asymW p ws ys zs
  | _, _, _ => []

/-- `np.sum(np.abs(znew - z))` -/
def l1dist (a b : List α) : α :=
  (List.zipWith (fun x y => absv (x - y)) a b).foldl (· + ·) (nat 0)

/-- the re-weighting loop shared by every asymmetric kernel.  Returns the curve `z` the
    loop ended with and the last weight vector `ww`.  `fuel` passes (10 in the source);
    stops early when a pass reproduces the previous curve. -/
def irls (y w : List α) (lam p : α) : Nat → List α → List α → List α × List α
  | 0, z, ww => (z, ww)
  | k + 1, z, _ =>
    let ww := asymW p w y z
    let znew := ws2d y lam ww
    if eqv (l1dist znew z) (nat 0) then (z, ww) else irls y w lam p k znew ww

/-- the final curve of an asymmetric fit started from the zero curve -/
def expectile (y w : List α) (lam p : α) : List α :=
  ws2d y lam (irls y w lam p 10 (zerosLike y) (zerosLike y)).2

/-- ws2dpgu -/
def pgu (miss : α → Bool) (y : List α) (lam p : α) : Option (List α) :=
  if eqv lam (nat 0) then none
  else if 1 < countValid miss y then some (expectile (cleanOf miss y) (weightsOf miss y) lam p)
  else none

/-! ### V-curve -/

structure VFns (α : Type) where
  log : α → α
  sqrt : α → α
  pow10 : α → α
  /-- `log(10)` -/
  ln10 : α

/-- left-to-right accumulation from 0, as the `+=` loops and Numba's `np.sum` do -/
def sumF (xs : List α) : α := xs.foldl (· + ·) (nat 0)

/-- the terms `(w (y - z))²` -/
def fitTerms : List α → List α → List α → List α
  | w :: ws, y :: ys, z :: zs => (let t := w * (y - z); t * t) :: fitTerms ws ys zs
  | _, _, _ => []

/-- `Σ (w (y - z))²` -/
def fitSS (w y z : List α) : α := sumF (fitTerms w y z)

def diffs : List α → List α
  | a :: b :: rest => (b - a) :: diffs (b :: rest)
  | _ => []

/-- `Σ (Δ² z)²` -/
def penSS (z : List α) : α :=
  sumF ((diffs (diffs z)).map fun t => t * t)

/-- v[i] and lamids[i] from consecutive grid points -/
def vcurve (F : VFns α) (step : α) : List (α × α × α) → List (α × α)
  | (l1, f1, p1) :: (l2, f2, p2) :: rest =>
    (F.sqrt ((f2 - f1) * (f2 - f1) + (p2 - p1) * (p2 - p1)) / (F.ln10 * step), (l1 + l2) / nat 2)
      :: vcurve F step ((l2, f2, p2) :: rest)
  | _ => []

/-- first index attaining a strict running minimum (`if v[i] < vmin`), with its entry -/
def argminFirst : List (α × α) → Option (α × α)
  | [] => none
  | x :: xs => some (xs.foldl (fun best c => if c.1 < best.1 then c else best) x)

def gridStep : List α → α
  | a :: b :: _ => b - a
  | _ => nat 0

/-- generic V-curve selection given a per-λ fit function threading a state `σ`
    (the warm-started curve of the asymmetric kernels; `Unit` for ws2doptv) -/
def vselect {σ : Type} (F : VFns α) (w y : List α) (llas : List α)
    (fit : σ → α → σ × List α) (s0 : σ) : Option α :=
  let pts := (llas.foldl (fun (acc : σ × List (α × α × α)) l =>
      let (s', z) := fit acc.1 (F.pow10 l)
      (s', acc.2 ++ [(l, F.log (fitSS w y z), F.log (penSS z))])) (s0, [])).2
  (argminFirst (vcurve F (gridStep llas) pts)).map fun b => F.pow10 b.2

/-- ws2doptv: (curve, lopt) -/
def optv (F : VFns α) (miss : α → Bool) (y llas : List α) : Option (List α × α) :=
  if 1 < countValid miss y then
    let w := weightsOf miss y
    match vselect F w y llas (fun (_ : Unit) lam => ((), ws2d y lam w)) () with
    | some lopt => some (ws2d y lopt w, lopt)
    | none => none
  else none

/-- core of ws2doptvp / _ws2doptvp / ws2doptvplc: the sweep warm-starts each λ from the
    curve of the previous one; the final fit restarts from the zero curve -/
def optvpCore (F : VFns α) (y w : List α) (p : α) (llas : List α) : Option (List α × α) :=
  match vselect F w y llas (fun (z : List α) lam => let r := irls y w lam p 10 z (zerosLike y); (r.1, r.1))
      (zerosLike y) with
  | some lopt => some (expectile y w lopt p, lopt)
  | none => none

/-- ws2doptvp -/
def optvp (F : VFns α) (miss : α → Bool) (y : List α) (p : α) (llas : List α) : Option (List α × α) :=
  if 1 < countValid miss y then optvpCore F y (weightsOf miss y) p llas else none

/-- ws2doptvplc: the grid is chosen from the lag-1 correlation.
    `hi` = `lc > 0.5`, `lo` = `lc <= 0.5`; neither (NaN) selects the third grid. -/
def optvplc (F : VFns α) (miss : α → Bool) (y : List α) (p : α) (hi lo : Bool)
    (gridHi gridLo gridNan : List α) : Option (List α × α) :=
  if 1 < countValid miss y then
    optvpCore F y (weightsOf miss y) p (if hi then gridHi else if lo then gridLo else gridNan)
  else none

/-! ### generalised cross-validation -/

structure GFns (α : Type) where
  /-- `(-2 + 2 cos(i π / m))` for i ≥ 1; entry 0 is replaced by `eig0` (1e-15) -/
  eig : Nat → Nat → α
  eig0 : α
  sqrt : α → α
  /-- `x ** 0.5` -/
  sqrtw : α → α
  pow10 : α → α
  big : α     -- 1e15
  c1 : α      -- 1.4826
  c2 : α      -- 4.685
  madtol : α  -- 1e-9

def deigs (G : GFns α) (m : Nat) : List α :=
  (List.range m).map fun i => if i = 0 then G.eig0 else G.eig i m

def mul2 : List α → List α → List α
  | a :: as, b :: bs => (a * b) :: mul2 as bs
  | _, _ => []

def sub2 : List α → List α → List α
  | a :: as, b :: bs => (a - b) :: sub2 as bs
  | _, _ => []

/-- `gamma = w_temp / (w_temp + s * ((-1 * d_eigs) ** 2))` -/
def gammaOf (wt de : List α) (s : α) : List α :=
  (wt.zip de).map fun (w, d) => w / (w + s * ((-(nat 1) * d) * (-(nat 1) * d)))

/-- GCV score of one λ; also returns the curve -/
def gcvScore (G : GFns α) (y wt de : List α) (s : α) : α × List α :=
  let z := ws2d y s wt
  let trH := sumF (gammaOf wt de s)
  let wsse := sumF ((mul2 (wt.map G.sqrtw) (sub2 y z)).map fun t => t * t)
  let sw := sumF wt
  let den := sw * ((nat 1 - trH / sw) * (nat 1 - trH / sw))
  (wsse / den, z)

/-- running best `(score, λ, curve)`; the curve is `none` until a score beats `big` -/
structure Best (α : Type) where
  score : α
  lam : α
  ytemp : Option (List α)

def gcvSweep (G : GFns α) (y wt de : List α) (lams : List α) (b : Best α) : Best α :=
  lams.foldl (fun b s =>
    let (sc, z) := gcvScore G y wt de s
    if sc < b.score then ⟨sc, s, some z⟩ else b) b

/-- ascending sort (for `np.median`) -/
def sortL (xs : List α) : List α := xs.mergeSort fun a b => !decide (b < a)

/-- `np.median` of a non-empty list -/
def median (xs : List α) : α :=
  let s := sortL xs
  let n := s.length
  if n % 2 = 1 then s.getD (n / 2) (nat 0)
  else (s.getD (n / 2 - 1) (nat 0) + s.getD (n / 2) (nat 0)) / nat 2

/-- `np.max` / `np.min` of a non-empty list (0 for the empty list, which the kernels never form) -/
def maxL : List α → α
  | [] => nat 0
  | x :: xs => xs.foldl (fun m v => if m < v then v else m) x
def minL : List α → α
  | [] => nat 0
  | x :: xs => xs.foldl (fun m v => if v < m then v else m) x

/-- one robust re-weighting step.  `r = y - y_temp`; returns the new `r_weights`.
    The weights are kept when the MAD is at rounding-noise level relative to the spread of the valid data
    (`mad <= madtol * (1 + max - min)`) and when fewer than two cells would keep a positive weight. -/
def robustStep (G : GFns α) (y ytemp wt de rw w : List α) (s : α) (n : α) : List α :=
  let r := sub2 y ytemp
  let rsel := ((r.zip wt).filter fun (_, wi) => !(eqv wi (nat 0))).map (·.1)
  let med := median rsel
  let mad := median (rsel.map fun x => absv (x - med))
  let yv := ((y.zip w).filter fun (_, wi) => !(eqv wi (nat 0))).map (·.1)
  let madMin := G.madtol * (nat 1 + (maxL yv - minL yv))
  if madMin < mad then
    let h := sumF (gammaOf wt de s)
    let scale := G.c1 * mad * G.sqrt (nat 1 - h / n)
    let rnew := r.map fun ri =>
      let u := ri / scale
      let t := u / G.c2
      if nat 0 < ri then nat 1
      else if nat 1 < absv t then nat 0
      else (nat 1 - t * t) * (nat 1 - t * t)
    if 1 < ((mul2 w rnew).filter fun x => decide (nat 0 < x)).length then rnew else rw
  else rw

/-- iterations of the robust loop.  Returns (list of best-so-far after each iteration, r_weights);
    `none` = the source would read the unassigned `y_temp`. -/
def gcvIter (G : GFns α) (y w de llasPow : List α) (robust : Bool) (n : α) :
    Nat → Nat → Best α → List α → List (Best α) → Option (List (Best α) × List α)
  | 0, _, _, rw, hist => some (hist, rw)
  | k + 1, it, b, rw, hist =>
    let lams := if 1 < it then (match hist with | _ :: b1 :: _ => [b1.lam] | _ => []) else llasPow
    let wt := mul2 w rw
    let b' := gcvSweep G y wt de lams b
    if robust then
      match b'.ytemp with
      | none => none
      | some yt =>
        let rw' := robustStep G y yt wt de rw w b'.lam n
        gcvIter G y w de llasPow robust n k (it + 1) b' rw' (hist ++ [b'])
    else gcvIter G y w de llasPow robust n k (it + 1) b' rw (hist ++ [b'])

/-- λ selection + final robust weights of ws2dwcv / ws2dwcvp on cleaned data -/
def gcvSelect (G : GFns α) (y w llas : List α) (robust : Bool) : Option (α × List α) :=
  let de := deigs G y.length
  let n := sumF w
  match gcvIter G y w de (llas.map G.pow10) robust n (if robust then 4 else 1) 0
      ⟨G.big, nat 0, none⟩ (y.map fun _ => nat 1) [] with
  | none => none
  | some (hist, rw) =>
    let lopt := if robust then (hist.getD 1 ⟨nat 0, nat 0, none⟩).lam
                else (hist.getD 0 ⟨nat 0, nat 0, none⟩).lam
    some (lopt, mul2 w rw)

/-- result of a GCV kernel: pass-through, the source's unbound-variable failure, or a curve -/
inductive GcvOut (α : Type) where
  | passthrough
  | unbound
  | ok (z : List α) (lopt : α)

/-- ws2dwcv -/
def wcv (G : GFns α) (miss : α → Bool) (y llas : List α) (robust : Bool) : GcvOut α :=
  if 4 < countValid miss y then
    let yc := cleanOf miss y
    match gcvSelect G yc (weightsOf miss y) llas robust with
    | none => .unbound
    | some (lopt, rwts) => .ok (ws2d yc lopt rwts) lopt
  else .passthrough

/-- ws2dwcvp -/
def wcvp (G : GFns α) (miss : α → Bool) (y : List α) (p : α) (llas : List α) (robust : Bool) : GcvOut α :=
  if 4 < countValid miss y then
    let yc := cleanOf miss y
    match gcvSelect G yc (weightsOf miss y) llas robust with
    | none => .unbound
    | some (lopt, rwts) => .ok (expectile yc rwts lopt p) lopt
  else .passthrough

end Hdc
