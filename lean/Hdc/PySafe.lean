/-
PySafe  Hand-written, kernel-independent predicates used by the INSTRUMENTED translations (`Hdc/Gen/Safe*.lean`,
written by the `safe` mode of harness/translate_ws2d.py and harness/py2lean_num.py).  No Mathlib, no model, no kernel.

An instrumented program is the ordinary translation plus one mutable flag `bad : Bool`; before every statement the
flag is or-ed with the conditions under which Python / a bounds-checking Numba would have raised in that statement:

  `oob n i`            a subscript `a[i]` (read or store) on an array of length `n` whose index is outside Python's
                       accepted range `-n ≤ i < n` (negative indices wrap around; Numba compiles WITHOUT this check)
  `badSlice n lo hi`   a slice `a[lo:hi]` whose bounds are not `0 ≤ lo ≤ hi ≤ n` (NumPy never raises on a slice: it
                       wraps negative bounds and clamps silently; the instrumented program flags every slice that is
                       not literally the cells `lo, …, hi-1` of the array)
  `badSliceFrom n lo`  the same for `a[lo:]`: flagged unless `0 ≤ lo ≤ n`

Scalar divisions `e1 / e2` are flagged with `eqv e2 (nat 0)` (carrier) resp. `decide (k = 0)` (an `int` divisor).
-/
namespace Hdc

/-- `a[i]` with `len a = n` raises IndexError: `i` is not in `[-n, n)` -/
def oob (n : Nat) (i : Int) : Bool := !(decide (-(n : Int) ≤ i) && decide (i < (n : Int)))

/-- `a[lo:hi]` with `len a = n` is not literally the cells `lo … hi-1` -/
def badSlice (n : Nat) (lo hi : Int) : Bool :=
  !(decide ((0 : Int) ≤ lo) && decide (lo ≤ hi) && decide (hi ≤ (n : Int)))

/-- `a[lo:]` with `len a = n` is not literally the cells `lo … n-1` -/
def badSliceFrom (n : Nat) (lo : Int) : Bool := !(decide ((0 : Int) ≤ lo) && decide (lo ≤ (n : Int)))

theorem oob_eq_false {n : Nat} {i : Int} (h1 : -(n : Int) ≤ i) (h2 : i < (n : Int)) : oob n i = false := by
  simp [oob, h1, h2]

theorem oob_eq_false_iff {n : Nat} {i : Int} : oob n i = false ↔ (-(n : Int) ≤ i ∧ i < (n : Int)) := by
  simp [oob]

theorem badSlice_eq_false_iff {n : Nat} {lo hi : Int} :
    badSlice n lo hi = false ↔ ((0 : Int) ≤ lo ∧ lo ≤ hi ∧ hi ≤ (n : Int)) := by
  simp [badSlice, and_assoc]

theorem badSliceFrom_eq_false_iff {n : Nat} {lo : Int} :
    badSliceFrom n lo = false ↔ ((0 : Int) ≤ lo ∧ lo ≤ (n : Int)) := by
  simp [badSliceFrom]

end Hdc
