import Hdc.Num
import Hdc.Py
import Hdc.Model.Smooth
/-
PyNpT  NumPy / Python idioms as generic Lean combinators.  HAND-WRITTEN, kernel independent.

The translator `harness/py2lean_stats.py` maps every vector idiom of the sources it translates to ONE combinator of this file
(so the translation stays compositional: a statement of the source becomes a statement of the generated program, a NumPy
call becomes a call of the combinator of the same name).  Lemmas about the combinators: Hdc/Lemmas/PyNpT.lean.

  mask / gather / scatter     `a == k`  -> npEqMask      `a[mask]` -> npCompress      `a[mask] = v` -> npMaskSet
  generic cells               `a[i]`    -> rdD a i d     `a[i] = v` -> wrG            (Python index wrap-around, as `rd`/`wr`)
  n-d arrays, row-major       `a[i, j]` -> index `flat2 d0 d1 i j`, `a[i, j, k]` -> `flat3 d0 d1 d2 i j k` of the flattened array
  slices                      `a[lo:hi]` -> pySliceG
  externals                   `np.unique` -> npUnique (= Hdc.Py.unique), `np.median`/`np.nanmedian` -> npMedian (= Hdc.median),
                              `np.ones(n)` / `np.zeros(n)` -> npFull n v
  floating results of an integer kernel   `FloatOps β` (conversion, addition, true division, NaN of the floating type)
-/
namespace Hdc.PyNpT

/-- The floating type `β` an integer kernel computes its results in (Numba unifies a variable that is assigned integers
    and a true division to float64): conversion of an integer, addition, true division and NaN.  Abstract, so that the
    generated program can be run at `β := Int × Int` (`div` = pairing: the quotient before it is evaluated) as well as at a field. -/
structure FloatOps (β : Type) where
  lit : Int → β
  add : β → β → β
  div : β → β → β
  nan : β

/-- the mean a kernel stores for a group with the exact sum `s` of its `c` valid cells: `empty` when there is none, the
    (unevaluated) quotient otherwise -/
def FloatOps.quot {β : Type} (F : FloatOps β) (empty : β) (s : Int) (c : Nat) : β :=
  if c = 0 then empty else F.div (F.lit s) (F.lit (c : Int))

/-- the division kept as a pair: `β = Int × Int`, `lit a = (a, 1)`, `div (a, _) (b, _) = (a, b)`; with these operations
    a generated program returns the numerators and denominators of its quotients -/
def FloatOps.pair : FloatOps (Int × Int) :=
  ⟨fun a => (a, 1), fun a b => (a.1 + b.1, 1), fun a b => (a.1, b.1), (0, 0)⟩

/-- Python index on an array of length `n`: negative indices wrap around -/
def ix (n : Nat) (i : Int) : Nat := if i < 0 then (i + (n : Int)).toNat else i.toNat

/-- `a[i]` for cells of any type (`d` when out of range) -/
def rdD {γ : Type} (a : Array γ) (i : Int) (d : γ) : γ := a.getD (ix a.size i) d

/-- `a[i] = v` for cells of any type (dropped when out of range) -/
def wrG {γ : Type} (a : Array γ) (i : Int) (v : γ) : Array γ := a.setIfInBounds (ix a.size i) v

/-- `a == k` on an integer array: the boolean mask -/
def npEqMask (a : Array Int) (k : Int) : Array Bool := a.map fun v => decide (v = k)

/-- `a[mask]`: the cells of `a` at the `True` positions of the mask, in order -/
def npCompress {γ : Type} (a : Array γ) (mask : Array Bool) : Array γ :=
  (((a.toList.zip mask.toList).filter fun p => p.2).map fun p => p.1).toArray

/-- `a[mask] = v` (scalar `v`): overwrite the cells at the `True` positions of the mask -/
def npMaskSet {γ : Type} (a : Array γ) (mask : Array Bool) (v : γ) : Array γ :=
  (a.toList.zipIdx.map fun p => if mask.getD p.2 false then v else p.1).toArray

/-- index along one axis of length `n`: negative indices wrap around -/
def ax (n i : Int) : Int := if i < 0 then i + n else i

/-- position of `a[i, j]` in the row-major flattening of an array of shape `(d0, d1)` (no bounds check, as Numba) -/
def flat2 (d0 d1 i j : Int) : Int := ax d0 i * d1 + ax d1 j

/-- position of `a[i, j, k]` in the row-major flattening of an array of shape `(d0, d1, d2)` -/
def flat3 (d0 d1 d2 i j k : Int) : Int := (ax d0 i * d1 + ax d1 j) * d2 + ax d2 k

/-- `np.zeros(n)`, `np.ones(n)`, `np.full(n, v)` (also for a shape tuple: `n` = the product of the dimensions) -/
def npFull {γ : Type} (n : Int) (v : γ) : Array γ := Array.replicate n.toNat v

/-- `a[lo:hi]` (step 1; `lo`, `hi` possibly negative), cells of any type -/
def pySliceG {γ : Type} (a : Array γ) (lo hi : Int) : Array γ :=
  let n : Int := a.size
  let norm := fun (i : Int) => (if i < 0 then max 0 (i + n) else min i n).toNat
  a.extract (norm lo) (norm hi)

section num
variable {α : Type} [Add α] [Sub α] [Mul α] [Div α] [Neg α] [NatCast α] [LT α] [DecidableLT α]

/-- `np.unique(a)`: the sorted distinct values (EXTERNAL: mapped to the model's `Hdc.Py.unique`) -/
def npUnique (a : Array α) : Array α := (Hdc.Py.unique a.toList).toArray

/-- `np.median(a)` / `np.nanmedian(a)` on NaN-free data (EXTERNAL: mapped to the model's `Hdc.median`, median by sorting) -/
def npMedian (a : Array α) : α := Hdc.median a.toList

end num

end Hdc.PyNpT
