/-
PySafeV  Hand-written, kernel-independent predicates for the SHAPE checks of the instrumented translations written by
harness/py2lean_optvp.py (`SafeMixinV`), next to the bounds checks of Hdc/PySafe.lean.  No Mathlib, no model, no kernel.

NumPy raises `ValueError: could not broadcast input array …` when an array is stored into a slice (or into the `out`
argument of a ufunc) whose shape differs from the shape of the source.  The instrumented program flags

  `lenDiff n k`            `a[:] = b` / `np.round(b, 0, a)` with `len a = n`, `len b = k`, unless `n = k`
  `badStoreLen lo hi k`    `a[lo:hi] = b` with `len b = k`, unless `hi - lo = k`  (the bounds themselves are checked by
                           `badSlice (len a) lo hi`: when that check is silent the slice has exactly `hi - lo` cells)

A one-cell source, which NumPy would broadcast over the target, is flagged as well (the translation `PyNpV.npSetSlice`
does not broadcast; the kernels never rely on it).
-/
namespace Hdc.PySafeV

/-- the source (`k` cells) of a whole-array store does not have the `n` cells of the target -/
def lenDiff (n k : Nat) : Bool := !(decide (n = k))

/-- the source (`k` cells) of a store into `a[lo:hi]` does not have `hi - lo` cells -/
def badStoreLen (lo hi : Int) (k : Nat) : Bool := !(decide (hi - lo = (k : Int)))

theorem lenDiff_eq_false_iff {n k : Nat} : lenDiff n k = false ↔ n = k := by
  simp [lenDiff]

theorem badStoreLen_eq_false_iff {lo hi : Int} {k : Nat} : badStoreLen lo hi k = false ↔ hi - lo = (k : Int) := by
  simp [badStoreLen]

theorem lenDiff_self (n : Nat) : lenDiff n n = false := by simp [lenDiff]

end Hdc.PySafeV
