import Hdc.Gen.NumBase
/-
PyNpS  Hand-written, kernel-independent combinators for the NumPy vector idioms that the translators
(harness/py2lean_spi.py) emit, with their basic lemmas.  Nothing here mentions a translated kernel or a model.

  scalar     `maxv` (Python `max`), `clipv` (`np.clip` on one element = `min(max(e, lo), hi)`)
  creation   `npFull n v`, `npFullLike x v`, `npFullLike3 x v`
  slicing    `pySlice a lo hi`  = `a[lo:hi]` with Python's wrap-around of negative bounds and clamping
  masks      `npCount m` = `m.sum()`, `npGather a m` = `a[m]`, `npMaskFill a m v` = `a[m] = v` (scalar),
             `npMaskSet a m vals` = `a[m] = vals` (values consumed in order)
  2-d / 3-d  `rdI2 c i j` = `c[i, j]`, `rd3 x r c` = `x[r, c, :]`, `wr3 y r c row` = `y[r, c, :] = row`, `shape3`
Element-wise arithmetic / comparisons are translated to `Array.map` with a lambda, so they need no combinator.

NumPy raises on shape mismatches (`a[m]` with `len m ≠ len a`, `a[m] = vals` with the wrong number of values); the
combinators are total (they stop at the shorter list / keep the old cell), the refinement theorems carry the length
hypotheses.
-/
namespace Hdc
open Hdc.Gen.NumKernels (ix rdI)

section scalar
variable {α : Type} [Add α] [Sub α] [Mul α] [Div α] [Neg α] [NatCast α] [LT α] [DecidableLT α]

/-- Python `max(a, b)`: the first maximal argument -/
def maxv (a b : α) : α := if a < b then b else a

/-- `np.clip(e, lo, hi)` on one element: `minimum(maximum(e, lo), hi)` -/
def clipv (e lo hi : α) : α := minv (maxv e lo) hi

end scalar

section arrays
variable {β γ : Type}

/-- `np.full(n, v)` -/
def npFull (n : Int) (v : β) : Array β := Array.replicate n.toNat v

/-- `np.full_like(x, v)` for a 1-d `x` -/
def npFullLike (x : Array γ) (v : β) : Array β := Array.replicate x.size v

/-- `np.full_like(x, v)` for a 3-d `x` -/
def npFullLike3 (x : Array (Array (Array γ))) (v : β) : Array (Array (Array β)) :=
  x.map fun p => p.map fun row => row.map fun _ => v

/-- a slice bound: negative bounds count from the end, everything is clamped to `[0, n]` -/
def sliceIdx (n : Nat) (i : Int) : Nat := if i < 0 then (i + (n : Int)).toNat else min i.toNat n

/-- `a[lo:hi]` -/
def pySlice (a : Array β) (lo hi : Int) : Array β := a.extract (sliceIdx a.size lo) (sliceIdx a.size hi)

/-- `m.sum()` of a boolean array -/
def npCount (m : Array Bool) : Int := ((m.toList.filter id).length : Nat)

def gatherL : List β → List Bool → List β
  | x :: xs, b :: bs => if b then x :: gatherL xs bs else gatherL xs bs
  | _, _ => []

/-- `a[m]` for a boolean mask -/
def npGather (a : Array β) (m : Array Bool) : Array β := (gatherL a.toList m.toList).toArray

def maskFillL : List β → List Bool → β → List β
  | x :: xs, b :: bs, v => (if b then v else x) :: maskFillL xs bs v
  | xs, _, _ => xs

/-- `a[m] = v` (scalar) -/
def npMaskFill (a : Array β) (m : Array Bool) (v : β) : Array β := (maskFillL a.toList m.toList v).toArray

def maskSetL : List β → List Bool → List β → List β
  | x :: xs, b :: bs, vals =>
    if b then
      match vals with
      | v :: vs => v :: maskSetL xs bs vs
      | [] => x :: maskSetL xs bs []
    else x :: maskSetL xs bs vals
  | xs, _, _ => xs

/-- `a[m] = vals` (array): the values are consumed in order -/
def npMaskSet (a : Array β) (m : Array Bool) (vals : Array β) : Array β :=
  (maskSetL a.toList m.toList vals.toList).toArray

/-- `c[i, j]` on a 2-d integer array (rows) -/
def rdI2 (c : Array (Array Int)) (i j : Int) : Int := rdI (c.getD (ix c.size i) #[]) j

/-- `x[r, c, :]` -/
def rd3 (x : Array (Array (Array β))) (r c : Int) : Array β :=
  let p := x.getD (ix x.size r) #[]
  p.getD (ix p.size c) #[]

/-- `y[r, c, :] = row` -/
def wr3 (y : Array (Array (Array β))) (r c : Int) (row : Array β) : Array (Array (Array β)) :=
  let p := y.getD (ix y.size r) #[]
  y.setIfInBounds (ix y.size r) (p.setIfInBounds (ix p.size c) row)

/-- `x.shape[k]` of a 3-d array stored as rows of columns of series -/
def shape3 (x : Array (Array (Array β))) (k : Nat) : Nat :=
  match k with
  | 0 => x.size
  | 1 => (x.getD 0 #[]).size
  | _ => ((x.getD 0 #[]).getD 0 #[]).size

end arrays

/-! ### lemmas -/

section lemmas
variable {β γ : Type}

@[simp] theorem size_npFull (n : Int) (v : β) : (npFull n v).size = n.toNat := by simp [npFull]
@[simp] theorem size_npFullLike (x : Array γ) (v : β) : (npFullLike x v).size = x.size := by simp [npFullLike]

theorem toList_npFull (n : Int) (v : β) : (npFull n v).toList = List.replicate n.toNat v := by simp [npFull]
theorem toList_npFullLike (x : Array γ) (v : β) : (npFullLike x v).toList = List.replicate x.size v := by
  simp [npFullLike]

theorem sliceIdx_nat (n k : Nat) : sliceIdx n (k : Int) = min k n := by
  have : ¬ ((k : Int) < 0) := by omega
  simp [sliceIdx, this]

/-- `a[lo:hi]` for non-negative bounds is `drop lo` then `take (hi - lo)` -/
theorem toList_pySlice_nat (l : List β) (lo hi : Nat) :
    (pySlice l.toArray (lo : Int) (hi : Int)).toList = (l.drop lo).take (hi - lo) := by
  simp only [pySlice, sliceIdx_nat, List.size_toArray, List.extract_toArray, List.extract_eq_take_drop]
  rcases Nat.lt_or_ge l.length lo with h | h
  · rw [Nat.min_eq_right (Nat.le_of_lt h), List.drop_of_length_le (Nat.le_refl _),
      List.drop_of_length_le (Nat.le_of_lt h)]
    simp
  · rw [Nat.min_eq_left h]
    apply List.ext_getElem?
    intro i
    simp only [List.getElem?_take, List.getElem?_drop]
    by_cases h1 : i < hi - lo
    · by_cases h2 : i < min hi l.length - lo
      · simp [h1, h2]
      · have : l.length ≤ lo + i := by omega
        simp [h1, h2, List.getElem?_eq_none this]
    · have h2 : ¬ i < min hi l.length - lo := by omega
      simp [h1, h2]

theorem pySlice_nat (l : List β) (lo hi : Nat) :
    pySlice l.toArray (lo : Int) (hi : Int) = ((l.drop lo).take (hi - lo)).toArray := by
  apply Array.toList_inj.1
  rw [toList_pySlice_nat]

theorem npCount_map (l : List β) (p : β → Bool) :
    npCount ((l.toArray).map p) = ((l.filter p).length : Nat) := by
  simp only [npCount, List.map_toArray]
  congr 1
  induction l with
  | nil => rfl
  | cons x xs ih => by_cases h : p x <;> simp_all

theorem toList_npGather (a : List β) (m : List Bool) :
    (npGather a.toArray m.toArray).toList = gatherL a m := by simp [npGather]

theorem toList_npMaskFill (a : List β) (m : List Bool) (v : β) :
    (npMaskFill a.toArray m.toArray v).toList = maskFillL a m v := by simp [npMaskFill]

theorem toList_npMaskSet (a : List β) (m : List Bool) (vals : List β) :
    (npMaskSet a.toArray m.toArray vals.toArray).toList = maskSetL a m vals := by simp [npMaskSet]

theorem npGather_toArray (a : List β) (m : List Bool) :
    npGather a.toArray m.toArray = (gatherL a m).toArray := by simp [npGather]

theorem npMaskFill_toArray (a : List β) (m : List Bool) (v : β) :
    npMaskFill a.toArray m.toArray v = (maskFillL a m v).toArray := by simp [npMaskFill]

theorem npMaskSet_toArray (a : List β) (m : List Bool) (vals : List β) :
    npMaskSet a.toArray m.toArray vals.toArray = (maskSetL a m vals).toArray := by simp [npMaskSet]

theorem npCount_toArray (m : List Bool) : npCount m.toArray = ((m.filter id).length : Nat) := by
  simp [npCount]

/-- the masked element-wise update `a[m] = f(a[m])` with `m = p(a)`: every selected cell is mapped -/
theorem maskSetL_map_gather (l : List β) (m : β → Bool) (f : β → β) :
    maskSetL l (l.map m) ((gatherL l (l.map m)).map f) = l.map fun e => if m e then f e else e := by
  induction l with
  | nil => rfl
  | cons x xs ih =>
    by_cases h : m x = true
    · simp [maskSetL, gatherL, h, ih]
    · simp [maskSetL, gatherL, h, ih]

theorem filter_id_map_length (l : List β) (p : β → Bool) :
    ((l.map p).filter id).length = (l.filter p).length := by
  induction l with
  | nil => rfl
  | cons x xs ih => by_cases h : p x <;> simp_all

theorem gatherL_length_le (a : List β) (m : List Bool) : (gatherL a m).length ≤ a.length := by
  induction a generalizing m with
  | nil => simp [gatherL]
  | cons x xs ih =>
    cases m with
    | nil => simp [gatherL]
    | cons b bs =>
      cases b <;> simp [gatherL] <;> have := ih bs <;> omega

end lemmas

end Hdc
