/-
PySafeF  Hand-written, kernel-independent predicate used by the INSTRUMENTED translations of the NumPy vector idioms
(`Hdc/Gen/SafeWs2dgu.lean`, `SafeWs2dpgu.lean`, written by the instrumentation mode of harness/py2lean_fixed.py).
No Mathlib, no model, no kernel.  Companion of Hdc/PySafe.lean (subscripts, slices) and Hdc/PyNpF.lean (the combinators).

  `lenDiffer m n`      two arrays that NumPy combines cell by cell have different lengths `m`, `n`: an elementwise
                       `A op B`, `np.where(C, X, Y)`, the in-place stores `a[:] = B`, `np.round(z, 0, out)`, `a[M] = s`
                       (mask `M` against `a`).  NumPy raises there (`ValueError: operands could not be broadcast together`,
                       `IndexError: boolean index did not match`), except that an operand of length 1 is broadcast; the
                       combinators of PyNpF.lean truncate to the shorter operand resp. keep the target.  The instrumented
                       program flags every such operation whose lengths are not literally equal.
-/
namespace Hdc

/-- the two lengths of a cell-by-cell NumPy operation differ -/
def lenDiffer (m n : Nat) : Bool := !(decide (m = n))

theorem lenDiffer_eq_false_iff {m n : Nat} : lenDiffer m n = false ↔ m = n := by
  simp [lenDiffer]

theorem lenDiffer_eq_false {m n : Nat} (h : m = n) : lenDiffer m n = false :=
  lenDiffer_eq_false_iff.2 h

@[simp] theorem lenDiffer_self (n : Nat) : lenDiffer n n = false := lenDiffer_eq_false rfl

theorem lenDiffer_eq_true_iff {m n : Nat} : lenDiffer m n = true ↔ m ≠ n := by
  simp [lenDiffer]

end Hdc
