import Hdc.Lemmas.GenNumOptvplcTyx
import Hdc.Lemmas.GenNumOptvplcTyxModel
import Hdc.Gen.NumWs2doptvplcTyx
import Std.Tactic.Do
/-
GenNumOptvplcTyx  The GENERATED translation of `hdc/algo/ops/ws2doptvplc.py::ws2doptvplc_tyx` (Hdc/Gen/NumWs2doptvplcTyx.lean,
written by harness/py2lean_tyx.py from the Python source on every run) computes, pixel by pixel, the hand model `Hdc.optvplc`.

  gen_tyx_struct               the loops: after them every pixel holds `pixOut` (the body in terms of the generated callees)
  gen_ws2doptvplc_tyx_pixel    MAIN: column `zz[:, r, c]` and `lopts[r, c]` = the model on the pixel's series
  gen_ws2doptvplc_tyx_shape    `zz.shape = (nt, nr, nc)`, `lopts.shape = (nr, nc)` (flattened sizes)

`numba.prange(nr)` is translated as `range(nr)`: the sequential order is one schedule.  That the iterations are independent (so
that every schedule gives the same result) is NOT proved here: it is Hdc/Props/C12.lean, from the effect summary of the kernel.
Types: `tyx`, `zz` integer (flattened, with the dimensions as parameters), `nodata` integer, `rnd : α → Int` = round half-even and
cast to the cell type; `arange`, the literals 0.5 1.2 0.2 3.2, `x ** -0.5` (`rsqrt`) and 1e-8 (`eps`) are parameters.
The callees are bridged by their own refinement theorems (`gen_ws2doptvpCore_eq_model`, `gen_autocorr_1d_nd_eq_model`); the source
smooths `xx` (0 in the nodata cells), the model the raw series: equal by `Smooth.optvpCore_masked`.
Method: `mvcgen`, one invariant per loop (rows, pixels of a row, cells of a pixel; Hdc/Lemmas/GenNumOptvplcTyx.lean).
-/
namespace Hdc.GenNumTyx
open Hdc Hdc.Gen.NumKernels Hdc.PyNpT Hdc.PyNpX Hdc.GenNum Std.Do
open Hdc.GenKernels (gv)

set_option mvcgen.warning false
set_option linter.unusedSimpArgs false
set_option linter.unusedTactic false
set_option linter.unreachableTactic false

variable {α : Type} [Field α] [LinearOrder α] [IsStrictOrderedRing α]

theorem gen_tyx_struct (F : VFns α) (rnd : α → Int) (rsqrt : α → α) (eps : α) (arange : α → α → α → Array α)
    (c0_5 c1_2 c0_2 c3_2 : α) (tyx : List Int) (nt nr nc : ℕ) (p : α) (nodata : Int) :
    PixInv nt nr nc (fun r c => pixOut F rnd rsqrt eps (arange (-(nat 2)) c1_2 c0_2) (arange (nat 0) c3_2 c0_2) c0_5 p
        nodata (pixSeries tyx nt nr nc r c)) (nr * nc)
      (Gen.NumKernels.ws2doptvplc_tyx F rnd rsqrt eps arange c0_5 c1_2 c0_2 c3_2 tyx.toArray nt nr nc p nodata).1
      (Gen.NumKernels.ws2doptvplc_tyx F rnd rsqrt eps arange c0_5 c1_2 c0_2 c3_2 tyx.toArray nt nr nc p nodata).2 := by
  generalize hres : Gen.NumKernels.ws2doptvplc_tyx F rnd rsqrt eps arange c0_5 c1_2 c0_2 c3_2 tyx.toArray nt nr nc p
    nodata = res
  apply Id.of_wp_run_eq hres
  mvcgen invariants
  · ⇓⟨xs, s⟩ => ⌜PixInv nt nr nc (fun r c => pixOut F rnd rsqrt eps (arange (-(nat 2)) c1_2 c0_2) (arange (nat 0) c3_2 c0_2) c0_5 p
        nodata (pixSeries tyx nt nr nc r c)) (xs.prefix.length * nc) s.2.2.2.2.2.2.2.2.2.1 s.2.2.2.2.2.2.2.2.2.2⌝
  · ⇓⟨xs, s⟩ => by
      py_name cur as rr
      exact ⌜s.1.size = nt ∧ s.2.1.size = nt ∧ s.2.2.1.size = nt ∧
        PixInv nt nr nc (fun r c => pixOut F rnd rsqrt eps (arange (-(nat 2)) c1_2 c0_2) (arange (nat 0) c3_2 c0_2) c0_5 p
          nodata (pixSeries tyx nt nr nc r c)) (rr.toNat * nc + xs.prefix.length) s.2.2.2.2.2.2.2.2.2.1 s.2.2.2.2.2.2.2.2.2.2⌝
  · ⇓⟨xs, s⟩ => by
      py_name xx_raw as xr
      exact ⌜WInvT nodata xr xs.prefix.length s.1 s.2.1 s.2.2.1⌝
  all_goals
    pyn_ranges
    simp (config := {zetaDelta := true}) only [List.size_toArray, List.length_append,
      List.length_singleton, List.length_nil, GenNum.pyRange_length, decide_eq_true_eq, gt_iff_lt,
      Int.toNat_natCast, Int.sub_zero, SPred.down_pure] at *
  case vc1.step.isTrue =>
    obtain ⟨h1, h2, h3, hP⟩ := ‹_ ∧ _ ∧ _ ∧ PixInv _ _ _ _ _ _ _›
    have he := ‹rdI _ _ = nodata›
    py_name pref as pref
    rw [rdI_of_eq _ _ pref.length (by omega)] at he
    exact (‹WInvT _ _ _ _ _ _›).step_miss (by rw [size_npSetAll]; omega) (by omega) he
  case vc2.step.isFalse =>
    obtain ⟨h1, h2, h3, hP⟩ := ‹_ ∧ _ ∧ _ ∧ PixInv _ _ _ _ _ _ _›
    have hne := ‹¬ rdI _ _ = nodata›
    py_name pref as pref
    rw [rdI_of_eq _ _ pref.length (by omega)] at hne ⊢
    exact (‹WInvT _ _ _ _ _ _›).step_valid (by rw [size_npSetAll]; omega) (by omega) hne
  case vc3.step.pre =>
    obtain ⟨h1, h2, h3, hP⟩ := ‹_ ∧ _ ∧ _ ∧ PixInv _ _ _ _ _ _ _›
    exact WInvT.init nodata _ _ _ (by rw [size_npSetAll, h1, h2]) (by rw [size_npSetAll, h1, h3])
  case vc4.step.post.success.isTrue =>
    obtain ⟨h1, h2, h3, hP⟩ := ‹_ ∧ _ ∧ _ ∧ PixInv _ _ _ _ _ _ _›
    have hW := ‹WInvT _ _ _ _ _ _›
    refine ⟨by rw [size_npSetAll, h1], hW.sx.trans (by rw [size_npSetAll, h1]),
      hW.sw.trans (by rw [size_npSetAll, h1]), ?_⟩
    exact pix_step_fit F rnd rsqrt eps _ _ c0_5 p nodata tyx nt nr nc hP (by omega) (by omega)
      (col_eq_pixSeries tyx nt nr nc _ _ _ h1 (by omega) (by omega)) hW (by assumption) (by omega) (by omega)
  case vc5.step.post.success.isFalse =>
    obtain ⟨h1, h2, h3, hP⟩ := ‹_ ∧ _ ∧ _ ∧ PixInv _ _ _ _ _ _ _›
    have hW := ‹WInvT _ _ _ _ _ _›
    refine ⟨by rw [size_npSetAll, h1], hW.sx.trans (by rw [size_npSetAll, h1]),
      hW.sw.trans (by rw [size_npSetAll, h1]), ?_⟩
    exact pix_step_skip F rnd rsqrt eps _ _ c0_5 p nodata tyx nt nr nc hP (by omega)
      (col_eq_pixSeries tyx nt nr nc _ _ _ h1 (by omega) (by omega)) hW (by assumption)
  case vc6.step.pre =>
    py_name cur as rr; py_name pref as pref
    have : rr.toNat = pref.length := by omega
    exact ⟨by simp, by simp, by simp, (‹PixInv _ _ _ _ _ _ _›).cast (by rw [this]; simp)⟩
  case vc7.step.post.success =>
    obtain ⟨h1, h2, h3, hP⟩ := ‹_ ∧ _ ∧ _ ∧ PixInv _ _ _ _ _ _ _›
    py_name cur as rr; py_name pref as pref
    have : rr.toNat = pref.length := by omega
    exact hP.cast (by rw [this, Nat.add_mul, Nat.one_mul])
  case vc8.pre =>
    have e1 : ((nt : ℤ) * nr * nc).toNat = nt * nr * nc := by
      rw [← Nat.cast_mul, ← Nat.cast_mul]; exact Int.toNat_natCast _
    have e2 : ((nr : ℤ) * nc).toNat = nr * nc := by
      rw [← Nat.cast_mul]; exact Int.toNat_natCast _
    exact (PixInv.init nt nr nc _ _ _ e1 e2).cast (by simp)
  case vc9.post.success => assumption

/-- MAIN THEOREM.  For every pixel `(r, c)` of the cube: the column `zz[:, r, c]` and the cell `lopts[r, c]` returned by the
    translated `ws2doptvplc_tyx` are what the hand model `Hdc.optvplc` gives for the pixel's series
    `s = tyx[:, r, c]` (every cell cast to the carrier, missing = `== nodata`), with `hi := 0.5 < lc`, `lo := ¬ hi` and `lc` the
    MODEL autocorrelation `Hdc.autocorr1d` of the pixel: the curve rounded (and cast to the integer cell type) by `rnd`, and λ.
    The third grid of the model (`gNaN`, arbitrary) is never selected: this variant has only two grids, the second one also
    for `lc` NaN.  A pixel with fewer than two valid cells keeps the ZEROS of `np.zeros` and `lopts = 0` - NOT the input, as
    the gufunc `ws2doptvplc` does (`out[:] = y[:]`).

    Hypotheses: `r < nr`, `c < nc` (a pixel of the cube); only for a pixel with more than one valid cell: `3 ≤ nt` (what the
    translated `ws2d` needs) and at least 2 points in the selected grid.  No hypothesis on `len(tyx)`: cells beyond the
    buffer read 0 on both sides. -/
theorem gen_ws2doptvplc_tyx_pixel (F : VFns α) (rnd : α → Int) (rsqrt : α → α) (eps : α)
    (arange : α → α → α → Array α) (c0_5 c1_2 c0_2 c3_2 : α) (tyx : List Int) (nt nr nc : ℕ) (p : α) (nodata : Int)
    (gNaN : List α) (r c : ℕ) (hr : r < nr) (hc : c < nc)
    (hfit : 1 < goodI nodata (pixSeries tyx nt nr nc r c) → 3 ≤ nt ∧
      2 ≤ (if c0_5 < lcM rsqrt eps nodata (pixSeries tyx nt nr nc r c) then (arange (-(nat 2)) c1_2 c0_2).toList
           else (arange (nat 0) c3_2 c0_2).toList).length) :
    match Hdc.optvplc F (fun x : α => eqv x ((nodata : ℤ) : α)) (castS (pixSeries tyx nt nr nc r c)) p
        (decide (c0_5 < lcM rsqrt eps nodata (pixSeries tyx nt nr nc r c)))
        (!decide (c0_5 < lcM rsqrt eps nodata (pixSeries tyx nt nr nc r c)))
        (arange (-(nat 2)) c1_2 c0_2).toList (arange (nat 0) c3_2 c0_2).toList gNaN with
    | some (z, lo) =>
      npCol3 (Gen.NumKernels.ws2doptvplc_tyx F rnd rsqrt eps arange c0_5 c1_2 c0_2 c3_2 tyx.toArray nt nr nc p nodata).1
          (0 : Int) nt nr nc r c = (z.map rnd).toArray ∧
      rd (Gen.NumKernels.ws2doptvplc_tyx F rnd rsqrt eps arange c0_5 c1_2 c0_2 c3_2 tyx.toArray nt nr nc p nodata).2
          (flat2 nr nc r c) = lo
    | none =>
      npCol3 (Gen.NumKernels.ws2doptvplc_tyx F rnd rsqrt eps arange c0_5 c1_2 c0_2 c3_2 tyx.toArray nt nr nc p nodata).1
          (0 : Int) nt nr nc r c = (List.replicate nt (0 : Int)).toArray ∧
      rd (Gen.NumKernels.ws2doptvplc_tyx F rnd rsqrt eps arange c0_5 c1_2 c0_2 c3_2 tyx.toArray nt nr nc p nodata).2
          (flat2 nr nc r c) = 0 := by
  have hS := gen_tyx_struct F rnd rsqrt eps arange c0_5 c1_2 c0_2 c3_2 tyx nt nr nc p nodata
  obtain ⟨h1, h2⟩ := hS.final (fun r c => by rw [pixOut_length, pixSeries_length]) hr hc
  beta_reduce at h1 h2
  rw [pixOut_eq_model F rnd rsqrt eps (arange (-(nat 2)) c1_2 c0_2) (arange (nat 0) c3_2 c0_2) c0_5 p nodata
    (pixSeries tyx nt nr nc r c) gNaN (by simpa using hfit)] at h1 h2
  split <;> rename_i hm <;> simp only [hm, pixSeries_length] at h1 h2 <;> exact ⟨h1, h2⟩

/-- the shapes of the two results -/
theorem gen_ws2doptvplc_tyx_shape (F : VFns α) (rnd : α → Int) (rsqrt : α → α) (eps : α)
    (arange : α → α → α → Array α) (c0_5 c1_2 c0_2 c3_2 : α) (tyx : List Int) (nt nr nc : ℕ) (p : α) (nodata : Int) :
    (Gen.NumKernels.ws2doptvplc_tyx F rnd rsqrt eps arange c0_5 c1_2 c0_2 c3_2 tyx.toArray nt nr nc p nodata).1.size
      = nt * nr * nc ∧
    (Gen.NumKernels.ws2doptvplc_tyx F rnd rsqrt eps arange c0_5 c1_2 c0_2 c3_2 tyx.toArray nt nr nc p nodata).2.size
      = nr * nc :=
  ⟨(gen_tyx_struct F rnd rsqrt eps arange c0_5 c1_2 c0_2 c3_2 tyx nt nr nc p nodata).sz,
   (gen_tyx_struct F rnd rsqrt eps arange c0_5 c1_2 c0_2 c3_2 tyx nt nr nc p nodata).sl⟩

/-! ### Non-vacuity: a `(5, 1, 2)` cube over ℚ, nodata = −1 (toy transcendental functions, a three-point toy `arange`,
`rsqrt v = 1 / v`, `rnd v = ⌊v + 1/2⌋`), evaluated on the model side.  Pixel (0, 0) has the series `1 2 4 3 5`
(`lc = 1/200 <= 0.5`: second grid; `#eval` of the model gives the column `2 3 4 4 5`, λ = 33/10), pixel (0, 1) has one valid
cell; the example below is the second pixel. -/

def FqT : VFns ℚ := ⟨fun x => x, fun x => x, fun x => x + 3, 1⟩
def arT : ℚ → ℚ → ℚ → Array ℚ := fun a _ c => #[a, a + c, a + 2 * c]
def cubeT : List Int := [1, 1, 2, -1, 4, -1, 3, -1, 5, -1]

theorem cubeT_00 : pixSeries cubeT 5 1 2 0 0 = [1, 2, 4, 3, 5] := by decide
theorem cubeT_01 : pixSeries cubeT 5 1 2 0 1 = [1, -1, -1, -1, -1] := by decide

/-- pixel (0, 1): a single valid cell - the zeros of `np.zeros`, λ = 0 (the input is NOT copied) -/
example :
    npCol3 (Gen.NumKernels.ws2doptvplc_tyx FqT (fun v : ℚ => Rat.floor (v + 1 / 2)) (fun v => 1 / v) (1 / 100000000) arT
        (1 / 2) (6 / 5) (1 / 5) (16 / 5) cubeT.toArray (5 : ℕ) (1 : ℕ) (2 : ℕ) (9 / 10) (-1)).1 (0 : Int) (5 : ℕ) (1 : ℕ) (2 : ℕ)
        (0 : ℕ) (1 : ℕ) = #[0, 0, 0, 0, 0] := by
  have h := gen_ws2doptvplc_tyx_pixel FqT (fun v : ℚ => Rat.floor (v + 1 / 2)) (fun v => 1 / v) (1 / 100000000) arT
    (1 / 2) (6 / 5) (1 / 5) (16 / 5) cubeT 5 1 2 (9 / 10) (-1) [] 0 1 (by decide) (by decide)
    (fun h => absurd h (by rw [cubeT_01]; decide))
  rw [cubeT_01, Hdc.GenNum.optvplc_invalid _ _ _ _ _ _ _ _ _ (by rw [countValid_cast]; decide)] at h
  exact h.1
end Hdc.GenNumTyx
